ID = "C16"
CLUSTER = "xform"
EXTRACT_V = "ExtractXform.v"
MODEL_DEPS = ["Base/Bytes.v", "DM/Value.v", "Xform/Transform.v", "Xform/WalkT.v"]
DRIVER = "c16_driver"
HARNESS = "c16"
COUNTS = {"quick": 4000, "thorough": 400000}
DESIGN_REF = "DESIGN.md §4 C16"
TECHNIQUE = ("Coq proof (model of focusedTransform = update of the link-expanded tree, by induction on the recursion; "
             "store monotonicity; callback, identity and sequence laws; quirk analysis with refutation witnesses) + "
             "differential run of the extracted model and of the SPEC against traversal.FocusedTransform / "
             "WalkTransforming on generated block graphs")
LEVEL_TEXT = ("Theorems in coq/Props/C16.v about the executable model coq/Xform/Transform.v of "
              "traversal.Progress.focusedTransform (sibling copy loops, index parsing, createParents, nil = remove, "
              "the link case load -> transform -> store under the same prototype -> re-link, error classes, panics) over "
              "a block store with an arbitrary link function: for all graphs, paths, callbacks, createParents settings "
              "and sequences of transforms, a completed transform of the repaired model returns exactly the SPEC update "
              "of the link-expanded tree (all other entries equal and in order, blocks on the path re-encoded and "
              "re-linked, untouched blocks keep their links), st is contained in st', errors are the SPEC's errors, the "
              "callback is shown the node at the target, an identity transform returns the same root, sequences compose. "
              "For the tree as pinned the same holds on the domain without removals / negative indices / '-' before "
              "further segments (C16_focus_partial); the full statement is refuted by seven witnesses "
              "(C16_*_refuted), each a listed known finding.  WalkTransforming: model of walkTransforming for a selector "
              "fragment (with switches for the selector behaviours before/after b8b93dd, 873f3b3, 87fc183, set from a probe "
              "record), identity law on link-free trees proved for every switch setting, link inlining refuted; otherwise "
              "correspondence only.")
LEVEL_NOTE = ("Trusted: Coq kernel, extraction, the Go harness (graph generator, dumper, error classifier) and the OCaml "
              "driver. basicnode builders, PathSegment/strconv.ParseInt, the dag-cbor round trip (= key sorting) and "
              "memstore (first write wins) are modelled by hand and tied by the differential run only. The link of a "
              "block is an uninterpreted function; 'the stored block is retrievable under its link' needs the final "
              "store to be collision free (hypothesis `coherent`), which the run checks on the real store. Input "
              "non-mutation is observed by re-dumping (heap-level immutability is C11). Budgets, typed nodes, ADLs and "
              "TransformFn errors are not modelled; selector-driven transforms beyond the small fragment are not proved.")
TRUSTED = ["basicnode builder behaviour (AssignNode(nil) stores nil, root builders are kind-specific), strconv.ParseInt, "
           "memstore.Put first-write-wins: hand-modelled in coq/Xform/Transform.v; tied by correspondence only",
           "dag-cbor store/load round trip of a block = sort_maps rfc_ltb (C02's round-trip theorem); tied here by comparing "
           "every stored block as loaded",
           "link function: arbitrary (Section variable mklink); theorems about retrievability of new blocks assume the final "
           "store is coherent (no two different blocks under one link) - an explicit hypothesis, satisfiable (C16_examples)",
           "the driver instantiates mklink with the (block -> CID) table observed from the real link system"]
RULE = ("graphs: lib.Rng.GenVal values split bottom-up into 0-3 dag-cbor blocks in a memstore LinkSystem (plus dangling "
        "links); per graph 1-5 transforms (existing position, new key, '-', missing parents, beyond bounds, scalar early, "
        "odd index spellings, through links and chains of link-only blocks, segments string- or int-stored, numeric-looking "
        "map keys; callbacks const/identity/delete/wrap; createParents on/off; failing transforms inside the run - values "
        "the block codec refuses, injected storage faults - followed by valid ones) or one "
        "WalkTransforming with a selector of the modelled fragment (matcher, all, fields, index, range, union, recursive; "
        "the returned tree and the (path, node) callback log are compared); fixed corpus of boundary cases and finding witnesses "
        "first; distinct = distinct (blocks, root, steps); non-trivial = at least one step beyond the root")
SEARCH_SEEDS = [1000003, 2000003]


def classify(fs):
    if fs[1] == "quirks":
        return "probe"
    if fs[1] == "wt":
        return "walk:" + fs[5].split(":")[0]
    nblocks = 0 if fs[2] in ("-", "") else fs[2].count(";") + 1
    nsteps = fs[4].count("|") + 1
    return "focus:blocks=%d:steps=%d" % (min(nblocks, 3), min(nsteps, 3))


def nontrivial(fs):
    if fs[1] == "ft":
        return "/" in fs[4]
    return fs[1] == "wt" and len(fs[3]) > 4


def input_key(fs):
    return "\t".join(fs[1:5])
