ID = "C05"
CLUSTER = "link"
EXTRACT_V = "ExtractLink.v"
MODEL_DEPS = ["Base/Bytes.v", "Base/GoSem.v", "Gen/FromGo.v", "DM/Value.v", "Codec/Cid.v", "Codec/Cbor.v", "Link/LinkSys.v"]
DRIVER = "link_driver"
HARNESS = "c05"
COUNTS = {"quick": 3000, "thorough": 8000}
DESIGN_REF = "DESIGN.md §4 C05"
TECHNIQUE = ("Coq proof by induction over store/compute/load histories of a LinkSystem model that is parametric in "
             "the hash functions and the codec registry + differential run of the extracted model (real digests and "
             "JSON codec behaviour supplied as finite tables; dag-cbor/cbor/raw from the concrete codec models)")
LEVEL_TEXT = ("Theorems in coq/Props/C05.v about the executable model coq/Link/LinkSys.v (LinkSystem.Store/ComputeLink/"
              "Load/LoadRaw/LoadPlusRaw/Fill, cidlink BuildLink with truncation/identity/CIDv0 rules and panics, "
              "memstore and cidlink.Memory keying): for EVERY hash function and codec registry, after any history "
              "Store returns exactly what ComputeLink returns; the link is independent of the history and, for "
              "order-insensitive encoders, of map entry order; every stored block sits under a link it hashes to; a "
              "stored link loads back through all four load functions as the decoding of exactly the stored bytes "
              "(= the canonical value, given the codec's round-trip law) unless another store of the history collided "
              "on the storage key. Tied to /repo by running the extracted model on the same random histories "
              "(<=30 ops quick, <=300 thorough) over one LinkSystem and store as the Go harness: CID v0/v1 x 5 codecs x "
              "sha2-256/sha2-512/sha3-256/identity x full/truncated digests, basicnode and bindnode holders, schema-typed "
              "holders whose representation differs from the type-level view (bindnode tuple / stringjoin / rename structs, "
              "keyed union, gendemo) as the node stored / computed and as the load prototype, "
              "re-created values in other insertion orders, memstore and cidlink.Memory, store contents compared; 2/5 of the "
              "histories run on cidlink.LinkSystemUsingMulticodecRegistry over a PRIVATE registry (standard numbers "
              "re-bound to other implementations, private numbers, numbers bound for encoding only / decoding only), "
              "the rest on DefaultLinkSystem; stores through writers with transient faults; NESTED operations (a storage "
              "opener that performs a ComputeLink / load with the same hash function, on the same or a second link "
              "system, before returning) — for the model a nested operation is the same operation performed just "
              "before the outer one (hashers are fresh per call): a tie obligation discharged by this run.")
LEVEL_NOTE = ("The hash functions are arbitrary (no law assumed). For dag-cbor the codec laws (round trip, insensitivity to "
              "map entry order) are discharged against coq/Codec/Cbor.v by citing C02's theorems, so "
              "C05_dagcbor_link_fn_perm / C05_dagcbor_store_load have no codec premise; raw likewise. dag-json/json are "
              "not modelled: their encoder/decoder behaviour enters the extracted model as tables printed by the harness, "
              "and the general theorems use them only through the stated laws, which are C04's subject. Node "
              "implementations are abstracted to their data-model value; holder-independence is established by the "
              "differential run only. Store-then-load is conditional on no other store of the history colliding on the "
              "storage key (a property of the history, not of the hash; shown necessary).")
TRUSTED = ["hash functions: arbitrary Section variables hasher_ok/hash (no law assumed); real digests enter the extracted model as per-record tables",
           "dag-json and json codecs: Section-level codec values; laws assumed where stated: roundtrips, order_insensitive (C04); their real behaviour enters the model run as per-record tables",
           "dag-cbor round-trip / order-insensitivity: C02's theorems (Proofs/CborEnc.v encb_perm_invariant, Proofs/CborDec.v decode_encode) about the hand-written model coq/Codec/Cbor.v of dagcbor + refmt",
           "large blocks (1-16 MiB) travel under run-length NAMES (harness/lib/link_big.go): the model is run on the names with hash tables keyed by names; sound because the model is parametric in the hash and touches such blocks only through hash, equality and codec (raw: concrete model on names; dag-cbor: tables for these records)",
           "go-cid / go-multihash / go-varint (Prefix, NewCidV0/V1, Encode, PutUvarint): hand-modelled in coq/Link/LinkSys.v; tied by correspondence only",
           "node implementations (basicnode, bindnode) abstracted to the data-model value they hold; tied by correspondence only"]
RULE = ("random histories of Store / ComputeLink / Load / LoadRaw / LoadPlusRaw / Fill on one LinkSystem (global or a "
        "generated private multicodec registry, described in the record) + store; values "
        "from the structured generator restricted to each codec's domain, re-created with permuted insertion order and "
        "other holders; prototypes over CID v0/v1 x codecs x hashes x digest lengths; fixed corpus of every codec x hash "
        "x length first; distinct = distinct (store kind, trusted, op list); non-trivial = at least 3 operations")
SEARCH_SEEDS = [1000004, 2000005]


def classify(fs):
    ops = fs[5].split(";")
    kinds = "".join(sorted(set(o[0] for o in ops)))
    n = len(ops)
    b = "1-5" if n <= 5 else "6-15" if n <= 15 else "16-30" if n <= 30 else "31+"
    return "%s:%s:%s:%s:%s" % (fs[2], "trusted" if fs[3] == "1" else "untrusted",
                               "global" if fs[4] == "G" else "private-registry", kinds, b)


def nontrivial(fs):
    return fs[5].count(";") >= 2


def input_key(fs):
    return "\t".join(fs[2:6])
