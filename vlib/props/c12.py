ID = "C12"
CLUSTER = "node"
EXTRACT_V = "ExtractNode.v"
MODEL_DEPS = ["Base/Bytes.v", "DM/Value.v", "Node/Basic.v", "Node/Typed.v"]
DRIVER = "c12_driver"
HARNESS = "c12"
COUNTS = {"quick": 400, "thorough": 20000}
DESIGN_REF = "DESIGN.md §4 C12"
TECHNIQUE = ("Coq proof (legal grammar with injected rejections as an inductive relation over annotated scripts; per-call results, "
             "rollback equation, bad-kind reporting; induction over values and derivations) + differential run of the extracted "
             "models of basicnode and of the typed engines against the real assemblers, call by call")
LEVEL_TEXT = ("Theorems in coq/Props/C12.v about the executable model coq/Node/Basic.v of the basicnode assemblers: every call "
              "sequence of the legal grammar (coq/Node/Protocol.v: nested to any depth, entry shortcut or key+value, any prototype), "
              "with a repeated key (through AssembleEntry or through the key assembler, after any number of wrong-kind tries) and "
              "wrong-kind assignments (key assemblers, typed root builders) injected at any position, yields call by call exactly "
              "the annotated results, finishes, and builds exactly the accepted entries in order; the rollback equation "
              "run(pre ++ rejected ++ post) = run(pre ++ post); a bad kind is reported by that call and changes nothing. "
              "For the typed engines (bindnode, generated code; model coq/Node/Typed.v, types Msg3 and {String:Msg3}) the "
              "all-scripts theorem is proved too (C12_typed_all_scripts: structs, typed maps and lists nested to any depth, every "
              "rejection kind at any position, every quirk setting with the protocol defects off; rollback; bad kind; misuse detected "
              "by generated code) and refuted by one witness per known finding for the pinned setting. A wider typed family "
              "(bindnode over inferred Go types: {String:Any}, [Any] with nested containers built through Begin...Finish, "
              "{String:{String:Int}}, [[String]], structs with every scalar kind, nested struct/list/map, optional and nullable "
              "fields, typed maps of structs, random types of that family; gendemo where the type exists) is checked against the "
              "contract directly (no Coq model): legal script => every call ok and the node reads back as the value; every assign "
              "form a typed position cannot hold (Assign*, BeginMap/List, AssignNode of basicnode nodes of every kind incl. "
              "UintNode <= and > MaxInt64) => an error from that call, never a panic, assembler still usable. Tied to /repo by running "
              "the same annotated scripts, and all call sequences over a 9-call alphabet up to depth 6 (8 thorough), against the "
              "real assemblers under recover.")
LEVEL_NOTE = ("Partial: the typed model covers Msg3 structs and typed maps/lists of them (no optional/nullable fields, unions, "
              "representation level: SPEC-only run); the generated list assembler is modelled after the template, not run. Calls to stale handles / methods the handle's Go type lacks are "
              "outside the model (ONoMethod) and are not generated. Known findings: see known_findings.d/C12.json.")
TRUSTED = ["the model of the typed engines (coq/Node/Typed.v) is faithful only on the grammar-with-injections family the harness generates; tied by correspondence",
           "Go map semantics for plainMap.m: association list read by first match",
           "the typed family (engines tbind:/tgen:) has no Coq model: the driver evaluates the contract on the implementation's observation only"]
RULE = ("(a) every call sequence over {BeginMap, BeginList, AssembleKey, AssembleValue, AssembleEntry a/b, AssignString a, AssignInt 1, "
        "Finish} on Prototype.Any whose proper prefixes neither panic nor leave the handles, to depth 6; (b) generated values x legal "
        "scripts x one variant per injection point (repeated key in 3 forms, wrong-kind tries at keys, values and typed roots) + "
        "one with all points, on basicnode prototypes and, for Msg3 / {String:Msg3}, the same script on bindnode and gendemo; "
        "(c) Reset then a second build; (d) the typed family: fixed + random schema types x type-level values x legal scripts "
        "(type level and representation level; containers arriving by Begin...Finish, as basicnode nodes or as same-engine nodes, mixed among siblings) "
        "x refused assign forms at one typed position per variant + a variant with ALL refused forms at ALL positions; distinct = distinct (engine, script); non-trivial = at least 3 calls")


def classify(fs):
    if fs[1] == "probe":
        return "probe"
    inj = "inj" if "!" in fs[4] else "clean"
    return fs[2] + ":" + inj


def nontrivial(fs):
    if fs[1] == "probe":
        return False
    return fs[4].count(" ") >= 2


def input_key(fs):
    if fs[1] == "probe":
        return fs[2]
    return fs[2] + "\t" + fs[4]
