ID = "C17"
CLUSTER = "store"
EXTRACT_V = "ExtractStore.v"
MODEL_DEPS = ["Base/Bytes.v", "Base/GoSem.v", "Gen/FromGo.v", "DM/Value.v", "Codec/Cid.v",
              "Store/Storage.v", "Store/FsStore.v", "Store/FsCrash.v"]
DRIVER = "c17_driver"
HARNESS = "c17"
COUNTS = {"quick": 900, "thorough": 30000}
HARNESS_TIMEOUT = {"quick": 2400, "thorough": 7200}
DESIGN_REF = "DESIGN.md §4 C17"
TECHNIQUE = ("Coq proof (refinement of a finite map by heap/file-system state machines over all histories; path "
             "injectivity and containment; refutation lemmas for the pinned code) + gotrans regeneration of the sharding "
             "functions + differential run of the extracted model against memstore, cidlink.Memory and fsstore, with the "
             "whole sandbox directory listed after every operation")
LEVEL_TEXT = ("Theorems in coq/Props/C17.v. (1) memstore and cidlink.Memory, modelled with explicit buffer aliasing "
              "(copy on put, copy on get, Peek returns the stored slice; funcs.go fall-backs), refine the finite map "
              "(projected) key -> bytes for EVERY history in which each key has one content and the caller does not write to "
              "peeked slices: has/get/get-stream/peek agree, absent keys absent, distinct keys never alias "
              "(C17_refines, C17_distinct_keys_never_alias); later writes to the slice handed to put never reach the store "
              "(C17_insulated). (2) fsstore over a POSIX file-system model (filepath.Join/Clean on components, ENOENT/ENOTDIR/"
              "EISDIR/ENAMETOOLONG/EINVAL, os.Rename's Lstat, mkdir-on-ENOENT, staging in .temp): when the escaping function is "
              "applied (base32: shape proved, C17_b32_shape), pathForKey is injective (C17_fs_injective), every system call of every "
              "operation of every history stays strictly inside the base directory with no '..' (C17_fs_contained), and the "
              "store refines the same finite map for all storable keys (C17_refines_fs, C17_refines_fs_repaired). The sharding functions are the "
              "definitions gotrans regenerates from sharding.go on every run; they are proved total (C17_shard_total). "
              "(3) The code as it stands never applies escapingFunc and treats commit(\"\") as abort-with-success: the faithful "
              "model REFUTES containment, injectivity and refinement (C17_*_refuted, by computation), and the same inputs "
              "fail on the real code (KNOWN-FINDING lines). No bound on history length or key size in the theorems. "
              "Streams kept OPEN across other operations (open / write / commit as separate steps, 2-3 at a time) are in the models, "
              "in C17_refines for the in-memory stores, in C17_fs_contained and in the fs refinement: C17_refines_fs_streams_full is a "
              "proved Theorem (simulation relation: each open stream owns one staging file that collides with no shard path, no other "
              "stream and no later put; OOpen/OWrite leave the visible map unchanged; OCommit is the atomic move), so C17_refines_fs "
              "carries no atomic_op premise any more.")
LEVEL_NOTE = ("cidlink.Memory keys by multihash by documented design: its specification is keyed by the projection cid_hash, "
              "this is not counted as aliasing. The fs refinement covers keys whose escaped form fits NAME_MAX (255): longer "
              "keys make Put fail with ENAMETOOLONG (modelled, observed; an error, not a wrong answer). The shape of the escaping "
              "function (esc_ok: injective on byte strings, [A-Z2-7], non-empty) is PROVED for base32 (C17_b32_shape), so "
              "C17_refines_fs_repaired has no hypothesis about it; for a custom escaping function it is a premise. The model's "
              "base directory is an absolute clean path. Trusted: Coq kernel, extraction, gotrans, harness, the hand-written "
              "model of package os / the kernel's path resolution (tied by the differential run on ~50 hostile key shapes).")
TRUSTED = ["POSIX path resolution and package os (OpenFile O_EXCL, Rename = Lstat + renameat with EEXIST on directories, Mkdir, Remove, "
           "NUL refused with EINVAL, NAME_MAX 255): hand-modelled in coq/Store/FsStore.v sys_exec/resolve; tied by correspondence only",
           "filepath.Join/Clean for an absolute clean base: modelled on components (join_clean); tied by correspondence",
           "a CUSTOM escaping function has the shape esc_ok (premise of the general fs theorems; for the default base32 it is proved)",
           "go-cid Cid.Hash() (multihash projection used by cidlink.Memory): modelled by cid_hash over Codec/Cid.v uvarint; tied by correspondence on real CIDs",
           "Go strings are shorter than 2^63 bytes (key_len_ok); fewer than 2^254 staging names are drawn by the model (C17_refines_fs)"]
RULE = ("histories of 10-60 operations (new slice, overwrite slice, put, put-stream, put-vec, get, get-stream, peek, has; in 45% of the "
        "histories 2-3 streams open at the same time with interleaved writes, commits in any order and aborts) over 2-7 keys "
        "drawn from real CID binaries (v0/v1, several codecs and hash functions, same multihash under different CIDs; links that share "
        "their DIGEST bytes but not the hash function: sha2-256 of X vs the identity CID of those 32 bytes vs the same bytes labelled "
        "sha3-256 / blake2b-256 / keccak-256), ~55 hostile "
        "keys (empty, '.', '..', '/', a/b vs a//b, NUL, 255/256/300 bytes, case variants, names of store directories, keys pointing "
        "into .temp; pairs of 159-300 byte keys sharing a prefix of >= 158 bytes) and random bytes; contents include the EMPTY block "
        "and one-byte blocks (about a quarter of the keys) and blocks made of blobs of 1/100/4095/4096/4097/8192/65536 bytes in mixed "
        "order (vectors, multi-write streams, open streams) through every put form; for fs keys also their escaped form under the "
        "store's escaping function (and the escaped form of that) right after an operation on the original, with base32 and with a "
        "custom (hex) escaping function; for memstore, cidlink.Memory and fsstore with each sharding function; 15% of histories write "
        "through peeked slices and 10% give a key two contents (outside the quantifier: they tie the aliasing and first/last-write "
        "models and are judged only up to that point); plus a fixed corpus with every hostile key alone, the witnesses of the "
        "findings, a fixed family of LARGE blocks (1/2/4 MiB each -1/exact/+1, 8 MiB in thorough; Put, 3-write PutStream, PutVec; "
        "Get/GetStream/Peek/Has; fsstore default + custom sharding incl. a reopened store, memstore, cidlink.Memory; compared by "
        "length+MD5 against the map specification evaluated on native strings), the empty / one-byte block through put, put-stream (also with no chunk at all) and put-vec on every store, and "
        "the long-key pairs; fsstore runs in a fresh directory six levels inside a fresh parent that is listed after every operation; "
        "distinct = distinct (store, sharding, operations); non-trivial = at least 4 operations")


def classify(fs):
    return fs[1] + ":" + fs[2].split(",")[0]


def nontrivial(fs):
    return len(fs[3].split(" ")) >= 4
