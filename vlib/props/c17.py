ID = "C17"
CLUSTER = "store"
EXTRACT_V = "ExtractStore.v"
MODEL_DEPS = ["Base/Bytes.v", "Base/GoSem.v", "Gen/FromGo.v", "DM/Value.v", "Codec/Cid.v",
              "Store/Storage.v", "Store/FsStore.v", "Store/FsCrash.v"]
DRIVER = "c17_driver"
HARNESS = "c17"
COUNTS = {"quick": 900, "thorough": 30000}
DESIGN_REF = "DESIGN.md §4 C17"
TECHNIQUE = "placeholder"
LEVEL_TEXT = "placeholder"
LEVEL_NOTE = "placeholder"
TRUSTED = []
RULE = "placeholder"


def classify(fs):
    return fs[1] + ":" + fs[2].split(",")[0]


def nontrivial(fs):
    return len(fs[3].split(" ")) >= 4
