ID = "C08"
CLUSTER = "schema"
EXTRACT_V = "ExtractSchema.v"
MODEL_DEPS = ["Base/Bytes.v", "Base/GoSem.v", "Gen/FromGo.v", "DM/Value.v", "Codec/Cid.v", "Codec/Cbor.v",
              "Schema/Types.v", "Schema/View.v", "Schema/Conform.v", "Schema/Sem.v"]
DRIVER = "schema_driver"
HARNESS = "c08"
COUNTS = {"quick": 400, "thorough": 12000}      # schemas; 12 typed values each
DESIGN_REF = "DESIGN.md §4 C08"
TECHNIQUE = ("Coq proof (views obey the strategy; both build routes rebuild the value; encode/decode/encode of the "
             "representation is stable) about an executable model of both typed-node engines + differential run of "
             "the extracted model against bindnode on generated schemas and values")
LEVEL_TEXT = ("Theorems in coq/Props/C08.v about coq/Schema/Sem.v (impl-model of bindnode's node.go/repr.go views and "
              "assemblers, parameterised by a record of its confirmed defects) against coq/Schema/Conform.v (the "
              "strategy written as plain recursive functions): for every well-formed schema and every value of the "
              "type, with the defects switched off, the representation view is the canonical view of repr_spec, the "
              "type-level and representation-level builders fed with the value's two trees both rebuild it, and the "
              "dag-cbor bytes of the representation survive decode-through-the-builder and re-encode. For each "
              "defect a _refuted lemma exhibits a schema and value where the pinned model deviates. The model is "
              "tied to /repo by running the extracted model (pinned defects on) against bindnode with inferred Go "
              "types on random schemas composed of every strategy, reading both views with every read form.")
LEVEL_NOTE = ("Trusted: Coq kernel, extraction, the Go harness (schema/value generators, dumper) and the hand-written "
              "model of bindnode (tied by the differential run only). Schemas are finite trees (no cyclic types), map "
              "keys are strings, implicit values and custom converters are not modelled. Generated code is covered "
              "by C13.")
TRUSTED = ["bindnode (node.go, repr.go, infer.go) and the schema DSL/compiler: hand-modelled in coq/Schema/Sem.v; tied by correspondence only",
           "dag-cbor codec: coq/Codec/Cbor.v (C02/C03); C08_bytes is stated over any codec with the round-trip law"]
RULE = ("random well-formed schemas (all struct/union/enum strategies, nullable/optional, depth <= 4) x 12 values "
        "generated from the type, plus a fixed corpus of witnesses; distinct = distinct (schema, value); "
        "non-trivial = schema text longer than 8 characters")


def classify(fs):
    return fs[2][:2]


def nontrivial(fs):
    return len(fs[2]) > 8
