from vlib import schema_gen_extra

ID = "C08"
CLUSTER = "schema"
EXTRACT_V = "ExtractSchema.v"
MODEL_DEPS = ["Base/Bytes.v", "Base/GoSem.v", "Gen/FromGo.v", "DM/Value.v", "Codec/Cid.v", "Codec/Cbor.v",
              "Schema/Types.v", "Schema/View.v", "Schema/Conform.v", "Schema/Sem.v"]
DRIVER = "schema_driver"
HARNESS = "c08"
COUNTS = {"quick": 400, "thorough": 12000}      # schemas; 12 typed values each
DESIGN_REF = "DESIGN.md §4 C08"
TECHNIQUE = ("Coq proof (views obey the strategy; both build routes rebuild the value; encode/decode/encode of the "
             "representation is stable) about an executable model of both typed-node engines + differential run of "
             "the extracted model against bindnode on generated schemas and values")
LEVEL_TEXT = ("Theorems in coq/Props/C08.v about coq/Schema/Sem.v (impl-model of bindnode's node.go/repr.go views and "
              "assemblers, parameterised by a record of its confirmed defects) against coq/Schema/Conform.v (the "
              "strategy written as plain recursive functions): for every well-formed schema and every value of the "
              "type, with the defects switched off, the representation view is the canonical view of repr_spec, the "
              "type-level and representation-level builders fed with the value's two trees (or with copies of its "
              "two views) both rebuild it, and over any codec that canonicalises map order (decode . encode = "
              "identity up to map-entry order; encoding independent of that order - C02's theorems for dag-cbor) "
              "the encoded representation decodes through the representation builder to the same typed value "
              "up to typed-map entry order and re-encodes to the same bytes (C08_bytes, resting on the invariance "
              "of conformance and representation under map-entry permutation). For each "
              "defect a _refuted lemma exhibits a schema and value where the pinned model deviates. The model is "
              "tied to /repo by running the extracted model (pinned defects on) against bindnode with inferred Go "
              "types on random schemas composed of every strategy, reading both views with every read form.")
LEVEL_NOTE = ("Trusted: Coq kernel, extraction, the Go harness (schema/value generators, dumper) and the hand-written "
              "model of bindnode (tied by the differential run only). Schemas are finite trees (no cyclic types), map "
              "keys are strings, implicit values and custom converters are not modelled. Generated code: a share of the values runs on a freshly generated package (records valg).")
TRUSTED = ["bindnode (node.go, repr.go, infer.go) and the schema DSL/compiler: hand-modelled in coq/Schema/Sem.v; tied by correspondence only",
           "dag-cbor codec: coq/Codec/Cbor.v (C02/C03); C08_bytes is stated over any codec with the round-trip law",
           "C08_bytes_dagjson: premises A1, A2 (strconv / refmt emitFloat float text) and CID (cid.Decode inverts Cid.String()) are hypotheses of the statement (coq/Proofs/JsonMain.v), sampled on the real code by ./check C04"]
RULE = ("random well-formed schemas (all struct/union/enum strategies, nullable/optional, depth <= 4) x 12 values "
        "generated from the type, plus a fixed corpus of witnesses; distinct = distinct (schema, value); "
        "non-trivial = schema text longer than 8 characters")


def classify(fs):
    return fs[2][:2]


def nontrivial(fs):
    return len(fs[2]) > 8


def extra(ctx):
    # both engines: a share of the cases runs on code generated afresh from the working tree's generator
    return schema_gen_extra.compiles("c08", ctx)[1]
