ID = "C10"
CLUSTER = "cbor"
EXTRACT_V = "ExtractCbor.v"
MODEL_DEPS = ["Base/Bytes.v", "Base/GoSem.v", "Gen/FromGo.v", "DM/Value.v", "Codec/Cid.v", "Codec/Cbor.v", "Codec/CborSpec.v"]
DRIVER = "c10_driver"
HARNESS = "c10"
COUNTS = {"quick": 2500, "thorough": 40000}
DESIGN_REF = "DESIGN.md §4 C10"
TECHNIQUE = "Coq proof (decoder total: fuel never exhausted; depth and allocation-ledger bounds) + gotrans regeneration of limits/costs + differential and no-panic/alloc-bound runs over all decoders, targets and path parsing"
LEVEL_TEXT = ("Proved in Coq for the DAG-CBOR/CBOR decoder model (all configurations, all byte strings): it terminates with a value or an "
              "error (the out-of-fuel outcome is unreachable; every Go panic site of the modelled code is an explicit error branch), the "
              "accepted value is within MaxDepth, and the allocation ledger cost(v) (declared lengths + per-entry costs + content "
              "lengths, constants regenerated from unmarshal.go) is within AllocationBudget. Partial: the other entry points (DAG-JSON, "
              "JSON, raw decoders; typed assemblers of bindnode and generated code; path parsing; selector compile/walk) and the "
              "real allocation volume are exercised on the real code on every run (recover()-wrapped, runtime.MemStats) rather than "
              "proved; selector compile/walk totality is covered with the traversal model (C07/C15).")
LEVEL_NOTE = ("Trusted: Coq kernel, extraction, gotrans, Go harness. Partial: real allocation is measured (TotalAlloc) against "
              "128*budget + 256*len + 1 MiB, not proved; typed assemblers and JSON decoders are only run, not modelled here.")
TRUSTED = ["refmt v0.90 CBOR tokenizer and go-cid: hand-modelled; tied by correspondence only",
           "runtime.MemStats.TotalAlloc as the measure of real allocation; bound 128*budget + 256*input length + 1 MiB (128 B covers a basicnode map entry claimed by a header)",
           "typed assemblers (bindnode, gendemo) and the JSON/raw decoders are exercised for panics and depth, not modelled in this cluster"]
RULE = ("typed targets: schema-shaped seed documents, tree-level and byte/text-level mutations through dag-cbor and dag-json; generic target: "
        "structured near-valid CBOR and its mutations over strict/relaxed x links x stop-at-end x budget x depth x prealloc cap, JSON texts and "
        "their mutations, raw; hostile length claims with allocation measured; path strings. distinct = distinct input fields; "
        "non-trivial = input of at least 2 bytes")


def nontrivial(fs):
    return len(fs[-2]) >= 4


def classify(fs):
    if fs[1] == "dec":
        t = fs[3].split(":")[0]
        return "dec:%s:%s:%s" % (fs[2], t, fs[-1].split("|")[0])
    return fs[1]
