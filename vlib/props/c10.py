ID = "C10"
CLUSTER = "cbor"
EXTRACT_V = "ExtractCbor.v"
MODEL_DEPS = ["Base/Bytes.v", "Base/GoSem.v", "Gen/FromGo.v", "DM/Value.v", "Codec/Cid.v", "Codec/Cbor.v", "Codec/CborSpec.v"]
DRIVER = "c10_driver"
HARNESS = "c10"
COUNTS = {"quick": 2500, "thorough": 40000}
DESIGN_REF = "DESIGN.md §4 C10"
TECHNIQUE = "Coq proof (decoder total: fuel never exhausted; depth and allocation-ledger bounds) + gotrans regeneration of limits/costs + differential and no-panic/alloc-bound runs over all decoders, targets and path parsing"
LEVEL_TEXT = ("Proved in Coq for the DAG-CBOR/CBOR decoder model (all configurations, all byte strings): it terminates with a value or an "
              "error (the out-of-fuel outcome is unreachable; every Go panic site of the modelled code is an explicit error branch), the "
              "accepted value is within MaxDepth, and the allocation ledger cost(v) (declared lengths + per-entry costs + content "
              "lengths, constants regenerated from unmarshal.go) is within AllocationBudget. Likewise for the DAG-JSON / JSON decoder "
              "model (coq/Codec/DagJson.v: refmt tokenizer + look-ahead window + Decode; all options, all byte strings, any ParseFloat / "
              "cid.Decode): C10_json_decode_total (out-of-fuel and stale-window outcomes unreachable, measure = buffered tokens + unread "
              "bytes) and C10_json_decode_bounded (depth within MaxDepth, at most one node per input byte; the decoder has no allocation "
              "budget), tied by exact prediction of class and depth on every dagjson/json record. Partial: the other entry points (raw "
              "decoder; typed assemblers of bindnode and generated code; path parsing) and the "
              "real allocation volume are exercised on the real code on every run (recover()-wrapped, runtime.MemStats) rather than "
              "proved. Selectors: proved for the traversal model (Trav/Selector.v, Walk.v) that compilation ends in a selector or an "
              "error for every value and that the walk of any selector over any cycle-free graph with the explicit fuel walk_fuel "
              "never panics and never runs out of fuel (C10_compile_total, C10_walk_total); compile-time allocation of ExploreRange is "
              "refuted as unbounded (C10_compile_range_alloc_refuted); the model is tied to selector.CompileSelector / WalkAdv / "
              "WalkMatching by the c10sel run (mutated declarations, extreme integers, degenerate recursion).")
LEVEL_NOTE = ("Trusted: Coq kernel, extraction, gotrans, Go harness. Partial: real allocation is measured (TotalAlloc) against "
              "128*budget + 256*len + 1 MiB, not proved; typed assemblers and the raw decoder are only run, not modelled here.")
TRUSTED = ["refmt v0.90 CBOR tokenizer and go-cid: hand-modelled; tied by correspondence only",
           "runtime.MemStats.TotalAlloc as the measure of real allocation; bound 128*budget + 256*input length + 1 MiB (128 B covers a basicnode map entry claimed by a header)",
           "typed assemblers (bindnode, gendemo) and the raw decoder are exercised for panics and depth, not modelled",
           "refmt v0.90 JSON tokenizer, encoding/base64, strconv.ParseFloat (OCaml float_of_string in the driver) and cid.Decode (table from the harness): hand-modelled / quantified in coq/Codec/DagJson.v; tied by the exact class+depth prediction on every dagjson/json record and by C04's correspondence run"]
RULE = ("typed targets: schema-shaped seed documents, tree-level and byte/text-level mutations through dag-cbor and dag-json; generic target: "
        "structured near-valid CBOR and its mutations over strict/relaxed x links x stop-at-end x budget x depth x prealloc cap, JSON texts and "
        "their mutations, raw; hostile length claims with allocation measured; path strings. distinct = distinct input fields; "
        "non-trivial = input of at least 2 bytes")


def nontrivial(fs):
    return len(fs[-2]) >= 4


def classify(fs):
    if fs[1] == "dec":
        t = fs[3].split(":")[0]
        return "dec:%s:%s:%s" % (fs[2], t, fs[-1].split("|")[0])
    return fs[1]


# ---------------------------------------------------------------------------- selector clause (traversal cluster)
SEL_COUNTS = {"quick": 1200, "thorough": 60000}


def _extra_selectors(ctx):
    """Selector compilation and selector walks (harness/cmd/c10sel): declarations from the grammar generator, their
    mutations, extreme integers, degenerate recursion; every declaration that compiles is walked (WalkAdv and
    WalkMatching, recover()-wrapped) over generated graphs.  The extracted traversal model (cluster trav, driver
    trav_driver) predicts compile class, walk class and visit/load counts; the oracle demands a result or an error."""
    import os, subprocess
    from vlib import core
    from vlib.props import c07 as trav
    name = "selectors: compile + WalkAdv/WalkMatching of generated declarations end in a result or an error, as the traversal model predicts"
    with core.Lock():
        hok, hlog = core.build_harness(["c10sel"])
        mok, mmsg = core.build_model(trav.CLUSTER, trav.EXTRACT_V, [trav.DRIVER], trav.MODEL_DEPS)
    if not hok:
        return [{"name": name, "ok": False, "info": "c10sel does not build: " + hlog.strip()[-400:]}]
    if not mok:
        return [{"name": name, "ok": False, "info": "traversal model does not build: " + mmsg.strip()[:400]}]
    cases_path = os.path.join(ctx.rundir, "sel_cases.txt")
    model_path = os.path.join(ctx.rundir, "sel_model.txt")
    exe = os.path.join(core.BIN, "c10sel")
    n = SEL_COUNTS.get(ctx.tier, 1200)
    rc, out = core.sh([exe, "-seed", str(ctx.seed), "-tier", ctx.tier, "-n", str(n), "-out", cases_path],
                      timeout=3600, cwd=core.ROOT)
    if rc != 0:
        return [{"name": name, "ok": False, "info": "c10sel failed rc=%d: %s" % (rc, out.strip()[-400:]),
                 "failures": [{"case": ["c10sel", out.strip()[-600:]], "classes": ["selector_harness_crash"],
                               "verdict": "fail:selector_harness_crash"}]}]
    drv = os.path.join(core.BUILD, "ml", trav.CLUSTER, trav.DRIVER)
    with open(cases_path, "rb") as fi, open(model_path, "wb") as fo:
        try:
            p = subprocess.run([drv], stdin=fi, stdout=fo, stderr=subprocess.PIPE, timeout=3600)
        except subprocess.TimeoutExpired:
            return [{"name": name, "ok": False, "info": "traversal model driver timeout"}]
    if p.returncode != 0:
        return [{"name": name, "ok": False, "info": "traversal model driver failed: " + p.stderr.decode("utf8", "replace")[-400:]}]
    cases = {}
    order = []
    for line in open(cases_path, errors="replace"):
        fs = line.rstrip("\n").split("\t")
        if len(fs) >= 6:
            cases[fs[0]] = fs
            order.append(fs[0])
    model = {}
    for line in open(model_path, errors="replace"):
        fs = line.rstrip("\n").split("\t")
        if len(fs) >= 3:
            model[fs[0]] = fs
    fails = []
    agree = skipped = 0
    dist = {}
    for cid in order:
        fs = cases[cid]
        obs = fs[-1]
        k = obs.split("|")[0].split(":")[0]
        dist[k] = dist.get(k, 0) + 1
        m = model.get(cid)
        short = [f if len(f) <= 600 else f[:600] + "...(%d chars)" % len(f) for f in fs]
        if m is None:
            fails.append({"case": short, "classes": ["selector_model_missing"], "verdict": "fail:selector_model_missing"})
            continue
        mo, verdict = m[1], m[2]
        if verdict.startswith("fail:"):
            fails.append({"case": short, "classes": verdict[5:].split(","), "verdict": verdict, "model": mo})
        elif verdict == "skip":
            skipped += 1
        elif mo != obs:
            fails.append({"case": short, "classes": ["selector_model_mismatch"], "verdict": "fail:selector_model_mismatch",
                          "model": mo})
        else:
            agree += 1
    known = {k["class"] for k in ctx.known if k.get("status") == "known"}
    unknown = [f for f in fails if [c for c in f["classes"] if c not in known]]
    # unknown failures first: the runner reports the first violation
    fails = unknown + [f for f in fails if f not in unknown]
    return [{"name": name + " (%d declarations)" % len(order),
             "ok": bool(order) and not unknown,
             "info": {"cases": len(order), "agree": agree, "skipped": skipped, "failures": len(fails), "by_compile_class": dist},
             "failures": fails[:60]}]


# ---------------------------------------------------------------------------- dag-json clause (json cluster)
def _extra_json(ctx):
    """DAG-JSON tie of C10_json_decode_total / _bounded: harness/cmd/c10 writes, next to cases.txt, one "j" record for
    every dagjson/json decode into the basic target (same input, same observation, plus the cid.Decode table of the
    input's string tokens).  The extracted DAG-JSON decoder model (cluster json, driver c04_driver) must predict the
    accept/reject class (ok / err:depth / err:other) and the nesting depth of the accepted value exactly; a panic of
    the real decoder is json_decode_panic, any disagreement json_model_mismatch."""
    import os, subprocess
    from vlib import core
    from vlib.props import c04 as js
    name = "dag-json: accept/reject class and depth of every dagjson/json decode as the extracted decoder model predicts"
    jpath = os.path.join(ctx.rundir, "cases.txt.j")
    if not os.path.exists(jpath):
        return [{"name": name, "ok": False, "info": "c10 harness wrote no dag-json tie records (cases.txt.j)"}]
    with core.Lock():
        mok, mmsg = core.build_model(js.CLUSTER, js.EXTRACT_V, [js.DRIVER], js.MODEL_DEPS)
    if not mok:
        return [{"name": name, "ok": False, "info": "json model does not build: " + mmsg.strip()[:400]}]
    drv = os.path.join(core.BUILD, "ml", js.CLUSTER, js.DRIVER)
    mpath = os.path.join(ctx.rundir, "json_model.txt")
    with open(jpath, "rb") as fi, open(mpath, "wb") as fo:
        try:
            p = subprocess.run([drv], stdin=fi, stdout=fo, stderr=subprocess.PIPE, timeout=3600)
        except subprocess.TimeoutExpired:
            return [{"name": name, "ok": False, "info": "json model driver timeout"}]
    if p.returncode != 0:
        return [{"name": name, "ok": False, "info": "json model driver failed: " + p.stderr.decode("utf8", "replace")[-400:]}]
    cases, order = {}, []
    for line in open(jpath, errors="replace"):
        fs = line.rstrip("\n").split("\t")
        if len(fs) >= 7:
            cases[fs[0]] = fs
            order.append(fs[0])
    model = {}
    for line in open(mpath, errors="replace"):
        fs = line.rstrip("\n").split("\t")
        if len(fs) >= 3:
            model[fs[0]] = fs
    fails, agree, dist = [], 0, {}
    for cid in order:
        fs = cases[cid]
        k = fs[2] + ":" + fs[-1].split("|")[0]
        dist[k] = dist.get(k, 0) + 1
        short = [f if len(f) <= 600 else f[:600] + "...(%d chars)" % len(f) for f in fs]
        m = model.get(cid)
        if m is None:
            fails.append({"case": short, "classes": ["json_model_mismatch"], "verdict": "fail:json_model_mismatch", "model": None})
        elif m[2].startswith("fail:"):
            fails.append({"case": short, "classes": m[2][5:].split(","), "verdict": m[2], "model": m[1]})
        elif m[1] != fs[-1]:
            fails.append({"case": short, "classes": ["json_model_mismatch"], "verdict": "fail:json_model_mismatch", "model": m[1]})
        else:
            agree += 1
    known = {k["class"] for k in ctx.known if k.get("status") == "known"}
    unknown = [f for f in fails if [c for c in f["classes"] if c not in known]]
    fails = unknown + [f for f in fails if f not in unknown]
    return [{"name": name + " (%d records)" % len(order),
             "ok": bool(order) and not unknown,
             "info": {"cases": len(order), "agree": agree, "failures": len(fails), "by_codec_and_class": dist},
             "failures": fails[:60]}]


def extra(ctx):
    return _extra_selectors(ctx) + _extra_json(ctx)
