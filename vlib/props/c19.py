ID = "C19"
CLUSTER = "bind"
EXTRACT_V = "ExtractBind.v"
MODEL_DEPS = ["Base/Bytes.v", "DM/Value.v", "Bind/GoVal.v", "Bind/Bind.v", "Bind/Spec.v"]
DRIVER = "c19_driver"
HARNESS = "c19"
COUNTS = {"quick": 400, "thorough": 20000}
DESIGN_REF = "DESIGN.md §4 C19"
TECHNIQUE = "Coq proof (view = denotation, assemble-then-view, marshal round trip, purity over call histories) + differential run of the extracted model against bindnode / codecHelpers, histories in child processes"
LEVEL_TEXT = ("Theorems in coq/Props/C19.v about the executable model coq/Bind/Bind.v of bindnode (verifyCompatibility, "
              "inferSchema over the process-global registry, inferGoType, the node view of a wrapped Go value at type and "
              "representation level, the type-level and representation-level builders, Marshal/Unmarshal) and the "
              "specification coq/Bind/Spec.v: for every bindable (schema type, Go type) pair and every well-formed Go value the "
              "view succeeds and equals the value's denotation; every tree that fits the type is assembled into a well-formed "
              "Go value that reads back as that tree; Marshal/Unmarshal through an order-preserving codec reproduces the data "
              "(what a well-formed value denotes always fits its type), also through codecs that canonicalise map entry order, instantiated with the concrete dag-cbor model (only premise: within the decoder limits); with the registry reused every call of every history of "
              "Wrap/Prototype/Marshal/Unmarshal equals the same call on the initial state and never hits the duplicate-name "
              "panic, which the pinned setting refutes. The model is tied to /repo by running the extracted model on the "
              "records of a Go harness that binds 67 declared Go types (explicit and inferred schemas) and schema-inferred Go "
              "types, with histories executed in child processes.")
LEVEL_NOTE = ("Trusted: Coq kernel, extraction, the Go harness (reflection-based renderer/parser/generator of Go values, typed "
              "dumper) and the OCaml driver. float32 conversion is a parameter of the model instantiated by OCaml's conversion. "
              "Not modelled: custom converters, stringjoin/listpairs representations, stringprefix with a non-empty delimiter, recursive schemas, "
              "non-String map keys. dag-json has no Coq round-trip theorem to instantiate the order-canonicalising theorem with; it is covered by the correspondence run.")
TRUSTED = ["float64->float32->float64 conversion: parameter narrow32 of the model (no hypothesis needed by the theorems); the driver supplies OCaml Int32.float_of_bits/bits_of_float",
           "Go field lookup by strings.Title(schema field name): the model matches struct fields by position; the harness types follow the naming convention",
           "dag-cbor / dag-json map key order is applied by the driver with sort_maps (codec correctness is C02-C04)",
           "C19_marshal_roundtrip_dagjson: premises A1, A2 (strconv / refmt emitFloat float text) and CID (cid.Decode inverts Cid.String()) are hypotheses of the statement (coq/Proofs/JsonMain.v), sampled on the real code by ./check C04"]
RULE = ("67 declared Go types (incl. keyed/kinded/stringprefix unions in every slot kind: map value by value/pointer/nullable, union member, list element, struct field plain/optional/nullable, map nested in a list; rename chains/swaps/cycles onto sibling field names, nullable/optional Bytes and lists behind pointers) x {explicit schema, inferred schema where inferSchema applies}; records = probes of the known "
        "findings, compatibility matrix (diagonal + random pairs), schema->Go type inference + build (type level, representation builder, dag-cbor decode), Wrap of random "
        "well-formed values (integer width extremes, nil/non-nil pointers, unions, enums, ordered maps), builds at type and "
        "representation level from fitting and damaged trees, dag-cbor/dag-json round trips, live-view records (one wrapped node read, the value behind the pointer replaced, the same node read again), and histories of 3-14 mixed "
        "calls each in a child process; distinct = distinct input fields; non-trivial = input longer than 8 characters")


def classify(fs):
    if fs[1] == "hist":
        ops = [st.split(",") for st in fs[2].split(";")]
        return "hist:%d-steps:%s" % (len(ops), "inferred" if any(len(o) > 2 and o[2] == "i" for o in ops) else "explicit")
    if fs[1] in ("build", "rt"):
        return fs[1] + ":" + fs[3]
    return fs[1]
