ID = "C19"
CLUSTER = "bind"
EXTRACT_V = "ExtractBind.v"
MODEL_DEPS = ["Base/Bytes.v", "DM/Value.v", "Bind/GoVal.v", "Bind/Bind.v", "Bind/Spec.v"]
DRIVER = "c19_driver"
HARNESS = "c19"
COUNTS = {"quick": 400, "thorough": 6000}
DESIGN_REF = "DESIGN.md §4 C19"
TECHNIQUE = "Coq proof (view = denotation, assemble-then-view, marshal round trip, purity over call histories) + differential run of the extracted model against bindnode / codecHelpers, histories in child processes"
LEVEL_TEXT = ""
LEVEL_NOTE = ""
TRUSTED = []
RULE = ""


def classify(fs):
    if fs[1] == "hist":
        return "hist:" + fs[4] + ":" + fs[6]
    return fs[1]
