ID = "C18"
CLUSTER = "store"
EXTRACT_V = "ExtractStore.v"
MODEL_DEPS = ["Base/Bytes.v", "Base/GoSem.v", "Gen/FromGo.v", "DM/Value.v", "Codec/Cid.v",
              "Store/Storage.v", "Store/FsStore.v", "Store/FsCrash.v"]
DRIVER = "c18_driver"
HARNESS = "c18"
COUNTS = {"quick": 10, "thorough": 0}
DESIGN_REF = "DESIGN.md §4 C18"
TECHNIQUE = "placeholder"
LEVEL_TEXT = "placeholder"
LEVEL_NOTE = "placeholder"
TRUSTED = []
RULE = "placeholder"
