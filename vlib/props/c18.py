import os, subprocess
from .. import core

ID = "C18"
CLUSTER = "store"
EXTRACT_V = "ExtractStore.v"
MODEL_DEPS = ["Base/Bytes.v", "Base/GoSem.v", "Gen/FromGo.v", "DM/Value.v", "Codec/Cid.v",
              "Store/Storage.v", "Store/FsStore.v", "Store/FsCrash.v"]
DRIVER = "c18_driver"
HARNESS = "c18"
# -n = number of scenarios (store pre-state x operation x sharding function); every scenario is run once
# without a fault and once per (system call of the operation) x (SIGKILL | injected errno)
COUNTS = {"quick": 10, "thorough": 0}
HARNESS_TIMEOUT = {"quick": 2400, "thorough": 7200}
DESIGN_REF = "DESIGN.md §4 C18"
TECHNIQUE = ("Coq proof of an invariant over all interleavings x crash prefixes x failing system calls of the "
             "writer state machine + strace system-call trace comparison + SIGKILL/errno injection on the real binary "
             "(strace -e inject) with verification by a new process + concurrent writers/readers under the race detector")
LEVEL_TEXT = ("Theorems in coq/Props/C18.v about coq/Store/FsCrash.v: any number of writers (Put, PutVec, PutStream+commit, "
              "aborted streams; same or different keys), each the one-system-call-per-step state machine of "
              "coq/Store/FsStore.v (create O_EXCL under .temp, write*, close, Lstat+renameat, mkdir-on-ENOENT and rename again, "
              "unlink on abort), interleaved arbitrarily, stopped after any number of steps (crash), with any step replaced "
              "by a failure (a failing write may be short): in every reachable state every key path is absent or holds exactly "
              "the whole content some writer committed for that key; staging names never coincide with key paths; a fresh "
              "store opened on any such state accepts further puts and gets. PARTIAL by nature: durability without fsync, "
              "the kernel's actual rename atomicity and real thread scheduling are outside the model (exercised, not proved).")
LEVEL_NOTE = ("Partial: the POSIX facts the proof rests on are built into the model's system-call semantics and trusted "
              "(renameat atomic and replacing; O_EXCL; a staging file is visible only under .temp; an open descriptor keeps "
              "its inode). No fsync is issued by the code, so durability across power loss is NOT claimed (only process "
              "death). Real scheduling is sampled by concurrent goroutines under the race detector, not enumerated. "
              "Keys subject to the C17 defect (escapingFunc never applied: keys with '/', '.', NUL, empty) are excluded "
              "explicitly by the hypothesis [keypath]; C18_staging_collision_refuted shows why.")
TRUSTED = ["POSIX semantics as modelled in coq/Store/FsStore.v sys_exec: renameat is atomic and replaces its destination; "
           "open(O_CREAT|O_EXCL) fails if the name exists; mkdir/unlink/rename failures have no effect; a failing write may be short",
           "a reader that has opened a file keeps reading the inode it opened (fsstore never writes to an inode after renaming it)",
           "package os as modelled: os.Rename = Lstat(new) [+ Lstat(old)] + renameat, reporting EEXIST itself when new is a directory; "
           "os.Remove = unlink (+ rmdir attempt, dropped from traces)",
           "strace 6.1 (-f, -e inject=<syscall>:signal=SIGKILL|error=E:when=k): the signal arrives on syscall entry, the call is not executed (measured)",
           "crypto/rand staging names are modelled as fresh names; O_EXCL retry is modelled; durability without fsync is NOT modelled"]
RULE = ("scenarios = sharding function x store pre-state (empty, shard directories exist, key already stored, other key) x "
        "operation (Put, PutVec 3 chunks, aborted PutStream, empty block, 1 KiB block); each once fault-free (trace compared "
        "with the model's system-call list), once killed before each of its system calls, and once per system call x errno "
        "(EIO; +ENOSPC, EACCES on write/rename/mkdir/create; +EEXIST on create and mkdir; +ENOENT on rename); after each run a new "
        "process lists the store, reads every key and does a further put/get; plus Put under a context that reports cancellation "
        "after PutStream's own check (fault-free; must publish nothing or everything) and two Store values on ONE directory with "
        "interleaved streams / a Put inside an open stream / the same key (no mixed block, nobody fails); the same fault "
        "enumeration and concurrent readers with <base>/.temp symlinked into ANOTHER file system (rename refused with EXDEV: "
        "the key stays absent; a copy into the key path would show as a trace mismatch and as `partial` under kill); "
        "distinct = distinct (scenario, fault)")


def classify(fs):
    if fs[2] == "conc":
        return "conc:" + fs[1].split(",")[0]
    if fs[2] == "two":
        return "two-stores:" + fs[3] + ":" + fs[1].split(",")[0]
    return fs[3] + ":" + fs[1].split(",")[0] + ":" + fs[6].split("@")[0]


def nontrivial(fs):
    return True


def extra(ctx):
    """concurrent writers/readers (same and different keys) in a -race build; a reader asserts
    absent-or-complete.  Also checks that strace fault injection is operational (otherwise the
    crash enumeration above would be vacuous)."""
    res = []
    rc, out = core.sh("strace -V", timeout=20)
    res.append({"name": "runtime: strace with fault injection available", "ok": rc == 0, "info": out.strip().split("\n")[0]})
    # the "staging on another file system" scenarios need a second file system: say explicitly whether they ran
    second = ""
    try:
        here = os.stat(core.BUILD).st_dev
        for cand in ("/dev/shm", "/run/shm", "/tmp"):
            if os.path.isdir(cand) and os.stat(cand).st_dev != here and os.access(cand, os.W_OK):
                second = cand
                break
    except OSError:
        pass
    nx = total = 0
    cases = os.path.join(ctx.rundir, "cases.txt")
    if os.path.exists(cases):
        for l in open(cases, errors="replace"):
            total += 1
            if l.split("\t")[1:2] and l.split("\t")[1].endswith(",x"):
                nx += 1
    if second:
        res.append({"name": "runtime: staging-on-another-file-system scenarios ran (%d records; .temp symlinked into %s)" % (nx, second),
                    "ok": nx > 0 or total < 50,   # (a replay of a few records need not contain one)
                    "info": "second file system: %s" % second})
    else:
        res.append({"name": "runtime: staging-on-another-file-system scenarios SKIPPED: no second writable file system (/dev/shm, /run/shm, /tmp)",
                    "ok": True, "info": "SKIPPED: the EXDEV path of move() was not exercised in this run"})
    with core.Lock():
        ok, log = core.build_harness(["c18"], race=True)
    if not ok:
        res.append({"name": "runtime: c18 builds with the race detector", "ok": False, "info": log[-400:]})
        return res
    outp = os.path.join(ctx.rundir, "race_cases.txt")
    env = dict(os.environ)
    env["C18_MODE"] = "conc"
    exe = os.path.join(core.BIN + "-race", "c18")
    p = subprocess.run([exe, "-tier", ctx.tier, "-seed", str(ctx.seed), "-out", outp], cwd=core.ROOT, env=env,
                       stdout=subprocess.PIPE, stderr=subprocess.PIPE, timeout=1800)
    err = p.stderr.decode("utf8", "replace")
    fails = []
    n = 0
    if os.path.exists(outp):
        for line in open(outp):
            fs = line.rstrip("\n").split("\t")
            n += 1
            if fs[-1] != "readers_ok":
                cls = fs[-1].split(":")[0]
                fails.append({"case": fs, "classes": [cls], "verdict": "fail:" + cls})
    race = "DATA RACE" in err
    if race:
        fails.append({"case": ["race-detector", err[-1500:]], "classes": ["data_race_fsstore"], "verdict": "fail:data_race_fsstore"})
    res.append({"name": "runtime: %d concurrent writer/reader runs under the race detector: every read absent-or-complete, no data race" % n,
                "ok": p.returncode == 0 and not fails and n > 0, "info": "rc=%d %s" % (p.returncode, err[-300:] if p.returncode else ""),
                "failures": fails})
    return res
