ID = "C14"
CLUSTER = "trav"
EXTRACT_V = "ExtractTrav.v"
MODEL_DEPS = ["Base/Bytes.v", "Base/GoSem.v", "Gen/FromGo.v", "DM/Value.v", "Trav/Selector.v", "Trav/Walk.v",
              "Trav/Controls.v", "Trav/Path.v", "Trav/SelectorSpec.v", "Trav/QuirkFree.v", "Trav/Total.v"]
DRIVER = "trav_driver"
HARNESS = "c14"
COUNTS = {"quick": 700, "thorough": 50000}
DESIGN_REF = "DESIGN.md §4 C14"
TECHNIQUE = ("Coq proof (every path reported by the walk resolves with get to the visited node; get = fold of one-segment "
             "lookups; failure characterisation; path text round trip) + differential run of the extracted walk / get / "
             "path model against WalkAdv, Get, Focus, stepwise lookups and ParsePath/String")
LEVEL_TEXT = ("Theorems in coq/Props/C14.v about the executable models coq/Trav/Walk.v (walk) and coq/Trav/Path.v (Progress.get, "
              "ParsePath, Path.String): for all graphs with unique map keys whose blocks are not bare links, all selectors and "
              "fuel, every visit (path, node) of the walk satisfies get root path = node (or the node is the subset slice of "
              "it for subset matches); get is the fold of single-segment lookups with link loading; get fails exactly when one "
              "single step fails, with that step's error; parse(format p) = p when no segment is empty or contains '/'. "
              "Tied to /repo by re-resolving every visited path of generated walks with Get, Focus and stepwise lookups, plus "
              "arbitrary paths and path strings, against the extracted model.")
LEVEL_NOTE = ("Trusted: Coq kernel, extraction, harness; hand model of focus.go get / path.go / pathSegment.go (tied by the "
              "differential run). The Budget of Get and FocusedTransform are not part of C14.")
TRUSTED = ["hand model of traversal/focus.go (get), datamodel/path.go, pathSegment.go, basicnode lookups in coq/Trav/Path.v, Selector.v; tied by correspondence only",
           "strings.FieldsFunc splits at the byte '/' (rune-level and byte-level splitting coincide for '/')"]
RULE = ("c14v: generated (graph, selector) pairs, every visit of WalkAdv re-resolved three ways; c14p: arbitrary paths derived "
        "from visited ones (extended, truncated, re-spelled numerics, odd segments) or unrelated; c14r: path segment lists "
        "formatted and re-parsed; distinct = distinct input fields; non-trivial = input longer than 8 characters")


def classify(fs):
    k = fs[1]
    obs = fs[-1]
    if k == "c14v":
        return "visits:" + (obs.rsplit("|", 1)[-1] if "|" in obs else obs)
    if k in ("c14l", "c14a", "c14t"):
        return {"c14l": "walklocal", "c14a": "path-api", "c14t": "walktransforming(oracle only)"}[k]
    if k == "c14n":
        return "nested:" + "".join(p[0] for p in fs[5].split(">")) + ":" + obs.rsplit("|", 1)[-1]
    if k == "c14p":
        return "path:" + obs.split(";")[0].split(" ")[0] + ":" + (obs.split(";")[0].split(" ")[1] if obs.startswith("err") else "")
    return "roundtrip"
