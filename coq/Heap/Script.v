(* Heap/Script.v — clients of the basicnode heap model: the library code that *uses* the builder
   and node API (datamodel.Copy, traversal.FocusedTransform, a decoder filling an any-builder,
   an encoder / dumper reading a node, a walk), written as sequences of API calls ([pstep]) so that
   every theorem about legal histories of API calls covers them; and the script language the C11
   harness and driver share.  MODEL file: definitions only. *)
Require Import IP.Base.Bytes IP.DM.Value IP.Heap.GoMem IP.Heap.BasicHeap.
From Coq Require Import List Arith Bool ZArith.
Import ListNotations.
Local Open Scope nat_scope.

Section Script.
Variable cf : cfg.

(* heap + handed-out handles, and "every call so far was legal" *)
Definition X := (pstate * bool)%type.

Definition xs (x : X) (p : prim) : X * presult :=
  let '(ps, lg) := x in
  let '(ps', r) := pstep cf ps p in ((ps', lg && legal ps p), r).

Definition res_handle (r : presult) : option handle :=
  match r with RDone (POk h) => Some h | _ => None end.

(* ------------------------------------------------------------------ reading a whole node *)

Inductive dnode :=
| DnErr (tag : nat)
| DnNull
| DnScalar (s : scalar)
| DnBytes (b : list N) (l : option (list N))        (* AsBytes; AsLargeBytes+ReadAll when offered *)
| DnList (len : Z) (items : list dnode) (lk : list kind)
| DnMap (len : Z) (ents : list (bytes * dnode)) (lk : list kind) (pk : list kind).   (* pk: lookups of the probe keys *)

(* keys looked up in every map on every dump, present or not: "a" "b" "c" "k" "" "0" "1" "ab" "key" "z" "q" "new" *)
Definition probe_keys : list bytes :=
  [[97]; [98]; [99]; [107]; []; [48]; [49]; [97; 98]; [107; 101; 121]; [122]; [113]; [110; 101; 119]]%N.

Definition kind_skind (k : kind) : option skind :=
  match k with
  | KdBool => Some KBool | KdInt => Some KInt | KdFloat => Some KFloat | KdString => Some KString
  | KdLink => Some KLink | _ => None
  end.

Definition lookup_kind (x : X) (r : nref) (a : acc) : X * kind :=
  let '(x1, res) := xs x (PRead (HNode r) a) in
  (x1, match res with RDone (PAcc (XNode r')) => nref_kind r' | _ => KdInvalid end).

(* the harness's dumper: every accessor of every node below [r], in a fixed order *)
Fixpoint dump (fuel : nat) (x : X) (r : nref) : X * dnode :=
  match fuel with
  | O => (x, DnErr 0)
  | S f =>
    match nref_kind r with
    | KdInvalid => (x, DnErr 1)
    | KdNull => (x, DnNull)
    | KdBytes =>
        let '(x1, r1) := xs x (PRead (HNode r) ABytes) in
        let '(x2, r2) := xs x1 (PRead (HNode r) ALarge) in
        match r1 with
        | RDone (PAcc (XBytes b _)) =>
            (x2, DnBytes b (match r2 with RDone (PAcc (XBytes l _)) => Some l | _ => None end))
        | _ => (x2, DnErr 2)
        end
    | KdList =>
        let '(x1, r1) := xs x (PRead (HNode r) ALength) in
        let '(x2, r2) := xs x1 (PRead (HNode r) AItems) in
        match r1, r2 with
        | RDone (PAcc (XLen n)), RDone (PAcc (XItems l)) =>
            let '(x3, ds) := fold_left (fun acc c => let '(xa, ds) := acc in
                                          let '(xb, d) := dump f xa c in (xb, ds ++ [d])) l (x2, []) in
            let '(x4, ks) := fold_left (fun acc i => let '(xa, ks) := acc in
                                          let '(xb, k) := lookup_kind xa r (ALookupI (Z.of_nat i)) in (xb, ks ++ [k]))
                                       (seq 0 (length l)) (x3, []) in
            (x4, DnList n ds ks)
        | _, _ => (x2, DnErr 3)
        end
    | KdMap =>
        let '(x1, r1) := xs x (PRead (HNode r) ALength) in
        let '(x2, r2) := xs x1 (PRead (HNode r) AEntries) in
        match r1, r2 with
        | RDone (PAcc (XLen n)), RDone (PAcc (XEntries l)) =>
            let '(x3, ds) := fold_left (fun acc kc => let '(xa, ds) := acc in
                                          let '(xb, d) := dump f xa (snd kc) in (xb, ds ++ [(fst kc, d)])) l (x2, []) in
            let '(x4, ks) := fold_left (fun acc kc => let '(xa, ks) := acc in
                                          let '(xb, k) := lookup_kind xa r (ALookupS (fst kc)) in (xb, ks ++ [k]))
                                       l (x3, []) in
            let '(x5, ps) := fold_left (fun acc k => let '(xa, ps) := acc in
                                          let '(xb, kd) := lookup_kind xa r (ALookupS k) in (xb, ps ++ [kd]))
                                       probe_keys (x4, []) in
            (x5, DnMap n ds ks ps)
        | _, _ => (x2, DnErr 4)
        end
    | k =>
        match kind_skind k with
        | Some sk =>
            let '(x1, r1) := xs x (PRead (HNode r) (AScalar sk)) in
            (x1, match r1 with RDone (PAcc (XScalar s)) => DnScalar s | _ => DnErr 5 end)
        | None => (x, DnErr 6)
        end
    end
  end.

(* dagcbor.Encode: one AsBytes per bytes node; map entries visited in RFC7049 key order *)
Fixpoint encread (fuel : nat) (x : X) (r : nref) : X * bool :=
  match fuel with
  | O => (x, false)
  | S f =>
    match nref_kind r with
    | KdInvalid => (x, false)
    | KdNull => (x, true)
    | KdBytes => let '(x1, r1) := xs x (PRead (HNode r) ABytes) in
                 (x1, match r1 with RDone (PAcc (XBytes _ _)) => true | _ => false end)
    | KdList =>
        let '(x1, _) := xs x (PRead (HNode r) ALength) in
        let '(x2, r2) := xs x1 (PRead (HNode r) AItems) in
        match r2 with
        | RDone (PAcc (XItems l)) =>
            fold_left (fun acc c => let '(xa, ok) := acc in let '(xb, ok') := encread f xa c in (xb, ok && ok')) l (x2, true)
        | _ => (x2, false)
        end
    | KdMap =>
        let '(x1, _) := xs x (PRead (HNode r) ALength) in
        let '(x2, r2) := xs x1 (PRead (HNode r) AEntries) in
        match r2 with
        | RDone (PAcc (XEntries l)) =>
            fold_left (fun acc kc => let '(xa, ok) := acc in let '(xb, ok') := encread f xa (snd kc) in (xb, ok && ok'))
                      (sort_kv rfc_ltb l) (x2, true)
        | _ => (x2, false)
        end
    | k =>
        match kind_skind k with
        | Some sk => let '(x1, r1) := xs x (PRead (HNode r) (AScalar sk)) in
                     (x1, match r1 with RDone (PAcc (XScalar _)) => true | _ => false end)
        | None => (x, false)
        end
    end
  end.

(* a walk that visits every node (iterators only) *)
Fixpoint count (fuel : nat) (x : X) (r : nref) : X * nat :=
  match fuel with
  | O => (x, 0)
  | S f =>
    match nref_kind r with
    | KdList =>
        let '(x2, r2) := xs x (PRead (HNode r) AItems) in
        match r2 with
        | RDone (PAcc (XItems l)) =>
            fold_left (fun acc c => let '(xa, n) := acc in let '(xb, m) := count f xa c in (xb, n + m)) l (x2, 1)
        | _ => (x2, 1)
        end
    | KdMap =>
        let '(x2, r2) := xs x (PRead (HNode r) AEntries) in
        match r2 with
        | RDone (PAcc (XEntries l)) =>
            fold_left (fun acc kc => let '(xa, n) := acc in let '(xb, m) := count f xa (snd kc) in (xb, n + m)) l (x2, 1)
        | _ => (x2, 1)
        end
    | _ => (x, 1)
    end
  end.

(* ------------------------------------------------------------------ building *)

Inductive sobs := OOk | OErrC (e : errc) | OPanic | ONoNode | OCount (n : nat) | OBadReg | OFuel
                | OData (bs : list N) | OPos (z : Z).    (* what a reader read / where a seek landed *)

Definition res_obs (r : presult) : sobs :=
  match r with
  | RDone (POk _) => OOk
  | RDone (PErr e) => OErrC e
  | RDone (PAcc (XErr e)) => OErrC e
  | RDone (PAcc _) => OOk
  | RPanic => OPanic
  end.

Definition is_ok (o : sobs) : bool := match o with OOk => true | _ => false end.

(* a step that must yield a handle *)
Definition xh (x : X) (p : prim) : X * sobs * handle :=
  let '(x1, r) := xs x p in
  (x1, res_obs r, match res_handle r with Some h => h | None => HNone end).

(* harness/lib Assemble(na, v): the plainest call sequence *)
Fixpoint assemble (x : X) (h : handle) (d : dm) {struct d} : X * sobs :=
  match d with
  | DNull => let '(x1, r) := xs x (PAssign h AvNull) in (x1, res_obs r)
  | DBool b => let '(x1, r) := xs x (PAssign h (AvScalar (SBool b))) in (x1, res_obs r)
  | DInt z => let '(x1, r) := xs x (PAssign h (AvScalar (SInt z))) in (x1, res_obs r)
  | DFloat f => let '(x1, r) := xs x (PAssign h (AvScalar (SFloat f))) in (x1, res_obs r)
  | DString s => let '(x1, r) := xs x (PAssign h (AvScalar (SString s))) in (x1, res_obs r)
  | DLink c => let '(x1, r) := xs x (PAssign h (AvScalar (SLink c))) in (x1, res_obs r)
  | DBytes b =>
      let '(x1, _, sl) := xh x (PNewSlice b) in
      let '(x2, r) := xs x1 (PAssignBytes h sl) in (x2, res_obs r)
  | DList l =>
      let '(x1, o1, la) := xh x (PBeginList h (length l)) in
      if negb (is_ok o1) then (x1, o1) else
      let '(x2, o2) :=
        (fix go (x : X) (l : list dm) : X * sobs :=
           match l with
           | [] => (x, OOk)
           | c :: rest =>
               let '(xa, oa, va) := xh x (PAssembleValue la) in
               if negb (is_ok oa) then (xa, oa) else
               let '(xb, ob) := assemble xa va c in
               if negb (is_ok ob) then (xb, ob) else go xb rest
           end) x1 l in
      if negb (is_ok o2) then (x2, o2) else
      let '(x3, r) := xs x2 (PFinish la) in (x3, res_obs r)
  | DMap m =>
      let '(x1, o1, ma) := xh x (PBeginMap h (length m)) in
      if negb (is_ok o1) then (x1, o1) else
      let '(x2, o2) :=
        (fix go (x : X) (m : list (bytes * dm)) : X * sobs :=
           match m with
           | [] => (x, OOk)
           | (k, c) :: rest =>
               let '(xa, oa, va) := xh x (PAssembleEntry ma k) in
               if negb (is_ok oa) then (xa, oa) else
               let '(xb, ob) := assemble xa va c in
               if negb (is_ok ob) then (xb, ob) else go xb rest
           end) x1 m in
      if negb (is_ok o2) then (x2, o2) else
      let '(x3, r) := xs x2 (PFinish ma) in (x3, res_obs r)
  end.

Definition build_of (x : X) (b : handle) : X * sobs * handle :=
  let '(x1, o, n) := xh x (PBuild b) in (x1, o, n).

(* a producer (builder script, decoder) fills a fresh any-builder and builds *)
Definition make (x : X) (d : dm) : X * sobs * handle :=
  let '(x1, _, b) := xh x (PNewBuilder PrAny) in
  let '(x2, o) := assemble x1 b d in
  if negb (is_ok o) then (x2, o, HNone) else build_of x2 b.

(* datamodel.Copy(n, na) *)
Definition copy_into (x : X) (r : nref) (h : handle) : X * sobs :=
  match nref_kind r with
  | KdInvalid => (x, OPanic)
  | KdNull => let '(x1, res) := xs x (PAssign h AvNull) in (x1, res_obs res)
  | KdBytes =>
      let '(x1, r1) := xs x (PRead (HNode r) ABytes) in
      match r1 with
      | RDone (PAcc (XBytes _ (Some sl))) => let '(x2, r2) := xs x1 (PAssignBytes h (HSlice sl)) in (x2, res_obs r2)
      | RDone (PAcc (XBytes b None)) =>
          let '(x2, _, sl) := xh x1 (PNewSlice b) in
          let '(x3, r3) := xs x2 (PAssignBytes h sl) in (x3, res_obs r3)
      | _ => (x1, res_obs r1)
      end
  | KdList =>
      let '(x1, r1) := xs x (PRead (HNode r) ALength) in
      match r1 with
      | RDone (PAcc (XLen n)) =>
          let '(x2, o2, la) := xh x1 (PBeginList h (Z.to_nat n)) in
          if negb (is_ok o2) then (x2, o2) else
          let '(x3, r3) := xs x2 (PRead (HNode r) AItems) in
          match r3 with
          | RDone (PAcc (XItems l)) =>
              let '(x4, o4) :=
                fold_left (fun acc c => let '(xa, oa) := acc in
                             if negb (is_ok oa) then (xa, oa) else
                             let '(xb, ob, va) := xh xa (PAssembleValue la) in
                             if negb (is_ok ob) then (xb, ob) else
                             let '(xc, rc) := xs xb (PAssignNode va (HNode c)) in (xc, res_obs rc))
                          l (x3, OOk) in
              if negb (is_ok o4) then (x4, o4) else
              let '(x5, r5) := xs x4 (PFinish la) in (x5, res_obs r5)
          | _ => (x3, res_obs r3)
          end
      | _ => (x1, res_obs r1)
      end
  | KdMap =>
      let '(x1, r1) := xs x (PRead (HNode r) ALength) in
      match r1 with
      | RDone (PAcc (XLen n)) =>
          let '(x2, o2, ma) := xh x1 (PBeginMap h (Z.to_nat n)) in
          if negb (is_ok o2) then (x2, o2) else
          let '(x3, r3) := xs x2 (PRead (HNode r) AEntries) in
          match r3 with
          | RDone (PAcc (XEntries l)) =>
              let '(x4, o4) :=
                fold_left (fun acc kc => let '(xa, oa) := acc in
                             if negb (is_ok oa) then (xa, oa) else
                             let '(xb, ob, ka) := xh xa (PAssembleKey ma) in
                             if negb (is_ok ob) then (xb, ob) else
                             let '(xc, rc) := xs xb (PAssign ka (AvScalar (SString (fst kc)))) in
                             if negb (is_ok (res_obs rc)) then (xc, res_obs rc) else
                             let '(xd, od, va) := xh xc (PAssembleValue ma) in
                             if negb (is_ok od) then (xd, od) else
                             let '(xe, re) := xs xd (PAssignNode va (HNode (snd kc))) in (xe, res_obs re))
                          l (x3, OOk) in
              if negb (is_ok o4) then (x4, o4) else
              let '(x5, r5) := xs x4 (PFinish ma) in (x5, res_obs r5)
          | _ => (x3, res_obs r3)
          end
      | _ => (x1, res_obs r1)
      end
  | k =>
      match kind_skind k with
      | Some sk =>
          let '(x1, r1) := xs x (PRead (HNode r) (AScalar sk)) in
          match r1 with
          | RDone (PAcc (XScalar s)) => let '(x2, r2) := xs x1 (PAssign h (AvScalar s)) in (x2, res_obs r2)
          | _ => (x1, res_obs r1)
          end
      | None => (x, OPanic)
      end
  end.

Definition copy (x : X) (r : nref) (p : proto) : X * sobs * handle :=
  let '(x1, _, b) := xh x (PNewBuilder p) in
  let '(x2, o) := copy_into x1 r b in
  if negb (is_ok o) then (x2, o, HNone) else build_of x2 b.

(* ------------------------------------------------------------------ traversal.FocusedTransform *)

Inductive seg := SegS (k : bytes) | SegI (i : nat).

Fixpoint dec_digits (fuel n : nat) (acc : bytes) : bytes :=
  match fuel with
  | O => acc
  | S f => let d := N.of_nat (n mod 10) in
           let acc' := (48 + d)%N :: acc in
           if n / 10 =? 0 then acc' else dec_digits f (n / 10) acc'
  end.
Definition seg_string (s : seg) : bytes :=
  match s with SegS k => k | SegI i => dec_digits 20 i [] end.

(* the prototype a basicnode node reports: which builder FocusedTransform starts from *)
Definition nref_proto (r : nref) : proto :=
  match r with
  | RMap _ => PrMap | RList _ => PrList | RScalar k _ => PrScalar k
  | RBytesP _ | RStream _ => PrBytes | _ => PrAny
  end.

(* focusedTransform(n, na, p, fn, createParents=false) with fn = "replace by repl".
   [n = None] is the createParents / append mode entered for a missing last segment. *)
Fixpoint ftrans (fuel : nat) (x : X) (n : option nref) (na : handle) (p : list seg) (repl : nref) : X * sobs :=
  match fuel with
  | O => (x, OFuel)
  | S f =>
    match p with
    | [] => let '(x1, r1) := xs x (PAssignNode na (HNode repl)) in (x1, res_obs r1)
    | sg :: p2 =>
      match n with
      | None =>
          let '(x1, o1, ma) := xh x (PBeginMap na 1) in
          if negb (is_ok o1) then (x1, o1) else
          let '(x2, o2, ka) := xh x1 (PAssembleKey ma) in
          if negb (is_ok o2) then (x2, o2) else
          let '(x3, r3) := xs x2 (PAssign ka (AvScalar (SString (seg_string sg)))) in
          if negb (is_ok (res_obs r3)) then (x3, res_obs r3) else
          let '(x4, o4, va) := xh x3 (PAssembleValue ma) in
          if negb (is_ok o4) then (x4, o4) else
          let '(x5, o5) := ftrans f x4 None va p2 repl in
          if negb (is_ok o5) then (x5, o5) else
          let '(x6, r6) := xs x5 (PFinish ma) in (x6, res_obs r6)
      | Some r =>
        match nref_kind r with
        | KdMap =>
            let '(x1, r1) := xs x (PRead (HNode r) ALength) in
            match r1 with
            | RDone (PAcc (XLen len)) =>
              let '(x2, o2, ma) := xh x1 (PBeginMap na (Z.to_nat len)) in
              if negb (is_ok o2) then (x2, o2) else
              (* at the last segment the target is looked up first (fn is called on it) *)
              let x2' := match p2 with
                         | [] => fst (xs x2 (PRead (HNode r) (ALookupS (seg_string sg))))
                         | _ => x2 end in
              let '(x3, r3) := xs x2' (PRead (HNode r) AEntries) in
              match r3 with
              | RDone (PAcc (XEntries l)) =>
                let '(x4, o4, replaced) :=
                  fold_left (fun acc kc =>
                     let '(xa, oa, rep) := acc in
                     if negb (is_ok oa) then (xa, oa, rep) else
                     let '(xb, ob, ka) := xh xa (PAssembleKey ma) in
                     if negb (is_ok ob) then (xb, ob, rep) else
                     let '(xc, rc) := xs xb (PAssign ka (AvScalar (SString (fst kc)))) in
                     if negb (is_ok (res_obs rc)) then (xc, res_obs rc, rep) else
                     let '(xd, od, va) := xh xc (PAssembleValue ma) in
                     if negb (is_ok od) then (xd, od, rep) else
                     if bytes_eqb (fst kc) (seg_string sg) then
                       match p2 with
                       | [] => let '(xe, re) := xs xd (PAssignNode va (HNode repl)) in (xe, res_obs re, true)
                       | _ => let '(xe, oe) := ftrans f xd (Some (snd kc)) va p2 repl in (xe, oe, true)
                       end
                     else
                       let '(xe, re) := xs xd (PAssignNode va (HNode (snd kc))) in (xe, res_obs re, rep))
                    l (x3, OOk, false) in
                if negb (is_ok o4) then (x4, o4) else
                if replaced then let '(x5, r5) := xs x4 (PFinish ma) in (x5, res_obs r5) else
                match p2 with
                | _ :: _ => (x4, OErrC EOther)       (* parent position did not exist *)
                | [] =>
                    let '(x5, o5, ka) := xh x4 (PAssembleKey ma) in
                    if negb (is_ok o5) then (x5, o5) else
                    let '(x6, r6) := xs x5 (PAssign ka (AvScalar (SString (seg_string sg)))) in
                    if negb (is_ok (res_obs r6)) then (x6, res_obs r6) else
                    let '(x7, o7, va) := xh x6 (PAssembleValue ma) in
                    if negb (is_ok o7) then (x7, o7) else
                    let '(x8, o8) := ftrans f x7 None va [] repl in
                    if negb (is_ok o8) then (x8, o8) else
                    let '(x9, r9) := xs x8 (PFinish ma) in (x9, res_obs r9)
                end
              | _ => (x3, res_obs r3)
              end
            | _ => (x1, res_obs r1)
            end
        | KdList =>
            let '(x1, r1) := xs x (PRead (HNode r) ALength) in
            match r1 with
            | RDone (PAcc (XLen len)) =>
              let '(x2, o2, la) := xh x1 (PBeginList na (Z.to_nat len)) in
              if negb (is_ok o2) then (x2, o2) else
              match sg with
              | SegS _ => (x2, OErrC EOther)          (* not an index *)
              | SegI ti =>
                let '(x3, r3) := xs x2 (PRead (HNode r) AItems) in
                match r3 with
                | RDone (PAcc (XItems l)) =>
                  let '(x4, o4, replaced, _) :=
                    fold_left (fun acc c =>
                       let '(xa, oa, rep, i) := acc in
                       if negb (is_ok oa) then (xa, oa, rep, S i) else
                       let '(xb, ob, va) := xh xa (PAssembleValue la) in
                       if negb (is_ok ob) then (xb, ob, rep, S i) else
                       if i =? ti then
                         let '(xc, oc) := ftrans f xb (Some c) va p2 repl in (xc, oc, true, S i)
                       else
                         let '(xc, rc) := xs xb (PAssignNode va (HNode c)) in (xc, res_obs rc, rep, S i))
                      l (x3, OOk, false, 0) in
                  if negb (is_ok o4) then (x4, o4) else
                  if replaced then let '(x5, r5) := xs x4 (PFinish la) in (x5, res_obs r5)
                  else (x4, OErrC EOther)             (* beyond the list bounds *)
                | _ => (x3, res_obs r3)
                end
              end
            | _ => (x1, res_obs r1)
            end
        | _ => (x, OErrC EOther)                      (* a scalar with path left *)
        end
      end
    end
  end.

Definition transform (x : X) (r : nref) (p : list seg) (repl : nref) : X * sobs * handle :=
  match r with
  | RNil | RNull => (x, OPanic, HNone)      (* datamodel.Null's prototype has no builder *)
  | _ =>
  let '(x1, _, b) := xh x (PNewBuilder (nref_proto r)) in
  let '(x2, o) := ftrans 64 x1 (Some r) b p repl in
  if negb (is_ok o) then (x2, o, HNone) else build_of x2 b
  end.

(* ------------------------------------------------------------------ the script language *)

Inductive sop :=
| SNewBuilder (p : proto)
| SBeginMap (h hint : nat)
| SBeginList (h hint : nat)
| SAssembleEntry (h : nat) (k : bytes)
| SAssembleKey (h : nat)
| SAssembleValue (h : nat)
| SAssign (h : nat) (v : sval)
| SAssignBytes (h s : nat)
| SAssignNode (h n : nat)
| SFinish (h : nat)
| SBuild (h : nat)
| SReset (h : nat)
| SNewSlice (data : list N)
| SNewBytesNode (s : nat)
| SNewStreamNode (s : nat)
| SNewScalarNode (v : sval)
| SForeign (d : dm)
| SMake (d : dm)
| SCopy (n : nat) (p : proto)
| SLookupS (n : nat) (k : bytes)
| SLookupI (n : nat) (i : Z)
| SMatch (n : nat) (from to : Z)
| STransform (n : nat) (p : list seg) (repl : nat)
| SEncode (n : nat)
| SWalk (n : nat)
| SCallerWrite (s i : nat) (b : N)
| SLargeBytes (n : nat)
| SReaderRead (r : nat) (k : option nat)
| SReaderSeek (r : nat) (off : Z) (wh : whence).

Record sstate := { sx : X; sregs : list handle }.
Definition sinit : sstate := {| sx := (pinit, true); sregs := [] |}.

Definition reg (st : sstate) (i : nat) : handle := nth i (sregs st) HNone.

Definition push (x : X) (st : sstate) (h : handle) : sstate := {| sx := x; sregs := sregs st ++ [h] |}.

Definition dump_fuel : nat := 40.

(* one script step: the call(s), the observation, and the new register *)
Definition sstep (st : sstate) (o : sop) : sstate * sobs :=
  let x := sx st in
  let prim1 (p : prim) : sstate * sobs :=
      let '(x1, ob, h) := xh x p in (push x1 st (if is_ok ob then h else HNone), ob) in
  let noderef (i : nat) : option nref := match reg st i with HNode r => Some r | _ => None end in
  match o with
  | SNewBuilder p => prim1 (PNewBuilder p)
  | SBeginMap h hint => prim1 (PBeginMap (reg st h) hint)
  | SBeginList h hint => prim1 (PBeginList (reg st h) hint)
  | SAssembleEntry h k => prim1 (PAssembleEntry (reg st h) k)
  | SAssembleKey h => prim1 (PAssembleKey (reg st h))
  | SAssembleValue h => prim1 (PAssembleValue (reg st h))
  | SAssign h v => prim1 (PAssign (reg st h) v)
  | SAssignBytes h s => prim1 (PAssignBytes (reg st h) (reg st s))
  | SAssignNode h n => prim1 (PAssignNode (reg st h) (reg st n))
  | SFinish h => prim1 (PFinish (reg st h))
  | SBuild h => prim1 (PBuild (reg st h))
  | SReset h => prim1 (PReset (reg st h))
  | SNewSlice data => prim1 (PNewSlice data)
  | SNewBytesNode s => prim1 (PNewBytesNode (reg st s))
  | SNewStreamNode s => prim1 (PNewStreamNode (reg st s))
  | SNewScalarNode v => prim1 (PNewScalarNode v)
  | SForeign d => prim1 (PForeign d)
  | SMake d => let '(x1, ob, h) := make x d in (push x1 st h, ob)
  | SCopy n p =>
      match noderef n with
      | Some r => let '(x1, ob, h) := copy x r p in (push x1 st h, ob)
      | None => (push x st HNone, OBadReg)
      end
  | SLookupS n k =>
      match noderef n with
      | Some r =>
          let '(x1, res) := xs x (PRead (HNode r) (ALookupS k)) in
          (push x1 st (match res with RDone (PAcc (XNode c)) => HNode c | _ => HNone end), res_obs res)
      | None => (push x st HNone, OBadReg)
      end
  | SLookupI n i =>
      match noderef n with
      | Some r =>
          let '(x1, res) := xs x (PRead (HNode r) (ALookupI i)) in
          (push x1 st (match res with RDone (PAcc (XNode c)) => HNode c | _ => HNone end), res_obs res)
      | None => (push x st HNone, OBadReg)
      end
  | SMatch n from to =>
      match noderef n with
      | Some r =>
          let '(x1, ob, h) := xh x (PMatchSubset (HNode r) from to) in
          (push x1 st h, match ob, h with OOk, HNone => ONoNode | _, _ => ob end)
      | None => (push x st HNone, OBadReg)
      end
  | STransform n p repl =>
      match noderef n, noderef repl with
      | Some r, Some rr => let '(x1, ob, h) := transform x r p rr in (push x1 st h, ob)
      | _, _ => (push x st HNone, OBadReg)
      end
  | SEncode n =>
      match noderef n with
      | Some r => let '(x1, ok) := encread dump_fuel x r in (push x1 st HNone, if ok then OOk else OErrC EOther)
      | None => (push x st HNone, OBadReg)
      end
  | SWalk n =>
      match noderef n with
      | Some r => let '(x1, c) := count dump_fuel x r in (push x1 st HNone, OCount c)
      | None => (push x st HNone, OBadReg)
      end
  | SCallerWrite s i b => prim1 (PCallerWrite (reg st s) i b)
  | SLargeBytes n => prim1 (PLargeBytes (reg st n))
  | SReaderRead r k =>
      let '(x1, res) := xs x (PReaderRead (reg st r) k) in
      (push x1 st HNone, match res with RDone (PAcc (XBytes bs _)) => OData bs | _ => res_obs res end)
  | SReaderSeek r off wh =>
      let '(x1, res) := xs x (PReaderSeek (reg st r) off wh) in
      (push x1 st HNone, match res with RDone (PAcc (XLen z)) => OPos z | _ => res_obs res end)
  end.

(* after every step the harness re-reads every node it holds, each accessor twice: two full dumps
   of every node register, in register order *)
Definition redump (st : sstate) : sstate * list (nat * dnode * dnode) :=
  let '(x, out, _) :=
    fold_left (fun acc h =>
       let '(x, out, i) := acc in
       match h with
       | HNode r =>
           let '(x1, d1) := dump dump_fuel x r in
           let '(x2, d2) := dump dump_fuel x1 r in
           (x2, out ++ [(i, d1, d2)], S i)
       | _ => (x, out, S i)
       end) (sregs st) (sx st, [], 0) in
  ({| sx := x; sregs := sregs st |}, out).

Definition sstep_full (st : sstate) (o : sop) : sstate * sobs * list (nat * dnode * dnode) :=
  let '(st1, ob) := sstep st o in
  let '(st2, ds) := redump st1 in
  (st2, ob, ds).

Definition slegal (st : sstate) : bool := snd (sx st).

(* does the node reach a streamBytes?  (pure inspection, for classification only) *)
Fixpoint has_stream (fuel : nat) (h : mheap) (r : nref) : bool :=
  match fuel with
  | O => false
  | S f =>
    match r with
    | RStream _ => true
    | RMap s =>
        match cell_val h s with
        | Some (VMapHdr t _) =>
            match s_arr t with
            | Some ta => match hget h ta with
                         | Some (CArr l) => existsb (fun v => has_stream f h (node_of v)) (slice_elems t l)
                         | _ => false end
            | None => false
            end
        | _ => false
        end
    | RList s =>
        match cell_val h s with
        | Some (VListHdr t) =>
            match s_arr t with
            | Some ta => match hget h ta with
                         | Some (CArr l) => existsb (fun v => has_stream f h (node_of v)) (slice_elems t l)
                         | _ => false end
            | None => false
            end
        | _ => false
        end
    | _ => false
    end
  end.

End Script.
