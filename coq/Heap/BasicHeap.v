(* Heap/BasicHeap.v — node/basicnode (map.go, list.go, any.go, string.go, int.go, …, bytes.go,
   bytes_stream.go) and traversal/selector/matcher.go Slice.Slice as programs over the Go heap of
   Heap/GoMem.v: builders, assemblers and nodes are heap objects; the aliasing the Go code creates
   (shared backing arrays and maps after the `*na.w = *v2` shortcut, child pointers stored by value
   assemblers, plainBytes aliasing the caller's slice, streamBytes sharing one reader and its
   position) is what the model is about.  MODEL file: definitions only.
   Proofs: Proofs/HeapLogic.v, HeapOps.v, HeapC11.v.

   Every Go statement that touches memory is a Rd/Wr/New of the cell it touches, in the order the Go
   code performs them, so that a panic half way (nil map write after the table write) leaves the
   same partial state.  Misuse (calls the builder contract forbids) is modelled too; [legal] says
   which calls the contract allows. *)
Require Import IP.Base.Bytes IP.DM.Value IP.Gen.FromGo IP.Heap.GoMem.
From Coq Require Import List Arith Bool ZArith.
Import ListNotations.
Local Open Scope nat_scope.

(* ------------------------------------------------------------------ values in the heap *)

Inductive skind := KBool | KInt | KFloat | KString | KLink.
Inductive scalar := SBool (b : bool) | SInt (z : Z) | SFloat (f : N) | SString (s : bytes) | SLink (c : bytes).

Definition scalar_kind (s : scalar) : skind :=
  match s with SBool _ => KBool | SInt _ => KInt | SFloat _ => KFloat | SString _ => KString | SLink _ => KLink end.
Definition zero_scalar (k : skind) : scalar :=
  match k with KBool => SBool false | KInt => SInt 0%Z | KFloat => SFloat 0%N | KString => SString [] | KLink => SLink [] end.
Definition skind_eqb (a b : skind) : bool :=
  match a, b with
  | KBool, KBool | KInt, KInt | KFloat, KFloat | KString, KString | KLink, KLink => true
  | _, _ => false
  end.

(* A datamodel.Node interface value. *)
Inductive nref :=
| RNil                              (* nil Node (the v of a zero plainMap__Entry) *)
| RNull                             (* datamodel.Null *)
| RScalar (k : skind) (a : addr)    (* *plainBool, *plainInt, *plainFloat, *plainString, *plainLink *)
| RBytesP (s : slice)               (* plainBytes / *plainBytes: a slice header aliasing someone's array *)
| RStream (a : addr)                (* streamBytes{rs}: the reader cell *)
| RMap (a : addr)                   (* *plainMap *)
| RList (a : addr)                  (* *plainList *)
| RForeign (d : dm).                (* an immutable node of another implementation *)

Inductive mstate := MInitial | MMidKey | MExpectValue | MMidValue | MFinished.
Inductive lstate := LInitial | LMidValue | LFinished.

(* plainMap__Assembler{w, ka{ma}, va{ma}, state}; ka.ma / va.ma are either nil or the assembler itself *)
Record masm := { m_w : option addr; m_ka : bool; m_va : bool; m_st : mstate }.
Record lasm := { l_w : option addr; l_va : bool; l_st : lstate }.
Definition masm0 : masm := {| m_w := None; m_ka := false; m_va := false; m_st := MInitial |}.
Definition lasm0 : lasm := {| l_w := None; l_va := false; l_st := LInitial |}.

Inductive akind := AKInvalid | AKMap | AKList | AKNull | AKCarry.  (* anyBuilder.kind; scalars and 99 carry scalarNode *)
Inductive flavor := FlMap | FlList.

Inductive val :=
| VNode (r : nref)                                        (* element of []Node, value of map[string]Node *)
| VEntry (k : bytes) (r : nref)                           (* plainMap__Entry *)
| VScalar (s : scalar)                                    (* target of *plainInt etc. *)
| VMapHdr (t : slice) (m : option addr)                   (* plainMap{m, t} *)
| VListHdr (x : slice)                                    (* plainList{x} *)
| VMapB (m : masm)                                        (* plainMap__Builder *)
| VListB (l : lasm)                                       (* plainList__Builder *)
| VAnyB (k : akind) (m : masm) (l : lasm) (sc : nref)     (* anyBuilder *)
| VChildM (m : masm) (p : option addr) (pf : flavor)      (* plain{Map,List}__ValueAssemblerMap{ca, p} *)
| VChildL (l : lasm) (p : option addr) (pf : flavor)      (* plain{Map,List}__ValueAssemblerList{ca, p} *)
| VScalB (k : skind) (w : addr) (done : bool)             (* plainX__Builder{w}; [done] is ghost: "assembler is done" *)
| VBytesB (w : nref).                                     (* plainBytes__Builder{w Node} *)

Notation mcell := (cell val).
Notation mheap := (heap val).
Notation mprog := (prog val).

Definition zero_entry : val := VEntry [] RNil.
Definition zero_node : val := VNode RNil.

(* ------------------------------------------------------------------ interface of the model *)

Inductive errc := EWrongKind | ERepeatedKey | ENotExists | EOther.

Inductive kind := KdNull | KdBool | KdInt | KdFloat | KdString | KdBytes | KdLink | KdList | KdMap | KdInvalid.

Inductive handle :=
| HNone
| HBuilder (a : addr)      (* a NodeBuilder *)
| HMapAsm (a : addr)       (* a MapAssembler: the cell embedding the plainMap__Assembler *)
| HListAsm (a : addr)
| HKeyAsm (a : addr)       (* &ma.ka *)
| HValM (a : addr)         (* &ma.va *)
| HValL (a : addr)         (* &la.va *)
| HNode (r : nref)
| HSlice (s : slice)       (* a []byte the caller holds *)
| HReader (a : addr).      (* an io.ReadSeeker handed out by AsLargeBytes *)

Inductive acc :=
| AKind | ALength | ALookupS (k : bytes) | ALookupI (i : Z) | AEntries | AItems
| AScalar (k : skind) | ABytes | ALarge.

Inductive ares :=
| XKind (k : kind)
| XLen (z : Z)
| XNode (r : nref)
| XErr (e : errc)
| XEntries (l : list (bytes * nref))
| XItems (l : list nref)
| XScalar (s : scalar)
| XBytes (bs : list N) (alias : option slice).   (* content; the slice handed back when it aliases *)

Inductive pout := POk (h : handle) | PErr (e : errc) | PAcc (x : ares).

Inductive sval := AvNull | AvScalar (s : scalar).

Inductive proto := PrAny | PrMap | PrList | PrScalar (k : skind) | PrBytes.

Inductive prim :=
| PNewBuilder (p : proto)
| PBeginMap (h : handle) (hint : nat)
| PBeginList (h : handle) (hint : nat)
| PAssembleEntry (h : handle) (k : bytes)
| PAssembleKey (h : handle)
| PAssembleValue (h : handle)
| PAssign (h : handle) (v : sval)
| PAssignBytes (h : handle) (s : handle)
| PAssignNode (h : handle) (n : handle)
| PFinish (h : handle)
| PBuild (h : handle)
| PReset (h : handle)
| PRead (n : handle) (a : acc)
| PNewSlice (data : list N)            (* the caller makes a []byte *)
| PNewBytesNode (s : handle)           (* basicnode.NewBytes(s) *)
| PNewStreamNode (s : handle)          (* basicnode.NewBytesFromReader(bytes.NewReader(s)) *)
| PNewScalarNode (v : sval)            (* basicnode.NewInt … / datamodel.Null *)
| PForeign (d : dm)                    (* a node of another implementation *)
| PMatchSubset (n : handle) (from to : Z)   (* selector.Matcher{Slice{from,to}}.Match(n) *)
| PLargeBytes (n : handle)             (* n.(LargeBytesNode).AsLargeBytes(): a reader the caller keeps *)
| PReaderRead (r : handle) (k : option nat)      (* read up to k bytes (None: io.ReadAll) from a handed-out reader *)
| PReaderSeek (r : handle) (off : Z) (wh : whence)   (* r.Seek(off, whence) *)
| PCallerWrite (s : handle) (i : nat) (b : N).   (* the caller writes s[i] = b: excluded by the property *)

(* quirks of the pinned tree + the (unobservable) growth policy of append *)
Record cfg := {
  cf_stream_shared : bool;   (* true: streamBytes reads move one shared reader position (pinned tree);
                                false: every read uses a private reader at offset 0 (repaired) *)
  cf_mapcopy_begin : bool;   (* true: the generic copy path of plainMap AssignNode calls BeginMap first
                                (fix e205164); false: it writes into the nil map of a fresh builder and panics *)
  cf_grow : nat -> nat
}.

Definition rd_fuel : nat := 64.   (* nesting depth of section readers; histories are far shorter *)

Section Model.
Variable cf : cfg.

Definition rdv {A} (a : addr) (k : val -> mprog A) : mprog A :=
  Rd a (fun c => match c with CPtr v => k v | _ => Crash end).
Definition wrv {A} (a : addr) (v : val) (k : mprog A) : mprog A := Wr a (CPtr v) k.
Definition newv {A} (v : val) (k : addr -> mprog A) : mprog A := New (CPtr v) k.

Definition val_masm (v : val) : option masm :=
  match v with VMapB m | VAnyB _ m _ _ | VChildM m _ _ => Some m | _ => None end.
Definition val_with_masm (v : val) (m : masm) : val :=
  match v with
  | VMapB _ => VMapB m
  | VAnyB k _ l sc => VAnyB k m l sc
  | VChildM _ p pf => VChildM m p pf
  | _ => v
  end.
Definition val_lasm (v : val) : option lasm :=
  match v with VListB l | VAnyB _ _ l _ | VChildL l _ _ => Some l | _ => None end.
Definition val_with_lasm (v : val) (l : lasm) : val :=
  match v with
  | VListB _ => VListB l
  | VAnyB k m _ sc => VAnyB k m l sc
  | VChildL _ p pf => VChildL l p pf
  | _ => v
  end.

Definition rd_masm {A} (a : addr) (k : val -> masm -> mprog A) : mprog A :=
  rdv a (fun v => match val_masm v with Some m => k v m | None => Crash end).
Definition rd_lasm {A} (a : addr) (k : val -> lasm -> mprog A) : mprog A :=
  rdv a (fun v => match val_lasm v with Some l => k v l | None => Crash end).

Definition mst_eqb (a b : mstate) : bool :=
  match a, b with
  | MInitial, MInitial | MMidKey, MMidKey | MExpectValue, MExpectValue
  | MMidValue, MMidValue | MFinished, MFinished => true
  | _, _ => false
  end.
Definition lst_eqb (a b : lstate) : bool :=
  match a, b with
  | LInitial, LInitial | LMidValue, LMidValue | LFinished, LFinished => true
  | _, _ => false
  end.

Definition set_mst (m : masm) (s : mstate) : masm := {| m_w := m_w m; m_ka := m_ka m; m_va := m_va m; m_st := s |}.

(* ------------------------------------------------------------------ plainMap__Assembler *)

(* v, exists := w.m[k]  (a nil map reads as empty) *)
Definition gomap_has (g : option addr) (k : bytes) : mprog bool :=
  match g with
  | None => Ret false
  | Some ga => Rd ga (fun c => match c with
      | CMap es => Ret (match map_get es k with Some _ => true | None => false end)
      | _ => Crash end)
  end.

(* BeginMap: na.w.t = make(.., 0, hint); na.w.m = make(.., hint).  No state check in the Go code. *)
Definition map_begin (a : addr) (hint : nat) : mprog pout :=
  rd_masm a (fun _ m =>
    match m_w m with
    | None => Crash
    | Some s =>
        let* t := make_slice zero_entry hint in
        New (CMap []) (fun g => wrv s (VMapHdr t (Some g)) (Ret (POk (HMapAsm a))))
    end).

Definition map_assemble_entry (a : addr) (k : bytes) : mprog pout :=
  rd_masm a (fun v m =>
    if negb (mst_eqb (m_st m) MInitial) then Crash else
    match m_w m with
    | None => Crash
    | Some s => rdv s (fun hv => match hv with
        | VMapHdr t g =>
            let* ex := gomap_has g k in
            if ex then Ret (PErr ERepeatedKey) else
            let* t' := append1 (cf_grow cf) zero_entry t (VEntry k RNil) in
            wrv s (VMapHdr t' g)
              (wrv a (val_with_masm v {| m_w := m_w m; m_ka := m_ka m; m_va := true; m_st := MMidValue |})
                 (Ret (POk (HValM a))))
        | _ => Crash end)
    end).

Definition map_assemble_key (a : addr) : mprog pout :=
  rd_masm a (fun v m =>
    if negb (mst_eqb (m_st m) MInitial) then Crash else
    wrv a (val_with_masm v {| m_w := m_w m; m_ka := true; m_va := m_va m; m_st := MMidKey |})
      (Ret (POk (HKeyAsm a)))).

Definition map_assemble_value (a : addr) : mprog pout :=
  rd_masm a (fun v m =>
    if negb (mst_eqb (m_st m) MExpectValue) then Crash else
    wrv a (val_with_masm v {| m_w := m_w m; m_ka := m_ka m; m_va := true; m_st := MMidValue |})
      (Ret (POk (HValM a)))).

(* plainMap__KeyAssembler.AssignString *)
Definition key_assign_string (a : addr) (k : bytes) : mprog pout :=
  rd_masm a (fun v m =>
    if negb (m_ka m) then Crash else          (* mka.ma == nil *)
    match m_w m with
    | None => Crash
    | Some s => rdv s (fun hv => match hv with
        | VMapHdr t g =>
            let* ex := gomap_has g k in
            if ex then
              wrv a (val_with_masm v {| m_w := m_w m; m_ka := false; m_va := m_va m; m_st := MInitial |})
                (Ret (PErr ERepeatedKey))
            else
              let* t' := append1 (cf_grow cf) zero_entry t (VEntry k RNil) in
              wrv s (VMapHdr t' g)
                (wrv a (val_with_masm v {| m_w := m_w m; m_ka := false; m_va := m_va m; m_st := MExpectValue |})
                   (Ret (POk HNone)))
        | _ => Crash end)
    end).

(* plainMap__ValueAssembler.AssignNode: t[len-1].v = v; m[t[len-1].k] = v; state = initial; ma = nil *)
Definition va_assign_m (a : addr) (r : nref) : mprog pout :=
  rd_masm a (fun v m =>
    if negb (m_va m) then Crash else
    match m_w m with
    | None => Crash
    | Some s => rdv s (fun hv => match hv with
        | VMapHdr t g =>
            match s_arr t, s_len t with
            | Some ta, S l =>
                Rd ta (fun c => match c with
                  | CArr sl =>
                      match nth_error sl (s_off t + l) with
                      | Some (VEntry k _) =>
                          Wr ta (CArr (upd (s_off t + l) sl (VEntry k r)))
                            (match g with
                             | None => Crash        (* assignment to entry in nil map *)
                             | Some ga => Rd ga (fun cg => match cg with
                                 | CMap es =>
                                     Wr ga (CMap (map_set es k (VNode r)))
                                       (wrv a (val_with_masm v {| m_w := m_w m; m_ka := m_ka m; m_va := false; m_st := MInitial |})
                                          (Ret (POk HNone)))
                                 | _ => Crash end)
                             end)
                      | _ => Crash
                      end
                  | _ => Crash end)
            | _, _ => Crash                          (* index -1 *)
            end
        | _ => Crash end)
    end).

Definition map_finish_top (a : addr) : mprog pout :=
  rd_masm a (fun v m =>
    if negb (mst_eqb (m_st m) MInitial) then Crash else
    wrv a (val_with_masm v (set_mst m MFinished)) (Ret (POk HNone))).

(* ------------------------------------------------------------------ plainList__Assembler *)

Definition list_begin (a : addr) (hint : nat) : mprog pout :=
  rd_lasm a (fun _ l =>
    match l_w l with
    | None => Crash
    | Some s =>
        let* x := make_slice zero_node hint in
        wrv s (VListHdr x) (Ret (POk (HListAsm a)))
    end).

Definition list_assemble_value (a : addr) : mprog pout :=
  rd_lasm a (fun v l =>
    if negb (lst_eqb (l_st l) LInitial) then Crash else
    wrv a (val_with_lasm v {| l_w := l_w l; l_va := true; l_st := LMidValue |}) (Ret (POk (HValL a)))).

(* plainList__ValueAssembler.AssignNode: w.x = append(w.x, v); state = initial; la = nil *)
Definition va_assign_l (a : addr) (r : nref) : mprog pout :=
  rd_lasm a (fun v l =>
    if negb (l_va l) then Crash else
    match l_w l with
    | None => Crash
    | Some s => rdv s (fun hv => match hv with
        | VListHdr x =>
            let* x' := append1 (cf_grow cf) zero_node x (VNode r) in
            wrv s (VListHdr x')
              (wrv a (val_with_lasm v {| l_w := l_w l; l_va := false; l_st := LInitial |}) (Ret (POk HNone)))
        | _ => Crash end)
    end).

Definition list_finish_top (a : addr) : mprog pout :=
  rd_lasm a (fun v l =>
    if negb (lst_eqb (l_st l) LInitial) then Crash else
    wrv a (val_with_lasm v {| l_w := l_w l; l_va := l_va l; l_st := LFinished |}) (Ret (POk HNone))).

Definition va_assign (pf : flavor) (a : addr) (r : nref) : mprog pout :=
  match pf with FlMap => va_assign_m a r | FlList => va_assign_l a r end.

(* ------------------------------------------------------------------ child assemblers *)

(* the parent pointer a value assembler hands to a child: its own ma / la field (nil when stale) *)
Definition va_parent (pf : flavor) (pa : addr) : mprog (option addr) :=
  match pf with
  | FlMap => rd_masm pa (fun _ m => Ret (if m_va m then Some pa else None))
  | FlList => rd_lasm pa (fun _ l => Ret (if l_va l then Some pa else None))
  end.

Definition val_begin_map (pf : flavor) (pa : addr) (hint : nat) : mprog pout :=
  let* p := va_parent pf pa in
  newv (VMapHdr nil_slice None) (fun s =>
  newv (VChildM {| m_w := Some s; m_ka := false; m_va := false; m_st := MInitial |} p pf) (fun c =>
  map_begin c hint)).

Definition val_begin_list (pf : flavor) (pa : addr) (hint : nat) : mprog pout :=
  let* p := va_parent pf pa in
  newv (VListHdr nil_slice) (fun s =>
  newv (VChildL {| l_w := Some s; l_va := false; l_st := LInitial |} p pf) (fun c =>
  list_begin c hint)).

(* plainX__ValueAssemblerMap.Finish: ca.Finish(); w := ca.w; ca.w = nil; p.va.AssignNode(w) *)
Definition map_finish (a : addr) : mprog pout :=
  rdv a (fun v => match v with
    | VChildM m p pf =>
        if negb (mst_eqb (m_st m) MInitial) then Crash else
        match m_w m with
        | None => Crash
        | Some s =>
            wrv a (VChildM {| m_w := None; m_ka := m_ka m; m_va := m_va m; m_st := MFinished |} p pf)
              (match p with None => Crash | Some pa => va_assign pf pa (RMap s) end)
        end
    | _ => map_finish_top a
    end).

Definition list_finish (a : addr) : mprog pout :=
  rdv a (fun v => match v with
    | VChildL l p pf =>
        if negb (lst_eqb (l_st l) LInitial) then Crash else
        match l_w l with
        | None => Crash
        | Some s =>
            wrv a (VChildL {| l_w := None; l_va := l_va l; l_st := LFinished |} p pf)
              (match p with None => Crash | Some pa => va_assign pf pa (RList s) end)
        end
    | _ => list_finish_top a
    end).

(* ------------------------------------------------------------------ read accessors *)

Definition dm_kind (d : dm) : kind :=
  match d with
  | DNull => KdNull | DBool _ => KdBool | DInt _ => KdInt | DFloat _ => KdFloat | DString _ => KdString
  | DBytes _ => KdBytes | DLink _ => KdLink | DList _ => KdList | DMap _ => KdMap
  end.
Definition skind_kind (k : skind) : kind :=
  match k with KBool => KdBool | KInt => KdInt | KFloat => KdFloat | KString => KdString | KLink => KdLink end.
Definition nref_kind (r : nref) : kind :=
  match r with
  | RNil => KdInvalid | RNull => KdNull | RScalar k _ => skind_kind k | RBytesP _ | RStream _ => KdBytes
  | RMap _ => KdMap | RList _ => KdList | RForeign d => dm_kind d
  end.

Definition dm_scalar (d : dm) : option scalar :=
  match d with
  | DBool b => Some (SBool b) | DInt z => Some (SInt z) | DFloat f => Some (SFloat f)
  | DString s => Some (SString s) | DLink c => Some (SLink c) | _ => None
  end.

Fixpoint assoc_dm (es : list (bytes * dm)) (k : bytes) : option dm :=
  match es with [] => None | (k', d) :: r => if bytes_eqb k k' then Some d else assoc_dm r k end.

Definition entry_pair (v : val) : bytes * nref :=
  match v with VEntry k r => (k, r) | VNode r => ([], r) | _ => ([], RNil) end.
Definition node_of (v : val) : nref :=
  match v with VNode r => r | VEntry _ r => r | _ => RNil end.

(* the bytes a stream node yields when read now *)
Definition stream_read (x : addr) : mprog (list N) :=
  if cf_stream_shared cf then rd_read rd_fuel x None else rd_content rd_fuel x.

Definition acc_prog (r : nref) (a : acc) : mprog ares :=
  match r with
  | RNil => Crash                            (* method call on a nil interface *)
  | _ =>
  match a with
  | AKind => Ret (XKind (nref_kind r))
  | ALength =>
      match r with
      | RMap s => rdv s (fun hv => match hv with VMapHdr t _ => Ret (XLen (Z.of_nat (s_len t))) | _ => Crash end)
      | RList s => rdv s (fun hv => match hv with VListHdr x => Ret (XLen (Z.of_nat (s_len x))) | _ => Crash end)
      | RForeign (DMap es) => Ret (XLen (Z.of_nat (length es)))
      | RForeign (DList l) => Ret (XLen (Z.of_nat (length l)))
      | _ => Ret (XLen (-1)%Z)
      end
  | ALookupS k =>
      match r with
      | RMap s => rdv s (fun hv => match hv with
          | VMapHdr _ None => Ret (XErr ENotExists)
          | VMapHdr _ (Some ga) => Rd ga (fun c => match c with
              | CMap es => Ret (match map_get es k with Some v => XNode (node_of v) | None => XErr ENotExists end)
              | _ => Crash end)
          | _ => Crash end)
      | RForeign (DMap es) =>
          Ret (match assoc_dm es k with Some d => XNode (RForeign d) | None => XErr ENotExists end)
      | _ => Ret (XErr EWrongKind)
      end
  | ALookupI i =>
      match r with
      | RList s => rdv s (fun hv => match hv with
          | VListHdr x =>
              if (i <? 0)%Z || (Z.of_nat (s_len x) <=? i)%Z then Ret (XErr ENotExists) else
              let* l := read_slice x in
              Ret (match nth_error l (Z.to_nat i) with Some v => XNode (node_of v) | None => XErr ENotExists end)
          | _ => Crash end)
      | RForeign (DList l) =>
          Ret (if (i <? 0)%Z then XErr ENotExists else
               match nth_error l (Z.to_nat i) with Some d => XNode (RForeign d) | None => XErr ENotExists end)
      | _ => Ret (XErr EWrongKind)
      end
  | AEntries =>
      match r with
      | RMap s => rdv s (fun hv => match hv with
          | VMapHdr t _ => let* l := read_slice t in Ret (XEntries (map entry_pair l))
          | _ => Crash end)
      | RForeign (DMap es) => Ret (XEntries (map (fun kd => (fst kd, RForeign (snd kd))) es))
      | _ => Ret (XErr EWrongKind)            (* MapIterator() returns nil *)
      end
  | AItems =>
      match r with
      | RList s => rdv s (fun hv => match hv with
          | VListHdr x => let* l := read_slice x in Ret (XItems (map node_of l))
          | _ => Crash end)
      | RForeign (DList l) => Ret (XItems (map RForeign l))
      | _ => Ret (XErr EWrongKind)
      end
  | AScalar k =>
      match r with
      | RScalar k' x =>
          if skind_eqb k k' then rdv x (fun v => match v with VScalar sv => Ret (XScalar sv) | _ => Crash end)
          else Ret (XErr EWrongKind)
      | RForeign d =>
          Ret (match dm_scalar d with
               | Some sv => if skind_eqb k (scalar_kind sv) then XScalar sv else XErr EWrongKind
               | None => XErr EWrongKind end)
      | _ => Ret (XErr EWrongKind)
      end
  | ABytes =>
      match r with
      | RBytesP sl => let* bs := read_bytes sl in Ret (XBytes bs (Some sl))
      | RStream x => let* bs := stream_read x in Ret (XBytes bs None)
      | RForeign (DBytes bs) => Ret (XBytes bs None)
      | _ => Ret (XErr EWrongKind)
      end
  | ALarge =>                                (* AsLargeBytes() followed by io.ReadAll *)
      match r with
      | RBytesP sl => let* bs := read_bytes sl in Ret (XBytes bs None)     (* a fresh bytes.Reader each time *)
      | RStream x => let* bs := stream_read x in Ret (XBytes bs None)      (* the same reader each time *)
      | _ => Ret (XErr EWrongKind)           (* not a LargeBytesNode *)
      end
  end
  end.

(* ------------------------------------------------------------------ builders *)

Definition new_scalar_node (sv : scalar) : mprog nref :=
  newv (VScalar sv) (fun x => Ret (RScalar (scalar_kind sv) x)).

Definition sval_node (v : sval) : mprog nref :=
  match v with AvNull => Ret RNull | AvScalar sv => new_scalar_node sv end.

(* plainMap__Assembler.AssignNode *)
Fixpoint map_copy_loop (a : addr) (es : list (bytes * dm)) : mprog pout :=
  match es with
  | [] => map_finish_top a
  | (k, d) :: rest =>
      let* _ := map_assemble_key a in
      let* o := key_assign_string a k in
      match o with
      | PErr e => Ret (PErr e)
      | _ =>
          let* _ := map_assemble_value a in
          let* _ := va_assign_m a (RForeign d) in
          map_copy_loop a rest
      end
  end.

Definition map_assign_node (a : addr) (r : nref) : mprog pout :=
  rd_masm a (fun v m =>
    if negb (mst_eqb (m_st m) MInitial) then Crash else
    match r with
    | RNil => Crash
    | RMap s2 =>                                   (* *na.w = *v2; state = finished *)
        match m_w m with
        | None => Crash
        | Some s => rdv s2 (fun hv => match hv with
            | VMapHdr t g => wrv s (VMapHdr t g) (wrv a (val_with_masm v (set_mst m MFinished)) (Ret (POk HNone)))
            | _ => Crash end)
        end
    | RForeign (DMap es) =>                        (* generic copy *)
        if cf_mapcopy_begin cf then let* _ := map_begin a (length es) in map_copy_loop a es
        else map_copy_loop a es                    (* … without BeginMap on the tree before the fix *)
    | _ => Ret (PErr EWrongKind)
    end).

Fixpoint list_copy_loop (a : addr) (l : list dm) : mprog pout :=
  match l with
  | [] => list_finish_top a
  | d :: rest =>
      let* _ := list_assemble_value a in
      let* _ := va_assign_l a (RForeign d) in
      list_copy_loop a rest
  end.

Definition list_assign_node (a : addr) (r : nref) : mprog pout :=
  rd_lasm a (fun v l =>
    if negb (lst_eqb (l_st l) LInitial) then Crash else
    match r with
    | RNil => Crash
    | RList s2 =>
        match l_w l with
        | None => Crash
        | Some s => rdv s2 (fun hv => match hv with
            | VListHdr x => wrv s (VListHdr x)
                (wrv a (val_with_lasm v {| l_w := l_w l; l_va := l_va l; l_st := LFinished |}) (Ret (POk HNone)))
            | _ => Crash end)
        end
    | RForeign (DList ds) => list_copy_loop a ds
    | _ => Ret (PErr EWrongKind)
    end).

(* plainBytes__Assembler.AssignNode *)
Definition bytes_assign_node (a : addr) (r : nref) : mprog pout :=
  match r with
  | RNil => Crash
  | RBytesP sl =>                               (* LargeBytesNode: streamBytes{bytes.NewReader(n)} *)
      New (CRdr (RdBytes sl 0)) (fun x => wrv a (VBytesB (RStream x)) (Ret (POk HNone)))
  | RStream x => wrv a (VBytesB (RStream x)) (Ret (POk HNone))   (* wraps the SAME reader *)
  | RForeign (DBytes bs) =>
      New (CBytes bs) (fun y =>
        wrv a (VBytesB (RBytesP {| s_arr := Some y; s_off := 0; s_len := length bs; s_cap := length bs |}))
          (Ret (POk HNone)))
  | _ => Ret (PErr EWrongKind)
  end.

Definition is_slice_handle (h : handle) : option slice :=
  match h with HSlice s => Some s | HNode (RBytesP s) => Some s | _ => None end.

Definition new_builder (p : proto) : mprog pout :=
  match p with
  | PrAny => newv (VAnyB AKInvalid masm0 lasm0 RNil) (fun a => Ret (POk (HBuilder a)))
  | PrMap => newv (VMapHdr nil_slice None) (fun s =>
             newv (VMapB {| m_w := Some s; m_ka := false; m_va := false; m_st := MInitial |}) (fun a => Ret (POk (HBuilder a))))
  | PrList => newv (VListHdr nil_slice) (fun s =>
              newv (VListB {| l_w := Some s; l_va := false; l_st := LInitial |}) (fun a => Ret (POk (HBuilder a))))
  | PrScalar k => newv (VScalar (zero_scalar k)) (fun w =>
                  newv (VScalB k w false) (fun a => Ret (POk (HBuilder a))))
  | PrBytes => newv (VBytesB (RBytesP nil_slice)) (fun a => Ret (POk (HBuilder a)))
  end.

(* Begin* / Assign* / AssignNode on a NodeBuilder *)
Inductive bop := BBeginMap (hint : nat) | BBeginList (hint : nat) | BAssign (v : sval)
               | BAssignBytes (s : slice) | BAssignNode (r : nref).

Definition builder_op (a : addr) (o : bop) : mprog pout :=
  rdv a (fun v => match v with
    | VMapB _ =>
        match o with
        | BBeginMap hint => map_begin a hint
        | BAssignNode r => map_assign_node a r
        | _ => Ret (PErr EWrongKind)
        end
    | VListB _ =>
        match o with
        | BBeginList hint => list_begin a hint
        | BAssignNode r => list_assign_node a r
        | _ => Ret (PErr EWrongKind)
        end
    | VAnyB k m l sc =>
        match k with
        | AKInvalid =>
            match o with
            | BBeginMap hint =>
                newv (VMapHdr nil_slice None) (fun s =>
                wrv a (VAnyB AKMap {| m_w := Some s; m_ka := m_ka m; m_va := m_va m; m_st := m_st m |} l sc)
                  (map_begin a hint))
            | BBeginList hint =>
                newv (VListHdr nil_slice) (fun s =>
                wrv a (VAnyB AKList m {| l_w := Some s; l_va := l_va l; l_st := l_st l |} sc)
                  (list_begin a hint))
            | BAssign AvNull => wrv a (VAnyB AKNull m l sc) (Ret (POk HNone))
            | BAssign (AvScalar sv) => let* r := new_scalar_node sv in wrv a (VAnyB AKCarry m l r) (Ret (POk HNone))
            | BAssignBytes sl => wrv a (VAnyB AKCarry m l (RBytesP sl)) (Ret (POk HNone))
            | BAssignNode r => wrv a (VAnyB AKCarry m l r) (Ret (POk HNone))
            end
        | _ => Crash                                  (* panic("misuse") *)
        end
    | VScalB k w done =>
        match o with
        | BAssign (AvScalar sv) =>
            if skind_eqb k (scalar_kind sv)
            then wrv w (VScalar sv) (wrv a (VScalB k w true) (Ret (POk HNone)))     (* *na.w = v *)
            else Ret (PErr EWrongKind)
        | BAssignNode r =>
            let* x := acc_prog r (AScalar k) in
            match x with
            | XScalar sv => wrv w (VScalar sv) (wrv a (VScalB k w true) (Ret (POk HNone)))
            | _ => Ret (PErr EWrongKind)
            end
        | _ => Ret (PErr EWrongKind)
        end
    | VBytesB _ =>
        match o with
        | BAssignBytes sl => wrv a (VBytesB (RBytesP sl)) (Ret (POk HNone))
        | BAssignNode r => bytes_assign_node a r
        | _ => Ret (PErr EWrongKind)
        end
    | _ => Crash
    end).

Definition builder_build (a : addr) : mprog pout :=
  rdv a (fun v => match v with
    | VMapB m =>
        if mst_eqb (m_st m) MFinished
        then match m_w m with Some s => Ret (POk (HNode (RMap s))) | None => Crash end
        else Crash
    | VListB l =>
        if lst_eqb (l_st l) LFinished
        then match l_w l with Some s => Ret (POk (HNode (RList s))) | None => Crash end
        else Crash
    | VAnyB k m l sc =>
        match k with
        | AKInvalid => Crash
        | AKMap => if mst_eqb (m_st m) MFinished
                   then match m_w m with Some s => Ret (POk (HNode (RMap s))) | None => Crash end
                   else Crash
        | AKList => if lst_eqb (l_st l) LFinished
                    then match l_w l with Some s => Ret (POk (HNode (RList s))) | None => Crash end
                    else Crash
        | AKNull => Ret (POk (HNode RNull))
        | AKCarry => Ret (POk (HNode sc))
        end
    | VScalB k w _ => Ret (POk (HNode (RScalar k w)))
    | VBytesB w => Ret (POk (HNode w))
    | _ => Crash
    end).

Definition builder_reset (a : addr) : mprog pout :=
  rdv a (fun v => match v with
    | VMapB _ => newv (VMapHdr nil_slice None) (fun s =>
                 wrv a (VMapB {| m_w := Some s; m_ka := false; m_va := false; m_st := MInitial |}) (Ret (POk HNone)))
    | VListB _ => newv (VListHdr nil_slice) (fun s =>
                  wrv a (VListB {| l_w := Some s; l_va := false; l_st := LInitial |}) (Ret (POk HNone)))
    | VAnyB _ _ _ _ => wrv a (VAnyB AKInvalid masm0 lasm0 RNil) (Ret (POk HNone))
    | VScalB k _ _ => newv (VScalar (zero_scalar k)) (fun w => wrv a (VScalB k w false) (Ret (POk HNone)))
    | VBytesB _ => wrv a (VBytesB (RBytesP nil_slice)) (Ret (POk HNone))
    | _ => Crash
    end).

(* Begin* / Assign* / AssignNode on a map/list value assembler *)
Definition value_op (pf : flavor) (a : addr) (o : bop) : mprog pout :=
  match o with
  | BBeginMap hint => val_begin_map pf a hint
  | BBeginList hint => val_begin_list pf a hint
  | BAssign v => let* r := sval_node v in va_assign pf a r
  | BAssignBytes sl => va_assign pf a (RBytesP sl)
  | BAssignNode r => va_assign pf a r
  end.

(* … on a map key assembler *)
Definition key_op (a : addr) (o : bop) : mprog pout :=
  match o with
  | BAssign (AvScalar (SString k)) => key_assign_string a k
  | BAssignNode r =>
      let* x := acc_prog r (AScalar KString) in
      match x with
      | XScalar (SString k) => key_assign_string a k
      | _ => Ret (PErr EOther)       (* "cannot assign non-string node into map key assembler" *)
      end
  | _ => Ret (PErr EWrongKind)
  end.

Definition asm_op (h : handle) (o : bop) : mprog pout :=
  match h with
  | HBuilder a => builder_op a o
  | HValM a => value_op FlMap a o
  | HValL a => value_op FlList a o
  | HKeyAsm a => key_op a o
  | _ => Crash
  end.

(* ------------------------------------------------------------------ Slice.Slice (subset matcher) *)

Definition clampZ (z : Z) : nat := Z.to_nat z.

Definition match_subset (r : nref) (from to : Z) : mprog pout :=
  match nref_kind r with
  | KdString =>
      let* x := acc_prog r (AScalar KString) in
      match x with
      | XScalar (SString s) =>
          let '(ok, f, t) := go_sliceBounds from to (Z.of_nat (length s)) in
          if ok then let* n := new_scalar_node (SString (firstn (clampZ t - clampZ f) (skipn (clampZ f) s))) in
                     Ret (POk (HNode n))
          else Ret (POk HNone)
      | _ => Ret (PErr EOther)
      end
  | KdBytes =>
      match r with
      | RBytesP sl =>
          (* AsLargeBytes: a fresh bytes.Reader; Seek(0,End); Seek(0,Start) *)
          New (CRdr (RdBytes sl 0)) (fun rd =>
            let* len := rd_seek_end rd in
            let* _ := rd_seek rd 0 in
            let '(ok, f, t) := go_sliceBounds from to (Z.of_nat len) in
            if ok then New (CRdr (RdSect rd 0 (clampZ f) (clampZ f) (clampZ t))) (fun x => Ret (POk (HNode (RStream x))))
            else Ret (POk HNone))
      | RStream rd =>
          if cf_stream_shared cf then
            (* AsLargeBytes returns the node's own reader: its position is moved, then shared *)
            let* len := rd_seek_end rd in
            let* _ := rd_seek rd 0 in
            let '(ok, f, t) := go_sliceBounds from to (Z.of_nat len) in
            if ok then New (CRdr (RdSect rd 0 (clampZ f) (clampZ f) (clampZ t))) (fun x => Ret (POk (HNode (RStream x))))
            else Ret (POk HNone)
          else
            let* data := rd_content rd_fuel rd in
            let '(ok, f, t) := go_sliceBounds from to (Z.of_nat (length data)) in
            if ok then New (CRdr (RdSect rd 0 (clampZ f) (clampZ f) (clampZ t))) (fun x => Ret (POk (HNode (RStream x))))
            else Ret (POk HNone)
      | RForeign (DBytes bs) =>
          let '(ok, f, t) := go_sliceBounds from to (Z.of_nat (length bs)) in
          if ok then
            New (CBytes bs) (fun y =>
              Ret (POk (HNode (RBytesP (subslice {| s_arr := Some y; s_off := 0; s_len := length bs; s_cap := length bs |}
                                                   (clampZ f) (clampZ t))))))
          else Ret (POk HNone)
      | _ => Crash
      end
  | KdInvalid => Crash
  | _ => Ret (POk HNone)
  end.

(* ------------------------------------------------------------------ one API call *)

Definition prim_prog (p : prim) : mprog pout :=
  match p with
  | PNewBuilder pr => new_builder pr
  | PBeginMap h hint => asm_op h (BBeginMap hint)
  | PBeginList h hint => asm_op h (BBeginList hint)
  | PAssembleEntry h k => match h with HMapAsm a => map_assemble_entry a k | _ => Crash end
  | PAssembleKey h => match h with HMapAsm a => map_assemble_key a | _ => Crash end
  | PAssembleValue h =>
      match h with HMapAsm a => map_assemble_value a | HListAsm a => list_assemble_value a | _ => Crash end
  | PAssign h v => asm_op h (BAssign v)
  | PAssignBytes h s => match is_slice_handle s with Some sl => asm_op h (BAssignBytes sl) | None => Crash end
  | PAssignNode h n => match n with HNode r => asm_op h (BAssignNode r) | _ => Crash end
  | PFinish h => match h with HMapAsm a => map_finish a | HListAsm a => list_finish a | _ => Crash end
  | PBuild h => match h with HBuilder a => builder_build a | _ => Crash end
  | PReset h => match h with HBuilder a => builder_reset a | _ => Crash end
  | PRead n a => match n with HNode r => let* x := acc_prog r a in Ret (PAcc x) | _ => Crash end
  | PNewSlice data =>
      New (CBytes data) (fun y =>
        Ret (POk (HSlice {| s_arr := Some y; s_off := 0; s_len := length data; s_cap := length data |})))
  | PNewBytesNode s => match is_slice_handle s with Some sl => Ret (POk (HNode (RBytesP sl))) | None => Crash end
  | PNewStreamNode s =>
      match is_slice_handle s with
      | Some sl => New (CRdr (RdBytes sl 0)) (fun x => Ret (POk (HNode (RStream x))))
      | None => Crash
      end
  | PNewScalarNode v => let* r := sval_node v in Ret (POk (HNode r))
  | PForeign d => Ret (POk (HNode (RForeign d)))
  | PMatchSubset n from to => match n with HNode r => match_subset r from to | _ => Crash end
  | PLargeBytes n =>
      match n with
      | HNode RNil => Crash
      | HNode (RBytesP sl) => New (CRdr (RdBytes sl 0)) (fun x => Ret (POk (HReader x)))   (* bytes.NewReader(n) *)
      | HNode (RStream src) =>
          if cf_stream_shared cf then Ret (POk (HReader src))                 (* the node's one reader, every time *)
          else New (CRdr (RdCursor src 0)) (fun x => Ret (POk (HReader x)))   (* a cursor of its own *)
      | HNode _ => Ret (PErr EWrongKind)                                      (* not a LargeBytesNode *)
      | _ => Crash
      end
  | PReaderRead r k =>
      match r with
      | HReader x => let* bs := rd_read rd_fuel x k in Ret (PAcc (XBytes bs None))
      | _ => Crash
      end
  | PReaderSeek r off wh =>
      match r with
      | HReader x => let* z := rd_seekw rd_fuel x off wh in
                     Ret (match z with Some p => PAcc (XLen p) | None => PErr EOther end)
      | _ => Crash
      end
  | PCallerWrite s i b =>
      match is_slice_handle s with
      | Some sl =>
          if i <? s_len sl then
            match s_arr sl with
            | Some y => Rd y (fun c => match c with
                | CBytes bs => Wr y (CBytes (upd (s_off sl + i) bs b)) (Ret (POk HNone))
                | _ => Crash end)
            | None => Crash
            end
          else Crash
      | None => Crash
      end
  end.

(* ------------------------------------------------------------------ histories *)

(* The client's view: the heap plus the handles the library has handed out so far. *)
(* [par]: the arena this client allocates in (0 for a sequential client; a goroutine's own arena in
   C20).  [ptr]: the calls made so far, newest first (a trace; nothing reads it back). *)
Record pstate := { hp : mheap; kn : list handle; par : nat; ptr : list prim }.
Definition pinit : pstate := {| hp := [[]]; kn := []; par := 0; ptr := [] |}.

Inductive presult := RDone (o : pout) | RPanic.

Definition slice_eqb (a b : slice) : bool :=
  match s_arr a, s_arr b with
  | Some x, Some y => addr_eqb x y
  | None, None => true
  | _, _ => false
  end && Nat.eqb (s_off a) (s_off b) && Nat.eqb (s_len a) (s_len b) && Nat.eqb (s_cap a) (s_cap b).

Definition nref_eqb (a b : nref) : bool :=
  match a, b with
  | RNil, RNil | RNull, RNull => true
  | RScalar k x, RScalar k' y => skind_eqb k k' && addr_eqb x y
  | RBytesP s, RBytesP s' => slice_eqb s s'
  | RStream x, RStream y | RMap x, RMap y | RList x, RList y => addr_eqb x y
  | _, _ => false
  end.

Definition handle_eqb (a b : handle) : bool :=
  match a, b with
  | HNone, HNone => true
  | HBuilder x, HBuilder y | HMapAsm x, HMapAsm y | HListAsm x, HListAsm y
  | HKeyAsm x, HKeyAsm y | HValM x, HValM y | HValL x, HValL y => addr_eqb x y
  | HNode r, HNode r' => nref_eqb r r'
  | HSlice s, HSlice s' => slice_eqb s s'
  | HReader x, HReader y => addr_eqb x y
  | _, _ => false
  end.

(* Only nodes and byte slices are capabilities the library hands out and the theorems care about;
   builder and assembler handles need none (every call re-validates the object it is given). *)
Definition known_b (k : list handle) (h : handle) : bool :=
  match h with
  | HNode (RForeign _) | HNode RNull | HNode RNil => true
  | HNode (RBytesP s) => existsb (handle_eqb h) k || existsb (handle_eqb (HSlice s)) k
  | HNode _ | HSlice _ | HReader _ => existsb (handle_eqb h) k
  | _ => true
  end.

Definition add_known (k : list handle) (h : handle) : list handle :=
  match h with
  | HNode (RForeign _) | HNode RNull | HNode RNil => k
  | HNode _ | HSlice _ | HReader _ => if existsb (handle_eqb h) k then k else h :: k
  | _ => k
  end.

Definition out_handles (o : pout) : list handle :=
  match o with
  | POk h => [h]
  | PErr _ => []
  | PAcc (XNode r) => [HNode r]
  | PAcc (XEntries l) => map (fun kr => HNode (snd kr)) l
  | PAcc (XItems l) => map HNode l
  | PAcc (XBytes _ (Some sl)) => [HSlice sl]
  | PAcc _ => []
  end.

(* the calls that can hand out nodes or slices *)
Definition returns_caps (p : prim) : bool :=
  match p with
  | PBuild _ | PRead _ _ | PNewSlice _ | PNewBytesNode _ | PNewStreamNode _ | PNewScalarNode _
  | PForeign _ | PMatchSubset _ _ _ | PLargeBytes _ => true
  | _ => false
  end.

Definition pstep (ps : pstate) (p : prim) : pstate * presult :=
  let '(o, h', _) := run (par ps) (prim_prog p) (hp ps) in
  match o with
  | Done po => ({| hp := h'; kn := if returns_caps p then fold_left add_known (out_handles po) (kn ps) else kn ps;
                   par := par ps; ptr := p :: ptr ps |}, RDone po)
  | Crashed => ({| hp := h'; kn := kn ps; par := par ps; ptr := p :: ptr ps |}, RPanic)
  end.

Definition prim_operands (p : prim) : list handle :=
  match p with
  | PNewBuilder _ | PNewSlice _ | PNewScalarNode _ | PForeign _ => []
  | PBeginMap h _ | PBeginList h _ | PAssembleEntry h _ | PAssembleKey h | PAssembleValue h
  | PAssign h _ | PFinish h | PBuild h | PReset h => [h]
  | PAssignBytes h s | PAssignNode h s => [h; s]
  | PRead n _ | PMatchSubset n _ _ | PLargeBytes n | PReaderRead n _ | PReaderSeek n _ _ => [n]
  | PNewBytesNode s | PNewStreamNode s | PCallerWrite s _ _ => [s]
  end.

Definition cell_val (h : mheap) (a : addr) : option val :=
  match hget h a with Some (CPtr v) => Some v | _ => None end.

(* The call orders the builder contract allows (datamodel/nodeBuilder.go): an assembler is "done"
   after its Assign* / Finish; a done builder may only Build or Reset; Build needs a done builder.
   basicnode enforces most of this itself by panicking; what it does NOT check is listed here.
   And the property excludes callers writing into byte slices. *)
Definition legal_heap (h : mheap) (p : prim) : bool :=
  match p with
  | PCallerWrite _ _ _ => false
  | PBeginMap (HBuilder a) _ | PBeginList (HBuilder a) _ =>
      match cell_val h a with
      | Some (VMapB m) => negb (mst_eqb (m_st m) MFinished)     (* BeginMap after Finish: overwrites w.t, w.m *)
      | Some (VListB l) => negb (lst_eqb (l_st l) LFinished)
      | Some (VAnyB _ m l _) =>                                  (* a stale assembler handle finished it after Reset *)
          negb (mst_eqb (m_st m) MFinished) && negb (lst_eqb (l_st l) LFinished)
      | _ => true
      end
  | PAssign (HBuilder a) _ | PAssignNode (HBuilder a) _ | PAssignBytes (HBuilder a) _ =>
      match cell_val h a with
      | Some (VScalB _ _ done) => negb done                     (* second Assign: *na.w = v on the built node *)
      | _ => true
      end
  | PBuild (HBuilder a) =>
      match cell_val h a with
      | Some (VScalB _ _ done) => done                          (* Build before Assign hands out the live w *)
      | _ => true
      end
  | _ => true
  end.

Definition legal (ps : pstate) (p : prim) : bool :=
  forallb (known_b (kn ps)) (prim_operands p) && legal_heap (hp ps) p.

Fixpoint runh (ps : pstate) (hs : list prim) : pstate :=
  match hs with [] => ps | p :: r => runh (fst (pstep ps p)) r end.

Fixpoint legalh (ps : pstate) (hs : list prim) : bool :=
  match hs with [] => true | p :: r => legal ps p && legalh (fst (pstep ps p)) r end.

(* what a read of a finished node returns now (and the state it leaves) *)
Definition read_obs (ps : pstate) (r : nref) (a : acc) : presult := snd (pstep ps (PRead (HNode r) a)).

End Model.

(* the configurations the checks run: the pinned tree, and the tree with streamBytes repaired.
   [go_grow] stands for the runtime's growth policy; no theorem depends on it. *)
Definition go_grow (c : nat) : nat := if c =? 0 then 1 else 2 * c.
Definition cfg_pinned : cfg := {| cf_stream_shared := true; cf_mapcopy_begin := true; cf_grow := go_grow |}.
Definition cfg_repaired : cfg := {| cf_stream_shared := false; cf_mapcopy_begin := true; cf_grow := go_grow |}.
Definition cfg_of (stream_shared mapcopy_begin : bool) : cfg :=
  {| cf_stream_shared := stream_shared; cf_mapcopy_begin := mapcopy_begin; cf_grow := go_grow |}.
