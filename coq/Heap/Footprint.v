(* Heap/Footprint.v — goroutines over the Go heap of Heap/GoMem.v.  MODEL file: definitions only.

   A thread is a heap program with an arena of its own to allocate in; a program is a list of
   threads over one shared initial heap.  Threads interleave at the granularity of single loads,
   stores and allocations ([step1]).  The footprint of a thread is the access log of running it
   ALONE from the initial heap ([run] logs every access).  [drf_check] is the decidable premise of
   the classical data-race-freedom theorem (Proofs/HeapDrf.v, Props/C20.v): no thread's writes
   (stores and allocations) touch an address another thread accesses.

   Not modelled (C20 is partial by nature): the Go memory model (this is sequential consistency at
   cell granularity), compiler and hardware reordering, the scheduler, anything below a cell. *)
Require Import IP.Base.Bytes IP.Heap.GoMem.
From Coq Require Import List Arith Bool.
Import ListNotations.
Local Open Scope nat_scope.

Definition ev_addr (e : ev) : addr := match e with ERd a | EWr a | ENew a => a end.
Definition ev_is_write (e : ev) : bool := match e with ERd _ => false | _ => true end.

(* two accesses race when they hit the same cell and at least one writes *)
Definition conflict (e1 e2 : ev) : bool :=
  addr_eqb (ev_addr e1) (ev_addr e2) && (ev_is_write e1 || ev_is_write e2).

Definition fp (l : list ev) : list addr := map ev_addr l.
Definition wfp (l : list ev) : list addr := map ev_addr (filter ev_is_write l).

Definition disjoint_b (xs ys : list addr) : bool :=
  forallb (fun a => negb (existsb (addr_eqb a) ys)) xs.

Fixpoint nodup_b (l : list nat) : bool :=
  match l with
  | [] => true
  | x :: r => negb (existsb (Nat.eqb x) r) && nodup_b r
  end.

Section Conc.
  Variables V R : Type.

  Record thread := { t_ar : nat; t_prog : prog V R }.

  Definition conf := (heap V * list thread)%type.

  Definition next_ev (t : thread) (h : heap V) : option ev :=
    match step1 (t_ar t) (t_prog t) h with Some (_, _, e) => Some e | None => None end.

  (* thread i performs its next access *)
  Definition tstep (i : nat) (c : conf) : option conf :=
    let '(h, ts) := c in
    match nth_error ts i with
    | Some t =>
        match step1 (t_ar t) (t_prog t) h with
        | Some (p', h', _) => Some (h', upd i ts {| t_ar := t_ar t; t_prog := p' |})
        | None => None
        end
    | None => None
    end.

  (* a schedule names, step by step, the thread that moves (a finished or missing thread: no move) *)
  Fixpoint sched_run (s : list nat) (c : conf) : conf :=
    match s with
    | [] => c
    | i :: r => match tstep i c with Some c' => sched_run r c' | None => sched_run r c end
    end.

  Definition racy (c : conf) : Prop :=
    exists i j ti tj ei ej, i <> j /\
      nth_error (snd c) i = Some ti /\ nth_error (snd c) j = Some tj /\
      next_ev ti (fst c) = Some ei /\ next_ev tj (fst c) = Some ej /\ conflict ei ej = true.

  Definition race_free (c0 : conf) : Prop := forall s, ~ racy (sched_run s c0).

  Definition finished (t : thread) : option (outcome R) :=
    match t_prog t with Ret a => Some (Done a) | Crash => Some Crashed | _ => None end.

  (* running a thread alone from the initial heap: its result and its footprint *)
  Definition alone (h0 : heap V) (t : thread) : outcome R * heap V * list ev := run (t_ar t) (t_prog t) h0.
  Definition alone_log (h0 : heap V) (t : thread) : list ev := snd (alone h0 t).
  Definition alone_out (h0 : heap V) (t : thread) : outcome R := fst (fst (alone h0 t)).

  (* every other thread's footprint is disjoint from this thread's writes *)
  Fixpoint others_ok (h0 : heap V) (w : list addr) (i : nat) (ts : list thread) (k : nat) : bool :=
    match ts with
    | [] => true
    | t :: r => (Nat.eqb i k || disjoint_b w (fp (alone_log h0 t))) && others_ok h0 w i r (S k)
    end.

  Fixpoint all_ok (h0 : heap V) (all : list thread) (ts : list thread) (i : nat) : bool :=
    match ts with
    | [] => true
    | t :: r => others_ok h0 (wfp (alone_log h0 t)) i all 0 && all_ok h0 all r (S i)
    end.

  (* the premise: distinct, initially empty arenas, and pairwise write/footprint disjointness *)
  Definition drf_check (h0 : heap V) (ts : list thread) : bool :=
    nodup_b (map t_ar ts) &&
    forallb (fun t => match nth (t_ar t) h0 [] with [] => true | _ => false end) ts &&
    all_ok h0 ts ts 0.

End Conc.

Arguments t_ar {V R} t.
Arguments t_prog {V R} t.
Arguments next_ev {V R} t h.
Arguments tstep {V R} i c.
Arguments sched_run {V R} s c.
Arguments racy {V R} c.
Arguments race_free {V R} c0.
Arguments finished {V R} t.
Arguments alone {V R} h0 t.
Arguments alone_log {V R} h0 t.
Arguments alone_out {V R} h0 t.
Arguments drf_check {V R} h0 ts.
