(* Heap/GoMem.v — a minimal Go heap: arenas of cells (backing arrays with Go's len/cap/append
   semantics, Go maps with string keys, pointer/struct cells, byte arrays, reader cells with a
   position), and heap programs as a free monad whose interpreter LOGS every access.
   MODEL file: definitions only.  Lemmas: Proofs/HeapMem.v.

   Used where a property is *about* aliasing or mutation: C11 (ownership of backing arrays),
   C20 (read/write footprints = the access log).

   Addresses are (arena, index).  Allocation appends to the arena the interpreter is given, so a
   thread allocating in its own arena never shifts another thread's addresses (C20); the sequential
   model (C11) runs everything in arena 0. *)
Require Import IP.Base.Bytes.
From Coq Require Import List Arith Bool ZArith.
Import ListNotations.
Local Open Scope nat_scope.

Definition addr := (nat * nat)%type.
Definition addr_eqb (a b : addr) : bool := Nat.eqb (fst a) (fst b) && Nat.eqb (snd a) (snd b).

(* A Go slice header.  [s_arr = None] is the nil slice.  [s_off] is the index of element 0 inside
   the backing array; [s_cap] counts from [s_off]. *)
Record slice := { s_arr : option addr; s_off : nat; s_len : nat; s_cap : nat }.
Definition nil_slice : slice := {| s_arr := None; s_off := 0; s_len := 0; s_cap := 0 |}.

(* Readers (io.ReadSeeker values) with their mutable positions.
   RdBytes  = bytes.Reader{s, i}
   RdSect   = io.SectionReader{r: &readerat{rs: parent, off: raoff}, base, off, limit}
              (traversal/selector/matcher_util.go readerat + io.SectionReader) *)
Inductive rdr :=
| RdBytes (s : slice) (pos : nat)
| RdSect (parent : addr) (raoff base off limit : nat)
| RdCursor (src : addr) (off : nat).   (* basicnode.streamCursor{src, off} (e31ecf7): a position of its
                                          own over the reader in cell [src], which it re-positions before every read *)

Inductive whence := SeekStart | SeekCurrent | SeekEnd.

Section Mem.
  Variable V : Type.

  Inductive cell :=
  | CArr (slots : list V)             (* backing array; length = capacity *)
  | CMap (ents : list (bytes * V))    (* map[string]V *)
  | CPtr (v : V)                      (* target of a pointer: a boxed value or a struct *)
  | CBytes (bs : list N)              (* backing array of a []byte *)
  | CRdr (r : rdr).

  (* Every cell carries a write counter (ghost: no program can read it).  It lets theorems say "this
     cell was not written", which is stronger than "this cell has the same content". *)
  Definition heap := list (list (cell * nat)).

  Definition hgetv (h : heap) (a : addr) : option (cell * nat) := nth_error (nth (fst a) h []) (snd a).
  Definition hget (h : heap) (a : addr) : option cell :=
    match hgetv h a with Some (c, _) => Some c | None => None end.

  Fixpoint upd {A} (n : nat) (l : list A) (x : A) : list A :=
    match n, l with
    | _, [] => []
    | O, _ :: t => x :: t
    | S n', y :: t => y :: upd n' t x
    end.

  Fixpoint updv (n : nat) (l : list (cell * nat)) (c : cell) : list (cell * nat) :=
    match n, l with
    | _, [] => []
    | O, (_, v) :: t => (c, S v) :: t
    | S n', y :: t => y :: updv n' t c
    end.

  Fixpoint set_arena (r : nat) (h : heap) (x : list (cell * nat)) : heap :=
    match r, h with
    | O, [] => [x]
    | O, _ :: t => x :: t
    | S r', [] => [] :: set_arena r' [] x
    | S r', y :: t => y :: set_arena r' t x
    end.

  Definition hset (h : heap) (a : addr) (c : cell) : heap :=
    set_arena (fst a) h (updv (snd a) (nth (fst a) h []) c).

  Definition halloc (r : nat) (h : heap) (c : cell) : heap * addr :=
    let ar := nth r h [] in (set_arena r h (ar ++ [(c, 0)]), (r, length ar)).

  (* ---------------------------------------------------------------- heap programs *)

  Inductive prog (A : Type) : Type :=
  | Ret (a : A)
  | Rd (a : addr) (k : cell -> prog A)     (* load; a missing cell is a nil/dangling dereference *)
  | Wr (a : addr) (c : cell) (k : prog A)  (* store *)
  | New (c : cell) (k : addr -> prog A)    (* allocate *)
  | Crash.                                 (* Go panic *)
  Arguments Ret {A} a.
  Arguments Rd {A} a k.
  Arguments Wr {A} a c k.
  Arguments New {A} c k.
  Arguments Crash {A}.

  Fixpoint pbind {A B} (p : prog A) (f : A -> prog B) : prog B :=
    match p with
    | Ret a => f a
    | Rd a k => Rd a (fun c => pbind (k c) f)
    | Wr a c k => Wr a c (pbind k f)
    | New c k => New c (fun a => pbind (k a) f)
    | Crash => Crash
    end.

  Inductive ev := ERd (a : addr) | EWr (a : addr) | ENew (a : addr).

  Inductive outcome (A : Type) := Done (a : A) | Crashed.
  Arguments Done {A} a.
  Arguments Crashed {A}.

  (* The interpreter: result, final heap, access log (the operation's footprint). *)
  Fixpoint run {A} (ar : nat) (p : prog A) (h : heap) : outcome A * heap * list ev :=
    match p with
    | Ret a => (Done a, h, [])
    | Rd a k =>
        match hget h a with
        | Some c => let '(o, h', l) := run ar (k c) h in (o, h', ERd a :: l)
        | None => (Crashed, h, [ERd a])
        end
    | Wr a c k =>
        match hget h a with
        | Some _ => let '(o, h', l) := run ar k (hset h a c) in (o, h', EWr a :: l)
        | None => (Crashed, h, [EWr a])
        end
    | New c k =>
        let '(h1, a) := halloc ar h c in
        let '(o, h', l) := run ar (k a) h1 in (o, h', ENew a :: l)
    | Crash => (Crashed, h, [])
    end.

  (* one primitive action at a time: the granularity at which goroutines interleave (C20) *)
  Definition step1 {A} (ar : nat) (p : prog A) (h : heap) : option (prog A * heap * ev) :=
    match p with
    | Ret _ | Crash => None
    | Rd a k => match hget h a with Some c => Some (k c, h, ERd a) | None => Some (Crash, h, ERd a) end
    | Wr a c k => match hget h a with Some _ => Some (k, hset h a c, EWr a) | None => Some (Crash, h, EWr a) end
    | New c k => let '(h1, a) := halloc ar h c in Some (k a, h1, ENew a)
    end.

  (* ---------------------------------------------------------------- slices and append *)

  (* Go's append of one element.  [gr] is the growth policy (new capacity from old capacity); the
     runtime's real policy depends on size classes and is irrelevant to every theorem: they hold
     for all [gr].  When len < cap the element is written IN PLACE at index len of the shared
     backing array — the aliasing hazard C11 is about. *)
  Definition append1 (gr : nat -> nat) (zero : V) (s : slice) (v : V) : prog slice :=
    match s_arr s with
    | Some a =>
        if s_len s <? s_cap s then
          Rd a (fun c => match c with
            | CArr l => Wr a (CArr (upd (s_off s + s_len s) l v))
                          (Ret {| s_arr := Some a; s_off := s_off s; s_len := S (s_len s); s_cap := s_cap s |})
            | _ => Crash end)
        else
          Rd a (fun c => match c with
            | CArr l =>
                let nc := Nat.max (S (s_len s)) (gr (s_cap s)) in
                New (CArr (firstn (s_len s) (skipn (s_off s) l) ++ v :: repeat zero (nc - S (s_len s))))
                    (fun a' => Ret {| s_arr := Some a'; s_off := 0; s_len := S (s_len s); s_cap := nc |})
            | _ => Crash end)
    | None =>
        let nc := Nat.max 1 (gr 0) in
        New (CArr (v :: repeat zero (nc - 1)))
            (fun a' => Ret {| s_arr := Some a'; s_off := 0; s_len := 1; s_cap := nc |})
    end.

  (* make([]T, 0, n) *)
  Definition make_slice (zero : V) (n : nat) : prog slice :=
    New (CArr (repeat zero n)) (fun a => Ret {| s_arr := Some a; s_off := 0; s_len := 0; s_cap := n |}).

  (* the visible elements of a slice *)
  Definition slice_elems (s : slice) (l : list V) : list V := firstn (s_len s) (skipn (s_off s) l).

  Definition read_slice (s : slice) : prog (list V) :=
    match s_arr s with
    | None => Ret []
    | Some a => Rd a (fun c => match c with CArr l => Ret (slice_elems s l) | _ => Crash end)
    end.

  (* Go map read / write with string keys *)
  Fixpoint map_get (es : list (bytes * V)) (k : bytes) : option V :=
    match es with
    | [] => None
    | (k', v) :: r => if bytes_eqb k k' then Some v else map_get r k
    end.
  Fixpoint map_set (es : list (bytes * V)) (k : bytes) (v : V) : list (bytes * V) :=
    match es with
    | [] => [(k, v)]
    | (k', v') :: r => if bytes_eqb k k' then (k', v) :: r else (k', v') :: map_set r k v
    end.

  (* ---------------------------------------------------------------- byte slices and readers *)

  Definition bytes_elems (s : slice) (bs : list N) : list N := firstn (s_len s) (skipn (s_off s) bs).

  Definition read_bytes (s : slice) : prog (list N) :=
    match s_arr s with
    | None => Ret []
    | Some a => Rd a (fun c => match c with CBytes bs => Ret (bytes_elems s bs) | _ => Crash end)
    end.

  (* b[from:to] of a byte slice (bounds already checked by the caller) *)
  Definition subslice (s : slice) (from to : nat) : slice :=
    {| s_arr := s_arr s; s_off := s_off s + from; s_len := to - from; s_cap := s_cap s - from |}.

  (* Seek(o, io.SeekStart) *)
  Definition rd_seek (a : addr) (o : nat) : prog unit :=
    Rd a (fun c => match c with
      | CRdr (RdBytes s _) => Wr a (CRdr (RdBytes s o)) (Ret tt)
      | CRdr (RdSect p ra base _ lim) => Wr a (CRdr (RdSect p ra base (base + o) lim)) (Ret tt)
      | _ => Crash end).

  (* Seek(0, io.SeekEnd): returns the length *)
  Definition rd_seek_end (a : addr) : prog nat :=
    Rd a (fun c => match c with
      | CRdr (RdBytes s _) => Wr a (CRdr (RdBytes s (s_len s))) (Ret (s_len s))
      | CRdr (RdSect p ra base _ lim) => Wr a (CRdr (RdSect p ra base lim lim)) (Ret (lim - base))
      | _ => Crash end).

  (* The content a reader denotes when read from its start by a private reader: what the node
     "is", independently of any position. *)
  Fixpoint rd_content (fuel : nat) (a : addr) : prog (list N) :=
    match fuel with
    | O => Crash
    | S f =>
      Rd a (fun c => match c with
        | CRdr (RdBytes s _) => read_bytes s
        | CRdr (RdSect p _ base _ lim) =>
            pbind (rd_content f p) (fun data => Ret (firstn (lim - base) (skipn base data)))
        | _ => Crash end)
    end.

  (* Read up to [k] bytes ([None] = until EOF, as io.ReadAll does) from the reader's current
     position, advancing it.  A section reader goes through its readerat, which re-seeks the parent
     only when the offset it is asked for differs from the one it believes the parent to be at. *)
  Fixpoint rd_read (fuel : nat) (a : addr) (k : option nat) : prog (list N) :=
    match fuel with
    | O => Crash
    | S f =>
      Rd a (fun c => match c with
        | CRdr (RdBytes s pos) =>
            pbind (read_bytes s) (fun data =>
              let rest := skipn pos data in
              let out := match k with None => rest | Some n => firstn n rest end in
              Wr a (CRdr (RdBytes s (pos + length out))) (Ret out))
        | CRdr (RdSect p ra base off lim) =>
            if lim <=? off then Ret []
            else
              let want := match k with None => lim - off | Some n => Nat.min n (lim - off) end in
              pbind (if off =? ra then Ret tt else rd_seek p off) (fun _ =>
              pbind (rd_read f p (Some want)) (fun out =>
                Wr a (CRdr (RdSect p (off + length out) base (off + length out) lim)) (Ret out)))
        | CRdr (RdCursor src off) =>
            (* lock; src.Seek(off); src.Read: whatever the source's own position was *)
            pbind (rd_content f src) (fun data =>
              let rest := skipn off data in
              let out := match k with None => rest | Some n => firstn n rest end in
              Wr a (CRdr (RdCursor src (off + length out))) (Ret out))
        | _ => Crash end)
    end.


  (* Seek(off, whence) on a handed-out reader; None = the error for a negative position *)
  Definition rd_seekw (fuel : nat) (a : addr) (off : Z) (wh : whence) : prog (option Z) :=
    Rd a (fun c => match c with
      | CRdr (RdBytes s pos) =>
          let abs := match wh with
                     | SeekStart => off | SeekCurrent => (Z.of_nat pos + off)%Z | SeekEnd => (Z.of_nat (s_len s) + off)%Z
                     end in
          if (abs <? 0)%Z then Ret None else Wr a (CRdr (RdBytes s (Z.to_nat abs))) (Ret (Some abs))
      | CRdr (RdSect p ra base o lim) =>
          let abs := match wh with
                     | SeekStart => (Z.of_nat base + off)%Z | SeekCurrent => (Z.of_nat o + off)%Z
                     | SeekEnd => (Z.of_nat lim + off)%Z
                     end in
          if (abs <? Z.of_nat base)%Z then Ret None
          else Wr a (CRdr (RdSect p ra base (Z.to_nat abs) lim)) (Ret (Some (abs - Z.of_nat base)%Z))
      | CRdr (RdCursor src o) =>
          match wh with
          | SeekEnd =>     (* only the underlying reader knows where its end is *)
              pbind (rd_content fuel src) (fun data =>
                let abs := (Z.of_nat (length data) + off)%Z in
                if (abs <? 0)%Z then Ret None else Wr a (CRdr (RdCursor src (Z.to_nat abs))) (Ret (Some abs)))
          | _ =>
              let abs := match wh with SeekStart => off | _ => (Z.of_nat o + off)%Z end in
              if (abs <? 0)%Z then Ret None else Wr a (CRdr (RdCursor src (Z.to_nat abs))) (Ret (Some abs))
          end
      | _ => Crash end).

End Mem.

Arguments Ret {V A} a.
Arguments Rd {V A} a k.
Arguments Wr {V A} a c k.
Arguments New {V A} c k.
Arguments Crash {V A}.
Arguments Done {A} a.
Arguments Crashed {A}.
Arguments CArr {V} slots.
Arguments CMap {V} ents.
Arguments CPtr {V} v.
Arguments CBytes {V} bs.
Arguments CRdr {V} r.
Arguments hget {V} h a.
Arguments hgetv {V} h a.
Arguments updv {V} n l c.
Arguments set_arena {V} r h x.
Arguments hset {V} h a c.
Arguments halloc {V} r h c.
Arguments pbind {V A B} p f.
Arguments run {V A} ar p h.
Arguments step1 {V A} ar p h.
Arguments append1 {V} gr zero s v.
Arguments make_slice {V} zero n.
Arguments slice_elems {V} s l.
Arguments read_slice {V} s.
Arguments map_get {V} es k.
Arguments map_set {V} es k v.
Arguments read_bytes {V} s.
Arguments rd_seek {V} a o.
Arguments rd_seek_end {V} a.
Arguments rd_read {V} fuel a k.
Arguments rd_content {V} fuel a.
Arguments rd_seekw {V} fuel a off wh.

Notation "'let*' x ':=' p 'in' k" := (pbind p (fun x => k)) (at level 200, x name, p at level 100, k at level 200, right associativity).
