(* Heap/Conc.v — the thread programs C20 is about.  MODEL file: definitions only.

   (1) Goroutines over shared basicnode nodes: a thread is a fixed sequence of API calls of
       Heap/BasicHeap.v (reads, copies, fresh builders, …) run in the thread's own arena; its
       footprint is the access log of the heap model.
   (2) The shared objects that live outside the basicnode heap model (a traversal.Config, the
       package-level bindnode.defaultTypeSystem, a compiled selector, a type system, a link system
       over a read-only store, nodes of other implementations) are ABSTRACT cells, and the library
       operations on them are programs with the footprints read off the Go source:
         traversal.Config.init()        if tc.Ctx == nil { tc.Ctx = … }; if tc.Chooser == nil { tc.Chooser = … }
         bindnode.Wrap/Prototype(nil)   inferSchema: defaultTypeSystem.Accumulate(…)   (read-modify-write)
         everything else in the read-only vocabulary: loads of immutable cells + per-call allocations.
       These footprints are tied to the code dynamically (race detector), not proved of it. *)
Require Import IP.Base.Bytes IP.DM.Value IP.Heap.GoMem IP.Heap.BasicHeap IP.Heap.Footprint.
From Coq Require Import List Arith Bool.
Import ListNotations.
Local Open Scope nat_scope.

(* ------------------------------------------------------------------ (1) basicnode threads *)

Section Basic.
  Variable cf : cfg.

  Fixpoint prims_prog (l : list prim) : mprog (list pout) :=
    match l with
    | [] => Ret []
    | p :: r => let* o := prim_prog cf p in let* os := prims_prog r in Ret (o :: os)
    end.

  Definition basic_thread (k : nat) (l : list prim) : thread val (list pout) :=
    {| t_ar := k; t_prog := prims_prog l |}.

  (* the model's prediction for a scenario: are the footprints of these threads disjoint? *)
  Definition basic_check (h0 : mheap) (ts : list (nat * list prim)) : bool :=
    drf_check h0 (map (fun kl => basic_thread (fst kl) (snd kl)) ts).
End Basic.

(* ------------------------------------------------------------------ (2) abstract shared objects *)

(* cells of arena 0; a cell holds CPtr 0 when "unset / nil" *)
Definition c_nodes : addr := (0, 0).     (* the shared node graph (any implementation), immutable *)
Definition c_selector : addr := (0, 1).  (* a compiled selector *)
Definition c_cfg_ctx : addr := (0, 2).   (* traversal.Config.Ctx *)
Definition c_cfg_chooser : addr := (0, 3). (* traversal.Config.LinkTargetNodePrototypeChooser *)
Definition c_linksys : addr := (0, 4).   (* LinkSystem + read-only store *)
Definition c_types : addr := (0, 5).     (* an explicit schema.TypeSystem / prototype *)
Definition c_default_ts : addr := (0, 6). (* bindnode.defaultTypeSystem (package global) *)

Inductive aop :=
| ALoad (c : addr)        (* read an object *)
| ALazyInit (c : addr)    (* if unset then set *)
| AAccumulate (c : addr)  (* read-modify-write of a registry *)
| ALocal.                 (* a per-call allocation: iterator, Progress, hasher, builder *)

Definition aop_prog (o : aop) : prog nat unit :=
  match o with
  | ALoad c => Rd c (fun _ => Ret tt)
  | ALazyInit c => Rd c (fun x => match x with CPtr 0 => Wr c (CPtr 1) (Ret tt) | _ => Ret tt end)
  | AAccumulate c => Rd c (fun x => match x with CPtr n => Wr c (CPtr (S n)) (Ret tt) | _ => Crash end)
  | ALocal => New (CPtr 0) (fun _ => Ret tt)
  end.

Fixpoint aops_prog (l : list aop) : prog nat unit :=
  match l with
  | [] => Ret tt
  | o :: r => pbind (aop_prog o) (fun _ => aops_prog r)
  end.

(* How the tree synchronises bindnode.defaultTypeSystem (a quirk, probed by the harness):
     TsUnsync      no synchronisation: inference reads and writes the registry (tree before 79791b2)
     TsInferMutex  inference memoises per Go type under a mutex; the nodes' type lookups
                   (StructField.Type, ValueType, …) still read the registry without it (79791b2)
     TsFullSync    every access to a TypeSystem's registry takes its lock (fixes/typesystem-rwmutex.diff)
   Mutual exclusion is not modelled.  The lockset reading is used instead: a cell ALL of whose accesses
   hold one lock has no data race and is dropped from the footprints (TsFullSync); a cell with some
   access outside the lock is an ordinary cell (TsInferMutex — what remains is "lookup during another
   goroutine's inference"; that two inferences no longer race with each other is not expressed). *)
Inductive tsmode := TsUnsync | TsInferMutex | TsFullSync.

(* the scenario classes of the C20 harness and the footprint of ONE goroutine of each *)
Inductive scen :=
| ScReadViews        (* reads / compare / copy / encode of shared bindnode, gendemo, typed and repr nodes *)
| ScWalk             (* Walk with a shared compiled selector and a Config whose Ctx and chooser are set *)
| ScWalkLazyCfg      (* … with a shared Config whose Ctx (or chooser) is nil: init() fills it in *)
| ScLoad             (* Load / encode through a shared LinkSystem over a read-only store *)
| ScProtoBuild       (* build fresh nodes from shared prototypes / an explicit type system *)
| ScWrapSchema       (* bindnode.Wrap / Prototype with an explicit schema type *)
| ScWrapInferred (m : tsmode).  (* … with a nil schema type: inferSchema registers in defaultTypeSystem; then the node is used *)

Definition scen_ops (s : scen) : list aop :=
  match s with
  | ScReadViews => [ALoad c_nodes; ALoad c_types; ALocal; ALoad c_nodes]
  | ScWalk => [ALazyInit c_cfg_ctx; ALazyInit c_cfg_chooser; ALocal; ALoad c_selector; ALoad c_nodes; ALocal]
  | ScWalkLazyCfg => [ALazyInit c_cfg_ctx; ALazyInit c_cfg_chooser; ALocal; ALoad c_selector; ALoad c_nodes; ALocal]
  | ScLoad => [ALoad c_linksys; ALocal; ALoad c_nodes; ALocal]
  | ScProtoBuild => [ALoad c_types; ALocal; ALocal]
  | ScWrapSchema => [ALoad c_types; ALocal]
  | ScWrapInferred TsFullSync => [ALocal; ALocal; ALocal]
  | ScWrapInferred _ => [AAccumulate c_default_ts; ALocal; ALoad c_default_ts]
  end.

(* the shared heap of a scenario: what differs is whether the Config fields are set *)
Definition scen_heap (s : scen) : heap nat :=
  let cfgset := match s with ScWalkLazyCfg => 0 | _ => 1 end in
  [[(CPtr 1, 0); (CPtr 1, 0); (CPtr cfgset, 0); (CPtr cfgset, 0); (CPtr 1, 0); (CPtr 1, 0); (CPtr 1, 0)]].

Definition scen_threads (s : scen) (n : nat) : list (thread nat unit) :=
  map (fun k => {| t_ar := S k; t_prog := aops_prog (scen_ops s) |}) (seq 0 n).

Definition scen_check (s : scen) (n : nat) : bool := drf_check (scen_heap s) (scen_threads s n).
