(* Proofs/StoreFsRefine.v — the file-system store refines the finite map key -> bytes, for every
   history inside the quantifier of C17 whose keys the store can hold ([storable]: with the escaping
   function applied, every non-empty key whose base32 form fits a file name). *)
Require Import IP.Base.Bytes IP.Base.GoSem IP.Gen.FromGo IP.Store.Storage IP.Store.FsStore IP.Store.FsCrash.
Require Import IP.Proofs.StoreBase IP.Proofs.StoreMem IP.Proofs.StoreFs IP.Proofs.StoreCrash IP.Proofs.StoreSeq
               IP.Proofs.StoreGood.
From Coq Require Import Lia List Bool Arith NArith.
Import ListNotations.

(* ---- the model's staging names are valid file names as long as fewer than 2^254 were drawn ---- *)

Lemma pos_name_bits : forall p, (2 ^ N.of_nat (length (pos_name p) - 1) <= N.pos p)%N.
Proof.
  induction p; simpl length.
  - (* xI *) replace (S (length (pos_name p)) - 1)%nat with (S (length (pos_name p) - 1))%nat.
    + rewrite Nat2N.inj_succ, N.pow_succ_r'. lia.
    + assert (length (pos_name p) <> 0)%nat by (destruct p; simpl; discriminate). lia.
  - replace (S (length (pos_name p)) - 1)%nat with (S (length (pos_name p) - 1))%nat.
    + rewrite Nat2N.inj_succ, N.pow_succ_r'. lia.
    + assert (length (pos_name p) <> 0)%nat by (destruct p; simpl; discriminate). lia.
  - simpl. lia.
Qed.

Lemma stage_name_ok : forall n, (n < 2 ^ 254)%N -> comp_ok (stage_name n).
Proof.
  intros n H. split.
  - apply N.leb_le. unfold stage_name, lenN, name_max. destruct n as [|p]. simpl. lia.
    simpl length. pose proof (pos_name_bits p) as B.
    destruct (le_lt_dec (length (pos_name p)) 254); try lia.
    exfalso. assert (2 ^ 254 <= 2 ^ N.of_nat (length (pos_name p) - 1))%N.
    { apply N.pow_le_mono_r; lia. }
    lia.
  - unfold stage_name.
    assert (A : forall p, existsb (N.eqb 0) (pos_name p) = false) by (induction p; simpl; auto).
    destruct n; simpl; auto.
Qed.

Lemma pos_name_nonnil : forall p, pos_name p <> [].
Proof. destruct p; discriminate. Qed.

Lemma pos_name_inj : forall p q, pos_name p = pos_name q -> p = q.
Proof.
  induction p; destruct q; simpl; intros H; inversion H; auto;
    try (f_equal; auto); try (exfalso; eapply pos_name_nonnil; eauto; fail);
    try (exfalso; eapply pos_name_nonnil; symmetry; eauto).
Qed.

Lemma stage_name_inj : forall a b, stage_name a = stage_name b -> a = b.
Proof.
  intros [|p] [|q] H; unfold stage_name in H; inversion H as [H1]; auto.
  - destruct q; simpl in H1; inversion H1. exfalso. eapply pos_name_nonnil; eauto.
  - destruct p; simpl in H1; inversion H1. exfalso. eapply pos_name_nonnil; eauto.
  - f_equal. apply pos_name_inj. auto.
Qed.

Lemma stage_path_inj : forall base a b, stage_path base a = stage_path base b -> a = b.
Proof. intros base a b H. unfold stage_path in H. apply app_inv_head in H. inversion H. auto. Qed.

Definition norm_obs (o : obs) : obs := match o with OErr ENOENT => OErr E404 | _ => o end.

Definition fs_obs (cfg : fscfg) (st : fstate) (ops : list op) : list obs :=
  map (fun r => norm_obs (fst (fst r))) (fs_run cfg st ops).

(* the operations that open, feed and commit a stream in one go (Put, PutStream+Write*+commit,
   PutVec) and the reads — as opposed to streams kept open across other operations *)
Definition atomic_op (o : op) : bool :=
  match o with OOpen | OWrite _ _ | OCommit _ _ => false | _ => true end.

Definition op_storable (cfg : fscfg) (o : op) : Prop :=
  match key_of o with Some k => exists d, storable cfg k d | None => True end.

Lemma nth_error_map_fst : forall {A B} (l : list (A * B)) h,
  nth_error (map fst l) h = match nth_error l h with Some (a, _) => Some a | None => None end.
Proof. induction l; intros [|h]; simpl; auto. destruct a; auto. Qed.

Lemma map_fst_upd : forall {A B} (l : list (A * B)) h (a : A) (b : B),
  nth_error l h <> None -> map fst (upd l h (a, b)) = upd (map fst l) h a.
Proof. induction l; intros [|h] a0 b H; simpl in *; auto. f_equal. apply IHl. auto. Qed.

Section Refine.
  Variable cfg : fscfg.
  Hypothesis base_ok : path_ok (f_base cfg).
  Hypothesis enc_inj : forall k k', wfb k -> wfb k' -> enc_key cfg k = enc_key cfg k' -> k = k'.

  (* reads on a good store *)
  Lemma read_resolve : forall f k d, good cfg f -> storable cfg k d ->
    resolve f d = Ok (fs_lookup f d) \/ (fs_lookup f d = None /\ resolve f d = Err ENOENT).
  Proof.
    intros f k d G HS. destruct (storable_shape cfg k d HS) as [cs [E [CN [L [F P]]]]].
    assert (DN : d <> []).
    { rewrite E. intros X. apply app_eq_nil in X. destruct X as [_ X]. apply app_eq_nil in X. destruct X; discriminate. }
    assert (DP : path_ok d). { rewrite E. apply path_ok_app. auto. }
    assert (DD : dirname d = f_base cfg ++ cs). { rewrite E, app_assoc. apply dirname_snoc. }
    destruct (split_point cfg cs f (g_wf _ _ G) (g_base _ _ G)) as [AD|[j [J [AD Z]]]].
    - intros j c _. eapply good_no_file_dirs; eauto.
    - left. apply resolve_ok; auto. rewrite DD. auto.
    - right.
      destruct (firstn_succ_snoc cs j J) as [x FX].
      assert (SK : cs = firstn j cs ++ x :: skipn (S j) cs).
      { rewrite <- (firstn_skipn (S j) cs) at 1. rewrite FX. rewrite <- app_assoc. reflexivity. }
      assert (DE : d = (f_base cfg ++ firstn j cs) ++ x :: (skipn (S j) cs ++ [enc_key cfg k])).
      { rewrite E. rewrite SK at 1. rewrite <- !app_assoc. reflexivity. }
      assert (M : fs_lookup f ((f_base cfg ++ firstn j cs) ++ [x]) = None).
      { rewrite <- app_assoc, <- FX. apply Z. lia. }
      split.
      + rewrite DE. change (x :: skipn (S j) cs ++ [enc_key cfg k]) with ([x] ++ (skipn (S j) cs ++ [enc_key cfg k])).
        rewrite app_assoc. apply wf_absent_ext; auto. apply (g_wf _ _ G). destruct (f_base cfg ++ firstn j cs); discriminate.
      + rewrite DE. apply resolve_missing; auto.
        * destruct (skipn (S j) cs); discriminate.
        * rewrite <- DE. auto.
  Qed.

  Lemma read_result : forall f k d s, good cfg f -> storable cfg k d ->
    (s = SOpenRd d \/ s = SStat d) ->
    sys_exec f s = (f, match fs_lookup f d with Some n => Ok (RVNode n) | None => Err ENOENT end).
  Proof.
    intros f k d s G HS H.
    assert (X : match resolve f d with
                | Err e => (f, Err e) | Ok None => (f, Err ENOENT) | Ok (Some n) => (f, Ok (RVNode n)) end
                = (f, match fs_lookup f d with Some n => Ok (RVNode n) | None => Err ENOENT end)).
    { destruct (read_resolve f k d G HS) as [R|[L R]]; rewrite R.
      - destruct (fs_lookup f d); auto.
      - rewrite L. auto. }
    destruct H; subst s; exact X.
  Qed.

  (* ---- the simulation ---- *)
  Record rel (st : fstate) (s : spec) : Prop := {
    r_good : good cfg (fs_fs st);
    r_hnd : fs_hnd st = map fst (s_hnd s);
    (* the abstraction ignores staging files: the only ones there are belong to open streams *)
    r_stage : forall name, fs_lookup (fs_fs st) (stage_path (f_base cfg) name) <> None ->
                exists sid, nth_error (fs_str st) sid = Some (Some (stage_path (f_base cfg) name));
    r_map : forall k d, storable cfg k d ->
              fs_lookup (fs_fs st) d = match lookup k (s_map s) with Some c => Some (File c) | None => None end;
    r_len : length (fs_str st) = length (s_str s);
    (* an open stream owns one staging file, named by a counter value already used, holding what was written *)
    r_open : forall sid sp, nth_error (fs_str st) sid = Some (Some sp) ->
               exists j c, sp = stage_path (f_base cfg) (stage_name j) /\ (j < fs_ctr st)%N /\
                           nth_error (s_str s) sid = Some (c, false) /\ fs_lookup (fs_fs st) sp = Some (File c);
    r_closed : forall sid, nth_error (fs_str st) sid = Some None -> exists c, nth_error (s_str s) sid = Some (c, true);
    r_uniq : forall i j sp, nth_error (fs_str st) i = Some (Some sp) -> nth_error (fs_str st) j = Some (Some sp) -> i = j
  }.

  Lemma rel_fresh : forall st s, rel st s ->
    fs_lookup (fs_fs st) (stage_path (f_base cfg) (stage_name (fs_ctr st))) = None.
  Proof.
    intros st s R. destruct (fs_lookup (fs_fs st) (stage_path (f_base cfg) (stage_name (fs_ctr st)))) eqn:X; auto.
    exfalso. destruct (r_stage _ _ R (stage_name (fs_ctr st))) as [sid H]. congruence.
    destruct (r_open _ _ R sid _ H) as [j [c [E [J _]]]].
    apply stage_path_inj in E. apply stage_name_inj in E. lia.
  Qed.

  Lemma s_put_str : forall s k c, s_str (s_put s k c) = s_str s.
  Proof. intros. unfold s_put. destruct (lookup k (s_map s)); auto. Qed.

  Lemma s_put_hnd : forall s k c, s_hnd (s_put s k c) = s_hnd s.
  Proof. intros. unfold s_put. destruct (lookup k (s_map s)); auto. Qed.

  Lemma rel_handle : forall st s h, rel st s -> fs_handle st h = s_handle s h.
  Proof.
    intros st s h R. unfold fs_handle, s_handle. rewrite (r_hnd _ _ R). apply nth_error_map_fst.
  Qed.

  Lemma storable_path : forall k d, storable cfg k d -> path_for_key cfg k = Some d.
  Proof. intros k d [_ [[_ [_ [_ E]]] _]]. auto. Qed.

  Lemma rel_put : forall st s kind k d chunks st' ob log,
    rel st s -> storable cfg k d -> (fs_ctr st < 2 ^ 254)%N ->
    put_consistent s k (concat chunks) = true ->
    fs_put cfg st kind k chunks = (st', ob, log) ->
    ob = OOk /\ rel st' (s_put s k (concat chunks)) /\ fs_ctr st' = (fs_ctr st + 1)%N.
  Proof.
    intros st s kind k d chunks st' ob log R HS CT PC FP.
    unfold fs_put in FP. pose proof HS as [KN _]. rewrite (storable_path k d HS) in FP.
    destruct k as [|b k0]; try congruence.
    match type of FP with context [w_run ?fu ?ev ?f ?pc ?l] =>
      destruct (put_good cfg base_ok (fs_fs st) (b :: k0) d ev chunks (r_good _ _ R) HS eq_refl eq_refl)
        as [f' [lg [RUN [G' [LD [STG OTH]]]]]]
    end.
    { simpl. rewrite N.add_0_r. apply stage_name_ok. auto. }
    { simpl. rewrite N.add_0_r. apply (rel_fresh _ _ R). }
    rewrite RUN in FP. inversion FP; subst; clear FP. simpl. split; auto. split; auto.
    constructor; simpl.
    - auto.
    - rewrite (r_hnd _ _ R). rewrite s_put_hnd. auto.
    - intros name. rewrite STG. apply (r_stage _ _ R).
    - intros k' d' HS'. destruct (bytes_eqb k' (b :: k0)) eqn:EQ.
      + apply bytes_eqb_eq in EQ. subst k'.
        assert (d' = d). { pose proof (storable_path _ _ HS'). pose proof (storable_path _ _ HS). congruence. }
        subst d'. rewrite LD. rewrite spec_put_same; auto.
      + apply bytes_eqb_neq in EQ.
        assert (d' <> d).
        { intros X. subst d'. apply EQ. destruct HS' as [_ [K' _]]. destruct HS as [_ [K _]].
          eapply keypath_inj; eauto. }
        rewrite (OTH k' d' HS' H). rewrite spec_put_other by congruence. apply (r_map _ _ R). auto.
    - rewrite s_put_str. apply (r_len _ _ R).
    - intros sid sp HO. destruct (r_open _ _ R sid sp HO) as [j [c [E [J [SS L]]]]].
      exists j, c. rewrite s_put_str. repeat split; auto. lia. rewrite E. rewrite STG. rewrite <- E. auto.
    - intros sid HC. rewrite s_put_str. apply (r_closed _ _ R sid HC).
    - apply (r_uniq _ _ R).
  Qed.

  Lemma step_rel : forall st s o, rel st s -> op_ok (@Some (list N)) s o = true -> op_storable cfg o ->
    (fs_ctr st < 2 ^ 254)%N ->
    norm_obs (snd (fst (fs_step cfg st o))) = snd (spec_step (@Some (list N)) true s o) /\
    rel (fst (fst (fs_step cfg st o))) (fst (spec_step (@Some (list N)) true s o)) /\
    (fs_ctr (fst (fst (fs_step cfg st o))) <= fs_ctr st + 1)%N.
  Proof.
    intros st s o R OK ST CT.
    assert (OPEN : forall k d, storable cfg k d ->
              exists lg, fs_open cfg (fs_fs st) k =
                         Some (match lookup k (s_map s) with Some c => Ok (File c) | None => Err ENOENT end, lg)).
    { intros k d HS. unfold fs_open.
      assert (EG : empty_key_guard cfg k = false).
      { unfold empty_key_guard. destruct HS as [KN _]. destruct k; try congruence. simpl. apply andb_false_r. }
      rewrite EG. rewrite (storable_path k d HS). unfold do_sys.
      rewrite (read_result (fs_fs st) k d (SOpenRd d) (r_good _ _ R) HS) by auto.
      rewrite (r_map _ _ R k d HS). destruct (lookup k (s_map s)); eauto. }
    destruct o; simpl in OK, ST |- *; unfold op_storable in ST; simpl in ST.
    - (* new *)
      split; auto. split; [|lia]. constructor; simpl; try apply R.
      rewrite (r_hnd _ _ R). rewrite map_app. auto.
    - (* mut *)
      rewrite (rel_handle st s h R). unfold s_handle.
      destruct (nth_error (s_hnd s) h) as [[old b]|] eqn:SH; try discriminate. simpl.
      split; auto. split; [|lia]. constructor; simpl; try apply R.
      rewrite (r_hnd _ _ R). rewrite map_fst_upd; auto. congruence.
    - (* put *)
      rewrite (rel_handle st s h R). destruct (s_handle s h) as [c|] eqn:SH; try discriminate.
      destruct ST as [d HS].
      destruct (fs_put cfg st WPut k [c]) as [[st' ob] lg] eqn:FP.
      assert (PC : put_consistent s k (concat [c]) = true) by (simpl; rewrite app_nil_r; auto).
      destruct (rel_put st s WPut k d [c] st' ob lg R HS CT PC FP) as [A [B CC]]. subst ob.
      simpl in B. rewrite app_nil_r in B. simpl. split; auto. split; auto. lia.
    - (* put-stream *)
      rewrite (gather_ext (fs_handle st) (s_handle s) hs (fun h => rel_handle st s h R)).
      destruct (gather (s_handle s) hs) as [cs|] eqn:G; try discriminate.
      destruct ST as [d HS].
      destruct (fs_put cfg st WVec k cs) as [[st' ob] lg] eqn:FP.
      destruct (rel_put st s WVec k d cs st' ob lg R HS CT OK FP) as [A [B CC]]. subst ob.
      simpl. split; auto. split; auto. lia.
    - (* put-vec *)
      rewrite (gather_ext (fs_handle st) (s_handle s) hs (fun h => rel_handle st s h R)).
      destruct (gather (s_handle s) hs) as [cs|] eqn:G; try discriminate.
      destruct ST as [d HS].
      destruct (fs_put cfg st WVec k cs) as [[st' ob] lg] eqn:FP.
      destruct (rel_put st s WVec k d cs st' ob lg R HS CT OK FP) as [A [B CC]]. subst ob.
      simpl. split; auto. split; auto. lia.
    - (* get *)
      destruct ST as [d HS]. destruct (OPEN k d HS) as [lg O]. rewrite O.
      destruct (lookup k (s_map s)) as [c|]; simpl.
      + split; auto. split; [|lia]. constructor; simpl; try apply R.
        rewrite (r_hnd _ _ R). rewrite map_app. auto.
      + split; auto. split; [apply R|lia].
    - (* get-stream *)
      destruct ST as [d HS]. destruct (OPEN k d HS) as [lg O]. rewrite O.
      destruct (lookup k (s_map s)) as [c|]; simpl; (split; auto; split; [apply R|lia]).
    - (* peek = get on this store *)
      destruct ST as [d HS]. destruct (OPEN k d HS) as [lg O]. rewrite O.
      destruct (lookup k (s_map s)) as [c|]; simpl.
      + split; auto. split; [|lia]. constructor; simpl; try apply R.
        rewrite (r_hnd _ _ R). rewrite map_app. auto.
      + split; auto. split; [apply R|lia].
    - (* has *)
      destruct ST as [d HS]. unfold fs_has.
      assert (EG : empty_key_guard cfg k = false).
      { unfold empty_key_guard. destruct HS as [KN _]. destruct k; try congruence. simpl. apply andb_false_r. }
      rewrite EG. rewrite (storable_path k d HS). unfold do_sys.
      rewrite (read_result (fs_fs st) k d (SStat d) (r_good _ _ R) HS) by auto.
      rewrite (r_map _ _ R k d HS). destruct (lookup k (s_map s)); simpl; (split; auto; split; [apply R|lia]).
    - (* open a stream: its staging file appears; the map does not see it *)
      pose proof (rel_fresh _ _ R) as FR.
      set (sp := stage_path (f_base cfg) (stage_name (fs_ctr st))) in *.
      assert (SPN : sp <> []). { unfold sp, stage_path. destruct (f_base cfg); discriminate. }
      assert (X : sys_exec (fs_fs st) (SCreat sp) = (fs_set (fs_fs st) sp (File []), Ok RVUnit)).
      { apply exec_creat_ok; auto.
        - unfold sp, stage_path. apply path_ok_app. split; auto.
          constructor. apply temp_comp_ok. constructor; [|constructor]. apply stage_name_ok; auto.
        - replace (dirname sp) with (staging_dir (f_base cfg)).
          + unfold staging_dir. apply all_dirs_snoc. apply (g_base _ _ (r_good _ _ R)). apply (g_temp _ _ (r_good _ _ R)).
          + unfold sp, stage_path, staging_dir.
            replace (f_base cfg ++ [temp_name; stage_name (fs_ctr st)]) with ((f_base cfg ++ [temp_name]) ++ [stage_name (fs_ctr st)])
              by (rewrite <- app_assoc; auto).
            symmetry. apply dirname_snoc. }
      unfold do_sys. rewrite X. simpl. split; auto. split; [|lia].
      constructor; simpl.
      + apply (good_set_stage cfg base_ok). apply R. fold sp. rewrite FR. discriminate.
      + apply R.
      + intros name HN. destruct (path_eqb sp (stage_path (f_base cfg) name)) eqn:E.
        * apply path_eqb_eq in E. exists (length (fs_str st)). rewrite <- E. apply nth_error_snoc_new.
        * apply path_eqb_neq in E. rewrite lookup_set_other in HN by auto.
          destruct (r_stage _ _ R name HN) as [sid H]. exists sid.
          rewrite nth_error_snoc_old; auto. eapply nth_error_lt; eauto.
      + intros k d HS. rewrite lookup_set_other. apply (r_map _ _ R); auto.
        intros E. destruct HS as [_ [K _]]. eapply keypath_not_staging; eauto. exists (stage_name (fs_ctr st)). auto.
      + rewrite !app_length. simpl. rewrite (r_len _ _ R). auto.
      + intros sid sp' HO. apply nth_error_snoc in HO. destruct HO as [[LT HO]|[EQ HO]].
        * destruct (r_open _ _ R sid sp' HO) as [j [c [E [J [SS L]]]]]. exists j, c.
          split; auto. split. lia. split.
          -- rewrite nth_error_snoc_old; auto. rewrite <- (r_len _ _ R). auto.
          -- rewrite lookup_set_other; auto. intros E2. rewrite <- E2 in L. congruence.
        * inversion HO; subst sp'. exists (fs_ctr st), []. split; auto. split. lia. split.
          -- rewrite EQ, (r_len _ _ R). apply nth_error_snoc_new.
          -- apply lookup_set_same. auto.
      + intros sid HC. apply nth_error_snoc in HC. destruct HC as [[LT HC]|[EQ HC]]; [|discriminate].
        destruct (r_closed _ _ R sid HC) as [c H]. exists c.
        rewrite nth_error_snoc_old; auto. rewrite <- (r_len _ _ R). auto.
      + intros i j sp' Hi Hj. apply nth_error_snoc in Hi. apply nth_error_snoc in Hj.
        destruct Hi as [[Li Hi]|[Ei Hi]]; destruct Hj as [[Lj Hj]|[Ej Hj]].
        * eapply (r_uniq _ _ R); eauto.
        * exfalso. inversion Hj; subst sp'. destruct (r_open _ _ R i sp Hi) as [j' [c [_ [_ [_ L]]]]]. congruence.
        * exfalso. inversion Hi; subst sp'. destruct (r_open _ _ R j sp Hj) as [j' [c [_ [_ [_ L]]]]]. congruence.
        * lia.
    - (* write to an open stream: only its staging file changes *)
      rewrite (rel_handle st s h R).
      destruct (nth_error (s_str s) sid) as [[c u]|] eqn:SS; try discriminate.
      destruct (s_handle s h) as [b|] eqn:SH; try discriminate. destruct u; try discriminate.
      assert (FO : exists sp, nth_error (fs_str st) sid = Some (Some sp)).
      { destruct (nth_error (fs_str st) sid) as [[sp|]|] eqn:X; eauto.
        - destruct (r_closed _ _ R sid X) as [c' H]. congruence.
        - apply nth_error_None in X. rewrite (r_len _ _ R) in X. apply nth_error_lt in SS. lia. }
      destruct FO as [sp FO]. rewrite FO.
      destruct (r_open _ _ R sid sp FO) as [j [c' [E [J [SS' L]]]]]. rewrite SS in SS'. inversion SS'; subst c'.
      assert (SPN : sp <> []) by (eapply lookup_file_nonnil; eauto).
      unfold do_sys. rewrite (exec_write_ok _ sp b c L). simpl. split; auto. split; [|lia].
      constructor; simpl.
      + rewrite E. apply (good_set_stage cfg base_ok). apply R. rewrite <- E, L. discriminate.
      + apply R.
      + intros name HN. destruct (path_eqb sp (stage_path (f_base cfg) name)) eqn:X.
        * apply path_eqb_eq in X. exists sid. rewrite <- X. auto.
        * apply path_eqb_neq in X. rewrite lookup_set_other in HN by auto. apply (r_stage _ _ R name HN).
      + intros k d HS. rewrite lookup_set_other. apply (r_map _ _ R); auto.
        intros X. destruct HS as [_ [K _]]. eapply keypath_not_staging; eauto. exists (stage_name j). congruence.
      + rewrite upd_length. apply (r_len _ _ R).
      + intros sid' sp' HO. destruct (Nat.eq_dec sid sid') as [EQ|NE].
        * subst sid'. rewrite FO in HO. inversion HO; subst sp'. exists j, (c ++ b).
          split; auto. split; auto. split.
          -- apply upd_nth_error_same. eapply nth_error_lt; eauto.
          -- apply lookup_set_same. auto.
        * destruct (r_open _ _ R sid' sp' HO) as [j' [c2 [E2 [J2 [SS2 L2]]]]]. exists j', c2.
          split; auto. split; auto. split.
          -- rewrite upd_nth_error_other; auto.
          -- rewrite lookup_set_other; auto. intros X. rewrite <- X in HO. apply NE. apply (r_uniq _ _ R sid sid' sp); auto.
      + intros sid' HC. destruct (Nat.eq_dec sid sid') as [EQ|NE]. { subst. congruence. }
        rewrite upd_nth_error_other; auto. apply (r_closed _ _ R sid' HC).
      + apply (r_uniq _ _ R).
    - (* commit: the atomic move of the stream's staging file to the key path *)
      destruct (nth_error (s_str s) sid) as [[c u]|] eqn:SS; try discriminate.
      apply andb_true_iff in OK. destruct OK as [U PC]. destruct u; try discriminate.
      assert (FO : exists sp, nth_error (fs_str st) sid = Some (Some sp)).
      { destruct (nth_error (fs_str st) sid) as [[sp|]|] eqn:X; eauto.
        - destruct (r_closed _ _ R sid X) as [c' H]. congruence.
        - apply nth_error_None in X. rewrite (r_len _ _ R) in X. apply nth_error_lt in SS. lia. }
      destruct FO as [sp FO]. rewrite FO.
      destruct ST as [d HS]. pose proof HS as [KN _]. rewrite (storable_path k d HS).
      destruct k as [|b0 k0]; try congruence.
      destruct (r_open _ _ R sid sp FO) as [j [c' [E [J [SS' L]]]]]. rewrite SS in SS'. inversion SS'; subst c'.
      assert (LC : last_comp sp = stage_name j).
      { rewrite E. unfold last_comp, stage_path.
        replace (f_base cfg ++ [temp_name; stage_name j]) with ((f_base cfg ++ [temp_name]) ++ [stage_name j])
          by (rewrite <- app_assoc; auto).
        apply last_last. }
      match goal with |- context [w_run ?fu ?ev ?f ?pc ?l] =>
        assert (SPE : stp cfg ev = sp) by (unfold stp; simpl; rewrite LC; auto);
        destruct (commit_good cfg base_ok (fs_fs st) (b0 :: k0) d ev c (r_good _ _ R) HS eq_refl eq_refl)
          as [f' [lg [RUN [G' [LD [LS [STG OTH]]]]]]]
      end.
      { simpl. rewrite LC. apply stage_name_ok. lia. }
      { rewrite SPE. auto. }
      rewrite SPE in RUN, LS, STG. rewrite RUN. simpl. split; auto. split; [|lia].
      assert (NOTME : forall sid' sp', sid' <> sid -> nth_error (fs_str st) sid' = Some (Some sp') -> sp' <> sp).
      { intros sid' sp' NE HO X. subst sp'. apply NE. eapply (r_uniq _ _ R); eauto. }
      constructor; simpl.
      + auto.
      + rewrite s_put_hnd. apply R.
      + intros name HN.
        assert (NS : stage_path (f_base cfg) name <> sp) by (intros X; rewrite X in HN; congruence).
        rewrite (STG name NS) in HN. destruct (r_stage _ _ R name HN) as [sid' H]. exists sid'.
        rewrite upd_nth_error_other; auto. intros X. subst sid'. rewrite FO in H. inversion H. congruence.
      + intros k' d' HS'. destruct (bytes_eqb k' (b0 :: k0)) eqn:EQ.
        * apply bytes_eqb_eq in EQ. subst k'.
          assert (d' = d). { pose proof (storable_path _ _ HS'). pose proof (storable_path _ _ HS). congruence. }
          subst d'. rewrite LD. rewrite spec_put_same; auto.
        * apply bytes_eqb_neq in EQ.
          assert (d' <> d).
          { intros X. subst d'. apply EQ. destruct HS' as [_ [K' _]]. destruct HS as [_ [K _]].
            eapply keypath_inj; eauto. }
          rewrite (OTH k' d' HS' H). rewrite spec_put_other by congruence. apply (r_map _ _ R). auto.
      + rewrite s_put_str. simpl. rewrite !upd_length. apply (r_len _ _ R).
      + intros sid' sp' HO. destruct (Nat.eq_dec sid sid') as [EQ|NE].
        * subst sid'. rewrite upd_nth_error_same in HO by (eapply nth_error_lt; eauto). discriminate.
        * rewrite upd_nth_error_other in HO by auto.
          destruct (r_open _ _ R sid' sp' HO) as [j' [c2 [E2 [J2 [SS2 L2]]]]]. exists j', c2.
          split; auto. split; auto. split.
          -- rewrite s_put_str. simpl. rewrite upd_nth_error_other; auto.
          -- rewrite E2. rewrite STG. rewrite <- E2. auto. rewrite <- E2. apply (NOTME sid'); auto.
      + intros sid' HC. rewrite s_put_str. simpl. destruct (Nat.eq_dec sid sid') as [EQ|NE].
        * subst sid'. exists c. apply upd_nth_error_same. eapply nth_error_lt; eauto.
        * rewrite upd_nth_error_other in HC by auto. rewrite upd_nth_error_other by auto. apply (r_closed _ _ R sid' HC).
      + intros i j' sp' Hi Hj.
        destruct (Nat.eq_dec sid i). { subst i. rewrite upd_nth_error_same in Hi by (eapply nth_error_lt; eauto). discriminate. }
        destruct (Nat.eq_dec sid j'). { subst j'. rewrite upd_nth_error_same in Hj by (eapply nth_error_lt; eauto). discriminate. }
        rewrite upd_nth_error_other in Hi by auto. rewrite upd_nth_error_other in Hj by auto.
        eapply (r_uniq _ _ R); eauto.
  Qed.

  Theorem fs_refines_from : forall ops st s, rel st s ->
    hist_ok (@Some (list N)) true s ops = true -> Forall (op_storable cfg) ops ->
    (fs_ctr st + N.of_nat (length ops) < 2 ^ 254)%N ->
    fs_obs cfg st ops = spec_run (@Some (list N)) true s ops.
  Proof.
    induction ops; intros st s R OK ST CT; simpl in *. reflexivity.
    apply andb_true_iff in OK. destruct OK as [O1 O2]. inversion ST; subst.
    destruct (step_rel st s a R O1 H1) as [E [R' C']]. lia.
    unfold fs_obs. simpl.
    destruct (fs_step cfg st a) as [[st1 ob] lg]. destruct (spec_step (@Some (list N)) true s a) as [s1 ob2].
    simpl in *. f_equal; auto. apply IHops; auto. lia.
  Qed.
End Refine.
