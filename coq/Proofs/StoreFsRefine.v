(* Proofs/StoreFsRefine.v — the file-system store refines the finite map key -> bytes, for every
   history inside the quantifier of C17 whose keys the store can hold ([storable]: with the escaping
   function applied, every non-empty key whose base32 form fits a file name). *)
Require Import IP.Base.Bytes IP.Base.GoSem IP.Gen.FromGo IP.Store.Storage IP.Store.FsStore IP.Store.FsCrash.
Require Import IP.Proofs.StoreBase IP.Proofs.StoreMem IP.Proofs.StoreFs IP.Proofs.StoreCrash IP.Proofs.StoreSeq
               IP.Proofs.StoreGood.
From Coq Require Import Lia List Bool Arith NArith.
Import ListNotations.

(* ---- the model's staging names are valid file names as long as fewer than 2^254 were drawn ---- *)

Lemma pos_name_bits : forall p, (2 ^ N.of_nat (length (pos_name p) - 1) <= N.pos p)%N.
Proof.
  induction p; simpl length.
  - (* xI *) replace (S (length (pos_name p)) - 1)%nat with (S (length (pos_name p) - 1))%nat.
    + rewrite Nat2N.inj_succ, N.pow_succ_r'. lia.
    + assert (length (pos_name p) <> 0)%nat by (destruct p; simpl; discriminate). lia.
  - replace (S (length (pos_name p)) - 1)%nat with (S (length (pos_name p) - 1))%nat.
    + rewrite Nat2N.inj_succ, N.pow_succ_r'. lia.
    + assert (length (pos_name p) <> 0)%nat by (destruct p; simpl; discriminate). lia.
  - simpl. lia.
Qed.

Lemma stage_name_ok : forall n, (n < 2 ^ 254)%N -> comp_ok (stage_name n).
Proof.
  intros n H. split.
  - apply N.leb_le. unfold stage_name, lenN, name_max. destruct n as [|p]. simpl. lia.
    simpl length. pose proof (pos_name_bits p) as B.
    destruct (le_lt_dec (length (pos_name p)) 254); try lia.
    exfalso. assert (2 ^ 254 <= 2 ^ N.of_nat (length (pos_name p) - 1))%N.
    { apply N.pow_le_mono_r; lia. }
    lia.
  - unfold stage_name.
    assert (A : forall p, existsb (N.eqb 0) (pos_name p) = false) by (induction p; simpl; auto).
    destruct n; simpl; auto.
Qed.

Definition norm_obs (o : obs) : obs := match o with OErr ENOENT => OErr E404 | _ => o end.

Definition fs_obs (cfg : fscfg) (st : fstate) (ops : list op) : list obs :=
  map (fun r => norm_obs (fst (fst r))) (fs_run cfg st ops).

(* the operations that open, feed and commit a stream in one go (Put, PutStream+Write*+commit,
   PutVec) and the reads — as opposed to streams kept open across other operations *)
Definition atomic_op (o : op) : bool :=
  match o with OOpen | OWrite _ _ | OCommit _ _ => false | _ => true end.

Definition op_storable (cfg : fscfg) (o : op) : Prop :=
  match key_of o with Some k => exists d, storable cfg k d | None => True end.

Lemma nth_error_map_fst : forall {A B} (l : list (A * B)) h,
  nth_error (map fst l) h = match nth_error l h with Some (a, _) => Some a | None => None end.
Proof. induction l; intros [|h]; simpl; auto. destruct a; auto. Qed.

Lemma map_fst_upd : forall {A B} (l : list (A * B)) h (a : A) (b : B),
  nth_error l h <> None -> map fst (upd l h (a, b)) = upd (map fst l) h a.
Proof. induction l; intros [|h] a0 b H; simpl in *; auto. f_equal. apply IHl. auto. Qed.

Section Refine.
  Variable cfg : fscfg.
  Hypothesis base_ok : path_ok (f_base cfg).
  Hypothesis enc_inj : forall k k', wfb k -> wfb k' -> enc_key cfg k = enc_key cfg k' -> k = k'.

  (* reads on a good store *)
  Lemma read_resolve : forall f k d, good cfg f -> storable cfg k d ->
    resolve f d = Ok (fs_lookup f d) \/ (fs_lookup f d = None /\ resolve f d = Err ENOENT).
  Proof.
    intros f k d G HS. destruct (storable_shape cfg k d HS) as [cs [E [CN [L [F P]]]]].
    assert (DN : d <> []).
    { rewrite E. intros X. apply app_eq_nil in X. destruct X as [_ X]. apply app_eq_nil in X. destruct X; discriminate. }
    assert (DP : path_ok d). { rewrite E. apply path_ok_app. auto. }
    assert (DD : dirname d = f_base cfg ++ cs). { rewrite E, app_assoc. apply dirname_snoc. }
    destruct (split_point cfg cs f (g_wf _ _ G) (g_base _ _ G)) as [AD|[j [J [AD Z]]]].
    - intros j c _. eapply good_no_file_dirs; eauto.
    - left. apply resolve_ok; auto. rewrite DD. auto.
    - right.
      destruct (firstn_succ_snoc cs j J) as [x FX].
      assert (SK : cs = firstn j cs ++ x :: skipn (S j) cs).
      { rewrite <- (firstn_skipn (S j) cs) at 1. rewrite FX. rewrite <- app_assoc. reflexivity. }
      assert (DE : d = (f_base cfg ++ firstn j cs) ++ x :: (skipn (S j) cs ++ [enc_key cfg k])).
      { rewrite E. rewrite SK at 1. rewrite <- !app_assoc. reflexivity. }
      assert (M : fs_lookup f ((f_base cfg ++ firstn j cs) ++ [x]) = None).
      { rewrite <- app_assoc, <- FX. apply Z. lia. }
      split.
      + rewrite DE. change (x :: skipn (S j) cs ++ [enc_key cfg k]) with ([x] ++ (skipn (S j) cs ++ [enc_key cfg k])).
        rewrite app_assoc. apply wf_absent_ext; auto. apply (g_wf _ _ G). destruct (f_base cfg ++ firstn j cs); discriminate.
      + rewrite DE. apply resolve_missing; auto.
        * destruct (skipn (S j) cs); discriminate.
        * rewrite <- DE. auto.
  Qed.

  Lemma read_result : forall f k d s, good cfg f -> storable cfg k d ->
    (s = SOpenRd d \/ s = SStat d) ->
    sys_exec f s = (f, match fs_lookup f d with Some n => Ok (RVNode n) | None => Err ENOENT end).
  Proof.
    intros f k d s G HS H.
    assert (X : match resolve f d with
                | Err e => (f, Err e) | Ok None => (f, Err ENOENT) | Ok (Some n) => (f, Ok (RVNode n)) end
                = (f, match fs_lookup f d with Some n => Ok (RVNode n) | None => Err ENOENT end)).
    { destruct (read_resolve f k d G HS) as [R|[L R]]; rewrite R.
      - destruct (fs_lookup f d); auto.
      - rewrite L. auto. }
    destruct H; subst s; exact X.
  Qed.

  (* ---- the simulation ---- *)
  Record rel (st : fstate) (s : spec) : Prop := {
    r_good : good cfg (fs_fs st);
    r_hnd : fs_hnd st = map fst (s_hnd s);
    r_stage : forall name, fs_lookup (fs_fs st) (stage_path (f_base cfg) name) = None;
    r_map : forall k d, storable cfg k d ->
              fs_lookup (fs_fs st) d = match lookup k (s_map s) with Some c => Some (File c) | None => None end
  }.

  Lemma rel_handle : forall st s h, rel st s -> fs_handle st h = s_handle s h.
  Proof.
    intros st s h R. unfold fs_handle, s_handle. rewrite (r_hnd _ _ R). apply nth_error_map_fst.
  Qed.

  Lemma storable_path : forall k d, storable cfg k d -> path_for_key cfg k = Some d.
  Proof. intros k d [_ [[_ [_ [_ E]]] _]]. auto. Qed.

  Lemma rel_put : forall st s kind k d chunks st' ob log,
    rel st s -> storable cfg k d -> (fs_ctr st < 2 ^ 254)%N ->
    put_consistent s k (concat chunks) = true ->
    fs_put cfg st kind k chunks = (st', ob, log) ->
    ob = OOk /\ rel st' (s_put s k (concat chunks)) /\ fs_ctr st' = (fs_ctr st + 1)%N.
  Proof.
    intros st s kind k d chunks st' ob log R HS CT PC FP.
    unfold fs_put in FP. pose proof HS as [KN _]. rewrite (storable_path k d HS) in FP.
    destruct k as [|b k0]; try congruence.
    match type of FP with context [w_run ?fu ?ev ?f ?pc ?l] =>
      destruct (put_good cfg base_ok (fs_fs st) (b :: k0) d ev chunks (r_good _ _ R) HS eq_refl eq_refl)
        as [f' [lg [RUN [G' [LD [STG OTH]]]]]]
    end.
    { simpl. rewrite N.add_0_r. apply stage_name_ok. auto. }
    { simpl. apply (r_stage _ _ R). }
    rewrite RUN in FP. inversion FP; subst; clear FP. simpl. split; auto. split; auto.
    constructor; simpl.
    - auto.
    - rewrite (r_hnd _ _ R). unfold s_put. destruct (lookup (b :: k0) (s_map s)); auto.
    - intros name. rewrite STG. apply (r_stage _ _ R).
    - intros k' d' HS'. destruct (bytes_eqb k' (b :: k0)) eqn:EQ.
      + apply bytes_eqb_eq in EQ. subst k'.
        assert (d' = d). { pose proof (storable_path _ _ HS'). pose proof (storable_path _ _ HS). congruence. }
        subst d'. rewrite LD. rewrite spec_put_same; auto.
      + apply bytes_eqb_neq in EQ.
        assert (d' <> d).
        { intros X. subst d'. apply EQ. destruct HS' as [_ [K' _]]. destruct HS as [_ [K _]].
          eapply keypath_inj; eauto. }
        rewrite (OTH k' d' HS' H). rewrite spec_put_other by congruence. apply (r_map _ _ R). auto.
  Qed.

  Lemma step_rel : forall st s o, rel st s -> op_ok (@Some (list N)) s o = true -> op_storable cfg o ->
    atomic_op o = true -> (fs_ctr st < 2 ^ 254)%N ->
    norm_obs (snd (fst (fs_step cfg st o))) = snd (spec_step (@Some (list N)) true s o) /\
    rel (fst (fst (fs_step cfg st o))) (fst (spec_step (@Some (list N)) true s o)) /\
    (fs_ctr (fst (fst (fs_step cfg st o))) <= fs_ctr st + 1)%N.
  Proof.
    intros st s o R OK ST AT CT.
    assert (OPEN : forall k d, storable cfg k d ->
              exists lg, fs_open cfg (fs_fs st) k =
                         Some (match lookup k (s_map s) with Some c => Ok (File c) | None => Err ENOENT end, lg)).
    { intros k d HS. unfold fs_open.
      assert (EG : empty_key_guard cfg k = false).
      { unfold empty_key_guard. destruct HS as [KN _]. destruct k; try congruence. simpl. apply andb_false_r. }
      rewrite EG. rewrite (storable_path k d HS). unfold do_sys.
      rewrite (read_result (fs_fs st) k d (SOpenRd d) (r_good _ _ R) HS) by auto.
      rewrite (r_map _ _ R k d HS). destruct (lookup k (s_map s)); eauto. }
    destruct o; simpl in OK, ST |- *; unfold op_storable in ST; simpl in ST.
    - (* new *)
      split; auto. split; [|lia]. constructor; simpl; try apply R.
      rewrite (r_hnd _ _ R). rewrite map_app. auto.
    - (* mut *)
      rewrite (rel_handle st s h R). unfold s_handle.
      destruct (nth_error (s_hnd s) h) as [[old b]|] eqn:SH; try discriminate. simpl.
      split; auto. split; [|lia]. constructor; simpl; try apply R.
      rewrite (r_hnd _ _ R). rewrite map_fst_upd; auto. congruence.
    - (* put *)
      rewrite (rel_handle st s h R). destruct (s_handle s h) as [c|] eqn:SH; try discriminate.
      destruct ST as [d HS].
      destruct (fs_put cfg st WPut k [c]) as [[st' ob] lg] eqn:FP.
      assert (PC : put_consistent s k (concat [c]) = true) by (simpl; rewrite app_nil_r; auto).
      destruct (rel_put st s WPut k d [c] st' ob lg R HS CT PC FP) as [A [B CC]]. subst ob.
      simpl in B. rewrite app_nil_r in B. simpl. split; auto. split; auto. lia.
    - (* put-stream *)
      rewrite (gather_ext (fs_handle st) (s_handle s) hs (fun h => rel_handle st s h R)).
      destruct (gather (s_handle s) hs) as [cs|] eqn:G; try discriminate.
      destruct ST as [d HS].
      destruct (fs_put cfg st WVec k cs) as [[st' ob] lg] eqn:FP.
      destruct (rel_put st s WVec k d cs st' ob lg R HS CT OK FP) as [A [B CC]]. subst ob.
      simpl. split; auto. split; auto. lia.
    - (* put-vec *)
      rewrite (gather_ext (fs_handle st) (s_handle s) hs (fun h => rel_handle st s h R)).
      destruct (gather (s_handle s) hs) as [cs|] eqn:G; try discriminate.
      destruct ST as [d HS].
      destruct (fs_put cfg st WVec k cs) as [[st' ob] lg] eqn:FP.
      destruct (rel_put st s WVec k d cs st' ob lg R HS CT OK FP) as [A [B CC]]. subst ob.
      simpl. split; auto. split; auto. lia.
    - (* get *)
      destruct ST as [d HS]. destruct (OPEN k d HS) as [lg O]. rewrite O.
      destruct (lookup k (s_map s)) as [c|]; simpl.
      + split; auto. split; [|lia]. constructor; simpl; try apply R.
        rewrite (r_hnd _ _ R). rewrite map_app. auto.
      + split; auto. split; [apply R|lia].
    - (* get-stream *)
      destruct ST as [d HS]. destruct (OPEN k d HS) as [lg O]. rewrite O.
      destruct (lookup k (s_map s)) as [c|]; simpl; (split; auto; split; [apply R|lia]).
    - (* peek = get on this store *)
      destruct ST as [d HS]. destruct (OPEN k d HS) as [lg O]. rewrite O.
      destruct (lookup k (s_map s)) as [c|]; simpl.
      + split; auto. split; [|lia]. constructor; simpl; try apply R.
        rewrite (r_hnd _ _ R). rewrite map_app. auto.
      + split; auto. split; [apply R|lia].
    - (* has *)
      destruct ST as [d HS]. unfold fs_has.
      assert (EG : empty_key_guard cfg k = false).
      { unfold empty_key_guard. destruct HS as [KN _]. destruct k; try congruence. simpl. apply andb_false_r. }
      rewrite EG. rewrite (storable_path k d HS). unfold do_sys.
      rewrite (read_result (fs_fs st) k d (SStat d) (r_good _ _ R) HS) by auto.
      rewrite (r_map _ _ R k d HS). destruct (lookup k (s_map s)); simpl; (split; auto; split; [apply R|lia]).
    - discriminate.
    - discriminate.
    - discriminate.
  Qed.

  Theorem fs_refines_from : forall ops st s, rel st s ->
    hist_ok (@Some (list N)) true s ops = true -> Forall (op_storable cfg) ops ->
    forallb atomic_op ops = true ->
    (fs_ctr st + N.of_nat (length ops) < 2 ^ 254)%N ->
    fs_obs cfg st ops = spec_run (@Some (list N)) true s ops.
  Proof.
    induction ops; intros st s R OK ST AT CT; simpl in *. reflexivity.
    apply andb_true_iff in OK. destruct OK as [O1 O2]. inversion ST; subst.
    apply andb_true_iff in AT. destruct AT as [A1 A2].
    destruct (step_rel st s a R O1 H1 A1) as [E [R' C']]. lia.
    unfold fs_obs. simpl.
    destruct (fs_step cfg st a) as [[st1 ob] lg]. destruct (spec_step (@Some (list N)) true s a) as [s1 ob2].
    simpl in *. f_equal; auto. apply IHops; auto. lia.
  Qed.
End Refine.
