(* Proofs/SchemaRound.v — the specified representation (and the type-level tree) of a typed value
   conforms and denotes that value: [conforms_r t (repr_spec t v) = Some v] and
   [conforms_t t (tdm_spec t v) = Some v] for every well-formed schema and every value of the type.
   With SchemaBuild this gives C08_two_routes. *)
Require Import IP.Base.Bytes IP.DM.Value IP.Schema.Types IP.Schema.View IP.Schema.Conform IP.Schema.Sem
  IP.Proofs.SchemaBase IP.Proofs.SchemaBuild IP.Proofs.SchemaRepr.
From Coq Require Import Lia.
Open Scope N_scope.

(* ================================================================== strings *)

Lemma split_go1_none c s : forall cur, contains [c] s = false -> split_go [c] 0 cur s = [rev cur ++ s].
Proof.
  induction s as [|x s IH]; intros cur H; cbn.
  - now rewrite app_nil_r.
  - cbn in H. apply orb_false_iff in H as [H1 H2]. rewrite andb_true_r in H1. rewrite H1.
    cbn [andb]. rewrite IH by auto. cbn [rev]. now rewrite <- app_assoc.
Qed.

Lemma split_join1 c parts : forall cur p,
  Forall (fun p => contains [c] p = false) (p :: parts) ->
  split_go [c] 0 cur (join [c] (p :: parts)) = (rev cur ++ p) :: parts.
Proof.
  induction parts as [|p2 parts IH]; intros cur p Hf.
  - cbn [join]. inversion Hf; subst. now apply split_go1_none.
  - inversion Hf as [|? ? Hp Hr]; subst.
    revert cur. induction p as [|x p IHp]; intros cur.
    + change (join [c] ([] :: p2 :: parts)) with (c :: join [c] (p2 :: parts)).
      cbn [split_go is_prefix]. rewrite N.eqb_refl. cbn [andb length Nat.sub]. rewrite app_nil_r.
      f_equal. rewrite (IH [] p2 Hr). reflexivity.
    + change (join [c] ((x :: p) :: p2 :: parts)) with (x :: join [c] (p :: p2 :: parts)).
      cbn in Hp. apply orb_false_iff in Hp as [H1 H2]. rewrite andb_true_r in H1.
      cbn [split_go is_prefix]. rewrite H1. cbn [andb].
      rewrite IHp by auto. cbn [rev]. now rewrite <- app_assoc.
Qed.

Lemma split_join c parts :
  parts <> [] -> Forall (fun p => contains [c] p = false) parts -> split [c] (join [c] parts) = parts.
Proof.
  destruct parts as [|p parts]; [congruence|]. intros _ H. unfold split. now rewrite split_join1.
Qed.

Lemma is_prefix_app p s : is_prefix p (p ++ s) = true.
Proof. induction p as [|x p IH]; cbn; auto. now rewrite N.eqb_refl. Qed.

Lemma drop_app {A} (p s : list A) : drop (length p) (p ++ s) = s.
Proof. induction p as [|x p IH]; cbn; auto. Qed.

(* a prefix of a concatenation is comparable with the left part *)
Lemma is_prefix_app_cases a b s : is_prefix a (b ++ s) = true -> is_prefix a b = true \/ is_prefix b a = true.
Proof.
  revert b; induction a as [|x a IH]; intros b H; cbn; auto.
  destruct b as [|y b]; cbn in *; auto.
  apply andb_true_iff in H as [H1 H2]. rewrite H1. cbn.
  rewrite N.eqb_sym, H1. cbn. auto.
Qed.

Lemma is_prefix_app_long d l s : (length d <= length l)%nat -> is_prefix d (l ++ s) = is_prefix d l.
Proof.
  revert l; induction d as [|x d IH]; intros l H; [destruct l; reflexivity|].
  destruct l as [|y l]; [cbn in H; lia|]. cbn. destruct (x =? y); cbn; auto. apply IH. cbn in H. lia.
Qed.

Lemma is_prefix_length d s : is_prefix d s = true -> (length d <= length s)%nat.
Proof.
  revert s; induction d as [|x d IH]; intros s H; [cbn; lia|].
  destruct s as [|y s]; [discriminate|]. cbn in *. apply andb_true_iff in H as [_ H]. apply IH in H. lia.
Qed.

(* cutting at the first delimiter: if the first occurrence of d in a ++ d is the trailing d itself, the
   same holds with anything appended *)
Lemma split_first_app d : d <> [] -> forall a acc s,
  split_first d acc (a ++ d) = Some (rev acc ++ a, []) ->
  split_first d acc (a ++ d ++ s) = Some (rev acc ++ a, s).
Proof.
  intros Hd. induction a as [|x a IH]; intros acc s H.
  - cbn [app] in *. destruct d as [|c d']; [congruence|]. cbn [split_first app].
    change (c :: d' ++ s) with ((c :: d') ++ s). rewrite is_prefix_app. rewrite drop_app.
    now rewrite app_nil_r.
  - cbn [app split_first] in *.
    destruct (is_prefix d (x :: a ++ d)) eqn:E.
    + inversion H as [[H1 H2]]. exfalso. apply (f_equal (@length _)) in H1. rewrite app_length in H1. cbn in H1. lia.
    + replace (x :: a ++ d ++ s) with ((x :: a ++ d) ++ s) by (cbn; now rewrite <- app_assoc).
      rewrite is_prefix_app_long, E by (cbn; rewrite app_length; lia).
      specialize (IH (x :: acc) s). cbn [rev] in IH. rewrite <- !app_assoc in IH. cbn [app] in IH.
      apply IH. exact H.
Qed.

Lemma first_delim_split dl disc s : dl <> [] -> first_delim_ok dl disc = true ->
  split_first dl [] (disc ++ dl ++ s) = Some (disc, s).
Proof.
  intros Hd H. unfold first_delim_ok in H.
  destruct (split_first dl [] (disc ++ dl)) as [[p r]|] eqn:E; [|discriminate].
  apply andb_true_iff in H as [H1 H2]. apply sch_bytes_eqb_eq in H1. subst p. destruct r; [|discriminate].
  apply (split_first_app dl Hd disc [] s). exact E.
Qed.

(* ================================================================== finding the unique hit *)

Lemma find_idx_intro {A} (p : A -> bool) l i x :
  nth_error l i = Some x -> p x = true ->
  (forall j y, (j < i)%nat -> nth_error l j = Some y -> p y = false) ->
  find_idx p l = Some (i, x).
Proof.
  revert i; induction l as [|a l IH]; intros i Hn Hp Hlt; [destruct i; discriminate|].
  cbn. destruct i as [|i]; cbn in Hn.
  - inversion Hn; subst. now rewrite Hp.
  - rewrite (Hlt O a ltac:(lia) eq_refl).
    rewrite (IH i Hn Hp); auto. intros j y Hj Hy. apply (Hlt (S j) y); [lia|exact Hy].
Qed.

Lemma find_idx_unique_gen {A K} (key : A -> K) (eqb : K -> K -> bool) l i x :
  (forall a b, eqb a b = true <-> a = b) ->
  NoDup (map key l) -> nth_error l i = Some x ->
  find_idx (fun y => eqb (key y) (key x)) l = Some (i, x).
Proof.
  intros Heq Hnd Hn. apply find_idx_intro; auto.
  - now apply Heq.
  - intros j y Hj Hy. destruct (eqb (key y) (key x)) eqn:E; auto. apply Heq in E.
    exfalso. clear -Hnd Hn Hy Hj E. revert i j Hn Hy Hj. induction l as [|a l IH]; intros i j Hn Hy Hj; [destruct i; discriminate|].
    inversion Hnd as [|? ? Hni Hnd']; subst. destruct i as [|i]; [lia|]. cbn in Hn.
    destruct j as [|j]; cbn in Hy.
    + inversion Hy; subst. apply Hni. rewrite E. apply in_map. eapply nth_error_In; eauto.
    + apply (IH Hnd' i j); auto. lia.
Qed.

Lemma find_unique_gen {A K} (key : A -> K) (eqb : K -> K -> bool) l x :
  (forall a b, eqb a b = true <-> a = b) ->
  NoDup (map key l) -> In x l -> find (fun y => eqb (key y) (key x)) l = Some x.
Proof.
  intros Heq. induction l as [|a l IH]; intros Hnd Hin; [contradiction|].
  inversion Hnd as [|? ? Hni Hnd']; subst. cbn. destruct Hin as [->|Hin].
  - assert (eqb (key x) (key x) = true) by now apply Heq. now rewrite H.
  - destruct (eqb (key a) (key x)) eqn:E.
    + apply Heq in E. exfalso. apply Hni. rewrite E. now apply in_map.
    + auto.
Qed.

Lemma nodup_kinds_NoDup l : nodup_kinds l = true -> NoDup l.
Proof.
  induction l as [|x l IH]; cbn; [constructor|]. rewrite andb_true_iff, negb_true_iff. intros [H1 H2].
  constructor; auto. intros Hin. assert (existsb (kind_eqb x) l = true).
  { apply existsb_exists. exists x. split; auto. apply kind_eqb_refl. }
  congruence.
Qed.

Lemma nodupz_NoDup l : nodupz l = true -> NoDup l.
Proof.
  induction l as [|x l IH]; cbn; [constructor|]. rewrite andb_true_iff, negb_true_iff. intros [H1 H2].
  constructor; auto. intros Hin. assert (existsb (Z.eqb x) l = true).
  { apply existsb_exists. exists x. split; auto. apply Z.eqb_refl. }
  congruence.
Qed.

Lemma find_name_In (es : list einfo) s x : find (fun e => bytes_eqb (e_name e) s) es = Some x -> In x es /\ e_name x = s.
Proof.
  intros H. apply find_some in H as [H1 H2]. apply sch_bytes_eqb_eq in H2. auto.
Qed.

(* ================================================================== slots against present fields *)

Lemma mapM_zip {A B} (F : A -> option B) (fs : list A) (vs : list B) :
  length vs = length fs -> (forall x, In x (zip fs vs) -> F (fst x) = Some (snd x)) -> mapM F fs = Some vs.
Proof.
  revert vs; induction fs as [|f fs IH]; intros vs Hl H; destruct vs as [|v vs]; try discriminate; auto.
  pose proof (H (f, v) (or_introl eq_refl)) as H0. cbn [fst snd] in H0.
  cbn [mapM]. rewrite H0. cbn in Hl. rewrite (IH vs); auto.
  intros x Hx. apply H. now right.
Qed.

Lemma zip_In_fst {A B} (fs : list A) (vs : list B) x : In x (zip fs vs) -> In (fst x) fs.
Proof.
  revert vs; induction fs as [|g l IHl]; intros st; destruct st; cbn; try contradiction.
  intros [<-|H]; [now left|right; eauto].
Qed.

(* looking a field's key up among the entries made from the present slots *)
Lemma assoc_present (key : finfo -> bytes) (g : (finfo * ty) * maybe tv -> dm) fs vs :
  NoDup (map (fun f => key (fst f)) fs) -> length vs = length fs ->
  forall x, In x (zip fs vs) ->
    assoc (key (fst (fst x))) (map (fun y => (key (fst (fst y)), g y)) (present fs vs)) =
    if is_absent (snd x) then None else Some (g x).
Proof.
  unfold present. revert vs; induction fs as [|f fs IH]; intros vs Hnd Hl x Hx; destruct vs as [|v vs]; try discriminate; [contradiction|].
  inversion Hnd as [|? ? Hni Hnd']; subst. cbn in Hl. cbn [zip filter snd] in *.
  destruct Hx as [<-|Hx].
  - cbn [fst snd]. destruct (is_absent v) eqn:Ea; cbn [negb map assoc fst snd].
    + apply assoc_None. rewrite map_map. cbn. intros Hin. apply in_map_iff in Hin as [y [Hy1 Hy2]].
      apply filter_In in Hy2 as [Hy2 _]. apply zip_In_fst in Hy2. apply Hni. rewrite <- Hy1.
      now apply (in_map (fun f0 => key (fst f0))).
    + now rewrite sch_bytes_eqb_refl.
  - assert (Hne : bytes_eqb (key (fst (fst x))) (key (fst f)) = false).
    { apply sch_bytes_eqb_neq. intros E. apply Hni. rewrite <- E.
      apply zip_In_fst in Hx. now apply (in_map (fun f0 => key (fst f0))). }
    destruct (is_absent v); cbn [negb map assoc fst snd]; [|rewrite Hne]; apply IH; auto; lia.
Qed.

Lemma present_keys_nodup (key : finfo -> bytes) (g : (finfo * ty) * maybe tv -> dm) fs vs :
  NoDup (map (fun f => key (fst f)) fs) ->
  NoDup (map fst (map (fun y => (key (fst (fst y)), g y)) (present fs vs))).
Proof.
  unfold present. rewrite map_map. cbn. revert vs; induction fs as [|f fs IH]; intros vs Hnd; destruct vs as [|v vs]; cbn; try constructor.
  inversion Hnd as [|? ? Hni Hnd']; subst.
  destruct (is_absent v); cbn; auto. constructor; auto.
  intros Hin. apply in_map_iff in Hin as [y [Hy1 Hy2]]. apply filter_In in Hy2 as [Hy2 _].
  apply zip_In_fst in Hy2. apply Hni. rewrite <- Hy1. now apply (in_map (fun f0 => key (fst f0))).
Qed.

Lemma map_fst_pair {K A B} (g : A -> B) (m : list (K * A)) :
  map fst (map (fun kv => (fst kv, g (snd kv))) m) = map fst m.
Proof. induction m as [|x m IH]; cbn; auto. now rewrite IH. Qed.

(* ================================================================== representation level *)
Section ReprStep.
  Variables (hs : ty -> tv -> bool) (rp : ty -> tv -> dm) (rc : ty -> dm -> option tv).
  Hypothesis Hk : kinds_ok hs rp.
  Hypothesis Hrec : forall c v, hs c v = true -> wf c = true -> rc c (rp c v) = Some v.

  Lemma conf_maybe_repr opt nul c m :
    wf c = true -> has_maybe hs opt nul c m = true -> is_absent m = false ->
    conf_maybe rc nul c (repr_maybe rp c m) = Some m.
  Proof.
    intros Hc Hh Ha. destruct m as [| |w]; cbn in *; try discriminate.
    - now rewrite Hh.
    - destruct (Hk _ _ Hh Hc) as [Hn _]. pose proof (Hrec _ _ Hh Hc) as Hr. unfold conf_maybe.
      destruct (rp c w); try (now rewrite Hr). exfalso. now apply Hn.
  Qed.

  Lemma fields_round (key : finfo -> bytes) fs vs :
    NoDup (map (fun f => key (fst f)) fs) -> Forall (fun f => wf (snd f) = true) fs ->
    has_fields hs fs vs = true ->
    conf_fields rc key fs
      (map (fun x => (key (fst (fst x)), repr_maybe rp (snd (fst x)) (snd x))) (present fs vs)) = Some (VStruct vs).
  Proof.
    intros Hnd Hch Hf. pose proof (has_fields_length _ _ _ Hf) as Hlen.
    unfold conf_fields.
    pose (g := fun x : (finfo * ty) * maybe tv => repr_maybe rp (snd (fst x)) (snd x)).
    change (map (fun x : (finfo * ty) * maybe tv => (key (fst (fst x)), repr_maybe rp (snd (fst x)) (snd x))) (present fs vs))
      with (map (fun x => (key (fst (fst x)), g x)) (present fs vs)).
    assert (G1 : nodupb (map fst (map (fun x => (key (fst (fst x)), g x)) (present fs vs))) = true).
    { apply nodupb_NoDup. now apply present_keys_nodup. }
    assert (G2 : forallb (fun kv => existsb (fun f => bytes_eqb (key (fst f)) (fst kv)) fs)
                         (map (fun x => (key (fst (fst x)), g x)) (present fs vs)) = true).
    { apply forallb_forall. intros kv Hkv. apply in_map_iff in Hkv as [y [<- Hy]].
      unfold present in Hy. apply filter_In in Hy as [Hy _]. apply zip_In_fst in Hy.
      apply existsb_exists. exists (fst y). split; auto. apply sch_bytes_eqb_refl. }
    rewrite G1, G2. cbn [andb].
    rewrite (mapM_zip _ fs vs Hlen); auto.
    intros x Hx. rewrite (assoc_present key g fs vs Hnd Hlen x Hx).
    destruct (has_fields_all hs fs vs Hch Hf x Hx) as [Hm Hc].
    destruct (is_absent (snd x)) eqn:Ea.
    - destruct (snd x); try discriminate. cbn in Hm. now rewrite Hm.
    - unfold g. eapply conf_maybe_repr; eauto.
  Qed.

  Lemma tuple_round fs : forall vs,
    Forall (fun f => wf (snd f) = true) fs -> has_fields hs fs vs = true ->
    trailing_opt (map is_absent vs) = true ->
    conf_tuple rc fs (map (fun x => repr_maybe rp (snd (fst x)) (snd x)) (present fs vs)) = Some vs.
  Proof.
    unfold present. induction fs as [|f fs IH]; intros vs Hch Hf Ht; destruct vs as [|v vs]; try discriminate; auto.
    inversion Hch as [|? ? Hc Hch']; subst. cbn in Hf. apply andb_true_iff in Hf as [Hm Hf].
    cbn [zip filter snd map]. cbn in Ht. destruct (is_absent v) eqn:Ea; cbn [negb].
    - (* every later slot is absent too *)
      assert (Hall : forall gs ws, has_fields hs gs ws = true -> forallb (fun b => b) (map is_absent ws) = true ->
                 filter (fun x : (finfo * ty) * maybe tv => negb (is_absent (snd x))) (zip gs ws) = [] /\
                 conf_tuple rc gs [] = Some ws).
      { clear. induction gs as [|g gs IHg]; intros ws Hf Ha; destruct ws as [|w ws]; try discriminate; auto.
        cbn in *. apply andb_true_iff in Hf as [Hm Hf]. apply andb_true_iff in Ha as [Hw Ha].
        rewrite Hw. cbn. destruct (IHg ws Hf Ha) as [I1 I2]. split; auto.
        destruct w; try discriminate. cbn in Hm. rewrite Hm, I2. reflexivity. }
      destruct (Hall fs vs Hf Ht) as [H1 H2]. rewrite H1. cbn [map conf_tuple].
      destruct v; try discriminate. cbn in Hm. rewrite Hm, H2. reflexivity.
    - cbn [map conf_tuple fst snd]. rewrite (conf_maybe_repr _ _ _ _ Hc Hm Ea).
      rewrite (IH vs Hch' Hf Ht). reflexivity.
  Qed.

  Lemma pairs_round (g : (finfo * ty) * maybe tv -> dm) l :
    mapM (pair_of) (map (fun x : (finfo * ty) * maybe tv => DList [DString (f_name (fst (fst x))); g x]) l) =
    Some (map (fun x => (f_name (fst (fst x)), g x)) l).
  Proof. induction l as [|x l IH]; cbn; auto. now rewrite IH. Qed.

  Lemma join_round fs : forall vs,
    Forall (fun f => wf (snd f) = true) fs ->
    forallb (fun f => negb (f_opt (fst f)) && negb (f_nul (fst f)) &&
                      okind_eqb (repr_kind (snd f)) KString && bytes_eqb (f_key (fst f)) (f_name (fst f))) fs = true ->
    has_fields hs fs vs = true ->
    conf_join rc fs (map (fun x => str_of (repr_maybe rp (snd (fst x)) (snd x))) (zip fs vs)) = Some vs.
  Proof.
    induction fs as [|f fs IH]; intros vs Hch Hj Hf; destruct vs as [|v vs]; try discriminate; auto.
    inversion Hch as [|? ? Hc Hch']; subst. cbn in Hf, Hj.
    apply andb_true_iff in Hf as [Hm Hf]. apply andb_true_iff in Hj as [Hj Hj'].
    apply andb_true_iff in Hj as [Hj _]. apply andb_true_iff in Hj as [Hj Hkd].
    apply andb_true_iff in Hj as [Ho Hn]. apply negb_true_iff in Ho, Hn. rewrite Ho, Hn in Hm.
    destruct v as [| |w]; cbn in Hm; try discriminate.
    cbn [zip map conf_join fst snd repr_maybe].
    destruct (Hk _ _ Hm Hc) as [_ Hkk].
    unfold okind_eqb in Hkd. destruct (repr_kind (snd f)) as [k|]; [|discriminate].
    apply kind_eqb_eq in Hkd. subst k. specialize (Hkk KString eq_refl).
    pose proof (Hrec _ _ Hm Hc) as Hr.
    destruct (rp (snd f) w) eqn:Erp; cbn in Hkk; try discriminate. cbn [str_of].
    rewrite Hr, (IH vs Hch' Hj' Hf). reflexivity.
  Qed.

  Lemma repr_step_round t v :
    has_step hs rp t v = true -> wf t = true -> conf_step LRepr rc t (repr_step rp t v) = Some v.
  Proof.
    intros Hh Hwf. unfold conf_step.
    destruct (kinds_step hs rp Hk t v Hh Hwf) as [Hnn Hkind].
    destruct (kind_eqb (kind_of (repr_step rp t v)) KNull) eqn:Ekn.
    { apply kind_eqb_eq in Ekn. contradiction. }
    clear Ekn Hnn Hkind.
    destruct t; destruct v; cbn [has_step] in Hh; try discriminate; try (destruct w; discriminate);
      try reflexivity.
    - (* int *) cbn. destruct w; now rewrite Hh.
    - (* any *) cbn [repr_step conf_scalar]. now rewrite Hh.
    - (* list *)
      cbn [repr_step]. rewrite forallb_forall in Hh.
      assert (E : mapM (conf_maybe rc nul t) (map (repr_maybe rp t) l) = Some l).
      { induction l as [|x l IH]; cbn; auto. rewrite IH by (intros; apply Hh; now right).
        specialize (Hh x (or_introl eq_refl)).
        rewrite (conf_maybe_repr false nul t x Hwf Hh); auto. destruct x; cbn in *; auto; discriminate. }
      now rewrite E.
    - (* map *)
      cbn [repr_step]. apply andb_true_iff in Hh as [Hnd Hh]. rewrite forallb_forall in Hh.
      rewrite map_fst_pair, Hnd. clear Hnd.
      assert (E : mapM (fun kv => match conf_maybe rc nul t (snd kv) with Some v => Some (fst kv, v) | None => None end)
                       (map (fun kv => (fst kv, repr_maybe rp t (snd kv))) m) = Some m).
      { induction m as [|[k x] m IH]; cbn [map mapM fst snd]; auto. rewrite IH by (intros; apply Hh; now right).
        specialize (Hh (k, x) (or_introl eq_refl)). cbn in Hh.
        rewrite (conf_maybe_repr false nul t x Hwf Hh); auto. destruct x; cbn in *; auto; discriminate. }
      now rewrite E.
    - (* struct *)
      destruct (wf_children_struct _ _ Hwf) as [Hloc Hch].
      apply andb_true_iff in Hh as [Hf Hr].
      unfold wf_struct_local in Hloc. apply andb_true_iff in Hloc as [Hnames Hloc].
      apply nodupb_NoDup in Hnames.
      destruct r; cbn [repr_step].
      + apply nodupb_NoDup in Hloc. now apply fields_round.
      + rewrite tuple_round; auto.
      + apply andb_true_iff in Hloc as [Hd Hj]. apply andb_true_iff in Hd as [Hd Hne].
        destruct delim as [|c [|? ?]]; try discriminate.
        pose proof (has_fields_length _ _ _ Hf) as Hlen.
        rewrite split_join.
        * rewrite join_round; auto.
        * destruct fs as [|f fs]; [discriminate|]. destruct fs0; [discriminate|]. cbn. discriminate.
        * apply Forall_forall. intros p Hp. apply in_map_iff in Hp as [x [<- Hx]].
          rewrite forallb_forall in Hr. specialize (Hr x Hx). now apply negb_true_iff in Hr.
      + rewrite pairs_round. now apply fields_round.
    - (* union *)
      destruct (nth_error ms i) as [m|] eqn:En; [|discriminate].
      destruct (wf_children_union _ _ Hwf) as [Hloc Hch]. rewrite Forall_forall in Hch.
      pose proof (Hch m (nth_error_In _ _ En)) as Hc.
      cbn [repr_step]. rewrite En.
      unfold wf_union_local in Hloc. apply andb_true_iff in Hloc as [_ Hloc].
      destruct r.
      + apply nodupb_NoDup in Hloc. unfold conf_member.
        rewrite (find_idx_unique_gen (fun x : minfo * ty => m_disc (fst x)) bytes_eqb ms i m sch_bytes_eqb_eq Hloc En).
        now rewrite (Hrec _ _ Hh Hc).
      + apply andb_true_iff in Hloc as [Hnd Hkd]. apply nodup_kinds_NoDup in Hnd.
        rewrite forallb_forall in Hkd. specialize (Hkd m (nth_error_In _ _ En)).
        apply andb_true_iff in Hkd as [Hkd _].
        destruct (Hk _ _ Hh Hc) as [_ Hkk].
        unfold okind_eqb in Hkd. destruct (repr_kind (snd m)) as [k|]; [|discriminate].
        apply kind_eqb_eq in Hkd. specialize (Hkk k eq_refl). rewrite Hkd in Hkk.
        assert (G : conf_member rc ms (fun mi => kind_eqb (m_kind mi) (kind_of (rp (snd m) v))) (rp (snd m) v) = Some (VUnion i v)).
        { unfold conf_member. rewrite Hkk.
          rewrite (find_idx_unique_gen (fun x : minfo * ty => m_kind (fst x)) kind_eqb ms i m kind_eqb_eq Hnd En).
          now rewrite (Hrec _ _ Hh Hc). }
        destruct (rp (snd m) v); exact G.
      + apply andb_true_iff in Hloc as [Hpf Hs]. rewrite forallb_forall in Hs.
        specialize (Hs m (nth_error_In _ _ En)).
        destruct (Hk _ _ Hh Hc) as [_ Hkk].
        unfold okind_eqb in Hs. destruct (repr_kind (snd m)) as [k|]; [|discriminate].
        apply kind_eqb_eq in Hs. subst k. specialize (Hkk KString eq_refl).
        pose proof (Hrec _ _ Hh Hc) as Hr.
        destruct (rp (snd m) v) eqn:Erp; cbn in Hkk; try discriminate. cbn [str_of].
        assert (Hsp : sp_parse delim ms (m_disc (fst m) ++ delim ++ s) = Some (i, m, s)).
        { unfold sp_parse. destruct delim as [|c dl'].
          - cbn [app].
            assert (Hfi : find_idx (fun m0 : minfo * ty => is_prefix (m_disc (fst m0)) (m_disc (fst m) ++ s)) ms = Some (i, m)).
            { apply find_idx_intro; auto; [apply is_prefix_app|].
              intros j y Hj Hy. destruct (is_prefix (m_disc (fst y)) (m_disc (fst m) ++ s)) eqn:Ep; auto.
              exfalso. apply is_prefix_app_cases in Ep.
              clear -Hpf En Hy Hj Ep. revert i j En Hy Hj. induction ms as [|a l IH]; intros i j En Hy Hj; [destruct i; discriminate|].
              cbn in Hpf. apply andb_true_iff in Hpf as [Hh Ht].
              destruct i as [|i]; [lia|]. cbn in En. destruct j as [|j]; cbn in Hy.
              - inversion Hy; subst. rewrite forallb_forall in Hh.
                specialize (Hh (m_disc (fst m))). rewrite andb_true_iff, !negb_true_iff in Hh.
                destruct Hh as [H1 H2]; [apply (in_map (fun m0 : minfo * ty => m_disc (fst m0))); eapply nth_error_In; eauto|].
                destruct Ep; congruence.
              - apply (IH Ht i j); auto. lia. }
            rewrite Hfi, drop_app. reflexivity.
          - apply andb_true_iff in Hpf as [Hnd Hfd]. apply nodupb_NoDup in Hnd.
            rewrite forallb_forall in Hfd. specialize (Hfd m (nth_error_In _ _ En)).
            rewrite (first_delim_split (c :: dl') (m_disc (fst m)) s ltac:(discriminate) Hfd).
            rewrite (find_idx_unique_gen (fun x : minfo * ty => m_disc (fst x)) bytes_eqb ms i m sch_bytes_eqb_eq Hnd En).
            reflexivity. }
        rewrite Hsp, Hr. reflexivity.
    - (* enum *)
      cbn [repr_step]. destruct (existsb_find _ _ Hh) as [x [Hx Hxs]]. rewrite Hx.
      apply find_name_In in Hx as [Hin Hname].
      unfold wf in Hwf. unfold wf_enum_local in Hwf. apply andb_true_iff in Hwf as [_ Hu].
      destruct int_repr.
      + apply nodupz_NoDup in Hu.
        rewrite (find_unique_gen e_int Z.eqb es x Z.eqb_eq Hu Hin). now rewrite Hname.
      + apply nodupb_NoDup in Hu.
        rewrite (find_unique_gen e_str bytes_eqb es x sch_bytes_eqb_eq Hu Hin). now rewrite Hname.
  Qed.
End ReprStep.

Theorem repr_round n : forall t v, has_f n t v = true -> wf t = true -> conf_f LRepr n t (repr_f n t v) = Some v.
Proof.
  induction n as [|n IH]; intros t v Hh Hwf; [discriminate|].
  unfold conf_f, repr_f. cbn [fuel_rec]. cbn [has_f] in Hh.
  apply (repr_step_round (has_f n) (repr_f n)); auto. apply repr_kinds.
Qed.

(* ================================================================== type level *)
Section TypeStep.
  Variables (hs : ty -> tv -> bool) (rp : ty -> tv -> dm) (td : ty -> tv -> dm) (rc : ty -> dm -> option tv).
  Hypothesis Hnn : forall c v, hs c v = true -> wf c = true -> kind_of (td c v) <> KNull.
  Hypothesis Hrec : forall c v, hs c v = true -> wf c = true -> rc c (td c v) = Some v.

  Lemma tdm_step_nonnull t v : has_step hs rp t v = true -> wf t = true -> kind_of (tdm_step td t v) <> KNull.
  Proof.
    intros Hh Hwf.
    destruct t; destruct v; cbn [has_step] in Hh; try discriminate; try (destruct w; discriminate);
      cbn; try discriminate.
    - apply andb_true_iff in Hh as [Hn _]. apply negb_true_iff in Hn. intros E. rewrite E in Hn. discriminate.
    - destruct (nth_error ms i); [discriminate|discriminate].
  Qed.

  Lemma conf_maybe_tdm opt nul c m :
    wf c = true -> has_maybe hs opt nul c m = true -> is_absent m = false ->
    conf_maybe rc nul c (tdm_maybe td c m) = Some m.
  Proof.
    intros Hc Hh Ha. destruct m as [| |w]; cbn in *; try discriminate.
    - now rewrite Hh.
    - pose proof (Hnn _ _ Hh Hc) as Hn. pose proof (Hrec _ _ Hh Hc) as Hr. unfold conf_maybe.
      destruct (td c w); try (now rewrite Hr). exfalso. now apply Hn.
  Qed.

  Lemma tdm_step_round t v :
    has_step hs rp t v = true -> wf t = true -> conf_step LType rc t (tdm_step td t v) = Some v.
  Proof.
    intros Hh Hwf. unfold conf_step.
    pose proof (tdm_step_nonnull t v Hh Hwf) as Hn0.
    destruct (kind_eqb (kind_of (tdm_step td t v)) KNull) eqn:Ekn.
    { apply kind_eqb_eq in Ekn. contradiction. }
    clear Ekn Hn0.
    destruct t; destruct v; cbn [has_step] in Hh; try discriminate; try (destruct w; discriminate);
      try reflexivity.
    - cbn. destruct w; now rewrite Hh.
    - cbn [tdm_step conf_scalar]. now rewrite Hh.
    - cbn [tdm_step]. rewrite forallb_forall in Hh.
      assert (E : mapM (conf_maybe rc nul t) (map (tdm_maybe td t) l) = Some l).
      { induction l as [|x l IH]; cbn; auto. rewrite IH by (intros; apply Hh; now right).
        specialize (Hh x (or_introl eq_refl)).
        rewrite (conf_maybe_tdm false nul t x Hwf Hh); auto. destruct x; cbn in *; auto; discriminate. }
      now rewrite E.
    - cbn [tdm_step]. apply andb_true_iff in Hh as [Hnd Hh]. rewrite forallb_forall in Hh.
      rewrite map_fst_pair, Hnd. clear Hnd.
      assert (E : mapM (fun kv => match conf_maybe rc nul t (snd kv) with Some v => Some (fst kv, v) | None => None end)
                       (map (fun kv => (fst kv, tdm_maybe td t (snd kv))) m) = Some m).
      { induction m as [|[k x] m IH]; cbn [map mapM fst snd]; auto. rewrite IH by (intros; apply Hh; now right).
        specialize (Hh (k, x) (or_introl eq_refl)). cbn in Hh.
        rewrite (conf_maybe_tdm false nul t x Hwf Hh); auto. destruct x; cbn in *; auto; discriminate. }
      now rewrite E.
    - (* struct: always a map keyed by field name *)
      destruct (wf_children_struct _ _ Hwf) as [Hloc Hch].
      apply andb_true_iff in Hh as [Hf _].
      unfold wf_struct_local in Hloc. apply andb_true_iff in Hloc as [Hnames _].
      apply nodupb_NoDup in Hnames.
      cbn [tdm_step].
      pose proof (has_fields_length _ _ _ Hf) as Hlen.
      unfold conf_fields.
      pose (g := fun x : (finfo * ty) * maybe tv => tdm_maybe td (snd (fst x)) (snd x)).
      change (map (fun x : (finfo * ty) * maybe tv => (f_name (fst (fst x)), tdm_maybe td (snd (fst x)) (snd x))) (present fs fs0))
        with (map (fun x => (f_name (fst (fst x)), g x)) (present fs fs0)).
      assert (G1 : nodupb (map fst (map (fun x => (f_name (fst (fst x)), g x)) (present fs fs0))) = true).
      { apply nodupb_NoDup. now apply present_keys_nodup. }
      assert (G2 : forallb (fun kv => existsb (fun f => bytes_eqb (f_name (fst f)) (fst kv)) fs)
                           (map (fun x => (f_name (fst (fst x)), g x)) (present fs fs0)) = true).
      { apply forallb_forall. intros kv Hkv. apply in_map_iff in Hkv as [y [<- Hy]].
        unfold present in Hy. apply filter_In in Hy as [Hy _]. apply zip_In_fst in Hy.
        apply existsb_exists. exists (fst y). split; auto. apply sch_bytes_eqb_refl. }
      assert (G : conf_fields rc f_name fs (map (fun x => (f_name (fst (fst x)), g x)) (present fs fs0)) = Some (VStruct fs0)).
      { unfold conf_fields. rewrite G1, G2. cbn [andb].
        rewrite (mapM_zip _ fs fs0 Hlen); auto.
        intros x Hx. rewrite (assoc_present f_name g fs fs0 Hnames Hlen x Hx).
        destruct (has_fields_all hs fs fs0 Hch Hf x Hx) as [Hm Hc].
        destruct (is_absent (snd x)) eqn:Ea.
        - destruct (snd x); try discriminate. cbn in Hm. now rewrite Hm.
        - unfold g. eapply conf_maybe_tdm; eauto. }
      destruct r; exact G.
    - (* union: a one-entry map keyed by the member's type name *)
      destruct (nth_error ms i) as [m|] eqn:En; [|discriminate].
      destruct (wf_children_union _ _ Hwf) as [Hloc Hch]. rewrite Forall_forall in Hch.
      pose proof (Hch m (nth_error_In _ _ En)) as Hc.
      cbn [tdm_step]. rewrite En.
      unfold wf_union_local in Hloc. apply andb_true_iff in Hloc as [Hnames _]. apply nodupb_NoDup in Hnames.
      assert (G : conf_member rc ms (fun mi => bytes_eqb (m_name mi) (m_name (fst m))) (td (snd m) v) = Some (VUnion i v)).
      { unfold conf_member.
        rewrite (find_idx_unique_gen (fun x : minfo * ty => m_name (fst x)) bytes_eqb ms i m sch_bytes_eqb_eq Hnames En).
        now rewrite (Hrec _ _ Hh Hc). }
      destruct r; exact G.
    - (* enum *)
      cbn [tdm_step]. now rewrite Hh.
  Qed.
End TypeStep.

Theorem tdm_round n : forall t v, has_f n t v = true -> wf t = true ->
  kind_of (tdm_f n t v) <> KNull /\ conf_f LType n t (tdm_f n t v) = Some v.
Proof.
  induction n as [|n IH]; intros t v Hh Hwf; [discriminate|].
  unfold conf_f, tdm_f. cbn [fuel_rec]. cbn [has_f] in Hh. split.
  - apply (tdm_step_nonnull (has_f n) (repr_f n) (tdm_f n)); auto.
  - apply (tdm_step_round (has_f n) (repr_f n) (tdm_f n)); auto; intros; now apply IH.
Qed.
