(* Proofs/TravBudget.v — C15, budgets: the budgeted walk is the unrestricted walk cut at the first event
   that exceeds its budget (closed form), for every graph, selector, fuel and pair of budgets. *)
Require Import IP.Base.Bytes IP.DM.Value IP.Trav.Selector IP.Trav.Walk IP.Trav.Controls IP.Trav.ControlsSpec
  IP.Proofs.TravFacts.
From Coq Require Import Lia.
Open Scope Z_scope.

Definition bst (nb lb : Z) (seen : list bytes) : wst := {| w_budget := Some (nb, lb); w_seen := seen |}.

Definition cutres (nb lb : Z) (seen : list bytes) (r : list event * outcome) : list event * outcome * wst :=
  match cut nb lb (fst r) with
  | (t', Some e, (nb', lb')) => (t', OErr e, bst nb' lb' seen)
  | (_, None, (nb', lb')) => (fst r, snd r, bst nb' lb' seen)
  end.

Lemma cut_app t1 : forall t2 nb lb,
  cut nb lb (t1 ++ t2) =
  match cut nb lb t1 with
  | (t1', Some e, b) => (t1', Some e, b)
  | (t1', None, (nb', lb')) => let '(t2', o, b) := cut nb' lb' t2 in (t1' ++ t2', o, b)
  end.
Proof.
  induction t1 as [|e t1 IH]; intros t2 nb lb.
  - cbn. destruct (cut nb lb t2) as [[a o] b]. reflexivity.
  - cbn [app cut]. destruct (is_visit e).
    + destruct (nb <=? 0); [reflexivity|]. rewrite IH.
      destruct (cut (nb - 1) lb t1) as [[a [o|]] [x y]]; [reflexivity|].
      destruct (cut x y t2) as [[a' o'] b']. reflexivity.
    + destruct (lb <=? 0); [reflexivity|]. rewrite IH.
      destruct (cut nb (lb - 1) t1) as [[a [o|]] [x y]]; [reflexivity|].
      destruct (cut x y t2) as [[a' o'] b']. reflexivity.
Qed.

Lemma cut_none t : forall nb lb t' b, cut nb lb t = (t', None, b) -> t' = t.
Proof.
  induction t as [|e t IH]; intros nb lb t' b; cbn.
  - intros H; inversion H; reflexivity.
  - destruct (is_visit e).
    + destruct (nb <=? 0); [discriminate|].
      destruct (cut (nb - 1) lb t) as [[a o] b'] eqn:E. intros H; inversion H; subst.
      f_equal. eapply IH; eauto.
    + destruct (lb <=? 0); [discriminate|].
      destruct (cut nb (lb - 1) t) as [[a o] b'] eqn:E. intros H; inversion H; subst.
      f_equal. eapply IH; eauto.
Qed.

Section Budget.
  Variable q : quirks.
  Variable g : list (bytes * dm).

  Definition budget_form (f : nat) : Prop :=
    forall nb lb seen past ls P n s,
      cwalk q no_ctl g f (bst nb lb seen) past ls P n s = cutres nb lb seen (walk q g f ls P n s).

  Lemma step_budget f (IH : budget_form f) ls P n s nb lb seen past k :
    cexplore_step q no_ctl g (cwalk q no_ctl g f) ls P n s (bst nb lb seen) past k
    = cutres nb lb seen (explore_step q g (walk q g f) ls P n s k).
  Proof.
    unfold cexplore_step, explore_step.
    destruct (explore q s n (fst k)) as [[s'|]| |]; try reflexivity.
    destruct (snd k); try apply IH.
    (* a link *)
    cbn [c_once no_ctl andb c_skip mem_bytes].
    unfold check_link, bst; cbn [w_budget w_seen].
    destruct (assoc c g) as [b|] eqn:Eg.
    - specialize (IH nb (lb - 1) seen past (c :: ls) (P ++ [fst k]) b s').
      destruct (walk q g f (c :: ls) (P ++ [fst k]) b s') as [e o] eqn:Ew.
      unfold cutres; cbn [fst snd cut is_visit].
      destruct (lb <=? 0); [reflexivity|].
      fold (bst nb (lb - 1) seen). rewrite IH. unfold cutres; cbn [fst snd].
      destruct (cut nb (lb - 1) e) as [[t' [er|]] [x y]]; reflexivity.
    - unfold cutres; cbn [fst snd cut is_visit].
      destruct (lb <=? 0); reflexivity.
  Qed.

  Lemma loop_budget f (IH : budget_form f) ls P n s : forall ks nb lb seen past reached,
    cloop no_ctl (cexplore_step q no_ctl g (cwalk q no_ctl g f) ls P n s) P ks (bst nb lb seen) past reached
    = cutres nb lb seen (seqk (explore_step q g (walk q g f) ls P n s) ks).
  Proof.
    induction ks as [|k r IHr]; intros nb lb seen past reached.
    - reflexivity.
    - cbn [cloop]. unfold start_decide; cbn [c_start no_ctl].
      rewrite step_budget by exact IH. rewrite seqk_cons.
      destruct (explore_step q g (walk q g f) ls P n s k) as [e o].
      unfold cutres at 1; cbn [fst snd].
      destruct (cut nb lb e) as [[t' [er|]] [x y]] eqn:Ec.
      + (* budget error inside this child *)
        destruct o.
        * destruct (seqk (explore_step q g (walk q g f) ls P n s) r) as [e' o'].
          unfold cutres; cbn [fst snd]. rewrite cut_app, Ec. reflexivity.
        * unfold cutres; cbn [fst snd]. rewrite Ec. reflexivity.
        * unfold cutres; cbn [fst snd]. rewrite Ec. reflexivity.
        * unfold cutres; cbn [fst snd]. rewrite Ec. reflexivity.
      + destruct o.
        * rewrite IHr.
          destruct (seqk (explore_step q g (walk q g f) ls P n s) r) as [e' o'].
          unfold cutres; cbn [fst snd]. rewrite cut_app, Ec.
          destruct (cut x y e') as [[t2 [er|]] [x' y']] eqn:Ec2.
          -- rewrite (cut_none _ _ _ _ _ Ec). reflexivity.
          -- reflexivity.
        * unfold cutres; cbn [fst snd]. rewrite Ec. reflexivity.
        * unfold cutres; cbn [fst snd]. rewrite Ec. reflexivity.
        * unfold cutres; cbn [fst snd]. rewrite Ec. reflexivity.
  Qed.

  Theorem budget_closed_form : forall f, budget_form f.
  Proof.
    induction f as [|f IH]; intros nb lb seen past ls P n s.
    - reflexivity.
    - rewrite cwalk_S, walk_S. unfold check_node, bst; cbn [w_budget w_seen c_start no_ctl length].
      replace (negb past && Nat.ltb (length P) 0)%bool with false
        by (destruct past; cbn; [reflexivity | destruct (length P); reflexivity]).
      destruct (is_container n).
      + fold (bst (nb - 1) lb seen).
        destruct (nb <=? 0) eqn:En.
        * destruct (seqk (explore_step q g (walk q g f) ls P n s) (children q n s)) as [e o].
          unfold cutres; cbn [fst snd cut]. rewrite visit_event_is_visit, En. reflexivity.
        * rewrite (loop_budget f IH).
          destruct (seqk (explore_step q g (walk q g f) ls P n s) (children q n s)) as [e o].
          unfold cutres; cbn [fst snd cut]. rewrite visit_event_is_visit, En.
          destruct (cut (nb - 1) lb e) as [[t' [er|]] [x y]]; reflexivity.
      + unfold cutres; cbn [fst snd cut]. rewrite visit_event_is_visit.
        destruct (nb <=? 0); reflexivity.
  Qed.
End Budget.

(* ------------------------------------------------------------------ corollaries on whole runs *)

Theorem budget_run q g f nb lb root s :
  cwalk_adv q no_ctl g f (Some (nb, lb)) root s = cut_run nb lb (walk_adv q g f root s).
Proof.
  unfold cwalk_adv, walk_adv, cut_run.
  change {| w_budget := Some (nb, lb); w_seen := [] |} with (bst nb lb []).
  rewrite budget_closed_form. unfold cutres.
  destruct (walk q g f [] [] root s) as [t o]; cbn [fst snd].
  destruct (cut nb lb t) as [[t' [e|]] [x y]]; reflexivity.
Qed.

Lemma cut_prefix t : forall nb lb, exists r, t = fst (fst (cut nb lb t)) ++ r.
Proof.
  induction t as [|e t IH]; intros nb lb; cbn.
  - exists []; reflexivity.
  - destruct (is_visit e).
    + destruct (nb <=? 0); [exists (e :: t); reflexivity|].
      destruct (IH (nb - 1) lb) as [r Hr]. destruct (cut (nb - 1) lb t) as [[a o] b]; cbn in *.
      exists r; congruence.
    + destruct (lb <=? 0); [exists (e :: t); reflexivity|].
      destruct (IH nb (lb - 1)) as [r Hr]. destruct (cut nb (lb - 1) t) as [[a o] b]; cbn in *.
      exists r; congruence.
Qed.

Lemma cut_node t : forall nb lb, 0 <= nb -> Z.of_nat (length (loads t)) <= lb ->
  visits (fst (fst (cut nb lb t))) = firstn (Z.to_nat nb) (visits t) /\
  (Z.of_nat (length (visits t)) <= nb -> snd (fst (cut nb lb t)) = None) /\
  (nb < Z.of_nat (length (visits t)) -> snd (fst (cut nb lb t)) = Some WNodeBudget).
Proof.
  induction t as [|e t IH]; intros nb lb H0 Hl.
  - cbn. rewrite firstn_nil. repeat split; auto. intros; cbn in *; lia.
  - cbn [cut]. unfold visits, loads in *. cbn [filter] in *.
    destruct e as [p n r ls|p c ls]; cbn [is_visit is_load] in *.
    + destruct (Z.leb_spec nb 0).
      * cbn. replace (Z.to_nat nb) with O by lia. repeat split; auto. lia.
      * destruct (IH (nb - 1) lb) as (A & B & C); [lia|exact Hl|].
        destruct (cut (nb - 1) lb t) as [[a o] b]; cbn [fst snd] in *.
        replace (Z.to_nat nb) with (S (Z.to_nat (nb - 1))) by lia.
        cbn [filter is_visit firstn length]. rewrite A. repeat split; auto.
        -- intros; apply B; lia.
        -- intros; apply C; lia.
    + cbn [length] in Hl. destruct (Z.leb_spec lb 0); [lia|].
      destruct (IH nb (lb - 1)) as (A & B & C); [lia|lia|].
      destruct (cut nb (lb - 1) t) as [[a o] b]; cbn [fst snd] in *.
      cbn [filter is_visit]. auto.
Qed.

Lemma cut_link t : forall nb lb, 0 <= lb -> Z.of_nat (length (visits t)) <= nb ->
  loads (fst (fst (cut nb lb t))) = firstn (Z.to_nat lb) (loads t) /\
  (Z.of_nat (length (loads t)) <= lb -> snd (fst (cut nb lb t)) = None) /\
  (lb < Z.of_nat (length (loads t)) -> snd (fst (cut nb lb t)) = Some WLinkBudget).
Proof.
  induction t as [|e t IH]; intros nb lb H0 Hl.
  - cbn. rewrite firstn_nil. repeat split; auto. intros; cbn in *; lia.
  - cbn [cut]. unfold visits, loads in *. cbn [filter] in *.
    destruct e as [p n r ls|p c ls]; cbn [is_visit is_load] in *.
    + cbn [length] in Hl. destruct (Z.leb_spec nb 0); [lia|].
      destruct (IH (nb - 1) lb) as (A & B & C); [lia|lia|].
      destruct (cut (nb - 1) lb t) as [[a o] b]; cbn [fst snd] in *.
      cbn [filter is_load]. auto.
    + destruct (Z.leb_spec lb 0).
      * cbn. replace (Z.to_nat lb) with O by lia. repeat split; auto. lia.
      * destruct (IH nb (lb - 1)) as (A & B & C); [lia|exact Hl|].
        destruct (cut nb (lb - 1) t) as [[a o] b]; cbn [fst snd] in *.
        replace (Z.to_nat lb) with (S (Z.to_nat (lb - 1))) by lia.
        cbn [filter is_load firstn length]. rewrite A. repeat split; auto.
        -- intros; apply B; lia.
        -- intros; apply C; lia.
Qed.

(* the unrestricted walk never reports a budget error *)
Definition not_budget (o : outcome) : Prop := o <> OErr WNodeBudget /\ o <> OErr WLinkBudget.

Lemma seqk_not_budget {A} (step : A -> list event * outcome) ks :
  (forall k, not_budget (snd (step k))) -> not_budget (snd (seqk step ks)).
Proof.
  intros H. induction ks as [|k r IH]; cbn.
  - split; discriminate.
  - specialize (H k). destruct (step k) as [e o]. destruct o; cbn in *; auto.
    destruct (seqk step r); cbn in *; auto.
Qed.

Lemma walk_not_budget q g f : forall ls P n s, not_budget (snd (walk q g f ls P n s)).
Proof.
  induction f as [|f IH]; intros.
  - cbn. split; discriminate.
  - rewrite walk_S. destruct (is_container n); [|cbn; split; discriminate].
    pose proof (seqk_not_budget (explore_step q g (walk q g f) ls P n s) (children q n s)) as H.
    destruct (seqk (explore_step q g (walk q g f) ls P n s) (children q n s)) as [e o]. cbn in *. apply H.
    intros k. unfold explore_step.
    destruct (explore q s n (fst k)) as [[s'|]| |]; cbn; try (split; discriminate).
    destruct (snd k); try apply IH.
    destruct (assoc c g); [|cbn; split; discriminate].
    specialize (IH (c :: ls) (P ++ [fst k]) d s').
    destruct (walk q g f (c :: ls) (P ++ [fst k]) d s'); cbn in *; exact IH.
Qed.

Theorem node_budget_prefix q g f N L root s :
  let U := walk_adv q g f root s in
  let R := cwalk_adv q no_ctl g f (Some (N, L)) root s in
  0 <= N -> Z.of_nat (length (loads (fst U))) <= L ->
  visits (fst R) = firstn (Z.to_nat N) (visits (fst U)) /\
  (exists r, fst U = fst R ++ r) /\
  (snd R = OErr WNodeBudget <-> N < Z.of_nat (length (visits (fst U)))) /\
  (Z.of_nat (length (visits (fst U))) <= N -> R = U).
Proof.
  intros U R H0 HL. subst R. rewrite budget_run. fold U. unfold cut_run.
  destruct (cut_node (fst U) N L H0 HL) as (A & B & C).
  destruct (cut_prefix (fst U) N L) as [r Hr].
  pose proof (walk_not_budget q g f [] [] root s) as [NB _]. fold (walk_adv q g f root s) in NB. fold U in NB.
  destruct (cut N L (fst U)) as [[t' [e|]] b] eqn:Ec; cbn [fst snd] in *.
  - split; [exact A|]. split; [exists r; exact Hr|]. split; [split|].
    + intros _. destruct (Z.lt_ge_cases N (Z.of_nat (length (visits (fst U))))) as [Hlt|Hge]; [exact Hlt|].
      specialize (B Hge). discriminate.
    + intros H. specialize (C H). congruence.
    + intros H. specialize (B H). discriminate.
  - pose proof (cut_none _ _ _ _ _ Ec) as Et. subst t'.
    split; [exact A|]. split; [exists []; rewrite app_nil_r; reflexivity|]. split; [split|].
    + intros H. contradiction.
    + intros H. specialize (C H). discriminate.
    + intros _. reflexivity.
Qed.

Theorem link_budget_prefix q g f N L root s :
  let U := walk_adv q g f root s in
  let R := cwalk_adv q no_ctl g f (Some (N, L)) root s in
  0 <= L -> Z.of_nat (length (visits (fst U))) <= N ->
  loads (fst R) = firstn (Z.to_nat L) (loads (fst U)) /\
  (exists r, fst U = fst R ++ r) /\
  (snd R = OErr WLinkBudget <-> L < Z.of_nat (length (loads (fst U)))) /\
  (Z.of_nat (length (loads (fst U))) <= L -> R = U).
Proof.
  intros U R H0 HL. subst R. rewrite budget_run. fold U. unfold cut_run.
  destruct (cut_link (fst U) N L H0 HL) as (A & B & C).
  destruct (cut_prefix (fst U) N L) as [r Hr].
  pose proof (walk_not_budget q g f [] [] root s) as [_ NB]. fold (walk_adv q g f root s) in NB. fold U in NB.
  destruct (cut N L (fst U)) as [[t' [e|]] b] eqn:Ec; cbn [fst snd] in *.
  - split; [exact A|]. split; [exists r; exact Hr|]. split; [split|].
    + intros _. destruct (Z.lt_ge_cases L (Z.of_nat (length (loads (fst U))))) as [Hlt|Hge]; [exact Hlt|].
      specialize (B Hge). discriminate.
    + intros H. specialize (C H). congruence.
    + intros H. specialize (B H). discriminate.
  - pose proof (cut_none _ _ _ _ _ Ec) as Et. subst t'.
    split; [exact A|]. split; [exists []; rewrite app_nil_r; reflexivity|]. split; [split|].
    + intros H. contradiction.
    + intros H. specialize (C H). discriminate.
    + intros _. reflexivity.
Qed.

