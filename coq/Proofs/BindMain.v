(* Proofs/BindMain.v — the C19 statements assembled from BindView / BindAsm / BindPure / BindRefute. *)
Require Import IP.Base.Bytes IP.DM.Value IP.Bind.GoVal IP.Bind.Bind IP.Bind.Spec.
Require Import IP.Proofs.BindFacts IP.Proofs.BindView IP.Proofs.BindAsm IP.Proofs.BindFits IP.Proofs.BindPure IP.Proofs.BindRefute.

Lemma unwrap_thm : forall q lv n32 t s d,
  bindable t s = true -> fits q lv n32 t s d = true ->
  exists g, asm q lv n32 t s (zero_of s) false d = Ok g
            /\ gv_ok q n32 t s g = true /\ denote lv t g = d
            /\ (is_any t = false -> view q lv t s g = Ok d).
Proof.
  intros q lv n32 t s d Hb Hf.
  pose proof (bindable_noptr _ _ Hb) as Hnp.
  assert (Hloc : loc_ok (fun _ => bindable t) t s = true) by (destruct s; simpl in *; try assumption; discriminate).
  assert (Hd : deref1 s = s) by (destruct s; simpl in *; try reflexivity; discriminate).
  rewrite <- Hd in Hf.
  destruct (asm_denote q n32 lv t s d Hloc Hf) as [g [Ha [Hok Hden]]].
  assert (Hok' : gv_ok q n32 t s g = true) by (unfold ok_loc in Hok; destruct s; simpl in *; try assumption; discriminate).
  exists g. repeat split; try assumption.
  intros Hany. rewrite (view_denote q lv n32 t Hany s g Hb Hok'). rewrite Hden. reflexivity.
Qed.

(* every call of every history gives what the same call gives on the initial state, and none ends
   in the duplicate-type-name panic *)
Definition pure_prop (q : quirks) : Prop :=
  forall n32 cs r,
    run q n32 r cs = map (fun c => snd (step q n32 registry0 c)) cs
    /\ forall c, snd (step q n32 r c) <> OFail PDup.

Lemma pure_repaired_thm : forall q, q_reuse_registered q = true -> pure_prop q.
Proof.
  intros q Hq n32 cs r. split.
  - exact (run_pure q n32 Hq cs r).
  - intros c. exact (step_never_dup q n32 Hq c r).
Qed.

Lemma pinned_not_pure : ~ pure_prop pinned.
Proof.
  intros H. destruct (rewrap_refuted (fun x => x)) as [c [Hne _]].
  destruct (H (fun x => x) [c; c] registry0) as [Heq _]. exact (Hne Heq).
Qed.

Example repaired_is_pure : pure_prop repaired.
Proof. apply pure_repaired_thm. reflexivity. Qed.

(* Marshal / Unmarshal without side condition: what a well-formed value denotes always fits *)
Lemma marshal_full_thm :
  forall q n32 (enc : dm -> bytes) (dec : bytes -> bres dm), (forall d, dec (enc d) = Ok d) ->
  forall t s g, is_any t = false -> bindable t s = true -> gv_ok q n32 t s g = true ->
  exists b g', marshal q enc t s g = Ok b /\ unmarshal q n32 dec t s b = Ok g' /\
               gv_ok q n32 t s g' = true /\ denote LRepr t g' = denote LRepr t g /\
               view q LRepr t s g' = view q LRepr t s g.
Proof.
  intros q n32 enc dec Hrt t s g Hany Hb Hg.
  apply (marshal_roundtrip q n32 enc dec Hrt t s g Hany Hb Hg).
  apply denote_fits; assumption.
Qed.

(* the same data is also what fits at type level: every well-formed value can be rebuilt from its view *)
Lemma rebuild_thm : forall q lv n32 t s g,
  bindable t s = true -> gv_ok q n32 t s g = true ->
  exists g', asm q lv n32 t s (zero_of s) false (denote lv t g) = Ok g'
             /\ gv_ok q n32 t s g' = true /\ denote lv t g' = denote lv t g.
Proof.
  intros q lv n32 t s g Hb Hg.
  destruct (unwrap_thm q lv n32 t s (denote lv t g) Hb (denote_fits q n32 lv t s g Hb Hg)) as [g' [Ha [Hok [Hden _]]]].
  exists g'. auto.
Qed.
