(* Proofs/TravDenoteWalk.v — C07 main theorem: walk (repaired model) = denote, for all well-formed runtime
   selectors, all graphs with unique map keys, all fuel. *)
Require Import IP.Base.Bytes IP.DM.Value IP.Base.GoSem IP.Trav.Selector IP.Trav.Walk IP.Trav.SelectorSpec
  IP.Trav.Path IP.Proofs.TravFacts IP.Proofs.TravSel IP.Proofs.TravStart IP.Proofs.TravPath IP.Proofs.TravSlice IP.Proofs.TravDenote.
From Coq Require Import Lia.
Open Scope Z_scope.

Definition keys_graph (g : list (bytes * dm)) : bool := forallb (fun cb => keys_ok (snd cb)) g.

Lemma keys_block g c b : keys_graph g = true -> assoc c g = Some b -> keys_ok b = true.
Proof.
  intros Hg Ha. destruct (assoc_In _ _ _ Ha) as [k' Hin].
  unfold keys_graph in Hg. rewrite forallb_forall in Hg. exact (Hg _ Hin).
Qed.

(* strings and byte strings shorter than 2^63 (every Go string is) *)
Fixpoint small_dm (v : dm) : bool :=
  match v with
  | DString s | DBytes s => len64 s <? two63
  | DList l => forallb small_dm l
  | DMap m => forallb (fun kv => small_dm (snd kv)) m
  | _ => true
  end.
Definition small_graph (g : list (bytes * dm)) : bool := forallb (fun cb => small_dm (snd cb)) g.

Lemma small_dm_top n : small_dm n = true -> small_top n.
Proof. destruct n; cbn; auto; intros H; apply Z.ltb_lt in H; exact H. Qed.

Lemma lookup_small n ps v : small_dm n = true -> lookup_seg n ps = Some v -> small_dm v = true.
Proof.
  intros Hk. unfold lookup_seg. destruct n; try discriminate.
  - destruct (seg_index ps); [|discriminate]. unfold list_at.
    destruct ((z <? 0) || (Z.of_nat (length l) <=? z))%bool; [discriminate|].
    intros H. apply nth_error_In in H. cbn in Hk. rewrite forallb_forall in Hk. apply Hk; exact H.
  - intros H. destruct (assoc_In _ _ _ H) as [k' Hin]. cbn in Hk.
    rewrite forallb_forall in Hk. apply (Hk _ Hin).
Qed.

Lemma small_block g c b : small_graph g = true -> assoc c g = Some b -> small_dm b = true.
Proof.
  intros Hg Ha. destruct (assoc_In _ _ _ Ha) as [k' Hin].
  unfold small_graph in Hg. rewrite forallb_forall in Hg. exact (Hg _ Hin).
Qed.

Section WD.
  Variable g : list (bytes * dm).
  Hypothesis Hg : keys_graph g = true.
  Hypothesis Hsg : small_graph g = true.

  Theorem walk_denote f : forall ls P n s,
    rt false s -> keys_ok n = true -> small_dm n = true ->
    walk repaired g f ls P n s = denote g f ls P n (rep s []).
  Proof.
    induction f as [|f IH]; intros ls P n s Hrt Hk Hsm; [reflexivity|].
    rewrite walk_S, denote_S. unfold visit_event. rewrite (match_rep s false [] n Hrt (small_dm_top n Hsm)).
    destruct (is_container n); [|reflexivity].
    rewrite <- (children_rep n s []).
    rewrite (seqk_ext_in (explore_step repaired g (walk repaired g f) ls P n s)
                         (denote_step g (denote g f) ls P n (rep s []))); [reflexivity|].
    intros [ps v] Hin.
    pose proof (children_lookup repaired n s ps v Hk Hin) as Hl.
    pose proof (lookup_keys_ok n ps v Hk Hl) as Hkv.
    pose proof (lookup_small n ps v Hsm Hl) as Hsv.
    destruct (explore_sstep s false [] n ps v Hrt Hl eq_refl) as (r & Er & Rr & Lr).
    unfold explore_step, denote_step; cbn [fst snd]. rewrite Er, <- Lr.
    destruct r as [s'|]; [|reflexivity].
    specialize (Rr s' eq_refl). cbn [lrep_opt]. rewrite (lrep_noedge s' [] (rt_closed s' Rr)).
    pose proof (rep_closed_nonempty s' [] Rr) as Hne.
    destruct (rep s' []) as [|t0 l0] eqn:Erep; [congruence|]. rewrite <- Erep.
    destruct v; try (apply IH; assumption).
    destruct (assoc c g) as [b|] eqn:Eb; [|reflexivity].
    rewrite (IH (c :: ls) (P ++ [ps]) b s' Rr (keys_block g c b Hg Eb) (small_block g c b Hsg Eb)). reflexivity.
  Qed.
End WD.

(* closed declared selectors: entering with live or dead edges is the same, and rep is enter *)
Lemma enter_closed s : forall fr, srcw false s -> enter s fr = enter0 s fr.
Proof.
  induction s as [sl|nx IH|fs IH|i nx IH|a b' nx IH|ms IH|sq cur lim stop IH1 IH2|] using sel_ind2;
    intros fr H; try reflexivity.
  - destruct ms as [|m ms]; [reflexivity|]. rewrite enter_union, enter0_union.
    inversion H as [| | | | |? ? Hms| |]; subst. revert IH Hms. generalize (m :: ms). intros l IH Hl.
    induction l as [|x t IHt]; [reflexivity|]. inversion IH as [|? ? Hx Ht]; subst.
    inversion Hl as [|? ? Sx St]; subst. cbn. rewrite Hx, IHt by assumption. reflexivity.
  - inversion H.
Qed.

Theorem walk_denote_sel g f root s :
  keys_graph g = true -> small_graph g = true -> keys_ok root = true -> small_dm root = true -> srcw false s ->
  walk_adv repaired g f root s = denote_sel g f root s.
Proof.
  intros Hg Hsg Hk Hsm Hs. unfold walk_adv, denote_sel.
  rewrite (walk_denote g Hg Hsg f [] [] root s (srcw_rt s false Hs) Hk Hsm).
  rewrite (rep_src s false [] Hs), (enter_closed s [] Hs). reflexivity.
Qed.
