(* Proofs/StoreCrash.v — C18: under ANY interleaving of any number of writers, cut anywhere,
   with any system call failing, every key path is absent or holds exactly a committed content. *)
Require Import IP.Base.Bytes IP.Base.GoSem IP.Gen.FromGo IP.Store.Storage IP.Store.FsStore IP.Store.FsCrash.
Require Import IP.Proofs.StoreBase IP.Proofs.StoreMem.
From Coq Require Import Lia List Bool Arith.
Import ListNotations.

(* ------------------------------------------------------------------ what a system call can do *)

Lemma removelast_length_le : forall {A} (l : list A), (length (removelast l) <= length l)%nat.
Proof. induction l; simpl; auto. destruct l; simpl in *; lia. Qed.

Definition read_only (s : sysc) : Prop :=
  match s with SStat _ | SLstat _ | SOpenRd _ | SClose _ => True | _ => False end.

Inductive eff (f : fs) : sysc -> fs -> res errno rv -> Prop :=
  | eff_none : forall s e, eff f s f (Err e)
  | eff_same : forall s v, read_only s -> eff f s f (Ok v)
  | eff_creat : forall p, p <> [] -> fs_lookup f p = None ->
      eff f (SCreat p) (fs_set f p (File [])) (Ok RVUnit)
  | eff_write : forall p c old, fs_lookup f p = Some (File old) -> p <> [] ->
      eff f (SWrite p c) (fs_set f p (File (old ++ c))) (Ok RVUnit)
  | eff_write_part : forall p c old n e, fs_lookup f p = Some (File old) -> p <> [] ->
      eff f (SWrite p c) (fs_set f p (File (old ++ firstn n c))) (Err e)
  | eff_rename : forall p q c, p <> [] -> q <> [] -> fs_lookup f p = Some (File c) ->
      eff f (SRename p q) (fs_set (fs_remove f p) q (File c)) (Ok RVUnit)
  | eff_mkdir : forall p, p <> [] -> fs_lookup f p = None ->
      eff f (SMkdir p) (fs_set f p Dir) (Ok RVUnit)
  | eff_unlink : forall p, p <> [] -> eff f (SUnlink p) (fs_remove f p) (Ok RVUnit).

Lemma resolve_none : forall f p, resolve f p = Ok None -> p <> [] /\ fs_lookup f p = None.
Proof.
  intros f p H. unfold resolve in H. destruct (has_nul p); try discriminate.
  destruct p as [|c p']; try discriminate. split; try discriminate.
  destruct (walk_from f [] (dirname (c :: p'))); try discriminate.
  destruct (name_max <? lenN (last_comp (c :: p')))%N; try discriminate. inversion H. auto.
Qed.

Lemma resolve_some : forall f p n, resolve f p = Ok (Some n) -> fs_lookup f p = Some n.
Proof.
  intros f p n H. unfold resolve in H. destruct (has_nul p); try discriminate.
  destruct p as [|c p']. { inversion H. auto. }
  destruct (walk_from f [] (dirname (c :: p'))); try discriminate.
  destruct (name_max <? lenN (last_comp (c :: p')))%N; try discriminate. inversion H. auto.
Qed.

Lemma lookup_file_nonnil : forall f p c, fs_lookup f p = Some (File c) -> p <> [].
Proof. intros f p c H E. subst. simpl in H. discriminate. Qed.

Lemma sys_exec_eff : forall f s, eff f s (fst (sys_exec f s)) (snd (sys_exec f s)).
Proof.
  intros f s. destruct s; simpl.
  - destruct (resolve f p) as [[n|]|e]; simpl; constructor; exact I.
  - destruct (resolve f p) as [[n|]|e]; simpl; constructor; exact I.
  - destruct (resolve f p) as [[n|]|e]; simpl; constructor; exact I.
  - destruct (resolve f p) as [[n|]|e] eqn:R; simpl; try (constructor; fail).
    apply resolve_none in R. destruct R. constructor; auto.
  - destruct (fs_lookup f p) as [[old|]|] eqn:L; simpl; try (constructor; fail).
    constructor; auto. eapply lookup_file_nonnil; eauto.
  - constructor. exact I.
  - destruct (resolve f p) as [[[c|]|]|e] eqn:R; simpl; try (constructor; fail).
    apply resolve_some in R.
    destruct (resolve f q) as [[[c'|]|]|e] eqn:R2; simpl; try (constructor; fail).
    + apply resolve_some in R2. constructor; auto; eapply lookup_file_nonnil; eauto.
    + apply resolve_none in R2. constructor; auto; try tauto. eapply lookup_file_nonnil; eauto.
  - destruct (resolve f p) as [[n|]|e] eqn:R; simpl; try (constructor; fail).
    apply resolve_none in R. destruct R. constructor; auto.
  - destruct (resolve f p) as [[[c|]|]|e] eqn:R; simpl; try (constructor; fail).
    apply resolve_some in R. constructor. eapply lookup_file_nonnil; eauto.
Qed.

Lemma fail_eff : forall f s part e, eff f s (fail_effect f s part) (Err e).
Proof.
  intros f s part e. destruct s; simpl; try (constructor; fail).
  destruct (fs_lookup f p) as [[old|]|] eqn:L; simpl; try (constructor; fail).
  constructor; auto. eapply lookup_file_nonnil; eauto.
Qed.

(* a rename refused across file systems (EXDEV) is one of the effects the invariant proof covers *)
Lemma sys_exec_x_eff : forall x f s, eff f s (fst (sys_exec_x x f s)) (snd (sys_exec_x x f s)).
Proof.
  intros x f s. unfold sys_exec_x. pose proof (sys_exec_eff f s) as E.
  destruct (sys_exec f s) as [f1 r]. simpl in E.
  destruct x; simpl; auto. destruct s; simpl; auto. destruct r; simpl; auto. constructor.
Qed.

(* ------------------------------------------------------------------ the setting *)

Section Crash.
  Variable cfg : fscfg.

  Definition keylen : nat := length (f_base cfg) + shard_depth (f_shard cfg) + 1.

  (* p is the path of key k, and k is a key the store can hold without the C17 defect biting:
     its (escaped) form has no '/', '.', NUL and is not empty *)
  Definition keypath (k : key) (p : path) : Prop :=
    wfb k /\ plain (enc_key cfg k) /\ key_len_ok (enc_key cfg k) /\ path_for_key cfg k = Some p.

  Definition in_staging (p : path) : Prop := exists name, p = stage_path (f_base cfg) name.

  Lemma keypath_shape : forall k p, keypath k p ->
    exists cs, p = f_base cfg ++ cs ++ [enc_key cfg k] /\ length cs = shard_depth (f_shard cfg) /\ Forall plain cs.
  Proof.
    intros k p [_ [P [L E]]]. destruct (path_for_key_plain cfg k L P) as [cs [E2 [L2 F]]].
    exists cs. rewrite E in E2. inversion E2. auto.
  Qed.

  Lemma keypath_length : forall k p, keypath k p -> length p = keylen.
  Proof.
    intros k p H. destruct (keypath_shape k p H) as [cs [E [L _]]]. subst p.
    rewrite !app_length. simpl. unfold keylen. lia.
  Qed.

  Lemma temp_not_plain : ~ plain temp_name.
  Proof. intros [_ H]. inversion H; subst. destruct H2 as [_ [X _]]. apply X. reflexivity. Qed.

  Lemma keypath_not_staging : forall k p, keypath k p -> ~ in_staging p.
  Proof.
    intros k p H [name E]. destruct (keypath_shape k p H) as [cs [E2 [L F]]]. rewrite E2 in E.
    unfold stage_path in E. apply app_inv_head in E.
    destruct cs as [|c1 [|c2 cs']]; simpl in E.
    - destruct (f_shard cfg); simpl in L; discriminate.
    - inversion E. subst. inversion F. apply temp_not_plain. auto.
    - inversion E. destruct cs'; discriminate.
  Qed.

  Lemma staging_nonnil : forall p, in_staging p -> p <> [].
  Proof. intros p [name E] X. subst. unfold stage_path in X. destruct (f_base cfg); discriminate. Qed.

  (* escaping applied and injective, or no escaping at all (then enc_key is the identity) *)
  Hypothesis enc_inj : forall k k', wfb k -> wfb k' -> enc_key cfg k = enc_key cfg k' -> k = k'.

  Lemma keypath_inj : forall k k' p, keypath k p -> keypath k' p -> k = k'.
  Proof.
    intros k k' p H H'. destruct (keypath_shape k p H) as [cs [E _]].
    destruct (keypath_shape k' p H') as [cs' [E' _]]. rewrite E in E'.
    apply app_inv_head in E'. apply app_inj_tail in E'.
    apply enc_inj; try tauto. apply H. apply H'.
  Qed.

  (* the contents that may legitimately be found under a key *)
  Variable C : key -> bytes -> Prop.

  (* ---------------------------------------------------------------- the invariant *)

  Definition stage_of (pc : wpc) : option path :=
    match pc with
    | WCreate _ _ | WDone _ => None
    | WWrite st _ | WClose st _ | WAbort st _ | WLstatNew st _ | WLstatOld st _ | WRename st _
    | WDirDown st _ _ | WDirUp st _ _ | WExist st => Some st
    end.

  Definition env_ok (w : writer) : Prop :=
    we_base (w_env w) = f_base cfg /\
    match we_dest (w_env w) with
    | Some d => keypath (w_key w) d /\ C (w_key w) (w_content w)
    | None => True
    end.

  Definition short (p : path) : Prop := (length p < keylen)%nat.

  Definition pc_ok (f : fs) (w : writer) : Prop :=
    match w_pc w with
    | WCreate _ cs => cs = w_chunks w
    | WWrite st rest => exists done, fs_lookup f st = Some (File done) /\ done ++ concat rest = w_content w
    | WClose st None => fs_lookup f st = Some (File (w_content w))
    | WLstatNew st _ | WLstatOld st _ | WRename st _ =>
        fs_lookup f st = Some (File (w_content w)) /\ we_dest (w_env w) <> None
    | WDirDown st p stack | WDirUp st p stack =>
        fs_lookup f st = Some (File (w_content w)) /\ we_dest (w_env w) <> None /\ short p /\ Forall short stack
    | WClose st (Some _) | WAbort st _ | WExist st => exists c, fs_lookup f st = Some (File c)
    | WDone _ => True
    end.

  Definition staged (w : writer) : Prop :=
    match stage_of (w_pc w) with Some st => in_staging st | None => True end.

  Record inv (f : fs) (ws : list writer) : Prop := {
    inv_files : forall p c, fs_lookup f p = Some (File c) ->
                  in_staging p \/ exists k, keypath k p /\ C k c;
    inv_dirs : forall p, fs_lookup f p = Some Dir -> short p;
    inv_w : forall i w, nth_error ws i = Some w -> env_ok w /\ pc_ok f w /\ staged w;
    inv_own : forall i j wi wj st, i <> j -> nth_error ws i = Some wi -> nth_error ws j = Some wj ->
                stage_of (w_pc wi) = Some st -> stage_of (w_pc wj) = Some st -> False
  }.

  Lemma pc_ok_has_file : forall f w st, pc_ok f w -> stage_of (w_pc w) = Some st ->
    exists c, fs_lookup f st = Some (File c).
  Proof.
    intros f w st H S. unfold pc_ok in H. destruct (w_pc w); simpl in S; inversion S; subst;
      try (destruct H as [c [H _]]; eauto; fail); try (destruct H as [H _]; eauto; fail); eauto.
    destruct after; eauto.
  Qed.

  Lemma pc_ok_ext : forall f f1 w,
    (forall st, stage_of (w_pc w) = Some st -> fs_lookup f1 st = fs_lookup f st) ->
    pc_ok f w -> pc_ok f1 w.
  Proof.
    intros f f1 w H P. unfold pc_ok in *. destruct (w_pc w); simpl in H; auto;
      try (rewrite (H _ eq_refl); auto; fail);
      try (destruct after); try (rewrite (H _ eq_refl); auto; fail);
      try (destruct P as [c P]; exists c; rewrite (H _ eq_refl); auto).
  Qed.

  (* THE THEOREM'S CONTENT: what the invariant says about key paths *)
  Theorem inv_atomic : forall f ws, inv f ws -> forall k p, keypath k p ->
    fs_lookup f p = None \/ exists c, fs_lookup f p = Some (File c) /\ C k c.
  Proof.
    intros f ws I k p K. destruct (fs_lookup f p) as [[c|]|] eqn:L; auto.
    - right. exists c. split; auto. destruct (inv_files _ _ I p c L) as [S|[k' [K' HC]]].
      + exfalso. eapply keypath_not_staging; eauto.
      + rewrite (keypath_inj k k' p K K'). auto.
    - exfalso. apply (inv_dirs _ _ I) in L. unfold short in L. rewrite (keypath_length k p K) in L. lia.
  Qed.

  (* staging files never sit on a key path *)
  Theorem inv_staging_disjoint : forall f ws i w st, inv f ws -> nth_error ws i = Some w ->
    stage_of (w_pc w) = Some st -> forall k p, keypath k p -> st <> p.
  Proof.
    intros f ws i w st I N S k p K E. subst p.
    destruct (inv_w _ _ I i w N) as [_ [_ G]]. unfold staged in G. rewrite S in G.
    eapply keypath_not_staging; eauto.
  Qed.

  (* ---------------------------------------------------------------- one step *)

  Lemma dirname_short : forall p, short p -> short (dirname p).
  Proof.
    intros p H. unfold short, dirname in *.
    pose proof (removelast_length_le p). lia.
  Qed.

  Lemma dirname_keypath_short : forall k p, keypath k p -> short (dirname p).
  Proof.
    intros k p K. destruct (keypath_shape k p K) as [cs [E [L _]]]. subst p.
    unfold dirname. rewrite app_assoc, removelast_last. unfold short, keylen. rewrite app_length.
    rewrite L. rewrite Nat.add_1_r. apply Nat.lt_succ_diag_r.
  Qed.

  (* the effect of writer i's step on everything that is not writer i's own program counter *)
  Record frame (f f1 : fs) (ws : list writer) (i : nat) : Prop := {
    fr_files : forall p c, fs_lookup f1 p = Some (File c) -> in_staging p \/ exists k, keypath k p /\ C k c;
    fr_dirs : forall p, fs_lookup f1 p = Some Dir -> short p;
    fr_others : forall j wj st, j <> i -> nth_error ws j = Some wj -> stage_of (w_pc wj) = Some st ->
                  fs_lookup f1 st = fs_lookup f st
  }.

  Lemma frame_refl : forall f ws i, inv f ws -> frame f f ws i.
  Proof. intros f ws i I. constructor; intros; auto. eapply inv_files; eauto. eapply inv_dirs; eauto. Qed.

  (* re-establish the invariant from a frame and the new state of writer i *)
  Lemma inv_step : forall f f1 ws i w pc',
    inv f ws -> nth_error ws i = Some w -> frame f f1 ws i ->
    pc_ok f1 (set_pc w pc') ->
    (match stage_of pc' with
     | Some st => in_staging st /\
                  (stage_of (w_pc w) = Some st \/
                   (forall j wj, j <> i -> nth_error ws j = Some wj -> stage_of (w_pc wj) <> Some st))
     | None => True end) ->
    inv f1 (upd ws i (set_pc w pc')).
  Proof.
    intros f f1 ws i w pc' I N F P S.
    assert (IL : (i < length ws)%nat) by (eapply nth_error_lt; eauto).
    constructor.
    - apply (fr_files _ _ _ _ F).
    - apply (fr_dirs _ _ _ _ F).
    - intros j wj Hj. destruct (Nat.eq_dec i j).
      + subst j. rewrite upd_nth_error_same in Hj by auto. inversion Hj; subst wj.
        destruct (inv_w _ _ I i w N) as [E _]. split; [exact E|]. split; [exact P|].
        unfold staged. simpl. destruct (stage_of pc'); tauto.
      + rewrite upd_nth_error_other in Hj by auto.
        destruct (inv_w _ _ I j wj Hj) as [E [Q G]]. split; auto. split; auto.
        eapply pc_ok_ext; [|exact Q]. intros st Hst. eapply fr_others; eauto.
    - intros a b wa wb st Hab Ha Hb Sa Sb.
      destruct (Nat.eq_dec i a); destruct (Nat.eq_dec i b); try lia.
      + subst a. rewrite upd_nth_error_same in Ha by auto. inversion Ha; subst wa. simpl in Sa.
        rewrite upd_nth_error_other in Hb by auto.
        rewrite Sa in S. destruct S as [_ [S|S]].
        * eapply (inv_own _ _ I i b w wb st); eauto.
        * eapply S; eauto.
      + subst b. rewrite upd_nth_error_same in Hb by auto. inversion Hb; subst wb. simpl in Sb.
        rewrite upd_nth_error_other in Ha by auto.
        rewrite Sb in S. destruct S as [_ [S|S]].
        * eapply (inv_own _ _ I i a w wa st); eauto.
        * eapply S; eauto.
      + rewrite upd_nth_error_other in Ha by auto. rewrite upd_nth_error_other in Hb by auto.
        eapply (inv_own _ _ I a b); eauto.
  Qed.

  (* frames for the four kinds of change *)
  Lemma frame_set_stage : forall f ws i w st c,
    inv f ws -> nth_error ws i = Some w -> in_staging st ->
    (forall j wj, j <> i -> nth_error ws j = Some wj -> stage_of (w_pc wj) <> Some st) ->
    frame f (fs_set f st (File c)) ws i.
  Proof.
    intros f ws i w st c I N S O. pose proof (staging_nonnil st S) as NN. constructor.
    - intros p c' L. destruct (path_eqb st p) eqn:E.
      + apply path_eqb_eq in E. subst p. auto.
      + apply path_eqb_neq in E. rewrite lookup_set_other in L by auto. eapply inv_files; eauto.
    - intros p L. destruct (path_eqb st p) eqn:E.
      + apply path_eqb_eq in E. subst p. rewrite lookup_set_same in L by auto. discriminate.
      + apply path_eqb_neq in E. rewrite lookup_set_other in L by auto. eapply inv_dirs; eauto.
    - intros j wj stj Hj Nj Sj. apply lookup_set_other. intros E. subst stj. eapply O; eauto.
  Qed.

  Lemma others_not_mine : forall f ws i w st, inv f ws -> nth_error ws i = Some w ->
    stage_of (w_pc w) = Some st ->
    forall j wj, j <> i -> nth_error ws j = Some wj -> stage_of (w_pc wj) <> Some st.
  Proof. intros f ws i w st I N S j wj Hj Nj Sj. eapply (inv_own _ _ I i j); eauto. Qed.

  Lemma others_not_absent : forall f ws i st, inv f ws -> fs_lookup f st = None ->
    forall j wj, j <> i -> nth_error ws j = Some wj -> stage_of (w_pc wj) <> Some st.
  Proof.
    intros f ws i st I L j wj Hj Nj Sj. destruct (inv_w _ _ I j wj Nj) as [_ [Q _]].
    destruct (pc_ok_has_file f wj st Q Sj) as [c X]. congruence.
  Qed.

  Lemma frame_remove_stage : forall f ws i w st,
    inv f ws -> nth_error ws i = Some w -> stage_of (w_pc w) = Some st ->
    frame f (fs_remove f st) ws i.
  Proof.
    intros f ws i w st I N S.
    destruct (inv_w _ _ I i w N) as [_ [_ G]]. unfold staged in G. rewrite S in G.
    pose proof (staging_nonnil st G) as NS.
    constructor.
    - intros p c' L. destruct (path_eqb st p) eqn:E.
      + apply path_eqb_eq in E. subst p. rewrite lookup_remove_same in L by auto. discriminate.
      + apply path_eqb_neq in E. rewrite lookup_remove_other in L by auto. eapply inv_files; eauto.
    - intros p L. destruct (path_eqb st p) eqn:E.
      + apply path_eqb_eq in E. subst p. rewrite lookup_remove_same in L by auto. discriminate.
      + apply path_eqb_neq in E. rewrite lookup_remove_other in L by auto. eapply inv_dirs; eauto.
    - intros j wj stj Hj Nj Sj. apply lookup_remove_other. intros E. subst stj.
      eapply (others_not_mine f ws i w st); eauto.
  Qed.

  Lemma frame_mkdir : forall f ws i p,
    inv f ws -> p <> [] -> fs_lookup f p = None -> short p -> frame f (fs_set f p Dir) ws i.
  Proof.
    intros f ws i p I NN L SH. constructor.
    - intros q c' X. destruct (path_eqb p q) eqn:E.
      + apply path_eqb_eq in E. subst q. rewrite lookup_set_same in X by auto. discriminate.
      + apply path_eqb_neq in E. rewrite lookup_set_other in X by auto. eapply inv_files; eauto.
    - intros q X. destruct (path_eqb p q) eqn:E.
      + apply path_eqb_eq in E. subst q. auto.
      + apply path_eqb_neq in E. rewrite lookup_set_other in X by auto. eapply inv_dirs; eauto.
    - intros j wj stj Hj Nj Sj. apply lookup_set_other. intros E. subst stj.
      eapply (others_not_absent f ws i p); eauto.
  Qed.

  Lemma frame_rename : forall f ws i w st d,
    inv f ws -> nth_error ws i = Some w -> stage_of (w_pc w) = Some st ->
    fs_lookup f st = Some (File (w_content w)) -> we_dest (w_env w) = Some d ->
    frame f (fs_set (fs_remove f st) d (File (w_content w))) ws i.
  Proof.
    intros f ws i w st d I N S L D.
    destruct (inv_w _ _ I i w N) as [[_ E] [_ G]]. rewrite D in E. destruct E as [K HC].
    unfold staged in G. rewrite S in G.
    assert (ND : d <> []). { intros X. subst. pose proof (keypath_length _ _ K). unfold keylen in H. simpl in H. lia. }
    assert (NS : st <> []) by (apply staging_nonnil; auto).
    constructor.
    - intros p c' X. destruct (path_eqb d p) eqn:E.
      + apply path_eqb_eq in E. subst p. rewrite lookup_set_same in X by auto. inversion X; subst.
        right. exists (w_key w). auto.
      + apply path_eqb_neq in E. rewrite lookup_set_other in X by auto.
        destruct (path_eqb st p) eqn:E2.
        * apply path_eqb_eq in E2. subst p. rewrite lookup_remove_same in X by auto. discriminate.
        * apply path_eqb_neq in E2. rewrite lookup_remove_other in X by auto. eapply inv_files; eauto.
    - intros p X. destruct (path_eqb d p) eqn:E.
      + apply path_eqb_eq in E. subst p. rewrite lookup_set_same in X by auto. discriminate.
      + apply path_eqb_neq in E. rewrite lookup_set_other in X by auto.
        destruct (path_eqb st p) eqn:E2.
        * apply path_eqb_eq in E2. subst p. rewrite lookup_remove_same in X by auto. discriminate.
        * apply path_eqb_neq in E2. rewrite lookup_remove_other in X by auto. eapply inv_dirs; eauto.
    - intros j wj stj Hj Nj Sj.
      assert (stj <> d).
      { intros X. subst stj. destruct (inv_w _ _ I j wj Nj) as [_ [_ Gj]]. unfold staged in Gj. rewrite Sj in Gj.
        eapply keypath_not_staging; eauto. }
      rewrite lookup_set_other by auto. apply lookup_remove_other. intros X. subst stj.
      eapply (others_not_mine f ws i w st); eauto.
  Qed.

  Lemma after_rename_ok : forall f1 w st second r,
    env_ok w -> fs_lookup f1 st = Some (File (w_content w)) -> we_dest (w_env w) <> None ->
    pc_ok f1 (set_pc w (after_rename (w_env w) st second r)) /\
    stage_of (after_rename (w_env w) st second r) = Some st \/
    pc_ok f1 (set_pc w (after_rename (w_env w) st second r)) /\
    stage_of (after_rename (w_env w) st second r) = None.
  Proof.
    intros f1 w st second r [_ E] L D. unfold after_rename. destruct r as [|e].
    - right. unfold pc_ok. simpl. auto.
    - destruct (negb second && is_enoent e).
      + left. unfold pc_ok. simpl. split; auto. repeat split; auto.
        unfold w_dest. destruct (we_dest (w_env w)) as [d|]; try congruence.
        eapply dirname_keypath_short. apply E.
      + destruct (is_exist e).
        * left. unfold pc_ok. simpl. eauto.
        * right. unfold pc_ok. simpl. auto.
  Qed.

  Lemma have_ret_ok : forall f1 w st r stack,
    fs_lookup f1 st = Some (File (w_content w)) -> we_dest (w_env w) <> None -> Forall short stack ->
    pc_ok f1 (set_pc w (have_ret st r stack)) /\
    (stage_of (have_ret st r stack) = Some st \/ stage_of (have_ret st r stack) = None).
  Proof.
    intros f1 w st r stack L D F. unfold have_ret. destruct r.
    - destruct stack; unfold pc_ok; simpl; auto. inversion F; subst. auto 6.
    - unfold pc_ok. simpl. auto.
  Qed.

  Lemma w_content_set_pc : forall w pc, w_content (set_pc w pc) = w_content w.
  Proof. reflexivity. Qed.

  Ltac pcok := unfold pc_ok; cbn [set_pc w_pc w_env stage_of]; rewrite ?w_content_set_pc.

  (* the common endings *)
  Lemma finish_keep : forall f f1 ws i w pc',
    inv f ws -> nth_error ws i = Some w -> frame f f1 ws i -> pc_ok f1 (set_pc w pc') ->
    (stage_of pc' = None \/ stage_of pc' = stage_of (w_pc w)) ->
    inv f1 (upd ws i (set_pc w pc')).
  Proof.
    intros f f1 ws i w pc' I N F P S. eapply inv_step; eauto.
    destruct (stage_of pc') as [st|] eqn:E; auto.
    destruct S as [S|S]; try discriminate.
    destruct (inv_w _ _ I i w N) as [_ [_ G]]. unfold staged in G. rewrite <- S in G. auto.
  Qed.

  Theorem step_inv : forall f ws i w s f1 r,
    inv f ws -> nth_error ws i = Some w -> w_next (w_env w) (w_pc w) = Some s -> eff f s f1 r ->
    inv f1 (upd ws i (set_pc w (w_step (w_env w) (w_pc w) r))).
  Proof.
    intros f ws i w s f1 r I N NX EF.
    destruct (inv_w _ _ I i w N) as [EO [PO SG]].
    pose proof EO as [EB ED].
    unfold pc_ok in PO. unfold staged in SG.
    destruct (w_pc w) as [tr chunks|st chunks|st after|st after|st second|st second|st second
                          |st p stack|st p stack|st|res] eqn:PC; simpl in NX; simpl in SG;
      try (injection NX as NX; subst s); try discriminate.
    - (* WCreate *)
      rewrite EB in *. subst chunks.
      assert (ST : in_staging (stage_path (f_base cfg) (we_names (w_env w) tr))) by (eexists; eauto).
      inversion EF; subst; cbn [w_step].
      + assert (X : forall pc', stage_of pc' = None -> pc_ok f1 (set_pc w pc') -> inv f1 (upd ws i (set_pc w pc'))).
        { intros pc' S1 P1. eapply finish_keep; eauto. apply frame_refl; auto. }
        destruct e; apply X; simpl; auto; pcok; auto.
      + simpl in H. contradiction.
      + assert (O : forall j wj, j <> i -> nth_error ws j = Some wj ->
                    stage_of (w_pc wj) <> Some (stage_path (f_base cfg) (we_names (w_env w) tr))).
        { eapply others_not_absent; eauto. }
        eapply inv_step; eauto.
        * eapply frame_set_stage; eauto.
        * unfold after_create. destruct (w_chunks w) eqn:WC; pcok; rewrite EB.
          -- rewrite lookup_set_same by auto. unfold w_content. rewrite WC. reflexivity.
          -- exists []. rewrite lookup_set_same by auto. unfold w_content. rewrite WC. auto.
        * rewrite EB. unfold after_create. destruct (w_chunks w); simpl; auto.
    - (* WWrite *)
      destruct PO as [done [L CT]].
      assert (NS : st <> []) by (apply staging_nonnil; auto).
      assert (O : forall j wj, j <> i -> nth_error ws j = Some wj -> stage_of (w_pc wj) <> Some st).
      { eapply others_not_mine; eauto. rewrite PC. reflexivity. }
      assert (EFF : exists c, eff f (SWrite st c) f1 r /\ done ++ c ++ concat (tl chunks) = w_content w).
      { destruct chunks as [|c rest]; injection NX as NX; subst s.
        - exists []. split; auto.
        - exists c. split; auto. }
      clear NX EF. destruct EFF as [c [EF CT2]].
      inversion EF; subst; cbn [w_step].
      + (* plain failure *)
        destruct (we_kind (w_env w)); eapply finish_keep; eauto; try (apply frame_refl; auto);
          pcok; eauto; rewrite PC; auto.
      + simpl in H. contradiction.
      + (* written *)
        rewrite L in H1. inversion H1; subst old.
        destruct (tl chunks) eqn:T; eapply finish_keep; eauto;
          try (eapply frame_set_stage; eauto); pcok; try (rewrite PC; auto).
        * rewrite lookup_set_same by auto. simpl in CT2. rewrite app_nil_r in CT2. rewrite CT2. auto.
        * exists (done ++ c). rewrite lookup_set_same by auto. split; auto.
          rewrite <- app_assoc. auto.
      + (* short write *)
        rewrite L in H1. inversion H1; subst old.
        destruct (we_kind (w_env w)); eapply finish_keep; eauto;
          try (eapply frame_set_stage; eauto); pcok; try (rewrite PC; auto).
        all: try (eexists; rewrite lookup_set_same by auto; reflexivity); auto.
    - (* WClose *)
      assert (FX : f1 = f) by (inversion EF; auto). subst f1.
      assert (HF : exists c, fs_lookup f st = Some (File c)) by (destruct after; eauto).
      cbn [w_step].
      assert (X : forall pc', (stage_of pc' = None \/ stage_of pc' = Some st) -> pc_ok f (set_pc w pc') ->
                  inv f (upd ws i (set_pc w pc'))).
      { intros pc' S1 P1. eapply finish_keep; eauto. apply frame_refl; auto. rewrite PC. auto. }
      destruct r as [v|e]; destruct after as [e0|]; apply X; simpl; auto; pcok; auto.
      + destruct (we_dest (w_env w)); simpl; auto.
      + destruct (we_dest (w_env w)) eqn:D; simpl; eauto. split; auto. congruence.
    - (* WAbort *)
      cbn [w_step].
      assert (X : inv f1 (upd ws i (set_pc w (WDone (match after with
                    | Some e0 => Err e0
                    | None => match r with
                              | Ok _ => if we_empty_ok (w_env w) then Ok tt else Err EEMPTYKEY
                              | Err e => Err e end end))))).
      { inversion EF; subst.
        - eapply finish_keep; eauto. apply frame_refl; auto. pcok; auto.
        - simpl in H. contradiction.
        - eapply finish_keep; eauto. eapply frame_remove_stage; eauto. rewrite PC. auto.
          pcok; auto. }
      destruct after; auto. destruct r; auto. destruct (we_empty_ok (w_env w)); auto.
    - (* WLstatNew *)
      assert (FX : f1 = f) by (inversion EF; auto). subst f1. cbn [w_step].
      assert (X : forall pc', stage_of pc' = Some st -> pc_ok f (set_pc w pc') -> inv f (upd ws i (set_pc w pc'))).
      { intros pc' S1 P1. eapply finish_keep; eauto. apply frame_refl; auto. rewrite PC. auto. }
      destruct r as [[|[c|]]|e]; apply X; simpl; auto.
    - (* WLstatOld *)
      assert (FX : f1 = f) by (inversion EF; auto). subst f1. cbn [w_step]. destruct PO as [L D].
      assert (X : forall r', inv f (upd ws i (set_pc w (after_rename (w_env w) st second r')))).
      { intros r'. destruct (after_rename_ok f w st second r' EO L D) as [[P1 S1]|[P1 S1]];
          eapply finish_keep; eauto; try (apply frame_refl; auto); rewrite PC; simpl; auto. }
      destruct r; apply X.
    - (* WRename *)
      cbn [w_step]. destruct PO as [L D].
      inversion EF; subst.
      + destruct (after_rename_ok f1 w st second (Err e) EO L D) as [[P1 S1]|[P1 S1]];
          eapply finish_keep; eauto; try (apply frame_refl; auto); rewrite PC; simpl; auto.
      + simpl in H. contradiction.
      + rewrite L in H5. inversion H5; subst c. simpl.
        unfold w_dest in *. destruct (we_dest (w_env w)) as [d|] eqn:DD; try congruence.
        eapply finish_keep; eauto. eapply frame_rename; eauto. rewrite PC. auto.
        pcok. auto.
    - (* WDirDown *)
      cbn [w_step]. destruct PO as [L [D [SP SS]]].
      inversion EF; subst.
      + assert (G : forall r', inv f1 (upd ws i (set_pc w (have_ret st r' stack)))).
        { intros r'. destruct (have_ret_ok f1 w st r' stack L D SS) as [P1 S1].
          eapply finish_keep; [exact I|exact N|apply frame_refl; auto|exact P1|].
          rewrite PC. simpl. tauto. }
        destruct e; try (apply G).
        eapply finish_keep; [exact I|exact N|apply frame_refl; auto| |].
        * pcok. repeat split; auto. apply dirname_short; auto.
        * rewrite PC. simpl. auto.
      + simpl in H. contradiction.
      + assert (L1 : fs_lookup (fs_set f p Dir) st = Some (File (w_content w))).
        { rewrite lookup_set_other; auto. intros X. subst. congruence. }
        destruct (have_ret_ok (fs_set f p Dir) w st (mkdir_res (w_env w) (strip (Ok RVUnit))) stack L1 D SS) as [P1 S1].
        eapply finish_keep; [exact I|exact N|eapply frame_mkdir; eauto|exact P1|].
        rewrite PC. simpl. tauto.
    - (* WDirUp *)
      cbn [w_step]. destruct PO as [L [D [SP SS]]].
      inversion EF; subst.
      + destruct (have_ret_ok f1 w st (mkdir_res (w_env w) (strip (Err e))) stack L D SS) as [P1 S1].
        eapply finish_keep; [exact I|exact N|apply frame_refl; auto|exact P1|].
        rewrite PC. simpl. tauto.
      + simpl in H. contradiction.
      + assert (L1 : fs_lookup (fs_set f p Dir) st = Some (File (w_content w))).
        { rewrite lookup_set_other; auto. intros X. subst. congruence. }
        destruct (have_ret_ok (fs_set f p Dir) w st (mkdir_res (w_env w) (strip (Ok RVUnit))) stack L1 D SS) as [P1 S1].
        eapply finish_keep; [exact I|exact N|eapply frame_mkdir; eauto|exact P1|].
        rewrite PC. simpl. tauto.
    - (* WExist *)
      cbn [w_step]. inversion EF; subst.
      + eapply finish_keep; [exact I|exact N|apply frame_refl; auto| |]; [pcok; auto|simpl; auto].
      + simpl in H. contradiction.
      + eapply finish_keep; [exact I|exact N|eapply frame_remove_stage; eauto; rewrite PC; auto| |];
          [pcok; auto|simpl; auto].
  Qed.

  Lemma exec_ev_inv : forall f ws e, inv f ws -> inv (fst (exec_ev f ws e)) (snd (exec_ev f ws e)).
  Proof.
    intros f ws e I. destruct e as [i|i err part]; simpl.
    - destruct (nth_error ws i) as [w|] eqn:N; simpl; auto.
      destruct (w_next (w_env w) (w_pc w)) as [s|] eqn:NX; simpl; auto.
      pose proof (sys_exec_eff f s) as EF. destruct (sys_exec f s) as [f1 r]. simpl in *.
      eapply step_inv; eauto.
    - destruct (nth_error ws i) as [w|] eqn:N; simpl; auto.
      destruct (w_next (w_env w) (w_pc w)) as [s|] eqn:NX; simpl; auto.
      eapply step_inv; eauto. apply fail_eff.
  Qed.

  Theorem exec_inv : forall sched f ws, inv f ws -> inv (fst (exec f ws sched)) (snd (exec f ws sched)).
  Proof.
    induction sched; intros f ws I; simpl; auto.
    pose proof (exec_ev_inv f ws a I) as I1.
    destruct (exec_ev f ws a) as [f1 ws1]. simpl in I1. apply IHsched. auto.
  Qed.
End Crash.
