(* Proofs/BindView.v — reading is faithful: on a bindable (schema type, Go type) pair and a well
   formed Go value, the node view computed along bindnode's code paths (with their panics and
   errors) succeeds and equals the denotation of the value, at type level and at representation
   level. *)
Require Import IP.Base.Bytes IP.DM.Value IP.Bind.GoVal IP.Bind.Bind IP.Bind.Spec IP.Proofs.BindFacts.
Open Scope N_scope.

Section ViewFaithful.
  Variable q : quirks.
  Variable lv : level.
  Variable n32 : N -> N.

  Definition view_spec (t : sty) : Prop :=
    is_any t = false ->
    forall s g, bindable t s = true -> gv_ok q n32 t s g = true -> view q lv t s g = Ok (denote lv t g).

  (* the Any short-cut *)
  Lemma any_node_ok : forall s g, bindable TAny s = true -> gv_ok q n32 TAny s g = true ->
    any_node s g = Ok (denote lv TAny g).
  Proof.
    intros s g Hb Hg. destruct s; simpl in Hb; try discriminate.
    destruct g; simpl in Hg; try discriminate. reflexivity.
  Qed.

  Lemma direct_view : forall t s g, view_spec t -> bindable t s = true -> gv_ok q n32 t s g = true ->
    (if is_any t then any_node s g else view q lv t s g) = Ok (denote lv t g).
  Proof.
    intros t s g IH Hb Hg. destruct (is_any t) eqn:Ha.
    - destruct t; simpl in Ha; try discriminate. apply any_node_ok; assumption.
    - apply IH; assumption.
  Qed.

  (* through one pointer *)
  Lemma loc_view : forall t s g, view_spec t ->
    loc_ok (fun _ => bindable t) t s = true -> ok_loc (gv_ok q n32 t) s g = true ->
    (if is_any t then any_node s g else view q lv t s g) = Ok (denote lv t g).
  Proof.
    intros t s g IH Hl Hg. destruct s; try (apply direct_view; assumption).
    simpl in Hl. apply andb3 in Hl. destruct Hl as [Hb [_ _]].
    destruct g; simpl in Hg; try discriminate.
    pose proof (bindable_noptr _ _ Hb) as Hnp.
    pose proof (direct_view t s g IH Hb Hg) as H.
    rewrite (denote_ptr lv t g) by (intros w ->; rewrite gv_ok_noptr in Hg; discriminate).
    destruct (is_any t).
    - unfold any_node in *. simpl. rewrite (nonptr_noptr s g Hnp) in H. exact H.
    - rewrite view_ptr by assumption. exact H.
  Qed.

  Lemma nilable_of_nullable_ok : forall t s, nullable_ok (fun _ => bindable t) t s = true -> shape_nilable s = true.
  Proof. intros t s H; destruct s as [| | | | |k| | | | |]; simpl in *; try discriminate; try reflexivity; destruct k; simpl in *; try discriminate; reflexivity. Qed.

  Lemma child_view : forall strict t (nl : bool) s g, view_spec t ->
    (if nl then nullable_ok (fun _ => bindable t) t s else loc_ok (fun _ => bindable t) t s) = true ->
    ok_child (gv_ok q n32 t) nl s g = true ->
    view_child (view q lv t) strict (is_any t) nl s g = Ok (den_child (denote lv t) nl g).
  Proof.
    intros strict t nl s g IH Hs Hg. unfold view_child, den_child, ok_child in *.
    destruct nl.
    - pose proof (nilable_of_nullable_ok _ _ Hs) as Hn.
      unfold is_nil. rewrite Hn. simpl.
      destruct s as [| | | | |k| | s1 | | |]; simpl in Hs; try discriminate.
      + (* nullable link interface *)
        destruct k; try discriminate.
        assert (t = TLink) by (destruct t; simpl in Hs; try discriminate; reflexivity). subst t.
        destruct g; simpl in Hg; try discriminate; destruct strict; reflexivity.
      + (* nullable Any *)
        assert (t = TAny) by (destruct t; simpl in Hs; try discriminate; reflexivity). subst t.
        destruct g; simpl in Hg; try discriminate; destruct strict; reflexivity.
      + (* pointer *)
        apply andb3 in Hs. destruct Hs as [Hb [_ _]].
        destruct g; simpl in Hg; try discriminate; try reflexivity.
        assert (Hsg : (do sg <- (if strict then elem_strict (SPtr s1) (GPtr g) else Ok (elem_if_ptr (SPtr s1) (GPtr g)));
                       if is_any t then any_node (fst sg) (snd sg) else view q lv t (fst sg) (snd sg))
                      = (if is_any t then any_node s1 g else view q lv t s1 g)).
        { destruct strict; reflexivity. }
        rewrite Hsg. simpl. apply direct_view; assumption.
    - rewrite <- (loc_view t s g IH Hs Hg). destruct (is_any t); reflexivity.
  Qed.

  Definition field_here (f : fld) (s : shape) (g : gv) : bres (option dm) :=
    if f_opt f then
       do n <- is_nil s g;
       if n then Ok None else
       let sg := elem_if_ptr s g in
       do d <- view_child (view q lv (f_type f)) false (is_any (f_type f)) (f_nul f) (fst sg) (snd sg); Ok (Some d)
     else
       do d <- view_child (view q lv (f_type f)) false (is_any (f_type f)) (f_nul f) s g; Ok (Some d).

  (* struct fields *)
  Lemma field_view : forall f s g, view_spec (f_type f) ->
    field_ok (fun _ => bindable (f_type f)) (f_type f) (f_opt f) (f_nul f) s = true ->
    ok_field (gv_ok q n32 (f_type f)) (f_opt f) (f_nul f) s g = true ->
    field_here f s g
    = Ok (den_field (denote lv (f_type f)) (f_opt f) (f_nul f) g).
  Proof.
    intros f s g IH Hs Hg. unfold field_here, field_ok, ok_field, den_field in *.
    set (t := f_type f) in *.
    destruct (f_opt f); destruct (f_nul f).
    - (* optional nullable: double pointer *)
      destruct s as [| | | | | | | s1 | | |]; try discriminate.
      apply andb_prop in Hs. destruct Hs as [Hs Hp].
      destruct s1 as [| | | | | | | s2 | | |]; simpl in Hp; try discriminate.
      destruct g; try discriminate; try reflexivity.
      cbn [is_nil shape_nilable bind elem_if_ptr fst snd unptr].
      rewrite (child_view false t true (SPtr s2) g IH Hs Hg). reflexivity.
    - (* optional *)
      destruct s as [| | | | | [| |] | | s1 | | |]; try discriminate.
      + (* optional Link interface *)
        assert (t = TLink) by (destruct t; simpl in Hs; try discriminate; reflexivity).
        destruct g; simpl in *; try reflexivity; rewrite H in *; simpl in *; try discriminate; reflexivity.
      + (* optional Any *)
        assert (t = TAny) by (destruct t; simpl in Hs; try discriminate; reflexivity).
        destruct g; simpl in *; try reflexivity; rewrite H in *; simpl in *; try discriminate; reflexivity.
      + (* optional pointer *)
        destruct g; try discriminate; try reflexivity.
        cbn [is_nil shape_nilable bind elem_if_ptr fst snd unptr]. unfold ok_child in Hg.
        pose proof (bindable_noptr _ _ Hs) as Hnp.
        assert (Hl : loc_ok (fun _ => bindable t) t s1 = true).
        { destruct s1; simpl in *; try assumption; discriminate. }
        rewrite (child_view false t false s1 g IH Hl).
        * reflexivity.
        * exact Hg.
    - (* nullable *)
      rewrite (child_view false t true s g IH Hs Hg). reflexivity.
    - rewrite (child_view false t false s g IH Hs Hg). reflexivity.
  Qed.

  Lemma view_fields_cons : forall f fs sn s ss g gs,
    view_fields (fun f => view q lv (f_type f)) (f :: fs) ((sn, s) :: ss) (g :: gs)
    = do here <- field_here f s g;
      do rest <- view_fields (fun f => view q lv (f_type f)) fs ss gs;
      Ok (match here with Some d => (f, d) :: rest | None => rest end).
  Proof. reflexivity. Qed.

  Lemma view_tuple_cons : forall f fs sn s ss g gs,
    view_tuple (fun f => view q lv (f_type f)) (f :: fs) ((sn, s) :: ss) (g :: gs)
    = do here <- field_here f s g;
      do rest <- view_tuple (fun f => view q lv (f_type f)) fs ss gs;
      Ok (match here, rest with
          | Some d, _ => d :: rest
          | None, [] => []
          | None, _ => DNull :: rest
          end).
  Proof. reflexivity. Qed.

  Lemma fields_view : forall fs ss gs,
    Forall (fun f => view_spec (f_type f)) fs ->
    fields_bindable (fun f => bindable (f_type f)) fs ss = true ->
    ok_fields (fun f => gv_ok q n32 (f_type f)) fs ss gs = true ->
    view_fields (fun f => view q lv (f_type f)) fs ss gs
    = Ok (den_fields (fun f => denote lv (f_type f)) fs gs).
  Proof.
    induction fs as [|f fs IHfs]; intros ss gs HF Hb Hg.
    - destruct ss, gs; simpl in *; try discriminate; reflexivity.
    - destruct ss as [|[sn s] ss]; simpl in Hb; try discriminate.
      destruct gs as [|g gs]; simpl in Hg; try discriminate.
      apply andb_prop in Hb; destruct Hb as [Hb1 Hb2].
      apply andb_prop in Hg; destruct Hg as [Hg1 Hg2].
      inversion HF as [|? ? HF1 HF2]; subst.
      rewrite view_fields_cons.
      rewrite (field_view f s g HF1 Hb1 Hg1). cbn [bind].
      rewrite (IHfs ss gs HF2 Hb2 Hg2). cbn [bind den_fields].
      destruct (den_field (denote lv (f_type f)) (f_opt f) (f_nul f) g); reflexivity.
  Qed.

  Lemma tuple_view : forall fs ss gs,
    Forall (fun f => view_spec (f_type f)) fs ->
    fields_bindable (fun f => bindable (f_type f)) fs ss = true ->
    ok_fields (fun f => gv_ok q n32 (f_type f)) fs ss gs = true ->
    view_tuple (fun f => view q lv (f_type f)) fs ss gs
    = Ok (den_tuple (fun f => denote lv (f_type f)) fs gs).
  Proof.
    induction fs as [|f fs IHfs]; intros ss gs HF Hb Hg.
    - destruct ss, gs; simpl in *; try discriminate; reflexivity.
    - destruct ss as [|[sn s] ss]; simpl in Hb; try discriminate.
      destruct gs as [|g gs]; simpl in Hg; try discriminate.
      apply andb_prop in Hb; destruct Hb as [Hb1 Hb2].
      apply andb_prop in Hg; destruct Hg as [Hg1 Hg2].
      inversion HF as [|? ? HF1 HF2]; subst.
      rewrite view_tuple_cons.
      rewrite (field_view f s g HF1 Hb1 Hg1). cbn [bind].
      rewrite (IHfs ss gs HF2 Hb2 Hg2). cbn [bind den_tuple].
      destruct (den_field (denote lv (f_type f)) (f_opt f) (f_nul f) g); [reflexivity|].
      destruct (den_tuple (fun f0 : fld => denote lv (f_type f0)) fs gs); reflexivity.
  Qed.
  (* unions: both sides take the first non-nil member *)
  Lemma with_nth_app : forall {A R} (body : A -> R) none (pre : list A) m rest,
    with_nth body none (pre ++ m :: rest) (length pre) = body m.
  Proof. intros A R body none pre; induction pre; simpl; intros; [reflexivity | apply IHpre]. Qed.

  Lemma with_nth_ext : forall {A R} (b1 b2 : A -> R) none l i,
    (forall m, b1 m = b2 m) -> with_nth b1 none l i = with_nth b2 none l i.
  Proof.
    intros A R b1 b2 none l; induction l; intros i H; destruct i; simpl; auto.
  Qed.

  Lemma union_view : forall (wrapm : bytes * sty -> dm -> dm) e ms pre ss gs seen,
    Forall (fun m => view_spec (snd m)) ms ->
    members_bindable (fun m => bindable (snd m)) ms ss = true ->
    ok_members (fun m => gv_ok q n32 (snd m)) ms ss gs seen = true -> seen = false ->
    (do m <- union_member ss gs (length pre);
     match m with
     | None => Err e
     | Some (i, ms1, mv) =>
         with_nth (fun m : bytes * sty => do d <- view q lv (snd m) ms1 mv; Ok (wrapm m d)) (Err PReflect) (pre ++ ms) i
     end) = Ok (den_union (fun m => denote lv (snd m)) wrapm ms gs).
  Proof.
    induction ms as [|m ms IHms]; intros pre ss gs seen HF Hb Hg Hseen.
    - destruct ss, gs; simpl in Hg; try discriminate. congruence.
    - destruct ss as [|[sn s] ss]; simpl in Hb; try discriminate.
      destruct s as [| | | | | | | s1 | | |]; try discriminate.
      destruct gs as [|g gs]; simpl in Hg; try discriminate.
      apply andb3 in Hb. destruct Hb as [Hb1 [Hany Hb2]].
      inversion HF as [|? ? HF1 HF2]; subst.
      destruct g; try discriminate.
      + (* nil: keep looking *)
        cbn [union_member den_union].
        replace (pre ++ m :: ms) with ((pre ++ [m]) ++ ms) by (rewrite <- app_assoc; reflexivity).
        replace (S (length pre)) with (length (pre ++ [m])) by (rewrite app_length; simpl; lia).
        apply (IHms (pre ++ [m]) ss gs false); auto.
      + (* the member *)
        cbn [union_member den_union bind]. rewrite with_nth_app.
        apply andb3 in Hg. destruct Hg as [_ [Hg1 _]].
        rewrite (HF1 (proj1 (negb_true_iff _) Hany) s1 g Hb1 Hg1). reflexivity.
  Qed.

  Lemma view_int_ok : forall k z, int_ok q k z = true -> view_int q k z = Ok (DInt z).
  Proof.
    intros k z H. unfold int_ok in H. apply andb_prop in H. destruct H as [_ H].
    destruct k; try reflexivity. unfold view_int.
    destruct (q_uint_kind q); [reflexivity|]. simpl in H. rewrite H. reflexivity.
  Qed.

  Lemma bindable_map_inv : forall n kt vt (nl : bool) s, bindable (TMap n kt vt nl) s = true ->
    exists sn k1 n1 k2 mv,
      s = SStruct sn [(k1, SSlice n1 SString); (k2, SGoMap SString mv)] /\ kt = TString /\
      (if nl then nullable_ok (fun _ => bindable vt) vt mv else loc_ok (fun _ => bindable vt) vt mv) = true.
  Proof.
    intros n kt vt nl s H.
    destruct s as [| | | | | | | | |sn fs|]; simpl in H; try discriminate.
    destruct fs as [|[k1 s1] fs]; try discriminate.
    destruct fs as [|[k2 s2] fs]; try (destruct s1 as [| | | | | | | |? [| | | | | | | | | |]| |]; discriminate).
    destruct s1 as [| | | | | | | |n1 ks| |]; try discriminate.
    destruct ks; try discriminate.
    destruct s2 as [| | | | | | | | | |mk mv]; try discriminate.
    destruct mk; try discriminate.
    destruct fs; try discriminate.
    apply andb_prop in H. destruct H as [Hk Hv].
    destruct kt; try discriminate.
    exists sn, k1, n1, k2, mv. auto.
  Qed.

  Lemma view_struct_unfold : forall n fs r sn ss gs,
    view q lv (TStruct n fs r) (SStruct sn ss) (GStruct gs) =
    match lv, r with
    | LRepr, SRTuple => do ds <- view_tuple (fun f => view q lv (f_type f)) fs ss gs; Ok (DList ds)
    | LRepr, SRMap =>
        do es <- view_fields (fun f => view q lv (f_type f)) fs ss gs; Ok (DMap (map (fun e => (f_rkey (fst e), snd e)) es))
    | LType, _ =>
        do es <- view_fields (fun f => view q lv (f_type f)) fs ss gs; Ok (DMap (map (fun e => (f_name (fst e), snd e)) es))
    end.
  Proof. reflexivity. Qed.

  Lemma denote_struct_unfold : forall n fs r gs,
    denote lv (TStruct n fs r) (GStruct gs) =
    match lv, r with
    | LRepr, SRTuple => DList (den_tuple (fun f => denote lv (f_type f)) fs gs)
    | LRepr, SRMap =>
        DMap (map (fun e => (f_rkey (fst e), snd e)) (den_fields (fun f => denote lv (f_type f)) fs gs))
    | LType, _ =>
        DMap (map (fun e => (f_name (fst e), snd e)) (den_fields (fun f => denote lv (f_type f)) fs gs))
    end.
  Proof. reflexivity. Qed.

  Lemma view_union_unfold : forall n ms r sn ss gs,
    view q lv (TUnion n ms r) (SStruct sn ss) (GStruct gs) =
    do m <- union_member ss gs O;
    match m with
    | None => match lv, r with
              | LRepr, URKinded | LRepr, URStringprefix => Err PReflect
              | _, _ => Err XUnion
              end
    | Some (i, ms1, mv) =>
        with_nth
          (fun m : bytes * sty =>
             do d <- view q lv (snd m) ms1 mv;
             match lv, r with
             | LRepr, URKinded => Ok d
             | LRepr, URKeyed => Ok (DMap [(fst m, d)])
             | LRepr, URStringprefix => match d with DString x => Ok (DString (fst m ++ x)) | _ => Err XWrongKind end
             | LType, _ => Ok (DMap [(sty_name (snd m), d)])
             end)
          (Err PReflect) ms i
    end.
  Proof. reflexivity. Qed.

  Lemma denote_union_unfold : forall n ms r gs,
    denote lv (TUnion n ms r) (GStruct gs) =
    den_union (fun m => denote lv (snd m))
              (fun m d => match lv, r with
                          | LRepr, URKinded => d
                          | LRepr, URKeyed => DMap [(fst m, d)]
                          | LRepr, URStringprefix => match d with DString x => DString (fst m ++ x) | _ => DNull end
                          | LType, _ => DMap [(sty_name (snd m), d)]
                          end) ms gs.
  Proof. reflexivity. Qed.

  Theorem view_denote : forall t, view_spec t.
  Proof.
    induction t using sty_ind2; unfold view_spec; intros Hany s g Hb Hg.
    - (* bool *) destruct s; simpl in Hb; try discriminate; destruct g; simpl in Hg; try discriminate; reflexivity.
    - (* int *)
      destruct s; simpl in Hb; try discriminate; destruct g; simpl in Hg; try discriminate.
      simpl. apply view_int_ok; assumption.
    - destruct s as [| |single| | | | | | | |]; simpl in Hb; try discriminate;
        destruct single; destruct g; simpl in Hg; try discriminate; reflexivity.
    - destruct s; simpl in Hb; try discriminate; destruct g; simpl in Hg; try discriminate; reflexivity.
    - destruct s; simpl in Hb; try discriminate; destruct g; simpl in Hg; try discriminate; reflexivity.
    - destruct s; simpl in Hb; try discriminate; destruct g; simpl in Hg; try discriminate; reflexivity.
    - discriminate.
    - (* list *)
      destruct s as [| | | | | | | |sn es| |]; simpl in Hb; try discriminate.
      destruct g; simpl in Hg; try discriminate; [reflexivity|].
      simpl.
      rewrite (mapM_ok _ (den_child (denote lv t) nl) l).
      + reflexivity.
      + apply forallb_Forall in Hg. eapply Forall_impl; [|exact Hg].
        intros x Hx. apply child_view; assumption.
    - (* map *)
      destruct (bindable_map_inv _ _ _ _ _ Hb) as [sn [k1 [n1 [k2 [mv [-> [-> Hv]]]]]]].
      destruct g as [| | | | | | | | | |gs|]; simpl in Hg; try discriminate.
      destruct gs as [|gk gs]; try discriminate.
      destruct gs as [|gm gs]; try discriminate.
      destruct gs; try discriminate.
      repeat (apply andb_prop in Hg; destruct Hg as [Hg ?]).
      simpl.
      set (keys := match gk with GSlice l => l | _ => [] end) in *.
      set (m := match gm with GGoMap m => m | _ => [] end) in *.
      rewrite (mapM_ok _ (fun k => (match denote lv TString k with DString b => b | _ => [] end,
                                   match gomap_get k m with
                                   | Some v => den_child (denote lv t2) nl v
                                   | None => DNull
                                   end)) keys).
      + reflexivity.
      + apply forallb_Forall in H. apply forallb_Forall in H0.
        rewrite Forall_forall in *. intros k Hk.
        specialize (H k Hk). specialize (H0 k Hk).
        destruct k; try discriminate. simpl.
        destruct (gomap_get (GString s) m) as [v|]; try discriminate.
        rewrite (child_view true t2 nl mv v IHt2 Hv H). reflexivity.
    - (* struct *)
      destruct s as [| | | | | | | | |sn ss|]; simpl in Hb; try discriminate.
      apply andb_prop in Hb. destruct Hb as [Hb Hr].
      apply andb3 in Hb. destruct Hb as [Hb [_ _]].
      destruct g as [| | | | | | | | | |gs|]; simpl in Hg; try discriminate.
      rewrite view_struct_unfold, denote_struct_unfold.
      rewrite (fields_view fs ss gs H Hb Hg), (tuple_view fs ss gs H Hb Hg). cbn [bind].
      destruct lv; destruct r; reflexivity.
    - (* union *)
      destruct s as [| | | | | | | | |sn ss|]; simpl in Hb; try discriminate.
      apply andb_prop in Hb. destruct Hb as [Hb Hrw].
      assert (Hr : r <> URStringprefix) by (intros ->; discriminate).
      apply andb3 in Hb. destruct Hb as [Hb [_ _]].
      destruct g as [| | | | | | | | | |gs|]; simpl in Hg; try discriminate.
      rewrite view_union_unfold, denote_union_unfold.
      set (wrapm := fun (m : bytes * sty) (d : dm) =>
                      match lv, r with
                      | LRepr, URKinded => d
                      | LRepr, URKeyed => DMap [(fst m, d)]
                      | LRepr, URStringprefix => match d with DString x => DString (fst m ++ x) | _ => DNull end
                      | LType, _ => DMap [(sty_name (snd m), d)]
                      end).
      set (e := match lv, r with LRepr, URKinded | LRepr, URStringprefix => PReflect | _, _ => XUnion end).
      rewrite <- (union_view wrapm e ms [] ss gs false H Hb Hg eq_refl).
      cbn [length app].
      destruct (union_member ss gs 0) as [[[[i ms1] mv]|]|]; cbn [bind]; try reflexivity.
      + apply with_nth_ext. intros m.
        destruct (view q lv (snd m) ms1 mv); cbn [bind]; [|reflexivity].
        unfold wrapm; destruct lv; destruct r; try reflexivity; congruence.
      + unfold e; destruct lv; destruct r; reflexivity.
    - (* enum *)
      destruct s; simpl in Hb; try discriminate.
      destruct g as [| | |x| | | | | | | |]; simpl in Hg; try discriminate.
      simpl. unfold view_enum, den_enum.
      destruct (enum_by_name x ms) as [[sr ir]|] eqn:E; try discriminate.
      destruct lv; [reflexivity|]. destruct r; rewrite ?E; reflexivity.
  Qed.
End ViewFaithful.
