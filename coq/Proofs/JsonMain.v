(* Proofs/JsonMain.v — C04 assembled: decode (encode v) = Ok (sort v) for json_safe values outside
   the integral-float class, determinism, and the refutation for integral floats. *)
Require Import IP.Base.Bytes IP.DM.Value IP.Codec.Utf8 IP.Codec.Base64 IP.Codec.DagJson.
Require Import IP.Proofs.BytesFacts IP.Proofs.JsonUtf8 IP.Proofs.JsonString IP.Proofs.JsonInt IP.Proofs.JsonBase64.
Require Import IP.Proofs.JsonTok IP.Proofs.JsonAbs IP.Proofs.JsonUnm IP.Proofs.JsonEnc IP.Proofs.JsonSort.
From Coq Require Import Permutation Sorting.Sorted.
From Coq Require Import ZifyN ZifyNat ZifyBool.
Open Scope N_scope.

(* ---------------------------------------------------------------- small facts *)

Lemma ascii_valid s : Forall (fun b => b < 128) s -> utf8_valid s = true.
Proof.
  unfold utf8_valid. induction 1 as [|b r Hb Hr IH]; [reflexivity|].
  cbn [length utf8_valid_fuel]. unfold utf8_decode. destruct (N.ltb_spec b 128); [|lia].
  unfold rune_error. destruct (N.eqb_spec b 65533); [lia|]. cbn [andb skipn]. exact IH.
Qed.

Lemma b64_char_ascii v : v < 64 -> b64_char v < 128.
Proof. intros. unfold b64_char. repeat ncase. Qed.

Lemma b64_encode_ascii n : forall bs, (length bs <= n)%nat -> Forall (fun b => b < 256) bs ->
  Forall (fun b => b < 128) (b64_encode bs).
Proof.
  induction n as [|n IH]; intros bs L F.
  { destruct bs; [constructor|cbn in L; lia]. }
  destruct bs as [|a [|b [|c r]]]; cbn [b64_encode].
  - constructor.
  - inversion F; subst. repeat constructor; apply b64_char_ascii; lia.
  - inversion F as [|? ? Ha F1]; inversion F1; subst. repeat constructor; apply b64_char_ascii; lia.
  - inversion F as [|? ? Ha F1]; inversion F1 as [|? ? Hb F2]; inversion F2 as [|? ? Hc F3]; subst.
    repeat (constructor; [apply b64_char_ascii; lia|]). apply IH; [cbn in L; lia|assumption].
Qed.

Lemma digits_scan_syntax ds : forall (j : nat) acc, acc < 10 ^ N.of_nat j -> (lead_digits ds + j <= 19)%nat ->
  (exists c, In c ds /\ is_digit c = false) -> digits_scan ds acc = PSyntax.
Proof.
  induction ds as [|d r IH]; intros j acc Ha Hl (c & Hin & Hc); [contradiction|].
  cbn [digits_scan]. cbn [lead_digits] in Hl. destruct (is_digit d) eqn:Hd; [|reflexivity].
  assert (Dd : 48 <= d <= 57) by (now apply is_digit_iff).
  assert (Ha' : acc * 10 + (d - 48) < 10 ^ N.of_nat (S j)).
  { rewrite Nat2N.inj_succ, N.pow_succ_r'. lia. }
  assert (P19 : 10 ^ N.of_nat (S j) <= 10 ^ 19) by (apply N.pow_le_mono_r; lia).
  assert (10 ^ 19 < two64) by (vm_compute; reflexivity).
  destruct (N.leb_spec two64 (acc * 10 + (d - 48))); [lia|].
  apply (IH (S j)); [assumption|lia|].
  exists c. split; [|assumption]. destruct Hin as [->|Hin]; [congruence|assumption].
Qed.

Lemma parse_int_syntax t : has_dot_or_e t = true -> (int_prefix_len t <= 19)%nat -> parse_int t = PISyntax.
Proof.
  intros H L. unfold has_dot_or_e in H. apply existsb_exists in H. destruct H as (c & Hin & Hc).
  assert (Nd : is_digit c = false /\ c <> 45).
  { unfold is_digit, is_e in *. repeat ncase; split; try reflexivity; try lia. }
  destruct Nd as [Nd N45].
  destruct t as [|c0 ds]; [reflexivity|]. unfold parse_int. unfold int_prefix_len in L.
  destruct (N.eqb_spec c0 45) as [->|Hc0].
  - destruct ds as [|d ds']; [reflexivity|].
    rewrite (digits_scan_syntax (d :: ds') 0 0); [reflexivity|cbn; lia|lia|].
    exists c. split; [|assumption]. destruct Hin as [E|Hin]; [congruence|assumption].
  - rewrite (digits_scan_syntax (c0 :: ds) 0 0); [reflexivity|cbn; lia|lia|].
    exists c. split; assumption.
Qed.

Lemma jc_len (l : list bytes) : (fold_right (fun x a => S (length x + a)) 0 l <= S (length (join_comma l)))%nat.
Proof.
  induction l as [|x r IH]; [cbn; lia|]. destruct r as [|y r'].
  - cbn. lia.
  - change (join_comma (x :: y :: r')) with (x ++ 44 :: join_comma (y :: r')).
    rewrite app_length. cbn [length fold_right] in *. lia.
Qed.

Section Main.
  Variable fmt_float : N -> bytes.
  Variable parse_float : bytes -> option N.
  Variable cid_str : bytes -> bytes.
  Variable cid_parse : bytes -> option bytes.
  Variable cid_ok : bytes -> bool.
  (* A1, A2: strconv / emitFloat;  CID laws: go-cid *)
  Hypothesis A1 : forall f, f64_finite f = true -> parse_float (fmt_float f) = Some f.
  (* [gf] selects the floats whose text is assumed to carry a '.' or an exponent: on the pinned tree
     (A2) these are the floats that are not integers below 1e21; for a repaired emitFloat, all *)
  Variable gf : N -> bool.
  Hypothesis A2 : forall f, f64_finite f = true -> gf f = true -> float_text_frac (fmt_float f) = true.
  Hypothesis CID : forall c, cid_ok c = true -> cid_parse (cid_str c) = Some c.
  Hypothesis CIDS : forall c, cid_ok c = true -> utf8_valid (cid_str c) = true.

  Notation safe := (json_safe cid_ok gf).
  Notation tojs := (to_js fmt_float cid_str).
  Notation text := (text fmt_float cid_str).

  Lemma float_num_ok f : f64_finite f = true -> gf f = true ->
    num_ok parse_float (fmt_float f) (TFloat f).
  Proof.
    intros Hf Hi. pose proof (A2 f Hf Hi) as T. unfold float_text_frac in T.
    apply andb_true_iff in T. destruct T as [T Tp]. apply andb_true_iff in T. destruct T as [Tn Td].
    apply Nat.leb_le in Tp. unfold json_number in Tn.
    destruct (fmt_float f) as [|c r] eqn:E; [discriminate|].
    apply andb_true_iff in Tn. destruct Tn as [Tc Tr].
    destruct (num_run (num_start c) r) as [st|] eqn:R; [|discriminate].
    exists c, r. repeat split.
    - apply orb_true_iff in Tc. destruct Tc as [Tc|Tc]; [left; now apply N.eqb_eq|right; now apply is_digit_iff].
    - intros rest Dl. now apply (num_scan_run r (num_start c) st).
    - unfold num_token. rewrite <- E. rewrite parse_int_syntax by (rewrite E; assumption). now rewrite A1.
  Qed.

  Lemma int_num_ok z : in_int64 z = true -> num_ok parse_float (print_int z) (TInt z).
  Proof.
    intros Hz. destruct (print_int_scan z) as (mb & t & E & Hmb & Hs).
    exists mb, t. repeat split; try assumption. unfold num_token. now rewrite int_roundtrip.
  Qed.

  Theorem to_js_ok v : safe v = true -> js_ok parse_float (tojs v).
  Proof.
    induction v as [|b|z|f|s|bs|c|l IH|m IH] using dm_ind2; intros Sf; cbn [to_js js_ok json_safe] in *.
    - exact I.
    - exact I.
    - now apply int_num_ok.
    - apply andb_true_iff in Sf. destruct Sf as [Hf Hg]. now apply float_num_ok.
    - exact Sf.
    - repeat split; try reflexivity. apply ascii_valid. apply (b64_encode_ascii (length bs)); [lia|].
      unfold bytes_ok, byte_ok in Sf. apply Forall_forall. intros y Hy. rewrite forallb_forall in Sf.
      apply N.ltb_lt. now apply Sf.
    - repeat split; try reflexivity. now apply CIDS.
    - apply js_ok_arr. apply Forall_forall. intros y Hy. apply in_map_iff in Hy. destruct Hy as (x & <- & Hx).
      rewrite Forall_forall in IH. rewrite forallb_forall in Sf. apply IH; auto.
    - apply js_ok_obj. apply Forall_forall. intros kv Hkv. apply in_map_iff in Hkv. destruct Hkv as (kv0 & <- & Hin).
      apply andb_true_iff in Sf. destruct Sf as [_ S3]. rewrite forallb_forall in S3. specialize (S3 kv0 Hin).
      apply andb_true_iff in S3. destruct S3 as [Sk Sv]. cbn [fst snd]. split; [exact Sk|].
      rewrite Forall_forall in IH. now apply IH.
  Qed.

  (* fuel: 3 units per byte of text are enough *)
  Theorem need_bound v : safe v = true -> (need v <= 3 * length (text v))%nat.
  Proof.
    induction v as [|b|z|f|s|bs|c|l IH|m IH] using dm_ind2; intros Sf;
      try (pose proof (to_js_ok _ Sf) as Ok; destruct (jtext_head parse_float _ Ok) as (mb & r & E & _);
           unfold JsonEnc.text; rewrite E; cbn [need length]; lia).
    - (* list *)
      unfold JsonEnc.text. cbn [to_js jtext need]. cbn [length]. rewrite app_length. cbn [length].
      pose proof (jc_len (map jtext (map tojs l))) as J.
      assert (B : (fold_right (fun x a => S (need x + a)) 0 l
                   <= 3 * fold_right (fun x a => S (length x + a)) 0 (map jtext (map tojs l)))%nat).
      { cbn [json_safe] in Sf. clear J. induction IH as [|x r Hx Hr IHr]; [cbn; lia|].
        cbn [forallb] in Sf. apply andb_true_iff in Sf. destruct Sf as [Sx Sr].
        specialize (Hx Sx). unfold JsonEnc.text in Hx. specialize (IHr Sr). cbn [map fold_right]. lia. }
      lia.
    - (* map *)
      unfold JsonEnc.text. cbn [to_js jtext need]. cbn [length]. rewrite app_length. cbn [length].
      pose proof (jc_len (map (entry_text jtext) (map (fun kv => (fst kv, tojs (snd kv))) m))) as J.
      assert (B : (fold_right (fun kv a => S (need (snd kv) + a)) 0 m
                   <= 3 * fold_right (fun x a => S (length x + a)) 0
                          (map (entry_text jtext) (map (fun kv => (fst kv, tojs (snd kv))) m)))%nat).
      { cbn [json_safe] in Sf. apply andb_true_iff in Sf. destruct Sf as [_ S3]. clear J.
        induction IH as [|kv r Hx Hr IHr]; [cbn; lia|].
        cbn [forallb] in S3. apply andb_true_iff in S3. destruct S3 as [Sx Sr].
        apply andb_true_iff in Sx. destruct Sx as [_ Sx].
        specialize (Hx Sx). unfold JsonEnc.text in Hx. specialize (IHr Sr). cbn [map fold_right fst snd].
        unfold entry_text at 1. cbn [fst snd]. rewrite app_length. cbn [length]. lia. }
      lia.
  Qed.

  Lemma safe_encodable v : safe v = true -> encodable cid_ok v = true.
  Proof.
    induction v as [|b|z|f|s|bs|c|l IH|m IH] using dm_ind2; intros Sf; cbn [json_safe encodable] in *; try reflexivity; try assumption.
    - apply andb_true_iff in Sf. tauto.
    - rewrite forallb_forall in *. rewrite Forall_forall in IH. intros x Hx. apply IH; auto.
    - apply andb_true_iff in Sf. destruct Sf as [_ S3]. rewrite forallb_forall in *. rewrite Forall_forall in IH.
      intros kv Hkv. specialize (S3 kv Hkv). apply andb_true_iff in S3. apply IH; tauto.
  Qed.

  Notation encode := (jenc fmt_float cid_str dagjson_eopts cid_ok).
  Notation decode := (jdecode parse_float cid_parse dagjson_dopts).

  (* C04, round trip: every json_safe value without an integral float below 1e21, within the
     decoder's depth limit, decodes from its encoding to the key-sorted value, kinds included *)
  Theorem roundtrip v : safe v = true -> jdepth v <= 1024 ->
    exists bs, encode v = Ok bs /\ decode bs = Ok (sortv v, []).
  Proof.
    intros Sf Dp. exists (text (sortv v)). split; [apply enc_ok; now apply safe_encodable|].
    set (w := sortv v).
    assert (Sw : safe w = true) by (now apply safe_sort).
    assert (Dw : jdepth w <= 1024) by (pose proof (depth_sort v); unfold w; lia).
    pose proof (to_js_ok w Sw) as Okw.
    destruct (tok_top parse_float (tojs w) [] Okw I) as (k & L & ts1 & r1 & ts' & Tk & St & Y & Hnum).
    rewrite app_nil_r in St.
    unfold jdecode. unfold JsonEnc.text. rewrite St.
    pose proof (U fmt_float parse_float cid_str cid_parse cid_ok CID dagjson_dopts eq_refl eq_refl gf w Sw
                  (jdec_fuel (jtext (tojs w))) 0%nat [] 0%Z) as HU.
    unfold toks in HU. rewrite Tk in HU. cbn [hd tl] in HU. rewrite !app_nil_r in HU.
    assert (Fu : (need w <= jdec_fuel (jtext (tojs w)))%nat).
    { pose proof (need_bound w Sw) as B. unfold JsonEnc.text in B. unfold jdec_fuel. lia. }
    assert (Dk : depth_ok dagjson_dopts 0 w).
    { unfold depth_ok. change (jmax_depth dagjson_dopts) with 1024%Z. lia. }
    specialize (HU Fu Dk (winI_single k)).
    destruct (proj1 (unm_lock parse_float cid_parse ts' [] (jdec_fuel (jtext (tojs w)))) _ _ _ _ _ _
                {| lb := []; lts := ts1; lin := r1 |} HU) as (ls' & EU & (Hn & Ls & HL & Y')).
    { split; [reflexivity|]. exists L. split; [reflexivity|exact Y]. }
    rewrite EU. cbn [snd] in HL. symmetry in HL. apply app_eq_nil in HL. destruct HL as [Hb ->].
    inversion Y'; subst.
    match goal with H : lin ls' = _ |- _ => rewrite H || rewrite <- H | H : _ = lin ls' |- _ => rewrite <- H end.
    cbn [jd_dont_parse_beyond dagjson_dopts]. destruct k; reflexivity.
  Qed.

  (* C04, determinism: the encoding is a function of the key-sorted value; values that differ only
     in the insertion order of (unique-keyed) maps encode to the same bytes *)
  Lemma pm_encodable v1 : forall v2, pm v1 v2 -> encodable cid_ok v1 = true -> encodable cid_ok v2 = true.
  Proof.
    induction v1 as [| | | | | | |l IH|m IH] using dm_ind2; intros v2 H E; inversion H; subst; try assumption.
    - cbn [encodable] in *.
      match goal with F : Forall2 pm l _ |- _ => induction F as [|a b r r' Hab Hr IHr] end; [reflexivity|].
      inversion IH; subst. cbn [forallb] in *. apply andb_true_iff in E. destruct E as [Ea Er].
      apply andb_true_iff. split; [auto|]. apply IHr; try assumption. constructor. exact Hr.
    - cbn [encodable] in *.
      match goal with Pm : Permutation m ?mm, F : Forall2 _ ?mm _ |- _ =>
        assert (Hall : Forall (fun kv => encodable cid_ok (snd kv) = true /\
                          forall v2, pm (snd kv) v2 -> encodable cid_ok (snd kv) = true -> encodable cid_ok v2 = true) mm);
        [apply Forall_forall; intros kv Hin; apply (Permutation_in _ (Permutation_sym Pm)) in Hin;
         rewrite Forall_forall in IH; rewrite forallb_forall in E; split; [now apply E|now apply IH]|];
        clear - F Hall; induction F as [|a b r r' [Hk Hv] Hr IHr]; [reflexivity|];
        inversion Hall as [|? ? [Ea Ha] Hall']; subst; cbn [forallb]; apply andb_true_iff; split; [now apply Ha|auto] end.
  Qed.

  Theorem deterministic v1 v2 bs : uniq v1 = true -> pm v1 v2 -> encode v1 = Ok bs -> encode v2 = Ok bs.
  Proof.
    intros Uq Hp E. apply enc_ok_inv in E. destruct E as [En ->].
    rewrite (pm_sort v1 Uq v2 Hp). apply enc_ok. eapply pm_encodable; eassumption.
  Qed.

  (* ... and the keys are emitted in strictly increasing bytewise order *)
  Theorem sorted_output v : uniq v = true -> maps_sorted (sortv v).
  Proof.
    induction v as [| | | | | | |l IH|m IH] using dm_ind2; intros Uq; try exact I.
    - cbn [sort_maps maps_sorted]. cbn [uniq] in Uq. induction IH as [|x r Hx Hr IHr]; [exact I|].
      cbn [forallb] in Uq. apply andb_true_iff in Uq. destruct Uq. cbn [map]. split; [exact (Hx H)|exact (IHr H0)].
    - rewrite sortv_map. cbn [maps_sorted]. cbn [uniq] in Uq. apply andb_true_iff in Uq. destruct Uq as [ND Uv]. split.
      + apply (sort_sorted bytes_ltb bytes_ltb_trans bytes_ltb_total). unfold keys. rewrite keys_S. now apply nodup_keys_NoDup.
      + assert (Hall : Forall (fun kv => maps_sorted (snd kv)) (sort_kv bytes_ltb (map S_ m))).
        { apply Forall_forall. intros kv Hkv.
          apply (Permutation_in _ (Permutation_sym (sort_prm (map S_ m)))) in Hkv.
          apply in_map_iff in Hkv. destruct Hkv as (kv0 & <- & Hin). rewrite Forall_forall in IH. rewrite forallb_forall in Uv.
          unfold S_. cbn [snd]. apply IH; auto. }
        induction Hall as [|a r Ha Hr IHr]; [exact I|split; assumption].
  Qed.
End Main.

(* ---------------------------------------------------------------- the refutation *)

Section Refute.
  Variable fmt_float : N -> bytes.
  Variable parse_float : bytes -> option N.
  Variable cid_str : bytes -> bytes.
  Variable cid_parse : bytes -> option bytes.
  Variable cid_ok : bytes -> bool.

  Lemma num_run_nodot st t st' : num_run st t = Some st' -> has_dot_or_e t = false ->
    (st = SNeg \/ st = SZero \/ st = SInt) -> Forall digit_c t /\ (st = SZero -> t = []) /\ (st = SNeg -> nst_final st' = true -> t <> []).
  Proof.
    revert st. induction t as [|c r IH]; intros st R H S0.
    - cbn in R. inversion R; subst. repeat split; auto. intros -> F. discriminate.
    - cbn [num_run] in R. cbn [has_dot_or_e existsb] in H. apply orb_false_iff in H. destruct H as [Hc Hr].
      apply orb_false_iff in Hc. destruct Hc as [Hdot He].
      destruct (num_step st c) as [st1|] eqn:St; [|discriminate].
      assert (D : is_digit c = true /\ (st1 = SZero \/ st1 = SInt) /\ st <> SZero).
      { destruct S0 as [-> | [-> | ->]]; cbn [num_step] in St; rewrite ?Hdot, ?He in St.
        - destruct (N.eqb_spec c 48); [inversion St; subst; split; [subst; reflexivity|split; [now left|discriminate]]|].
          destruct (is_digit c); [inversion St; subst; split; [reflexivity|split; [now right|discriminate]]|discriminate].
        - discriminate.
        - destruct (is_digit c); [inversion St; subst; split; [reflexivity|split; [now right|discriminate]]|discriminate]. }
      destruct D as (Dc & S1 & NZ).
      destruct (IH st1 R Hr) as (Fr & Z1 & _); [destruct S1; auto|].
      repeat split.
      + constructor; [now apply is_digit_iff|assumption].
      + intros ->. congruence.
      + intros _ _. discriminate.
  Qed.

  Lemma digits_scan_digits ds : Forall digit_c ds -> forall acc, digits_scan ds acc <> PSyntax.
  Proof.
    induction 1 as [|d r Hd Hr IH]; intros acc; cbn [digits_scan]; [discriminate|].
    replace (is_digit d) with true by (symmetry; now apply is_digit_iff).
    destruct (two64 <=? acc * 10 + (d - 48)); [discriminate|apply IH].
  Qed.

  (* a JSON number text without '.' or exponent is never classified as a float *)
  Lemma int_text_not_float t : json_number t = true -> has_dot_or_e t = false -> parse_int t <> PISyntax.
  Proof.
    intros J H. destruct t as [|c r]; [discriminate|]. cbn [json_number] in J.
    apply andb_true_iff in J. destruct J as [Jc Jr].
    destruct (num_run (num_start c) r) as [st|] eqn:R; [|discriminate].
    cbn [has_dot_or_e existsb] in H. apply orb_false_iff in H. destruct H as [_ Hr].
    unfold parse_int. unfold num_start in R. destruct (N.eqb_spec c 45) as [->|Nc].
    - destruct (num_run_nodot SNeg r st R Hr) as (Fr & _ & NE); [auto|].
      specialize (NE eq_refl Jr). destruct r as [|d r']; [congruence|].
      pose proof (digits_scan_digits (d :: r') Fr 0) as Hs.
      destruct (digits_scan (d :: r') 0); try congruence. destruct (two63 <? n); discriminate.
    - assert (Dc : digit_c c) by (cbn [orb] in Jc; now apply is_digit_iff).
      destruct (c =? 48) eqn:E0.
      + destruct (num_run_nodot SZero r st R Hr) as (Fr & _ & _); [auto|].
        pose proof (digits_scan_digits (c :: r) (Forall_cons _ Dc Fr) 0) as Hs.
        destruct (digits_scan (c :: r) 0); try congruence. destruct (two63 <=? n); discriminate.
      + destruct (num_run_nodot SInt r st R Hr) as (Fr & _ & _); [auto|].
        pose proof (digits_scan_digits (c :: r) (Forall_cons _ Dc Fr) 0) as Hs.
        destruct (digits_scan (c :: r) 0); try congruence. destruct (two63 <=? n); discriminate.
  Qed.

  (* Under A2 an integral float below 1e21 never comes back as a float: the faithful model refutes
     the full round-trip statement for every such float (1.0, -0.0, 1e20, ...). *)
  Theorem refuted_float f : f64_finite f = true -> f64_integral_small f = true ->
    float_text_ok f (fmt_float f) = true ->
    jenc fmt_float cid_str dagjson_eopts cid_ok (DFloat f) = Ok (fmt_float f) /\
    forall rest, jdecode parse_float cid_parse dagjson_dopts (fmt_float f) <> Ok (DFloat f, rest).
  Proof.
    intros Hf Hi T. split; [cbn [jenc enc_scalar]; now rewrite Hf|].
    unfold float_text_ok in T. rewrite Hi in T. apply andb_true_iff in T. destruct T as [J Hd].
    apply negb_true_iff in Hd. pose proof (int_text_not_float _ J Hd) as NS.
    destruct (fmt_float f) as [|c r] eqn:E; [discriminate|].
    pose proof J as J'. cbn [json_number] in J'. apply andb_true_iff in J'. destruct J' as [Jc Jr].
    destruct (num_run (num_start c) r) as [st|] eqn:R; [|discriminate].
    assert (B : c = 45 \/ 48 <= c <= 57).
    { apply orb_true_iff in Jc. destruct Jc as [Jc|Jc]; [left; now apply N.eqb_eq|right; now apply is_digit_iff]. }
    intros rest. unfold jdecode, tstep. 
    assert (Hw : is_ws c = false) by (unfold is_ws; destruct B as [->|B]; [reflexivity|repeat ncase; reflexivity]).
    cbn [skip_ws]. rewrite Hw. cbn [ts_frm ts_init]. unfold accept_kv.
    destruct (N.eqb_spec c 123); [lia|]. destruct (N.eqb_spec c 91); [lia|].
    destruct (N.eqb_spec c 110); [lia|]. destruct (N.eqb_spec c 34); [lia|].
    destruct (N.eqb_spec c 102); [lia|]. destruct (N.eqb_spec c 116); [lia|].
    replace ((c =? 45) || is_digit c) with true by (symmetry; exact Jc).
    pose proof (num_scan_run r (num_start c) st [] R I) as Sc. rewrite app_nil_r in Sc. rewrite Sc.
    unfold num_token. destruct (parse_int (c :: r)) as [| |z]; [congruence|discriminate|].
    cbn [finish_step ts_stk ts_init]. cbn. discriminate.
  Qed.
End Refute.

(* ---------------------------------------------------------------- the statements of Props/C04.v *)

Definition A1 (fmt_float : N -> bytes) (parse_float : bytes -> option N) : Prop :=
  forall f, f64_finite f = true -> parse_float (fmt_float f) = Some f.
Definition A2 (fmt_float : N -> bytes) : Prop :=
  forall f, f64_finite f = true -> float_text_ok f (fmt_float f) = true.
Definition A2R (fmt_float : N -> bytes) : Prop :=
  forall f, f64_finite f = true -> float_text_frac (fmt_float f) = true.
Definition CID (cid_str : bytes -> bytes) (cid_parse : bytes -> option bytes) (cid_ok : bytes -> bool) : Prop :=
  (forall c, cid_ok c = true -> cid_parse (cid_str c) = Some c) /\
  (forall c, cid_ok c = true -> utf8_valid (cid_str c) = true).

Definition nonintegral (f : N) : bool := negb (f64_integral_small f).
Definition any_float (f : N) : bool := true.

(* decode (encode v) = Ok (sort v), with the same kinds, for every value [good] admits *)
Definition roundtrip_for fmt_float parse_float cid_str cid_parse cid_ok (good : N -> bool) : Prop :=
  forall v, json_safe cid_ok good v = true -> jdepth v <= 1024 ->
    exists bs, jenc fmt_float cid_str dagjson_eopts cid_ok v = Ok bs /\
               jdecode parse_float cid_parse dagjson_dopts bs = Ok (sort_maps bytes_ltb v, []).


Lemma partial_lemma :
  forall fmt_float parse_float cid_str cid_parse cid_ok,
    A1 fmt_float parse_float -> A2 fmt_float -> CID cid_str cid_parse cid_ok ->
    roundtrip_for fmt_float parse_float cid_str cid_parse cid_ok nonintegral.
Proof.
  intros fmt_float parse_float cid_str cid_parse cid_ok H1 H2 [H3 H4] v.
  apply (roundtrip fmt_float parse_float cid_str cid_parse cid_ok H1 nonintegral); try assumption.
  intros f Hf Hg. specialize (H2 f Hf). unfold float_text_ok in H2. unfold nonintegral in Hg.
  apply negb_true_iff in Hg. now rewrite Hg in H2.
Qed.

Lemma refuted_lemma :
  forall fmt_float parse_float cid_str cid_parse cid_ok,
    A2 fmt_float -> ~ roundtrip_for fmt_float parse_float cid_str cid_parse cid_ok any_float.
Proof.
  intros fmt_float parse_float cid_str cid_parse cid_ok H2 RT.
  destruct (RT (DFloat 4607182418800017408) eq_refl ltac:(discriminate)) as (bs & E & D).
  destruct (refuted_float fmt_float parse_float cid_str cid_parse cid_ok 4607182418800017408 eq_refl eq_refl
              (H2 4607182418800017408 eq_refl)) as [E' ND].
  rewrite E' in E. inversion E; subst. exact (ND [] D).
Qed.

Lemma repaired_lemma :
  forall fmt_float parse_float cid_str cid_parse cid_ok,
    A1 fmt_float parse_float -> A2R fmt_float -> CID cid_str cid_parse cid_ok ->
    roundtrip_for fmt_float parse_float cid_str cid_parse cid_ok any_float.
Proof.
  intros fmt_float parse_float cid_str cid_parse cid_ok H1 H2 [H3 H4] v.
  apply (roundtrip fmt_float parse_float cid_str cid_parse cid_ok H1 any_float); try assumption.
  intros f Hf _. now apply H2.
Qed.

Lemma sorted_keys_lemma :
  forall fmt_float cid_str cid_ok v bs,
    uniq v = true -> jenc fmt_float cid_str dagjson_eopts cid_ok v = Ok bs ->
    bs = text fmt_float cid_str (sort_maps bytes_ltb v) /\ maps_sorted (sort_maps bytes_ltb v).
Proof.
  intros fmt_float cid_str cid_ok v bs U E.
  exact (conj (proj2 (enc_ok_inv fmt_float cid_str cid_ok v bs E)) (sorted_output v U)).
Qed.

(* the hypotheses on values are satisfiable *)
Example safe_example :
  json_safe (fun c => negb (is_nil c)) nonintegral
    (DMap [([47], DMap [([98; 121; 116; 101; 115], DInt 1)]); ([107], DList [DBytes [1; 2; 255]; DLink [1; 85; 0; 0]; DFloat 4609434218613702656; DString [226; 128; 168]])]) = true.
Proof. vm_compute. reflexivity. Qed.

Example pm_example :
  pm (DMap [([98], DInt 1); ([97], DNull)]) (DMap [([97], DNull); ([98], DInt 1)]) /\
  uniq (DMap [([98], DInt 1); ([97], DNull)]) = true.
Proof.
  split; [|reflexivity]. apply (pm_map _ [([97], DNull); ([98], DInt 1)]).
  - apply perm_swap.
  - repeat constructor.
Qed.
