(* Proofs/CborComplete.v — the converse of Proofs/CborSound.v: every byte string the SPEC checker
   [chk] accepts as one well-formed item denoting v is accepted by the decoder model with exactly v,
   provided v is within the decoder's configured limits (depth, allocation budget, 32 MiB strings,
   collection lengths that fit Go's int).  Together with [decode_sound] the decoder model is
   characterised by the SPEC from both sides.  Proofs only. *)
Require Import IP.Base.Bytes IP.DM.Value IP.Codec.Cid IP.Codec.Cbor IP.Codec.CborSpec IP.Gen.FromGo.
Require Import IP.Proofs.BytesFacts IP.Proofs.CborEnc IP.Proofs.CborDec IP.Proofs.CborSound IP.Proofs.CborBound.
From Coq Require Import ZifyN ZifyNat ZifyBool.
Ltac Zify.zify_post_hook ::= Z.div_mod_to_equations.
Open Scope N_scope.

(* sizes the decoder enforces on what it builds (besides depth and budget); NaN payloads are not
   compared by [chk], so the exact-value statement is for NaN-free values (strict mode has none) *)
Fixpoint lim_ok (v : dm) : Prop :=
  match v with
  | DFloat f => f64_is_nan f = false
  | DString s | DBytes s => lenN s <= str_cap
  | DLink c => lenN c + 1 <= str_cap
  | DList l => lenN l < two63 /\
               (fix all (l : list dm) := match l with [] => True | x :: r => lim_ok x /\ all r end) l
  | DMap es => lenN es < two63 /\
               (fix all (es : list (bytes * dm)) :=
                  match es with [] => True | (k, x) :: r => lenN k <= str_cap /\ lim_ok x /\ all r end) es
  | _ => True
  end.

Lemma lim_ok_list l : lim_ok (DList l) <-> lenN l < two63 /\ Forall lim_ok l.
Proof.
  cbn [lim_ok]. split; intros [H1 H2]; (split; [exact H1|]); clear H1.
  - induction l as [|x r IH]; [constructor|]. destruct H2. constructor; auto.
  - induction l as [|x r IH]; [exact I|]. inversion H2 as [|? ? Ha Hb]; subst. split; [exact Ha|apply IH; exact Hb].
Qed.

Lemma lim_ok_map es : lim_ok (DMap es) <->
  lenN es < two63 /\ Forall (fun kv => lenN (fst kv) <= str_cap /\ lim_ok (snd kv)) es.
Proof.
  cbn [lim_ok]. split; intros [H1 H2]; (split; [exact H1|]); clear H1.
  - induction es as [|[k x] r IH]; [constructor|]. destruct H2 as (? & ? & ?). constructor; auto.
  - induction es as [|[k x] r IH]; [exact I|]. inversion H2 as [|? ? [Ha Ha'] Hb]; subst.
    split; [exact Ha|split; [exact Ha'|apply IH; exact Hb]].
Qed.

(* a head the SPEC reader accepts: first byte, and what the model's argument reader says *)
Lemma rd_head_inv strict bs mj a r : wfb bs -> rd_head strict bs = Some (mj, a, r) ->
  exists b t, bs = b :: t /\ b < 256 /\ mj = b / 32 /\ dec_arg strict (b mod 32) t = Some (a, r) /\ wfb r /\ a < two64.
Proof.
  intros Hw. destruct bs as [|b t]; [discriminate|]. rewrite rd_head_dec_arg.
  inversion Hw as [|? ? Hb Ht]; subst.
  destruct (dec_arg strict (b mod 32) t) as [[a' r']|] eqn:Ea; [|discriminate].
  intros E; inversion E; subst. destruct (dec_arg_wf _ _ _ _ _ Ht Ea) as (Ha & Hr & _).
  exists b, t. repeat split; auto.
Qed.

Lemma dec_arg_not31 strict ai t a r : dec_arg strict ai t = Some (a, r) -> ai < 28.
Proof.
  unfold dec_arg. destruct (N.ltb_spec ai 24); [lia|].
  destruct (N.eqb_spec ai 24); [lia|]. destruct (N.eqb_spec ai 25); [lia|].
  destruct (N.eqb_spec ai 26); [lia|]. destruct (N.eqb_spec ai 27); [lia|discriminate].
Qed.

(* a value whose first byte carries a major type below 7 and a readable argument goes to [dec_major] *)
Lemma dec_val_body_major rv ri re o depth bud pre tag b t a r :
  b < 224 -> dec_arg (negb (d_relaxed o)) (b mod 32) t = Some (a, r) ->
  dec_val_body rv ri re o depth bud pre tag (b :: t) = dec_major rv ri re o depth bud pre tag (b / 32) a r.
Proof.
  intros Hb Ea. pose proof (dec_arg_not31 _ _ _ _ _ Ea) as Hai.
  cbn [dec_val_body].
  repeat match goal with
  | |- context [b =? ?c] => destruct (N.eqb_spec b c); [exfalso; lia|]
  end.
  cbn [orb]. destruct (N.leb_spec 224 b); [lia|]. rewrite Ea. reflexivity.
Qed.

(* chk's matches on literal first bytes, as tests *)
Lemma chk_null_eq s l n bs : chk s l n DNull bs =
  match bs with b :: r => if (b =? 246) || (b =? 247) then Some r else None | [] => None end.
Proof.
  destruct bs as [|b r]; [reflexivity|]. cbn [chk]. destruct b as [|p]; [reflexivity|].
  do 9 (try (destruct p as [p|p|]; try reflexivity)).
Qed.
Lemma chk_bool_eq s l n x bs : chk s l n (DBool x) bs =
  match bs with
  | b :: r => if b =? 244 then (if x then None else Some r) else if b =? 245 then (if x then Some r else None) else None
  | [] => None end.
Proof.
  destruct bs as [|b r]; [reflexivity|]. cbn [chk]. destruct b as [|p]; [reflexivity|].
  do 9 (try (destruct p as [p|p|]; try reflexivity)).
Qed.
Definition fl_ok (f x : N) : bool := (x =? f) || (f64_is_nan f && f64_is_nan x).
Lemma chk_float_eq s l n f bs : chk s l n (DFloat f) bs =
  if s && negb (f64_finite f) then None else
  match bs with
  | b :: r =>
    if b =? 251 then match take 8 r with Some (x, r') => if fl_ok f (unbe x 0) then Some r' else None | None => None end
    else if b =? 250 then match take 4 r with Some (x, r') => if fl_ok f (widen32_spec (unbe x 0)) then Some r' else None | None => None end
    else if b =? 249 then match take 2 r with Some (x, r') => if fl_ok f (widen16_spec (unbe x 0)) then Some r' else None | None => None end
    else None
  | [] => None end.
Proof.
  cbn [chk]. destruct (s && negb (f64_finite f)); [reflexivity|].
  destruct bs as [|b r]; [reflexivity|]. destruct b as [|p]; [reflexivity|].
  do 9 (try (destruct p as [p|p|]; try reflexivity)).
Qed.

Lemma div32_lt7 b : b / 32 < 7 -> b < 224.
Proof. lia. Qed.
Lemma lt07 : 0 < 7. Proof. lia. Qed.
Lemma lt17 : 1 < 7. Proof. lia. Qed.
Lemma lt27 : 2 < 7. Proof. lia. Qed.
Lemma lt37 : 3 < 7. Proof. lia. Qed.
Lemma lt47 : 4 < 7. Proof. lia. Qed.
Lemma lt57 : 5 < 7. Proof. lia. Qed.
Lemma lt67 : 6 < 7. Proof. lia. Qed.

Lemma fold_max_le' {A} (g : A -> nat) (l : list A) :
  Forall (fun x => g x <= fold_right (fun x a => Nat.max (g x) a) 0 l)%nat l.
Proof.
  induction l as [|x r IH]; [constructor|]. cbn [fold_right]. constructor; [lia|].
  eapply Forall_impl; [|exact IH]. cbn. intros; lia.
Qed.

Ltac kill_num H mj :=
  destruct mj as [|?p]; [discriminate H|];
  repeat (match goal with p : positive |- _ => destruct p as [p|p|]; try discriminate H end); lia.

Section Complete.
  Variable o : dopts.
  Hypothesis Hrt : d_reject_tags o = true.
  Local Notation strict := (negb (d_relaxed o)).
  Local Notation links := (d_allow_links o).

  Definition cp_stmt (v : dm) : Prop := forall f depth bud pre bs r,
    wfb bs -> chk strict links true v bs = Some r -> lim_ok v ->
    (size v <= f)%nat -> (depth + Z.of_nat (dm_depth v) <= max_depth o)%Z ->
    (0 <= pcost pre)%Z -> (pcost pre + cost v <= bud)%Z ->
    dec_val f o depth bud pre None bs = Ok (v, (bud - pcost pre - cost v)%Z, r).

  Lemma cp_null : cp_stmt DNull.
  Proof.
    intros f depth bud pre bs r Hw Hc _ Hf Hd Hp Hb. destruct f as [|f]; [cbn [size] in Hf; lia|].
    cbn [dec_val]. rewrite chk_null_eq in Hc. cbn [cost] in *.
    destruct bs as [|b t]; [discriminate|]. cbn [dec_val_body].
    destruct ((b =? 246) || (b =? 247)); [|discriminate]. inversion Hc; subst.
    rewrite post_ok by lia. apply ok3; [reflexivity|lia].
  Qed.

  Lemma cp_bool x : cp_stmt (DBool x).
  Proof.
    intros f depth bud pre bs r Hw Hc _ Hf Hd Hp Hb. destruct f as [|f]; [cbn [size] in Hf; lia|].
    cbn [dec_val]. rewrite chk_bool_eq in Hc. cbn [cost] in *.
    destruct bs as [|b t]; [discriminate|]. cbn [dec_val_body].
    destruct (N.eqb_spec b 244) as [->|].
    { destruct x; [discriminate|]. inversion Hc; subst. cbn [N.eqb Pos.eqb orb].
      rewrite post_ok by lia. rewrite spend_ok by lia. cbn [bind]. apply ok3; [reflexivity|lia]. }
    destruct (N.eqb_spec b 245) as [->|]; [|discriminate].
    destruct x; [|discriminate]. inversion Hc; subst. cbn [N.eqb Pos.eqb orb].
    rewrite post_ok by lia. rewrite spend_ok by lia. cbn [bind]. apply ok3; [reflexivity|lia].
  Qed.

  Lemma fl_ok_eq f x : f64_is_nan f = false -> fl_ok f x = true -> x = f.
  Proof. unfold fl_ok. intros ->. cbn [andb]. rewrite orb_false_r. apply N.eqb_eq. Qed.

  Lemma cp_float x : cp_stmt (DFloat x).
  Proof.
    intros f depth bud pre bs r Hw Hc Hl Hf Hd Hp Hb. destruct f as [|f]; [cbn [size] in Hf; lia|].
    cbn [dec_val]. rewrite chk_float_eq in Hc. cbn [cost lim_ok] in *.
    destruct (strict && negb (f64_finite x)) eqn:Es; [discriminate|].
    assert (Hck : check_float strict x = Some x).
    { unfold check_float. rewrite finite_iff, negb_involutive in Es. now rewrite Es. }
    destruct bs as [|b t]; [discriminate|]. inversion Hw as [|? ? _ Ht]; subst. cbn [dec_val_body].
    destruct (N.eqb_spec b 251) as [->|].
    { cbn [N.eqb Pos.eqb orb]. destruct (take 8 t) as [[y r']|] eqn:Et; [|discriminate].
      destruct (fl_ok x (unbe y 0)) eqn:Eo; [|discriminate]. inversion Hc; subst.
      rewrite (fl_ok_eq _ _ Hl Eo), Hck. rewrite post_ok by lia. rewrite spend_ok by lia. cbn [bind].
      apply ok3; [reflexivity|lia]. }
    destruct (N.eqb_spec b 250) as [->|].
    { cbn [N.eqb Pos.eqb orb]. destruct (take 4 t) as [[y r']|] eqn:Et; [|discriminate].
      destruct (fl_ok x (widen32_spec (unbe y 0))) eqn:Eo; [|discriminate]. inversion Hc; subst.
      change (widen32 (unbe y 0)) with (widen32_spec (unbe y 0)).
      rewrite (fl_ok_eq _ _ Hl Eo), Hck. rewrite post_ok by lia. rewrite spend_ok by lia. cbn [bind].
      apply ok3; [reflexivity|lia]. }
    destruct (N.eqb_spec b 249) as [->|]; [|discriminate].
    cbn [N.eqb Pos.eqb orb]. destruct (take 2 t) as [[y r']|] eqn:Et; [|discriminate].
    destruct (fl_ok x (widen16_spec (unbe y 0))) eqn:Eo; [|discriminate]. inversion Hc; subst.
    destruct (wfb_take _ _ _ _ Ht Et) as [Hy _]. apply take_some in Et as [_ Hly].
    pose proof (unbe_bound y 0 Hy) as Hbd.
    assert (Hlx : length y = 2%nat) by (unfold lenN in Hly; lia). rewrite Hlx in Hbd. cbn in Hbd.
    rewrite widen16_agree by lia.
    rewrite (fl_ok_eq _ _ Hl Eo), Hck. rewrite post_ok by lia. rewrite spend_ok by lia. cbn [bind].
    apply ok3; [reflexivity|lia].
  Qed.

  (* chk's head, when its major type is below 7: the decoder reaches dec_major with the same head *)
  Lemma head_to_major f' depth bud pre tag bs mj a r : wfb bs -> mj < 7 ->
    rd_head strict bs = Some (mj, a, r) ->
    dec_val (S f') o depth bud pre tag bs =
      dec_major (dec_val f' o) (dec_items f' o) (dec_entries f' o) o depth bud pre tag mj a r /\ wfb r /\ a < two64.
  Proof.
    intros Hw Hm Hh. destruct (rd_head_inv _ _ _ _ _ Hw Hh) as (b & t & -> & Hb & -> & Ea & Hr & Ha).
    assert (Hb224 : b < 224) by (apply div32_lt7; exact Hm).
    cbn [dec_val]. rewrite (dec_val_body_major _ _ _ _ _ _ _ _ _ _ _ _ Hb224 Ea). auto.
  Qed.

  Lemma cp_int z : cp_stmt (DInt z).
  Proof.
    intros f depth bud pre bs r Hw Hc _ Hf Hd Hp Hb. destruct f as [|f]; [cbn [size] in Hf; lia|].
    cbn [chk cost] in *.
    destruct (rd_head strict bs) as [[[mj a] r1]|] eqn:Eh; [|discriminate].
    destruct (N.eqb_spec mj 0) as [->|Hm0].
    { cbn [andb] in Hc. destruct (head_to_major f depth bud pre None _ _ _ _ Hw lt07 Eh) as (-> & _ & _).
      unfold dec_major. cbn [N.eqb]. rewrite post_ok by lia. rewrite spend_ok by lia. cbn [bind].
      destruct (Z.eqb_spec (Z.of_N a) z) as [<-|Hne].
      - inversion Hc; subst. apply ok3; [reflexivity|lia].
      - cbn [andb] in Hc. discriminate. }
    cbn [andb] in Hc.
    destruct (N.eqb_spec mj 1) as [->|Hm1]; [|cbn [andb] in Hc; discriminate].
    destruct (head_to_major f depth bud pre None _ _ _ _ Hw lt17 Eh) as (-> & _ & Ha64).
    unfold dec_major. cbn [N.eqb Pos.eqb]. unfold two64, two63 in *.
    destruct (N.ltb_spec a 9223372036854775808) as [Hlt|Hge]; cbn [andb] in Hc.
    - destruct (Z.eqb_spec (-1 - Z.of_N a) z) as [<-|Hne].
      + inversion Hc; subst.
        replace ((a + 1) mod 18446744073709551616) with (a + 1) by lia.
        destruct (N.ltb_spec 9223372036854775808 (a + 1)); [lia|].
        rewrite post_ok by lia. rewrite spend_ok by lia. cbn [bind]. apply ok3; [f_equal; lia|lia].
      + destruct (N.eqb_spec a (18446744073709551616 - 1)); [lia|]. cbn [andb] in Hc. discriminate.
    - destruct (N.eqb_spec a (18446744073709551616 - 1)) as [->|]; [|cbn [andb] in Hc; discriminate].
      destruct (Z.eqb_spec z 0) as [->|]; [|cbn [andb] in Hc; discriminate]. inversion Hc; subst.
      change ((18446744073709551616 - 1 + 1) mod 18446744073709551616) with 0.
      cbn [N.ltb N.compare]. rewrite post_ok by lia. rewrite spend_ok by lia. cbn [bind]. apply ok3; [reflexivity|lia].
  Qed.

  Lemma cp_string x : cp_stmt (DString x).
  Proof.
    intros f depth bud pre bs r Hw Hc Hl Hf Hd Hp Hb. destruct f as [|f]; [cbn [size] in Hf; lia|].
    cbn [chk cost lim_ok] in *.
    destruct (rd_head strict bs) as [[[mj a] r1]|] eqn:Eh; [|discriminate].
    destruct (N.eqb_spec mj 3) as [->|Hm]; [|kill_num Hc mj].
    destruct (take a r1) as [[s' r']|] eqn:Et; [|discriminate].
    destruct (bytes_eqb x s') eqn:Ee; [|discriminate]. apply bytes_eqb_eq in Ee. subst s'. inversion Hc; subst r'.
    destruct (head_to_major f depth bud pre None _ _ _ _ Hw lt37 Eh) as (-> & _ & _).
    pose proof (take_some _ _ _ _ Et) as [_ Hla]. subst a.
    unfold dec_major. cbn [N.eqb Pos.eqb].
    destruct (N.leb_spec two63 (lenN x)); [unfold two63, str_cap in *; lia|].
    destruct (N.ltb_spec str_cap (lenN x)); [lia|]. rewrite Et.
    rewrite post_ok by lia. rewrite spend_ok by lia. cbn [bind]. apply ok3; [reflexivity|lia].
  Qed.

  Lemma cp_bytes x : cp_stmt (DBytes x).
  Proof.
    intros f depth bud pre bs r Hw Hc Hl Hf Hd Hp Hb. destruct f as [|f]; [cbn [size] in Hf; lia|].
    cbn [chk cost lim_ok] in *.
    destruct (rd_head strict bs) as [[[mj a] r1]|] eqn:Eh; [|discriminate].
    destruct (N.eqb_spec mj 2) as [->|Hm]; [|kill_num Hc mj].
    destruct (take a r1) as [[s' r']|] eqn:Et; [|discriminate].
    destruct (bytes_eqb x s') eqn:Ee; [|discriminate]. apply bytes_eqb_eq in Ee. subst s'. inversion Hc; subst r'.
    destruct (head_to_major f depth bud pre None _ _ _ _ Hw lt27 Eh) as (-> & _ & _).
    pose proof (take_some _ _ _ _ Et) as [_ Hla]. subst a.
    unfold dec_major. cbn [N.eqb Pos.eqb].
    destruct (N.leb_spec two63 (lenN x)); [unfold two63, str_cap in *; lia|].
    destruct (N.ltb_spec str_cap (lenN x)); [lia|]. rewrite Et.
    rewrite prespend_ok by lia. cbn [bind]. rewrite spend_ok by lia. cbn [bind]. apply ok3; [reflexivity|lia].
  Qed.

  Lemma cp_link c : cp_stmt (DLink c).
  Proof.
    intros f depth bud pre bs r Hw Hc Hl Hf Hd Hp Hb.
    destruct f as [|f]; [cbn [size] in Hf; lia|]. destruct f as [|f]; [cbn [size] in Hf; lia|].
    cbn [chk cost lim_ok] in *.
    destruct (d_allow_links o) eqn:Elk; [|discriminate]. destruct (cid_valid c) eqn:Ecid; [|discriminate].
    cbn [negb orb] in Hc.
    destruct (rd_head strict bs) as [[[mj a] r1]|] eqn:Eh; [|discriminate].
    destruct (N.eqb_spec mj 6) as [->|Hm]; [|kill_num Hc mj].
    destruct (N.eqb_spec a 42) as [->|Ha]; [|kill_num Hc a].
    destruct (head_to_major (S f) depth bud pre None _ _ _ _ Hw lt67 Eh) as (-> & Hw1 & _).
    unfold dec_major at 1. cbn [N.eqb Pos.eqb].
    destruct (N.leb_spec two63 42); [unfold two63 in *; lia|].
    destruct (rd_head strict r1) as [[[mj2 a2] r2]|] eqn:Eh2; [|discriminate].
    destruct (N.eqb_spec mj2 2) as [->|Hm]; [|kill_num Hc mj2].
    destruct (take a2 r2) as [[s' r']|] eqn:Et; [|discriminate].
    destruct s' as [|z c']; [discriminate|]. destruct z as [|p]; [|discriminate].
    destruct (bytes_eqb c c') eqn:Ee; [|discriminate]. apply bytes_eqb_eq in Ee. subst c'. inversion Hc; subst r'.
    destruct (head_to_major f depth bud pre (Some 42) _ _ _ _ Hw1 lt27 Eh2) as (-> & _ & _).
    pose proof (take_some _ _ _ _ Et) as [_ Hla]. subst a2. rewrite lenN_cons in *.
    unfold dec_major. cbn [N.eqb Pos.eqb].
    destruct (N.leb_spec two63 (lenN c + 1)); [unfold two63, str_cap in *; lia|].
    destruct (N.ltb_spec str_cap (lenN c + 1)); [lia|]. rewrite Et.
    rewrite prespend_ok by lia. cbn [bind]. rewrite spend_ok by lia. cbn [bind].
    change (42 =? go_linkTag) with true. rewrite Elk, Ecid. cbn [andb]. apply ok3; [reflexivity|lia].
  Qed.

  Lemma dec_ok_wfb f depth bud pre bs v b r : wfb bs -> dec_val f o depth bud pre None bs = Ok (v, b, r) -> wfb r.
  Proof. intros Hw Hd. destruct (sound_all o Hrt f) as [Hv _]. now destruct (Hv _ _ _ _ _ _ _ _ Hw Hd). Qed.

  Lemma list_cost_nonneg l : (0 <= fold_right (fun x a => go_listEntryCost + cost x + a) 0 l)%Z.
  Proof. induction l as [|y r IHr]; cbn [fold_right]; [lia|]. pose proof (cost_nonneg y). unfold go_listEntryCost in *. lia. Qed.
  Lemma map_cost_nonneg (es : list (bytes * dm)) :
    (0 <= fold_right (fun kv a => Z.of_N (lenN (fst kv)) + go_mapEntryCost + cost (snd kv) + a) 0 es)%Z.
  Proof. induction es as [|y r IHr]; cbn [fold_right]; [lia|]. pose proof (cost_nonneg (snd y)). unfold go_mapEntryCost in *. lia. Qed.

  Lemma cp_items l : Forall cp_stmt l -> Forall lim_ok l ->
    forall B fu depth bud bs r,
    wfb bs -> chk_list strict links true l bs = Some r ->
    Forall (fun x => size x <= B)%nat l -> (1 <= B)%nat -> (length l + B <= fu)%nat ->
    Forall (fun x => depth + 1 + Z.of_nat (dm_depth x) <= max_depth o)%Z l ->
    (fold_right (fun x a => go_listEntryCost + cost x + a) 0 l <= bud)%Z ->
    dec_items fu o depth bud (lenN l) bs =
      Ok (l, (bud - fold_right (fun x a => go_listEntryCost + cost x + a) 0 l)%Z, r).
  Proof.
    intros HS HO. induction l as [|x t IH]; intros B fu depth bud bs r Hw Hc HB H1 Hfu HD Hbud.
    - destruct fu as [|fu]; [lia|]. cbn in *. inversion Hc; subst. apply ok3; [reflexivity|lia].
    - destruct fu as [|fu]; [cbn [length] in Hfu; lia|].
      inversion HS as [|? ? HSx HSr]; inversion HO as [|? ? HOx HOr]; inversion HB as [|? ? HBx HBr];
        inversion HD as [|? ? HDx HDr]; subst.
      cbn [dec_items]. unfold dec_items_body. rewrite lenN_cons.
      destruct (N.eqb_spec (lenN t + 1) 0); [lia|].
      cbn [chk_list fold_right] in *.
      destruct (chk strict links true x bs) as [bs'|] eqn:Ex; [|discriminate].
      pose proof (cost_nonneg x) as Hcx. pose proof (list_cost_nonneg t) as Hrest.
      assert (Hdx : dec_val fu o (depth + 1) bud (Some go_listEntryCost) None bs =
                    Ok (x, (bud - pcost (Some go_listEntryCost) - cost x)%Z, bs')).
      { apply HSx; auto; cbn [pcost length] in *; unfold go_listEntryCost in *; lia. }
      rewrite Hdx. cbn [bind pcost]. replace (lenN t + 1 - 1) with (lenN t) by lia.
      pose proof (dec_ok_wfb _ _ _ _ _ _ _ _ Hw Hdx) as Hw'.
      rewrite (IH HSr HOr B fu depth _ bs' r Hw' Hc) by (cbn [length] in *; try assumption; unfold go_listEntryCost in *; lia).
      cbn [bind]. apply ok3; [reflexivity|lia].
  Qed.

  Lemma dec_key_complete bs ka r1 k r2 : wfb bs -> rd_head strict bs = Some (3, ka, r1) ->
    take ka r1 = Some (k, r2) -> lenN k <= str_cap -> dec_key strict true bs = Some (k, r2) /\ wfb r2.
  Proof.
    intros Hw Hh Ht Hk. destruct (rd_head_inv _ _ _ _ _ Hw Hh) as (b & t & -> & Hb & Hmj & Ea & Hr & Ha).
    pose proof (dec_arg_not31 _ _ _ _ _ Ea) as Hai.
    pose proof (take_some _ _ _ _ Ht) as [_ Hla]. subst ka.
    unfold dec_key. rewrite andb_false_r. unfold dec_key_str.
    destruct (N.eqb_spec b 127); [exfalso; lia|]. rewrite <- Hmj. cbn [N.eqb Pos.eqb].
    unfold dec_len. rewrite Ea.
    destruct (N.leb_spec two63 (lenN k)); [unfold two63, str_cap in *; lia|].
    destruct (N.ltb_spec str_cap (lenN k)); [lia|]. split; [exact Ht|]. now destruct (wfb_take _ _ _ _ Hr Ht).
  Qed.

  Lemma cp_entries es : Forall (fun kv => cp_stmt (snd kv)) es ->
    Forall (fun kv => lenN (fst kv) <= str_cap /\ lim_ok (snd kv)) es ->
    forall B fu depth bud seen bs r,
    wfb bs -> chk_ents strict links true es bs = Some r -> nodup_go es seen = true ->
    Forall (fun kv => size (snd kv) <= B)%nat es -> (1 <= B)%nat -> (length es + B <= fu)%nat ->
    Forall (fun kv => depth + 1 + Z.of_nat (dm_depth (snd kv)) <= max_depth o)%Z es ->
    (fold_right (fun kv a => Z.of_N (lenN (fst kv)) + go_mapEntryCost + cost (snd kv) + a) 0 es <= bud)%Z ->
    dec_entries fu o depth bud (lenN es) seen bs =
      Ok (es, (bud - fold_right (fun kv a => Z.of_N (lenN (fst kv)) + go_mapEntryCost + cost (snd kv) + a) 0 es)%Z, r).
  Proof.
    intros HS HO. induction es as [|[k x] t IH]; intros B fu depth bud seen bs r Hw Hc Hnd HB H1 Hfu HD Hbud.
    - destruct fu as [|fu]; [lia|]. cbn in *. inversion Hc; subst. apply ok3; [reflexivity|lia].
    - destruct fu as [|fu]; [cbn [length] in Hfu; lia|].
      inversion HS as [|? ? HSx HSr]; inversion HO as [|? ? [HOk HOx] HOr]; inversion HB as [|? ? HBx HBr];
        inversion HD as [|? ? HDx HDr]; subst.
      cbn [fst snd] in *.
      cbn [dec_entries]. unfold dec_entries_body. rewrite lenN_cons.
      destruct (N.eqb_spec (lenN t + 1) 0); [lia|].
      cbn [chk_ents nodup_go fold_right fst snd] in *.
      destruct (rd_head strict bs) as [[[mj ka] r1]|] eqn:Eh; [|discriminate].
      destruct (N.eqb_spec mj 3) as [->|Hm]; [|kill_num Hc mj].
      destruct (take ka r1) as [[k' r2]|] eqn:Et; [|discriminate].
      destruct (bytes_eqb k k') eqn:Ee; [|discriminate]. apply bytes_eqb_eq in Ee. subst k'.
      destruct (chk strict links true x r2) as [bs'|] eqn:Ex; [|discriminate].
      apply andb_prop in Hnd. destruct Hnd as [Hns Hnd]. apply negb_true_iff in Hns.
      destruct (dec_key_complete _ _ _ _ _ Hw Eh Et HOk) as [Hk Hw2]. rewrite Hrt, Hk.
      pose proof (cost_nonneg x) as Hcx. pose proof (map_cost_nonneg t) as Hrest.
      rewrite spend_ok by (unfold go_mapEntryCost in *; lia). cbn [bind]. rewrite Hns.
      assert (Hdx : dec_val fu o (depth + 1) (bud - (Z.of_N (lenN k) + go_mapEntryCost)) None None r2 =
                    Ok (x, (bud - (Z.of_N (lenN k) + go_mapEntryCost) - pcost None - cost x)%Z, bs')).
      { apply HSx; auto; cbn [pcost length] in *; unfold go_mapEntryCost in *; lia. }
      rewrite Hdx. cbn [bind pcost]. replace (lenN t + 1 - 1) with (lenN t) by lia.
      pose proof (dec_ok_wfb _ _ _ _ _ _ _ _ Hw2 Hdx) as Hw'.
      rewrite (IH HSr HOr B fu depth _ (k :: seen) bs' r Hw' Hc Hnd) by
        (cbn [length] in *; try assumption; unfold go_mapEntryCost in *; lia).
      cbn [bind]. apply ok3; [reflexivity|lia].
  Qed.

  Theorem cp_all v : cp_stmt v.
  Proof.
    induction v as [| b | z | f | s | s | c | l IH | es IH] using dm_ind2;
      [exact cp_null|exact (cp_bool b)|exact (cp_int z)|exact (cp_float f)|exact (cp_string s)|exact (cp_bytes s)|exact (cp_link c)| |].
    - (* list *)
      intros fu depth bud pre bs r Hw Hc Hl Hf Hd Hp Hb.
      apply lim_ok_list in Hl as [Hlen Hall].
      destruct fu as [|fu]; [cbn [size] in Hf; lia|].
      rewrite chk_list_unfold in Hc. cbn [cost size dm_depth] in *.
      destruct (rd_head strict bs) as [[[mj a] r1]|] eqn:Eh; [|discriminate].
      destruct (N.eqb_spec mj 4) as [->|Hm]; [|kill_num Hc mj].
      destruct (N.eqb_spec a (lenN l)) as [->|]; [|discriminate]. cbn [negb] in Hc.
      destruct (head_to_major fu depth bud pre None _ _ _ _ Hw lt47 Eh) as (-> & Hw1 & _).
      unfold dec_major. cbn [N.eqb Pos.eqb].
      destruct (N.leb_spec two63 (lenN l)); [lia|].
      pose proof (list_cost_nonneg l) as Hrest.
      rewrite post_ok by lia.
      destruct (Z.leb_spec (max_depth o) depth); [lia|].
      rewrite spend_ok by lia. cbn [bind].
      set (M := fold_right (fun x a => Nat.max (size x) a) 0%nat l) in *.
      rewrite (cp_items l IH Hall (Nat.max 1 M) fu depth _ r1 r Hw1 Hc).
      + cbn [bind]. apply ok3; [reflexivity|lia].
      + eapply Forall_impl; [|apply (fold_max_le' size l)]. intros a Ha. cbv beta in Ha |- *. unfold M. lia.
      + lia.
      + lia.
      + eapply Forall_impl; [|apply (fold_max_le' dm_depth l)]. intros a Ha. cbv beta in Ha |- *. lia.
      + lia.
    - (* map *)
      intros fu depth bud pre bs r Hw Hc Hl Hf Hd Hp Hb.
      apply lim_ok_map in Hl as [Hlen Hall].
      destruct fu as [|fu]; [cbn [size] in Hf; lia|].
      rewrite chk_map_unfold in Hc. cbn [cost size dm_depth] in *.
      destruct (rd_head strict bs) as [[[mj a] r1]|] eqn:Eh; [|discriminate].
      destruct (N.eqb_spec mj 5) as [->|Hm]; [|kill_num Hc mj].
      destruct (N.eqb_spec a (lenN es)) as [->|]; [|discriminate]. cbn [negb orb] in Hc.
      destruct (nodup_go es []) eqn:End; [|discriminate]. cbn [negb] in Hc.
      destruct (head_to_major fu depth bud pre None _ _ _ _ Hw lt57 Eh) as (-> & Hw1 & _).
      unfold dec_major. cbn [N.eqb Pos.eqb].
      destruct (N.leb_spec two63 (lenN es)); [lia|].
      pose proof (map_cost_nonneg es) as Hrest.
      rewrite post_ok by lia.
      destruct (Z.leb_spec (max_depth o) depth); [lia|].
      rewrite spend_ok by lia. cbn [bind].
      set (M := fold_right (fun kv a => Nat.max (size (snd kv)) a) 0%nat es) in *.
      rewrite (cp_entries es IH Hall (Nat.max 1 M) fu depth _ [] r1 r Hw1 Hc End).
      + cbn [bind]. apply ok3; [reflexivity|lia].
      + eapply Forall_impl; [|apply (fold_max_le' (fun kv => size (snd kv)) es)]. intros a Ha. cbv beta in Ha |- *. unfold M. lia.
      + lia.
      + lia.
      + eapply Forall_impl; [|apply (fold_max_le' (fun kv => dm_depth (snd kv)) es)]. intros a Ha. cbv beta in Ha |- *. lia.
      + lia.
  Qed.
End Complete.

(* ---- enough fuel: an accepted item of value v is at least size v / 2 bytes long ---- *)
Lemma rd_head_rest strict bs mj a r : rd_head strict bs = Some (mj, a, r) -> (length r < length bs)%nat.
Proof.
  destruct bs as [|b t]; [discriminate|]. rewrite rd_head_dec_arg.
  destruct (dec_arg strict (b mod 32) t) as [[a' r']|] eqn:Ea; [|discriminate].
  intros E; inversion E; subst. apply dec_arg_rest in Ea. cbn [length]. lia.
Qed.

Definition consumes (s l n : bool) (v : dm) : Prop :=
  forall bs r, chk s l n v bs = Some r -> (size v + 2 * length r <= 2 * length bs)%nat.

Lemma chk_list_measure s l n (vs : list dm) : Forall (consumes s l n) vs ->
  forall bs r, chk_list s l n vs bs = Some r ->
  (length vs + length r <= length bs)%nat /\
  (length vs + fold_right (fun x a => Nat.max (size x) a) 0%nat vs + 2 * length r <= 2 * length bs + 1)%nat.
Proof.
  induction 1 as [|x t Hx _ IH]; intros bs r Hc; cbn [chk_list length fold_right] in *.
  - inversion Hc; subst. lia.
  - destruct (chk s l n x bs) as [bs'|] eqn:Ex; [|discriminate].
    specialize (Hx _ _ Ex). destruct (IH _ _ Hc) as [H1 H2]. pose proof (size_pos x). lia.
Qed.

Lemma chk_ents_measure s l n (es : list (bytes * dm)) : Forall (fun kv => consumes s l n (snd kv)) es ->
  forall bs r, chk_ents s l n es bs = Some r ->
  (length es + length r <= length bs)%nat /\
  (length es + fold_right (fun kv a => Nat.max (size (snd kv)) a) 0%nat es + 2 * length r <= 2 * length bs + 1)%nat.
Proof.
  induction 1 as [|[k x] t Hx _ IH]; intros bs r Hc; cbn [chk_ents length fold_right snd] in *.
  - inversion Hc; subst. lia.
  - destruct (rd_head s bs) as [[[mj ka] r1]|] eqn:Eh; [|discriminate].
    destruct (N.eqb_spec mj 3) as [->|Hm]; [|kill_num Hc mj].
    destruct (take ka r1) as [[k' r2]|] eqn:Et; [|discriminate].
    destruct (bytes_eqb k k'); [|discriminate].
    destruct (chk s l n x r2) as [bs'|] eqn:Ex; [|discriminate].
    apply rd_head_rest in Eh. apply take_shorter in Et.
    specialize (Hx _ _ Ex). destruct (IH _ _ Hc) as [H1 H2]. pose proof (size_pos x). lia.
Qed.

Lemma chk_consumes s l n v : consumes s l n v.
Proof.
  induction v as [| b | z | f | x | x | c | vs IH | es IH] using dm_ind2; intros bs r Hc.
  - rewrite chk_null_eq in Hc. destruct bs as [|b t]; [discriminate|].
    destruct ((b =? 246) || (b =? 247)); [|discriminate]. inversion Hc; subst. cbn [size length]. lia.
  - rewrite chk_bool_eq in Hc. destruct bs as [|b0 t]; [discriminate|].
    destruct (b0 =? 244); [destruct b; [discriminate|]; inversion Hc; subst; cbn [size length]; lia|].
    destruct (b0 =? 245); [|discriminate]. destruct b; [|discriminate]. inversion Hc; subst. cbn [size length]. lia.
  - cbn [chk] in Hc. destruct (rd_head s bs) as [[[mj a] r1]|] eqn:Eh; [|discriminate].
    apply rd_head_rest in Eh. cbn [size].
    destruct (_ && _); [inversion Hc; subst; lia|]. destruct (_ && _); [inversion Hc; subst; lia|].
    destruct (_ && _); [inversion Hc; subst; lia|discriminate].
  - rewrite chk_float_eq in Hc. destruct (s && _); [discriminate|]. destruct bs as [|b t]; [discriminate|].
    cbn [size length].
    destruct (b =? 251); [destruct (take 8 t) as [[y r']|] eqn:Et; [|discriminate]; destruct (fl_ok _ _); [|discriminate];
                          inversion Hc; subst; apply take_shorter in Et; lia|].
    destruct (b =? 250); [destruct (take 4 t) as [[y r']|] eqn:Et; [|discriminate]; destruct (fl_ok _ _); [|discriminate];
                          inversion Hc; subst; apply take_shorter in Et; lia|].
    destruct (b =? 249); [destruct (take 2 t) as [[y r']|] eqn:Et; [|discriminate]; destruct (fl_ok _ _); [|discriminate];
                          inversion Hc; subst; apply take_shorter in Et; lia|discriminate].
  - cbn [chk] in Hc. destruct (rd_head s bs) as [[[mj a] r1]|] eqn:Eh; [|discriminate].
    destruct (N.eqb_spec mj 3) as [->|Hm]; [|kill_num Hc mj].
    destruct (take a r1) as [[s' r']|] eqn:Et; [|discriminate]. destruct (bytes_eqb x s'); [|discriminate].
    inversion Hc; subst. apply rd_head_rest in Eh. apply take_shorter in Et. cbn [size]. lia.
  - cbn [chk] in Hc. destruct (rd_head s bs) as [[[mj a] r1]|] eqn:Eh; [|discriminate].
    destruct (N.eqb_spec mj 2) as [->|Hm]; [|kill_num Hc mj].
    destruct (take a r1) as [[s' r']|] eqn:Et; [|discriminate]. destruct (bytes_eqb x s'); [|discriminate].
    inversion Hc; subst. apply rd_head_rest in Eh. apply take_shorter in Et. cbn [size]. lia.
  - cbn [chk] in Hc. destruct (negb l || negb (cid_valid c)); [discriminate|].
    destruct (rd_head s bs) as [[[mj a] r1]|] eqn:Eh; [|discriminate].
    destruct (N.eqb_spec mj 6) as [->|Hm]; [|kill_num Hc mj].
    destruct (N.eqb_spec a 42) as [->|Ha]; [|kill_num Hc a].
    destruct (rd_head s r1) as [[[mj2 a2] r2]|] eqn:Eh2; [|discriminate].
    destruct (N.eqb_spec mj2 2) as [->|Hm]; [|kill_num Hc mj2].
    destruct (take a2 r2) as [[s' r']|] eqn:Et; [|discriminate].
    destruct s' as [|z c']; [discriminate|]. destruct z as [|p]; [|discriminate].
    destruct (bytes_eqb c c'); [|discriminate]. inversion Hc; subst.
    apply rd_head_rest in Eh, Eh2. apply take_shorter in Et. cbn [size]. lia.
  - rewrite chk_list_unfold in Hc. destruct (rd_head s bs) as [[[mj a] r1]|] eqn:Eh; [|discriminate].
    destruct (N.eqb_spec mj 4) as [->|Hm]; [|kill_num Hc mj].
    destruct (negb (a =? lenN vs)); [discriminate|].
    apply rd_head_rest in Eh. destruct (chk_list_measure _ _ _ _ IH _ _ Hc) as [H1 H2]. cbn [size].
    destruct vs as [|v0 t]; cbn [length fold_right] in *; [lia|]. pose proof (size_pos v0). lia.
  - rewrite chk_map_unfold in Hc. destruct (rd_head s bs) as [[[mj a] r1]|] eqn:Eh; [|discriminate].
    destruct (N.eqb_spec mj 5) as [->|Hm]; [|kill_num Hc mj].
    destruct (negb (a =? lenN es) || negb (nodup_go es [])); [discriminate|].
    apply rd_head_rest in Eh. destruct (chk_ents_measure _ _ _ _ IH _ _ Hc) as [H1 H2]. cbn [size].
    destruct es as [|v0 t]; cbn [length fold_right] in *; [lia|]. pose proof (size_pos (snd v0)). lia.
Qed.

(* C03, the converse direction: a byte string the SPEC accepts as one item denoting v, with v within the
   configured limits, is accepted by the decoder with exactly v (on the repaired tree) *)
Theorem decode_complete o bs v rest : d_reject_tags o = true -> wfb bs ->
  chk (negb (d_relaxed o)) (d_allow_links o) true v bs = Some rest -> lim_ok v ->
  (Z.of_nat (dm_depth v) <= max_depth o)%Z -> (cost v <= budget0 o)%Z ->
  (d_dont_parse_beyond o = false -> rest = []) ->
  decode o bs = Ok (v, rest).
Proof.
  intros Hrt Hw Hc Hl Hd Hb Hrest. unfold decode.
  pose proof (chk_consumes _ _ _ _ _ _ Hc) as Hsz.
  rewrite (cp_all o Hrt v (dec_fuel bs) 0%Z (budget0 o) None bs rest Hw Hc Hl) by (unfold dec_fuel; cbn [pcost]; lia).
  destruct (d_dont_parse_beyond o); [reflexivity|]. now rewrite Hrest.
Qed.

(* ---- the limits are necessary as well: what the strict decoder accepts satisfies [lim_ok] ---- *)
Section Limits.
  Variable o : dopts.
  Hypothesis Hrt : d_reject_tags o = true.
  Hypothesis Hstrict : d_relaxed o = false.

  Definition L_val (f : nat) : Prop := forall depth bud pre tag bs v b r,
    dec_val f o depth bud pre tag bs = Ok (v, b, r) -> lim_ok v.
  Definition L_items (f : nat) : Prop := forall depth bud n bs vs b r,
    dec_items f o depth bud n bs = Ok (vs, b, r) -> Forall lim_ok vs /\ lenN vs = n.
  Definition L_ents (f : nat) : Prop := forall depth bud n seen bs vs b r,
    dec_entries f o depth bud n seen bs = Ok (vs, b, r) ->
    Forall (fun kv => lenN (fst kv) <= str_cap /\ lim_ok (snd kv)) vs /\ lenN vs = n.

  Lemma post_ok_inv bud pre tag k x : post o bud pre tag k = Ok x -> exists b1, k b1 = Ok x.
  Proof.
    unfold post. destruct (prespend bud pre) as [b1|]; cbn [bind]; [|discriminate].
    destruct tag; [rewrite Hrt; discriminate|eauto].
  Qed.

  Lemma dec_key_len k bs r : dec_key true true bs = Some (k, r) -> lenN k <= str_cap.
  Proof.
    unfold dec_key. destruct bs as [|b t]; [discriminate|]. rewrite andb_false_r. unfold dec_key_str.
    destruct (b =? 127); [discriminate|]. destruct (b / 32 =? 3); [|discriminate].
    destruct (dec_len true (b mod 32) t) as [[n r']|]; [|discriminate].
    destruct (N.ltb_spec str_cap n); [discriminate|]. intros Ht. apply take_some in Ht as [_ Hl]. lia.
  Qed.

  Lemma lim_step f : L_val f -> L_items f -> L_ents f -> L_val (S f) /\ L_items (S f) /\ L_ents (S f).
  Proof.
    intros IHv IHi IHe. split; [|split].
    - intros depth bud pre tag bs v b r. cbn [dec_val]. unfold dec_val_body. rewrite Hstrict. cbn [negb].
      destruct bs as [|b0 t]; [discriminate|].
      destruct ((b0 =? 246) || (b0 =? 247)).
      { intros HH. apply post_ok_inv in HH as (b1 & HH). inversion HH; subst. exact I. }
      destruct (b0 =? 244).
      { intros HH. apply post_ok_inv in HH as (b1 & HH). destruct (spend b1 1); cbn [bind] in HH; [|discriminate].
        inversion HH; subst. exact I. }
      destruct (b0 =? 245).
      { intros HH. apply post_ok_inv in HH as (b1 & HH). destruct (spend b1 1); cbn [bind] in HH; [|discriminate].
        inversion HH; subst. exact I. }
      destruct ((b0 =? 249) || (b0 =? 250) || (b0 =? 251)).
      { destruct (take _ t) as [[x r1]|]; [|discriminate].
        destruct (check_float true _) as [fv|] eqn:Ec; [|discriminate].
        intros HH. apply post_ok_inv in HH as (b1 & HH). destruct (spend b1 1); cbn [bind] in HH; [|discriminate].
        inversion HH; subst. cbn [lim_ok]. unfold check_float in Ec. cbn [andb] in Ec.
        destruct (f64_is_nan _ || f64_is_inf _) eqn:En; [discriminate|]. inversion Ec; subst.
        apply orb_false_iff in En. tauto. }
      destruct ((b0 =? 95) || (b0 =? 127) || (b0 =? 159) || (b0 =? 191)); [discriminate|].
      destruct (224 <=? b0); [discriminate|].
      destruct (dec_arg true (b0 mod 32) t) as [[a r1]|]; [|discriminate].
      unfold dec_major. generalize (b0 / 32). intros mj.
      destruct (mj =? 0).
      { intros HH. apply post_ok_inv in HH as (b1 & HH). destruct (spend b1 1); cbn [bind] in HH; [|discriminate].
        inversion HH; subst. exact I. }
      destruct (mj =? 1).
      { destruct (two63 <? (a + 1) mod two64); [discriminate|].
        intros HH. apply post_ok_inv in HH as (b1 & HH). destruct (spend b1 1); cbn [bind] in HH; [|discriminate].
        inversion HH; subst. exact I. }
      destruct (N.leb_spec two63 a); [discriminate|].
      destruct (mj =? 2).
      { destruct (N.ltb_spec str_cap a); [discriminate|].
        destruct (take a r1) as [[s r2]|] eqn:Et; [|discriminate]. apply take_some in Et as [_ Hl].
        destruct (prespend bud pre); cbn [bind]; [|discriminate].
        destruct (spend _ _); cbn [bind]; [|discriminate].
        destruct tag as [tg|].
        - destruct ((tg =? go_linkTag) && d_allow_links o); [|discriminate].
          destruct s as [|[|p] c]; try discriminate. destruct (cid_valid c); [|discriminate].
          intros HH; inversion HH; subst. cbn [lim_ok]. rewrite lenN_cons in *. lia.
        - intros HH; inversion HH; subst. cbn [lim_ok]. lia. }
      destruct (mj =? 3).
      { destruct (N.ltb_spec str_cap a); [discriminate|].
        destruct (take a r1) as [[s r2]|] eqn:Et; [|discriminate]. apply take_some in Et as [_ Hl].
        intros HH. apply post_ok_inv in HH as (b1 & HH). destruct (spend b1 _); cbn [bind] in HH; [|discriminate].
        inversion HH; subst. cbn [lim_ok]. lia. }
      destruct (mj =? 4).
      { intros HH. apply post_ok_inv in HH as (b1 & HH).
        destruct (_ <=? _)%Z; [discriminate|]. destruct (spend b1 _) as [b2|]; cbn [bind] in HH; [|discriminate].
        destruct (dec_items f o depth b2 a r1) as [[[vs b3] r3]|] eqn:Ed; cbn [bind] in HH; [|discriminate].
        inversion HH; subst. destruct (IHi _ _ _ _ _ _ _ Ed) as [HF Hl]. apply lim_ok_list. split; [lia|exact HF]. }
      destruct (mj =? 5).
      { intros HH. apply post_ok_inv in HH as (b1 & HH).
        destruct (_ <=? _)%Z; [discriminate|]. destruct (spend b1 _) as [b2|]; cbn [bind] in HH; [|discriminate].
        destruct (dec_entries f o depth b2 a [] r1) as [[[vs b3] r3]|] eqn:Ed; cbn [bind] in HH; [|discriminate].
        inversion HH; subst. destruct (IHe _ _ _ _ _ _ _ _ Ed) as [HF Hl]. apply lim_ok_map. split; [lia|exact HF]. }
      destruct tag; [discriminate|]. intros HH. exact (IHv _ _ _ _ _ _ _ _ HH).
    - intros depth bud n bs vs b r. cbn [dec_items]. unfold dec_items_body.
      destruct (N.eqb_spec n 0) as [->|].
      { intros HH; inversion HH; subst. split; [constructor|reflexivity]. }
      destruct (dec_val f o (depth + 1) bud (Some go_listEntryCost) None bs) as [[[v b2] bs2]|] eqn:Ed; cbn [bind]; [|discriminate].
      destruct (dec_items f o depth b2 (n - 1) bs2) as [[[vs' b3] bs3]|] eqn:Ed2; cbn [bind]; [|discriminate].
      destruct (IHi _ _ _ _ _ _ _ Ed2) as [HF Hl].
      intros HH; inversion HH; subst. split; [constructor; [exact (IHv _ _ _ _ _ _ _ _ Ed)|exact HF]|rewrite lenN_cons; lia].
    - intros depth bud n seen bs vs b r. cbn [dec_entries]. unfold dec_entries_body. rewrite Hstrict, Hrt. cbn [negb].
      destruct (N.eqb_spec n 0) as [->|].
      { intros HH; inversion HH; subst. split; [constructor|reflexivity]. }
      destruct (dec_key true true bs) as [[k bs1]|] eqn:Ek; [|discriminate].
      destruct (spend bud _) as [bud1|]; cbn [bind]; [|discriminate].
      destruct (existsb (bytes_eqb k) seen); [discriminate|].
      destruct (dec_val f o (depth + 1) bud1 None None bs1) as [[[v b2] bs2]|] eqn:Ed; cbn [bind]; [|discriminate].
      destruct (dec_entries f o depth b2 (n - 1) (k :: seen) bs2) as [[[vs' b3] bs3]|] eqn:Ed2; cbn [bind]; [|discriminate].
      destruct (IHe _ _ _ _ _ _ _ _ Ed2) as [HF Hl].
      intros HH; inversion HH; subst. split; [|rewrite lenN_cons; lia].
      constructor; [|exact HF]. cbn [fst snd]. split; [exact (dec_key_len _ _ _ Ek)|exact (IHv _ _ _ _ _ _ _ _ Ed)].
  Qed.

  Lemma lim_all : forall f, L_val f /\ L_items f /\ L_ents f.
  Proof.
    induction f as [|f (IHv & IHi & IHe)].
    - unfold L_val, L_items, L_ents. split; [|split]; intros; cbn in *; discriminate.
    - now apply lim_step.
  Qed.

  Theorem decode_lim bs v rest : decode o bs = Ok (v, rest) -> lim_ok v.
  Proof.
    unfold decode.
    destruct (dec_val (dec_fuel bs) o 0 (budget0 o) None None bs) as [[[v' b] r]|] eqn:Ed; [|discriminate].
    destruct (lim_all (dec_fuel bs)) as [Hv _]. pose proof (Hv _ _ _ _ _ _ _ _ Ed) as Hl.
    destruct (d_dont_parse_beyond o); [intros H; inversion H; subst; exact Hl|].
    destruct r; [|discriminate]. intros H; inversion H; subst. exact Hl.
  Qed.
End Limits.

Lemma max_depth_pos o : (0 < max_depth o)%Z.
Proof. unfold max_depth. destruct (Z.ltb_spec 0 (d_max_depth o)); [assumption|]. unfold go_defaultMaxDepth. lia. Qed.

(* C03 from both sides, strict mode, repaired tree: the decoder accepts bs with (v, rest) exactly when the
   SPEC says a prefix of bs is one well-formed item denoting v, v is within the configured limits, and
   nothing is left over unless stop-at-end was asked *)
Theorem decode_iff o bs v rest : d_reject_tags o = true -> d_relaxed o = false -> (0 <= budget0 o)%Z -> wfb bs ->
  (decode o bs = Ok (v, rest) <->
   chk true (d_allow_links o) true v bs = Some rest /\ lim_ok v /\
   (Z.of_nat (dm_depth v) <= max_depth o)%Z /\ (cost v <= budget0 o)%Z /\
   (d_dont_parse_beyond o = false -> rest = [])).
Proof.
  intros Hrt Hs Hb Hw. pose proof (max_depth_pos o) as Hmd. split.
  - intros Hd. destruct (decode_sound o Hrt bs v rest Hw Hd) as [Hc Hr]. rewrite Hs in Hc. cbn [negb] in Hc.
    destruct (decode_bounded o bs v rest Hd) as [H1 H2].
    repeat split; auto; [exact (decode_lim o Hrt Hs bs v rest Hd)|apply H1; lia].
  - intros (Hc & Hl & Hd & Hco & Hr). apply decode_complete; auto. rewrite Hs. exact Hc.
Qed.
