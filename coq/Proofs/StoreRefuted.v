(* Proofs/StoreRefuted.v — the faithful model of the PINNED fsstore (escapingFunc never applied,
   commit("") = abort reports success) violates C17; concrete witnesses by computation. *)
Require Import IP.Base.Bytes IP.Base.GoSem IP.Gen.FromGo IP.Store.Storage IP.Store.FsStore IP.Store.FsCrash.
Require Import IP.Proofs.StoreBase IP.Proofs.StoreFs.
From Coq Require Import List Bool.
Import ListNotations.
Open Scope N_scope.

Definition wbase : list (list N) := [[100]; [115]].                       (* /d/s *)
Definition k_escape : list N := [46;46;47;46;46;47;120].                 (* "../../x" *)
Definition k_alias1 : list N := [97;47;98;99;100;101;102;103;104].       (* "a/bcdefgh" *)
Definition k_alias2 : list N := [97;47;47;98;99;100;101;102;103;104].    (* "a//bcdefgh" *)
Definition k_plain : list N := [107].                                    (* "k" *)
Definition k_intemp : list N := [46;46;47;46;116;101;109;112;47;122;122]. (* "../.temp/zz" *)
Definition content1 : list N := [67;79;78].                              (* "CON" *)

(* 1. the path of a key leaves the base directory, for each sharding function *)
Lemma escape_path : forall sh, path_for_key (pinned_cfg wbase sh) k_escape = Some [[120]].
Proof. destruct sh; vm_compute; reflexivity. Qed.

Lemma not_inside_x : ~ inside wbase [[120]].
Proof. intros [rest [_ [E _]]]. unfold wbase in E. simpl in E. discriminate. Qed.

Definition obs_of (l : list (obs * fs * list ev)) : list obs := map (fun r => fst (fst r)) l.

(* Put("../../x") issues a rename to /x: the containment theorem fails for the pinned code *)
Theorem fs_contained_refuted : forall sh,
  ~ Forall (res_inside wbase)
      (fs_run (pinned_cfg wbase sh) (fstate0 (pinned_cfg wbase sh)) [ONew content1; OPut k_escape 0]).
Proof.
  intros sh H.
  assert (X : exists st r, In (SRename st [[120]], r)
               (snd (nth 1 (fs_run (pinned_cfg wbase sh) (fstate0 (pinned_cfg wbase sh)) [ONew content1; OPut k_escape 0])
                           (OUnit, [], [])))).
  { destruct sh; vm_compute; eexists; eexists; repeat (try (left; reflexivity); right). }
  destruct X as [st [r X]].
  rewrite Forall_forall in H.
  assert (IN : In (nth 1 (fs_run (pinned_cfg wbase sh) (fstate0 (pinned_cfg wbase sh)) [ONew content1; OPut k_escape 0]) (OUnit, [], []))
                  (fs_run (pinned_cfg wbase sh) (fstate0 (pinned_cfg wbase sh)) [ONew content1; OPut k_escape 0])).
  { apply nth_In. destruct sh; vm_compute; repeat constructor. }
  specialize (H _ IN). unfold res_inside in H. rewrite Forall_forall in H. specialize (H _ X).
  unfold ev_inside in H. simpl in H. inversion H as [|? ? _ H2]. inversion H2 as [|? ? H3 _].
  apply not_inside_x. exact H3.
Qed.

(* and the file really is created outside *)
Lemma escape_file_created : forall sh,
  fs_lookup (snd (fst (nth 1 (fs_run (pinned_cfg wbase sh) (fstate0 (pinned_cfg wbase sh)) [ONew content1; OPut k_escape 0])
                             (OUnit, [], [])))) [[120]] = Some (File content1).
Proof. destruct sh; vm_compute; reflexivity. Qed.

(* 2. two different keys, one path *)
Theorem fs_injective_refuted : forall sh,
  k_alias1 <> k_alias2 /\
  path_for_key (pinned_cfg wbase sh) k_alias1 = path_for_key (pinned_cfg wbase sh) k_alias2 /\
  path_for_key (pinned_cfg wbase sh) k_alias1 <> None.
Proof. intros sh. split. discriminate. destruct sh; vm_compute; split; (reflexivity || discriminate). Qed.

(* ... so that a key never stored is reported present, with the other key's block *)
Theorem alias_observed : forall sh,
  obs_of (fs_run (pinned_cfg wbase sh) (fstate0 (pinned_cfg wbase sh))
            [ONew content1; OPut k_alias1 0; OHas k_alias2; OGet k_alias2])
  = [OUnit; OOk; OBool true; OBytes content1].
Proof. destruct sh; vm_compute; reflexivity. Qed.

(* 3. Put("") reports success and stores nothing *)
Theorem empty_key_put_refuted : forall sh,
  obs_of (fs_run (pinned_cfg wbase sh) (fstate0 (pinned_cfg wbase sh)) [ONew content1; OPut [] 0; OGet []])
  = [OUnit; OOk; OErr ENOENT].
Proof. destruct sh; vm_compute; reflexivity. Qed.

(* 4. Has("") is true as soon as the padding directory exists *)
Theorem empty_key_has_refuted : forall sh,
  obs_of (fs_run (pinned_cfg wbase sh) (fstate0 (pinned_cfg wbase sh)) [ONew content1; OPut k_plain 0; OHas []])
  = [OUnit; OOk; OBool true].
Proof. destruct sh; vm_compute; reflexivity. Qed.

(* 5. a key that names a directory of the store: Has is true on a fresh store, Put reports success
      and drops the block (os.Rename's EEXIST on a directory is taken for "already there") *)
Theorem key_is_dir_refuted :
  obs_of (fs_run (pinned_cfg wbase R12) (fstate0 (pinned_cfg wbase R12))
            [ONew content1; OHas [46;46]; OPut [46;46] 0; OGet [46;46]])
  = [OUnit; OBool true; OOk; OErr EISDIR].
Proof. vm_compute; reflexivity. Qed.

(* what the specification demands in these four histories *)
Lemma spec_says : 
  spec_run (@Some (list N)) true spec_empty [ONew content1; OPut k_alias1 0; OHas k_alias2; OGet k_alias2]
    = [OUnit; OOk; OBool false; OErr E404] /\
  spec_run (@Some (list N)) true spec_empty [ONew content1; OPut [] 0; OGet []] = [OUnit; OOk; OBytes content1] /\
  spec_run (@Some (list N)) true spec_empty [ONew content1; OPut k_plain 0; OHas []] = [OUnit; OOk; OBool false] /\
  spec_run (@Some (list N)) true spec_empty [ONew content1; OHas [46;46]; OPut [46;46] 0; OGet [46;46]]
    = [OUnit; OBool false; OOk; OBytes content1].
Proof. repeat split; vm_compute; reflexivity. Qed.

(* 6. (C18) without escaping a key path can lie inside the staging directory *)
Theorem staging_collision_refuted :
  path_for_key (pinned_cfg wbase R12) k_intemp = Some (stage_path wbase [122;122]).
Proof. vm_compute; reflexivity. Qed.

(* the same histories on the REPAIRED configuration agree with the specification *)
Theorem repaired_agrees :
  obs_of (fs_run (repaired_cfg wbase R12) (fstate0 (repaired_cfg wbase R12))
            [ONew content1; OPut k_alias1 0; OHas k_alias2; OGet k_alias2; OPut k_escape 0; OGet k_escape; OHas []; OGet k_alias1])
  = [OUnit; OOk; OBool false; OErr ENOENT; OOk; OBytes content1; OBool false; OBytes content1].
Proof. vm_compute; reflexivity. Qed.
