(* Proofs/BindPure.v — binding as a function of the call history.  With the registry reused (the
   repaired setting) the outcome of every Wrap / Prototype+build / Marshal / Unmarshal call is the
   outcome of the same call on the initial state, whatever calls came before, and no call ends in
   the duplicate-type-name panic.  On the pinned setting both fail (witnesses below). *)
Require Import IP.Base.Bytes IP.DM.Value IP.Bind.GoVal IP.Bind.Bind IP.Bind.Spec IP.Proofs.BindFacts.
Open Scope N_scope.

Section shape_ind2.
  Variable P : shape -> Prop.
  Hypothesis Hb : P SBool.
  Hypothesis Hi : forall k, P (SInt k).
  Hypothesis Hf : forall b, P (SFloat b).
  Hypothesis Hs : P SString.
  Hypothesis Hy : P SBytes.
  Hypothesis Hl : forall k, P (SLink k).
  Hypothesis Hn : P SNode.
  Hypothesis Hp : forall s, P s -> P (SPtr s).
  Hypothesis Hsl : forall n s, P s -> P (SSlice n s).
  Hypothesis Hst : forall n fs, Forall (fun f => P (snd f)) fs -> P (SStruct n fs).
  Hypothesis Hm : forall k v, P k -> P v -> P (SGoMap k v).
  Fixpoint shape_ind2 (s : shape) : P s :=
    match s with
    | SBool => Hb | SInt k => Hi k | SFloat b => Hf b | SString => Hs | SBytes => Hy
    | SLink k => Hl k | SNode => Hn
    | SPtr x => Hp x (shape_ind2 x)
    | SSlice n x => Hsl n x (shape_ind2 x)
    | SStruct n fs => Hst n fs ((fix go (fs : list (bytes * shape)) : Forall (fun f => P (snd f)) fs :=
        match fs with
        | [] => Forall_nil _
        | (a, x) :: r => Forall_cons (a, x) (shape_ind2 x) (go r)
        end) fs)
    | SGoMap k v => Hm k v (shape_ind2 k) (shape_ind2 v)
    end.
End shape_ind2.

(* inferGoType only ever fails on a field name that is no Go identifier *)
Lemma infer_gotype_err : forall t e, infer_gotype t = Err e -> e = PReflect.
Proof.
  induction t using sty_ind2; intros e0 E; try discriminate.
  - simpl in E. destruct (infer_gotype t) eqn:E1; simpl in E; [discriminate|]. inversion E; subst. eauto.
  - simpl in E. destruct (infer_gotype t1) eqn:E1; simpl in E; [|inversion E; subst; eauto].
    destruct (infer_gotype t2) eqn:E2; simpl in E; [discriminate|]. inversion E; subst. eauto.
  - simpl in E.
    assert (HF : forall e, ig_fields (fun f => infer_gotype (f_type f)) fs = Err e -> e = PReflect).
    { clear E. induction H as [|f fs Hf HFs IH]; intros e E; [discriminate|].
      cbn [ig_fields] in E. destruct (infer_gotype (f_type f)) eqn:E1; cbn [bind] in E; [|inversion E; subst; eauto].
      destruct (negb (is_ident (title (f_name f)))); [inversion E; reflexivity|].
      destruct (ig_fields (fun f => infer_gotype (f_type f)) fs) eqn:E2; cbn [bind] in E; [discriminate|].
      inversion E; subst. eauto. }
    destruct (ig_fields (fun f => infer_gotype (f_type f)) fs) eqn:E2; simpl in E; [discriminate|].
    inversion E; subst. eauto.
  - simpl in E.
    assert (HF : forall e, ig_members (fun m => infer_gotype (snd m)) ms = Err e -> e = PReflect).
    { clear E. induction H as [|m ms Hm HMs IH]; intros e E; [discriminate|].
      cbn [ig_members] in E. destruct (infer_gotype (snd m)) eqn:E1; cbn [bind] in E; [|inversion E; subst; eauto].
      destruct (negb (is_ident (title (sty_name (snd m))))); [inversion E; reflexivity|].
      destruct (ig_members (fun m => infer_gotype (snd m)) ms) eqn:E2; cbn [bind] in E; [discriminate|].
      inversion E; subst. eauto. }
    destruct (ig_members (fun m => infer_gotype (snd m)) ms) eqn:E2; simpl in E; [discriminate|].
    inversion E; subst. eauto.
Qed.

Section Pure.
  Variable q : quirks.
  Variable n32 : N -> N.
  Hypothesis Hreuse : q_reuse_registered q = true.

  Lemma accumulate_ok : forall n r, snd (accumulate q n r) = Ok tt.
  Proof. intros n r. unfold accumulate. rewrite Hreuse. destruct (reg_mem n r); reflexivity. Qed.

  Lemma acc_snd : forall nm r (k : sty),
    snd (match accumulate q nm r with
         | (r2, Err e) => (r2, Err e)
         | (r2, Ok _) => (r2, Ok k)
         end) = Ok k.
  Proof.
    intros nm r k. pose proof (accumulate_ok nm r) as A.
    destruct (accumulate q nm r) as [r2 [u|e]]; simpl in A; [reflexivity | congruence].
  Qed.

  (* the inferred schema (or the refusal) does not depend on what is registered *)
  Definition indep (s : shape) : Prop :=
    forall r r', snd (infer_schema q s r) = snd (infer_schema q s r').

  Lemma is_fields_indep : forall ss,
    Forall (fun f => indep (snd f)) ss ->
    forall r r', snd (is_fields (fun ns => infer_schema q (snd ns)) ss r)
               = snd (is_fields (fun ns => infer_schema q (snd ns)) ss r').
  Proof.
    induction ss as [|[n s] ss IH]; intros HF r r'; [reflexivity|].
    inversion HF as [|? ? H1 H2]; subst. simpl in H1.
    cbn [is_fields snd].
    specialize (H1 r r').
    destruct (infer_schema q s r) as [r1 [t|e]], (infer_schema q s r') as [r1' [t'|e']];
      simpl in H1; try congruence; [|simpl; congruence].
    - inversion H1; subst t'.
      specialize (IH H2 r1 r1').
      destruct (is_fields (fun ns => infer_schema q (snd ns)) ss r1) as [r2 [fs|e]],
               (is_fields (fun ns => infer_schema q (snd ns)) ss r1') as [r2' [fs'|e']];
        simpl in IH; try congruence; simpl; congruence.
  Qed.

  Lemma infer_indep : forall s, indep s.
  Proof.
    induction s using shape_ind2; unfold indep; intros r r'; try reflexivity.
    - destruct k; reflexivity.
    - destruct b; reflexivity.
    - (* slice *)
      cbn [infer_schema]. specialize (IHs r r').
      destruct (infer_schema q s r) as [r1 [t|e]], (infer_schema q s r') as [r1' [t'|e']];
        cbn [snd] in IHs; try congruence; [|cbn [snd]; congruence].
      inversion IHs; subst t'. rewrite !acc_snd. reflexivity.
    - (* struct *)
      cbn [infer_schema].
      pose proof (is_fields_indep fs H r r') as HF.
      destruct (is_fields (fun ns => infer_schema q (snd ns)) fs r) as [r1 [fl|e]],
               (is_fields (fun ns => infer_schema q (snd ns)) fs r') as [r1' [fl'|e']];
        cbn [snd] in HF; try congruence; [|cbn [snd]; congruence].
      inversion HF; subst fl'.
      destruct n as [|c n]; [reflexivity|]. rewrite !acc_snd. reflexivity.
  Qed.

  Lemma resolve_indep : forall a s r r', snd (resolve q a s r) = snd (resolve q a s r').
  Proof.
    intros a s r r'. unfold resolve.
    destruct s; try reflexivity; destruct a; try reflexivity; apply infer_indep.
  Qed.

  Lemma step_indep : forall c r r', snd (step q n32 r c) = snd (step q n32 r' c).
  Proof.
    intros c r r'. destruct c; cbn [step].
    - pose proof (resolve_indep a s r r') as H.
      destruct (resolve q a s r) as [r1 [t|e]], (resolve q a s r') as [r1' [t'|e']];
        simpl in H; try congruence; simpl; congruence.
    - pose proof (resolve_indep a s r r') as H.
      destruct (resolve q a s r) as [r1 [t|e]], (resolve q a s r') as [r1' [t'|e']];
        simpl in H; try congruence; simpl; congruence.
    - pose proof (resolve_indep a s r r') as H.
      destruct (resolve q a s r) as [r1 [t|e]], (resolve q a s r') as [r1' [t'|e']];
        simpl in H; try congruence; simpl; congruence.
    - pose proof (resolve_indep a s r r') as H.
      destruct (resolve q a s r) as [r1 [t|e]], (resolve q a s r') as [r1' [t'|e']];
        simpl in H; try congruence; simpl; try congruence.
      inversion H; subst t'.
      destruct (asm q LRepr n32 t s (zero_of s) false d); [|reflexivity].
      pose proof (resolve_indep a s r1 r1') as H2.
      destruct (resolve q a s r1) as [r2 [t2|e2]], (resolve q a s r1') as [r2' [t2'|e2']];
        simpl in H2; try congruence; simpl; congruence.
    - destruct (infer_gotype t); reflexivity.
  Qed.

  (* every call of every history gives what the same call gives on the initial state *)
  Theorem run_pure : forall cs r,
    run q n32 r cs = map (fun c => snd (step q n32 registry0 c)) cs.
  Proof.
    induction cs as [|c cs IH]; intros r; [reflexivity|].
    cbn [run map]. rewrite (step_indep c r registry0). f_equal. apply IH.
  Qed.

  (* and never the duplicate-type-name panic *)
  Lemma is_fields_nodup : forall ss,
    Forall (fun f => forall r, snd (infer_schema q (snd f) r) <> Err PDup) ss ->
    forall r, snd (is_fields (fun ns => infer_schema q (snd ns)) ss r) <> Err PDup.
  Proof.
    induction ss as [|[n s] ss IH]; intros HF r; [discriminate|].
    inversion HF as [|? ? H1 H2]; subst. simpl in H1.
    cbn [is_fields snd]. specialize (H1 r).
    destruct (infer_schema q s r) as [r1 [t|e]]; simpl in *; [|congruence].
    specialize (IH H2 r1).
    destruct (is_fields (fun ns => infer_schema q (snd ns)) ss r1) as [r2 [fs|e]]; simpl in *; congruence.
  Qed.

  Lemma infer_nodup : forall s r, snd (infer_schema q s r) <> Err PDup.
  Proof.
    induction s using shape_ind2; intros r; try discriminate.
    - destruct k; discriminate.
    - destruct b; discriminate.
    - cbn [infer_schema]. specialize (IHs r).
      destruct (infer_schema q s r) as [r1 [t|e]]; cbn [snd] in *; [|congruence].
      rewrite acc_snd. discriminate.
    - cbn [infer_schema].
      pose proof (is_fields_nodup fs H r) as HF.
      destruct (is_fields (fun ns => infer_schema q (snd ns)) fs r) as [r1 [fl|e]]; cbn [snd] in *; [|congruence].
      destruct n as [|c n]; [discriminate|]. rewrite acc_snd. discriminate.
  Qed.

  Theorem step_never_dup : forall c r, snd (step q n32 r c) <> OFail PDup.
  Proof.
    assert (R : forall a s r, snd (resolve q a s r) <> Err PDup).
    { intros a s r. unfold resolve. destruct s; try discriminate; destruct a;
        try (simpl; destruct (verify_compat _ _); discriminate); apply infer_nodup. }
    intros c r. destruct c; cbn [step].
    - pose proof (R a s r) as H. destruct (resolve q a s r) as [r1 [t|e]]; simpl in *; congruence.
    - pose proof (R a s r) as H. destruct (resolve q a s r) as [r1 [t|e]]; simpl in *; congruence.
    - pose proof (R a s r) as H. destruct (resolve q a s r) as [r1 [t|e]]; simpl in *; congruence.
    - pose proof (R a s r) as H. destruct (resolve q a s r) as [r1 [t|e]]; simpl in *; [|congruence].
      destruct (asm q LRepr n32 t s (zero_of s) false d); [|cbn; congruence].
      pose proof (R a s r1) as H2. destruct (resolve q a s r1) as [r2 [t2|e2]]; simpl in *; congruence.
    - destruct (infer_gotype t) eqn:E; cbn; [congruence|].
      apply infer_gotype_err in E. subst. discriminate.
  Qed.
End Pure.

(* ---- the pinned tree: purity fails ----------------------------------------------------------- *)

Definition name_D : bytes := [68].
Definition shape_D : shape := SStruct name_D [([78], SInt I64)].     (* type D struct { N int64 } *)
Definition value_D : gv := GStruct [GInt 1%Z].

(* Wrap(&d, nil); Wrap(&d, nil): the second call panics with "duplicate type name: D", the first
   (the same call on the initial state) succeeded *)
Lemma rewrap_refuted : forall n32,
  exists c, run pinned n32 registry0 [c; c] <> map (fun c => snd (step pinned n32 registry0 c)) [c; c]
            /\ nth 1 (run pinned n32 registry0 [c; c]) (OFail XOther) = OFail PDup.
Proof.
  intros n32. exists (CWrap Inferred shape_D value_D). split; [|reflexivity].
  vm_compute. discriminate.
Qed.

(* one call is enough when a struct has two fields of the same unnamed slice type *)
Definition shape_two_lists : shape :=
  SStruct [67] [([88], SSlice [] SString); ([89], SSlice [] SString)].
Lemma first_wrap_refuted : forall n32,
  snd (step pinned n32 registry0 (CWrap Inferred shape_two_lists (GStruct [GNil; GNil]))) = OFail PDup.
Proof. reflexivity. Qed.

(* ipld.Unmarshal with a nil schema resolves the schema twice: it always panics for a named struct *)
Lemma unmarshal_nil_refuted : forall n32,
  snd (step pinned n32 registry0 (CUnmarshal Inferred shape_D (DMap [([78], DInt 1%Z)]))) = OFail PDup.
Proof. reflexivity. Qed.

(* the repaired setting gives the first call's answer both times *)
Example rewrap_repaired : forall n32,
  let c := CWrap Inferred shape_D value_D in
  run repaired n32 registry0 [c; c] =
  [OView (Ok (DMap [([78], DInt 1%Z)])) (Ok (DMap [([78], DInt 1%Z)]));
   OView (Ok (DMap [([78], DInt 1%Z)])) (Ok (DMap [([78], DInt 1%Z)]))].
Proof. reflexivity. Qed.
