(* Proofs/BindCbor.v — Marshal / Unmarshal through codecs that canonicalise the order of map entries,
   and the instance for the concrete DAG-CBOR model (Codec/Cbor.v: encoder closed form [encb], decoder
   [decode]) using C02's round trip [decode_encode] and order independence [encb_perm_invariant]. *)
Require Import IP.Base.Bytes IP.DM.Value IP.Bind.GoVal IP.Bind.Bind IP.Bind.Spec.
Require Import IP.Proofs.BindFacts IP.Proofs.BindView IP.Proofs.BindAsm IP.Proofs.BindFits IP.Proofs.BindRefute
  IP.Proofs.BindPerm.
Require Import IP.Codec.Cid IP.Codec.Cbor IP.Proofs.CborEnc IP.Proofs.CborDec.
From Coq Require Import Permutation Lia ZifyN ZifyNat ZifyBool.
Open Scope N_scope.

Section MarshalPerm.
  Variable q : quirks.
  Variable n32 : N -> N.
  Variable enc : dm -> bytes.
  Variable dec : bytes -> bres dm.
  Variable encodable : dm -> Prop.     (* the trees the codec handles (sizes, depth, distinct keys, ...) *)
  (* the decoder returns what the encoder was given, up to the order of map entries at every level *)
  Hypothesis codec_perm : forall d, encodable d -> exists d', dec (enc d) = Ok d' /\ perm_eq d d'.

  Theorem marshal_roundtrip_perm : forall t s g,
    is_any t = false -> bindable t s = true -> gv_ok q n32 t s g = true ->
    encodable (denote LRepr t g) ->
    exists b g',
      marshal q enc t s g = Ok b /\ unmarshal q n32 dec t s b = Ok g' /\
      gv_ok q n32 t s g' = true /\
      perm_eq (denote LRepr t g) (denote LRepr t g') /\
      view q LRepr t s g' = Ok (denote LRepr t g').
  Proof.
    intros t s g Hany Hb Hg Henc.
    pose proof (view_denote q LRepr n32 t Hany s g Hb Hg) as Hv.
    pose proof (bindable_noptr _ _ Hb) as Hnp.
    assert (Hloc : loc_ok (fun _ => bindable t) t s = true)
      by (destruct s; simpl in *; try assumption; discriminate).
    assert (Hd : deref1 s = s) by (destruct s; simpl in *; try reflexivity; discriminate).
    pose proof (denote_fits q n32 LRepr t s g Hb Hg) as Hfit. rewrite <- Hd in Hfit.
    destruct (codec_perm _ Henc) as [d' [Hdec Hp]].
    destruct (asm_perm q n32 LRepr t s (denote LRepr t g) d' Hloc Hfit Hp) as [g' [Ha [Hok Hden]]].
    assert (Hok' : gv_ok q n32 t s g' = true).
    { unfold ok_loc in Hok. destruct s; simpl in *; try assumption; discriminate. }
    exists (enc (denote LRepr t g)), g'.
    unfold marshal, unmarshal. rewrite Hv. cbn [bind]. rewrite Hdec. cbn [bind].
    repeat split; try assumption.
    apply (view_denote q LRepr n32 t Hany s g' Hb Hok').
  Qed.

  (* an encoder that does not look at the order of map entries gives the same bytes again *)
  Hypothesis enc_perm : forall d d', keys_nodup d -> perm_eq d d' -> enc d = enc d'.

  Theorem marshal_remarshal_perm : forall t s g,
    is_any t = false -> bindable t s = true -> gv_ok q n32 t s g = true ->
    encodable (denote LRepr t g) -> keys_nodup (denote LRepr t g) ->
    exists b g',
      marshal q enc t s g = Ok b /\ unmarshal q n32 dec t s b = Ok g' /\
      gv_ok q n32 t s g' = true /\
      perm_eq (denote LRepr t g) (denote LRepr t g') /\
      marshal q enc t s g' = Ok b.
  Proof.
    intros t s g Hany Hb Hg Henc Hnd.
    destruct (marshal_roundtrip_perm t s g Hany Hb Hg Henc) as [b [g' [Hm [Hu [Hok [Hp Hv]]]]]].
    exists b, g'. repeat split; try assumption.
    unfold marshal in *. rewrite Hv. cbn [bind].
    rewrite (view_denote q LRepr n32 t Hany s g Hb Hg) in Hm. cbn [bind] in Hm. inversion Hm; subst b.
    f_equal. symmetry. apply enc_perm; assumption.
  Qed.
End MarshalPerm.

(* ---- the dag-cbor instance -------------------------------------------------------------------- *)

Definition cbor_enc (d : dm) : bytes := encb SortRFC7049 d.
Definition cbor_dec (o : dopts) (b : bytes) : bres dm :=
  match decode o b with
  | Ok (d, []) => Ok d
  | _ => Err XOther
  end.

(* the registered encoder (dagcbor.Encode: links allowed, RFC7049 key order) produces these bytes *)
Lemma cbor_enc_is_encode : forall d, Cbor.enc dagcbor_eopts d = Ok (cbor_enc d).
Proof. intros d. apply (enc_ok dagcbor_eopts d). reflexivity. Qed.

(* within the decoder's configured limits: ints in range, strings to the cap, distinct keys, depth and
   allocation budget *)
Definition within_cbor_limits (o : dopts) (d : dm) : Prop :=
  rt_ok d /\ (Z.of_nat (dm_depth d) <= max_depth o)%Z /\ (cost d <= budget0 o)%Z.

Lemma pe_sortv : forall m v, perm_eq v (sortv m v).
Proof.
  intros m v. induction v as [| x | z | f | s | s | c | l IH | es IH] using dm_ind2; cbn [sortv]; try apply pe_refl.
  - apply pe_list. induction IH as [|x r Hx _ IHr]; cbn [map]; constructor; auto.
  - apply (pe_map es (map (fun kv => (fst kv, sortv m (snd kv))) es)); [|apply sort_entries_perm].
    induction IH as [|x r Hx _ IHr]; cbn [map]; constructor; auto.
Qed.

Lemma rt_ok_keys_nodup : forall v, rt_ok v -> keys_nodup v.
Proof.
  intros v. induction v as [| x | z | f | s | s | c | l IH | es IH] using dm_ind2; intros H; try exact I.
  - apply keys_nodup_list. apply rt_ok_list in H. destruct H as [_ H].
    rewrite Forall_forall in *. intros x Hx. apply IH; auto.
  - apply keys_nodup_map. apply rt_ok_map in H. destruct H as [_ [Hnd H]].
    split; [exact Hnd|]. rewrite Forall_forall in *. intros x Hx. apply IH; [exact Hx|]. apply H. exact Hx.
Qed.

Lemma cbor_codec_perm : forall o, d_allow_links o = true ->
  forall d, within_cbor_limits o d -> exists d', cbor_dec o (cbor_enc d) = Ok d' /\ perm_eq d d'.
Proof.
  intros o Hl d [Hok [Hd Hc]]. exists (sortv SortRFC7049 d). split; [|apply pe_sortv].
  unfold cbor_dec, cbor_enc. rewrite (decode_encode SortRFC7049 o d Hl Hok Hd Hc). reflexivity.
Qed.

Lemma cbor_enc_perm : forall d d', keys_nodup d -> perm_eq d d' -> cbor_enc d = cbor_enc d'.
Proof. intros d d' Hnd Hp. apply encb_perm_invariant; [discriminate | exact Hp | exact Hnd]. Qed.

(* Marshal with dag-cbor, Unmarshal the bytes with dag-cbor into a fresh value: no premise about the
   codec is left except that the representation is within the decoder's limits *)
Theorem marshal_roundtrip_dagcbor : forall q n32 o t s g,
  d_allow_links o = true ->
  is_any t = false -> bindable t s = true -> gv_ok q n32 t s g = true ->
  within_cbor_limits o (denote LRepr t g) ->
  exists b g',
    marshal q cbor_enc t s g = Ok b /\ unmarshal q n32 (cbor_dec o) t s b = Ok g' /\
    gv_ok q n32 t s g' = true /\
    perm_eq (denote LRepr t g) (denote LRepr t g') /\
    marshal q cbor_enc t s g' = Ok b.
Proof.
  intros q n32 o t s g Hl Hany Hb Hg Hw.
  apply (marshal_remarshal_perm q n32 cbor_enc (cbor_dec o) (within_cbor_limits o) (cbor_codec_perm o Hl) cbor_enc_perm
           t s g Hany Hb Hg Hw).
  apply rt_ok_keys_nodup. exact (proj1 Hw).
Qed.

(* ---- non-vacuity ------------------------------------------------------------------------------ *)

(* an ordered map {String:Int} whose Keys are not in DAG-CBOR order *)
Definition t_msi : sty := TMap [77] TString TInt false.
Definition s_msi : shape := SStruct [77] [(str_Keys, SSlice [] SString); (str_Values, SGoMap SString (SInt I64))].
Definition g_msi : gv :=
  GStruct [GSlice [GString [98]; GString [97]]; GGoMap [(GString [98], GInt 1); (GString [97], GInt 2)]].

Example dagcbor_hyps_sat : forall q n32,
  d_allow_links (dagcbor_dopts true) = true /\ is_any t_msi = false /\ bindable t_msi s_msi = true /\
  gv_ok q n32 t_msi s_msi g_msi = true /\ within_cbor_limits (dagcbor_dopts true) (denote LRepr t_msi g_msi).
Proof.
  intros. repeat split; try reflexivity; try (vm_compute; congruence).
  - change (denote LRepr t_msi g_msi) with (DMap [([98], DInt 1%Z); ([97], DInt 2%Z)]).
    apply rt_ok_map. split; [vm_compute; reflexivity|]. split.
    + repeat constructor; simpl; intuition congruence.
    + repeat constructor; cbn; try lia; vm_compute; congruence.
Qed.

(* the round trip really reorders: the fresh value has Keys [a; b], the same entries, the same bytes *)
Example dagcbor_roundtrip_reorders :
  let b := cbor_enc (denote LRepr t_msi g_msi) in
  unmarshal pinned (fun x => x) (cbor_dec (dagcbor_dopts true)) t_msi s_msi b
  = Ok (GStruct [GSlice [GString [97]; GString [98]]; GGoMap [(GString [97], GInt 2); (GString [98], GInt 1)]]).
Proof. vm_compute. reflexivity. Qed.
