(* Proofs/TravC15Examples.v — the hypotheses of the C15 theorems are satisfiable: a concrete graph with a
   repeated link, the "walk everything, match everything" selector, and each control applied to it. *)
Require Import IP.Base.Bytes IP.DM.Value IP.Trav.Selector IP.Trav.Walk IP.Trav.Controls IP.Trav.ControlsSpec
  IP.Proofs.TravFacts IP.Proofs.TravSkip IP.Proofs.TravOnce IP.Proofs.TravStart.
Open Scope Z_scope.

Definition ex_c1 : bytes := [1; 113; 18; 1; 170]%N.
Definition ex_g : list (bytes * dm) := [(ex_c1, DMap [([118%N], DInt 7)])].
Definition ex_root : dm :=
  DMap [([97%N], DLink ex_c1); ([98%N], DList [DInt 1; DLink ex_c1; DString [104%N; 105%N]])].
(* R(none, |[ ., a>@ ]) *)
Definition ex_seq : sel := SUnion [SMatch None; SAll SEdge].
Definition ex_sel : sel := SRec ex_seq ex_seq None None.
Definition ex_U := walk_adv pinned ex_g 10 ex_root ex_sel.

Example ex_U_ok : snd ex_U = OOk /\ length (visits (fst ex_U)) = 8%nat /\ length (loads (fst ex_U)) = 2%nat.
Proof. vm_compute. repeat split. Qed.

Example ex_distinct : walk_distinct pinned ex_g 10 ex_root ex_sel = true.
Proof. vm_compute. reflexivity. Qed.

(* the start path b/1 (the second, repeated, link) is visited *)
Example ex_start_visited :
  Exists (fun e => at_path (map SegS [[98%N]; [49%N]]) e = true) (fst ex_U).
Proof. apply Exists_exists. eexists. split; [|shelve]. vm_compute. do 7 right. left. reflexivity.
  Unshelve. vm_compute. reflexivity. Qed.

Example ex_budget_hyp : 0 <= 4 /\ Z.of_nat (length (loads (fst ex_U))) <= 9223372036854775807.
Proof. vm_compute. split; discriminate. Qed.
