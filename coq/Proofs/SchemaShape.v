(* Proofs/SchemaShape.v — whatever the specification accepts lies in the value space of the type
   ([has_shape]); with SchemaBuild: a builder never returns a node outside it (C09: "never by silently
   producing a node that violates the type"). *)
Require Import IP.Base.Bytes IP.DM.Value IP.Schema.Types IP.Schema.View IP.Schema.Conform IP.Schema.Sem
  IP.Proofs.SchemaBase IP.Proofs.SchemaBuild IP.Proofs.SchemaRepr.
From Coq Require Import Lia.
Open Scope N_scope.

Lemma has_fields_ext (h1 h2 : ty -> tv -> bool) fs vs :
  (forall c v, h1 c v = true -> h2 c v = true) -> has_fields h1 fs vs = true -> has_fields h2 fs vs = true.
Proof.
  intros H. revert vs; induction fs as [|f fs IH]; intros vs; destruct vs as [|v vs]; cbn; auto.
  rewrite !andb_true_iff. intros [H1 H2]. split; auto. destruct v; cbn in *; auto.
Qed.

Theorem shape_of_has n : forall t v, has_f n t v = true -> shape_f n t v = true.
Proof.
  induction n as [|n IH]; intros t v H; [discriminate|].
  unfold shape_f in *. cbn [has_f fuel_rec] in *.
  destruct t; destruct v; cbn [has_step shape_step] in *; auto; try discriminate.
  - rewrite forallb_forall in *. intros x Hx. specialize (H x Hx). destruct x; cbn in *; auto.
  - apply andb_true_iff in H as [H1 H2]. rewrite H1. cbn. rewrite forallb_forall in *.
    intros x Hx. specialize (H2 x Hx). destruct (snd x); cbn in *; auto.
  - apply andb_true_iff in H as [H1 _]. eapply has_fields_ext; eauto.
  - destruct (nth_error ms i); auto.
Qed.

Section ShapeStep.
  Variables (lvl : level) (rc : ty -> dm -> option tv) (hs : ty -> tv -> bool).
  Hypothesis Hrec : forall c d v, rc c d = Some v -> wf c = true -> hs c v = true.

  Lemma conf_maybe_shape opt nul c d m :
    wf c = true -> conf_maybe rc nul c d = Some m -> is_absent m = false /\ has_maybe hs opt nul c m = true.
  Proof.
    intros Hc. unfold conf_maybe.
    destruct d; try (destruct (rc c _) eqn:E; [|discriminate]; intros H; inversion H; subst; cbn; split; auto; eapply Hrec; eauto).
    destruct nul; [|discriminate]. intros H; inversion H; subst. cbn. auto.
  Qed.

  Lemma conf_fields_shape key fs m vs :
    Forall (fun f => wf (snd f) = true) fs -> conf_fields rc key fs m = Some (VStruct vs) -> has_fields hs fs vs = true.
  Proof.
    intros Hch. unfold conf_fields. destruct (nodupb _ && forallb _ m); [|discriminate].
    destruct (mapM _ fs) as [vs'|] eqn:E; [|discriminate]. intros H; inversion H; subst. clear H.
    revert vs E. induction fs as [|f fs IH]; intros vs E; cbn in E.
    - inversion E; reflexivity.
    - inversion Hch as [|? ? Hc Hch']; subst.
      destruct (assoc (key (fst f)) m) as [d|].
      + destruct (conf_maybe rc (f_nul (fst f)) (snd f) d) as [v|] eqn:Ev; [|discriminate].
        destruct (mapM _ fs) as [vr|] eqn:Er; [|discriminate]. inversion E; subst. cbn.
        destruct (conf_maybe_shape (f_opt (fst f)) _ _ _ _ Hc Ev) as [_ Hm]. rewrite Hm. cbn. now apply IH.
      + destruct (f_opt (fst f)) eqn:Eo; [|discriminate].
        destruct (mapM _ fs) as [vr|] eqn:Er; [|discriminate]. inversion E; subst. cbn. rewrite ?Eo. cbn. now apply IH.
  Qed.

  Lemma conf_tuple_shape fs : forall l vs,
    Forall (fun f => wf (snd f) = true) fs -> conf_tuple rc fs l = Some vs -> has_fields hs fs vs = true.
  Proof.
    induction fs as [|f fs IH]; intros l vs Hch; destruct l as [|d l]; cbn; try discriminate.
    - intros H; inversion H; reflexivity.
    - inversion Hch as [|? ? Hc Hch']; subst. destruct (f_opt (fst f)) eqn:Eo; [|discriminate].
      destruct (conf_tuple rc fs []) eqn:Et; [|discriminate]. intros H; inversion H; subst. cbn. rewrite ?Eo. cbn.
      eapply IH; eauto.
    - inversion Hch as [|? ? Hc Hch']; subst.
      destruct (conf_maybe rc (f_nul (fst f)) (snd f) d) as [v|] eqn:Ev; [|discriminate].
      destruct (conf_tuple rc fs l) eqn:Et; [|discriminate]. intros H; inversion H; subst. cbn.
      destruct (conf_maybe_shape (f_opt (fst f)) _ _ _ _ Hc Ev) as [_ Hm]. rewrite Hm. cbn. eapply IH; eauto.
  Qed.

  Lemma conf_join_shape fs : forall parts vs,
    Forall (fun f => wf (snd f) = true) fs -> conf_join rc fs parts = Some vs -> has_fields hs fs vs = true.
  Proof.
    induction fs as [|f fs IH]; intros parts vs Hch; destruct parts as [|p pr]; cbn; try discriminate.
    - intros H; inversion H; reflexivity.
    - inversion Hch as [|? ? Hc Hch']; subst.
      destruct (rc (snd f) (DString p)) as [v|] eqn:Ev; [|discriminate].
      destruct (conf_join rc fs pr) eqn:Ej; [|discriminate]. intros H; inversion H; subst. cbn.
      rewrite (Hrec _ _ _ Ev Hc). cbn. eapply IH; eauto.
  Qed.

  Lemma conf_member_shape ms p d v :
    Forall (fun m => wf (snd m) = true) ms -> conf_member rc ms p d = Some v ->
    exists i w m, v = VUnion i w /\ nth_error ms i = Some m /\ hs (snd m) w = true.
  Proof.
    intros Hch. unfold conf_member. destruct (find_idx _ ms) as [[i m]|] eqn:E; [|discriminate].
    destruct (rc (snd m) d) as [w|] eqn:Ew; [|discriminate]. intros H; inversion H; subst.
    pose proof (member_wf ms _ i m Hch E) as Hc. apply find_idx_some in E as [En _].
    exists i, w, m. repeat split; auto. eapply Hrec; eauto.
  Qed.

  Lemma mapM_forallb {A B} (f : A -> option B) (P : B -> bool) l r :
    mapM f l = Some r -> (forall x y, In x l -> f x = Some y -> P y = true) -> forallb P r = true.
  Proof.
    revert r; induction l as [|x l IH]; intros r; cbn.
    - intros H; inversion H; reflexivity.
    - destruct (f x) as [y|] eqn:E; [|discriminate]. destruct (mapM f l) as [ys|] eqn:E2; [|discriminate].
      intros H Hp; inversion H; subst. cbn. rewrite (Hp x y (or_introl eq_refl) E). cbn.
      apply IH; auto. intros x0 y0 Hx0 Hf0. apply (Hp x0 y0); auto.
  Qed.

  Lemma shape_step_ok t d v : conf_step lvl rc t d = Some v -> wf t = true -> shape_step hs t v = true.
  Proof.
    unfold conf_step. destruct (kind_eqb (kind_of d) KNull) eqn:Hk; [discriminate|]. intros H Hwf.
    destruct t.
    - destruct d; cbn in H; try discriminate. inversion H; subst. reflexivity.
    - destruct d; cbn in H; try (destruct w; discriminate). destruct w.
      + destruct (in_int64 z) eqn:E; [|discriminate]. inversion H; subst. exact E.
      + destruct (in_int8 z) eqn:E; [|discriminate]. inversion H; subst. exact E.
    - destruct d; cbn in H; try discriminate. inversion H; subst. reflexivity.
    - destruct d; cbn in H; try discriminate. inversion H; subst. reflexivity.
    - destruct d; cbn in H; try discriminate. inversion H; subst. reflexivity.
    - destruct d; cbn in H; try discriminate. inversion H; subst. reflexivity.
    - cbn [conf_scalar] in H. destruct (negb (kind_eqb (kind_of d) KNull) && dm_wf d) eqn:E; [|discriminate].
      inversion H; subst. exact E.
    - (* list *)
      destruct d; try discriminate. destruct (mapM (conf_maybe rc nul t) l) as [vs|] eqn:E; [|discriminate].
      inversion H; subst. cbn [shape_step]. eapply mapM_forallb; eauto.
      intros x y _ Hxy. exact (proj2 (conf_maybe_shape false nul t x y Hwf Hxy)).
    - (* map *)
      destruct d; try discriminate. destruct (nodupb (map fst m)) eqn:End; [|discriminate].
      destruct (mapM _ m) as [vs|] eqn:E; [|discriminate]. inversion H; subst. cbn [shape_step].
      assert (Hk' : map fst vs = map fst m /\ forallb (fun kv => has_maybe hs false nul t (snd kv)) vs = true).
      { clear -E Hwf Hrec. revert vs E. induction m as [|[k x] m IH]; intros vs E; cbn in E.
        - inversion E; auto.
        - destruct (conf_maybe rc nul t x) as [y|] eqn:Ey; [|discriminate].
          destruct (mapM _ m) as [ys|] eqn:E2; [|discriminate]. inversion E; subst. cbn.
          destruct (IH ys eq_refl) as [I1 I2]. rewrite I1, I2.
          destruct (conf_maybe_shape false nul t x y Hwf Ey) as [_ Hm]. rewrite Hm. auto. }
      destruct Hk' as [K1 K2]. now rewrite K1, End, K2.
    - (* struct *)
      destruct (wf_children_struct _ _ Hwf) as [_ Hch].
      assert (G : forall key m, conf_fields rc key fs m = Some v -> shape_step hs (TStruct r fs) v = true).
      { intros key m Hc. unfold conf_fields in Hc. destruct (nodupb _ && forallb _ m) eqn:Eg; [|discriminate].
        destruct (mapM _ fs) as [vs|] eqn:Em; [|discriminate]. inversion Hc; subst. cbn [shape_step].
        apply (conf_fields_shape key fs m); auto. unfold conf_fields. now rewrite Eg, Em. }
      destruct lvl; destruct r; destruct d; try discriminate; try (eapply G; eauto; fail).
      + destruct (conf_tuple rc fs l) as [vs|] eqn:E; [|discriminate]. inversion H; subst. cbn [shape_step].
        eapply conf_tuple_shape; eauto.
      + destruct (conf_join rc fs (split delim s)) as [vs|] eqn:E; [|discriminate]. inversion H; subst.
        cbn [shape_step]. eapply conf_join_shape; eauto.
      + destruct (mapM pair_of l) as [m|]; [|discriminate]. eapply G; eauto.
    - (* union *)
      destruct (wf_children_union _ _ Hwf) as [_ Hch].
      assert (G : forall p x, conf_member rc ms p x = Some v -> shape_step hs (TUnion r ms) v = true).
      { intros p x Hc. destruct (conf_member_shape ms p x v Hch Hc) as [i [w [m [-> [En Hh]]]]].
        cbn [shape_step]. now rewrite En. }
      destruct lvl; destruct r; try (destruct d as [| | | | | | | |m]; try discriminate;
        destruct m as [|[k x] [|? ?]]; try discriminate; eapply G; eauto; fail).
      + eapply G; eauto.
      + destruct d; try discriminate.
        destruct (sp_parse delim ms s) as [[[i m] rest]|] eqn:E; [|discriminate].
        destruct (rc (snd m) _) as [w|] eqn:Ew; [|discriminate]. inversion H; subst.
        assert (Hin : nth_error ms i = Some m /\ wf (snd m) = true).
        { unfold sp_parse in E. destruct delim.
          - destruct (find_idx _ ms) as [[i' m']|] eqn:E2; [|discriminate]. inversion E; subst.
            split; [apply find_idx_some in E2 as [En _]; exact En|eapply member_wf; eauto].
          - destruct (split_first _ _ _) as [[p0 r0]|]; [|discriminate].
            destruct (find_idx _ ms) as [[i' m']|] eqn:E2; [|discriminate]. inversion E; subst.
            split; [apply find_idx_some in E2 as [En _]; exact En|eapply member_wf; eauto]. }
        destruct Hin as [En Hc]. cbn [shape_step]. rewrite En. eapply Hrec; eauto.
    - (* enum *)
      destruct lvl; destruct d; try discriminate.
      + destruct (existsb _ es) eqn:E; [|discriminate]. inversion H; subst. exact E.
      + destruct int_repr; [|discriminate]. destruct (find _ es) as [x|] eqn:E; [|discriminate].
        inversion H; subst. apply find_some in E as [Hin _]. cbn [shape_step].
        apply existsb_exists. exists x. split; auto. apply sch_bytes_eqb_refl.
      + destruct int_repr; [discriminate|]. destruct (find _ es) as [x|] eqn:E; [|discriminate].
        inversion H; subst. apply find_some in E as [Hin _]. cbn [shape_step].
        apply existsb_exists. exists x. split; auto. apply sch_bytes_eqb_refl.
  Qed.
End ShapeStep.

Theorem conf_shape lvl n : forall t d v, conf_f lvl n t d = Some v -> wf t = true -> shape_f n t v = true.
Proof.
  induction n as [|n IH]; intros t d v H Hwf; [discriminate|].
  unfold conf_f, shape_f in *. cbn [fuel_rec] in *.
  eapply shape_step_ok; eauto.
Qed.

(* a builder with the leniencies off never returns a node outside the value space of the type *)
Theorem built_in_type e q lvl t d v : strict e q -> wf t = true ->
  build e q lvl t d = BOk v -> has_shape t v = true.
Proof.
  intros Hs Hwf Hb. apply (accept_iff e q lvl t d v Hs Hwf) in Hb.
  eapply conf_shape; eauto.
Qed.
