(* Proofs/TravPath.v — C14: the paths reported by the walk resolve (get) to the visited nodes; get is the fold of
   single steps; failure characterisation; path text round trip. *)
Require Import IP.Base.Bytes IP.DM.Value IP.Trav.Selector IP.Trav.Walk IP.Trav.Path
  IP.Trav.Controls IP.Trav.ControlsSpec IP.Proofs.TravFacts IP.Proofs.TravSel IP.Proofs.TravStart.
From Coq Require Import Lia.
Open Scope Z_scope.

(* ------------------------------------------------------------------ get, stepwise *)
Lemma get_app g p : forall n q, get g n (p ++ q) = bind (get g n p) (fun v => get g v q).
Proof.
  induction p as [|sg p IH]; intros; [reflexivity|].
  cbn. destruct (step_deref g n sg) as [v|e]; cbn; [apply IH|reflexivity].
Qed.

Definition get_fold (g : list (bytes * dm)) (n : dm) (p : list seg) : res gerr dm :=
  fold_left (fun acc sg => bind acc (fun v => step_deref g v sg)) p (Ok n).

Lemma fold_err g p e :
  fold_left (fun acc sg => bind acc (fun v => step_deref g v sg)) p (Err e) = Err e.
Proof. induction p; cbn; auto. Qed.

Theorem get_stepwise g p : forall n, get g n p = get_fold g n p.
Proof.
  unfold get_fold. induction p as [|sg p IH]; intros; [reflexivity|].
  cbn. destruct (step_deref g n sg) as [v|e]; cbn; [apply IH|symmetry; apply fold_err].
Qed.

(* get fails iff one single step fails (after a resolvable prefix), and the error is that step's *)
Theorem get_fails_iff g p : forall n e,
  get g n p = Err e <->
  exists p1 sg p2 v, p = p1 ++ sg :: p2 /\ get g n p1 = Ok v /\ step_deref g v sg = Err e.
Proof.
  induction p as [|sg p IH]; intros n e.
  - split; [discriminate|]. intros (p1 & sg & p2 & v & H & _). destruct p1; discriminate.
  - cbn. destruct (step_deref g n sg) as [v|e'] eqn:E; cbn.
    + rewrite IH. split.
      * intros (p1 & sg' & p2 & v' & -> & H1 & H2). exists (sg :: p1), sg', p2, v'. cbn. rewrite E. cbn. auto.
      * intros (p1 & sg' & p2 & v' & H & H1 & H2). destruct p1 as [|x p1].
        -- cbn in *. inversion H; subst. inversion H1; subst. congruence.
        -- cbn in *. inversion H; subst. rewrite E in H1. cbn in H1. exists p1, sg', p2, v'. auto.
    + split.
      * intros H; inversion H; subst. exists [], sg, p, n. auto.
      * intros (p1 & sg' & p2 & v' & H & H1 & H2). destruct p1 as [|x p1].
        -- cbn in *. inversion H; subst. inversion H1; subst. congruence.
        -- cbn in *. inversion H; subst. rewrite E in H1. discriminate.
Qed.

(* what a single step's errors mean *)
Lemma step_ok_iff n sg v : step n sg = Ok v <-> lookup_seg n sg = Some v.
Proof.
  unfold step, lookup_seg. destruct n; try (split; discriminate).
  - destruct (seg_index sg); [|split; discriminate]. destruct (list_at l z); split; congruence.
  - destruct (assoc (seg_string sg) m); split; congruence.
Qed.
Lemma step_terminal_iff n sg : step n sg = Err GTerminal <-> is_container n = false.
Proof.
  unfold step. destruct n; cbn; try (split; [reflexivity|reflexivity]); try (split; congruence).
  - destruct (seg_index sg); [destruct (list_at l z)|]; split; discriminate.
  - destruct (assoc (seg_string sg) m); split; discriminate.
Qed.
Lemma step_missing n sg :
  is_container n = true -> lookup_seg n sg = None ->
  step n sg = Err GNotExists \/ step n sg = Err GBadIndex.
Proof.
  unfold step, lookup_seg. destruct n; try discriminate; intros _.
  - destruct (seg_index sg); [|auto]. destruct (list_at l z); [discriminate|auto].
  - destruct (assoc (seg_string sg) m); [discriminate|auto].
Qed.

(* ------------------------------------------------------------------ well-formed values and graphs *)
Fixpoint keys_ok (v : dm) : bool :=
  match v with
  | DList l => forallb keys_ok l
  | DMap m => nodup_strs (map fst m) && forallb (fun kv => keys_ok (snd kv)) m
  | _ => true
  end.
Definition is_link (v : dm) : bool := match v with DLink _ => true | _ => false end.
(* every block has unique map keys and is not a bare link *)
Definition good_graph (g : list (bytes * dm)) : bool :=
  forallb (fun cb => keys_ok (snd cb) && negb (is_link (snd cb))) g.

Lemma assoc_In {V} k (l : list (bytes * V)) v : assoc k l = Some v -> exists k', In (k', v) l.
Proof.
  induction l as [|[k' v'] l IH]; cbn; [discriminate|].
  destruct (bytes_eqb k k'); [intros H; inversion H; subst; eauto|].
  intros H. destruct (IH H) as [k'' Hk]. eauto.
Qed.

Lemma assoc_nodup {V} (l : list (bytes * V)) : forall k v,
  nodup_strs (map fst l) = true -> In (k, v) l -> assoc k l = Some v.
Proof.
  induction l as [|[k' v'] l IH]; intros k v Hn Hin; [destruct Hin|].
  cbn in *. apply andb_true_iff in Hn. destruct Hn as [Hm Hn]. destruct Hin as [H|H].
  - inversion H; subst. rewrite beqb_refl. reflexivity.
  - destruct (bytes_eqb k k') eqn:E.
    + apply beqb_eq in E. subst. apply negb_true_iff in Hm.
      assert (mem_bytes k' (map fst l) = true) as Hc; [|congruence].
      apply mem_bytes_In. apply in_map_iff. exists (k', v). auto.
    + apply IH; assumption.
Qed.

Lemma good_block g c b : good_graph g = true -> assoc c g = Some b -> keys_ok b = true /\ is_link b = false.
Proof.
  intros Hg Ha. destruct (assoc_In _ _ _ Ha) as [k' Hin].
  unfold good_graph in Hg. rewrite forallb_forall in Hg. specialize (Hg _ Hin). cbn in Hg.
  apply andb_true_iff in Hg. destruct Hg as [H1 H2]. apply negb_true_iff in H2. auto.
Qed.

Lemma index_from_In l : forall i ps v, In (ps, v) (index_from i l) ->
  exists j, ps = SegI (i + Z.of_nat j) /\ nth_error l j = Some v.
Proof.
  induction l as [|x l IH]; intros i ps v H; [destruct H|].
  cbn in H. destruct H as [H|H].
  - inversion H; subst. exists O. split; [f_equal; lia|reflexivity].
  - destruct (IH _ _ _ H) as (j & -> & Hj). exists (S j). split; [f_equal; lia|exact Hj].
Qed.

(* a child the walk enumerates is what a single lookup of its segment returns, and is well-formed *)
Lemma children_lookup q n s ps v :
  keys_ok n = true -> In (ps, v) (children q n s) -> lookup_seg n ps = Some v.
Proof.
  intros Hk. unfold children. destruct (interests s) as [attn|].
  - unfold interest_kids. intros H. apply in_flat_map in H. destruct H as (ps' & _ & H).
    destruct (lookup_seg n ps') eqn:E; [|destruct H]. destruct H as [H|[]]. inversion H; subst. exact E.
  - unfold kids. destruct n; try (intros []).
    + intros H. apply index_from_In in H. destruct H as (j & -> & Hj). cbn.
      unfold list_at. assert (j < length l)%nat by (apply nth_error_Some; congruence).
      assert (E1 : (Z.of_nat j <? 0) = false) by (apply Z.ltb_ge; lia).
      assert (E2 : (Z.of_nat (length l) <=? Z.of_nat j) = false) by (apply Z.leb_gt; lia).
      rewrite E1, E2. cbn. rewrite Nat2Z.id. exact Hj.
    + intros H. apply in_map_iff in H. destruct H as ([k x] & H & Hin). inversion H; subst. cbn.
      cbn in Hk. apply andb_true_iff in Hk. destruct Hk as [Hn _]. apply assoc_nodup; assumption.
Qed.

Lemma lookup_keys_ok n ps v : keys_ok n = true -> lookup_seg n ps = Some v -> keys_ok v = true.
Proof.
  intros Hk. unfold lookup_seg. destruct n; try discriminate.
  - destruct (seg_index ps); [|discriminate]. unfold list_at.
    destruct ((z <? 0) || (Z.of_nat (length l) <=? z))%bool; [discriminate|].
    intros H. apply nth_error_In in H. cbn in Hk. rewrite forallb_forall in Hk. apply Hk; exact H.
  - intros H. destruct (assoc_In _ _ _ H) as [k' Hin]. cbn in Hk. apply andb_true_iff in Hk.
    destruct Hk as [_ Hk]. rewrite forallb_forall in Hk. apply (Hk _ Hin).
Qed.

Lemma seqk_Forall_in {A} (Q : event -> Prop) (step : A -> list event * outcome) ks :
  (forall k, In k ks -> Forall Q (fst (step k))) -> Forall Q (fst (seqk step ks)).
Proof.
  induction ks as [|k r IH]; intros H; cbn; [constructor|].
  pose proof (H k (or_introl eq_refl)) as Hk. destruct (step k) as [e o]. destruct o; cbn in *; auto.
  specialize (IH (fun k' Hin => H k' (or_intror Hin))).
  destruct (seqk step r) as [e' o']; cbn in *. apply Forall_app; auto.
Qed.

(* ------------------------------------------------------------------ walk paths resolve *)
Definition resolves (g : list (bytes * dm)) (root : dm) (e : event) : Prop :=
  match e with
  | EVisit P m r _ =>
      exists n', get g root P = Ok n' /\
                 (m = n' \/ (r = RMatch /\ exists ft, slice_node ft n' = Some m))
  | ELoad _ _ _ => True
  end.

Lemma deref_nonlink g f v : is_link v = false -> deref g f v = Ok v.
Proof. intros H; destruct v; try discriminate; destruct f; reflexivity. Qed.

Section Resolve.
  Variable q : quirks.
  Variable g : list (bytes * dm).
  Variable root : dm.
  Hypothesis Hg : good_graph g = true.

  Lemma walk_resolves f : forall ls P n s,
    get g root P = Ok n -> keys_ok n = true ->
    Forall (resolves g root) (fst (walk q g f ls P n s)).
  Proof.
    induction f as [|f IH]; intros ls P n s Hget Hk; [constructor|].
    assert (Hv : resolves g root (visit_event P n s ls)).
    { unfold visit_event. destruct (match_sel s n) as [m|] eqn:Em; cbn.
      - exists n. split; [exact Hget|]. destruct (match_sel_shape s n m Em) as [->|H]; [left; reflexivity|right; auto].
      - exists n. auto. }
    rewrite walk_S. destruct (is_container n); [|cbn; constructor; [exact Hv|constructor]].
    pose proof (seqk_Forall_in (resolves g root) (explore_step q g (walk q g f) ls P n s) (children q n s)) as H.
    destruct (seqk (explore_step q g (walk q g f) ls P n s) (children q n s)) as [e o]. cbn in *.
    constructor; [exact Hv|]. apply H. clear H. intros [ps v] Hin.
    pose proof (children_lookup q n s ps v Hk Hin) as Hl.
    pose proof (lookup_keys_ok n ps v Hk Hl) as Hkv.
    apply step_ok_iff in Hl.
    unfold explore_step; cbn [fst snd]. destruct (explore q s n ps) as [[s'|]| |]; cbn; try constructor.
    assert (Hstep : forall w, deref g (S (length g)) v = Ok w -> get g root (P ++ [ps]) = Ok w).
    { intros w Hw. rewrite get_app, Hget. cbn [bind get]. unfold step_deref. rewrite Hl. cbn [bind]. rewrite Hw. reflexivity. }
    destruct v; try (apply IH; [apply Hstep; reflexivity|exact Hkv]).
    destruct (assoc c g) as [b|] eqn:Eb; cbn.
    - destruct (good_block g c b Hg Eb) as [Hkb Hlb].
      assert (Hb : get g root (P ++ [ps]) = Ok b).
      { apply Hstep. cbn. rewrite Eb. apply deref_nonlink; exact Hlb. }
      specialize (IH (c :: ls) (P ++ [ps]) b s' Hb Hkb).
      destruct (walk q g f (c :: ls) (P ++ [ps]) b s') as [e' o']. cbn in *.
      constructor; [exact I|exact IH].
    - constructor; [exact I|constructor].
  Qed.
End Resolve.

Theorem walk_paths_resolve q g root f s :
  good_graph g = true -> keys_ok root = true ->
  Forall (resolves g root) (fst (walk_adv q g f root s)).
Proof. intros Hg Hk. apply walk_resolves; auto. Qed.

(* ---- the link-root block: the walk visits the link node, get follows it *)
Definition lb_c1 : bytes := [1; 113; 18; 1; 170]%N.
Definition lb_c2 : bytes := [1; 113; 18; 1; 187]%N.
Definition lb_g : list (bytes * dm) := [(lb_c1, DMap [([118%N], DInt 7)]); (lb_c2, DLink lb_c1)].
Definition lb_root : dm := DMap [([112%N], DLink lb_c2)].
Definition lb_sel : sel := SAll (SMatch None).

Lemma walk_paths_refuted_link_block :
  exists e, In e (fst (walk_adv pinned lb_g 5 lb_root lb_sel)) /\ ~ resolves lb_g lb_root e.
Proof.
  exists (EVisit [SegS [112%N]] (DLink lb_c1) RMatch [lb_c2]). split.
  - vm_compute. right. right. left. reflexivity.
  - intros (n' & Hget & H). vm_compute in Hget. inversion Hget; subst. destruct H as [H|(_ & ft & H)]; discriminate.
Qed.

(* ------------------------------------------------------------------ path text round trip *)
Definition no_slash (s : bytes) : Prop := Forall (fun c => c <> 47%N) s.

Lemma split_run x : forall cur r, no_slash x -> split_slash (x ++ r) cur = split_slash r (rev x ++ cur).
Proof.
  induction x as [|c x IH]; intros cur r H; [reflexivity|].
  inversion H as [|? ? Hc Hx]; subst. cbn [app split_slash].
  destruct (N.eqb_spec c 47); [contradiction|]. rewrite IH by exact Hx. cbn [rev]. rewrite <- app_assoc. reflexivity.
Qed.

Theorem split_join l :
  Forall (fun x => x <> [] /\ no_slash x) l -> split_slash (join_slash l) [] = l.
Proof.
  induction l as [|x l IH]; intros H; [reflexivity|].
  inversion H as [|? ? [Hne Hns] Hl]; subst. destruct l as [|y l].
  - cbn [join_slash]. rewrite <- (app_nil_r x) at 1. rewrite split_run by exact Hns. cbn [split_slash].
    rewrite app_nil_r. destruct (rev x) eqn:E.
    + apply (f_equal (@rev _)) in E. rewrite rev_involutive in E. cbn in E. contradiction.
    + rewrite <- E, rev_involutive. reflexivity.
  - change (join_slash (x :: y :: l)) with (x ++ 47%N :: join_slash (y :: l)).
    rewrite split_run by exact Hns. cbn [split_slash N.eqb Pos.eqb]. rewrite app_nil_r.
    destruct (rev x) eqn:E.
    + apply (f_equal (@rev _)) in E. rewrite rev_involutive in E. cbn in E. contradiction.
    + rewrite <- E, rev_involutive. rewrite IH by exact Hl. reflexivity.
Qed.

Theorem path_roundtrip p :
  Forall (fun x => x <> [] /\ no_slash x) (map seg_string p) ->
  map seg_string (parse_path (format_path p)) = map seg_string p.
Proof.
  intros H. unfold parse_path, format_path. rewrite split_join by exact H.
  rewrite map_map. cbn. apply map_id.
Qed.

(* string segments come back exactly *)
Corollary path_roundtrip_strings l :
  Forall (fun x => x <> [] /\ no_slash x) l -> parse_path (format_path (map SegS l)) = map SegS l.
Proof.
  intros H. unfold parse_path, format_path. rewrite map_map. cbn. rewrite map_id.
  rewrite split_join by exact H. reflexivity.
Qed.

(* and segments that are empty or contain a slash do not survive *)
Example path_roundtrip_needs_hyp :
  parse_path (format_path [SegS [97%N; 47%N; 98%N]]) = [SegS [97%N]; SegS [98%N]] /\
  parse_path (format_path [SegS [97%N]; SegS []]) = [SegS [97%N]].
Proof. split; reflexivity. Qed.

(* the unconditional statement (any blocks with unique keys) and its refutation by the link-root block *)
Definition walk_paths_full : Prop :=
  forall q g root f s,
    forallb (fun cb => keys_ok (snd cb)) g = true -> keys_ok root = true ->
    Forall (resolves g root) (fst (walk_adv q g f root s)).

Lemma walk_paths_full_refuted : ~ walk_paths_full.
Proof.
  intros H. destruct walk_paths_refuted_link_block as (e & Hin & Hn).
  specialize (H pinned lb_g lb_root 5%nat lb_sel eq_refl eq_refl). rewrite Forall_forall in H. exact (Hn (H e Hin)).
Qed.

Example good_example :
  good_graph [([1; 113; 18; 1; 170]%N, DMap [([118%N], DInt 7)])] = true /\
  keys_ok (DMap [([97%N], DLink [1; 113; 18; 1; 170]%N); ([98%N], DList [DInt 1; DString [104%N]])]) = true.
Proof. split; reflexivity. Qed.

(* ------------------------------------------------------------------ Focus from a Progress that carries a path *)
Lemma deref_last_deref g f : forall v l,
  match deref g f v with
  | Ok x => exists l', deref_last g f v l = Ok (x, l')
  | Err e => deref_last g f v l = Err e
  end.
Proof.
  induction f as [|f IH]; intros v l; destruct v; cbn; eauto.
  destruct (assoc c g) as [b|]; [apply IH|reflexivity].
Qed.

Lemma get_last_get g p : forall n done lb,
  match get g n p with
  | Ok x => exists lb', get_last g n done p lb = Ok (x, lb')
  | Err e => get_last g n done p lb = Err e
  end.
Proof.
  induction p as [|sg r IH]; intros n done lb; cbn [get get_last]; [eauto|].
  unfold step_deref. destruct (step n sg) as [v|e]; cbn [bind]; [|reflexivity].
  pose proof (deref_last_deref g (S (length g)) v None) as H.
  destruct (deref g (S (length g)) v) as [x|e]; [|rewrite H; reflexivity].
  destruct H as [l' H]. rewrite H. cbn [bind fst snd]. apply IH.
Qed.

(* the path a nested focus reports is the carried path followed by the focused one, and it reaches what Get reaches *)
Theorem focus_from_spec g pre n q v P lb :
  focus_from g pre n q = Ok (v, P, lb) -> P = pre ++ q /\ get g n q = Ok v.
Proof.
  unfold focus_from. pose proof (get_last_get g q n [] None) as H.
  destruct (get g n q) as [x|e].
  - destruct H as [lb' H]. rewrite H. cbn. intros E; inversion E; subst. auto.
  - rewrite H. discriminate.
Qed.
Theorem focus_from_fails g pre n q e : focus_from g pre n q = Err e <-> get g n q = Err e.
Proof.
  unfold focus_from. pose proof (get_last_get g q n [] None) as H.
  destruct (get g n q) as [x|e0].
  - destruct H as [lb' H]. rewrite H. cbn. split; discriminate.
  - rewrite H. cbn. split; intros E; inversion E; reflexivity.
Qed.

(* ------------------------------------------------------------------ WalkLocal paths resolve segment by segment *)
Lemma get_local_app p : forall n q, get_local n (p ++ q) = bind (get_local n p) (fun v => get_local v q).
Proof.
  induction p as [|sg p IH]; intros; [reflexivity|].
  cbn. destruct (step n sg) as [v|e]; cbn; [apply IH|reflexivity].
Qed.

Theorem walk_local_paths root :
  keys_ok root = true ->
  Forall (fun pv => get_local root (fst pv) = Ok (snd pv)) (walk_local_all root).
Proof.
  intros Hk. unfold walk_local_all.
  assert (H : forall f P n, get_local root P = Ok n -> keys_ok n = true ->
                            Forall (fun pv => get_local root (fst pv) = Ok (snd pv)) (walk_local f P n)).
  { induction f as [|f IH]; intros P n Hg Hn; [constructor|].
    cbn [walk_local]. constructor; [exact Hg|].
    apply Forall_forall. intros pv Hin. apply in_flat_map in Hin. destruct Hin as ([ps x] & Hkid & Hin).
    assert (Hl : lookup_seg n ps = Some x).
    { apply (children_lookup repaired n (SAll (SMatch None)) ps x Hn). exact Hkid. }
    pose proof (lookup_keys_ok n ps x Hn Hl) as Hx. apply step_ok_iff in Hl.
    assert (Hg' : get_local root (P ++ [ps]) = Ok x).
    { rewrite get_local_app, Hg. cbn. rewrite Hl. reflexivity. }
    specialize (IH (P ++ [ps]) x Hg' Hx). rewrite Forall_forall in IH. apply IH. exact Hin. }
  apply H; [reflexivity|exact Hk].
Qed.
