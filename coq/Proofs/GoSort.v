(* Proofs/GoSort.v — the map-key comparison closures that codec/dagcbor/marshal.go (marshalMap) and
   codec/dagjson/marshal.go (Marshal) hand to sort.Slice, as translated from the current Go source by
   gotrans (Gen/FromGo.v), ARE the key orders the codec models sort by (Base/Bytes.v bytes_ltb, rfc_ltb).
   Re-checked against the source on every run: a comparator edited in the Go code no longer proves. *)
Require Import IP.Base.Bytes.
Require IP.Base.GoSem IP.Gen.FromGo.
From Coq Require Import Lia.

Lemma str_ltb_bytes a b : GoSem.str_ltb a b = bytes_ltb a b.
Proof.
  revert b; induction a as [|x a IH]; intros [|y b]; cbn [GoSem.str_ltb bytes_ltb]; try reflexivity.
  all: try (rewrite IH; reflexivity).
Qed.

Lemma str_eqb_bytes a b : GoSem.str_eqb a b = bytes_eqb a b.
Proof.
  revert b; induction a as [|x a IH]; intros [|y b]; cbn [GoSem.str_eqb bytes_eqb]; try reflexivity.
  all: try (rewrite IH; reflexivity).
Qed.

Lemma len_cmp_compare a b : len_cmp a b = Nat.compare (length a) (length b).
Proof.
  revert b; induction a as [|x a IH]; intros [|y b]; cbn [len_cmp length Nat.compare]; try reflexivity.
  apply IH.
Qed.

Lemma rfc_less_generic a b :
  (let '(li, lj) := (GoSem.len64 a, GoSem.len64 b) in
   if Z.eqb li lj then GoSem.str_ltb a b else Z.ltb li lj) = rfc_ltb a b.
Proof.
  unfold rfc_ltb, GoSem.len64. rewrite len_cmp_compare, str_ltb_bytes.
  destruct (Nat.compare_spec (length a) (length b)) as [E|L|G].
  - rewrite E, Z.eqb_refl. reflexivity.
  - destruct (Z.eqb_spec (Z.of_nat (length a)) (Z.of_nat (length b))); [lia|].
    destruct (Z.ltb_spec (Z.of_nat (length a)) (Z.of_nat (length b))); [reflexivity|lia].
  - destruct (Z.eqb_spec (Z.of_nat (length a)) (Z.of_nat (length b))); [lia|].
    destruct (Z.ltb_spec (Z.of_nat (length a)) (Z.of_nat (length b))); [lia|reflexivity].
Qed.

Theorem cbor_less_rfc7049_is_model a b : FromGo.go_cbor_less_rfc7049 a b = rfc_ltb a b.
Proof. exact (rfc_less_generic a b). Qed.
Theorem cbor_less_lexical_is_model a b : FromGo.go_cbor_less_lexical a b = bytes_ltb a b.
Proof. exact (str_ltb_bytes a b). Qed.
Theorem json_less_rfc7049_is_model a b : FromGo.go_json_less_rfc7049 a b = rfc_ltb a b.
Proof. exact (rfc_less_generic a b). Qed.
Theorem json_less_lexical_is_model a b : FromGo.go_json_less_lexical a b = bytes_ltb a b.
Proof. exact (str_ltb_bytes a b). Qed.
