(* Proofs/HeapSteps.v — Hoare triples over the ownership invariant, and the single-write steps
   (allocate, write an owned array / map / header, write an assembler cell, freeze, move a reader)
   from which every basicnode operation is composed.  Each single write preserves [Inv], so a panic
   half way through an operation leaves a state that satisfies it as well. *)
Require Import IP.Base.Bytes IP.DM.Value IP.Heap.GoMem IP.Heap.BasicHeap IP.Proofs.HeapMem IP.Proofs.HeapLogic.
From Coq Require Import List Arith Bool Lia.
Import ListNotations.
Local Open Scope nat_scope.

(* ------------------------------------------------------------------ exec: run without the log *)

Definition exec {A} (ar : nat) (p : mprog A) (h : mheap) : outcome A * mheap :=
  let '(o, h', _) := run ar p h in (o, h').

Lemma exec_ret : forall A ar (a : A) h, exec ar (Ret a) h = (Done a, h).
Proof. reflexivity. Qed.
Lemma exec_crash : forall A ar h, exec ar (@Crash val A) h = (Crashed, h).
Proof. reflexivity. Qed.
Lemma exec_rd : forall A ar a (k : mcell -> mprog A) h,
  exec ar (Rd a k) h = match hget h a with Some c => exec ar (k c) h | None => (Crashed, h) end.
Proof.
  intros; unfold exec; cbn. destruct (hget h a); [|reflexivity].
  destruct (run ar (k c) h) as [[o h'] l]; reflexivity.
Qed.
Lemma exec_wr : forall A ar a c (k : mprog A) h,
  exec ar (Wr a c k) h = match hget h a with Some _ => exec ar k (hset h a c) | None => (Crashed, h) end.
Proof.
  intros; unfold exec; cbn. destruct (hget h a); [|reflexivity].
  destruct (run ar k (hset h a c)) as [[o h'] l]; reflexivity.
Qed.
Lemma exec_new : forall A ar c (k : addr -> mprog A) h,
  exec ar (New c k) h = let '(h1, a) := halloc ar h c in exec ar (k a) h1.
Proof.
  intros; unfold exec; cbn. destruct (halloc ar h c) as [h1 a].
  destruct (run ar (k a) h1) as [[o h'] l]; reflexivity.
Qed.
Lemma exec_bind : forall A B ar (p : mprog A) (f : A -> mprog B) h,
  exec ar (pbind p f) h = match exec ar p h with (Done a, h1) => exec ar (f a) h1 | (Crashed, h1) => (Crashed, h1) end.
Proof.
  intros; unfold exec. rewrite run_bind. destruct (run ar p h) as [[[a|] h1] l1]; [|reflexivity].
  destruct (run ar (f a) h1) as [[o h2] l2]; reflexivity.
Qed.

(* hget after hset, unconditionally *)
Lemma hget_hset : forall (h : mheap) a c a',
  hget (hset h a c) a' = if addr_eqb a a' then (match hget h a with Some _ => Some c | None => None end) else hget h a'.
Proof.
  intros. destruct (addr_eqb a a') eqn:E.
  - apply addr_eqb_eq in E; subst a'. destruct (hget h a) eqn:G.
    + eapply hget_hset_same; eauto.
    + apply hget_none. apply hgetv_hset_none. apply hget_none. assumption.
  - apply addr_eqb_neq in E. apply hget_hset_other; assumption.
Qed.

(* ------------------------------------------------------------------ triples *)

Definition assertion := tags -> mheap -> Prop.
Definition stable (P : assertion) : Prop := forall tg h tg' h', P tg h -> Ext tg h tg' h' -> P tg' h'.

Definition Step (tg : tags) (h : mheap) (tg' : tags) (h' : mheap) : Prop := Inv tg' h' /\ Ext tg h tg' h'.

Definition triple {A} (P : assertion) (p : mprog A) (Q : A -> assertion) : Prop :=
  forall tg h ar o h', Inv tg h -> P tg h -> exec ar p h = (o, h') ->
    exists tg', Step tg h tg' h' /\ match o with Done a => Q a tg' h' | Crashed => True end.

Lemma step_refl : forall tg h, Inv tg h -> Step tg h tg h.
Proof. intros; split; [assumption | apply Ext_refl]. Qed.

Lemma step_trans : forall tg h tg1 h1 tg2 h2, Step tg h tg1 h1 -> Step tg1 h1 tg2 h2 -> Step tg h tg2 h2.
Proof. intros * [_ E1] [I2 E2]. split; [assumption | eapply Ext_trans; eauto]. Qed.

Lemma triple_ret : forall A (P : assertion) (a : A) (Q : A -> assertion),
  (forall tg h, P tg h -> Q a tg h) -> triple P (Ret a) Q.
Proof.
  intros * H tg h ar o h' HI HP He. rewrite exec_ret in He. inversion He; subst.
  exists tg. split; [apply step_refl; assumption | auto].
Qed.

Lemma triple_crash : forall A (P : assertion) (Q : A -> assertion), triple P Crash Q.
Proof.
  intros * tg h ar o h' HI HP He. rewrite exec_crash in He. inversion He; subst.
  exists tg. split; [apply step_refl; assumption | exact I].
Qed.

Lemma triple_conseq : forall A (P P' : assertion) (p : mprog A) (Q Q' : A -> assertion),
  triple P p Q -> (forall tg h, Inv tg h -> P' tg h -> P tg h) -> (forall a tg h, Inv tg h -> Q a tg h -> Q' a tg h) -> triple P' p Q'.
Proof.
  intros * T HP HQ tg h ar o h' HI HP' He.
  destruct (T tg h ar o h' HI (HP _ _ HI HP') He) as [tg' [[I' E'] Ho]].
  exists tg'. split; [split; assumption|]. destruct o; auto.
Qed.

Lemma triple_bind : forall A B (P : assertion) (p : mprog A) (Q1 : A -> assertion) (f : A -> mprog B) (Q : B -> assertion),
  triple P p Q1 -> (forall a, triple (Q1 a) (f a) Q) -> triple P (pbind p f) Q.
Proof.
  intros * T1 T2 tg h ar o h' HI HP He. rewrite exec_bind in He.
  destruct (exec ar p h) as [[a|] h1] eqn:E1.
  - destruct (T1 tg h ar _ _ HI HP E1) as [tg1 [[I1 X1] Q1a]].
    destruct (T2 a tg1 h1 ar o h' I1 Q1a He) as [tg2 [[I2 X2] Ho]].
    exists tg2. split; [split; [assumption | eapply Ext_trans; eauto] | assumption].
  - inversion He; subst. destruct (T1 tg h ar _ _ HI HP E1) as [tg1 [S1 _]]. exists tg1; auto.
Qed.

(* reading: the continuation may use what was read *)
Lemma triple_rd : forall A (P : assertion) a (k : mcell -> mprog A) (Q : A -> assertion),
  (forall c, triple (fun tg h => P tg h /\ hget h a = Some c) (k c) Q) -> triple P (Rd a k) Q.
Proof.
  intros * T tg h ar o h' HI HP He. rewrite exec_rd in He. destruct (hget h a) as [c|] eqn:G.
  - eapply T; eauto.
  - inversion He; subst. exists tg; split; [apply step_refl; assumption | exact I].
Qed.

Lemma triple_false : forall A (p : mprog A) (Q : A -> assertion), triple (fun _ _ => False) p Q.
Proof. intros * tg h ar o h' _ []. Qed.

(* a step lemma turned into the triple of [Wr] / [New] *)
Lemma triple_wr : forall A (P : assertion) a c (k : mprog A) (P1 : assertion) (Q : A -> assertion),
  (forall tg h c0, Inv tg h -> P tg h -> hget h a = Some c0 ->
     exists tg', Step tg h tg' (hset h a c) /\ P1 tg' (hset h a c)) ->
  triple P1 k Q -> triple P (Wr a c k) Q.
Proof.
  intros * HS T tg h ar o h' HI HP He. rewrite exec_wr in He. destruct (hget h a) as [c0|] eqn:G.
  - destruct (HS tg h c0 HI HP G) as [tg1 [[I1 X1] HP1]].
    destruct (T tg1 _ ar o h' I1 HP1 He) as [tg2 [[I2 X2] Ho]].
    exists tg2. split; [split; [assumption | eapply Ext_trans; eauto] | assumption].
  - inversion He; subst. exists tg; split; [apply step_refl; assumption | exact I].
Qed.

Lemma triple_new : forall A (P : assertion) c (k : addr -> mprog A) (P1 : addr -> assertion) (Q : A -> assertion),
  (forall tg h ar h1 x, Inv tg h -> P tg h -> halloc ar h c = (h1, x) ->
     exists tg', Step tg h tg' h1 /\ P1 x tg' h1) ->
  (forall x, triple (P1 x) (k x) Q) -> triple P (New c k) Q.
Proof.
  intros * HS T tg h ar o h' HI HP He. rewrite exec_new in He. destruct (halloc ar h c) as [h1 x] eqn:G.
  destruct (HS tg h ar h1 x HI HP G) as [tg1 [[I1 X1] HP1]].
  destruct (T x tg1 h1 ar o h' I1 HP1 He) as [tg2 [[I2 X2] Ho]].
  exists tg2. split; [split; [assumption | eapply Ext_trans; eauto] | assumption].
Qed.

(* ------------------------------------------------------------------ single steps *)

Ltac neq := let E := fresh in intro E; subst; congruence.
Ltac shapes c0 c := destruct c0 as [?|?|[]|?|?]; destruct c as [?|?|[]|?|?]; try contradiction.

(* allocation *)
Lemma step_new : forall tg h ar c h1 x t,
  Inv tg h -> halloc ar h c = (h1, x) ->
  (forall tg1, tg1 = set_tag tg x t -> Ext tg h tg1 h1 -> hget h1 x = Some c -> cell_ok_at tg1 h1 x) ->
  Step tg h (set_tag tg x t) h1.
Proof.
  intros * HI Ha Hok.
  destruct (hget_halloc_new _ _ _ _ _ _ Ha) as [Hnew Hold].
  assert (Tx : tg x = TFree) by (eapply inv_free; eauto).
  assert (HE : Ext tg h (set_tag tg x t) h1).
  { intros a Fa. assert (a <> x) by neq. rewrite set_tag_other by assumption. split; [assumption|].
    erewrite (hgetv_halloc_old _ _ _ _ _ _ a Ha) by assumption. apply veqv_refl. }
  split; [|assumption].
  eapply inv_frame with (W := [x]); eauto.
  - intros a Hn. assert (a <> x) by (intros ->; apply Hn; left; reflexivity).
    rewrite set_tag_other by assumption. split; [reflexivity|]. eapply hget_halloc_old; eauto.
  - intros a [<-|[]]. apply Hok; auto.
  - intros b Hb Tb. apply keeps_owned_untouched. intros y Hy. assert (y <> x) by neq.
    rewrite set_tag_other by assumption. split; [reflexivity|]. eapply hget_halloc_old; eauto.
Qed.

Lemma step_new_frozen : forall tg h ar c h1 x,
  Inv tg h -> halloc ar h c = (h1, x) -> frozen_ok tg h c -> Step tg h (set_tag tg x TFrozen) h1.
Proof.
  intros * HI Ha Hc. eapply step_new; eauto. intros tg1 -> HE Hx.
  unfold cell_ok_at. rewrite set_tag_same. exists c. split; [assumption|].
  eapply frozen_ok_ext; eauto using cell_eqv_refl.
Qed.

Lemma step_new_owned : forall tg h ar c h1 x b,
  Inv tg h -> halloc ar h c = (h1, x) -> data_ok tg h c -> Step tg h (set_tag tg x (TOwned b)) h1.
Proof.
  intros * HI Ha Hc. eapply step_new; eauto. intros tg1 -> HE Hx.
  unfold cell_ok_at. rewrite set_tag_same. exists c. split; [assumption|]. eapply data_ok_ext; eauto.
Qed.

(* a write that keeps all tags: W = [x] *)
Lemma step_write : forall tg h x c0 c,
  Inv tg h -> hget h x = Some c0 ->
  (tg x = TFrozen -> cell_eqv c0 c /\ exists r, c0 = CRdr r) ->
  (Ext tg h tg (hset h x c) -> cell_ok_at tg (hset h x c) x) ->
  (forall b, b <> x -> tg b = TAsm -> tg x = TOwned b -> keeps_owned tg h tg (hset h x c) b) ->
  Step tg h tg (hset h x c).
Proof.
  intros * HI Hx Hf Hok Hk.
  assert (HE : Ext tg h tg (hset h x c)).
  { intros a Fa. split; [assumption|]. destruct (addr_dec x a) as [<-|Hn].
    - apply hget_some in Hx. destruct Hx as [v Hx]. rewrite Hx. erewrite hgetv_hset_same by eauto.
      cbn. destruct (Hf Fa) as [E R]. split; [assumption | right; assumption].
    - rewrite hgetv_hset_other by assumption. apply veqv_refl. }
  split; [|assumption].
  eapply inv_frame with (W := [x]); eauto.
  - intros a Hn. assert (x <> a) by (intros ->; apply Hn; left; reflexivity).
    split; [reflexivity|]. apply hget_hset_other; assumption.
  - intros a [<-|[]]. auto.
  - intros b Hb Tb. assert (b <> x) by (intros ->; apply Hb; left; reflexivity).
    destruct (tg x) eqn:Tx; try (apply keeps_owned_untouched; intros y Hy; assert (x <> y) by neq;
      split; [reflexivity | apply hget_hset_other; assumption]).
    destruct (addr_dec b0 b) as [->|Hnb]; [apply Hk; auto|].
    apply keeps_owned_untouched; intros y Hy. assert (x <> y) by neq.
    split; [reflexivity | apply hget_hset_other; assumption].
Qed.

Lemma keeps_owned_shape : forall tg h x c0 c b,
  hget h x = Some c0 ->
  match c0, c with
  | CArr _, CArr _ | CMap _, CMap _ | CPtr (VScalar _), CPtr (VScalar _) => True
  | CPtr (VMapHdr _ _), CPtr (VMapHdr t g) =>
      slice_ok tg (hset h x c) (TOwned b) t /\ gomap_ok tg (hset h x c) (TOwned b) g
  | CPtr (VListHdr _), CPtr (VListHdr t) => slice_ok tg (hset h x c) (TOwned b) t
  | _, _ => False
  end ->
  keeps_owned tg h tg (hset h x c) b.
Proof.
  intros * Hx Hs y Hy. split; [assumption|]. rewrite hget_hset.
  destruct (addr_eqb x y) eqn:E.
  - apply addr_eqb_eq in E; subst y. rewrite Hx.
    shapes c0 c; eauto; destruct Hs; eauto 8.
  - destruct (hget h y) as [[l|es|v|bs|r]|]; eauto. destruct v; eauto 7.
Qed.

(* write a backing array / Go map / boxed scalar owned by b *)
Lemma step_write_data : forall tg h x b c0 c,
  Inv tg h -> tg x = TOwned b -> hget h x = Some c0 ->
  match c0, c with
  | CArr _, CArr l => Forall (slot_ok tg h) l
  | CMap _, CMap es => Forall (fun kv => slot_ok tg h (snd kv)) es
  | CPtr (VScalar _), CPtr (VScalar _) => True
  | _, _ => False
  end ->
  Step tg h tg (hset h x c).
Proof.
  intros * HI Tx Hx Hc. eapply step_write; eauto.
  - intros F; congruence.
  - intros HE. unfold cell_ok_at. rewrite Tx. exists c. split.
    + rewrite hget_hset, addr_eqb_refl, Hx. reflexivity.
    + shapes c0 c; cbn; try exact I; revert Hc; apply Forall_impl; intros; eapply slot_ok_ext; eauto.
  - intros b' Hb Tb Tx'. eapply keeps_owned_shape; eauto.
    shapes c0 c; auto.
Qed.

(* write the header struct an unfinished assembler b is filling *)
Lemma step_write_hdr : forall tg h s b c0 c,
  Inv tg h -> tg s = TOwned b -> hget h s = Some c0 ->
  match c0, c with
  | CPtr (VMapHdr _ _), CPtr (VMapHdr t g) => slice_ok tg h (TOwned b) t /\ gomap_ok tg h (TOwned b) g
  | CPtr (VListHdr _), CPtr (VListHdr t) => slice_ok tg h (TOwned b) t
  | _, _ => False
  end ->
  Step tg h tg (hset h s c).
Proof.
  intros * HI Ts Hs Hc.
  assert (Hsl : forall t, slice_ok tg h (TOwned b) t -> slice_ok tg (hset h s c) (TOwned b) t).
  { unfold slice_ok. intros t. destruct (s_arr t) as [a|]; [|auto]. intros [Ta [l Hl]]. split; [assumption|].
    exists l. rewrite hget_hset. destruct (addr_eqb s a) eqn:E; [|assumption].
    apply addr_eqb_eq in E; subst a. rewrite Hs in Hl. inversion Hl; subst.
    destruct c; try contradiction. }
  assert (Hgm : forall g, gomap_ok tg h (TOwned b) g -> gomap_ok tg (hset h s c) (TOwned b) g).
  { unfold gomap_ok. intros [a|]; [|auto]. intros [Ta [l Hl]]. split; [assumption|].
    exists l. rewrite hget_hset. destruct (addr_eqb s a) eqn:E; [|assumption].
    apply addr_eqb_eq in E; subst a. rewrite Hs in Hl. inversion Hl; subst.
    destruct c; try contradiction. }
  eapply step_write; eauto.
  - intros F; congruence.
  - intros HE. unfold cell_ok_at. rewrite Ts. exists c. split.
    + rewrite hget_hset, addr_eqb_refl, Hs. reflexivity.
    + shapes c0 c; exact I.
  - intros b' Hb Tb Tx'. assert (b' = b) by congruence. subst b'.
    eapply keeps_owned_shape; eauto.
    shapes c0 c; [destruct Hc; split|]; auto.
Qed.

(* an assembler's well-formedness does not look at assembler cells *)
Lemma asm_ok_hset_asm : forall tg h a c b v, Inv tg h -> tg a = TAsm -> hget h a <> None ->
  asm_ok tg h b v -> asm_ok tg (hset h a c) b v.
Proof.
  intros * HI Ta Hn Hok.
  assert (HE : Ext tg h tg (hset h a c)).
  { intros y Fy. split; [assumption|]. rewrite hgetv_hset_other by neq. apply veqv_refl. }
  eapply asm_ok_keep; eauto. apply keeps_owned_untouched. intros y Hy.
  split; [reflexivity|]. apply hget_hset_other. neq.
Qed.

(* write an assembler cell *)
Lemma step_write_asm : forall tg h a c0 v,
  Inv tg h -> tg a = TAsm -> hget h a = Some c0 -> asm_ok tg h a v -> Step tg h tg (hset h a (CPtr v)).
Proof.
  intros * HI Ta Ha Hok. eapply step_write; eauto.
  - intros F; congruence.
  - intros HE. unfold cell_ok_at. rewrite Ta. exists v. split.
    + rewrite hget_hset, addr_eqb_refl, Ha. reflexivity.
    + apply asm_ok_hset_asm; auto. congruence.
  - intros b Hb Tb Tx. congruence.
Qed.

(* move a reader: a frozen cell, equivalent content *)
Lemma step_write_rdr : forall tg h x r r',
  Inv tg h -> tg x = TFrozen -> hget h x = Some (CRdr r) -> rdr_eqv r r' -> Step tg h tg (hset h x (CRdr r')).
Proof.
  intros * HI Tx Hx Hr. apply (step_write tg h x (CRdr r) (CRdr r') HI Hx).
  - intros _. split; [exact Hr | eauto].
  - intros HE. unfold cell_ok_at. rewrite Tx. exists (CRdr r'). split.
    + rewrite hget_hset, addr_eqb_refl, Hx. reflexivity.
    + destruct (inv_frozen _ _ _ HI Tx) as [c [Hc Hok]]. rewrite Hx in Hc. inversion Hc; subst.
      eapply frozen_ok_ext; eauto.
  - intros b Hb Tb T. congruence.
Qed.

(* freeze: the assembler in cell a is rewritten and the cells xs it owned become frozen *)
Lemma step_freeze : forall tg h a c0 v xs,
  Inv tg h -> tg a = TAsm -> hget h a = Some c0 ->
  (forall x, In x xs -> tg x = TOwned a) ->
  (forall tg' h', tg' = set_tags tg xs TFrozen -> h' = hset h a (CPtr v) -> Ext tg h tg' h' ->
     (forall x, ~ In x xs -> tg' x = tg x) -> (forall x, In x xs -> tg' x = TFrozen) ->
     (forall x, x <> a -> hget h' x = hget h x) ->
     (forall x, In x xs -> exists c, hget h x = Some c /\ frozen_ok tg' h' c) /\ asm_ok tg' h' a v) ->
  Step tg h (set_tags tg xs TFrozen) (hset h a (CPtr v)).
Proof.
  intros * HI Ta Ha Hxs Hok.
  set (tg' := set_tags tg xs TFrozen). set (h' := hset h a (CPtr v)).
  assert (Hna : ~ In a xs) by (intros F; apply Hxs in F; congruence).
  assert (Hh : forall x, x <> a -> hget h' x = hget h x).
  { intros x Hx. unfold h'. apply hget_hset_other. auto. }
  assert (HE : Ext tg h tg' h').
  { intros y Fy. assert (~ In y xs) by (intros F; apply Hxs in F; congruence).
    unfold tg'. rewrite set_tags_out by assumption. split; [assumption|].
    unfold h'. rewrite hgetv_hset_other by neq. apply veqv_refl. }
  destruct (Hok tg' h' eq_refl eq_refl HE) as [Hfz Hasm]; auto.
  { intros; unfold tg'; apply set_tags_out; assumption. }
  { intros; unfold tg'; apply set_tags_in; assumption. }
  split; [|assumption].
  eapply inv_frame with (W := a :: xs); eauto.
  - intros y Hn. assert (y <> a) by (intros ->; apply Hn; left; reflexivity).
    assert (~ In y xs) by (intros F; apply Hn; right; assumption).
    unfold tg'. rewrite set_tags_out by assumption. auto.
  - intros y [<-|Hy].
    + unfold cell_ok_at. unfold tg' at 1. rewrite set_tags_out by assumption. rewrite Ta.
      exists v. split; [|assumption]. unfold h'. rewrite hget_hset, addr_eqb_refl, Ha. reflexivity.
    + unfold cell_ok_at. unfold tg' at 1. rewrite set_tags_in by assumption.
      destruct (Hfz y Hy) as [c [Hc Hfc]]. exists c. split; [|assumption].
      rewrite Hh; [assumption|]. intros ->. contradiction.
  - intros b Hb Tb. apply keeps_owned_untouched. intros y Hy.
    assert (b <> a) by (intros ->; apply Hb; left; reflexivity).
    assert (~ In y xs) by (intros F; apply Hxs in F; congruence).
    unfold tg'. rewrite set_tags_out by assumption. split; [reflexivity|]. apply Hh. neq.
Qed.
