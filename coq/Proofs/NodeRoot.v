(* Proofs/NodeRoot.v — scripts at the root of a builder of any prototype (typed builders first see
   wrong-kind calls), the build/read-back theorem, and the C12 rollback / bad-kind lemmas. *)
Require Import IP.Base.Bytes IP.DM.Value IP.Node.Basic IP.Node.Protocol IP.Proofs.NodeBuild.
Open Scope N_scope.

Lemma kind_eqb_refl : forall k, kind_eqb k k = true.
Proof. destruct k; reflexivity. Qed.

(* a call of a kind the typed root builder cannot hold is reported by that call; nothing changes *)
Lemma root_wrong_step : forall q p o,
  root_wrong p o = true -> step q (init p) o = OErr EWrongKind (init p).
Proof.
  intros q p o H. unfold init.
  destruct p; destruct o; simpl in H; try discriminate; try reflexivity;
    destruct n; simpl in H; try discriminate; reflexivity.
Qed.

Lemma root_tries : forall q p tries,
  Forall (RootTry p) tries -> forall more,
  run_tol q (init p) (map fst tries ++ more) = pre (map snd tries) (run_tol q (init p) more).
Proof.
  induction 1; intros; simpl app.
  - rewrite pre_nil. reflexivity.
  - inversion H; subst. cbn [map fst snd].
    rewrite (run_tol_err q _ o EWrongKind (init p)) by (apply root_wrong_step; auto).
    rewrite IHForall. rewrite pre_pre. reflexivity.
Qed.

(* Prototype.Map AssignNode, generic path (repaired tree) *)
Lemma put_all_ok : forall stk es ks t m,
  minv ks t m -> NoDup (map fst es) -> (forall k, In k (map fst es) -> ~ In k ks) ->
  Forall (fun kv => wf (snd kv)) es ->
  exists ks' m', put_all stk t m es = OOk (SDone PMap (NMap (t ++ es) m')) /\ minv ks' (t ++ es) m'.
Proof.
  induction es as [|[k v] es]; intros ks t m Hinv Hnd Hdis Hwf; simpl.
  - exists ks, m. rewrite app_nil_r. auto.
  - inversion Hnd; subst. inversion Hwf; subst. simpl in *.
    rewrite (minv_mem_false _ _ _ k Hinv) by (apply Hdis; auto).
    destruct (IHes (k :: ks) (t ++ [(k, v)]) ((k, v) :: m)) as (ks' & m' & Hp & Hi); auto.
    + apply minv_put; auto.
    + intros k0 Hin [E|Hk]; [subst; contradiction|]. apply (Hdis k0); auto.
    + exists ks', m'. rewrite <- app_assoc in Hp, Hi. simpl in Hp, Hi. auto.
Qed.

Lemma run_done : forall q s, run_tol q s [] = ([], Some s).
Proof. reflexivity. Qed.

Lemma pre_done : forall tr s, pre tr ([], Some s) = (tr, Some s).
Proof. intros. unfold pre. simpl. rewrite app_nil_r. reflexivity. Qed.

Lemma all_VP : forall l, Forall VP l.
Proof. intros. apply Forall_forall. intros. apply value_script. Qed.
Lemma all_VP_map : forall m : list (bytes * dm), Forall (fun kv => VP (snd kv)) m.
Proof. intros. apply Forall_forall. intros. apply value_script. Qed.

(* ------------------------------------------------------------------ the root theorem *)
Theorem ascript_run : forall q p v aops,
  AScriptP q p v aops ->
  exists n, run_tol q (init p) (map fst aops) = (map snd aops, Some (SDone p n)) /\
            abs n = v /\ wf n.
Proof.
  intros q p v aops H. inversion H; subst; clear H.
  - (* any *)
    destruct (value_script v aops H0 q (FRoot PAny) [] [] I) as (n & Hn & Hw & Hrun).
    exists n. rewrite app_nil_r in Hrun. unfold init. rewrite Hrun. simpl deliver_st.
    rewrite run_done, pre_done. auto.
  - (* map, assembled *)
    destruct (map_body [] m body H1 (all_VP_map m) q [] [] [FRoot PMap] [] minv_nil I)
      as (ks' & t' & m' & Hinv' & Habs & Hrun).
    exists (NMap t' m'). split; [|split].
    + rewrite map_app, root_tries by auto. cbn [map fst snd ok app].
      rewrite (run_tol_ok q _ (BeginMap h) (SOpen [FMap [] [] MaInitial; FRoot PMap])) by reflexivity.
      rewrite app_nil_r in Hrun. rewrite Hrun. simpl deliver_st. rewrite run_done, !pre_pre, pre_done.
      rewrite ?map_app. cbn [map fst snd ok app]. rewrite <- ?app_assoc. reflexivity.
    + rewrite abs_map_absent, Habs. reflexivity.
    + apply (minv_wf _ _ _ Hinv').
  - (* map, AssignNode *)
    destruct n; simpl in H2; try contradiction.
    + exists (NMap t m). split; [|split]; auto.
      rewrite map_app, root_tries by auto. cbn [map fst snd ok app].
      rewrite (run_tol_ok q _ _ (SDone PMap (NMap t m))) by reflexivity.
      rewrite run_done, !pre_pre, pre_done. rewrite ?map_app. cbn [map fst snd ok app]. rewrite <- ?app_assoc. reflexivity.
    + inversion H1; subst.
      assert (Hx : exists m', step q (init PMap) (AssignNode (NFMap t)) = OOk (SDone PMap (NMap t m')) /\ wf (NMap t m')).
      { unfold init. simpl. destruct H2 as [Hq|Ht].
        - rewrite Hq. destruct (put_all_ok [FRoot PMap] t [] [] [] minv_nil H3) as (ks' & m' & Hp & Hi); auto.
          exists m'. simpl in Hp, Hi. split; auto. apply (minv_wf _ _ _ Hi).
        - subst t. exists []. destruct (q_pmap_nilmap q); simpl; split; auto; apply (minv_wf _ _ _ minv_nil). }
      destruct Hx as (m' & Hs & Hw).
      exists (NMap t m'). split; [|split]; auto.
      rewrite map_app, root_tries by auto. cbn [map fst snd ok app].
      rewrite (run_tol_ok q _ _ _ [] Hs).
      rewrite run_done, !pre_pre, pre_done. rewrite ?map_app. cbn [map fst snd ok app]. rewrite <- ?app_assoc. reflexivity.
  - (* list, assembled *)
    destruct (list_body l body H1 (all_VP l) q [] [FRoot PList] [] I)
      as (ns & Hns & Hws & Hrun).
    exists (NList ns). split; [|split].
    + rewrite map_app, root_tries by auto. cbn [map fst snd ok app].
      rewrite (run_tol_ok q _ (BeginList h) (SOpen [FList [] LaInitial; FRoot PList])) by reflexivity.
      rewrite app_nil_r in Hrun. rewrite Hrun. simpl deliver_st. rewrite run_done, !pre_pre, pre_done.
      rewrite ?map_app. cbn [map fst snd ok app]. rewrite <- ?app_assoc. reflexivity.
    + simpl. congruence.
    + constructor; auto.
  - (* list, AssignNode *)
    destruct n; simpl in H2; try contradiction.
    + exists (NList x). split; [|split]; auto.
      rewrite map_app, root_tries by auto. cbn [map fst snd ok app].
      rewrite (run_tol_ok q _ _ (SDone PList (NList x))) by reflexivity.
      rewrite run_done, !pre_pre, pre_done. rewrite ?map_app. cbn [map fst snd ok app]. rewrite <- ?app_assoc. reflexivity.
    + exists (NList x). split; [|split]; auto.
      * rewrite map_app, root_tries by auto. cbn [map fst snd ok app].
        rewrite (run_tol_ok q _ _ (SDone PList (NList x))) by reflexivity.
        rewrite run_done, !pre_pre, pre_done. rewrite ?map_app. cbn [map fst snd ok app]. rewrite <- ?app_assoc. reflexivity.
      * inversion H1; subst. constructor; auto.
  - (* scalar builder, direct assignment *)
    assert (exists n, step q (init p) o = OOk (SDone p n) /\ abs n = v /\ wf n).
    { destruct p; destruct v; simpl in H1; inversion H1; subst; eexists; (split; [reflexivity|split; [reflexivity|constructor]]). }
    destruct H as (n & Hs & Hn & Hw).
    exists n. split; [|split]; auto.
    rewrite map_app, root_tries by auto. cbn [map fst snd ok app].
    rewrite (run_tol_ok q _ _ _ [] Hs).
    rewrite run_done, !pre_pre, pre_done. rewrite ?map_app. cbn [map fst snd ok app]. rewrite <- ?app_assoc. reflexivity.
  - (* scalar builder, AssignNode through the As accessor *)
    assert (exists n', step q (init p) (AssignNode n) = OOk (SDone p n') /\ abs n' = v /\ wf n').
    { destruct p; simpl in H0; try discriminate; destruct v; simpl in H2; try contradiction;
        destruct n; simpl in H2; try discriminate; unfold init; simpl.
      all: try (destruct (z0 <? two63z)%Z; try discriminate).
      all: inversion H2; subst.
      all: try (destruct (q_stream_oneshot q)).
      all: eexists; (split; [reflexivity|split; [reflexivity|constructor]]). }
    destruct H as (n' & Hs & Hn & Hw).
    exists n'. split; [|split]; auto.
    rewrite map_app, root_tries by auto. cbn [map fst snd ok app].
    rewrite (run_tol_ok q _ _ _ [] Hs).
    rewrite run_done, !pre_pre, pre_done. rewrite ?map_app. cbn [map fst snd ok app]. rewrite <- ?app_assoc. reflexivity.
Qed.

(* ------------------------------------------------------------------ C01: build, then read back *)
Theorem build_read : forall q p v ops,
  Scripts q p v ops -> exists n, run q p ops = Some n /\ abs n = v /\ wf n.
Proof.
  intros q p v ops H. destruct (ascript_run q p v (map ok ops) H) as (n & Hr & Hn & Hw).
  exists n. split; auto. unfold run.
  rewrite !map_map in Hr. simpl in Hr. rewrite map_id in Hr.
  rewrite (run_tol_steps q ops (init p) (SDone p n)); auto.
Qed.

(* the size hint has no functional effect *)
Theorem hint_irrelevant : forall q s h h',
  step q s (BeginMap h) = step q s (BeginMap h') /\ step q s (BeginList h) = step q s (BeginList h').
Proof.
  intros q s h h'. destruct s as [[|[p|t m [| |k|k]|x []] r]|p n]; simpl; auto;
    destruct p; simpl; auto.
Qed.

(* the pinned Prototype.Map builder cannot take a non-empty map of another implementation *)
Lemma pmap_foreign_refuted :
  exists n, wf n /\ Scripts repaired PMap (abs n) [AssignNode n] /\ run pinned PMap [AssignNode n] = None.
Proof.
  exists (NFMap [([97], NInt 1)]). split; [|split].
  - constructor; [constructor; [simpl; tauto|constructor]|repeat constructor].
  - apply (AP_map_node repaired [] (NFMap [([97], NInt 1)])); [constructor| |left; reflexivity].
    constructor; [constructor; [simpl; tauto|constructor]|repeat constructor].
  - reflexivity.
Qed.

Example legal_script :
  Scripts pinned PAny (DMap [([97], DInt 1); ([98], DList [DNull; DString [120]])])
    [BeginMap 2; AssembleEntry [97]; AssignInt 1; AssembleKey; AssignString [98]; AssembleValue;
     BeginList (-1); AssembleValue; AssignNull; AssembleValue; AssignNode (NString [120]); Finish; Finish].
Proof.
  apply AP_any. simpl map. apply AS_map.
  apply (MB_entry AScript [] [97] (DInt 1) _ [ok (AssignInt 1)]); [simpl; tauto|constructor|].
  apply (MB_key AScript [[97]] [98] (DList [DNull; DString [120]]) [] [] (AssignString [98])
           [ok (BeginList (-1)); ok AssembleValue; ok AssignNull; ok AssembleValue; ok (AssignNode (NString [120])); ok Finish]).
  - simpl. intros [H|H]; [discriminate|auto].
  - constructor.
  - constructor.
  - apply AS_list. apply (LB_value AScript DNull _ [ok AssignNull]); [constructor|].
    apply (LB_value AScript (DString [120]) _ [ok (AssignNode (NString [120]))]); [|constructor].
    apply (AS_node (NString [120])). constructor.
  - constructor.
Qed.
