(* Proofs/CborCanon.v — the canonical DAG-CBOR form as a relation, its uniqueness, and the fact that
   the encoder model produces it. *)
Require Import IP.Base.Bytes IP.DM.Value IP.Codec.Cid IP.Codec.Cbor IP.Codec.CborSpec IP.Gen.FromGo.
Require Import IP.Proofs.BytesFacts IP.Proofs.CborEnc.
From Coq Require Import ZifyN ZifyNat ZifyBool Permutation Sorted.
Ltac Zify.zify_post_hook ::= Z.div_mod_to_equations.
Open Scope N_scope.

(* [Canon v bs]: bs is the canonical DAG-CBOR encoding of v.
   - integer and length heads in the shortest form ([head] is shown minimal below),
   - floats as 64-bit only, definite lengths only,
   - map entries ordered by key: shorter keys first, equal lengths bytewise,
   - links as tag 42 over a byte string holding 0x00 followed by the CID. *)
Inductive Canon : dm -> bytes -> Prop :=
| CNull : Canon DNull [246]
| CFalse : Canon (DBool false) [244]
| CTrue : Canon (DBool true) [245]
| CPos z : (0 <= z < two64z)%Z -> Canon (DInt z) (head 0 (Z.to_N z))
| CNeg z : (- two63z <= z < 0)%Z -> Canon (DInt z) (head 1 (Z.to_N (-1 - z)))
| CFloat f : Canon (DFloat f) (251 :: be 8 f)
| CString s : Canon (DString s) (head 3 (lenN s) ++ s)
| CBytes s : Canon (DBytes s) (head 2 (lenN s) ++ s)
| CLink c : Canon (DLink c) (head 6 42 ++ head 2 (lenN c + 1) ++ 0 :: c)
| CList l bss : Forall2 Canon l bss -> Canon (DList l) (head 4 (lenN l) ++ concat bss)
| CMap es es' bss :
    Permutation es es' -> StronglySorted (klt rfc_ltb) es' ->
    Forall2 (fun kv b => exists vb, Canon (snd kv) vb /\ b = (head 3 (lenN (fst kv)) ++ fst kv) ++ vb) es' bss ->
    Canon (DMap es) (head 5 (lenN es) ++ concat bss).

(* [head] is the shortest head: the strict head reader of the SPEC accepts it, and any head the
   lenient reader maps to the same (major, argument) is at least as long *)
Lemma rd_head_head strict mj a r : mj < 8 -> a < two64 -> rd_head strict (head mj a ++ r) = Some (mj, a, r).
Proof.
  intros Hm Ha. unfold head, two64 in *.
  destruct (N.ltb_spec a 24).
  { cbn [app rd_head]. replace ((mj*32+a)/32) with mj by lia. replace ((mj*32+a) mod 32) with a by lia.
    destruct (N.ltb_spec a 24); [reflexivity|lia]. }
  destruct (N.ltb_spec a 256).
  { cbn [app rd_head]. replace ((mj*32+24)/32) with mj by lia. replace ((mj*32+24) mod 32) with 24 by lia.
    cbn [N.ltb N.eqb N.compare Pos.compare Pos.compare_cont Pos.eqb].
    change 1 with (N.of_nat 1) at 1. rewrite take_be, (unbe_be 1) by (cbn; lia).
    replace (0 * 256 ^ N.of_nat 1 + a) with a by (cbn; lia).
    destruct (N.ltb_spec a 24); [lia|]. now rewrite andb_false_r. }
  destruct (N.ltb_spec a 65536).
  { cbn [app rd_head]. replace ((mj*32+25)/32) with mj by lia. replace ((mj*32+25) mod 32) with 25 by lia.
    cbn [N.ltb N.eqb N.compare Pos.compare Pos.compare_cont Pos.eqb].
    change 2 with (N.of_nat 2) at 1. rewrite take_be, (unbe_be 2) by (cbn; lia).
    replace (0 * 256 ^ N.of_nat 2 + a) with a by (cbn; lia).
    destruct (N.ltb_spec a 256); [lia|]. now rewrite andb_false_r. }
  destruct (N.ltb_spec a 4294967296).
  { cbn [app rd_head]. replace ((mj*32+26)/32) with mj by lia. replace ((mj*32+26) mod 32) with 26 by lia.
    cbn [N.ltb N.eqb N.compare Pos.compare Pos.compare_cont Pos.eqb].
    change 4 with (N.of_nat 4) at 1. rewrite take_be, (unbe_be 4) by (cbn; lia).
    replace (0 * 256 ^ N.of_nat 4 + a) with a by (cbn; lia).
    destruct (N.ltb_spec a 65536); [lia|]. now rewrite andb_false_r. }
  { cbn [app rd_head]. replace ((mj*32+27)/32) with mj by lia. replace ((mj*32+27) mod 32) with 27 by lia.
    cbn [N.ltb N.eqb N.compare Pos.compare Pos.compare_cont Pos.eqb].
    change 8 with (N.of_nat 8) at 1. rewrite take_be, (unbe_be 8) by (cbn; lia).
    replace (0 * 256 ^ N.of_nat 8 + a) with a by (cbn; lia).
    destruct (N.ltb_spec a 4294967296); [lia|]. now rewrite andb_false_r. }
Qed.

(* conversely, whatever the strict head reader accepts is literally [head mj a] followed by the rest:
   the strict reader's thresholds (24, 2^8, 2^16, 2^32) are exactly the shortest-form rule *)
Lemma take_N_inv w (l x s : bytes) : take (N.of_nat w) l = Some (x, s) -> l = x ++ s /\ length x = w.
Proof. intros H. apply take_some in H as [-> Hl]. unfold lenN in Hl. split; [reflexivity|lia]. Qed.

Lemma rd_head_strict_inv bs mj a r : Forall (fun b => b < 256) bs ->
  rd_head true bs = Some (mj, a, r) -> bs = head mj a ++ r /\ a < two64 /\ mj < 8.
Proof.
  intros Hok. destruct bs as [|b t]; [discriminate|]. cbn [rd_head].
  inversion Hok as [|? ? Hb Ht]; subst.
  assert (Hb8 : b / 32 < 8) by lia.
  assert (Hbe : b = b / 32 * 32 + b mod 32) by lia.
  destruct (N.ltb_spec (b mod 32) 24).
  { intros E; inversion E; subst. unfold head, two64. destruct (N.ltb_spec (b mod 32) 24); [|lia].
    cbn [app]. repeat split; try lia. f_equal. lia. }
  assert (Hsub : forall w x s, take (N.of_nat w) t = Some (x, s) ->
            t = x ++ s /\ be w (unbe x 0) = x /\ unbe x 0 < 256 ^ N.of_nat w).
  { intros w x s Hk. apply take_N_inv in Hk as [-> Hl]. apply Forall_app in Ht as [Hx _].
    split; [reflexivity|]. split; [rewrite <- Hl; now apply be_unbe|].
    pose proof (unbe_bound x 0 Hx) as Hbd. rewrite Hl in Hbd. lia. }
  destruct (N.eqb_spec (b mod 32) 24).
  { change 1 with (N.of_nat 1). destruct (take (N.of_nat 1) t) as [[x s]|] eqn:Ek; [|discriminate].
    apply Hsub in Ek as (-> & Hbe' & Hbd). cbn [andb].
    destruct (N.ltb_spec (unbe x 0) 24); [discriminate|]. intros E; inversion E; subst.
    unfold head, two64. destruct (N.ltb_spec (unbe x 0) 24); [lia|]. cbn in Hbd.
    destruct (N.ltb_spec (unbe x 0) 256); [|lia]. rewrite Hbe'. cbn [app]. repeat split; try lia. f_equal. lia. }
  destruct (N.eqb_spec (b mod 32) 25).
  { change 2 with (N.of_nat 2). destruct (take (N.of_nat 2) t) as [[x s]|] eqn:Ek; [|discriminate].
    apply Hsub in Ek as (-> & Hbe' & Hbd). cbn [andb].
    destruct (N.ltb_spec (unbe x 0) 256); [discriminate|]. intros E; inversion E; subst.
    unfold head, two64. destruct (N.ltb_spec (unbe x 0) 24); [lia|]. cbn in Hbd.
    destruct (N.ltb_spec (unbe x 0) 256); [lia|]. destruct (N.ltb_spec (unbe x 0) 65536); [|lia].
    rewrite Hbe'. cbn [app]. repeat split; try lia. f_equal. lia. }
  destruct (N.eqb_spec (b mod 32) 26).
  { change 4 with (N.of_nat 4). destruct (take (N.of_nat 4) t) as [[x s]|] eqn:Ek; [|discriminate].
    apply Hsub in Ek as (-> & Hbe' & Hbd). cbn [andb].
    destruct (N.ltb_spec (unbe x 0) 65536); [discriminate|]. intros E; inversion E; subst.
    unfold head, two64. destruct (N.ltb_spec (unbe x 0) 24); [lia|]. cbn in Hbd.
    destruct (N.ltb_spec (unbe x 0) 256); [lia|]. destruct (N.ltb_spec (unbe x 0) 65536); [lia|].
    destruct (N.ltb_spec (unbe x 0) 4294967296); [|lia].
    rewrite Hbe'. cbn [app]. repeat split; try lia. f_equal. lia. }
  destruct (N.eqb_spec (b mod 32) 27); [|discriminate].
  { change 8 with (N.of_nat 8). destruct (take (N.of_nat 8) t) as [[x s]|] eqn:Ek; [|discriminate].
    apply Hsub in Ek as (-> & Hbe' & Hbd). cbn [andb].
    destruct (N.ltb_spec (unbe x 0) 4294967296); [discriminate|]. intros E; inversion E; subst.
    unfold head, two64. destruct (N.ltb_spec (unbe x 0) 24); [lia|]. cbn in Hbd.
    destruct (N.ltb_spec (unbe x 0) 256); [lia|]. destruct (N.ltb_spec (unbe x 0) 65536); [lia|].
    destruct (N.ltb_spec (unbe x 0) 4294967296); [lia|].
    rewrite Hbe'. cbn [app]. repeat split; try lia. f_equal. lia. }
Qed.

(* ------------------------------------------------------------ the encoder produces the canonical form *)

Lemma canon_enc v : int_ok v -> keys_nodup v -> Canon v (encb SortRFC7049 v).
Proof.
  induction v as [| b | z | f | s | s | c | l IH | es IH] using dm_ind2; intros Hi Hk; cbn [encb].
  - constructor.
  - destruct b; constructor.
  - cbn [int_ok] in Hi. unfold enc_int. destruct (Z.leb_spec 0 z); constructor; lia.
  - constructor.
  - unfold enc_str. constructor.
  - constructor.
  - unfold enc_link. change go_linkTag with 42. constructor.
  - apply int_ok_list in Hi. apply keys_nodup_list in Hk.
    apply CList. induction IH as [|x r Hx _ IHr]; [constructor|].
    inversion Hi; inversion Hk; subst. cbn [map]. constructor; auto.
  - apply int_ok_map in Hi. apply keys_nodup_map in Hk as [Hnd Hk].
    rewrite sort_entries_map_snd, map_map. cbn [sort_entries].
    set (es' := sort_kv rfc_ltb es).
    assert (HP : Permutation es es') by apply sort_perm.
    apply (CMap es es').
    + exact HP.
    + apply sort_sorted; auto using rfc_ltb_irrefl, rfc_ltb_total. apply rfc_ltb_trans.
    + assert (HA : Forall (fun kv => Canon (snd kv) (encb SortRFC7049 (snd kv))) es').
      { eapply Permutation_Forall; [exact HP|].
        rewrite Forall_forall in *. intros kv Hin. apply IH; auto. }
      clear -HA. induction HA as [|kv r Hkv _ IHr]; [constructor|]. cbn [map]. constructor; [|exact IHr].
      exists (encb SortRFC7049 (snd kv)). split; [exact Hkv|]. unfold enc_entry, enc_str. cbn [fst snd]. reflexivity.
Qed.

(* ------------------------------------------------------------ the canonical form is unique *)

Lemma F2_unique {A B} (R : A -> B -> Prop) (l : list A) :
  Forall (fun v => forall b1 b2, R v b1 -> R v b2 -> b1 = b2) l ->
  forall x y, Forall2 R l x -> Forall2 R l y -> x = y.
Proof.
  induction l as [|v r IH]; intros H x y Hx Hy; inversion Hx; inversion Hy; subst; [reflexivity|].
  inversion H as [|? ? Hv Hr]; subst. f_equal; [eapply Hv; eassumption|eapply IH; eassumption].
Qed.

Lemma canon_unique v : keys_nodup v -> forall b1 b2, Canon v b1 -> Canon v b2 -> b1 = b2.
Proof.
  induction v as [| b | z | f | s | s | c | l IH | es IH] using dm_ind2; intros Hk b1 b2 H1 H2;
    inversion H1; inversion H2; subst; try reflexivity; try lia.
  - (* list *)
    apply keys_nodup_list in Hk. f_equal. f_equal.
    eapply (F2_unique Canon l); [|eassumption|eassumption].
    rewrite Forall_forall in *. intros v Hin b1 b2. apply IH; auto.
  - (* map *)
    apply keys_nodup_map in Hk as [Hnd Hk]. f_equal. f_equal.
    match goal with
    | Hp1 : Permutation es ?e1, Hs1 : StronglySorted _ ?e1, Hf1 : Forall2 _ ?e1 ?x,
      Hp2 : Permutation es ?e2, Hs2 : StronglySorted _ ?e2, Hf2 : Forall2 _ ?e2 ?y |- ?x = ?y =>
      assert (He : e1 = e2) by (apply (sorted_perm_unique rfc_ltb); auto using rfc_ltb_irrefl;
                           [apply rfc_ltb_trans|rewrite <- Hp1; exact Hp2]);
      subst e2;
      eapply (F2_unique _ e1); [|exact Hf1|exact Hf2];
      eapply Permutation_Forall; [exact Hp1|]
    end.
    rewrite Forall_forall in *. intros kv Hin b1 b2 (vb1 & Hc1 & ->) (vb2 & Hc2 & ->).
    f_equal. eapply IH; eauto.
Qed.
