(* Proofs/XformExpand.v — the executable expansion [xexpand] (used by the oracle of the C16 check)
   produces an expansion that satisfies the hypotheses of the C16 theorems. *)
Require Import IP.Base.Bytes IP.DM.Value IP.Xform.Transform IP.Proofs.XformBase.
Open Scope Z_scope.

Lemma xexpand_S fu st v :
  xexpand (S fu) st v =
  match v with
  | DList l => XList (map (xexpand (S fu) st) l)
  | DMap m => XMap (map (fun kv => (fst kv, xexpand (S fu) st (snd kv))) m)
  | DLink c => match lookup c st with Some b => XBlock c (xexpand fu st b) | None => XLeaf v end
  | _ => XLeaf v
  end.
Proof. destruct v; reflexivity. Qed.

Lemma xexpand_raw st : forall fuel v, raw (xexpand fuel st v) = v.
Proof.
  induction fuel as [|fu IH]; intro v; [apply raw_inject|].
  induction v using dm_ind2; rewrite xexpand_S; try reflexivity.
  - destruct (lookup c st); reflexivity.
  - cbn [raw]. f_equal. rewrite map_map. rewrite <- (map_id l) at 2. apply map_ext_in.
    intros x Hx. rewrite Forall_forall in H. auto.
  - cbn [raw]. f_equal. rewrite map_map. rewrite <- (map_id m) at 2. apply map_ext_in.
    intros [k x] Hx. rewrite Forall_forall in H. simpl. f_equal. apply (H _ Hx).
Qed.

Lemma xexpand_valid st : forall fuel v, valid st (xexpand fuel st v).
Proof.
  induction fuel as [|fu IH]; intro v; [apply valid_inject|].
  induction v using dm_ind2; rewrite xexpand_S; try constructor.
  - destruct (lookup c st) eqn:E; constructor; [now rewrite xexpand_raw | apply IH].
  - rewrite Forall_map. exact H.
  - rewrite Forall_map. exact H.
Qed.

(* every block of the store has unique map keys *)
Definition store_uniq (st : store) : Prop := forall c b, lookup c st = Some b -> wf_dm b = true.

Lemma xexpand_wfx st : store_uniq st -> forall fuel v, wf_dm v = true -> wfx (xexpand fuel st v).
Proof.
  intros Hst. induction fuel as [|fu IH]; intro v; [apply wfx_inject|].
  induction v using dm_ind2; rewrite xexpand_S; intro Hw; try (constructor; reflexivity).
  - destruct (lookup c st) eqn:E; constructor; [|reflexivity]. apply IH. eapply Hst; eassumption.
  - constructor. rewrite Forall_map. simpl in Hw. rewrite forallb_forall in Hw.
    rewrite Forall_forall in *. auto.
  - simpl in Hw. apply andb_true_iff in Hw as [Hu Hw]. constructor.
    + now rewrite uniqb_map.
    + rewrite Forall_map. rewrite forallb_forall in Hw. rewrite Forall_forall in *. simpl. auto.
Qed.
