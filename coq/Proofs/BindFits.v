(* Proofs/BindFits.v — what a well-formed Go value denotes fits its type: the image of [denote] on
   bindable pairs lies inside [fits], at type level and at representation level.  With BindView and
   BindAsm this closes the Marshal/Unmarshal round trip without a side condition. *)
Require Import IP.Base.Bytes IP.DM.Value IP.Bind.GoVal IP.Bind.Bind IP.Bind.Spec.
Require Import IP.Proofs.BindFacts IP.Proofs.BindView IP.Proofs.BindAsm.
From Coq Require Import ZifyN ZifyNat ZifyBool.
Open Scope N_scope.

Section Fits.
  Variable q : quirks.
  Variable n32 : N -> N.

  Definition fits_spec (lv : level) (t : sty) : Prop :=
    forall s g, bindable t s = true -> gv_ok q n32 t s g = true ->
                fits q lv n32 t s (denote lv t g) = true.

  Lemma fits_child_of_fits : forall lv t (nl : bool) s d,
    fits q lv n32 t (deref1 s) d = true -> fits_child (fits q lv n32 t) nl s d = true.
  Proof.
    intros lv t nl s d H. unfold fits_child. destruct d; try exact H.
    rewrite fits_nonnull in H. discriminate.
  Qed.

  Lemma loc_fits : forall lv t s g, fits_spec lv t ->
    loc_ok (fun _ => bindable t) t s = true -> ok_loc (gv_ok q n32 t) s g = true ->
    fits q lv n32 t (deref1 s) (denote lv t g) = true.
  Proof.
    intros lv t s g IH Hl Hg. destruct s; simpl in *; try (apply IH; assumption).
    apply andb3 in Hl. destruct Hl as [Hb _].
    destruct g; try discriminate.
    rewrite denote_ptr by (intros w ->; rewrite gv_ok_noptr in Hg; discriminate).
    apply IH; assumption.
  Qed.

  Lemma child_fits : forall lv t (nl : bool) s g, fits_spec lv t ->
    (if nl then nullable_ok (fun _ => bindable t) t s else loc_ok (fun _ => bindable t) t s) = true ->
    ok_child (gv_ok q n32 t) nl s g = true ->
    fits_child (fits q lv n32 t) nl s (den_child (denote lv t) nl g) = true.
  Proof.
    intros lv t nl s g IH Hs Hg. unfold ok_child, den_child in *. destruct nl.
    - destruct g; try reflexivity;
        (apply fits_child_of_fits;
         destruct (nullable_built_nonnil q n32 lv t s _ Hs Hg) as [_ Hun]; rewrite Hun;
         apply loc_fits; [assumption | apply nullable_loc_ok; assumption | assumption]).
    - apply fits_child_of_fits. apply loc_fits; assumption.
  Qed.

  (* struct fields *)
  Lemma field_fits : forall lv f s g, fits_spec lv (f_type f) ->
    field_ok (fun _ => bindable (f_type f)) (f_type f) (f_opt f) (f_nul f) s = true ->
    ok_field (gv_ok q n32 (f_type f)) (f_opt f) (f_nul f) s g = true ->
    match den_field (denote lv (f_type f)) (f_opt f) (f_nul f) g with
    | Some d => fits_child (fits q lv n32 (f_type f)) (f_nul f) (if f_opt f then deref1 s else s) d = true
    | None => f_opt f = true
    end.
  Proof.
    intros lv f s g IH Hs Hg. unfold field_ok, ok_field, den_field in *.
    set (t := f_type f) in *.
    destruct (f_opt f); destruct (f_nul f).
    - destruct s as [| | | | | | | s1 | | |]; try discriminate.
      apply andb_prop in Hs. destruct Hs as [Hs Hp].
      destruct g; try discriminate; try reflexivity.
      cbn [unptr deref1]. apply child_fits; assumption.
    - destruct s as [| | | | |k| | s1 | | |]; try discriminate.
      + destruct k; try discriminate.
        destruct g; try reflexivity; cbn [deref1 unptr];
          try (apply (child_fits lv t false (SLink LIface)); [assumption | exact Hs |]; unfold ok_child; exact Hg).
        unfold ok_child, ok_loc in Hg. rewrite gv_ok_noptr in Hg. discriminate.
      + destruct g; try reflexivity; cbn [deref1 unptr];
          try (apply (child_fits lv t false SNode); [assumption | exact Hs |]; unfold ok_child; exact Hg).
        unfold ok_child, ok_loc in Hg. rewrite gv_ok_noptr in Hg. discriminate.
      + destruct g; try discriminate; try reflexivity.
        cbn [unptr deref1].
        pose proof (bindable_noptr _ _ Hs) as Hnp.
        assert (Hl : loc_ok (fun _ => bindable t) t s1 = true).
        { destruct s1; simpl in *; try assumption; discriminate. }
        apply child_fits; assumption.
    - apply child_fits; assumption.
    - apply child_fits; assumption.
  Qed.

  Lemma den_fields_keys : forall lv (key : fld -> bytes) fs gs k v,
    In (k, v) (map (fun e => (key (fst e), snd e)) (den_fields (fun f => denote lv (f_type f)) fs gs)) ->
    In k (map key fs).
  Proof.
    intros lv key. induction fs as [|f fs IH]; intros gs k v H; [destruct gs; contradiction|].
    destruct gs as [|g gs]; [contradiction|].
    cbn [den_fields] in H.
    destruct (den_field (denote lv (f_type f)) (f_opt f) (f_nul f) g).
    - cbn [map fst snd] in H. destruct H as [H|H].
      + inversion H; subst. left; reflexivity.
      + right. eapply IH; exact H.
    - right. eapply IH; exact H.
  Qed.

  Lemma fields_fits : forall lv (key : fld -> bytes) fs ss gs,
    names_nodup (map key fs) = true ->
    Forall (fun f => fits_spec lv (f_type f)) fs ->
    fields_bindable (fun f => bindable (f_type f)) fs ss = true ->
    ok_fields (fun f => gv_ok q n32 (f_type f)) fs ss gs = true ->
    fits_fields (fun f => fits q lv n32 (f_type f)) key fs ss
      (map (fun e => (key (fst e), snd e)) (den_fields (fun f => denote lv (f_type f)) fs gs)) = true.
  Proof.
    intros lv key. induction fs as [|f fs IH]; intros ss gs Hnd HF Hb Hg.
    - destruct ss; simpl in Hb; try discriminate. destruct gs; reflexivity.
    - destruct ss as [|[sn s] ss]; simpl in Hb; try discriminate.
      destruct gs as [|g gs]; simpl in Hg; try discriminate.
      apply andb_prop in Hb. destruct Hb as [Hb1 Hb2].
      apply andb_prop in Hg. destruct Hg as [Hg1 Hg2].
      inversion HF as [|? ? HF1 HF2]; subst.
      cbn [map] in Hnd. destruct (nodup_head _ _ Hnd) as [Hfresh Hnd'].
      pose proof (field_fits lv f s g HF1 Hb1 Hg1) as Hfield.
      pose proof (IH ss gs Hnd' HF2 Hb2 Hg2) as Hrest.
      cbn [den_fields fits_fields].
      destruct (den_field (denote lv (f_type f)) (f_opt f) (f_nul f) g) as [d|].
      + cbn [map fst snd]. rewrite bytes_eqb_refl. rewrite Hfield, Hrest. reflexivity.
      + rewrite Hfield. cbn [andb].
        destruct (map (fun e => (key (fst e), snd e)) (den_fields (fun f0 => denote lv (f_type f0)) fs gs))
          as [|[k v] m'] eqn:Em; [exact Hrest|].
        assert (Hk : bytes_eqb k (key f) = false).
        { apply Hfresh. eapply (den_fields_keys lv key fs gs k v). rewrite Em. left; reflexivity. }
        rewrite Hk. exact Hrest.
  Qed.

  Lemma tuple_fits : forall lv fs ss gs,
    forallb (fun f => negb (f_opt f)) fs = true ->
    Forall (fun f => fits_spec lv (f_type f)) fs ->
    fields_bindable (fun f => bindable (f_type f)) fs ss = true ->
    ok_fields (fun f => gv_ok q n32 (f_type f)) fs ss gs = true ->
    fits_tuple (fun f => fits q lv n32 (f_type f)) fs ss (den_tuple (fun f => denote lv (f_type f)) fs gs) = true.
  Proof.
    intros lv. induction fs as [|f fs IH]; intros ss gs Hno HF Hb Hg.
    - destruct ss; simpl in Hb; try discriminate. destruct gs; simpl in Hg; try discriminate. reflexivity.
    - destruct ss as [|[sn s] ss]; simpl in Hb; try discriminate.
      destruct gs as [|g gs]; simpl in Hg; try discriminate.
      apply andb_prop in Hb. destruct Hb as [Hb1 Hb2].
      apply andb_prop in Hg. destruct Hg as [Hg1 Hg2].
      cbn [forallb] in Hno. apply andb_prop in Hno. destruct Hno as [Hn1 Hn2]. apply negb_true_iff in Hn1.
      inversion HF as [|? ? HF1 HF2]; subst.
      pose proof (field_fits lv f s g HF1 Hb1 Hg1) as Hfield.
      cbn [den_tuple]. unfold den_field in *. rewrite Hn1 in *.
      cbn [fits_tuple]. rewrite Hfield. rewrite (IH ss gs Hn2 HF2 Hb2 Hg2). reflexivity.
  Qed.

  (* unions: the one member that is set *)
  Lemma ok_members_inv : forall (ok : bytes * sty -> shape -> gv -> bool) ms ss gs,
    members_bindable (fun m => bindable (snd m)) ms ss = true ->
    ok_members ok ms ss gs false = true ->
    exists pre m post spre sn ms1 spost v rest,
      ms = pre ++ m :: post /\ ss = spre ++ (sn, SPtr ms1) :: spost /\
      gs = map (fun _ => GNil) spre ++ GPtr v :: rest /\
      length spre = length pre /\ ok m ms1 v = true /\ bindable (snd m) ms1 = true /\ is_any (snd m) = false.
  Proof.
    intros ok. induction ms as [|m ms IH]; intros ss gs Hb Hg.
    - destruct ss; simpl in Hb; try discriminate. destruct gs; simpl in Hg; discriminate.
    - destruct ss as [|[sn s] ss]; simpl in Hb; try discriminate.
      destruct s as [| | | | | | | ms1 | | |]; try discriminate.
      apply andb3 in Hb. destruct Hb as [Hb1 [Hany Hb2]]. apply negb_true_iff in Hany.
      destruct gs as [|g gs]; simpl in Hg; try discriminate.
      destruct g; try discriminate.
      + destruct (IH ss gs Hb2 Hg) as [pre [m' [post [spre [sn' [ms1' [spost [v [rest [E1 [E2 [E3 [El [Hok [Hbm Ha]]]]]]]]]]]]]]].
        exists (m :: pre), m', post, ((sn, SPtr ms1) :: spre), sn', ms1', spost, v, rest.
        subst. cbn [app map length]. repeat split; try assumption; try reflexivity. lia.
      + cbn [negb andb] in Hg. apply andb_prop in Hg. destruct Hg as [Hok _].
        exists [], m, ms, [], sn, ms1, ss, g, gs. repeat split; assumption.
  Qed.

  Lemma nodup_app_fresh : forall {A} (key : A -> bytes) (pre : list A) m post,
    names_nodup (map key (pre ++ m :: post)) = true ->
    forall x, In x pre -> bytes_eqb (key m) (key x) = false.
  Proof.
    intros A key. induction pre as [|p pre IH]; intros m post H x Hx; [contradiction|].
    cbn [app map] in H. destruct (nodup_head _ _ H) as [Hfresh Hnd].
    destruct Hx as [->|Hx].
    - apply Hfresh. rewrite map_app. apply in_or_app. right. left. reflexivity.
    - eapply IH; eassumption.
  Qed.

  (* enums *)
  Lemma enum_name_facts : forall ms x sr ir,
    enum_by_name x ms = Some (sr, ir) ->
    (exists m, enum_by_repr sr ms = Some m) /\ (exists m, enum_by_int ir ms = Some m)
    /\ In (x, sr, ir) ms.
  Proof.
    induction ms as [|[[mn msr] mir] ms IH]; intros x sr ir H; [discriminate|].
    simpl in H. destruct (bytes_eqb x mn) eqn:E.
    - inversion H; subst. apply bytes_eqb_eq in E. subst.
      simpl. rewrite bytes_eqb_refl, Z.eqb_refl. repeat split; eauto.
    - destruct (IH x sr ir H) as [[m1 H1] [[m2 H2] Hin]].
      simpl. repeat split.
      + destruct (bytes_eqb sr msr); eauto.
      + destruct (Z.eqb ir mir); eauto.
      + right. exact Hin.
  Qed.

  (* the kind of a representation-level value *)
  Lemma kind_denote : forall t s g k, repr_kind t = Some k ->
    bindable t s = true -> gv_ok q n32 t s g = true -> kind_name (denote LRepr t g) = k.
  Proof.
    intros t s g k Hk Hb Hg. pose proof (gv_ok_unptr _ _ _ _ _ Hg) as Hun.
    destruct t as [| | | | | | |n e nl|n kt vt nl|n fs r|n ms r|n ms r]; simpl in Hk; try discriminate.
    - inversion Hk. destruct g; simpl in Hg; try (destruct s; discriminate); try discriminate. reflexivity.
    - inversion Hk. destruct s; simpl in Hb; try discriminate. destruct g; simpl in Hg; try discriminate. reflexivity.
    - inversion Hk. destruct s as [| |[|]| | | | | | | |]; simpl in Hb; try discriminate; destruct g; simpl in Hg; try discriminate; reflexivity.
    - inversion Hk. destruct g; simpl in Hg; try discriminate. reflexivity.
    - inversion Hk. destruct g; simpl in Hg; try discriminate; reflexivity.
    - inversion Hk. destruct g; simpl in Hg; try discriminate. reflexivity.
    - inversion Hk. destruct s; simpl in Hb; try discriminate. destruct g; simpl in Hg; try discriminate; reflexivity.
    - inversion Hk. destruct (bindable_map_inv _ _ _ _ _ Hb) as [sn [k1 [n1 [k2 [mv [-> _]]]]]].
      destruct g as [| | | | | | | | | |gs|]; simpl in Hg; try discriminate.
      destruct gs as [|gk [|gm [|]]]; try discriminate. reflexivity.
    - destruct s as [| | | | | | | | |sn ss|]; simpl in Hb; try discriminate.
      destruct g as [| | | | | | | | | |gs|]; simpl in Hg; try discriminate.
      destruct r; inversion Hk; reflexivity.
    - destruct r; try discriminate.
      + inversion Hk.
        destruct s as [| | | | | | | | |sn ss|]; simpl in Hb; try discriminate.
        destruct g as [| | | | | | | | | |gs|]; simpl in Hg; try discriminate.
        apply andb_prop in Hb. destruct Hb as [Hb _]. apply andb3 in Hb. destruct Hb as [Hb _].
        destruct (ok_members_inv _ ms ss gs Hb Hg) as [pre [m [post [spre [sn' [ms1 [spost [v [rest [E1 [E2 [E3 [El _]]]]]]]]]]]]].
        subst. rewrite denote_union_unfold. rewrite den_union_at by assumption. reflexivity.
      + exfalso. destruct s; simpl in Hb; try discriminate. rewrite andb_false_r in Hb. discriminate.
    - destruct s; simpl in Hb; try discriminate.
      destruct g as [| | |x| | | | | | | |]; simpl in Hg; try discriminate.
      destruct (enum_by_name x ms) as [[sr ir]|] eqn:E; try discriminate.
      simpl. unfold den_enum. rewrite E. destruct r; inversion Hk; reflexivity.
  Qed.

  Lemma forallb_map : forall {A B} (f : B -> bool) (g : A -> B) l, forallb f (map g l) = forallb (fun x => f (g x)) l.
  Proof. intros A B f g l; induction l; simpl; [reflexivity | rewrite IHl; reflexivity]. Qed.

  Lemma names_of_strings : forall keys,
    forallb (fun k => match k with GString _ => true | _ => false end) keys = true ->
    gv_nodup keys = true ->
    names_nodup (map (fun k => match k with GString b => b | _ => [] end) keys) = true.
  Proof.
    induction keys as [|k keys IH]; intros Hs Hn; [reflexivity|].
    cbn [forallb] in Hs. apply andb_prop in Hs. destruct Hs as [Hk Hs].
    cbn [gv_nodup] in Hn. apply andb_prop in Hn. destruct Hn as [Hfresh Hn].
    destruct k; try discriminate.
    cbn [map names_nodup]. rewrite (IH Hs Hn), andb_true_r.
    apply negb_true_iff in Hfresh. apply negb_true_iff.
    clear - Hfresh Hs. induction keys as [|k keys IH]; [reflexivity|].
    cbn [forallb] in Hs. apply andb_prop in Hs. destruct Hs as [Hk Hs].
    cbn [existsb] in Hfresh. apply orb_false_elim in Hfresh. destruct Hfresh as [H1 H2].
    destruct k; try discriminate. cbn [map existsb]. rewrite gv_eqb_str in H1. rewrite H1. apply IH; assumption.
  Qed.

  Theorem denote_fits : forall lv t, fits_spec lv t.
  Proof.
    intros lv. induction t using sty_ind2; unfold fits_spec; intros s g Hb Hg.
    - destruct s; simpl in Hb; try discriminate; destruct g; simpl in Hg; try discriminate; reflexivity.
    - destruct s; simpl in Hb; try discriminate; destruct g; simpl in Hg; try discriminate. exact Hg.
    - destruct s as [| |single| | | | | | | |]; simpl in Hb; try discriminate;
        destruct single; destruct g; simpl in Hg; try discriminate; simpl; assumption || reflexivity.
    - destruct s; simpl in Hb; try discriminate; destruct g; simpl in Hg; try discriminate; reflexivity.
    - destruct s; simpl in Hb; try discriminate; destruct g; simpl in Hg; try discriminate; reflexivity.
    - destruct s; simpl in Hb; try discriminate; destruct g; simpl in Hg; try discriminate; reflexivity.
    - destruct s; simpl in Hb; try discriminate; destruct g; simpl in Hg; try discriminate.
      destruct d; try discriminate; reflexivity.
    - (* list *)
      destruct s as [| | | | | | | |sn es| |]; simpl in Hb; try discriminate.
      destruct g; simpl in Hg; try discriminate; [reflexivity|].
      simpl. rewrite forallb_map. apply forallb_forall. intros x Hx.
      rewrite forallb_forall in Hg. apply child_fits; auto.
    - (* map *)
      destruct (bindable_map_inv _ _ _ _ _ Hb) as [sn [k1 [n1 [k2 [mv [-> [-> Hv]]]]]]].
      destruct g as [| | | | | | | | | |gs|]; simpl in Hg; try discriminate.
      destruct gs as [|gk gs]; try discriminate.
      destruct gs as [|gm gs]; try discriminate.
      destruct gs; try discriminate.
      repeat (apply andb_prop in Hg; destruct Hg as [Hg ?]).
      cbn [denote unptr fits].
      set (keys := match gk with GSlice l => l | _ => [] end) in *.
      set (m := match gm with GGoMap m => m | _ => [] end) in *.
      apply andb_true_intro. split.
      + rewrite map_map. cbn [fst].
        erewrite map_ext_in; [apply names_of_strings; eassumption|].
        intros k Hk. rewrite forallb_forall in H0. specialize (H0 k Hk). destruct k; try discriminate. reflexivity.
      + rewrite forallb_map. apply forallb_forall. intros k Hk. cbn [snd].
        rewrite forallb_forall in H. specialize (H k Hk).
        destruct (gomap_get k m) as [v|]; try discriminate.
        apply child_fits; assumption.
    - (* struct *)
      destruct s as [| | | | | | | | |sn ss|]; simpl in Hb; try discriminate.
      apply andb_prop in Hb. destruct Hb as [Hb Hr].
      apply andb3 in Hb. destruct Hb as [Hb [Hnn Hnr]].
      destruct g as [| | | | | | | | | |gs|]; simpl in Hg; try discriminate.
      rewrite denote_struct_unfold.
      destruct lv; [|destruct r].
      + cbn [fits]. assert (Hfit := fields_fits LType f_name fs ss gs Hnn H Hb Hg). destruct r; exact Hfit.
      + cbn [fits]. exact (fields_fits LRepr f_rkey fs ss gs Hnr H Hb Hg).
      + cbn [fits]. exact (tuple_fits LRepr fs ss gs Hr H Hb Hg).
    - (* union *)
      destruct s as [| | | | | | | | |sn ss|]; simpl in Hb; try discriminate.
      apply andb_prop in Hb. destruct Hb as [Hb Hkwf].
      apply andb3 in Hb. destruct Hb as [Hb [Hnn Hnd]].
      destruct g as [| | | | | | | | | |gs|]; simpl in Hg; try discriminate.
      destruct (ok_members_inv _ ms ss gs Hb Hg)
        as [pre [m [post [spre [sn' [ms1 [spost [v [rest [E1 [E2 [E3 [El [Hok [Hbm Hany]]]]]]]]]]]]]]].
      assert (HFm : fits_spec lv (snd m)).
      { rewrite Forall_forall in H. apply H. rewrite E1. apply in_or_app. right. left. reflexivity. }
      pose proof (HFm ms1 v Hbm Hok) as Hfm.
      assert (Hnth : nth_shape (length pre) ss = SPtr ms1).
      { unfold nth_shape. rewrite E2, <- El, nth_app_here. reflexivity. }
      rewrite denote_union_unfold. subst gs. rewrite E1. rewrite den_union_at by assumption. rewrite <- E1.
      destruct lv; [|destruct r].
      + (* type level: keyed by the member's type name *)
        assert (Hgoal : with_member true (sty_name (snd m))
                  (fun i m0 => fits_child (fits q LType n32 (snd m0)) false (nth_shape i ss) (denote LType (snd m) v))
                  false ms 0 = true).
        { rewrite E1. rewrite with_member_found.
          - cbn [Nat.add]. rewrite Hnth. apply fits_child_of_fits. exact Hfm.
          - intros x Hx. unfold mkey. apply (nodup_app_fresh (fun m => sty_name (snd m)) pre m post); [rewrite <- E1; exact Hnn | exact Hx].
          - unfold mkey. apply bytes_eqb_refl. }
        cbn [fits]. destruct r; exact Hgoal.
      + cbn [fits]. rewrite E1. rewrite with_member_found.
        * cbn [Nat.add]. rewrite Hnth. apply fits_child_of_fits. exact Hfm.
        * intros x Hx. unfold mkey. apply (nodup_app_fresh fst pre m post); [rewrite <- E1; exact Hnd | exact Hx].
        * unfold mkey. apply bytes_eqb_refl.
      + (* kinded: the member is found through the kind of its representation *)
        assert (Hkm : kind_name (denote LRepr (snd m) v) = fst m).
        { unfold kinded_wf in Hkwf. rewrite forallb_forall in Hkwf.
          assert (Hin : In m ms) by (rewrite E1; apply in_or_app; right; left; reflexivity).
          specialize (Hkwf m Hin). destruct (repr_kind (snd m)) as [k|] eqn:Ek; try discriminate.
          apply bytes_eqb_eq in Hkwf. rewrite Hkwf. eapply kind_denote; eassumption. }
        cbn [fits].
        assert (Hd : denote LRepr (snd m) v <> DNull).
        { intros E. rewrite E in Hfm. rewrite fits_nonnull in Hfm. discriminate. }
        assert (Hw : with_member false (kind_name (denote LRepr (snd m) v))
                       (fun i m0 => fits q LRepr n32 (snd m0) (deref1 (nth_shape i ss)) (denote LRepr (snd m) v))
                       false ms 0 = true).
        { rewrite E1. rewrite with_member_found.
          - cbn [Nat.add]. rewrite Hnth. exact Hfm.
          - intros x Hx. unfold mkey. rewrite Hkm.
            apply (nodup_app_fresh fst pre m post); [rewrite <- E1; exact Hnd | exact Hx].
          - unfold mkey. rewrite Hkm. apply bytes_eqb_refl. }
        destruct (denote LRepr (snd m) v); try congruence; exact Hw.
      + discriminate Hkwf.
    - (* enum *)
      destruct s; simpl in Hb; try discriminate.
      apply andb_prop in Hb. destruct Hb as [Hb Hsmall].
      destruct g as [| | |x| | | | | | | |]; simpl in Hg; try discriminate.
      destruct (enum_by_name x ms) as [[sr ir]|] eqn:E; try discriminate.
      destruct (enum_name_facts ms x sr ir E) as [[m1 H1] [[m2 H2] Hin]].
      simpl. unfold den_enum. destruct lv; [|destruct r].
      + cbn [fits]. destruct r; rewrite E; reflexivity.
      + rewrite E. cbn [fits]. rewrite H1. reflexivity.
      + rewrite E. cbn [fits]. rewrite H2.
        rewrite forallb_forall in Hsmall. specialize (Hsmall _ Hin). simpl in Hsmall. rewrite Hsmall. reflexivity.
  Qed.
End Fits.
