(* Proofs/TravPinned.v — C07 for the code AS IT IS (any setting of the quirk switches, in particular
   [pinned]): on every walk along which no deviation fires — a decidable condition, [walk_quirk_free] — the
   operational walk yields exactly what the selector denotes.  The condition says, at every step of the walk:
     - the explicit interests of the current selector name no child twice (or union de-duplication is repaired),
     - no recursion edge is Explore'd bare (or that panic is repaired),
     - whenever the current clause of a recursion hands back an edge, ALL union members it hands back are edges
       (they pass the edge together, so the shared depth counter and the wrapper dropped at exhaustion are
       unobservable) and the recursion's sequence has a live clause.
   The repaired model satisfies the condition on every walk. *)
Require Import IP.Base.Bytes IP.DM.Value IP.Base.GoSem IP.Trav.Selector IP.Trav.Walk IP.Trav.Controls IP.Trav.SelectorSpec
  IP.Trav.Path IP.Trav.QuirkFree IP.Proofs.TravFacts IP.Proofs.TravSel IP.Proofs.TravStart IP.Proofs.TravPath IP.Proofs.TravSlice
  IP.Proofs.TravDenote IP.Proofs.TravDenoteWalk.
From Coq Require Import Lia.
Open Scope Z_scope.

(* ------------------------------------------------------------------ shapes *)
Fixpoint all_edges_list (ms : list sel) : bool :=
  match ms with [] => true | m :: t => all_edges m && all_edges_list t end.
Lemma all_edges_union m ms : all_edges (SUnion (m :: ms)) = all_edges_list (m :: ms).
Proof. reflexivity. Qed.

Fixpoint emptyrep_list (ms : list sel) : bool :=
  match ms with [] => true | m :: t => emptyrep m && emptyrep_list t end.
Lemma emptyrep_union m ms : emptyrep (SUnion (m :: ms)) = emptyrep_list (m :: ms).
Proof. reflexivity. Qed.

Lemma rep_empty_iff s : forall fr, rep s fr = [] <-> emptyrep s = true.
Proof.
  induction s as [sl|nx IH|fs IH|i nx IH|a b' nx IH|ms IH|sq cur lim stop IH1 IH2|] using sel_ind2;
    intros fr; try (cbn; split; discriminate).
  - destruct ms as [|m ms]; [cbn; split; discriminate|]. rewrite rep_union, emptyrep_union.
    revert IH. generalize (m :: ms). intros l IH.
    induction l as [|x t IHt]; [cbn; tauto|]. inversion IH as [|? ? Hx Ht]; subst.
    cbn [rep_list emptyrep_list]. rewrite andb_true_iff, <- (Hx fr), <- (IHt Ht). split.
    + intros E. apply app_eq_nil in E. exact E.
    + intros [E1 E2]. rewrite E1, E2. reflexivity.
  - cbn [rep emptyrep]. split; [intros E; exfalso; eapply or_nop_nonempty; eauto|discriminate].
  - cbn. tauto.
Qed.


Lemma rep_noedge_nonempty s : forall fr, has_edge s = false -> rep s fr <> [].
Proof.
  induction s as [sl|nx IH|fs IH|i nx IH|a b' nx IH|ms IH|sq cur lim stop IH1 IH2|] using sel_ind2;
    intros fr H; try (cbn; discriminate).
  - destruct ms as [|m ms]; [cbn; discriminate|]. rewrite rep_union. rewrite has_edge_union in H.
    inversion IH as [|? ? Hx Ht]; subst. cbn in H. apply orb_false_iff in H. destruct H as [H1 _].
    cbn. intros E. apply app_eq_nil in E. destruct E as [E _]. eapply Hx; eauto.
  - cbn. apply or_nop_nonempty.
Qed.

(* ------------------------------------------------------------------ the code's edge replacement *)
Fixpoint replace_list (r : option sel) (ms : list sel) : list sel :=
  match ms with
  | [] => []
  | m :: t => match replace_edge m r with Some m' => m' :: replace_list r t | None => replace_list r t end
  end.
Lemma replace_edge_union r ms : replace_edge (SUnion ms) r = union_of (replace_list r ms).
Proof.
  cbn [replace_edge]. f_equal.
  match goal with |- ?F ms = _ => assert (E : forall l, F l = replace_list r l) end.
  { induction l as [|x t IH]; [reflexivity|]. cbn [replace_list]. destruct (replace_edge x r); rewrite IH; reflexivity. }
  apply E.
Qed.

Lemma all_edges_has_edge s : all_edges s = true -> has_edge s = true.
Proof.
  induction s as [sl|nx IH|fs IH|i nx IH|a b' nx IH|ms IH|sq cur lim stop IH1 IH2|] using sel_ind2;
    intros H; try discriminate; [|reflexivity].
  destruct ms as [|m ms]; [discriminate|]. rewrite all_edges_union in H. rewrite has_edge_union.
  cbn in H. apply andb_true_iff in H. destruct H as [H1 _]. inversion IH; subst. cbn. rewrite H2 by assumption. reflexivity.
Qed.

Lemma all_edges_replace_none s : all_edges s = true -> replace_edge s None = None.
Proof.
  induction s as [sl|nx IH|fs IH|i nx IH|a b' nx IH|ms IH|sq cur lim stop IH1 IH2|] using sel_ind2;
    intros H; try discriminate; [|reflexivity].
  destruct ms as [|m ms]; [discriminate|]. rewrite all_edges_union in H. rewrite replace_edge_union.
  replace (replace_list None (m :: ms)) with (@nil sel); [reflexivity|].
  revert IH H. generalize (m :: ms). intros l IH Hl.
  induction l as [|x t IHt]; [reflexivity|]. inversion IH as [|? ? Hx Ht]; subst.
  cbn in Hl. apply andb_true_iff in Hl. destruct Hl as [H1 H2]. cbn [replace_list]. rewrite (Hx H1). auto.
Qed.

(* with the sequence as replacement: the result stands for one fresh entry of the sequence per edge *)
Section ReplaceSome.
  Variables (sq : sel) (lim : option Z) (stop : option bytes) (fr : list frame).
  Hypothesis Hsq : srcw true sq.
  Hypothesis Hlive : live sq = true.
  Hypothesis Hex : exhausted lim = false.
  Let fr' := mkframe sq lim stop :: fr.
  Let fr'' := mkframe sq (lim_pred lim) stop :: fr.

  Lemma reenter_live : reenter fr' = rep sq fr''.
  Proof.
    unfold reenter, fr'. cbn [mkframe fr_lim fr_seq fr_stop]. rewrite Hex. fold fr''.
    rewrite <- (rep_src sq true fr'' Hsq). apply or_nop_id.
    intros E. apply rep_empty_iff in E. unfold live in Hlive. rewrite E in Hlive. discriminate.
  Qed.

  Lemma rep_sq_nonempty : rep sq fr'' <> [].
  Proof. intros E. apply rep_empty_iff in E. unfold live in Hlive. rewrite E in Hlive. discriminate. Qed.

  Definition rs_ok (s : sel) : Prop :=
    all_edges s = true ->
    exists c, replace_edge s (Some sq) = Some c /\ rt true c /\ rep c fr'' = lrep s fr' /\ rep c fr'' <> [].

  Lemma replace_list_edges l :
    Forall rs_ok l -> all_edges_list l = true ->
    Forall (rt true) (replace_list (Some sq) l) /\
    rep_list (replace_list (Some sq) l) fr'' = lrep_list l fr' /\
    (l <> [] -> rep_list (replace_list (Some sq) l) fr'' <> []).
  Proof.
    induction l as [|x t IHt]; intros IH Hl; [repeat split; [constructor|congruence]|].
    inversion IH as [|? ? Hx Ht]; subst. cbn in Hl. apply andb_true_iff in Hl. destruct Hl as [H1 H2].
    destruct (Hx H1) as (c & Ec & Rc & Pc & Nc). destruct (IHt Ht H2) as (Rcs & Pcs & _).
    cbn [replace_list]. rewrite Ec. repeat split.
    - constructor; assumption.
    - cbn [rep_list lrep_list]. rewrite Pc, Pcs. reflexivity.
    - intros _. cbn [rep_list]. intros E. apply app_eq_nil in E. destruct E as [E _]. exact (Nc E).
  Qed.

  Lemma all_edges_replace_some s : rs_ok s.
  Proof.
    induction s as [sl|nx IH|fs IH|i nx IH|a b' nx IH|ms IH|sq0 cur lim0 stop0 IH1 IH2|] using sel_ind2;
      intros H; try discriminate.
    - destruct ms as [|m ms]; [discriminate|]. rewrite all_edges_union in H. rewrite replace_edge_union, lrep_union.
      destruct (replace_list_edges (m :: ms) IH H) as (Rcs & Pcs & Ncs).
      specialize (Ncs ltac:(discriminate)).
      pose proof (orep_union_of (replace_list (Some sq) (m :: ms)) fr'') as Hu.
      destruct (union_of (replace_list (Some sq) (m :: ms))) as [c|] eqn:Eu.
      + exists c. cbn [orep] in Hu. repeat split.
        * destruct (replace_list (Some sq) (m :: ms)) as [|x [|y t]]; cbn in Eu; inversion Eu; subst.
          -- inversion Rcs; assumption.
          -- constructor; assumption.
        * rewrite Hu. exact Pcs.
        * rewrite Hu. exact Ncs.
      + exfalso. destruct (replace_list (Some sq) (m :: ms)) as [|x [|y t]]; cbn in Eu; try discriminate.
        apply Ncs. reflexivity.
    - exists sq. cbn [replace_edge lrep]. repeat split.
      + apply srcw_rt; exact Hsq.
      + symmetry. apply reenter_live.
      + apply rep_sq_nonempty.
  Qed.
End ReplaceSome.

Lemma lrep_all_edges_exhausted sq lim stop fr s :
  exhausted lim = true -> all_edges s = true -> lrep s (mkframe sq lim stop :: fr) = [].
Proof.
  intros Hex. induction s as [sl|nx IH|fs IH|i nx IH|a b' nx IH|ms IH|sq0 cur lim0 stop0 IH1 IH2|] using sel_ind2;
    intros H; try discriminate.
  - destruct ms as [|m ms]; [discriminate|]. rewrite all_edges_union in H. rewrite lrep_union.
    revert IH H. generalize (m :: ms). intros l IH Hl.
    induction l as [|x t IHt]; [reflexivity|]. inversion IH as [|? ? Hx Ht]; subst.
    cbn in Hl. apply andb_true_iff in Hl. destruct Hl as [H1 H2]. cbn. rewrite (Hx H1), (IHt Ht H2). reflexivity.
  - cbn. rewrite Hex. reflexivity.
Qed.

(* ------------------------------------------------------------------ when a deviation does not fire *)

Lemma wrap_q q sq lim stop (Hsq : srcw true sq) nx b fr :
  rt true nx -> wrap_cond q sq lim nx = true ->
  exists r, rec_wrap q sq lim stop nx = XOk r /\ (forall w, r = Some w -> rt b w /\ has_edge w = false) /\
            orep r fr = lrep nx (mkframe sq lim stop :: fr).
Proof.
  intros Hn Hc. unfold rec_wrap, wrap_cond in *.
  destruct (q_shared_depth q).
  - destruct (has_edge nx) eqn:He; cbn [negb orb] in *.
    + apply andb_true_iff in Hc. destruct Hc as [Hall Hlive].
      destruct (exhausted lim) eqn:Hex.
      * rewrite (all_edges_replace_none nx Hall).
        exists None. split; [destruct (q_exhausted_unwrap q); reflexivity|]. split; [discriminate|].
        cbn [orep]. symmetry. apply lrep_all_edges_exhausted; assumption.
      * destruct (all_edges_replace_some sq lim stop fr Hsq Hlive Hex nx Hall) as (c & Ec & Rc & Pc & Nc).
        rewrite Ec. exists (Some (SRec sq c (lim_pred lim) stop)). split; [reflexivity|]. split.
        -- intros w E; inversion E; subst. split; [constructor; assumption|reflexivity].
        -- cbn [orep rep]. rewrite or_nop_id by exact Nc. exact Pc.
    + exists (Some (SRec sq nx lim stop)). split; [reflexivity|]. split.
      * intros w E; inversion E; subst. split; [constructor; assumption|reflexivity].
      * cbn [orep rep]. rewrite or_nop_id by (apply rep_noedge_nonempty; exact He).
        symmetry. apply lrep_noedge. exact He.
  - apply negb_true_iff in Hc. rewrite Hc.
    exists (wrap_members sq lim stop nx). split; [reflexivity|]. split.
    + intros w E. split; [exact (wrap_rt sq lim stop Hsq nx b w Hn E)|].
      apply rt_closed. exact (wrap_rt sq lim stop Hsq nx false w Hn E).
    + apply wrap_rep. exact Hsq.
Qed.

Fixpoint quirk_free_list (q : quirks) (ms : list sel) (n : dm) (p : seg) : bool :=
  match ms with [] => true | m :: t => quirk_free q m n p && quirk_free_list q t n p end.
Lemma quirk_free_union q ms n p : quirk_free q (SUnion ms) n p = quirk_free_list q ms n p.
Proof.
  cbn [quirk_free].
  match goal with |- ?F ms = _ => assert (E : forall l, F l = quirk_free_list q l n p) end.
  { induction l as [|x t IH]; [reflexivity|]. cbn [quirk_free_list]. rewrite IH. reflexivity. }
  apply E.
Qed.

Definition explore_ok_q (q : quirks) (s : sel) : Prop :=
  forall b fr n ps v,
    rt b s -> lookup_seg n ps = Some v -> stopped fr v = false -> quirk_free q s n ps = true ->
    exists r, explore q s n ps = XOk r /\
              (forall s', r = Some s' -> rt b s') /\
              lrep_opt r fr = flat_map (sstep n ps v) (rep s fr).

Lemma explore_sstep_q q : forall s, explore_ok_q q s.
Proof.
  induction s as [sl|nx IH|fs IH|i nx IH|a b' nx IH|ms IH|sq cur lim stop IH1 IH2|] using sel_ind2;
    intros b fr n ps v Hrt Hl Hs Hq.
  - exact (explore_sstep (SMatch sl) b fr n ps v Hrt Hl Hs).
  - exact (explore_sstep (SAll nx) b fr n ps v Hrt Hl Hs).
  - exact (explore_sstep (SFields fs) b fr n ps v Hrt Hl Hs).
  - exact (explore_sstep (SIndex i nx) b fr n ps v Hrt Hl Hs).
  - exact (explore_sstep (SRange a b' nx) b fr n ps v Hrt Hl Hs).
  - (* union *)
    destruct ms as [|m ms].
    + exists None. cbn. rewrite Hs. fin. reflexivity.
    + rewrite explore_union, rep_union. rewrite quirk_free_union in Hq.
      inversion Hrt as [| | | | |? ? Hms| |]; subst.
      assert (Hall : exists rs, explore_all q (m :: ms) n ps = XOk rs /\ Forall (rt b) rs /\
                                lrep_list rs fr = flat_map (sstep n ps v) (rep_list (m :: ms) fr)).
      { revert IH Hms Hq. generalize (m :: ms). intros l IH Hlr Hql.
        induction l as [|x t IHt]; [exists []; repeat split; constructor|].
        inversion IH as [|? ? Hx Ht]; subst. inversion Hlr as [|? ? Rx Rt]; subst.
        cbn in Hql. apply andb_true_iff in Hql. destruct Hql as [Q1 Q2].
        destruct (Hx b fr n ps v Rx Hl Hs Q1) as (r & Er & Rr & Lr).
        destruct (IHt Ht Rt Q2) as (rs & Ers & Rrs & Lrs).
        cbn [explore_all rep_list]. rewrite Er, Ers, flat_map_app, <- Lr, <- Lrs.
        destruct r as [x'|]; eexists; (split; [reflexivity|split]); auto. }
      destruct Hall as (rs & Ers & Rrs & Lrs). rewrite Ers. exists (union_of rs).
      split; [reflexivity|split].
      * intros s' E. destruct rs as [|x [|y t]]; cbn in E; inversion E; subst.
        -- inversion Rrs; assumption.
        -- constructor; assumption.
      * rewrite lrep_union_of. exact Lrs.
  - (* recursion *)
    inversion Hrt as [| | | | | |? ? ? ? ? Hsq Hcur|]; subst.
    cbn [explore rep]. cbn [quirk_free] in Hq. fold (mkframe sq lim stop). rewrite flat_map_or_nop, Hl.
    rewrite Hl in Hq.
    set (fr' := mkframe sq lim stop :: fr).
    assert (Hst : stopped fr' v = match stop with Some c => cond_match c v | None => false end).
    { unfold fr'. cbn [stopped existsb mkframe fr_stop]. fold (stopped fr v). rewrite Hs.
      destruct stop; [apply orb_false_r|reflexivity]. }
    match goal with |- context [if is_edge cur then ?A else ?B] => set (cont := if is_edge cur then A else B) end.
    match type of Hq with context [if is_edge cur then true else ?B] => set (qcont := if is_edge cur then true else B) in Hq end.
    assert (Hmain : stopped fr' v = false -> qcont = true ->
                    exists r, cont = XOk r /\ (forall s', r = Some s' -> rt b s') /\
                              lrep_opt r fr = flat_map (sstep n ps v) (rep cur fr')).
    { intros Est Hqc. unfold cont. unfold qcont in Hqc. destruct (is_edge cur) eqn:Ee.
      - destruct cur; try discriminate. exists None. fin. reflexivity.
      - apply andb_true_iff in Hqc. destruct Hqc as [Q1 Q2].
        destruct (IH2 true fr' n ps v Hcur Hl Est Q1) as (r & Er & Rr & Lr). rewrite Er in *.
        destruct r as [nx|].
        + destruct (wrap_q q sq lim stop Hsq nx b fr (Rr nx eq_refl) Q2) as (r' & Er' & Rr' & Lr').
          rewrite Er'. exists r'. split; [reflexivity|split].
          * intros s' E. apply (Rr' s' E).
          * rewrite <- Lr. cbn [lrep_opt]. fold fr' in Lr'. rewrite <- Lr'.
            destruct r' as [w|]; cbn [orep lrep_opt]; [|reflexivity].
            apply lrep_noedge. apply (Rr' w eq_refl).
        + exists None. fin. exact Lr. }
    destruct stop as [c|].
    + cbn iota beta. destruct (cond_match c v) eqn:Ec.
      * exists None. fin. symmetry.
        apply (sstep_dead n ps v fr'); [exact Hst|apply rep_frames].
      * apply Hmain; [exact Hst|exact Hq].
    + apply Hmain; [exact Hst|exact Hq].
  - (* edge *)
    cbn in Hq. apply negb_true_iff in Hq. exists None. cbn. rewrite Hq. fin. reflexivity.
Qed.

(* ------------------------------------------------------------------ the walk *)
Fixpoint mem_str (x : bytes) (l : list bytes) : bool :=
  match l with [] => false | y :: t => bytes_eqb x y || mem_str x t end.

Lemma dedup_nodup l : forall seen,
  nodup_strs (map seg_string l) = true ->
  (forall p, In p l -> mem_str (seg_string p) seen = false) ->
  dedup_segs seen l = l.
Proof.
  induction l as [|p r IH]; intros seen Hn Hs; [reflexivity|].
  cbn [dedup_segs]. change ((fix mem (x : bytes) (l0 : list bytes) {struct l0} : bool :=
       match l0 with [] => false | y :: t => bytes_eqb x y || mem x t end) (seg_string p) seen)
    with (mem_str (seg_string p) seen).
  rewrite (Hs p (or_introl eq_refl)). f_equal.
  cbn in Hn. apply andb_true_iff in Hn. destruct Hn as [Hm Hn]. apply IH; [exact Hn|].
  intros p' Hin. cbn [mem_str]. rewrite (Hs p' (or_intror Hin)), orb_false_r.
  destruct (bytes_eqb (seg_string p') (seg_string p)) eqn:E; [|reflexivity].
  apply beqb_eq in E. apply negb_true_iff in Hm.
  assert (mem_bytes (seg_string p) (map seg_string r) = true) as Hc; [|congruence].
  apply mem_bytes_In. rewrite <- E. apply in_map. exact Hin.
Qed.


Lemma nodup_b_eq l : nodup_strs_b l = nodup_strs l.
Proof. induction l as [|x r IH]; [reflexivity|]. cbn. rewrite IH. reflexivity. Qed.

Lemma children_q q n s : interests_ok q s = true -> children q n s = children repaired n s.
Proof.
  unfold interests_ok, children. destruct (q_union_dup q); cbn [negb orb repaired q_union_dup]; [|reflexivity].
  destruct (interests s) as [attn|]; [|reflexivity]. intros H.
  rewrite nodup_b_eq in H. rewrite dedup_nodup; [reflexivity|exact H|]. intros; reflexivity.
Qed.


Section WQ.
  Variable q : quirks.
  Variable g : list (bytes * dm).
  Hypothesis Hg : keys_graph g = true.
  Hypothesis Hsg : small_graph g = true.

  Theorem walk_denote_q f : forall ls P n s,
    walk_quirk_free q g f n s = true ->
    rt false s -> keys_ok n = true -> small_dm n = true ->
    walk q g f ls P n s = denote g f ls P n (rep s []).
  Proof.
    induction f as [|f IH]; intros ls P n s Hqf Hrt Hk Hsm; [reflexivity|].
    rewrite walk_S, denote_S. unfold visit_event. rewrite (match_rep s false [] n Hrt (small_dm_top n Hsm)).
    cbn [walk_quirk_free] in Hqf.
    destruct (is_container n); [|reflexivity].
    apply andb_true_iff in Hqf. destruct Hqf as [Hi Hall]. rewrite forallb_forall in Hall.
    rewrite <- (children_rep n s []), <- (children_q q n s Hi).
    rewrite (seqk_ext_in (explore_step q g (walk q g f) ls P n s)
                         (denote_step g (denote g f) ls P n (rep s []))); [reflexivity|].
    intros [ps v] Hin. specialize (Hall _ Hin). cbn [fst snd] in Hall.
    apply andb_true_iff in Hall. destruct Hall as [Hqk Hrec].
    pose proof (children_lookup q n s ps v Hk Hin) as Hl.
    pose proof (lookup_keys_ok n ps v Hk Hl) as Hkv.
    pose proof (lookup_small n ps v Hsm Hl) as Hsv.
    destruct (explore_sstep_q q s false [] n ps v Hrt Hl eq_refl Hqk) as (r & Er & Rr & Lr).
    unfold explore_step, denote_step; cbn [fst snd]. rewrite Er in *. rewrite <- Lr.
    destruct r as [s'|]; [|reflexivity].
    specialize (Rr s' eq_refl). cbn [lrep_opt]. rewrite (lrep_noedge s' [] (rt_closed s' Rr)).
    pose proof (rep_closed_nonempty s' [] Rr) as Hne.
    destruct (rep s' []) as [|t0 l0] eqn:Erep; [congruence|]. rewrite <- Erep.
    destruct v; try (apply IH; assumption).
    destruct (assoc c g) as [b|] eqn:Eb; [|reflexivity].
    rewrite (IH (c :: ls) (P ++ [ps]) b s' Hrec Rr (keys_block g c b Hg Eb) (small_block g c b Hsg Eb)). reflexivity.
  Qed.
End WQ.

Theorem walk_denote_sel_q q g f root s :
  keys_graph g = true -> small_graph g = true -> keys_ok root = true -> small_dm root = true -> srcw false s ->
  walk_quirk_free q g f root s = true ->
  walk_adv q g f root s = denote_sel g f root s.
Proof.
  intros Hg Hsg Hk Hsm Hs Hq. unfold walk_adv, denote_sel.
  rewrite (walk_denote_q q g Hg Hsg f [] [] root s Hq (srcw_rt s false Hs) Hk Hsm).
  rewrite (rep_src s false [] Hs), (enter_closed s [] Hs). reflexivity.
Qed.

(* ---- the condition is not vacuous for the code as it is: the canonical "explore everything recursively and
   match everything" selector with a depth limit, over a graph with a repeated link *)
Example pinned_fragment_example :
  let g := [([1; 113; 18; 1; 170]%N, DMap [([118%N], DInt 7)])] in
  let root := DMap [([97%N], DLink [1; 113; 18; 1; 170]%N);
                    ([98%N], DList [DInt 1; DLink [1; 113; 18; 1; 170]%N; DString [104%N; 105%N]])] in
  let sq := SUnion [SMatch None; SAll SEdge] in
  walk_quirk_free pinned g 10 root (SRec sq sq (Some 2) None) = true /\
  srcw false (SRec sq sq (Some 2) None).
Proof.
  split; [vm_compute; reflexivity|].
  constructor. constructor. constructor; [constructor; exact I|]. constructor; [|constructor]. constructor. constructor.
Qed.

(* ------------------------------------------------------------------ the recursion-free fragment *)
(* matcher / all / fields / index / range and unions of them: the only deviation that can fire is the
   union's duplicate interests *)
Fixpoint norec (s : sel) : bool :=
  match s with
  | SMatch _ => true
  | SAll nx | SIndex _ nx | SRange _ _ nx => norec nx
  | SFields fs => (fix go (l : list (bytes * sel)) : bool :=
                     match l with [] => true | kv :: t => norec (snd kv) && go t end) fs
  | SUnion ms => (fix go (l : list sel) : bool :=
                    match l with [] => true | m :: t => norec m && go t end) ms
  | SRec _ _ _ _ | SEdge => false
  end.
Fixpoint norec_list (ms : list sel) : bool :=
  match ms with [] => true | m :: t => norec m && norec_list t end.
Lemma norec_union ms : norec (SUnion ms) = norec_list ms.
Proof. reflexivity. Qed.
Fixpoint norec_fields (fs : list (bytes * sel)) : bool :=
  match fs with [] => true | kv :: t => norec (snd kv) && norec_fields t end.
Lemma norec_fields_eq fs : norec (SFields fs) = norec_fields fs.
Proof. reflexivity. Qed.

Lemma quirk_free_norec q s : forall n p, norec s = true -> quirk_free q s n p = true.
Proof.
  induction s as [sl|nx IH|fs IH|i nx IH|a b' nx IH|ms IH|sq cur lim stop IH1 IH2|] using sel_ind2;
    intros n p H; try reflexivity; try discriminate.
  rewrite quirk_free_union. rewrite norec_union in H.
  induction ms as [|m t IHt]; [reflexivity|]. inversion IH as [|? ? Hx Ht]; subst.
  cbn in H. apply andb_true_iff in H. destruct H as [H1 H2]. cbn. rewrite (Hx n p H1). apply IHt; assumption.
Qed.

Lemma assoc_norec k fs nx : norec_fields fs = true -> assoc k fs = Some nx -> norec nx = true.
Proof.
  induction fs as [|[k' x] t IH]; cbn; [discriminate|]. intros H. apply andb_true_iff in H. destruct H as [H1 H2].
  destruct (bytes_eqb k k'); [intros E; inversion E; subst; exact H1|apply IH; exact H2].
Qed.

Lemma explore_norec q s : forall n p s', norec s = true -> explore q s n p = XOk (Some s') -> norec s' = true.
Proof.
  induction s as [sl|nx IH|fs IH|i nx IH|a b' nx IH|ms IH|sq cur lim stop IH1 IH2|] using sel_ind2;
    intros n p s' H E; try discriminate.
  - cbn in E. inversion E; subst. exact H.
  - cbn in E. inversion E as [E']. rewrite norec_fields_eq in H. eapply assoc_norec; eauto.
  - cbn in E. destruct n; try discriminate. destruct (seg_index p); [|discriminate].
    destruct (seg_index (seg_of_int i)); [|discriminate]. destruct (_ =? _); inversion E; subst. exact H.
  - cbn in E. destruct n; try discriminate. destruct (seg_index p); [|discriminate].
    destruct (_ || _)%bool; inversion E; subst. exact H.
  - rewrite explore_union in E. rewrite norec_union in H.
    assert (Hall : forall rs, explore_all q ms n p = XOk rs -> norec_list rs = true).
    { clear E. induction ms as [|m t IHt]; intros rs Ers; [inversion Ers; reflexivity|].
      inversion IH as [|? ? Hx Ht]; subst. cbn in H. apply andb_true_iff in H. destruct H as [H1 H2].
      cbn in Ers. destruct (explore q m n p) as [r| |] eqn:Em; try discriminate.
      destruct (explore_all q t n p) as [rs'| |] eqn:Et; try discriminate. inversion Ers; subst.
      specialize (IHt Ht H2 rs' eq_refl). destruct r as [x|]; [|exact IHt].
      cbn. rewrite (Hx n p x H1 Em). exact IHt. }
    destruct (explore_all q ms n p) as [rs| |]; try discriminate. specialize (Hall rs eq_refl).
    inversion E as [E']. destruct rs as [|x [|y t]]; cbn in E'; inversion E'; subst.
    + cbn in Hall. apply andb_true_iff in Hall. apply Hall.
    + exact Hall.
Qed.

(* along the walk no selector's explicit interests name a child twice *)
Fixpoint walk_interests_ok (q : quirks) (g : list (bytes * dm)) (f : nat) (n : dm) (s : sel) : bool :=
  match f with
  | O => true
  | S f' =>
      if is_container n then
        interests_ok q s &&
        forallb (fun k =>
                   match explore q s n (fst k) with
                   | XOk (Some s') =>
                       match snd k with
                       | DLink c => match assoc c g with Some b => walk_interests_ok q g f' b s' | None => true end
                       | v => walk_interests_ok q g f' v s'
                       end
                   | _ => true
                   end) (children q n s)
      else true
  end.

Lemma norec_quirk_free q g f : forall n s,
  norec s = true -> walk_interests_ok q g f n s = true -> walk_quirk_free q g f n s = true.
Proof.
  induction f as [|f IH]; intros n s Hn H; [reflexivity|].
  cbn [walk_interests_ok walk_quirk_free] in *. destruct (is_container n); [|reflexivity].
  apply andb_true_iff in H. destruct H as [Hi Hall]. rewrite Hi. cbn [andb].
  rewrite forallb_forall in *. intros k Hin. specialize (Hall k Hin).
  rewrite (quirk_free_norec q s n (fst k) Hn). cbn [andb].
  destruct (explore q s n (fst k)) as [[s'|]| |] eqn:E; try reflexivity.
  pose proof (explore_norec q s n (fst k) s' Hn E) as Hn'.
  destruct (snd k); try (apply IH; assumption).
  destruct (assoc c g); [apply IH; assumption|reflexivity].
Qed.

Theorem walk_denote_norec q g f root s :
  keys_graph g = true -> small_graph g = true -> keys_ok root = true -> small_dm root = true -> srcw false s ->
  norec s = true -> walk_interests_ok q g f root s = true ->
  walk_adv q g f root s = denote_sel g f root s.
Proof.
  intros. apply walk_denote_sel_q; auto. apply norec_quirk_free; assumption.
Qed.

(* the repaired model satisfies the condition on every walk *)
Lemma quirk_free_repaired s : forall n p, quirk_free repaired s n p = true.
Proof.
  induction s as [sl|nx IH|fs IH|i nx IH|a b' nx IH|ms IH|sq cur lim stop IH1 IH2|] using sel_ind2;
    intros n p; try reflexivity.
  - rewrite quirk_free_union. induction ms as [|m t IHt]; [reflexivity|]. inversion IH as [|? ? Hx Ht]; subst.
    cbn. rewrite Hx. apply IHt; assumption.
  - cbn [quirk_free]. rewrite IH2.
    assert (E : (if is_edge cur then true
                 else true && match explore repaired cur n p with XOk (Some nx) => wrap_cond repaired sq lim nx | _ => true end) = true).
    { destruct (is_edge cur); [reflexivity|]. destruct (explore repaired cur n p) as [[nx|]| |]; reflexivity. }
    rewrite E. destruct stop; [|reflexivity]. destruct (lookup_seg n p); [|reflexivity].
    destruct (cond_match l d); reflexivity.
Qed.

Lemma walk_quirk_free_repaired g f : forall n s, walk_quirk_free repaired g f n s = true.
Proof.
  induction f as [|f IH]; intros n s; [reflexivity|].
  cbn [walk_quirk_free]. destruct (is_container n); [|reflexivity].
  replace (interests_ok repaired s) with true by reflexivity. cbn [andb].
  apply forallb_forall. intros k _. rewrite quirk_free_repaired. cbn [andb].
  destruct (explore repaired s n (fst k)) as [[s'|]| |]; try reflexivity.
  destruct (snd k); try apply IH. destruct (assoc c g); [apply IH|reflexivity].
Qed.
