(* Proofs/JsonEnc.v — Marshal + encoder: the output is the text of the key-sorted value's syntax
   tree; it depends on the value only through its key-sorted form (determinism). *)
Require Import IP.Base.Bytes IP.DM.Value IP.Codec.Utf8 IP.Codec.Base64 IP.Codec.DagJson.
Require Import IP.Proofs.BytesFacts IP.Proofs.JsonTok IP.Proofs.JsonUnm.
From Coq Require Import Permutation.
Open Scope N_scope.

Section Enc.
  Variable fmt_float : N -> bytes.
  Variable cid_str : bytes -> bytes.
  Variable cid_ok : bytes -> bool.

  Notation sortv := (sort_maps bytes_ltb).
  Notation tojs := (to_js fmt_float cid_str).
  Notation enc := (jenc fmt_float cid_str dagjson_eopts cid_ok).

  (* what makes dag-json's Marshal succeed *)
  Fixpoint encodable (v : dm) : bool :=
    match v with
    | DInt z => in_int64 z
    | DFloat f => f64_finite f
    | DLink c => cid_ok c
    | DList l => forallb encodable l
    | DMap m => forallb (fun kv => encodable (snd kv)) m
    | _ => true
    end.

  Definition text (v : dm) : bytes := jtext (tojs v).

  Definition vmap (g : dm -> dm) (kv : bytes * dm) : bytes * dm := (fst kv, g (snd kv)).

  Lemma insert_map {A B} (g : A -> B) ltb (kv : bytes * A) (l : list (bytes * A)) :
    insert_kv ltb (fst kv, g (snd kv)) (map (fun e => (fst e, g (snd e))) l)
    = map (fun e => (fst e, g (snd e))) (insert_kv ltb kv l).
  Proof.
    induction l as [|x r IH]; [reflexivity|]. cbn [map insert_kv fst].
    destruct (ltb (fst x) (fst kv)); cbn [map]; [now rewrite IH|reflexivity].
  Qed.

  Lemma sort_map {A B} (g : A -> B) ltb (l : list (bytes * A)) :
    sort_kv ltb (map (fun e => (fst e, g (snd e))) l) = map (fun e => (fst e, g (snd e))) (sort_kv ltb l).
  Proof.
    induction l as [|x r IH]; [reflexivity|]. cbn [map sort_kv]. rewrite IH. apply (insert_map g ltb x).
  Qed.

  Definition Spec (v : dm) : Prop :=
    match enc v with
    | Ok bs => encodable v = true /\ bs = text (sortv v)
    | Err _ => encodable v = false
    end.

  Lemma enc_list_go l : Forall Spec l ->
    match (fix go (l : list dm) : res jeerr (list bytes) :=
             match l with
             | [] => Ok []
             | x :: r => do a <- enc x; do b <- go r; Ok (a :: b)
             end) l with
    | Ok items => forallb encodable l = true /\ items = map (fun x => text (sortv x)) l
    | Err _ => forallb encodable l = false
    end.
  Proof.
    induction 1 as [|x r Hx Hr IH]; [split; reflexivity|].
    unfold Spec in Hx. cbn [forallb map]. destruct (enc x) as [a|e]; cbn [bind].
    - destruct Hx as [Ex ->]. rewrite Ex. cbn [andb].
      match goal with |- match (do b <- ?g; _) with _ => _ end => destruct g as [b|e] end; cbn [bind].
      + destruct IH as [Er ->]. split; [assumption|reflexivity].
      + assumption.
    - rewrite Hx. reflexivity.
  Qed.

  Lemma enc_map_go m : Forall (fun kv => Spec (snd kv)) m ->
    match (fix go (m : list (bytes * dm)) : res jeerr (list (bytes * bytes)) :=
             match m with
             | [] => Ok []
             | (k, x) :: r => do a <- enc x; do b <- go r; Ok ((k, a) :: b)
             end) m with
    | Ok ents => forallb (fun kv => encodable (snd kv)) m = true /\
                 ents = map (fun kv => (fst kv, text (sortv (snd kv)))) m
    | Err _ => forallb (fun kv => encodable (snd kv)) m = false
    end.
  Proof.
    induction 1 as [|[k x] r Hx Hr IH]; [split; reflexivity|].
    unfold Spec in Hx. cbn [snd] in Hx. cbn [forallb map fst snd]. destruct (enc x) as [a|e]; cbn [bind].
    - destruct Hx as [Ex ->]. rewrite Ex. cbn [andb].
      match goal with |- match (do b <- ?g; _) with _ => _ end => destruct g as [b|e] end; cbn [bind].
      + destruct IH as [Er ->]. split; [assumption|reflexivity].
      + assumption.
    - rewrite Hx. reflexivity.
  Qed.

  Theorem enc_spec v : Spec v.
  Proof.
    induction v as [|b|z|x|s|bs|c|l IH|m IH] using dm_ind2; unfold Spec.
    - split; reflexivity.
    - destruct b; split; reflexivity.
    - cbn [jenc enc_scalar encodable]. destruct (in_int64 z); [split; reflexivity|reflexivity].
    - cbn [jenc enc_scalar encodable]. destruct (f64_finite x); [split; reflexivity|reflexivity].
    - split; reflexivity.
    - split; [reflexivity|]. unfold text, bytes_form. do 3 (unfold entry_text; cbn [sort_maps to_js jtext map join_comma fst snd]).
      cbn [app]. repeat (rewrite <- app_assoc; cbn [app]). reflexivity.
    - cbn [jenc enc_scalar encodable je_links dagjson_eopts]. destruct (cid_ok c); [split; [reflexivity|]|reflexivity].
      unfold text, link_form. do 3 (unfold entry_text; cbn [sort_maps to_js jtext map join_comma fst snd]).
      cbn [app]. repeat (rewrite <- app_assoc; cbn [app]). reflexivity.
    - cbn [jenc encodable]. pose proof (enc_list_go l IH) as H.
      match type of H with match ?g with _ => _ end => destruct g as [items|e] end; cbn [bind].
      + destruct H as [E ->]. split; [assumption|]. unfold text. cbn [sort_maps to_js jtext].
        now rewrite !map_map.
      + assumption.
    - cbn [jenc encodable]. pose proof (enc_map_go m IH) as H.
      match type of H with match ?g with _ => _ end => destruct g as [ents|e] end; cbn [bind].
      + destruct H as [E ->]. split; [assumption|]. unfold text. cbn [sort_maps to_js jtext je_sort dagjson_eopts jsort_entries].
        do 2 f_equal.
        rewrite (sort_map (fun x => jtext (tojs (sortv x))) bytes_ltb m).
        rewrite (sort_map sortv bytes_ltb m).
        rewrite !map_map. reflexivity.
      + assumption.
  Qed.

  Corollary enc_ok v : encodable v = true -> enc v = Ok (text (sortv v)).
  Proof. intros E. pose proof (enc_spec v) as H. unfold Spec in H. destruct (enc v); [destruct H; now subst|congruence]. Qed.

  Corollary enc_ok_inv v bs : enc v = Ok bs -> encodable v = true /\ bs = text (sortv v).
  Proof. intros E. pose proof (enc_spec v) as H. unfold Spec in H. now rewrite E in H. Qed.
End Enc.
