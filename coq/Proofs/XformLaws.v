(* Proofs/XformLaws.v — the property-level consequences of [ft_corr]: FocusedTransform = SPEC,
   what the callback sees, identity, sequences, and the quirk analysis (partial + refuted). *)
Require Import IP.Base.Bytes IP.DM.Value IP.Xform.Transform IP.Proofs.XformBase IP.Proofs.XformFocus.
From Coq Require Import Lia.
Open Scope Z_scope.

Section Laws.
  Variable ltb : bytes -> bytes -> bool.
  Variable mklink : dm -> cid.
  Variable f : option dm -> option dm.
  Variable cp : bool.
  Variable fault : bool.
  Hypothesis f_wf : forall x v, owf x -> f x = Some v -> wf_dm v = true.

  Notation FT := (ft ltb mklink q_fixed f cp fault).
  Notation XU := (xupd ltb mklink f cp).
  Notation FOCUS := (focused_transform ltb mklink q_fixed f cp fault).

  Lemma focus_unfold fuel st root p :
    FOCUS fuel st root p =
    do sw <- FT fuel (Some root) (ARoot (kind_of root)) p (st, []);
    match fst sw with Put v => Ok (v, snd sw) | Skip => Err EPanic end.
  Proof. destruct root; reflexivity. Qed.

  Lemma ft_na_irrel fuel n na na' s p2 w : FT fuel n na (s :: p2) w = FT fuel n na' (s :: p2) w.
  Proof. destruct fuel; reflexivity. Qed.

  (* ---- the full statement for the repaired model: a completed transform returns the SPEC's tree *)
  Theorem focus_ok fuel st root p t res st' log :
    raw t = root -> valid st t -> wfx t ->
    FOCUS fuel st root p = Ok (res, (st', log)) ->
    match xupdate ltb mklink f cp st t p with
    | XNeedLoad => True
    | XOk (Some t') seen =>
        res = raw t' /\ extends st st' /\
        (forall S, extends st' S -> coherent mklink S -> valid S t') /\ wfx t' /\
        (exists k, (1 <= k)%nat /\ log = repeat seen k) /\
        (p = [] -> root_accepts root res = true)
    | _ => False
    end.
  Proof.
    intros Hr Hv Hw. rewrite focus_unfold. unfold xupdate. subst root.
    destruct p as [|s p2].
    - (* the root is the target *)
      destruct fuel; [discriminate|]. cbn [ft xupd option_map bind].
      destruct (f (Some (raw t))) as [v|] eqn:Ef; cbn [assign_node option_map]; [|discriminate].
      unfold root_accepts.
      destruct (kind_eqb (kind_of v) (kind_of (raw t))) eqn:Ek; [|discriminate].
      assert (Hfin : forall w0 : world, w0 = (st, [Some (raw t)]) -> (@Ok xerr (dm * world) (v, w0)) = Ok (res, (st', log)) ->
                     (root_accepts (raw t) v = true) ->
                     res = raw (inject v) /\ extends st st' /\
                     (forall S, extends st' S -> coherent mklink S -> valid S (inject v)) /\
                     wfx (inject v) /\ (exists k, (1 <= k)%nat /\ log = repeat (Some (raw t)) k) /\
                     (@nil bytes = [] -> root_accepts (raw t) res = true)).
      { intros w0 -> E Hacc. inversion E; subst. rewrite raw_inject. repeat split; auto.
        - apply extends_refl.
        - intros; apply valid_inject.
        - apply wfx_inject. eapply f_wf; [|eassumption]. simpl. now apply wfx_raw_wf.
        - exists 1%nat. split; [lia | reflexivity]. }
      unfold root_accepts in Hfin. rewrite Ek in Hfin. cbn [andb] in Hfin.
      destruct v; cbn; try (intro E; apply (Hfin _ eq_refl E eq_refl)).
      destruct (z <? two63z) eqn:Ez; cbn; [|discriminate].
      intro E; apply (Hfin _ eq_refl E). reflexivity.
    - rewrite (ft_na_irrel fuel _ _ AVal).
      assert (Hna : na_ok AVal (s :: p2)) by (simpl; discriminate).
      pose proof (ft_corr ltb mklink f cp fault f_wf fuel (Some t) AVal (s :: p2) (st, []) Hna (conj Hv Hw)) as Hc.
      cbn [option_map w_store fst] in Hc.
      pose proof (xupd_cons_some ltb mklink f cp st t s p2) as Hnn.
      destruct (XU st (Some t) (s :: p2)) as [[t'|] seen| e |]; auto.
      + destruct (FT fuel (Some (raw t)) AVal (s :: p2) (st, [])) as [[s0 w1]|e0]; cbn [corr bind] in *.
        * destruct Hc as (H1 & H2 & H3 & H4 & k & Hk & H5). subst s0. cbn [slot_of fst snd].
          intro E; inversion E; subst. cbn [w_store w_log fst snd] in *.
          repeat split; auto; try (exists k; split; auto); try discriminate.
        * discriminate.
      + intros _. now apply (Hnn seen).
      + destruct (FT fuel (Some (raw t)) AVal (s :: p2) (st, [])) as [[s0 w1]|e0]; cbn [corr bind] in *;
          [contradiction | discriminate].
  Qed.

  (* ---- and the errors are the SPEC's errors *)
  Theorem focus_err fuel st root p t e :
    raw t = root -> valid st t -> wfx t ->
    FOCUS fuel st root p = Err e -> e <> EFuel -> e <> EStore ->
    match xupdate ltb mklink f cp st t p with
    | XNeedLoad => True
    | XErr e' => e = e'
    | XOk (Some t') _ => p = [] /\ root_accepts root (raw t') = false /\ (e = EWrongKind \/ e = EOther)
    | XOk None _ => p = [] /\ e = EPanic
    end.
  Proof.
    intros Hr Hv Hw. rewrite focus_unfold. unfold xupdate. subst root.
    destruct p as [|s p2].
    - destruct fuel; [cbn; intros E Hne _; inversion E; congruence|]. cbn [ft xupd option_map bind].
      destruct (f (Some (raw t))) as [v|] eqn:Ef; cbn [assign_node option_map].
      + unfold root_accepts. rewrite raw_inject.
        destruct (kind_eqb (kind_of v) (kind_of (raw t))) eqn:Ek.
        * destruct v; cbn; try discriminate.
          destruct (z <? two63z); cbn; [discriminate|]. intros E _ _; inversion E; auto.
        * cbn. intros E _ _; inversion E; auto.
      + cbn. intros E _ _; inversion E; auto.
    - rewrite (ft_na_irrel fuel _ _ AVal).
      assert (Hna : na_ok AVal (s :: p2)) by (simpl; discriminate).
      pose proof (ft_corr ltb mklink f cp fault f_wf fuel (Some t) AVal (s :: p2) (st, []) Hna (conj Hv Hw)) as Hc.
      cbn [option_map w_store fst] in Hc.
      pose proof (xupd_cons_some ltb mklink f cp st t s p2) as Hnn.
      destruct (XU st (Some t) (s :: p2)) as [[t'|] seen| e' |]; auto;
        destruct (FT fuel (Some (raw t)) AVal (s :: p2) (st, [])) as [[s0 w1]|e0]; cbn [corr bind] in *.
      + destruct Hc as (H1 & _). subst s0. cbn. discriminate.
      + intros E Hne Hns; inversion E; subst. destruct Hc; contradiction.
      + exfalso. now apply (Hnn seen).
      + exfalso. now apply (Hnn seen).
      + contradiction.
      + intros E Hne Hns; inversion E; subst. destruct Hc as [[Hc|Hc]|Hc]; [contradiction | contradiction | assumption].
  Qed.
End Laws.

(* ---------------------------------------------------------------- facts about the SPEC alone *)
Section SpecFacts.
  Variable ltb : bytes -> bytes -> bool.
  Variable mklink : dm -> cid.
  Variable f : option dm -> option dm.
  Variable cp : bool.
  Notation XU := (xupd ltb mklink f cp).

  Lemma xfocus_none p : xfocus None p = None.
  Proof. destruct p; reflexivity. Qed.

  (* what the SPEC says the callback sees is the node the path addresses *)
  Lemma xupd_seen st : forall p cur ot seen,
    XU st cur p = XOk ot seen -> seen = option_map raw (xfocus cur p).
  Proof.
    induction p as [|a p IH]; intros cur ot seen.
    - cbn. intro E; inversion E; reflexivity.
    - destruct cur as [t|]; cbn [xupd xfocus].
      + destruct (strip t) as [u k]; cbn [fst]. destruct u as [v|l|m|c' t'].
        * destruct v; try discriminate. destruct (lookup c st); discriminate.
        * destruct (list_seg a) as [z| |]; try discriminate.
          -- destruct ((0 <=? z) && (z <? Z.of_nat (length l))) eqn:Ec; [|discriminate].
             apply andb_true_iff in Ec as [E0 _]. rewrite E0.
             destruct (XU st (nth_error l (Z.to_nat z)) p) eqn:EX; try discriminate.
             intro E; inversion E; subst. eapply IH; eassumption.
          -- destruct (negb (is_empty p) && negb cp); [discriminate|].
             destruct (XU st None p) eqn:EX; try discriminate.
             intro E; inversion E; subst. apply IH in EX. now rewrite xfocus_none in EX.
        * destruct (find_kv a m) as [c|].
          -- destruct (XU st (Some c) p) as [[c'|] seen'| |] eqn:EX; try discriminate;
               intro E; inversion E; subst; eapply IH; eassumption.
          -- destruct (negb (is_empty p) && negb cp); [discriminate|].
             destruct (XU st None p) eqn:EX; try discriminate.
             intro E; inversion E; subst. eapply IH; eassumption.
        * discriminate.
      + destruct (XU st None p) eqn:EX; try discriminate.
        intro E; inversion E; subst. apply IH in EX. now rewrite xfocus_none in EX.
  Qed.

  (* the store is consulted only to tell a dangling link from one that needs expanding *)
  Lemma xupd_store_irrel st st2 : forall p cur ot seen,
    XU st cur p = XOk ot seen -> XU st2 cur p = XOk ot seen.
  Proof.
    induction p as [|a p IH]; intros cur ot seen; [exact (fun E => E)|].
    destruct cur as [t|]; cbn [xupd].
    - destruct (strip t) as [u k]. destruct u as [v|l|m|c' t'].
      + destruct v; try discriminate. destruct (lookup c st); discriminate.
      + destruct (list_seg a) as [z| |]; try discriminate.
        * destruct ((0 <=? z) && (z <? Z.of_nat (length l))); [|discriminate].
          destruct (XU st (nth_error l (Z.to_nat z)) p) eqn:EX; try discriminate.
          apply IH in EX. now rewrite EX.
        * destruct (negb (is_empty p) && negb cp); [discriminate|].
          destruct (XU st None p) eqn:EX; try discriminate. apply IH in EX. now rewrite EX.
      + destruct (find_kv a m) as [c|].
        * destruct (XU st (Some c) p) eqn:EX; try discriminate. apply IH in EX. now rewrite EX.
        * destruct (negb (is_empty p) && negb cp); [discriminate|].
          destruct (XU st None p) eqn:EX; try discriminate. apply IH in EX. now rewrite EX.
      + discriminate.
    - destruct (XU st None p) eqn:EX; try discriminate. apply IH in EX. now rewrite EX.
  Qed.
End SpecFacts.

(* ---------------------------------------------------------------- the model never loses a block *)
Section Monotone.
  Variable ltb : bytes -> bytes -> bool.
  Variable mklink : dm -> cid.
  Variable q : quirks.
  Variable f : option dm -> option dm.
  Variable cp : bool.
  Variable fault : bool.
  Notation FTq := (ft ltb mklink q f cp fault).

  Definition rec_mono (rec : option dm -> asm -> path -> world -> res xerr (slot * world)) : Prop :=
    forall n na p w s w', rec n na p w = Ok (s, w') -> extends (w_store w) (w_store w').

  Lemma map_loop_mono rec seg e n2 p2 : rec_mono rec -> forall m w m' b w',
    map_loop rec seg e n2 p2 m w = Ok (m', b, w') -> extends (w_store w) (w_store w').
  Proof.
    intros Hr. induction m as [|[k v] r IH]; intros w m' b w'; simpl.
    - intro E; inversion E; subst. apply extends_refl.
    - destruct (bytes_eqb k seg).
      + destruct n2.
        * destruct (map_loop rec seg e (Some d) p2 r w) as [[[r' b'] w1]|e0] eqn:EL; [|discriminate].
          cbn. intro E; inversion E; subst. eapply IH; eassumption.
        * destruct e.
          -- destruct (map_loop rec seg true None p2 r w) as [[[r' b'] w1]|e0] eqn:EL; [|discriminate].
             cbn. intro E; inversion E; subst. eapply IH; eassumption.
          -- destruct (rec (Some v) AVal p2 w) as [[s w1]|e0] eqn:ER; [|discriminate]. cbn.
             destruct (map_loop rec seg false None p2 r w1) as [[[r' b'] w2]|e0] eqn:EL; [|discriminate].
             cbn. intro E; inversion E; subst.
             eapply extends_trans; [eapply Hr; eassumption | eapply IH; eassumption].
      + destruct (map_loop rec seg e n2 p2 r w) as [[[r' b'] w1]|e0] eqn:EL; [|discriminate].
        cbn. intro E; inversion E; subst. eapply IH; eassumption.
  Qed.

  Lemma list_loop_mono rec ti p2 : rec_mono rec -> forall l i w l' b w',
    list_loop rec ti p2 i l w = Ok (l', b, w') -> extends (w_store w) (w_store w').
  Proof.
    intros Hr. induction l as [|v r IH]; intros i w l' b w'; simpl.
    - intro E; inversion E; subst. apply extends_refl.
    - destruct (ti =? i).
      + destruct (rec (Some v) AElem p2 w) as [[s w1]|e0] eqn:ER; [|discriminate]. cbn.
        destruct (list_loop rec ti p2 (i + 1) r w1) as [[[r' b'] w2]|e0] eqn:EL; [|discriminate].
        cbn. intro E; inversion E; subst.
        eapply extends_trans; [eapply Hr; eassumption | eapply IH; eassumption].
      + destruct (list_loop rec ti p2 (i + 1) r w) as [[[r' b'] w1]|e0] eqn:EL; [|discriminate].
        cbn. intro E; inversion E; subst. eapply IH; eassumption.
  Qed.

  Lemma assign_node_store na n2 w s w' : assign_node q na n2 w = Ok (s, w') -> w' = w.
  Proof.
    unfold assign_node. destruct n2 as [v|].
    - destruct na; try (intro E; inversion E; reflexivity).
      destruct (kind_eqb (kind_of v) k); [|discriminate].
      destruct v; try (intro E; inversion E; reflexivity).
      destruct (z <? two63z); [|discriminate]. intro E; inversion E; reflexivity.
    - destruct na; try discriminate; intro E; inversion E; reflexivity.
  Qed.

  Lemma ft_mono : forall fuel, rec_mono (FTq fuel).
  Proof.
    induction fuel as [|fu IH]; intros n na p w s w'; [discriminate|].
    destruct p as [|seg p2]; cbn [ft].
    - intro E. apply assign_node_store in E. subst. apply extends_refl.
    - destruct n as [v|].
      + destruct v; try discriminate.
        * (* link *)
          destruct (lookup c (w_store w)); [|discriminate].
          destruct (FTq fu (Some d) AAny (seg :: p2) w) as [[s0 w1]|e0] eqn:ER; [|discriminate]. cbn.
          destruct s0; [|discriminate].
          destruct (q_any_nil q && has_nil v); [discriminate|].
          destruct (fault || has_refused v); [discriminate|].
          unfold store_block. intro E; inversion E; subst. cbn.
          eapply extends_trans; [eapply IH; eassumption | apply put_extends].
        * (* list *)
          destruct (list_seg seg) as [z| |]; try discriminate.
          -- destruct ((z <? 0) && negb (q_neg_index_append q)); [discriminate|].
             destruct (list_loop (FTq fu) z p2 0 l w) as [[[l' b] w1]|e0] eqn:EL; [|discriminate]. cbn.
             destruct b; [intro E; inversion E; subst; eapply list_loop_mono; eassumption|].
             destruct (0 <=? z); [discriminate|].
             destruct (negb (is_empty p2) && negb cp && negb (q_append_parents q)); [discriminate|].
             destruct (FTq fu None AAppend p2 w1) as [[s0 w2]|e0] eqn:ER; [|discriminate]. cbn.
             intro E; inversion E; subst.
             eapply extends_trans; [eapply list_loop_mono; eassumption | eapply IH; eassumption].
          -- cbn [negb andb]. destruct (-1 <? 0) eqn:Em; cbn [andb].
             2:{ discriminate Em. }
             destruct (list_loop (FTq fu) (-1) p2 0 l w) as [[[l' b] w1]|e0] eqn:EL; [|discriminate]. cbn.
             destruct b; [intro E; inversion E; subst; eapply list_loop_mono; eassumption|].
             destruct (negb (is_empty p2) && negb cp && negb (q_append_parents q)); [discriminate|].
             destruct (FTq fu None AAppend p2 w1) as [[s0 w2]|e0] eqn:ER; [|discriminate]. cbn.
             intro E; inversion E; subst.
             eapply extends_trans; [eapply list_loop_mono; eassumption | eapply IH; eassumption].
        * (* map *)
          set (e_ := is_empty p2). set (n2 := if e_ then f (find_kv seg m) else None).
          set (w0 := if e_ then log_call (find_kv seg m) w else w).
          assert (Hw0 : w_store w0 = w_store w) by (unfold w0; destruct e_; reflexivity).
          destruct (map_loop (FTq fu) seg e_ n2 p2 m w0) as [[[m' b] w1]|e0] eqn:EL; [|discriminate]. cbn.
          apply (map_loop_mono _ _ _ _ _ IH) in EL. rewrite Hw0 in EL.
          destruct b; [intro E; inversion E; subst; exact EL|].
          destruct (negb e_ && negb cp); [discriminate|].
          destruct (e_ && is_none n2 && negb (q_missing_delete_nil q));
            [intro E; inversion E; subst; exact EL|].
          destruct (FTq fu None ANewKey p2 w1) as [[s0 w2]|e0] eqn:ER; [|discriminate]. cbn.
          intro E; inversion E; subst.
          eapply extends_trans; [exact EL | eapply IH; eassumption].
      + destruct (FTq fu None ANewKey p2 w) as [[s0 w1]|e0] eqn:ER; [|discriminate]. cbn.
        intro E; inversion E; subst. eapply IH; eassumption.
  Qed.

  (* st ⊆ st': every block keeps its link, for every quirk setting *)
  Theorem focus_mono fuel st root p res st' log :
    focused_transform ltb mklink q f cp fault fuel st root p = Ok (res, (st', log)) -> extends st st'.
  Proof.
    unfold focused_transform.
    assert (H : forall k, (do sw <- FTq fuel (Some root) (ARoot k) p (st, []);
                           match fst sw with Put v => Ok (v, snd sw) | Skip => Err EPanic end)
                          = Ok (res, (st', log)) -> extends st st').
    { intro k. destruct (FTq fuel (Some root) (ARoot k) p (st, [])) as [[s w1]|e0] eqn:ER; [|discriminate].
      cbn. destruct s; [|discriminate]. intro E; inversion E; subst.
      apply ft_mono in ER. exact ER. }
    destruct root; try apply H. destruct (q_null_root_panic q); [discriminate | apply H].
  Qed.
End Monotone.

(* ---------------------------------------------------------------- identity *)
Section Identity.
  Variable ltb : bytes -> bytes -> bool.
  Variable mklink : dm -> cid.
  Variable cp : bool.
  Variable fault : bool.
  Definition fid : option dm -> option dm := fun x => x.
  Notation XUid := (xupd ltb mklink fid cp).

  (* every block sits under the link of its content and is in the codec's normal form
     (true of any store that was filled through LinkSystem.Store) *)
  Definition store_wf (st : store) : Prop :=
    forall c b, lookup c st = Some b -> c = mklink b /\ canon ltb b = b.

  Lemma fid_wf : forall x v, owf x -> fid x = Some v -> wf_dm v = true.
  Proof. unfold fid. intros x v H E; subst. exact H. Qed.

  Lemma strip_props st : forall t u k, valid st t -> wfx t -> strip t = (u, k) ->
    valid st u /\ wfx u /\ (forall c t', u <> XBlock c t').
  Proof.
    induction t as [v|l _|m _|c t1 IH] using xt_ind2; intros u k Hv Hw; cbn [strip].
    1-3: intro E; inversion E; subst; repeat split; auto; discriminate.
    destruct (strip t1) as [u1 k1] eqn:Es. intro E; inversion E; subst.
    inversion Hv; subst. inversion Hw; subst. eapply IH; eauto.
  Qed.

  Lemma raw_rewrap_same st : store_wf st -> forall t u k u', valid st t -> strip t = (u, k) ->
    raw u' = raw u -> raw (rewrap ltb mklink k u') = raw t.
  Proof.
    intros Hst. induction t as [v|l _|m _|c t1 IH] using xt_ind2; intros u k u' Hv; cbn [strip].
    1-3: intro E; inversion E; subst; cbn [rewrap]; auto.
    destruct (strip t1) as [u1 k1] eqn:Es. intro E; inversion E; subst. intro Hr.
    inversion Hv as [ | | | c0 t0 Hlk Hvt ]; subst.
    cbn [rewrap]. unfold reblock. cbn [raw].
    rewrite (IH u k1 u' Hvt eq_refl Hr).
    destruct (Hst _ _ Hlk) as [Hc Hn]. rewrite Hn. now rewrite <- Hc.
  Qed.

  Lemma replace_kv_same {A} s (v : A) m : find_kv s m = Some v -> replace_kv s v m = m.
  Proof.
    induction m as [|[k x] r IH]; simpl; [easy|].
    destruct (bytes_eqb k s); [intro E; inversion E; reflexivity | intro E; now rewrite IH].
  Qed.

  Lemma splice_same_raw l : forall j x c', nth_error l j = Some x -> raw c' = raw x ->
    map raw (firstn j l ++ [c'] ++ skipn (S j) l) = map raw l.
  Proof.
    induction l as [|y r IH]; intros j x c' Hn Hr; [destruct j; discriminate|].
    destruct j; simpl in *.
    - inversion Hn; subst. now rewrite Hr.
    - f_equal. eapply IH; eassumption.
  Qed.

  (* SPEC: an identity callback at an existing target gives back the same raw tree *)
  Lemma xupd_id_raw st : store_wf st -> forall p t tx,
    valid st t -> wfx t -> xfocus (Some t) p = Some tx ->
    exists t', XUid st (Some t) p = XOk (Some t') (Some (raw tx)) /\ raw t' = raw t.
  Proof.
    intros Hst. induction p as [|a p IH]; intros t tx Hv Hw.
    - cbn. intro E; inversion E; subst. exists (inject (raw tx)). split; [reflexivity | apply raw_inject].
    - cbn [xfocus xupd]. destruct (strip t) as [u k] eqn:Es; cbn [fst].
      destruct (strip_props st t u k Hv Hw Es) as (Hvu & Hwu & _).
      destruct u as [v|l|m|c' t'].
      + discriminate.
      + destruct (list_seg a) as [z| |]; try discriminate.
        destruct (0 <=? z) eqn:E0; [|discriminate].
        destruct (nth_error l (Z.to_nat z)) as [x|] eqn:En; [|now rewrite xfocus_none].
        intro Hf.
        assert (Hlt : (z <? Z.of_nat (length l)) = true).
        { apply Z.ltb_lt. assert (Z.to_nat z < length l)%nat by (apply nth_error_Some; congruence).
          apply Z.leb_le in E0. lia. }
        rewrite Hlt. cbn [andb].
        inversion Hvu as [ | l0 Hvl | | ]; subst. inversion Hwu as [ | l0 Hwl | | ]; subst.
        assert (Hx : valid st x /\ wfx x).
        { apply nth_error_In in En. rewrite Forall_forall in Hvl, Hwl. auto. }
        destruct (IH x tx (proj1 Hx) (proj2 Hx) Hf) as [c' [EX Hr]]. rewrite EX.
        eexists. split; [reflexivity|].
        eapply raw_rewrap_same; eauto. cbn [raw opt_list]. f_equal.
        eapply splice_same_raw; eassumption.
      + destruct (find_kv a m) as [c|] eqn:Ef; [|now rewrite xfocus_none].
        intro Hf.
        inversion Hvu as [ | | m0 Hvm | ]; subst. inversion Hwu as [ | | m0 Hwu' Hwm | ]; subst.
        assert (Hc : valid st c /\ wfx c).
        { destruct (find_kv_Forall _ a m c Hvm Ef) as [k1 Hk1].
          destruct (find_kv_Forall _ a m c Hwm Ef) as [k2 Hk2]. auto. }
        destruct (IH c tx (proj1 Hc) (proj2 Hc) Hf) as [c' [EX Hr]]. rewrite EX.
        eexists. split; [reflexivity|].
        eapply raw_rewrap_same; eauto. cbn [raw]. f_equal.
        rewrite <- replace_kv_raw, Hr. apply replace_kv_same.
        now rewrite (find_kv_map raw a m), Ef.
      + discriminate.
  Qed.

  Theorem focus_identity fuel st root p t tx res st' log :
    raw t = root -> valid st t -> wfx t -> store_wf st ->
    xfocus (Some t) p = Some tx ->
    focused_transform ltb mklink q_fixed fid cp fault fuel st root p = Ok (res, (st', log)) ->
    res = root.
  Proof.
    intros Hr Hv Hw Hst Hf HF.
    destruct (xupd_id_raw st Hst p t tx Hv Hw Hf) as [t' [EX Hr']].
    pose proof (focus_ok ltb mklink fid cp fault fid_wf fuel st root p t res st' log Hr Hv Hw HF) as H.
    unfold xupdate in H. rewrite EX in H. destruct H as (H & _). congruence.
  Qed.
End Identity.

(* ---------------------------------------------------------------- sequences of transforms *)
Section Sequences.
  Variable ltb : bytes -> bytes -> bool.
  Variable mklink : dm -> cid.

  (* path, callback, createParents, storage fault *)
  Definition tstep := (path * (option dm -> option dm) * bool * bool)%type.
  Definition step_wf (s : tstep) : Prop := forall x v, owf x -> snd (fst (fst s)) x = Some v -> wf_dm v = true.

  Fixpoint mseq (fuel : nat) (steps : list tstep) (st : store) (root : dm) : res xerr (dm * store) :=
    match steps with
    | [] => Ok (root, st)
    | (p, f, cp, fault) :: r =>
        do x <- focused_transform ltb mklink q_fixed f cp fault fuel st root p;
        mseq fuel r (fst (snd x)) (fst x)
    end.

  Fixpoint xseq (steps : list tstep) (t : xt) : option xt :=
    match steps with
    | [] => Some t
    | (p, f, cp, _) :: r =>
        match xupdate ltb mklink f cp [] t p with
        | XOk (Some t') _ => xseq r t'
        | _ => None
        end
    end.

  Lemma coherent_down st S : extends st S -> coherent mklink S -> coherent mklink st.
  Proof. intros He Hc b v H. apply (Hc b v). now apply He. Qed.

  Lemma mseq_mono fuel : forall steps st root res st', mseq fuel steps st root = Ok (res, st') -> extends st st'.
  Proof.
    induction steps as [|[[[p f] cp] fault] r IH]; intros st root res st'; cbn [mseq].
    - intro E; inversion E; subst. apply extends_refl.
    - destruct (focused_transform ltb mklink q_fixed f cp fault fuel st root p) as [[r1 [st1 l1]]|e0] eqn:EF; [|discriminate].
      cbn. intro E. eapply extends_trans; [eapply focus_mono; eassumption | eapply IH; eassumption].
  Qed.

  (* a run of transforms returns the composition of the SPEC updates *)
  Theorem focus_seq fuel : forall steps st root t res st_f t_f,
    Forall step_wf steps -> raw t = root -> valid st t -> wfx t ->
    mseq fuel steps st root = Ok (res, st_f) -> coherent mklink st_f ->
    xseq steps t = Some t_f ->
    res = raw t_f /\ valid st_f t_f /\ wfx t_f /\ extends st st_f.
  Proof.
    induction steps as [|[[[p f] cp] fault] r IH]; intros st root t res st_f t_f Hs Hr Hv Hw; cbn [mseq xseq].
    - intros E _ E2; inversion E; inversion E2; subst. repeat split; auto. apply extends_refl.
    - inversion Hs as [|s0 r0 Hs1 Hs2]; subst.
      destruct (focused_transform ltb mklink q_fixed f cp fault fuel st (raw t) p) as [[r1 [st1 l1]]|e0] eqn:EF; [|discriminate].
      cbn [bind fst snd]. intros EM Hco.
      destruct (xupdate ltb mklink f cp [] t p) as [[t'|] seen| |] eqn:EX; try discriminate.
      intro EXS.
      pose proof (focus_ok ltb mklink f cp fault Hs1 fuel st (raw t) p t r1 st1 l1 eq_refl Hv Hw EF) as H.
      unfold xupdate in *. rewrite (xupd_store_irrel ltb mklink f cp [] st _ _ _ _ EX) in H.
      destruct H as (H1 & H2 & H3 & H4 & _).
      pose proof (mseq_mono fuel r st1 r1 res st_f EM) as Hm.
      assert (Hv1 : valid st1 t').
      { apply H3; [apply extends_refl | eapply coherent_down; eassumption]. }
      destruct (IH st1 r1 t' res st_f t_f Hs2 (eq_sym H1) Hv1 H4 EM Hco EXS) as (A & B & C & D).
      repeat split; auto. eapply extends_trans; eassumption.
  Qed.

  (* A run in which transforms may fail (path errors, refused stores, storage faults): a failed
     transform leaves root and store as they were, the run goes on.  Such a run is the run of the
     transforms that succeeded, so [focus_seq] applies to it. *)
  Fixpoint mseq_tol (fuel : nat) (steps : list tstep) (st : store) (root : dm) : dm * store :=
    match steps with
    | [] => (root, st)
    | (p, f, cp, fault) :: r =>
        match focused_transform ltb mklink q_fixed f cp fault fuel st root p with
        | Ok x => mseq_tol fuel r (fst (snd x)) (fst x)
        | Err _ => mseq_tol fuel r st root
        end
    end.
  Fixpoint survivors (fuel : nat) (steps : list tstep) (st : store) (root : dm) : list tstep :=
    match steps with
    | [] => []
    | (p, f, cp, fault) :: r =>
        match focused_transform ltb mklink q_fixed f cp fault fuel st root p with
        | Ok x => (p, f, cp, fault) :: survivors fuel r (fst (snd x)) (fst x)
        | Err _ => survivors fuel r st root
        end
    end.

  Theorem mseq_tol_survivors fuel : forall steps st root,
    mseq fuel (survivors fuel steps st root) st root = Ok (mseq_tol fuel steps st root).
  Proof.
    induction steps as [|[[[p f] cp] fault] r IH]; intros st root; cbn [survivors mseq_tol]; [reflexivity|].
    destruct (focused_transform ltb mklink q_fixed f cp fault fuel st root p) as [x|e] eqn:EF.
    - cbn [mseq]. rewrite EF. cbn [bind]. apply IH.
    - apply IH.
  Qed.
End Sequences.

(* ---------------------------------------------------------------- when the quirks do not matter *)
Section Quirks.
  Variable ltb : bytes -> bytes -> bool.
  Variable mklink : dm -> cid.
  Variable q : quirks.
  Variable f : option dm -> option dm.
  Variable cp : bool.
  Variable fault : bool.
  Hypothesis f_some : forall x, f x <> None.     (* the callback never asks for a removal *)

  Notation FTq := (ft ltb mklink q f cp fault).
  Notation FT0 := (ft ltb mklink q_fixed f cp fault).

  (* no negative index on the path; "-" only as the last segment unless parents may be created *)
  Definition seg_ok (s : bytes) : bool := match parse_int s with Some z => 0 <=? z | None => true end.
  Fixpoint dash_last (p : path) : bool :=
    match p with
    | [] => true
    | s :: p2 => (negb (bytes_eqb s dash) || is_empty p2) && dash_last p2
    end.
  Definition path_ok (p : path) : Prop := forallb seg_ok p = true /\ (cp = true \/ dash_last p = true).

  Lemma path_ok_tail s p : path_ok (s :: p) -> path_ok p.
  Proof.
    intros [H1 H2]. simpl in H1. apply andb_true_iff in H1 as [_ H1]. split; [exact H1|].
    destruct H2 as [H2|H2]; [now left | right]. simpl in H2. now apply andb_true_iff in H2 as [_ H2].
  Qed.

  Definition agree {A} (a b : res xerr A) : Prop := a = Err EPanic \/ a = b.

  Lemma agree_bind {A B} (a b : res xerr A) (k1 k2 : A -> res xerr B) :
    agree a b -> (forall x, agree (k1 x) (k2 x)) -> agree (bind a k1) (bind b k2).
  Proof.
    intros [->| ->] Hk; [now left|]. destruct b as [x|e]; simpl; [apply Hk | now right].
  Qed.
  Lemma agree_refl {A} (a : res xerr A) : agree a a.
  Proof. now right. Qed.

  Section LoopAgree.
    Variables rec1 rec2 : option dm -> asm -> path -> world -> res xerr (slot * world).
    Variable p2 : path.
    Hypothesis Hrec : forall n na w, agree (rec1 n na p2 w) (rec2 n na p2 w).

    Lemma map_loop_agree seg e n2 : forall m w,
      agree (map_loop rec1 seg e n2 p2 m w) (map_loop rec2 seg e n2 p2 m w).
    Proof.
      induction m as [|[k v] r IH]; intro w; simpl; [apply agree_refl|].
      destruct (bytes_eqb k seg).
      - destruct n2.
        + apply agree_bind; [apply IH | intro; apply agree_refl].
        + destruct e.
          * apply agree_bind; [apply IH | intro; apply agree_refl].
          * apply agree_bind; [apply Hrec|]. intros [s w1].
            apply agree_bind; [apply IH | intro; apply agree_refl].
      - apply agree_bind; [apply IH | intro; apply agree_refl].
    Qed.

    Lemma list_loop_agree ti : forall l i w,
      agree (list_loop rec1 ti p2 i l w) (list_loop rec2 ti p2 i l w).
    Proof.
      induction l as [|v r IH]; intros i w; simpl; [apply agree_refl|].
      destruct (ti =? i).
      - apply agree_bind; [apply Hrec|]. intros [s w1].
        apply agree_bind; [apply IH | intro; apply agree_refl].
      - apply agree_bind; [apply IH | intro; apply agree_refl].
    Qed.
  End LoopAgree.

  Lemma list_seg_idx s z : list_seg s = LIdx z -> parse_int s = Some z.
  Proof. unfold list_seg. destruct (parse_int s); [intro E; inversion E; reflexivity|]. destruct (bytes_eqb s dash); discriminate. Qed.
  Lemma list_seg_append s : list_seg s = LAppend -> bytes_eqb s dash = true.
  Proof. unfold list_seg. destruct (parse_int s); [discriminate|]. destruct (bytes_eqb s dash); [reflexivity | discriminate]. Qed.

  Lemma assign_some na v w : assign_node q na (Some v) w = assign_node q_fixed na (Some v) w.
  Proof. reflexivity. Qed.

  Lemma ft_agree : forall fuel n na p w, path_ok p -> agree (FTq fuel n na p w) (FT0 fuel n na p w).
  Proof.
    induction fuel as [|fu IH]; intros n na p w Hp; [apply agree_refl|].
    destruct p as [|seg p2]; cbn [ft].
    - destruct (f n) as [v|] eqn:Ef; [right; apply assign_some | exfalso; now apply (f_some n)].
    - pose proof (path_ok_tail _ _ Hp) as Hp2.
      destruct n as [v|].
      + destruct v; try apply agree_refl.
        * (* link *)
          destruct (lookup c (w_store w)); [|apply agree_refl].
          apply agree_bind; [now apply IH|]. intros [s w1]. destruct s; [|apply agree_refl].
          cbn [q_any_nil q_fixed q_list_delete_nil q_append_nil q_missing_delete_nil orb andb].
          destruct (q_any_nil q && has_nil v); [now left | apply agree_refl].
        * (* list *)
          destruct (list_seg seg) as [z| |] eqn:Els; [| |apply agree_refl].
          -- apply list_seg_idx in Els. destruct Hp as [Hp _]. simpl in Hp.
             apply andb_true_iff in Hp as [Hs _]. unfold seg_ok in Hs. rewrite Els in Hs.
             assert (Ez : (z <? 0) = false) by (apply Z.ltb_ge; now apply Z.leb_le).
             rewrite Ez. cbn [andb].
             apply agree_bind; [apply list_loop_agree; intros; now apply IH|].
             intros [[l' b] w1]. destruct b; [apply agree_refl|]. rewrite Hs. apply agree_refl.
          -- cbn [negb andb]. simpl (-1 <? 0). cbn [andb].
             apply agree_bind; [apply list_loop_agree; intros; now apply IH|].
             intros [[l' b] w1]. destruct b; [apply agree_refl|]. simpl (0 <=? -1). cbn iota.
             assert (Hpar : negb (is_empty p2) && negb cp = false).
             { destruct Hp as [_ [->|Hd]]; [apply andb_false_r|]. simpl in Hd.
               apply andb_true_iff in Hd as [Hd _]. rewrite (list_seg_append _ Els) in Hd.
               simpl in Hd. now rewrite Hd. }
             rewrite Hpar. cbn [andb].
             apply agree_bind; [now apply IH | intro; apply agree_refl].
        * (* map *)
          set (e_ := is_empty p2). set (n2 := if e_ then f (find_kv seg m) else None).
          apply agree_bind; [apply map_loop_agree; intros; now apply IH|].
          intros [[m' b] w1]. destruct b; [apply agree_refl|].
          destruct (negb e_ && negb cp); [apply agree_refl|].
          assert (Hn : e_ && is_none n2 = false).
          { unfold n2. destruct e_; [|reflexivity]. simpl.
            destruct (f (find_kv seg m)) eqn:Ef; [reflexivity | exfalso; now apply (f_some _ Ef)]. }
          rewrite Hn. cbn [andb].
          apply agree_bind; [now apply IH | intro; apply agree_refl].
      + apply agree_bind; [now apply IH | intro; apply agree_refl].
  Qed.

  (* On this domain every run of the model that does not panic is a run of the repaired model *)
  Theorem focus_quirks_irrelevant fuel st root p r :
    path_ok p ->
    focused_transform ltb mklink q f cp fault fuel st root p = Ok r ->
    focused_transform ltb mklink q_fixed f cp fault fuel st root p = Ok r.
  Proof.
    intros Hp. rewrite (focus_unfold ltb mklink f cp fault).
    assert (H : forall k, (do sw <- FTq fuel (Some root) (ARoot k) p (st, []);
                           match fst sw with Put v => Ok (v, snd sw) | Skip => Err EPanic end) = Ok r ->
                          (do sw <- FT0 fuel (Some root) (ARoot k) p (st, []);
                           match fst sw with Put v => Ok (v, snd sw) | Skip => Err EPanic end) = Ok r).
    { intro k. destruct (ft_agree fuel (Some root) (ARoot k) p (st, []) Hp) as [E|E]; rewrite E; [discriminate | auto]. }
    unfold focused_transform. destruct root; try apply H.
    destruct (q_null_root_panic q); [discriminate | apply H].
  Qed.
End Quirks.

(* ---------------------------------------------------------------- what the callback is shown *)
Section Sees.
  Variable ltb : bytes -> bytes -> bool.
  Variable mklink : dm -> cid.
  Variable f : option dm -> option dm.
  Variable cp : bool.
  Variable fault : bool.
  Hypothesis f_wf : forall x v, owf x -> f x = Some v -> wf_dm v = true.

  (* every call of the callback during a completed transform is shown the node the path addresses in
     the tree as it is now (None: nothing there), and there is at least one call *)
  Theorem focus_callback_sees fuel st root p t res st' log :
    raw t = root -> valid st t -> wfx t ->
    focused_transform ltb mklink q_fixed f cp fault fuel st root p = Ok (res, (st', log)) ->
    xupdate ltb mklink f cp st t p <> XNeedLoad ->
    log <> [] /\ Forall (fun x => x = option_map raw (xfocus (Some t) p)) log.
  Proof.
    intros Hr Hv Hw HF Hnl.
    pose proof (focus_ok ltb mklink f cp fault f_wf fuel st root p t res st' log Hr Hv Hw HF) as H.
    unfold xupdate in *.
    destruct (xupd ltb mklink f cp st (Some t) p) as [[t'|] seen| |] eqn:EX; try contradiction.
    destruct H as (_ & _ & _ & _ & (k & Hk & Hl) & _). subst log.
    apply xupd_seen in EX. subst seen. split.
    - destruct k; [lia | discriminate].
    - apply Forall_forall. intros x Hx. now apply repeat_spec in Hx.
  Qed.
End Sees.
