(* Proofs/XformLoad.v — a transform that has to go through a link whose block the storage does not hold (or
   refuses to load: the harness's read faults) fails with the load error at that point, whatever the callback,
   the options and the defects switched on; nothing is stored and the callback is not run (the result is Err). *)
Require Import IP.Base.Bytes IP.DM.Value IP.Xform.Transform.

Lemma ft_link_missing ltb mklink q f cp fault fu c na seg p2 w :
  lookup c (w_store w) = None ->
  ft ltb mklink q f cp fault (S fu) (Some (DLink c)) na (seg :: p2) w = Err ELoad.
Proof. intros H. cbn [ft]. rewrite H. reflexivity. Qed.

Lemma focused_transform_root_link_missing ltb mklink q f cp fault fu st c seg p :
  lookup c st = None ->
  focused_transform ltb mklink q f cp fault (S fu) st (DLink c) (seg :: p) = Err ELoad.
Proof.
  intros H. unfold focused_transform.
  rewrite (ft_link_missing ltb mklink q f cp fault fu c _ seg p (st, [])) by exact H.
  reflexivity.
Qed.

(* on a storage that holds nothing every link is missing *)
Lemma ft_link_empty_store ltb mklink q f cp fault fu c na seg p2 log :
  ft ltb mklink q f cp fault (S fu) (Some (DLink c)) na (seg :: p2) ([], log) = Err ELoad.
Proof. apply ft_link_missing. reflexivity. Qed.
