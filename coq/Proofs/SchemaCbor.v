(* Proofs/SchemaCbor.v — the typed layer over the concrete DAG-CBOR codec: the abstract codec of
   Proofs/SchemaPerm.v (bytes_full) instantiated with the encoder closed form [encb] and the decoder
   [decode] of Codec/Cbor.v, using C02's round trip and order independence.  Proofs only. *)
Require Import IP.Base.Bytes IP.DM.Value IP.Codec.Cid IP.Codec.Cbor.
Require Import IP.Schema.Types IP.Schema.View IP.Schema.Conform IP.Schema.Sem IP.Schema.Perm.
Require Import IP.Proofs.BytesFacts IP.Proofs.CborEnc IP.Proofs.CborDec.
Require Import IP.Proofs.SchemaBase IP.Proofs.SchemaBuild IP.Proofs.SchemaRepr IP.Proofs.SchemaRound
  IP.Proofs.SchemaTop IP.Proofs.SchemaPerm IP.Proofs.SchemaRefute.
From Coq Require Import Permutation Lia ZifyBool ZifyN.

(* the two "same up to map entry order" relations (codec side, schema side) are one relation *)
Lemma F2_transfer {A B} (P Q : A -> B -> Prop) l l' :
  Forall (fun a => forall b, P a b -> Q a b) l -> Forall2 P l l' -> Forall2 Q l l'.
Proof. intros HF H. induction H as [|x y l1 l2 Hxy _ IHF]; [constructor|]. inversion HF; subst. constructor; auto. Qed.

Lemma F2_transfer_kv {K A B} (P Q : A -> B -> Prop) (l : list (K * A)) (l' : list (K * B)) :
  Forall (fun a => forall b, P (snd a) b -> Q (snd a) b) l ->
  Forall2 (fun a b => fst a = fst b /\ P (snd a) (snd b)) l l' ->
  Forall2 (fun a b => fst a = fst b /\ Q (snd a) (snd b)) l l'.
Proof.
  intros HF H. induction H as [|x y l1 l2 Hxy _ IHF]; [constructor|]. inversion HF; subst.
  constructor; [|auto]. destruct Hxy as [Hk Hx]. split; [exact Hk|auto].
Qed.

Lemma perm_eq_peq a b : perm_eq a b -> peq a b.
Proof.
  revert b. induction a as [| x | z | f | s | s | c | l IH | es IH] using dm_ind2; intros b H;
    inversion H; subst; try apply peq_refl.
  - apply peq_list. eapply F2_transfer; eassumption.
  - match goal with HP : Permutation ?m2 _ |- _ => apply (peq_map es m2); [|exact HP] end.
    eapply F2_transfer_kv; eassumption.
Qed.

Lemma peq_perm_eq a b : peq a b -> perm_eq a b.
Proof.
  revert b. induction a as [| x | z | f | s | s | c | l IH | es IH] using dm_ind2; intros b H;
    inversion H; subst; try apply pe_refl.
  - apply pe_list. eapply F2_transfer; eassumption.
  - match goal with HP : Permutation ?m2 _ |- _ => apply (pe_map es m2); [|exact HP] end.
    eapply F2_transfer_kv; eassumption.
Qed.

(* what the decoder returns for the encoder's output is the value up to map entry order *)
Lemma peq_sortv m v : peq v (sortv m v).
Proof.
  induction v as [| x | z | f | s | s | c | l IH | es IH] using dm_ind2; cbn [sortv]; try apply peq_refl.
  - apply peq_list. induction IH as [|x r Hx _ IHr]; cbn [map]; constructor; auto.
  - apply (peq_map es (map (fun kv => (fst kv, sortv m (snd kv))) es)); [|apply sort_entries_perm].
    induction IH as [|x r Hx _ IHr]; cbn [map]; constructor; auto.
Qed.

(* the schema side's boolean "no repeated key anywhere" is the codec side's [keys_nodup] *)
Lemma dm_wf_keys_nodup v : dm_wf v = true -> keys_nodup v.
Proof.
  induction v as [| x | z | f | s | s | c | l IH | es IH] using dm_ind2; intros H; try exact I.
  - apply keys_nodup_list. rewrite dm_wf_list in H. rewrite forallb_forall in H.
    rewrite Forall_forall in *. intros x Hx. apply IH; auto.
  - apply keys_nodup_map. rewrite dm_wf_map in H. apply andb_prop in H. destruct H as [H1 H2].
    split; [apply nodupb_NoDup; exact H1|]. rewrite forallb_forall in H2.
    rewrite Forall_forall in *. intros x Hx. apply IH; auto.
Qed.

(* a boolean form of the round-trip side condition, so that concrete trees are checked by computation *)
Fixpoint rt_okb (v : dm) : bool :=
  match v with
  | DInt z => ((- two63z <=? z)%Z && (z <? two64z)%Z)%bool
  | DFloat f => ((f <? two64)%N && f64_finite f)%bool
  | DString s | DBytes s => (lenN s <=? str_cap)%N
  | DLink c => (cid_valid c && (lenN c + 1 <=? str_cap)%N)%bool
  | DList l => ((lenN l <? two63)%N &&
               (fix all (l : list dm) : bool := match l with [] => true | x :: r => rt_okb x && all r end) l)%bool
  | DMap es => ((lenN es <? two63)%N && nodupb (map fst es) &&
               (fix all (es : list (bytes * dm)) : bool :=
                  match es with [] => true | kv :: r => (lenN (fst kv) <=? str_cap)%N && rt_okb (snd kv) && all r end) es)%bool
  | _ => true
  end.

Lemma rt_okb_list l : rt_okb (DList l) = ((lenN l <? two63)%N && forallb rt_okb l)%bool.
Proof. reflexivity. Qed.
Lemma rt_okb_map es : rt_okb (DMap es) =
  ((lenN es <? two63)%N && nodupb (map fst es) &&
   forallb (fun kv => (lenN (fst kv) <=? str_cap)%N && rt_okb (snd kv))%bool es)%bool.
Proof. reflexivity. Qed.

Lemma rt_okb_sound v : rt_okb v = true -> rt_ok v.
Proof.
  induction v as [| x | z | f | s | s | c | l IH | es IH] using dm_ind2; intros H; try exact I.
  - cbn [rt_okb] in H. apply andb_prop in H. destruct H as [H1 H2]. cbn [rt_ok]. lia.
  - cbn [rt_okb] in H. apply andb_prop in H. destruct H as [H1 H2]. cbn [rt_ok]. split; [lia|exact H2].
  - cbn [rt_okb] in H. cbn [rt_ok]. lia.
  - cbn [rt_okb] in H. cbn [rt_ok]. lia.
  - cbn [rt_okb] in H. apply andb_prop in H. destruct H as [H1 H2]. cbn [rt_ok]. split; [exact H1|lia].
  - apply rt_ok_list. rewrite rt_okb_list in H. apply andb_prop in H. destruct H as [H1 H2].
    split; [lia|]. rewrite forallb_forall in H2. rewrite Forall_forall in *. intros x Hx. apply IH; auto.
  - apply rt_ok_map. rewrite rt_okb_map in H. apply andb_prop in H. destruct H as [H1 H3].
    apply andb_prop in H1. destruct H1 as [H1 H2].
    split; [lia|]. split; [apply nodupb_NoDup; exact H2|].
    rewrite forallb_forall in H3. rewrite Forall_forall in *. intros x Hx.
    specialize (H3 x Hx). apply andb_prop in H3. destruct H3 as [H3 H4]. split; [lia|apply IH; auto].
Qed.

Definition cbor_bytes (d : dm) : bytes := encb SortRFC7049 d.
Definition within_limits (o : dopts) (d : dm) : Prop :=
  rt_ok d /\ (Z.of_nat (dm_depth d) <= max_depth o)%Z /\ (cost d <= budget0 o)%Z.

(* C08 over dag-cbor: encode the representation of a typed value with the registered encoder, decode the
   bytes with the registered decoder, feed the representation builder: the result is the value up to the
   entry order of typed maps and Any content, it is a value of the type, and its representation encodes
   to the same bytes.  The one premise about sizes is that the representation is within the decoder's
   configured limits (ints in range, strings to 32 MiB, depth and allocation budget). *)
Theorem typed_dagcbor_roundtrip e o t v :
  (e = Bind \/ e = Gen) -> wf t = true -> has_type t v = true ->
  d_allow_links o = true -> within_limits o (repr_spec t v) ->
  exists d' v', decode o (cbor_bytes (repr_spec t v)) = Ok (d', []) /\
                rbuild e qoff t d' = BOk v' /\ veq v v' /\ has_type t v' = true /\
                repr e qoff t v' = Some (repr_spec t v') /\
                cbor_bytes (repr_spec t v') = cbor_bytes (repr_spec t v).
Proof.
  intros He Hwf Hh Hl [Hok [Hd Hc]].
  assert (Hs : strict e qoff) by (destruct He; subst; [apply strict_bind_qoff|apply strict_gen_qoff]).
  assert (Hv : views_off e qoff) by (destruct He; subst; [apply views_off_bind|apply views_off_gen]).
  assert (Hu : on e qoff q_union_any = false) by (destruct He; subst; reflexivity).
  pose proof (repr_is_value (fuel_of t) t v Hh Hwf) as Hdw. fold (repr_spec t v) in Hdw.
  pose proof (decode_encode SortRFC7049 o (repr_spec t v) Hl Hok Hd Hc) as Hdec.
  pose proof (peq_sortv SortRFC7049 (repr_spec t v)) as Hp.
  pose proof (repr_round (fuel_of t) t v Hh Hwf) as Hcf.
  destruct (conf_peq LRepr (fuel_of t) t _ (sortv SortRFC7049 (repr_spec t v)) v Hp Hcf) as [v' [Hc' Hveq]].
  exists (sortv SortRFC7049 (repr_spec t v)), v'. repeat split; auto.
  - apply (accept_iff e qoff LRepr t _ v' Hs Hwf). exact Hc'.
  - apply (has_veq (fuel_of t) t v v' Hveq Hh).
  - apply (views_top e qoff t v' Hv Hu Hwf). apply (has_veq (fuel_of t) t v v' Hveq Hh).
  - unfold cbor_bytes. symmetry. apply encb_perm_invariant; [discriminate| |apply dm_wf_keys_nodup; exact Hdw].
    apply peq_perm_eq. apply (repr_veq (fuel_of t)). exact Hveq.
Qed.

(* the abstract-codec hypotheses of bytes_full hold of dag-cbor on every tree within the limits *)
Theorem dagcbor_dec_enc o d : d_allow_links o = true -> within_limits o d ->
  exists d', decode o (cbor_bytes d) = Ok (d', []) /\ peq d d'.
Proof.
  intros Hl [Hok [Hd Hc]]. exists (sortv SortRFC7049 d). split; [apply decode_encode; auto|apply peq_sortv].
Qed.

Theorem dagcbor_enc_peq d d' : dm_wf d = true -> peq d d' -> cbor_bytes d = cbor_bytes d'.
Proof.
  intros Hw Hp. apply encb_perm_invariant; [discriminate|apply peq_perm_eq; exact Hp|apply dm_wf_keys_nodup; exact Hw].
Qed.

Example within_big : rt_ok (repr_spec tBig vBig).
Proof. apply rt_okb_sound. vm_compute. reflexivity. Qed.
