(* Proofs/SchemaPerm.v — conformance and representation are invariant under reordering of map entries:
   if two trees are the same up to map-entry order ([peq]) and one conforms, so does the other, and
   the typed values are the same up to typed-map order ([veq]); representations of [veq] values are
   [peq].  With SchemaRound / SchemaBuild this closes the bytes round trip of C08 over any codec that
   canonicalises map order. *)
Require Import IP.Base.Bytes IP.DM.Value IP.Schema.Types IP.Schema.View IP.Schema.Conform IP.Schema.Sem
  IP.Schema.Perm IP.Proofs.SchemaBase IP.Proofs.SchemaBuild IP.Proofs.SchemaRepr IP.Proofs.SchemaRound
  IP.Proofs.SchemaTop.
From Coq Require Import Lia Permutation.
Open Scope N_scope.

(* ================================================================== generic facts *)

Lemma meq_refl m : meq veq m m.
Proof. destruct m; constructor. apply veq_refl. Qed.

Lemma F2_refl {A} (R : A -> A -> Prop) l : (forall x, R x x) -> Forall2 R l l.
Proof. intros H. induction l; constructor; auto. Qed.

Lemma peq_kind d d' : peq d d' -> kind_of d = kind_of d'.
Proof. intros H; inversion H; reflexivity. Qed.

Lemma F2_keys {A B} (R : A -> B -> Prop) (m : list (bytes * A)) (m1 : list (bytes * B)) :
  Forall2 (fun a b => fst a = fst b /\ R (snd a) (snd b)) m m1 -> map fst m = map fst m1.
Proof. induction 1 as [|a b l l' [H1 _] _ IH]; cbn; auto. now rewrite H1, IH. Qed.

Lemma nodupb_perm l l' : Permutation l l' -> nodupb l = nodupb l'.
Proof.
  intros H. destruct (nodupb l) eqn:E1; destruct (nodupb l') eqn:E2; auto.
  - apply nodupb_NoDup in E1. apply (Permutation_NoDup H) in E1. apply nodupb_NoDup in E1. congruence.
  - apply nodupb_NoDup in E2. apply (Permutation_NoDup (Permutation_sym H)) in E2. apply nodupb_NoDup in E2. congruence.
Qed.

Lemma forallb_perm {A} (p : A -> bool) l l' : Permutation l l' -> forallb p l = forallb p l'.
Proof.
  induction 1; cbn; auto.
  - now rewrite IHPermutation.
  - destruct (p x), (p y); auto.
  - congruence.
Qed.

Lemma forallb_fst {A} (p : bytes -> bool) (m : list (bytes * A)) :
  forallb (fun kv => p (fst kv)) m = forallb p (map fst m).
Proof. induction m; cbn; auto. now rewrite IHm. Qed.

Lemma mapM_F2 {A B} (R : A -> A -> Prop) (S : B -> B -> Prop) (f : A -> option B) l l' :
  (forall x y r, R x y -> f x = Some r -> exists r', f y = Some r' /\ S r r') ->
  Forall2 R l l' -> forall rs, mapM f l = Some rs -> exists rs', mapM f l' = Some rs' /\ Forall2 S rs rs'.
Proof.
  intros Hf. induction 1 as [|x y l l' Hxy _ IH]; intros rs; cbn.
  - intros E; inversion E. exists []. split; auto.
  - destruct (f x) as [r|] eqn:Ex; [|discriminate]. destruct (mapM f l) as [rr|] eqn:El; [|discriminate].
    intros E; inversion E; subst. destruct (Hf x y r Hxy Ex) as [r' [Hr' Hs]].
    destruct (IH rr eq_refl) as [rr' [Hrr' Hss]]. rewrite Hr', Hrr'. eexists. split; eauto.
Qed.

Lemma mapM_perm {A B} (f : A -> option B) l l' :
  Permutation l l' -> forall rs, mapM f l = Some rs -> exists rs', mapM f l' = Some rs' /\ Permutation rs rs'.
Proof.
  induction 1 as [|x l l' _ IH|x y l|l1 l2 l3 _ IH1 _ IH2]; intros rs; cbn.
  - intros E; inversion E. exists []. auto.
  - destruct (f x) as [r|]; [|discriminate]. destruct (mapM f l) as [rr|]; [|discriminate].
    intros E; inversion E; subst. destruct (IH rr eq_refl) as [rr' [H1 H2]]. rewrite H1. eexists; split; eauto.
  - destruct (f y) as [ry|]; [|discriminate]. destruct (f x) as [rx|]; [|discriminate].
    destruct (mapM f l) as [rr|]; [|discriminate]. intros E; inversion E; subst.
    eexists; split; eauto. apply perm_swap.
  - intros E. destruct (IH1 rs E) as [r2 [H1 P1]]. destruct (IH2 r2 H1) as [r3 [H2 P2]].
    exists r3. split; auto. eapply perm_trans; eauto.
Qed.

(* peq on a scalar is equality *)
Lemma peq_scalar d d' : peq d d' ->
  match d with DList _ | DMap _ => True | _ => d' = d end.
Proof. intros H; inversion H; subst; auto; destruct d'; auto. Qed.

Lemma peq_dm_wf d : forall d', peq d d' -> dm_wf d = true -> dm_wf d' = true.
Proof.
  induction d using dm_ind2; intros d' Hp Hw; inversion Hp; subst; auto.
  - (* list *)
    match goal with HF : Forall2 peq l _ |- _ => rename HF into HF0 end.
    cbn [dm_wf] in *. revert Hw. clear Hp. induction HF0 as [|x y r r' Hxy _ IHr]; auto.
    inversion H as [|? ? Hx Hr]; subst. rewrite !andb_true_iff. intros [H1 H2]. split; auto.
  - (* map *)
    match goal with HF : Forall2 _ m ?mm, HP : Permutation ?mm _ |- _ => rename HF into HF0; rename HP into HP0; rename mm into m1 end.
    cbn [dm_wf] in *. apply andb_true_iff in Hw as [Hnd Hall]. apply andb_true_iff. split.
    + rewrite <- (nodupb_perm _ _ (Permutation_map fst HP0)), <- (F2_keys _ _ _ HF0). exact Hnd.
    + (* every value of m' is a value of m1, hence well-formed *)
      assert (G1 : forallb (fun kv : bytes * dm => dm_wf (snd kv)) m1 = true).
      { clear HP0 Hp Hnd. revert Hall. induction HF0 as [|a b r r' [_ Hab] _ IHr]; auto.
        inversion H as [|? ? Ha Hr]; subst. rewrite !andb_true_iff. intros [H1 H2].
        cbn [forallb]. rewrite andb_true_iff. split; auto. }
      rewrite (forallb_perm _ _ _ HP0) in G1.
      exact G1.
Qed.

(* ================================================================== (A) conformance respects peq *)
Definition conf_respects (rc : ty -> dm -> option tv) : Prop :=
  forall c d d' v, peq d d' -> rc c d = Some v -> exists v', rc c d' = Some v' /\ veq v v'.

Section ConfPerm.
  Variables (lvl : level) (rc : ty -> dm -> option tv).
  Hypothesis Hrec : conf_respects rc.

  Lemma conf_maybe_peq nul c d d' m : peq d d' -> conf_maybe rc nul c d = Some m ->
    exists m', conf_maybe rc nul c d' = Some m' /\ meq veq m m'.
  Proof.
    intros Hp. pose proof (peq_kind _ _ Hp) as Hk. unfold conf_maybe.
    destruct d; try (destruct d'; try discriminate;
      match goal with |- context [rc c ?x] => destruct (rc c x) as [v|] eqn:E; [|discriminate] end;
      intros H; inversion H; subst; destruct (Hrec _ _ _ _ Hp E) as [v' [E' Hv]]; rewrite E';
      eexists; split; [reflexivity|constructor; exact Hv]).
    destruct d'; try discriminate. destruct nul; [|discriminate]. intros H; inversion H; subst.
    eexists; split; [reflexivity|constructor].
  Qed.

  (* entries related key by key, values by peq *)
  Definition erel (a b : bytes * dm) : Prop := fst a = fst b /\ peq (snd a) (snd b).

  Lemma erel_in m m1 k d : Forall2 erel m m1 -> In (k, d) m -> exists d1, In (k, d1) m1 /\ peq d d1.
  Proof.
    induction 1 as [|a b l l' [H1 H2] _ IH]; [contradiction|]. intros [E|Hin].
    - subst a. destruct b as [kb db]. cbn in *. subst kb. exists db. split; auto.
    - destruct (IH Hin) as [d1 [Hd1 Hp]]. exists d1. split; auto. now right.
  Qed.

  Lemma assoc_rel m m1 m' k : NoDup (map fst m) -> Forall2 erel m m1 -> Permutation m1 m' ->
    match assoc k m with
    | Some d => exists d', assoc k m' = Some d' /\ peq d d'
    | None => assoc k m' = None
    end.
  Proof.
    intros Hnd HF HP.
    assert (Hkeys : Permutation (map fst m) (map fst m')).
    { rewrite (F2_keys _ _ _ HF). now apply Permutation_map. }
    destruct (assoc k m) as [d|] eqn:E.
    - apply assoc_In in E. destruct (erel_in _ _ _ _ HF E) as [d1 [Hin Hp]].
      exists d1. split; auto. apply assoc_nodup_In.
      + eapply Permutation_NoDup; eauto.
      + eapply Permutation_in; eauto.
    - apply assoc_None. apply assoc_None in E. intros Hin. apply E.
      eapply Permutation_in; [apply Permutation_sym; exact Hkeys|exact Hin].
  Qed.

  Lemma conf_fields_peq key fs m m1 m' v :
    Forall2 erel m m1 -> Permutation m1 m' -> conf_fields rc key fs m = Some v ->
    exists v', conf_fields rc key fs m' = Some v' /\ veq v v'.
  Proof.
    intros HF HP. unfold conf_fields.
    assert (Hkeys : Permutation (map fst m) (map fst m')).
    { rewrite (F2_keys _ _ _ HF). now apply Permutation_map. }
    rewrite <- (nodupb_perm _ _ Hkeys).
    rewrite (forallb_fst (fun k => existsb (fun f => bytes_eqb (key (fst f)) k) fs) m).
    rewrite (forallb_fst (fun k => existsb (fun f => bytes_eqb (key (fst f)) k) fs) m').
    rewrite <- (forallb_perm _ _ _ Hkeys).
    destruct (nodupb (map fst m)) eqn:End; [|discriminate]. apply nodupb_NoDup in End.
    destruct (forallb _ (map fst m)); [|discriminate]. cbn [andb].
    destruct (mapM _ fs) as [vs|] eqn:Em; [|discriminate]. intros H; inversion H; subst.
    assert (G : exists vs', mapM (fun f => match assoc (key (fst f)) m' with
                                           | None => if f_opt (fst f) then Some MAbsent else None
                                           | Some d => conf_maybe rc (f_nul (fst f)) (snd f) d end) fs = Some vs' /\
                            Forall2 (meq veq) vs vs').
    { clear H. revert vs Em. induction fs as [|f l IH]; intros vs Em; cbn in Em |- *.
      - inversion Em. exists []. auto.
      - pose proof (assoc_rel m m1 m' (key (fst f)) End HF HP) as Ha.
        destruct (assoc (key (fst f)) m) as [d|].
        + destruct Ha as [d' [Ha Hp]]. rewrite Ha.
          destruct (conf_maybe rc (f_nul (fst f)) (snd f) d) as [x|] eqn:Ex; [|discriminate].
          destruct (mapM _ l) as [xs|] eqn:El; [|discriminate]. inversion Em; subst.
          destruct (conf_maybe_peq _ _ _ _ _ Hp Ex) as [x' [Ex' Hx]]. rewrite Ex'.
          destruct (IH xs eq_refl) as [xs' [El' Hxs]]. rewrite El'. eexists; split; eauto.
        + rewrite Ha. destruct (f_opt (fst f)); [|discriminate].
          destruct (mapM _ l) as [xs|] eqn:El; [|discriminate]. inversion Em; subst.
          destruct (IH xs eq_refl) as [xs' [El' Hxs]]. rewrite El'. eexists; split; eauto. constructor; auto. constructor. }
    destruct G as [vs' [G1 G2]]. rewrite G1. eexists; split; eauto. now apply veq_struct.
  Qed.

  Lemma conf_tuple_peq fs : forall l l' vs, Forall2 peq l l' -> conf_tuple rc fs l = Some vs ->
    exists vs', conf_tuple rc fs l' = Some vs' /\ Forall2 (meq veq) vs vs'.
  Proof.
    induction fs as [|f fs IH]; intros l l' vs HF; inversion HF as [|x y r r' Hxy Hr]; subst; cbn.
    - intros E; inversion E. exists []. auto.
    - discriminate.
    - intros E. exists vs. split; auto. apply F2_refl. apply meq_refl.
    - destruct (conf_maybe rc (f_nul (fst f)) (snd f) x) as [v|] eqn:Ev; [|discriminate].
      destruct (conf_tuple rc fs r) as [vr|] eqn:Er; [|discriminate]. intros E; inversion E; subst.
      destruct (conf_maybe_peq _ _ _ _ _ Hxy Ev) as [v' [Ev' Hv]]. rewrite Ev'.
      destruct (IH r r' vr Hr Er) as [vr' [Er' Hvr]]. rewrite Er'. eexists; split; eauto.
  Qed.

  Lemma pair_of_peq x y kd : peq x y -> pair_of x = Some kd ->
    exists kd', pair_of y = Some kd' /\ erel kd kd'.
  Proof.
    unfold pair_of. intros Hp. destruct x; try discriminate. destruct l as [|a l]; try discriminate.
    destruct a; try discriminate. destruct l as [|b l]; try discriminate. destruct l; try discriminate.
    intros E; inversion E; subst. inversion Hp; subst.
    - exists (s, b). split; auto. split; auto. apply peq_refl.
    - match goal with HF : Forall2 peq _ _ |- _ => inversion HF as [|? y0 ? r0 Hq0 Hr0]; subst end.
      inversion Hr0 as [|? y1 ? r1 Hq1 Hr1]; subst. inversion Hr1; subst.
      pose proof (peq_scalar _ _ Hq0) as Hs. cbn in Hs. subst y0.
      exists (s, y1). split; auto. split; auto.
  Qed.

  Lemma conf_member_peq ms p x x' v : peq x x' -> conf_member rc ms p x = Some v ->
    exists v', conf_member rc ms p x' = Some v' /\ veq v v'.
  Proof.
    intros Hp. unfold conf_member. destruct (find_idx _ ms) as [[i m]|]; [|discriminate].
    destruct (rc (snd m) x) as [w|] eqn:E; [|discriminate]. intros H; inversion H; subst.
    destruct (Hrec _ _ _ _ Hp E) as [w' [E' Hw]]. rewrite E'. eexists; split; eauto. now apply veq_union.
  Qed.

  Lemma conf_step_peq : conf_respects (conf_step lvl rc).
  Proof.
    intros t d d' v Hp. unfold conf_step. rewrite <- (peq_kind _ _ Hp).
    destruct (kind_eqb (kind_of d) KNull); [discriminate|].
    destruct t.
    1-6: (pose proof (peq_scalar _ _ Hp) as Hs; destruct d; cbn; try discriminate;
          try (destruct w; discriminate); cbn in Hs; subst d'; intros E; eexists; split; [exact E|apply veq_refl]).
    - (* any *)
      cbn [conf_scalar]. rewrite <- (peq_kind _ _ Hp).
      destruct (negb (kind_eqb (kind_of d) KNull)) eqn:En; [|discriminate]. cbn [andb].
      destruct (dm_wf d) eqn:Ew; [|discriminate]. intros E; inversion E; subst.
      rewrite (peq_dm_wf _ _ Hp Ew). eexists; split; [reflexivity|]. now apply veq_any.
    - (* list *)
      destruct d; try discriminate. inversion Hp; subst.
      { intros E. eexists; split; [exact E|apply veq_refl]. }
      destruct (mapM (conf_maybe rc nul t) l) as [vs|] eqn:Em; [|discriminate]. intros E; inversion E; subst.
      match goal with HF : Forall2 peq l _ |- _ =>
        destruct (mapM_F2 peq (meq veq) (conf_maybe rc nul t) _ _ (fun x y r => conf_maybe_peq nul t x y r) HF vs Em)
          as [vs' [Em' Hvs]] end.
      rewrite Em'. eexists; split; [reflexivity|]. now apply veq_list.
    - (* typed map *)
      destruct d; try discriminate. inversion Hp; subst.
      { intros E. eexists; split; [exact E|apply veq_refl]. }
      match goal with HF : Forall2 _ m ?mm, HP : Permutation ?mm _ |- _ => rename HF into HF0; rename HP into HP0; rename mm into m1 end.
      assert (Hkeys : Permutation (map fst m) (map fst m')).
      { rewrite (F2_keys _ _ _ HF0). now apply Permutation_map. }
      rewrite <- (nodupb_perm _ _ Hkeys). destruct (nodupb (map fst m)); [|discriminate].
      set (G := fun kv : bytes * dm => match conf_maybe rc nul t (snd kv) with
                                       | Some v0 => Some (fst kv, v0) | None => None end).
      destruct (mapM G m) as [vs|] eqn:Em; [|discriminate]. intros E; inversion E; subst.
      assert (HG : forall x y r, erel x y -> G x = Some r ->
                   exists r', G y = Some r' /\ (fst r = fst r' /\ meq veq (snd r) (snd r'))).
      { intros x y r [Hk Hpe]. unfold G. destruct (conf_maybe rc nul t (snd x)) as [w|] eqn:Ew; [|discriminate].
        intros Er; inversion Er; subst. destruct (conf_maybe_peq _ _ _ _ _ Hpe Ew) as [w' [Ew' Hw]].
        rewrite Ew'. eexists; split; [reflexivity|]. cbn. auto. }
      destruct (mapM_F2 erel _ G m m1 HG HF0 vs Em) as [vs1 [Em1 Hvs1]].
      destruct (mapM_perm G m1 m' HP0 vs1 Em1) as [vs' [Em' Hperm]].
      rewrite Em'. eexists; split; [reflexivity|]. eapply veq_map; eauto.
    - (* struct *)
      assert (GF : forall key m, peq (DMap m) d' -> conf_fields rc key fs m = Some v ->
                   exists m', d' = DMap m' /\ exists v', conf_fields rc key fs m' = Some v' /\ veq v v').
      { intros key m Hp' Hc. inversion Hp'; subst.
        - exists m. split; auto. exists v. split; auto. apply veq_refl.
        - eexists. split; [reflexivity|]. eapply conf_fields_peq; eauto. }
      destruct lvl; destruct r; destruct d; try discriminate.
      1-5: (intros E; destruct (GF _ _ Hp E) as [m' [-> [v' [E' Hv]]]]; eexists; split; eauto).
      + (* tuple *)
        inversion Hp; subst. { intros E. eexists; split; [exact E|apply veq_refl]. }
        destruct (conf_tuple rc fs l) as [vs|] eqn:Et; [|discriminate]. intros E; inversion E; subst.
        match goal with HF : Forall2 peq l _ |- _ => destruct (conf_tuple_peq fs _ _ vs HF Et) as [vs' [Et' Hvs]] end.
        rewrite Et'. eexists; split; [reflexivity|]. now apply veq_struct.
      + (* stringjoin *)
        pose proof (peq_scalar _ _ Hp) as Hs. cbn in Hs. subst d'. intros E. eexists; split; [exact E|apply veq_refl].
      + (* listpairs *)
        inversion Hp; subst. { intros E. eexists; split; [exact E|apply veq_refl]. }
        destruct (mapM pair_of l) as [m|] eqn:Em; [|discriminate]. intros E.
        match goal with HF : Forall2 peq l _ |- _ =>
          destruct (mapM_F2 peq erel pair_of _ _ (fun x y r => pair_of_peq x y r) HF m Em) as [m' [Em' Hm]] end.
        rewrite Em'. eapply conf_fields_peq; eauto using Permutation_refl.
    - (* union *)
      assert (GU : forall p k x, peq (DMap [(k, x)]) d' -> conf_member rc ms p x = Some v ->
                   exists x', d' = DMap [(k, x')] /\ exists v', conf_member rc ms p x' = Some v' /\ veq v v').
      { intros p k x Hp' Hc. inversion Hp'; subst.
        - exists x. split; auto. exists v. split; auto. apply veq_refl.
        - match goal with HF : Forall2 _ [(k, x)] ?mm, HP : Permutation ?mm _ |- _ =>
            inversion HF as [|? b ? r0 [Hk Hx] Hr0]; subst; inversion Hr0; subst;
            apply Permutation_length_1_inv in HP; subst end.
          destruct b as [kb xb]. cbn in Hk, Hx. subst kb. exists xb. split; auto.
          eapply conf_member_peq; eauto. }
      destruct lvl; destruct r.
      1-4: (destruct d as [| | | | | | | |m]; try discriminate; destruct m as [|[k x] [|? ?]]; try discriminate;
            intros E; destruct (GU _ _ _ Hp E) as [x' [-> [v' [E' Hv]]]]; eexists; split; eauto).
      + (* kinded *)
        intros E. eapply conf_member_peq; eauto.
      + (* stringprefix *)
        destruct d; try discriminate. pose proof (peq_scalar _ _ Hp) as Hs. cbn in Hs. subst d'.
        intros E. eexists; split; [exact E|apply veq_refl].
    - (* enum *)
      pose proof (peq_scalar _ _ Hp) as Hs.
      destruct lvl; destruct d; try discriminate; cbn in Hs; subst d'; intros E; eexists; split; try exact E; apply veq_refl.
  Qed.
End ConfPerm.

Theorem conf_peq lvl n : conf_respects (conf_f lvl n).
Proof.
  induction n as [|n IH]; [intros c d d' v _ H; discriminate|].
  unfold conf_f in *. cbn [fuel_rec]. apply conf_step_peq. exact IH.
Qed.

(* ================================================================== (B) representation respects veq *)
Lemma peq_str_of a b : peq a b -> str_of a = str_of b.
Proof. intros H. pose proof (peq_scalar _ _ H) as Hs. destruct a; cbn in *; subst; auto; inversion H; reflexivity. Qed.

Lemma zip_F2 {F} (R : maybe tv -> maybe tv -> Prop) (fs : list F) vs vs' :
  Forall2 R vs vs' -> Forall2 (fun x y => fst x = fst y /\ R (snd x) (snd y)) (zip fs vs) (zip fs vs').
Proof.
  intros H. revert fs. induction H as [|a b l l' Hab _ IH]; intros fs; destruct fs; cbn; constructor; auto.
Qed.

Lemma meq_absent_eq R a b : meq R a b -> is_absent a = is_absent b.
Proof. intros H; inversion H; reflexivity. Qed.

Lemma present_F2 {F} (fs : list F) vs vs' :
  Forall2 (meq veq) vs vs' ->
  Forall2 (fun x y => fst x = fst y /\ meq veq (snd x) (snd y)) (present fs vs) (present fs vs').
Proof.
  intros H. unfold present. pose proof (zip_F2 (meq veq) fs vs vs' H) as HZ.
  induction HZ as [|x y l l' [H1 H2] _ IH]; cbn; [constructor|].
  rewrite (meq_absent_eq _ _ _ H2). destruct (is_absent (snd y)); cbn; auto.
Qed.

Definition repr_respects (rp : ty -> tv -> dm) : Prop := forall c v v', veq v v' -> peq (rp c v) (rp c v').

Section ReprPerm.
  Variable rp : ty -> tv -> dm.
  Hypothesis Hrec : repr_respects rp.

  Lemma repr_maybe_peq c m m' : meq veq m m' -> peq (repr_maybe rp c m) (repr_maybe rp c m').
  Proof. intros H; inversion H; subst; cbn; try apply peq_refl. now apply Hrec. Qed.

  Lemma F2_map {A B} (R : A -> A -> Prop) (S : B -> B -> Prop) (g : A -> B) l l' :
    (forall x y, R x y -> S (g x) (g y)) -> Forall2 R l l' -> Forall2 S (map g l) (map g l').
  Proof. intros Hg. induction 1; cbn; constructor; auto. Qed.

  Lemma repr_step_peq : repr_respects (repr_step rp).
  Proof.
    intros t v v' Hv. inversion Hv; subst; try apply peq_refl.
    - (* any *) destruct t; cbn; try apply peq_refl. assumption.
    - (* list *)
      destruct t; cbn; try apply peq_refl. apply peq_list.
      eapply F2_map; [|eassumption]. intros x y Hxy. now apply repr_maybe_peq.
    - (* struct *)
      destruct t; cbn; try apply peq_refl.
      match goal with HF : Forall2 (meq veq) _ _ |- _ => rename HF into HF0 end.
      pose proof (present_F2 fs _ _ HF0) as HP.
      destruct r; cbn.
      + eapply peq_map; [|apply Permutation_refl].
        eapply F2_map; [|exact HP]. intros x y [H1 H2]. cbn. rewrite H1. split; auto. now apply repr_maybe_peq.
      + apply peq_list. eapply F2_map; [|exact HP]. intros x y [H1 H2]. rewrite H1. now apply repr_maybe_peq.
      + assert (E : map (fun x => str_of (repr_maybe rp (snd (fst x)) (snd x))) (zip fs l) =
                    map (fun x => str_of (repr_maybe rp (snd (fst x)) (snd x))) (zip fs l')).
        { pose proof (zip_F2 (meq veq) fs _ _ HF0) as HZ.
          induction HZ as [|x y r r' [H1 H2] _ IH]; cbn; auto. rewrite IH. f_equal.
          rewrite H1. apply peq_str_of. now apply repr_maybe_peq. }
        rewrite E. apply peq_refl.
      + apply peq_list. eapply F2_map; [|exact HP]. intros x y [H1 H2]. rewrite H1.
        apply peq_list. constructor; [apply peq_refl|]. constructor; [|constructor]. now apply repr_maybe_peq.
    - (* union *)
      destruct t; cbn; try apply peq_refl. destruct (nth_error ms i) as [m|]; [|apply peq_refl].
      match goal with HV : veq ?a ?b |- _ => pose proof (Hrec (snd m) a b HV) as Hr end.
      destruct r.
      + eapply peq_map; [|apply Permutation_refl]. constructor; [|constructor]. cbn. auto.
      + exact Hr.
      + rewrite (peq_str_of _ _ Hr). apply peq_refl.
    - (* typed map *)
      destruct t; cbn; try apply peq_refl.
      match goal with HF : Forall2 _ m ?mm, HP : Permutation ?mm _ |- _ => rename HF into HF0; rename HP into HP0; rename mm into m1 end.
      eapply peq_map with (m1 := map (fun kv => (fst kv, repr_maybe rp t (snd kv))) m1).
      + eapply F2_map; [|exact HF0]. intros x y [H1 H2]. cbn. rewrite H1. split; auto. now apply repr_maybe_peq.
      + now apply Permutation_map.
  Qed.
End ReprPerm.

Theorem repr_veq n : repr_respects (repr_f n).
Proof.
  induction n as [|n IH]; [intros c v v' _; apply peq_refl|].
  unfold repr_f in *. cbn [fuel_rec]. apply repr_step_peq. exact IH.
Qed.

(* ================================================================== (C) the value space respects veq *)
Definition has_respects (hs : ty -> tv -> bool) : Prop := forall c v v', veq v v' -> hs c v = true -> hs c v' = true.

Section HasPerm.
  Variables (hs : ty -> tv -> bool) (rp : ty -> tv -> dm).
  Hypothesis Hh : has_respects hs.
  Hypothesis Hr : repr_respects rp.

  Lemma has_maybe_veq opt nul c m m' : meq veq m m' -> has_maybe hs opt nul c m = true -> has_maybe hs opt nul c m' = true.
  Proof. intros H; inversion H; subst; cbn; auto. now apply Hh. Qed.

  Lemma has_fields_veq fs : forall vs vs', Forall2 (meq veq) vs vs' -> has_fields hs fs vs = true -> has_fields hs fs vs' = true.
  Proof.
    induction fs as [|f fs IH]; intros vs vs' HF; inversion HF as [|a b r r' Hab Hr']; subst; cbn; auto.
    rewrite !andb_true_iff. intros [H1 H2]. split; [eapply has_maybe_veq; eauto|eapply IH; eauto].
  Qed.

  Lemma has_step_veq : has_respects (has_step hs rp).
  Proof.
    intros t v v' Hv. inversion Hv; subst; auto.
    - (* any *)
      destruct t; cbn; auto. match goal with HP : peq _ _ |- _ => rename HP into HP0 end.
      rewrite <- (peq_kind _ _ HP0). rewrite !andb_true_iff. intros [H1 H2]. split; auto.
      eapply peq_dm_wf; eauto.
    - (* list *)
      destruct t; cbn; auto. match goal with HF : Forall2 _ _ _ |- _ => rename HF into HF0 end.
      clear Hv. induction HF0 as [|a b r r' Hab _ IH]; cbn; auto.
      rewrite !andb_true_iff. intros [H1 H2]. split; [eapply has_maybe_veq; eauto|auto].
    - (* struct *)
      destruct t; cbn; auto. match goal with HF : Forall2 _ _ _ |- _ => rename HF into HF0 end.
      clear Hv. rewrite !andb_true_iff. intros [H1 H2]. split; [eapply has_fields_veq; eauto|].
      destruct r; auto.
      + assert (E : map is_absent l = map is_absent l').
        { clear -HF0. induction HF0 as [|a b r r' Hab _ IH]; cbn; auto. now rewrite IH, (meq_absent_eq _ _ _ Hab). }
        now rewrite <- E.
      + pose proof (zip_F2 (meq veq) fs _ _ HF0) as HZ. revert H2.
        induction HZ as [|x y r r' [Hk Hm] _ IH]; cbn; auto.
        rewrite !andb_true_iff. intros [G1 G2]. split; auto.
        rewrite <- Hk. rewrite <- (peq_str_of _ _ (repr_maybe_peq rp Hr (snd (fst x)) _ _ Hm)). exact G1.
    - (* union *)
      destruct t; cbn; auto. destruct (nth_error ms i); auto. now apply Hh.
    - (* typed map *)
      destruct t; cbn; auto.
      match goal with HF : Forall2 _ m ?mm, HP : Permutation ?mm _ |- _ => rename HF into HF0; rename HP into HP0; rename mm into m1 end.
      rewrite !andb_true_iff. intros [H1 H2]. split.
      + rewrite <- (nodupb_perm _ _ (Permutation_map fst HP0)), <- (F2_keys _ _ _ HF0). exact H1.
      + rewrite <- (forallb_perm _ _ _ HP0). clear HP0 H1 Hv. revert H2.
        induction HF0 as [|a b r r' [Hk Hm] _ IH]; cbn; auto.
        rewrite !andb_true_iff. intros [G1 G2]. split; auto. eapply has_maybe_veq; eauto.
  Qed.
End HasPerm.

Theorem has_veq n : has_respects (has_f n).
Proof.
  induction n as [|n IH]; [intros c v v' _ H; discriminate|].
  cbn [has_f]. apply has_step_veq; [exact IH|apply repr_veq].
Qed.

(* ================================================================== (D) the representation is a value *)
Lemma dm_wf_list l : dm_wf (DList l) = forallb dm_wf l.
Proof. reflexivity. Qed.
Lemma dm_wf_map m : dm_wf (DMap m) = nodupb (map fst m) && forallb (fun kv => dm_wf (snd kv)) m.
Proof. reflexivity. Qed.

Definition repr_wf (hs : ty -> tv -> bool) (rp : ty -> tv -> dm) : Prop :=
  forall c v, hs c v = true -> wf c = true -> dm_wf (rp c v) = true.

Section ReprWf.
  Variables (hs : ty -> tv -> bool) (rp : ty -> tv -> dm).
  Hypothesis Hrec : repr_wf hs rp.

  Lemma repr_maybe_wf opt nul c m : wf c = true -> has_maybe hs opt nul c m = true -> dm_wf (repr_maybe rp c m) = true.
  Proof. intros Hc. destruct m; cbn; auto. Qed.

  Lemma present_values_wf fs vs (g : (finfo * ty) * maybe tv -> bytes) :
    Forall (fun f => wf (snd f) = true) fs -> has_fields hs fs vs = true ->
    forallb (fun kv : bytes * dm => dm_wf (snd kv))
            (map (fun x => (g x, repr_maybe rp (snd (fst x)) (snd x))) (present fs vs)) = true.
  Proof.
    intros Hch Hf. apply forallb_forall. intros kv Hin. apply in_map_iff in Hin as [x [<- Hx]]. cbn.
    unfold present in Hx. apply filter_In in Hx as [Hx _].
    destruct (has_fields_all hs fs vs Hch Hf x Hx) as [Hm Hc]. eapply repr_maybe_wf; eauto.
  Qed.

  Lemma repr_step_wf : repr_wf (has_step hs rp) (repr_step rp).
  Proof.
    intros t v Hh Hwf.
    destruct t; destruct v; cbn [has_step] in Hh; try discriminate; try (destruct w; discriminate);
      try reflexivity.
    - (* any *) apply andb_true_iff in Hh as [_ H]. exact H.
    - (* list *)
      cbn [repr_step]. rewrite dm_wf_list. apply forallb_forall. intros x Hx.
      apply in_map_iff in Hx as [m [<- Hm]]. rewrite forallb_forall in Hh. eapply repr_maybe_wf; eauto.
    - (* map *)
      cbn [repr_step]. rewrite dm_wf_map. apply andb_true_iff in Hh as [Hnd Hv].
      rewrite map_fst_pair, Hnd. cbn. apply forallb_forall. intros kv Hkv.
      apply in_map_iff in Hkv as [x [<- Hx]]. cbn. rewrite forallb_forall in Hv. eapply repr_maybe_wf; eauto.
    - (* struct *)
      destruct (wf_children_struct _ _ Hwf) as [Hloc Hch]. apply andb_true_iff in Hh as [Hf _].
      unfold wf_struct_local in Hloc. apply andb_true_iff in Hloc as [Hnames Hloc].
      destruct r; cbn [repr_step]; try reflexivity.
      + rewrite dm_wf_map. apply andb_true_iff. split.
        * apply nodupb_NoDup. apply nodupb_NoDup in Hloc.
          apply (present_keys_nodup f_key (fun x => repr_maybe rp (snd (fst x)) (snd x))). exact Hloc.
        * apply (present_values_wf fs fs0 (fun x => f_key (fst (fst x)))); auto.
      + rewrite dm_wf_list. apply forallb_forall. intros d Hd. apply in_map_iff in Hd as [x [<- Hx]].
        unfold present in Hx. apply filter_In in Hx as [Hx _].
        destruct (has_fields_all hs fs fs0 Hch Hf x Hx) as [Hm Hc]. eapply repr_maybe_wf; eauto.
      + rewrite dm_wf_list. apply forallb_forall. intros d Hd. apply in_map_iff in Hd as [x [<- Hx]].
        unfold present in Hx. apply filter_In in Hx as [Hx _].
        destruct (has_fields_all hs fs fs0 Hch Hf x Hx) as [Hm Hc].
        rewrite dm_wf_list. cbn [forallb dm_wf]. rewrite (repr_maybe_wf _ _ _ _ Hc Hm). reflexivity.
    - (* union *)
      destruct (nth_error ms i) as [m|] eqn:En; [|discriminate].
      destruct (wf_children_union _ _ Hwf) as [_ Hch]. rewrite Forall_forall in Hch.
      pose proof (Hch m (nth_error_In _ _ En)) as Hc.
      cbn [repr_step]. rewrite En. destruct r; try reflexivity.
      + rewrite dm_wf_map. cbn. rewrite (Hrec _ _ Hh Hc). reflexivity.
      + now apply Hrec.
    - (* enum *)
      cbn [repr_step]. destruct (find _ es); [destruct int_repr|]; reflexivity.
  Qed.
End ReprWf.

Theorem repr_is_value n : repr_wf (has_f n) (repr_f n).
Proof.
  induction n as [|n IH]; [intros c v H; discriminate|].
  unfold repr_f. cbn [has_f fuel_rec]. apply repr_step_wf. exact IH.
Qed.

(* ================================================================== the bytes round trip, in full *)
Section BytesFull.
  Variable encode : dm -> option bytes.
  Variable decode : bytes -> option dm.
  (* decoding what was encoded gives the tree back up to the order of map entries, and the encoding of a
     value (no repeated keys) does not depend on that order: what a codec with a canonical map order does
     (dag-cbor: C02_roundtrip / C02_order_independent) *)
  Hypothesis dec_enc : forall d bs, dm_wf d = true -> encode d = Some bs -> exists d', decode bs = Some d' /\ peq d d'.
  Hypothesis enc_peq : forall d d', dm_wf d = true -> peq d d' -> encode d = encode d'.

  Theorem bytes_full e t v bs : (e = Bind \/ e = Gen) -> wf t = true -> has_type t v = true ->
    encode (repr_spec t v) = Some bs ->
    exists d' v', decode bs = Some d' /\ rbuild e qoff t d' = BOk v' /\ veq v v' /\ has_type t v' = true /\
                  repr e qoff t v' = Some (repr_spec t v') /\ encode (repr_spec t v') = Some bs.
  Proof.
    intros He Hwf Hh Henc.
    assert (Hs : strict e qoff) by (destruct He; subst; [apply strict_bind_qoff|apply strict_gen_qoff]).
    assert (Hv : views_off e qoff) by (destruct He; subst; [apply views_off_bind|apply views_off_gen]).
    assert (Hu : on e qoff q_union_any = false) by (destruct He; subst; reflexivity).
    pose proof (repr_is_value (fuel_of t) t v Hh Hwf) as Hdw. fold (repr_spec t v) in Hdw.
    destruct (dec_enc _ _ Hdw Henc) as [d' [Hdec Hp]].
    pose proof (repr_round (fuel_of t) t v Hh Hwf) as Hc.
    destruct (conf_peq LRepr (fuel_of t) t _ d' v Hp Hc) as [v' [Hc' Hveq]].
    exists d', v'. repeat split; auto.
    - apply (accept_iff e qoff LRepr t d' v' Hs Hwf). exact Hc'.
    - apply (has_veq (fuel_of t) t v v' Hveq Hh).
    - apply (views_top e qoff t v' Hv Hu Hwf). apply (has_veq (fuel_of t) t v v' Hveq Hh).
    - rewrite <- Henc. symmetry. apply enc_peq; auto. apply (repr_veq (fuel_of t)). exact Hveq.
  Qed.
End BytesFull.
