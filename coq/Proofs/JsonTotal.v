(* Proofs/JsonTotal.v — C10 for DAG-JSON: the decoder model (refmt tokenizer + dagjson unmarshal with
   its look-ahead window + Decode) is total and bounded, for EVERY option setting, every byte list and
   every instantiation of the external functions (strconv.ParseFloat, cid.Decode):
     * it ends in a value or an error: the out-of-fuel outcome (JDFuel) and the stale-window outcome
       (JDStale, the model's stand-in for reading a look-ahead slot that was never filled) are
       unreachable.  The model has no panic outcome: the modelled Go code has no explicit panic on a
       reachable path (`panic("unreachable")` in step / unmarshal sit behind exhaustive switches) and
       its slice/array accesses are at constant indices of the fixed 7-slot window;
     * measure: mu = (tokens held in the window) + (unread input bytes).  Every token read consumes at
       least one byte, every value consumes at least one token; unmarshal needs fuel 2*mu + 2, the
       model supplies 3*|input| + 4;
     * an accepted value nests at most MaxDepth deep (default go_json_defaultMaxDepth, regenerated from
       codec/dagjson/unmarshal.go) and has at most |input| nodes.
   The Go dag-json decoder has NO allocation budget (unlike dag-cbor): there are no length claims in
   JSON, so memory is bounded by the input length only; that is what the node bound states. *)
Require Import IP.Base.Bytes IP.DM.Value IP.Codec.Utf8 IP.Codec.Base64 IP.Codec.DagJson.
Require Import IP.Proofs.JsonAbs.
From Coq Require Import ZifyNat.
Open Scope N_scope.

(* ---------------------------------------------------------------- every token costs a byte *)

Lemma skip_ws_le bs : (length (skip_ws bs) <= length bs)%nat.
Proof. induction bs as [|c r IH]; cbn [skip_ws]; [lia|]. destruct (is_ws c); cbn [length] in *; lia. Qed.

Lemma strip_prefix_le p : forall s r, strip_prefix p s = Some r -> (length r <= length s)%nat.
Proof.
  induction p as [|x p IH]; intros s r H; cbn [strip_prefix] in H; [inversion H; lia|].
  destruct s as [|y s]; [discriminate|]. destruct (x =? y); [|discriminate]. apply IH in H. cbn [length]. lia.
Qed.

Lemma str_scan_lt bs : forall st raw rest, str_scan st bs = Some (raw, rest) -> (length rest < length bs)%nat.
Proof.
  induction bs as [|c r IH]; intros st raw rest H; [discriminate|].
  cbn [str_scan] in H. cbn [length].
  assert (K : forall st', match str_scan st' r with Some (raw0, rest0) => Some (c :: raw0, rest0) | None => None end = Some (raw, rest) ->
                          (length rest < S (length r))%nat).
  { intros st' E. destruct (str_scan st' r) as [[raw0 rest0]|] eqn:E0; [|discriminate]. inversion E; subst.
    apply IH in E0. lia. }
  destruct st.
  - destruct (c =? 34); [inversion H; subst; lia|]. destruct (c =? 92); [now apply (K SEsc)|].
    destruct (c <? 32); [discriminate|now apply (K SNormal)].
  - match type of H with (if ?b then _ else _) = _ => destruct b end; [now apply (K SNormal)|].
    destruct (c =? 117); [now apply (K (SHex 3))|discriminate].
  - destruct (is_hex c); [|discriminate]. destruct k; [now apply (K SNormal)|now apply (K (SHex k))].
Qed.

Lemma num_scan_le bs : forall st t rest, num_scan st bs = (t, rest) -> (length rest <= length bs)%nat.
Proof.
  induction bs as [|c r IH]; intros st t rest H; cbn [num_scan] in H; [inversion H; cbn; lia|].
  destruct (num_step st c) as [st'|]; [|inversion H; lia].
  destruct (num_scan st' r) as [t0 rest0] eqn:E. inversion H; subst. apply IH in E. cbn [length]. lia.
Qed.

Section Total.
  Variable parse_float : bytes -> option N.
  Variable cid_parse : bytes -> option bytes.

  Lemma num_token_err t e : num_token parse_float t = Err e -> e = JDOther.
  Proof.
    unfold num_token. destruct (parse_int t); [destruct (parse_float t); intros H; inversion H; reflexivity| |];
    intros H; inversion H; reflexivity.
  Qed.

  Lemma accept_kv_spec ts mb r :
    match accept_kv parse_float ts mb r with
    | Ok (_, _, r', _) => (length r' <= length r)%nat
    | Err e => e = JDOther
    end.
  Proof.
    unfold accept_kv.
    repeat match goal with |- context[if ?b then _ else _] => destruct b end; try reflexivity; try lia.
    - destruct (strip_prefix [117; 108; 108] r) eqn:E; [now apply strip_prefix_le in E|reflexivity].
    - unfold decode_string. destruct (str_scan SNormal r) as [[raw rest]|] eqn:E; [|reflexivity].
      apply str_scan_lt in E. lia.
    - destruct (strip_prefix [97; 108; 115; 101] r) eqn:E; [now apply strip_prefix_le in E|reflexivity].
    - destruct (strip_prefix [114; 117; 101] r) eqn:E; [now apply strip_prefix_le in E|reflexivity].
    - destruct (num_scan (num_start mb) r) as [t r'] eqn:E. apply num_scan_le in E.
      destruct (num_token parse_float (mb :: t)) eqn:T; [assumption|now apply num_token_err in T].
  Qed.

  Lemma finish_step_rest x : snd (finish_step x) = snd (fst x).
  Proof. destruct x as [[[k ts] r] d]. unfold finish_step. destruct d; [destruct (ts_stk ts) as [|a [|b c]]|]; reflexivity. Qed.

  (* one token consumes at least one byte; the tokenizer's only error class is "other" *)
  Lemma tstep_spec ts bs :
    match tstep parse_float ts bs with
    | Ok (_, _, r) => (length r < length bs)%nat
    | Err e => e = JDOther
    end.
  Proof.
    unfold tstep. pose proof (skip_ws_le bs) as W. destruct (skip_ws bs) as [|mb r]; [reflexivity|]. cbn [length] in W.
    destruct (ts_frm ts) as [ph sm].
    assert (A : forall ts0 mb0 r0, (length r0 < length bs)%nat ->
              match (match accept_kv parse_float ts0 mb0 r0 with Ok (k, ts', r', _) => Ok (k, ts', r') | Err e => Err e end)
              with Ok (_, _, r') => (length r' < length bs)%nat | Err e => e = JDOther end).
    { intros ts0 mb0 r0 L. pose proof (accept_kv_spec ts0 mb0 r0) as S.
      destruct (accept_kv parse_float ts0 mb0 r0) as [[[[k ts'] r'] d]|e]; [lia|assumption]. }
    assert (F : forall k0 ts0 r0, (length r0 < length bs)%nat ->
              match Ok (finish_step (k0, ts0, r0, true)) : res jderr _ with Ok (_, _, r') => (length r' < length bs)%nat | Err e => e = JDOther end).
    { intros k0 ts0 r0 L. pose proof (finish_step_rest (k0, ts0, r0, true)) as E. cbn [fst snd] in E.
      destruct (finish_step (k0, ts0, r0, true)) as [[k1 ts1] r1]. cbn [snd] in E. subst. exact L. }
    destruct ph.
    - (* top-level value *)
      pose proof (accept_kv_spec ts mb r) as S.
      destruct (accept_kv parse_float ts mb r) as [x|e]; [|assumption].
      pose proof (finish_step_rest x) as E. destruct x as [[[k ts'] r'] d]. cbn [fst snd] in E.
      destruct (finish_step (k, ts', r', d)) as [[k1 ts1] r1]. cbn [snd] in E. subst. lia.
    - (* array *)
      assert (I : forall mb0 r0, (length r0 < length bs)%nat ->
                match (if mb0 =? 93 then Ok (finish_step (TArrClose, ts, r0, true))
                       else match accept_kv parse_float (set_frm ts (PArr, true)) mb0 r0 with
                            | Ok (k, ts', r', _) => Ok (k, ts', r') | Err e => Err e end)
                with Ok (_, _, r') => (length r' < length bs)%nat | Err e => e = JDOther end).
      { intros mb0 r0 L. destruct (mb0 =? 93); [now apply F|now apply A]. }
      destruct sm; [|apply I; lia].
      destruct (mb =? 93); [apply F; lia|]. destruct (mb =? 44); [|reflexivity].
      pose proof (skip_ws_le r) as W2. destruct (skip_ws r) as [|mb2 r2]; [reflexivity|]. cbn [length] in W2. apply I. lia.
    - (* map key *)
      assert (I : forall mb0 r0, (length r0 < length bs)%nat ->
                match (if mb0 =? 125 then Ok (finish_step (TMapClose, ts, r0, true))
                       else match accept_kv parse_float (set_frm ts (PMapKey, true)) mb0 r0 with
                            | Err e => Err e
                            | Ok (k, ts', r', _) =>
                              match skip_ws r' with
                              | c :: r'' => if c =? 58 then Ok (k, set_frm ts' (PMapVal, false), r'') else Err JDOther
                              | [] => Err JDOther
                              end
                            end)
                with Ok (_, _, r') => (length r' < length bs)%nat | Err e => e = JDOther end).
      { intros mb0 r0 L. destruct (mb0 =? 125); [now apply F|].
        pose proof (accept_kv_spec (set_frm ts (PMapKey, true)) mb0 r0) as S.
        destruct (accept_kv parse_float (set_frm ts (PMapKey, true)) mb0 r0) as [[[[k ts'] r'] d]|e]; [|assumption].
        pose proof (skip_ws_le r') as W3. destruct (skip_ws r') as [|c r'']; [reflexivity|]. cbn [length] in W3.
        destruct (c =? 58); [lia|reflexivity]. }
      destruct sm; [|apply I; lia].
      destruct (mb =? 125); [apply F; lia|]. destruct (mb =? 44); [|reflexivity].
      pose proof (skip_ws_le r) as W2. destruct (skip_ws r) as [|mb2 r2]; [reflexivity|]. cbn [length] in W2. apply I. lia.
    - (* map value *)
      apply A. lia.
  Qed.

  (* ---------------------------------------------------------------- the window *)

  Definition mu (s : lsrc) : nat := (length (lb s) + length (lin s))%nat.
  Definition fine (e : jderr) : Prop := e <> JDFuel /\ e <> JDStale.

  Lemma fine_other : fine JDOther. Proof. split; discriminate. Qed.
  Lemma fine_depth : fine JDDepth. Proof. split; discriminate. Qed.
  Hint Resolve fine_other fine_depth : core.

  Lemma pull_spec s :
    match pull parse_float s with
    | Ok (_, s') => lb s' = lb s /\ (length (lin s') < length (lin s))%nat
    | Err e => e = JDOther
    end.
  Proof.
    unfold pull. pose proof (tstep_spec (lts s) (lin s)) as T.
    destruct (tstep parse_float (lts s) (lin s)) as [[[k ts'] r]|e]; [cbn; split; [reflexivity|assumption]|assumption].
  Qed.

  Lemma next_spec s :
    match next parse_float s with
    | Ok (_, s') => (mu s' < mu s)%nat
    | Err e => e = JDOther
    end.
  Proof.
    unfold next, mu. destruct (lb s) as [|k b] eqn:E.
    - pose proof (pull_spec s) as P. destruct (pull parse_float s) as [[t s']|e]; [|assumption].
      destruct P as [P1 P2]. rewrite P1, E. cbn [length]. lia.
    - cbn [lb lin length]. lia.
  Qed.

  Lemma next_direct_spec s :
    match next_direct parse_float s with
    | Ok (_, s') => (mu s' < mu s)%nat
    | Err e => e = JDOther
    end.
  Proof.
    unfold next_direct, mu. pose proof (pull_spec s) as P. destruct (pull parse_float s) as [[t s']|e]; [|assumption].
    destruct P as [P1 P2]. rewrite P1. lia.
  Qed.

  (* ensure(k) after ensure(k-1): never a stale slot, never more buffered + unread than before *)
  Lemma peek_spec k s : (1 <= k)%nat -> (pred k <= length (lb s))%nat ->
    match peek parse_float k s with
    | Ok (_, s') => (mu s' <= mu s)%nat /\ (k <= length (lb s'))%nat
    | Err e => e = JDOther
    end.
  Proof.
    intros Hk Hl. unfold peek. destruct (Nat.ltb_spec (length (lb s)) k) as [Lt|Ge].
    - pose proof (pull_spec s) as P. destruct (pull parse_float s) as [[t s1]|e]; cbn [bind]; [|assumption].
      destruct P as [P1 P2]. cbn [lb lts lin].
      destruct (nth_error (lb s ++ [t]) (pred k)) as [t'|] eqn:N.
      + unfold mu. cbn [lb lin]. rewrite app_length. cbn [length]. lia.
      + apply nth_error_None in N. rewrite app_length in N. cbn [length] in N. lia.
    - cbn [bind]. destruct (nth_error (lb s) (pred k)) as [t'|] eqn:N; [lia|].
      apply nth_error_None in N. lia.
  Qed.

  Lemma clear_mu s : (mu (clear s) <= mu s)%nat.
  Proof. unfold mu, clear. cbn [lb lin length]. lia. Qed.

  Ltac pk k Hprev :=
    match goal with
    | |- context[peek parse_float k ?s0] =>
      let P := fresh "P" in let t := fresh "t" in let s := fresh "s" in
      pose proof (peek_spec k s0 ltac:(lia) ltac:(cbn [pred]; lia)) as P;
      destruct (peek parse_float k s0) as [[t s]|?e]; cbn [bind]; [destruct P as [?M ?B]|subst; auto]
    end.

  Lemma link_lookahead_spec s :
    match link_lookahead parse_float cid_parse s with
    | Ok (_, s') => (mu s' <= mu s)%nat
    | Err e => fine e
    end.
  Proof.
    unfold link_lookahead.
    pk 1%nat tt. destruct t; try lia. match goal with |- context[negb ?x] => destruct (negb x) end; [lia|].
    pk 2%nat tt. destruct t; try lia.
    pk 3%nat tt. destruct t; try lia.
    match goal with |- context[cid_parse ?x] => destruct (cid_parse x) end; [|auto].
    match goal with |- context[clear ?x] => pose proof (clear_mu x) end. lia.
  Qed.

  Lemma bytes_lookahead_spec s :
    match bytes_lookahead parse_float s with
    | Ok (_, s') => (mu s' <= mu s)%nat
    | Err e => fine e
    end.
  Proof.
    unfold bytes_lookahead.
    pk 1%nat tt. destruct t; try lia. match goal with |- context[negb ?x] => destruct (negb x) end; [lia|].
    pk 2%nat tt. destruct t; try lia.
    pk 3%nat tt. destruct t; try lia. match goal with |- context[negb ?x] => destruct (negb x) end; [lia|].
    pk 4%nat tt. destruct t; try lia.
    pk 5%nat tt. destruct t; try lia.
    pk 6%nat tt. destruct t; try lia.
    match goal with |- context[b64_decode_go ?x] => destruct (b64_decode_go x) end; [|auto].
    match goal with |- context[clear ?x] => pose proof (clear_mu x) end. lia.
  Qed.

  (* ---------------------------------------------------------------- unmarshal: fuel 2*mu+2 suffices *)

  Fixpoint jnodes (v : dm) : nat :=
    match v with
    | DList l => S (fold_right (fun x a => jnodes x + a)%nat 0%nat l)
    | DMap m => S (fold_right (fun kv a => jnodes (snd kv) + a)%nat 0%nat m)
    | _ => 1%nat
    end.
  Definition lnodes (l : list dm) : nat := fold_right (fun x a => jnodes x + a)%nat 0%nat l.
  Definition mnodes (m : list (bytes * dm)) : nat := fold_right (fun kv a => jnodes (snd kv) + a)%nat 0%nat m.

  Lemma jnodes_pos v : (1 <= jnodes v)%nat.
  Proof. destruct v; cbn [jnodes]; lia. Qed.

  Definition Tu (f : nat) : Prop := forall o d t s, (2 * mu s + 2 <= f)%nat ->
    match unm parse_float cid_parse f o d t s with
    | Ok (v, s') => (jnodes v + mu s' <= mu s + 1)%nat
    | Err e => fine e
    end.
  Definition Tm (f : nat) : Prop := forall o d seen s, (2 * mu s + 1 <= f)%nat ->
    match unm_map parse_float cid_parse f o d seen s with
    | Ok (m, s') => (mnodes m + mu s' + 1 <= mu s)%nat
    | Err e => fine e
    end.
  Definition Tl (f : nat) : Prop := forall o d s, (2 * mu s + 1 <= f)%nat ->
    match unm_list parse_float cid_parse f o d s with
    | Ok (l, s') => (lnodes l + mu s' + 1 <= mu s)%nat
    | Err e => fine e
    end.

  Theorem unm_total f : Tu f /\ Tm f /\ Tl f.
  Proof.
    induction f as [|f (IHu & IHm & IHl)].
    { repeat split; intros; lia. }
    repeat split.
    - (* unm *)
      intros o d t s Hf. rewrite unm_S.
      destruct t; try (cbn [jnodes]; lia); auto.
      + (* map open *)
        destruct (jmax_depth o <=? d)%Z; [auto|].
        assert (L1 : match (if jd_links o then link_lookahead parse_float cid_parse s else Ok (None, s)) with
                     | Ok (_, s') => (mu s' <= mu s)%nat | Err e => fine e end).
        { destruct (jd_links o); [apply link_lookahead_spec|lia]. }
        destruct (if jd_links o then link_lookahead parse_float cid_parse s else Ok (None, s)) as [[r1 s1]|e]; cbn [bind]; [|assumption].
        destruct r1 as [c|]; [cbn [jnodes]; lia|].
        assert (L2 : match (if jd_bytes o then bytes_lookahead parse_float s1 else Ok (None, s1)) with
                     | Ok (_, s') => (mu s' <= mu s1)%nat | Err e => fine e end).
        { destruct (jd_bytes o); [apply bytes_lookahead_spec|lia]. }
        destruct (if jd_bytes o then bytes_lookahead parse_float s1 else Ok (None, s1)) as [[r2 s2]|e]; cbn [bind]; [|assumption].
        destruct r2 as [b|]; [cbn [jnodes]; lia|].
        pose proof (IHm o d [] s2 ltac:(lia)) as H.
        destruct (unm_map parse_float cid_parse f o d [] s2) as [[m s3]|e]; cbn [bind]; [|assumption].
        cbn [jnodes]. fold (mnodes m). lia.
      + (* array open *)
        destruct (jmax_depth o <=? d)%Z; [auto|].
        pose proof (IHl o d s ltac:(lia)) as H.
        destruct (unm_list parse_float cid_parse f o d s) as [[l s1]|e]; cbn [bind]; [|assumption].
        cbn [jnodes]. fold (lnodes l). lia.
    - (* map loop *)
      intros o d seen s Hf. rewrite unm_map_S.
      pose proof (next_spec s) as N1. destruct (next parse_float s) as [[t s1]|e]; cbn [bind]; [|subst; auto].
      destruct t; auto.
      + cbn [mnodes fold_right]. lia.
      + destruct (existsb (bytes_eqb s0) seen); [auto|].
        pose proof (next_spec s1) as N2. destruct (next parse_float s1) as [[t2 s2]|e]; cbn [bind]; [|subst; auto].
        pose proof (IHu o (d + 1)%Z t2 s2 ltac:(lia)) as Hc.
        destruct (unm parse_float cid_parse f o (d + 1) t2 s2) as [[v s3]|e]; cbn [bind]; [|assumption].
        pose proof (IHm o d (s0 :: seen) s3 ltac:(lia)) as Hr.
        destruct (unm_map parse_float cid_parse f o d (s0 :: seen) s3) as [[m s4]|e]; cbn [bind]; [|assumption].
        cbn [mnodes fold_right snd]. fold (mnodes m). lia.
    - (* list loop *)
      intros o d s Hf. rewrite unm_list_S.
      pose proof (next_direct_spec s) as N1. destruct (next_direct parse_float s) as [[t s1]|e]; cbn [bind]; [|subst; auto].
      assert (G : match (do r <- unm parse_float cid_parse f o (d + 1) t s1; let '(v, s2) := r in
                         do r' <- unm_list parse_float cid_parse f o d s2; let '(l, s3) := r' in Ok (v :: l, s3)) with
                  | Ok (l, s') => (lnodes l + mu s' + 1 <= mu s)%nat | Err e => fine e end).
      { pose proof (IHu o (d + 1)%Z t s1 ltac:(lia)) as Hc.
        destruct (unm parse_float cid_parse f o (d + 1) t s1) as [[v s2]|e]; cbn [bind]; [|assumption].
        pose proof (jnodes_pos v) as Pv.
        pose proof (IHl o d s2 ltac:(lia)) as Hr.
        destruct (unm_list parse_float cid_parse f o d s2) as [[l s3]|e]; cbn [bind]; [|assumption].
        cbn [lnodes fold_right]. fold (lnodes l). lia. }
      destruct t; try exact G. cbn [lnodes fold_right]. lia.
  Qed.

  (* ---------------------------------------------------------------- depth *)

  Definition Du (f : nat) : Prop := forall o d t s v s', unm parse_float cid_parse f o d t s = Ok (v, s') ->
    (d <= jmax_depth o)%Z -> (d + Z.of_nat (dm_depth v) <= jmax_depth o)%Z.
  Definition Dm (f : nat) : Prop := forall o d seen s m s', unm_map parse_float cid_parse f o d seen s = Ok (m, s') ->
    (d + 1 <= jmax_depth o)%Z ->
    (d + 1 + Z.of_nat (fold_right (fun kv a => Nat.max (dm_depth (snd kv)) a) O m) <= jmax_depth o)%Z.
  Definition Dl (f : nat) : Prop := forall o d s l s', unm_list parse_float cid_parse f o d s = Ok (l, s') ->
    (d + 1 <= jmax_depth o)%Z ->
    (d + 1 + Z.of_nat (fold_right (fun x a => Nat.max (dm_depth x) a) O l) <= jmax_depth o)%Z.

  Theorem unm_depth f : Du f /\ Dm f /\ Dl f.
  Proof.
    induction f as [|f (IHu & IHm & IHl)].
    { repeat split; unfold Du, Dm, Dl; intros; discriminate. }
    repeat split.
    - intros o d t s v s' H Hd. rewrite unm_S in H.
      destruct t; try discriminate; try (inversion H; subst; cbn [dm_depth]; lia).
      + destruct (Z.leb_spec (jmax_depth o) d); [discriminate|].
        destruct (if jd_links o then link_lookahead parse_float cid_parse s else Ok (None, s)) as [[r1 s1]|e]; cbn [bind] in H; [|discriminate].
        destruct r1 as [c|]; [inversion H; subst; cbn [dm_depth]; lia|].
        destruct (if jd_bytes o then bytes_lookahead parse_float s1 else Ok (None, s1)) as [[r2 s2]|e]; cbn [bind] in H; [|discriminate].
        destruct r2 as [b|]; [inversion H; subst; cbn [dm_depth]; lia|].
        destruct (unm_map parse_float cid_parse f o d [] s2) as [[m s3]|e] eqn:E; cbn [bind] in H; [|discriminate].
        inversion H; subst. pose proof (IHm _ _ _ _ _ _ E ltac:(lia)). cbn [dm_depth]. lia.
      + destruct (Z.leb_spec (jmax_depth o) d); [discriminate|].
        destruct (unm_list parse_float cid_parse f o d s) as [[l s1]|e] eqn:E; cbn [bind] in H; [|discriminate].
        inversion H; subst. pose proof (IHl _ _ _ _ _ E ltac:(lia)). cbn [dm_depth]. lia.
    - intros o d seen s m s' H Hd. rewrite unm_map_S in H.
      destruct (next parse_float s) as [[t s1]|e]; cbn [bind] in H; [|discriminate].
      destruct t; try discriminate.
      + inversion H; subst. cbn [fold_right]. lia.
      + destruct (existsb (bytes_eqb s0) seen); [discriminate|].
        destruct (next parse_float s1) as [[t2 s2]|e]; cbn [bind] in H; [|discriminate].
        destruct (unm parse_float cid_parse f o (d + 1) t2 s2) as [[v s3]|e] eqn:U; cbn [bind] in H; [|discriminate].
        destruct (unm_map parse_float cid_parse f o d (s0 :: seen) s3) as [[m' s4]|e] eqn:M; cbn [bind] in H; [|discriminate].
        inversion H; subst. pose proof (IHu _ _ _ _ _ _ U ltac:(lia)). pose proof (IHm _ _ _ _ _ _ M ltac:(lia)). cbn [fold_right snd]. lia.
    - intros o d s l s' H Hd. rewrite unm_list_S in H.
      destruct (next_direct parse_float s) as [[t s1]|e]; cbn [bind] in H; [|discriminate].
      assert (G : (do r <- unm parse_float cid_parse f o (d + 1) t s1; let '(v, s2) := r in
                   do r' <- unm_list parse_float cid_parse f o d s2; let '(l0, s3) := r' in Ok (v :: l0, s3)) = Ok (l, s') ->
                  (d + 1 + Z.of_nat (fold_right (fun x a => Nat.max (dm_depth x) a) O l) <= jmax_depth o)%Z).
      { intros G. destruct (unm parse_float cid_parse f o (d + 1) t s1) as [[v s2]|e] eqn:U; cbn [bind] in G; [|discriminate].
        destruct (unm_list parse_float cid_parse f o d s2) as [[l' s3]|e] eqn:M; cbn [bind] in G; [|discriminate].
        inversion G; subst. pose proof (IHu _ _ _ _ _ _ U ltac:(lia)). pose proof (IHl _ _ _ _ _ M ltac:(lia)). cbn [fold_right]. lia. }
      destruct t; try (exact (G H)). inversion H; subst. cbn [fold_right]. lia.
  Qed.

  (* ---------------------------------------------------------------- Decode *)

  Lemma jmax_depth_pos o : (0 < jmax_depth o)%Z.
  Proof. unfold jmax_depth. destruct (Z.ltb_spec 0 (jd_max_depth o)); [assumption|reflexivity]. Qed.

  (* Total: never out of fuel, never a stale look-ahead slot; the model has no other abnormal outcome *)
  Theorem json_decode_total o bs :
    jdecode parse_float cid_parse o bs <> Err JDFuel /\ jdecode parse_float cid_parse o bs <> Err JDStale.
  Proof.
    unfold jdecode. pose proof (tstep_spec ts_init bs) as T.
    destruct (tstep parse_float ts_init bs) as [[[t ts1] r1]|e]; [|subst; split; discriminate].
    pose proof (proj1 (unm_total (jdec_fuel bs)) o 0%Z t {| lb := []; lts := ts1; lin := r1 |}) as U.
    assert (F : (2 * mu {| lb := []; lts := ts1; lin := r1 |} + 2 <= jdec_fuel bs)%nat).
    { unfold mu, jdec_fuel. cbn [lb lin length]. lia. }
    specialize (U F).
    destruct (unm parse_float cid_parse (jdec_fuel bs) o 0 t {| lb := []; lts := ts1; lin := r1 |}) as [[v s]|e].
    - destruct (jd_dont_parse_beyond o); [split; discriminate|].
      match goal with |- context[if ?b then _ else _] => destruct b end; split; discriminate.
    - destruct U as [U1 U2]. split; intros E; inversion E; subst; congruence.
  Qed.

  (* Bounded: nesting within MaxDepth; at most one node per input byte (dag-json has no allocation
     budget: there are no length claims in JSON, memory is bounded by the input length only) *)
  Theorem json_decode_bounded o bs v rest : jdecode parse_float cid_parse o bs = Ok (v, rest) ->
    (Z.of_nat (dm_depth v) <= jmax_depth o)%Z /\ (jnodes v <= length bs)%nat.
  Proof.
    unfold jdecode. intros H. pose proof (tstep_spec ts_init bs) as T.
    destruct (tstep parse_float ts_init bs) as [[[t ts1] r1]|e]; [|discriminate].
    set (s0 := {| lb := []; lts := ts1; lin := r1 |}) in *.
    pose proof (proj1 (unm_total (jdec_fuel bs)) o 0%Z t s0) as U.
    assert (F : (2 * mu s0 + 2 <= jdec_fuel bs)%nat) by (unfold mu, jdec_fuel, s0; cbn [lb lin length]; lia).
    specialize (U F).
    destruct (unm parse_float cid_parse (jdec_fuel bs) o 0 t s0) as [[v0 s]|e] eqn:E; [|discriminate].
    pose proof (proj1 (unm_depth (jdec_fuel bs)) o 0%Z t s0 v0 s E) as D.
    pose proof (jmax_depth_pos o).
    assert (v0 = v).
    { destruct (jd_dont_parse_beyond o); [now inversion H|].
      match type of H with (if ?b then _ else _) = _ => destruct b end; [now inversion H|discriminate]. }
    subst v0. split; [lia|]. unfold mu, s0 in U. cbn [lb lin length] in U. lia.
  Qed.
End Total.

(* non-vacuity: at the default limit (go_json_defaultMaxDepth = 1024 levels) a document is accepted, one level
   deeper it is rejected with the depth error; likewise for a configured MaxDepth of 3, also through the
   reserved {"/":{"bytes":...}} form, which counts as one level for the check *)
Definition no_float (_ : bytes) : option N := None.
Definition no_cid (_ : bytes) : option bytes := None.
Definition nest (n : nat) (inner : bytes) : bytes := repeat 91 n ++ inner ++ repeat 93 n.

Example json_depth_limit_example :
  (exists v, jdecode no_float no_cid dagjson_dopts (nest 1024 []) = Ok (v, []) /\ dm_depth v = 1024%nat) /\
  jdecode no_float no_cid dagjson_dopts (nest 1025 []) = Err JDDepth /\
  (exists v, jdecode no_float no_cid {| jd_links := true; jd_bytes := true; jd_dont_parse_beyond := false; jd_max_depth := 3 |}
               (nest 3 [49]) = Ok (v, []) /\ dm_depth v = 3%nat) /\
  jdecode no_float no_cid {| jd_links := true; jd_bytes := true; jd_dont_parse_beyond := false; jd_max_depth := 3 |}
    (nest 4 [49]) = Err JDDepth /\
  jdecode no_float no_cid {| jd_links := true; jd_bytes := true; jd_dont_parse_beyond := false; jd_max_depth := 3 |}
    (nest 3 [123; 34; 47; 34; 58; 123; 34; 98; 121; 116; 101; 115; 34; 58; 34; 89; 81; 34; 125; 125]) = Err JDDepth /\
  jdecode no_float no_cid {| jd_links := true; jd_bytes := true; jd_dont_parse_beyond := false; jd_max_depth := 3 |}
    (nest 2 [123; 34; 47; 34; 58; 123; 34; 98; 121; 116; 101; 115; 34; 58; 34; 89; 81; 34; 125; 125]) = Ok (DList [DList [DBytes [97]]], []).
Proof.
  split; [eexists; split; vm_compute; reflexivity|].
  split; [vm_compute; reflexivity|].
  split; [eexists; split; vm_compute; reflexivity|].
  repeat split; vm_compute; reflexivity.
Qed.
