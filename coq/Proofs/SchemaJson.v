(* Proofs/SchemaJson.v — the typed layer over the concrete DAG-JSON codec: the abstract codec of
   Proofs/SchemaPerm.v instantiated with json_enc / jdecode of Codec/DagJson.v through the codec facts of
   Proofs/JsonPerm.v (C04's round trip and order independence).  A1, A2 (strconv float text) and CID (CID
   text round trip) remain hypotheses.  Proofs only. *)
Require Import IP.Base.Bytes IP.DM.Value IP.Codec.DagJson.
Require Import IP.Schema.Types IP.Schema.View IP.Schema.Conform IP.Schema.Sem IP.Schema.Perm.
Require Import IP.Proofs.BytesFacts IP.Proofs.CborEnc.
Require Import IP.Proofs.SchemaBase IP.Proofs.SchemaBuild IP.Proofs.SchemaRepr IP.Proofs.SchemaRound
  IP.Proofs.SchemaTop IP.Proofs.SchemaPerm IP.Proofs.SchemaRefute IP.Proofs.SchemaCbor.
Require Import IP.Proofs.JsonEnc IP.Proofs.JsonSort IP.Proofs.JsonMain IP.Proofs.JsonPerm.
Open Scope N_scope.

Section SchemaJson.
  Variable fmt_float : N -> bytes.
  Variable parse_float : bytes -> option N.
  Variable cid_str : bytes -> bytes.
  Variable cid_parse : bytes -> option bytes.
  Variable cid_ok : bytes -> bool.
  Hypothesis HA1 : A1 fmt_float parse_float.
  Hypothesis HA2 : A2 fmt_float.
  Hypothesis HCID : CID cid_str cid_parse cid_ok.

  Notation json_bytes := (json_enc fmt_float cid_str).
  Notation jdec := (json_decode parse_float cid_parse).
  Notation within := (json_within cid_ok).

  (* C08 over dag-json: encode the representation of a typed value with the registered encoder, decode the
     text with the registered decoder, feed the representation builder: the result is the value up to the
     entry order of typed maps and Any content, it is a value of the type, and its representation encodes to
     the same text.  The one premise besides A1, A2, CID is that the representation tree is in dag-json's
     domain (json_within): finite floats none of which is an integer below 1e21 (refmt's emitFloat, the known
     C04 finding), valid UTF-8 strings and keys, int64 ints, defined CIDs, no reserved shape inside Any
     content, decoder depth <= 1024. *)
  Theorem typed_dagjson_roundtrip e t v :
    (e = Bind \/ e = Gen) -> wf t = true -> has_type t v = true ->
    within (repr_spec t v) ->
    exists d' v', jdec (json_bytes (repr_spec t v)) = Ok (d', []) /\
                  rbuild e qoff t d' = BOk v' /\ veq v v' /\ has_type t v' = true /\
                  repr e qoff t v' = Some (repr_spec t v') /\
                  json_bytes (repr_spec t v') = json_bytes (repr_spec t v).
  Proof.
    intros He Hwf Hh Hw.
    assert (Hs : strict e qoff) by (destruct He; subst; [apply strict_bind_qoff|apply strict_gen_qoff]).
    assert (Hv : views_off e qoff) by (destruct He; subst; [apply views_off_bind|apply views_off_gen]).
    assert (Hu : on e qoff q_union_any = false) by (destruct He; subst; reflexivity).
    pose proof (repr_is_value (fuel_of t) t v Hh Hwf) as Hdw. fold (repr_spec t v) in Hdw.
    pose proof (json_decode_encode fmt_float parse_float cid_str cid_parse cid_ok HA1 HA2 HCID (repr_spec t v) Hw) as Hdec.
    pose proof (perm_eq_peq _ _ (pe_sort_maps (repr_spec t v))) as Hp.
    pose proof (repr_round (fuel_of t) t v Hh Hwf) as Hcf.
    destruct (conf_peq LRepr (fuel_of t) t _ (sortv (repr_spec t v)) v Hp Hcf) as [v' [Hc' Hveq]].
    exists (sortv (repr_spec t v)), v'. repeat split; auto.
    - apply (accept_iff e qoff LRepr t _ v' Hs Hwf). exact Hc'.
    - apply (has_veq (fuel_of t) t v v' Hveq Hh).
    - apply (views_top e qoff t v' Hv Hu Hwf). apply (has_veq (fuel_of t) t v v' Hveq Hh).
    - symmetry. apply json_enc_perm; [apply dm_wf_keys_nodup; exact Hdw|].
      apply peq_perm_eq. apply (repr_veq (fuel_of t)). exact Hveq.
  Qed.

  (* the abstract-codec hypotheses of C08_bytes hold of dag-json on every tree in its domain *)
  Theorem dagjson_dec_enc d : within d -> exists d', jdec (json_bytes d) = Ok (d', []) /\ peq d d'.
  Proof.
    intros Hw. exists (sortv d). split; [exact (json_decode_encode fmt_float parse_float cid_str cid_parse cid_ok HA1 HA2 HCID d Hw)|]. apply perm_eq_peq. apply pe_sort_maps.
  Qed.
End SchemaJson.

Theorem dagjson_enc_peq fmt_float cid_str d d' : dm_wf d = true -> peq d d' ->
  json_enc fmt_float cid_str d = json_enc fmt_float cid_str d'.
Proof. intros Hw Hp. apply json_enc_perm; [apply dm_wf_keys_nodup; exact Hw|apply peq_perm_eq; exact Hp]. Qed.
