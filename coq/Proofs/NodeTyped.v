(* Proofs/NodeTyped.v — the repeated-key clause of C12 on the model of the typed engines
   (Node/Typed.v): holds for the repaired quirk setting, refuted for the pinned one. *)
Require Import IP.Base.Bytes IP.DM.Value IP.Node.Basic IP.Node.Typed.
Open Scope N_scope.

(* a repeated key, through AssembleEntry or through the key assembler, is reported as repeated_key
   by that call and leaves the assembler expecting a key, contents untouched *)
Definition typed_dup_statement (e : engine) (q : tquirks) : Prop :=
  (forall done vals r f k, field_index k = Some f -> has f done = true ->
     tstep e q (TOpen (TStruct done vals TsInitial :: r)) (AssembleEntry k) =
       TErr TERepeated (TOpen (TStruct done vals TsInitial :: r)) /\
     tstep e q (TOpen (TStruct done vals TsMidKey :: r)) (AssignString k) =
       TErr TERepeated (TOpen (TStruct done vals TsInitial :: r))) /\
  (forall t r k, mem_key k t = true ->
     tstep e q (TOpen (TMap t TmInitial :: r)) (AssembleEntry k) =
       TErr TERepeated (TOpen (TMap t TmInitial :: r)) /\
     tstep e q (TOpen (TMap t TmMidKey :: r)) (AssignString k) =
       TErr TERepeated (TOpen (TMap t TmInitial :: r))).

Lemma typed_dup_repaired : forall e, typed_dup_statement e trepaired.
Proof.
  intros e. split.
  - intros done vals r f k Hf Hd. destruct e; simpl; rewrite Hf, Hd; simpl; auto.
  - intros t r k Hm. destruct e; simpl; rewrite Hm; simpl; auto.
Qed.

Definition whee_done : list nat := [0%nat].

Lemma typed_dup_refuted : forall e, ~ typed_dup_statement e tpinned.
Proof.
  intros e [Hs Hm]. destruct e.
  - (* bindnode: the repeated field is accepted *)
    destruct (Hs whee_done [] [] 0%nat f_whee eq_refl eq_refl) as [H _]. discriminate H.
  - (* generated struct: reported, but the key assembler stays at midKey *)
    destruct (Hs whee_done [] [] 0%nat f_whee eq_refl eq_refl) as [_ H]. discriminate H.
Qed.

(* the generated map never checks a key that arrives through AssembleKey *)
Lemma gen_map_keypath_refuted :
  tstep EGen tpinned (TOpen [TMap [([97], [])] TmMidKey; TRoot TyM]) (AssignString [97]) =
  TOk (TOpen [TMap [([97], [])] (TmExpectValue [97]); TRoot TyM]).
Proof. reflexivity. Qed.

(* witnesses as whole runs *)
Lemma bind_dup_run :
  fst (trun_tol EBind tpinned (tinit TyS)
         [BeginMap 3; AssembleEntry f_whee; AssignInt 1; AssembleEntry f_whee]) = [TSOk; TSOk; TSOk; TSOk] /\
  fst (trun_tol EBind trepaired (tinit TyS)
         [BeginMap 3; AssembleEntry f_whee; AssignInt 1; AssembleEntry f_whee]) = [TSOk; TSOk; TSOk; TSErr TERepeated].
Proof. split; reflexivity. Qed.

Lemma gen_stuck_run :
  fst (trun_tol EGen tpinned (tinit TyS)
         [BeginMap 3; AssembleEntry f_whee; AssignInt 1; AssembleKey; AssignString f_whee; AssembleKey]) =
    [TSOk; TSOk; TSOk; TSOk; TSErr TERepeated; TSPanic] /\
  fst (trun_tol EGen trepaired (tinit TyS)
         [BeginMap 3; AssembleEntry f_whee; AssignInt 1; AssembleKey; AssignString f_whee; AssembleKey]) =
    [TSOk; TSOk; TSOk; TSOk; TSErr TERepeated; TSOk].
Proof. split; reflexivity. Qed.

Lemma bind_reset_refuted : treset_ok EBind tpinned = false /\ treset_ok EBind trepaired = true.
Proof. split; reflexivity. Qed.
