(* Proofs/NodeTyped.v — the typed engines (Node/Typed.v) on the PINNED quirk setting: witnesses that
   the all-scripts statement (Proofs/NodeTypedAll.v, proved for every setting with the protocol
   defects off) fails there, one per known finding; and the single-call repeated-key statement. *)
Require Import IP.Base.Bytes IP.DM.Value IP.Node.Basic IP.Node.Typed IP.Node.TypedProtocol
  IP.Proofs.NodeTypedAll.
Open Scope N_scope.

(* a repeated key, through AssembleEntry or through the key assembler, is reported as repeated_key
   by that call and leaves the assembler expecting a key, contents untouched *)
Definition typed_dup_statement (e : engine) (q : tquirks) : Prop :=
  (forall done vals r f k, field_index k = Some f -> has f done = true ->
     tstep e q (TOpen (TStruct done vals TsInitial :: r)) (AssembleEntry k) =
       TErr TERepeated (TOpen (TStruct done vals TsInitial :: r)) /\
     tstep e q (TOpen (TStruct done vals TsMidKey :: r)) (AssignString k) =
       TErr TERepeated (TOpen (TStruct done vals TsInitial :: r))) /\
  (forall vt t r k, mem_key k t = true ->
     tstep e q (TOpen (TMap vt t TmInitial :: r)) (AssembleEntry k) =
       TErr TERepeated (TOpen (TMap vt t TmInitial :: r)) /\
     tstep e q (TOpen (TMap vt t TmMidKey :: r)) (AssignString k) =
       TErr TERepeated (TOpen (TMap vt t TmInitial :: r))).

Lemma typed_dup_ok : forall e q, tq_ok e q -> typed_dup_statement e q.
Proof.
  intros e q Hq. split.
  - intros done vals r f k Hf Hd. split.
    + apply (sentry_dup e q done vals r k f); auto.
    + apply (skey_dup e q done vals r k f); auto. constructor.
  - intros vt t r k Hm. split.
    + apply mentry_dup; auto.
    + apply (mkey_dup e q vt t r k); auto. constructor.
Qed.

Lemma tq_ok_repaired : forall e, tq_ok e trepaired.
Proof. destruct e; split; reflexivity. Qed.

Lemma typed_dup_repaired : forall e, typed_dup_statement e trepaired.
Proof. intros. apply typed_dup_ok. apply tq_ok_repaired. Qed.

Definition whee_done : list nat := [0%nat].

Lemma typed_dup_refuted : forall e, ~ typed_dup_statement e tpinned.
Proof.
  intros e [Hs Hm]. destruct e.
  - (* bindnode: the repeated field is accepted *)
    destruct (Hs whee_done [] [] 0%nat f_whee eq_refl eq_refl) as [H _]. discriminate H.
  - (* generated struct: reported, but the key assembler stays at midKey *)
    destruct (Hs whee_done [] [] 0%nat f_whee eq_refl eq_refl) as [_ H]. discriminate H.
Qed.

(* ------------------------------------------------------------------ whole-script witnesses *)
(* the all-scripts statement on the pinned tree: what the repaired grammar admits, run on the pinned
   models *)
Definition typed_all_scripts_pinned (e : engine) : Prop :=
  forall ty v aops, TScript e trepaired ty v aops ->
  trun_tol e tpinned (tinit ty) (map fst aops) = (map snd aops, Some (TDone v)).

Definition s123 : svals := [(0%nat, 1%Z); (1%nat, 2%Z); (2%nat, 3%Z)].

(* whee=1, a second whee (must be refused), woot=2, waga=3 *)
Definition dup_field_script : list (aop * tsres) :=
  [tok (BeginMap 3); tok (AssembleEntry f_whee); tok (AssignInt 1);
   (AssembleEntry f_whee, TSErr TERepeated);
   tok (AssembleEntry f_woot); tok (AssignInt 2); tok (AssembleEntry f_waga); tok (AssignInt 3); tok Finish].

Lemma dup_field_script_legal : forall e q, TScript e q TyS (TVS s123) dup_field_script.
Proof.
  intros. simpl. apply (SS_begin e [] 3 s123). { constructor. }
  apply (SB_entry e [] [] s123 f_whee 0%nat [] (AssignInt 1) 1%Z); try reflexivity; try constructor.
  apply (SB_dup_entry e [0%nat] _ s123 f_whee 0%nat); try reflexivity.
  apply (SB_entry e [0%nat] _ s123 f_woot 1%nat [] (AssignInt 2) 2%Z); try reflexivity; try constructor.
  apply (SB_entry e [1%nat; 0%nat] _ s123 f_waga 2%nat [] (AssignInt 3) 3%Z); try reflexivity; try constructor.
  reflexivity.
Qed.

(* bind_struct_dup_accepted *)
Lemma bind_struct_dup_refuted : ~ typed_all_scripts_pinned EBind.
Proof.
  intros H. specialize (H TyS (TVS s123) dup_field_script (dup_field_script_legal EBind trepaired)).
  vm_compute in H. discriminate H.
Qed.

Definition k_a : bytes := [97].
Definition msg3_entries (h : Z) : list (aop * tsres) :=
  [tok (BeginMap h); tok (AssembleEntry f_whee); tok (AssignInt 1); tok (AssembleEntry f_woot); tok (AssignInt 2);
   tok (AssembleEntry f_waga); tok (AssignInt 3); tok Finish].

Lemma msg3_entries_legal : forall e q h, TScript e q TyS (TVS s123) (msg3_entries h).
Proof.
  intros. simpl. apply (SS_begin e [] h s123). { constructor. }
  apply (SB_entry e [] [] s123 f_whee 0%nat [] (AssignInt 1) 1%Z); try reflexivity; try constructor.
  apply (SB_entry e [0%nat] _ s123 f_woot 1%nat [] (AssignInt 2) 2%Z); try reflexivity; try constructor.
  apply (SB_entry e [1%nat; 0%nat] _ s123 f_waga 2%nat [] (AssignInt 3) 3%Z); try reflexivity; try constructor.
  reflexivity.
Qed.

(* {a: msg3}, then key a again through AssembleEntry *)
Definition dup_mapkey_entry_script : list (aop * tsres) :=
  tok (BeginMap 1) :: tok (AssembleEntry k_a) :: msg3_entries 3 ++
  [(AssembleEntry k_a, TSErr TERepeated); tok Finish].
(* ... and through the key assembler *)
Definition dup_mapkey_key_script : list (aop * tsres) :=
  tok (BeginMap 1) :: tok (AssembleEntry k_a) :: msg3_entries 3 ++
  [tok AssembleKey; (AssignString k_a, TSErr TERepeated); tok Finish].

Lemma dup_mapkey_entry_legal : forall e q,
  TScript e q (TyM TyS) (TVM [(k_a, TVS s123)]) dup_mapkey_entry_script.
Proof.
  intros. simpl. apply (MST_begin e q _ TyS [] 1 [(k_a, TVS s123)]). { constructor. }
  apply (MBT_entry _ [] _ k_a (TVS s123) (msg3_entries 3)); [reflexivity|apply (msg3_entries_legal e q 3)|].
  apply (MBT_dup_entry _ [(k_a, TVS s123)] _ k_a); [reflexivity|]. constructor.
Qed.

Lemma dup_mapkey_key_legal : forall e q,
  TScript e q (TyM TyS) (TVM [(k_a, TVS s123)]) dup_mapkey_key_script.
Proof.
  intros. simpl. apply (MST_begin e q _ TyS [] 1 [(k_a, TVS s123)]). { constructor. }
  apply (MBT_entry _ [] _ k_a (TVS s123) (msg3_entries 3)); [reflexivity|apply (msg3_entries_legal e q 3)|].
  apply (MBT_dup_key _ [(k_a, TVS s123)] _ k_a [] (AssignString k_a)); [reflexivity|constructor|constructor|].
  constructor.
Qed.

(* bind_map_dup_accepted *)
Lemma bind_map_dup_refuted :
  trun_tol EBind tpinned (tinit (TyM TyS)) (map fst dup_mapkey_entry_script) <>
  (map snd dup_mapkey_entry_script, Some (TDone (TVM [(k_a, TVS s123)]))).
Proof. vm_compute. discriminate. Qed.

(* gen_map_keypath_dup_accepted: the generated map refuses the key through AssembleEntry but not
   through the key assembler *)
Lemma gen_map_keypath_refuted : ~ typed_all_scripts_pinned EGen.
Proof.
  intros H. specialize (H (TyM TyS) _ dup_mapkey_key_script (dup_mapkey_key_legal EGen trepaired)).
  vm_compute in H. discriminate H.
Qed.

Lemma gen_map_entrypath_ok :
  trun_tol EGen tpinned (tinit (TyM TyS)) (map fst dup_mapkey_entry_script) =
  (map snd dup_mapkey_entry_script, Some (TDone (TVM [(k_a, TVS s123)]))).
Proof. vm_compute. reflexivity. Qed.

(* gen_struct_key_not_rolled_back (fixed in the tree by cdcca1a; the switch is still modelled) *)
Definition dup_field_key_script : list (aop * tsres) :=
  [tok (BeginMap 3); tok (AssembleEntry f_whee); tok (AssignInt 1);
   tok AssembleKey; (AssignString f_whee, TSErr TERepeated);
   tok (AssembleEntry f_woot); tok (AssignInt 2); tok (AssembleEntry f_waga); tok (AssignInt 3); tok Finish].

Lemma gen_stuck_run :
  fst (trun_tol EGen tpinned (tinit TyS) (map fst dup_field_key_script)) =
    [TSOk; TSOk; TSOk; TSOk; TSErr TERepeated; TSPanic] /\
  trun_tol EGen trepaired (tinit TyS) (map fst dup_field_key_script) =
    (map snd dup_field_key_script, Some (TDone (TVS s123))).
Proof. split; vm_compute; reflexivity. Qed.

(* gen_map_assignnode_foreign_panic: AssignNode of a non-empty basicnode map *)
Definition plain_msg3 : node :=
  let t := [(f_whee, NInt 1); (f_woot, NInt 2); (f_waga, NInt 3)] in NMap t (rev t).
Definition plain_map_a : node := NMap [(k_a, plain_msg3)] [(k_a, plain_msg3)].

Lemma gen_map_node_legal :
  TScript EGen trepaired (TyM TyS) (TVM [(k_a, TVS s123)]) [tok (AssignNode plain_map_a)].
Proof.
  simpl. apply (MST_node EGen trepaired _ TyS [] plain_map_a (TVM [(k_a, TVS s123)])).
  - constructor.
  - vm_compute. reflexivity.
  - left. reflexivity.
Qed.

Lemma gen_map_node_refuted :
  trun_tol EGen tpinned (tinit (TyM TyS)) [AssignNode plain_map_a] = ([TSPanic], None) /\
  trun_tol EBind tpinned (tinit (TyM TyS)) [AssignNode plain_map_a] =
    ([TSOk], Some (TDone (TVM [(k_a, TVS s123)]))).
Proof. split; vm_compute; reflexivity. Qed.

(* bind_reset_panics *)
Lemma bind_reset_refuted : treset_ok EBind tpinned = false /\ treset_ok EBind trepaired = true.
Proof. split; reflexivity. Qed.

(* ------------------------------------------------------------------ non-vacuity: struct in map in list *)
(* [ {a: msg3} , {} ] on the generated engine, with a wrong-kind call at every level, an unknown
   field, a Finish that comes too early, a repeated field through the key assembler and a repeated
   map key *)
Definition nested_value : tval := TVL [TVM [(k_a, TVS s123)]; TVM []].

Definition nested_script : list (aop * tsres) :=
  [ (AssignInt 5, TSErr TEWrong); (BeginMap 0, TSErr TEWrong); tok (BeginList 2);
      tok AssembleValue;
        (BeginList 0, TSErr TEWrong); tok (BeginMap 1);
          tok AssembleKey; (AssignInt 1, TSErr TEWrong); tok (AssignString k_a); tok AssembleValue;
            (AssignString k_a, TSErr TEWrong); tok (BeginMap 3);
              (AssembleEntry [120], TSErr TEInvalidKey);
              tok (AssembleEntry f_whee); (AssignString [49], TSErr TEWrong); tok (AssignInt 1);
              (Finish, TSErr TEMissing);
              tok AssembleKey; (AssignString f_whee, TSErr TERepeated);
              tok AssembleKey; tok (AssignNode (NString f_woot)); tok AssembleValue; tok (AssignNode (NInt 2));
              tok (AssembleEntry f_waga); tok (AssignInt 3);
            tok Finish;
          (AssembleEntry k_a, TSErr TERepeated);
        tok Finish;
      tok AssembleValue; tok (BeginMap (-1)); tok Finish;
    tok Finish ].

Example nested_script_legal : forall q, TScript EGen q (TyL (TyM TyS)) nested_value nested_script.
Proof.
  intros q. simpl.
  apply (LST_begin _ (TyM TyS) [(AssignInt 5, TSErr TEWrong); (BeginMap 0, TSErr TEWrong)] 2
           [TVM [(k_a, TVS s123)]; TVM []]).
  { repeat constructor. }
  apply (LBT_value _ [] _ (TVM [(k_a, TVS s123)])
           ((BeginList 0, TSErr TEWrong) :: tok (BeginMap 1) ::
            [tok AssembleKey; (AssignInt 1, TSErr TEWrong); tok (AssignString k_a); tok AssembleValue;
             (AssignString k_a, TSErr TEWrong); tok (BeginMap 3);
             (AssembleEntry [120], TSErr TEInvalidKey);
             tok (AssembleEntry f_whee); (AssignString [49], TSErr TEWrong); tok (AssignInt 1);
             (Finish, TSErr TEMissing);
             tok AssembleKey; (AssignString f_whee, TSErr TERepeated);
             tok AssembleKey; tok (AssignNode (NString f_woot)); tok AssembleValue; tok (AssignNode (NInt 2));
             tok (AssembleEntry f_waga); tok (AssignInt 3);
             tok Finish;
             (AssembleEntry k_a, TSErr TERepeated);
             tok Finish])).
  - (* the first element: {a: msg3} *)
    apply (MST_begin EGen q _ TyS [(BeginList 0, TSErr TEWrong)] 1 [(k_a, TVS s123)]).
    { repeat constructor. }
    apply (MBT_key _ [] _ k_a (TVS s123) [(AssignInt 1, TSErr TEWrong)] (AssignString k_a)
             [(AssignString k_a, TSErr TEWrong); tok (BeginMap 3);
              (AssembleEntry [120], TSErr TEInvalidKey);
              tok (AssembleEntry f_whee); (AssignString [49], TSErr TEWrong); tok (AssignInt 1);
              (Finish, TSErr TEMissing);
              tok AssembleKey; (AssignString f_whee, TSErr TERepeated);
              tok AssembleKey; tok (AssignNode (NString f_woot)); tok AssembleValue; tok (AssignNode (NInt 2));
              tok (AssembleEntry f_waga); tok (AssignInt 3);
              tok Finish]).
    + reflexivity.
    + repeat constructor.
    + constructor.
    + (* the struct *)
      apply (SS_begin EGen [(AssignString k_a, TSErr TEWrong)] 3 s123). { repeat constructor. }
      apply (SB_unknown_entry EGen [] [] s123 [120]); [reflexivity|reflexivity|].
      apply (SB_entry EGen [] [] s123 f_whee 0%nat [(AssignString [49], TSErr TEWrong)] (AssignInt 1) 1%Z);
        try reflexivity; [repeat constructor|constructor|].
      apply (SB_missing EGen [0%nat] _ s123); [reflexivity|].
      apply (SB_dup_key EGen [0%nat] _ s123 f_whee 0%nat [] (AssignString f_whee));
        [reflexivity|reflexivity|constructor|constructor|].
      apply (SB_key EGen [0%nat] _ s123 f_woot 1%nat [] (AssignNode (NString f_woot)) [] (AssignNode (NInt 2)) 2%Z);
        try reflexivity; [constructor|apply TKG_node; reflexivity|constructor|apply IG_node; reflexivity|].
      apply (SB_entry EGen [1%nat; 0%nat] _ s123 f_waga 2%nat [] (AssignInt 3) 3%Z);
        try reflexivity; [constructor|constructor|].
      apply SB_finish. reflexivity.
    + apply (MBT_dup_entry _ [(k_a, TVS s123)] _ k_a); [reflexivity|]. constructor.
  - (* the second element: {} *)
    apply (LBT_value _ [TVM [(k_a, TVS s123)]] _ (TVM []) [tok (BeginMap (-1)); tok Finish]).
    + apply (MST_begin EGen q _ TyS [] (-1) []). { constructor. } constructor.
    + constructor.
Qed.

(* ... and it runs as annotated (an instance of the theorem; also checked by computation) *)
Example nested_script_runs :
  trun_tol EGen trepaired (tinit (TyL (TyM TyS))) (map fst nested_script) =
  (map snd nested_script, Some (TDone nested_value)).
Proof. vm_compute. reflexivity. Qed.
