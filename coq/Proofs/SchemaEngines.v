(* Proofs/SchemaEngines.v — C13: with every deviation of either engine switched off, the reflection
   binding and the generated code are the same semantics (the Gen model is the Bind model with the
   bindnode quirks masked; its own deviations are separate switches), hence observationally equal;
   and each of them then does what the specification says (SchemaBuild, SchemaRepr). *)
Require Import IP.Base.Bytes IP.DM.Value IP.Schema.Types IP.Schema.View IP.Schema.Conform IP.Schema.Sem
  IP.Proofs.SchemaBase IP.Proofs.SchemaBuild IP.Proofs.SchemaRepr.
Open Scope N_scope.

Lemma b_step_engines lvl rb t ptr d : b_step Bind qoff lvl rb t ptr d = b_step Gen qoff lvl rb t ptr d.
Proof. reflexivity. Qed.

Lemma rview_step_engines rv t v : rview_step Bind qoff rv t v = rview_step Gen qoff rv t v.
Proof. reflexivity. Qed.

Lemma tvw_step_engines rv t v : tvw_step Bind qoff rv t v = tvw_step Gen qoff rv t v.
Proof. reflexivity. Qed.

Lemma build_engines lvl n : build_f Bind qoff lvl n = build_f Gen qoff lvl n.
Proof. reflexivity. Qed.

Lemma rview_engines n : rview_f Bind qoff n = rview_f Gen qoff n.
Proof. reflexivity. Qed.

Lemma tvw_engines n : tvw_f Bind qoff n = tvw_f Gen qoff n.
Proof. reflexivity. Qed.

(* observationally equal on every input (the well-formedness and feature-set hypotheses delimit where
   the Gen model has been validated against generated code; the equality itself needs neither) *)
Theorem observe_engines lvl t d : observe Bind qoff lvl t d = observe Gen qoff lvl t d.
Proof.
  unfold observe, build, type_view, repr_view. rewrite build_engines.
  rewrite rview_engines, tvw_engines. reflexivity.
Qed.

(* and each engine then does what the specification says *)
Theorem observe_spec e lvl t d : wf t = true -> (e = Bind \/ e = Gen) ->
  match conf_f lvl (fuel_of t) t d with
  | Some v => exists o, observe e qoff lvl t d = BOk o /\ fst o = tview_spec t v
  | None => exists c, observe e qoff lvl t d = BErr c
  end.
Proof.
  intros Hwf He.
  assert (Hs : strict e qoff) by (destruct He; subst; [apply strict_bind_qoff|apply strict_gen_qoff]).
  pose proof (build_conf e qoff lvl Hs (fuel_of t) t false d Hwf) as H.
  unfold observe, build. destruct (conf_f lvl (fuel_of t) t d) as [v|].
  - destruct (build_f e qoff lvl (fuel_of t) t false d); cbn in H; try contradiction. subst.
    eexists. split; [reflexivity|]. cbn [fst]. unfold type_view, tview_spec.
    apply (tview_ok e qoff). destruct He; subst; reflexivity.
  - destruct (build_f e qoff lvl (fuel_of t) t false d); cbn in H; try contradiction.
    eexists. reflexivity.
Qed.
