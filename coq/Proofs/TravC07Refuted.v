(* Proofs/TravC07Refuted.v — C07: the pinned code does NOT meet the specification; one witness per deviation
   (each a compiled selector, a tree, and the two different traces, by computation), and for each witness the
   model with that one switch repaired meets the specification. *)
Require Import IP.Base.Bytes IP.DM.Value IP.Base.GoSem IP.Trav.Selector IP.Trav.Walk IP.Trav.SelectorSpec.
Open Scope Z_scope.

(* selector declarations (the data-model encoding CompileSelector parses) *)
Definition d_match : dm := DMap [(k_matcher, DMap [])].
Definition d_all (x : dm) : dm := DMap [(k_all, DMap [(k_next, x)])].
Definition d_edge : dm := DMap [(k_edge, DMap [])].
Definition d_index (i : Z) (x : dm) : dm := DMap [(k_index, DMap [(k_index, DInt i); (k_next, x)])].
Definition d_range (a b : Z) (x : dm) : dm := DMap [(k_range, DMap [(k_start, DInt a); (k_end, DInt b); (k_next, x)])].
Definition d_union (l : list dm) : dm := DMap [(k_union, DList l)].
Definition d_fields (l : list (bytes * dm)) : dm := DMap [(k_fields, DMap [(k_fieldsmap, DMap l)])].
Definition d_rec_depth (d : Z) (x : dm) : dm := DMap [(k_rec, DMap [(k_limit, DMap [(k_depth, DInt d)]); (k_seq, x)])].
Definition d_rec_none (x : dm) : dm := DMap [(k_rec, DMap [(k_limit, DMap [(k_none, DMap [])]); (k_seq, x)])].

Definition differs (q : quirks) (v root : dm) : Prop :=
  exists s, compile v = COk s /\ walk_adv q [] 20 root s <> denote_sel [] 20 root s.
Definition meets (q : quirks) (v root : dm) : Prop :=
  exists s, compile v = COk s /\ walk_adv q [] 20 root s = denote_sel [] 20 root s.

Definition fix_union_dup : quirks :=
  {| q_union_dup := false; q_bare_edge_panic := true; q_exhausted_unwrap := true; q_shared_depth := true |}.
Definition fix_bare_edge : quirks :=
  {| q_union_dup := true; q_bare_edge_panic := false; q_exhausted_unwrap := true; q_shared_depth := true |}.
Definition fix_unwrap : quirks :=
  {| q_union_dup := true; q_bare_edge_panic := true; q_exhausted_unwrap := false; q_shared_depth := true |}.
Definition fix_depth : quirks :=
  {| q_union_dup := true; q_bare_edge_panic := true; q_exhausted_unwrap := false; q_shared_depth := false |}.

Ltac by_compute := eexists; split; [vm_compute; reflexivity|vm_compute; try reflexivity; try discriminate].

(* 1. a union whose members name the same child explicitly walks that child once per occurrence:
      |[ i1>. , r[0,3)>. ] over [10,11,12] visits index 1 twice *)
Definition w1_sel : dm := d_union [d_index 1 d_match; d_range 0 3 d_match].
Definition w1_root : dm := DList [DInt 10; DInt 11; DInt 12].
Lemma refuted_union_dup : differs pinned w1_sel w1_root /\ meets fix_union_dup w1_sel w1_root.
Proof. split; by_compute. Qed.
Lemma refuted_union_dup_count :
  exists s, compile w1_sel = COk s /\
            length (fst (walk_adv pinned [] 20 w1_root s)) = 5%nat /\
            length (fst (denote_sel [] 20 w1_root s)) = 4%nat.
Proof. eexists; split; [vm_compute; reflexivity|split; vm_compute; reflexivity]. Qed.

(* 2. an edge that is a direct member of the union forming a recursion's sequence gets Explore'd: panic
      R(none, |[ @, a>@ ]) over [[1],[2]] *)
Definition w2_sel : dm := d_rec_none (d_union [d_edge; d_all d_edge]).
Definition w2_root : dm := DList [DList [DInt 1]; DList [DInt 2]].
Lemma refuted_bare_edge_panic :
  differs pinned w2_sel w2_root /\ meets fix_bare_edge w2_sel w2_root /\
  exists s, compile w2_sel = COk s /\ snd (walk_adv pinned [] 20 w2_root s) = OPanic.
Proof. split; [by_compute|split; by_compute]. Qed.

(* 3. at depth exhaustion the recursion wrapper is dropped, a nested edge later appears bare and its node is
      visited as a candidate: R(depth 1, a>|[ @, f{a:@} ]) over {x:{a:{a:1}}} visits x/a; the specification
      (and R(depth 1, a>@)) stops at x *)
Definition w3_sel : dm := d_rec_depth 1 (d_all (d_union [d_edge; d_fields [([97%N], d_edge)]])).
Definition w3_root : dm := DMap [([120%N], DMap [([97%N], DMap [([97%N], DInt 1)])])].
Lemma refuted_exhausted_edge : differs pinned w3_sel w3_root /\ meets fix_unwrap w3_sel w3_root.
Proof. split; by_compute. Qed.

(* 4. one depth counter for all members of the current selector: adding the alternative a>@ to a>a>@ makes the
      latter reach less deep: R(depth 3, |[ a>@, a>a>@ ]) over a chain of 7 nested lists stops at level 4 although
      R(depth 3, a>a>@) alone reaches level 5 *)
Definition w4_sel : dm := d_rec_depth 3 (d_union [d_all d_edge; d_all (d_all d_edge)]).
Definition w4_alone : dm := d_rec_depth 3 (d_all (d_all d_edge)).
Definition w4_root : dm := DList [DList [DList [DList [DList [DList [DList [DInt 1]]]]]]].
Lemma refuted_shared_depth :
  differs pinned w4_sel w4_root /\ meets fix_depth w4_sel w4_root /\ meets pinned w4_alone w4_root /\
  exists s s', compile w4_sel = COk s /\ compile w4_alone = COk s' /\
               length (fst (walk_adv pinned [] 20 w4_root s)) = 5%nat /\
               length (fst (walk_adv pinned [] 20 w4_root s')) = 6%nat /\
               length (fst (denote_sel [] 20 w4_root s)) = 6%nat.
Proof.
  split; [by_compute|]. split; [by_compute|]. split; [by_compute|].
  eexists; eexists; split; [vm_compute; reflexivity|]. split; [vm_compute; reflexivity|].
  repeat split; vm_compute; reflexivity.
Qed.
