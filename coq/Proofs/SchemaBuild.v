(* Proofs/SchemaBuild.v — with every leniency switched off, the assemblers of the impl-model accept
   exactly the conforming trees and rebuild the value the specification assigns (C09_accept_iff,
   C09_no_panic).  One step lemma per type constructor, closed by induction on the fuel. *)
Require Import IP.Base.Bytes IP.DM.Value IP.Schema.Types IP.Schema.View IP.Schema.Conform IP.Schema.Sem
  IP.Proofs.SchemaBase.
From Coq Require Import Lia.
Open Scope N_scope.

(* the builder's outcome matches the specification's verdict; a panic matches nothing *)
Definition sim {A} (r : bres A) (o : option A) : Prop :=
  match r, o with
  | BOk a, Some b => a = b
  | BErr _, None => True
  | _, _ => False
  end.

(* every leniency that changes acceptance is off for the engine at hand *)
Definition strict (e : engine) (q : quirks) : Prop :=
  on e q q_dup_field = false /\ on e q q_dup_mapkey = false /\ on e q q_union_two = false /\
  on e q q_rename_alias = false /\ on e q q_member_alias = false /\ on e q q_listpairs_dup = false /\
  on e q q_listpairs_short = false /\ on e q q_listpairs_unknown_panic = false /\
  on e q q_enum_name_alias = false /\ on e q q_enum_type_unchecked = false /\
  on e q q_nullable_sum_panic = false /\ on e q q_int_narrow = false /\
  ong e q qg_tuple_missing = false /\ ong e q qg_nullable_kinded_null = false /\
  ong e q qg_stringprefix_split = false /\ ong e q qg_map_kv_dup = false.

Lemma strict_bind_qoff : strict Bind qoff.
Proof. unfold strict, on, ong; cbn. repeat split; reflexivity. Qed.

Lemma strict_gen_qoff : strict Gen qoff.
Proof. unfold strict, on, ong; cbn. repeat split; reflexivity. Qed.

Lemma sim_bbind {A B} (r : bres A) (o : option A) (f : A -> bres B) (g : A -> option B) :
  sim r o -> (forall a, sim (f a) (g a)) ->
  sim (bbind r f) (match o with Some a => g a | None => None end).
Proof.
  destruct r, o; cbn; intros H Hf; try contradiction; subst; auto.
Qed.

Lemma sim_bmap {A B} (r : bres A) (o : option A) (f : A -> B) :
  sim r o -> sim (bmap f r) (match o with Some a => Some (f a) | None => None end).
Proof. destruct r, o; cbn; intros H; try contradiction; subst; auto. Qed.

(* ================================================================== keyed slots *)
(* a struct assembler's state read and written through the key of a field instead of its index *)
Section Slots.
  Variable key : finfo -> bytes.

  Definition kslots (fs : list (finfo * ty)) (st : list (maybe tv)) : list (bytes * maybe tv) :=
    zip (map (fun f => key (fst f)) fs) st.

  Definition put (fs : list (finfo * ty)) (k : bytes) (v : maybe tv) (st : list (maybe tv)) : list (maybe tv) :=
    map (fun x => if bytes_eqb k (fst x) then v else snd x) (kslots fs st).

  Lemma find_field_none fs st k :
    find_field key fs k = None -> assoc k (kslots fs st) = None.
  Proof.
    unfold find_field, kslots. revert st; induction fs as [|f fs IH]; intros st; cbn; auto.
    destruct st as [|s st]; cbn; auto.
    destruct (bytes_eqb (key (fst f)) k) eqn:E; [discriminate|].
    destruct (find_idx _ fs) as [[i y]|] eqn:E2; [discriminate|]. intros _.
    rewrite sch_bytes_eqb_sym, E. auto.
  Qed.

  Lemma find_field_some fs st k i f :
    NoDup (map (fun f => key (fst f)) fs) -> length st = length fs ->
    find_field key fs k = Some (i, f) ->
    In f fs /\ key (fst f) = k /\
    assoc k (kslots fs st) = Some (nth i st MAbsent) /\
    forall v, set_nth i v st = put fs k v st.
  Proof.
    unfold find_field, kslots, put. revert st i; induction fs as [|g fs IH]; intros st i Hnd Hlen; cbn; [discriminate|].
    destruct st as [|s st]; [discriminate|]. cbn in Hlen. inversion Hnd as [|? ? Hni Hnd']; subst.
    cbn. destruct (bytes_eqb (key (fst g)) k) eqn:E.
    - intros H; inversion H; subst. apply sch_bytes_eqb_eq in E. subst k.
      rewrite sch_bytes_eqb_refl. repeat split; auto. intros v. cbn. f_equal.
      (* the other slots keep their value: no other field has this key *)
      clear -Hni Hlen. revert st Hlen. induction fs as [|h fs IH]; intros st Hlen; destruct st; cbn in *; auto; try discriminate.
      destruct (bytes_eqb (key (fst f)) (key (fst h))) eqn:E.
      + apply sch_bytes_eqb_eq in E. exfalso. apply Hni. now left.
      + f_equal. apply IH; auto.
    - destruct (find_idx _ fs) as [[i' y]|] eqn:E2; [|discriminate].
      intros H; inversion H; subst.
      assert (Hl' : length st = length fs) by lia.
      destruct (IH st i' Hnd' Hl' eq_refl) as [H1 [H2 [H3 H4]]].
      rewrite sch_bytes_eqb_sym, E. repeat split; auto. intros v. cbn. f_equal. apply H4.
  Qed.

  Lemma put_length fs k v st : length st = length fs -> length (put fs k v st) = length fs.
  Proof.
    intros H. unfold put, kslots. rewrite map_length, zip_length; rewrite map_length; auto.
  Qed.

  Lemma kslots_put fs k v st :
    length st = length fs ->
    kslots fs (put fs k v st) = map (fun x => (fst x, if bytes_eqb k (fst x) then v else snd x)) (kslots fs st).
  Proof.
    unfold put, kslots. revert st; induction fs as [|f fs IH]; intros st H; destruct st; cbn in *; try discriminate; auto.
    f_equal. apply IH. lia.
  Qed.

  Lemma assoc_map_upd k k' v (l : list (bytes * maybe tv)) :
    assoc k' (map (fun x => (fst x, if bytes_eqb k (fst x) then v else snd x)) l) =
    match assoc k' l with
    | Some s => Some (if bytes_eqb k k' then v else s)
    | None => None
    end.
  Proof.
    induction l as [|[a s] l IH]; cbn; auto.
    destruct (bytes_eqb k' a) eqn:E; auto.
    apply sch_bytes_eqb_eq in E; subst. reflexivity.
  Qed.
End Slots.

(* ================================================================== one step of the recursion *)
Section Step.
  Variables (e : engine) (q : quirks) (lvl : level).
  Hypothesis Hs : strict e q.
  Variable rb : ty -> bool -> dm -> bres tv.
  Variable rc : ty -> dm -> option tv.
  Hypothesis Hrec : forall c ptr d, wf c = true -> sim (rb c ptr d) (rc c d).

  Lemma maybe_sim nul c d :
    wf c = true -> sim (b_maybe e q lvl rb nul c d) (conf_maybe rc nul c d).
  Proof.
    intros Hc. unfold b_maybe, conf_maybe.
    destruct Hs as (_&_&_&_&_&_&_&_&_&_&_&_&_&Hk&_).
    destruct d; try (apply (sim_bmap _ _ MVal); apply Hrec; exact Hc).
    destruct nul; cbn; auto.
    destruct lvl; cbn; auto. destruct c; cbn; auto. destruct r; cbn; auto. rewrite Hk. cbn. auto.
  Qed.

  Lemma maybe_not_absent nul c d v : conf_maybe rc nul c d = Some v -> is_absent v = false.
  Proof.
    unfold conf_maybe. destruct d; try (destruct (rc c _); intros H; inversion H; reflexivity).
    destruct nul; intros H; inversion H; reflexivity.
  Qed.

  (* ---------------------------------------------------------------- struct read as a map *)
  Section Fields.
    Variable key : finfo -> bytes.
    Variable fs : list (finfo * ty).
    Hypothesis Hnd : NoDup (map (fun f => key (fst f)) fs).
    Hypothesis Hwf : Forall (fun f => wf (snd f) = true) fs.

    (* the assembler's run, as a function *)
    Fixpoint seq_fields (st : list (maybe tv)) (m : list (bytes * dm)) : option (list (maybe tv)) :=
      match m with
      | [] => Some st
      | kv :: r =>
          match find_field key fs (fst kv) with
          | None => None
          | Some (i, f) =>
              if negb (is_absent (nth i st MAbsent)) then None
              else match conf_maybe rc (f_nul (fst f)) (snd f) (snd kv) with
                   | Some v => seq_fields (set_nth i v st) r
                   | None => None
                   end
          end
      end.

    Lemma wf_field i f (st : list (maybe tv)) k : length st = length fs -> find_field key fs k = Some (i, f) -> wf (snd f) = true.
    Proof.
      intros Hl H. destruct (find_field_some key fs st k i f Hnd Hl H) as [Hin _].
      rewrite Forall_forall in Hwf. apply Hwf; auto.
    Qed.

    Lemma set_nth_length {A} i (x : A) l : length (set_nth i x l) = length l.
    Proof. revert i; induction l as [|y l IH]; destruct i; cbn; auto. Qed.

    Lemma fold_seq st m :
      length st = length fs ->
      sim (b_fold (fun st kv => b_field e q lvl rb false st (find_field key fs (fst kv)) (snd kv)) st m)
          (seq_fields st m).
    Proof.
      revert st; induction m as [|kv m IH]; intros st Hl; cbn; auto.
      destruct (find_field key fs (fst kv)) as [[i f]|] eqn:E; cbn; auto.
      destruct (negb (is_absent (nth i st MAbsent))) eqn:Ea; cbn; auto.
      pose proof (maybe_sim (f_nul (fst f)) (snd f) (snd kv) (wf_field i f st (fst kv) Hl E)) as Hm.
      destruct (b_maybe e q lvl rb (f_nul (fst f)) (snd f) (snd kv)) as [v| |];
        destruct (conf_maybe rc (f_nul (fst f)) (snd f) (snd kv)) as [v'|]; cbn in *; try contradiction; auto.
      subst v'. apply IH. now rewrite set_nth_length.
    Qed.

    (* the same run, read off the whole entry list at once *)
    Definition slot_free (st : list (maybe tv)) (kv : bytes * dm) : bool :=
      match assoc (fst kv) (kslots key fs st) with Some s => is_absent s | None => false end.

    Definition fields_spec (st : list (maybe tv)) (m : list (bytes * dm)) : option (list (maybe tv)) :=
      if nodupb (map fst m) && forallb (slot_free st) m then
        mapM (fun x => match assoc (key (fst (fst x))) m with
                       | None => Some (snd x)
                       | Some d => conf_maybe rc (f_nul (fst (fst x))) (snd (fst x)) d
                       end) (zip fs st)
      else None.

    Lemma mapM_id_zip (st : list (maybe tv)) :
      length st = length fs ->
      mapM (fun x : (finfo * ty) * maybe tv => Some (snd x)) (zip fs st) = Some st.
    Proof.
      revert st. generalize fs. induction fs0 as [|f l IH]; intros st H; destruct st; cbn in *; try discriminate; auto.
      rewrite IH; auto.
    Qed.

    Lemma same_key_same_field f g : In f fs -> In g fs -> key (fst f) = key (fst g) -> f = g.
    Proof.
      clear Hwf. revert Hnd. generalize fs. induction fs0 as [|h l IH]; intros Hnd' Hf Hg Hk; [contradiction|].
      inversion Hnd' as [|? ? Hni Hnd'']; subst.
      destruct Hf as [->|Hf], Hg as [->|Hg]; auto.
      - exfalso. apply Hni. rewrite Hk. now apply (in_map (fun f => key (fst f))).
      - exfalso. apply Hni. rewrite <- Hk. now apply (in_map (fun f => key (fst f))).
    Qed.

    Lemma forallb_split {A} (c p : A -> bool) l :
      forallb (fun x => if c x then false else p x) l = forallb (fun x => negb (c x)) l && forallb p l.
    Proof.
      induction l as [|x l IH]; cbn; auto. rewrite IH. destruct (c x); cbn; auto.
      destruct (p x); cbn; auto. now rewrite andb_false_r.
    Qed.

    Lemma forallb_negb_existsb k (l : list (bytes * dm)) :
      forallb (fun kv => negb (bytes_eqb k (fst kv))) l = negb (existsb (bytes_eqb k) (map fst l)).
    Proof. induction l as [|x l IH]; cbn; auto. rewrite IH. now rewrite negb_orb. Qed.

    Lemma seq_spec m : forall st, length st = length fs -> seq_fields st m = fields_spec st m.
    Proof.
      induction m as [|[k d] m IH]; intros st Hl.
      - cbn. unfold fields_spec. cbn. symmetry. now apply mapM_id_zip.
      - cbn [seq_fields fst snd].
        destruct (find_field key fs k) as [[i f]|] eqn:E.
        2:{ unfold fields_spec. cbn [map fst forallb]. unfold slot_free at 1. cbn [fst].
            rewrite (find_field_none key fs st k E). cbn. now rewrite andb_false_r. }
        destruct (find_field_some key fs st k i f Hnd Hl E) as [Hin [Hk [Hslot Hput]]].
        destruct (is_absent (nth i st MAbsent)) eqn:Ea; cbn [negb].
        2:{ unfold fields_spec. cbn [map fst forallb]. unfold slot_free at 1. cbn [fst].
            rewrite Hslot, Ea. cbn. now rewrite andb_false_r. }
        destruct (conf_maybe rc (f_nul (fst f)) (snd f) d) as [v|] eqn:Ev.
        + rewrite Hput, IH by (now apply put_length).
          pose proof (maybe_not_absent _ _ _ _ Ev) as Hv.
          unfold fields_spec.
          (* the guards agree *)
          assert (G : nodupb (map fst m) && forallb (slot_free (put key fs k v st)) m =
                      nodupb (map fst ((k, d) :: m)) && forallb (slot_free st) ((k, d) :: m)).
          { cbn [map fst forallb nodupb]. unfold slot_free at 2. cbn [fst]. rewrite Hslot, Ea.
            assert (F : forallb (slot_free (put key fs k v st)) m =
                        forallb (fun kv => negb (bytes_eqb k (fst kv))) m && forallb (slot_free st) m).
            { rewrite <- forallb_split. apply sch_forallb_ext. intros kv _. unfold slot_free.
              rewrite kslots_put by auto. rewrite assoc_map_upd.
              destruct (assoc (fst kv) (kslots key fs st)); destruct (bytes_eqb k (fst kv)); auto. }
            rewrite F, forallb_negb_existsb.
            destruct (existsb (bytes_eqb k) (map fst m)), (nodupb (map fst m)), (forallb (slot_free st) m); reflexivity. }
          rewrite G.
          destruct (nodupb (map fst ((k, d) :: m)) && forallb (slot_free st) ((k, d) :: m)) eqn:Eg; auto.
          (* the slots agree *)
          assert (Hnk : assoc k m = None).
          { cbn [map fst nodupb] in Eg. apply andb_true_iff in Eg as [Eg _]. apply andb_true_iff in Eg as [Eg _].
            apply negb_true_iff in Eg. apply assoc_None. intros Hin'. apply existsb_eqb_In in Hin'. congruence. }
          unfold put, kslots.
          assert (Hz : zip fs (map (fun x => if bytes_eqb k (fst x) then v else snd x)
                                   (zip (map (fun f0 => key (fst f0)) fs) st)) =
                       map (fun x => (fst x, if bytes_eqb k (key (fst (fst x))) then v else snd x)) (zip fs st)).
          { clear -Hl. revert st Hl. induction fs as [|g l IHl]; intros st Hl; destruct st; cbn in *; try discriminate; auto.
            f_equal. apply IHl. lia. }
          rewrite Hz. clear Hz.
          assert (Hsub : forall x, In x (zip fs st) -> In (fst x) fs).
          { clear. revert st. induction fs as [|g l IHl]; intros st x; destruct st; cbn; try contradiction.
            intros [<-|H]; [now left|right; eauto]. }
          revert Hsub. generalize (zip fs st). intros l Hsub.
          induction l as [|x l IHl]; cbn [mapM map]; auto.
          rewrite IHl by (intros; apply Hsub; now right).
          cbn [fst snd assoc].
          destruct (bytes_eqb k (key (fst (fst x)))) eqn:Ek.
          * apply sch_bytes_eqb_eq in Ek.
            assert (fst x = f) by (apply same_key_same_field; auto; [apply Hsub; now left|congruence]).
            rewrite <- Ek, sch_bytes_eqb_refl, Hnk. subst f. rewrite Ev. reflexivity.
          * rewrite sch_bytes_eqb_sym, Ek. reflexivity.
        + unfold fields_spec.
          destruct (nodupb (map fst ((k, d) :: m)) && forallb (slot_free st) ((k, d) :: m)) eqn:Eg; auto.
          (* the field of key k fails in the specification too *)
          symmetry.
          assert (Hx : exists s, In (f, s) (zip fs st)).
          { clear -Hin Hl. revert st Hl. induction fs as [|g l IHl]; intros st Hl; [contradiction|].
            destruct st as [|s st]; [discriminate|]. destruct Hin as [->|Hin].
            - exists s. now left.
            - destruct (IHl Hin st ltac:(cbn in Hl; lia)) as [s' Hs']. exists s'. now right. }
          destruct Hx as [s Hx]. revert Hx. generalize (zip fs st). intros l Hx.
          induction l as [|x l IHl]; [contradiction|]. cbn [mapM].
          destruct Hx as [->|Hx].
          * cbn [fst snd assoc]. rewrite Hk, sch_bytes_eqb_refl, Ev. reflexivity.
          * rewrite (IHl Hx). destruct (match assoc _ _ with Some _ => _ | None => _ end); reflexivity.
    Qed.

    (* from the assembler's start state, then Finish *)
    Lemma slot_free_st0 kv :
      slot_free (st0 fs) kv = existsb (fun f => bytes_eqb (key (fst f)) (fst kv)) fs.
    Proof.
      unfold slot_free, st0, kslots. induction fs as [|f l IH]; cbn; auto.
      rewrite (sch_bytes_eqb_sym (fst kv)). destruct (bytes_eqb (key (fst f)) (fst kv)); cbn; auto.
      apply IH.
      - inversion Hnd; auto.
      - inversion Hwf; auto.
    Qed.
  End Fields.

  Lemma st0_length fs : length (st0 fs) = length fs.
  Proof. unfold st0. now rewrite map_length. Qed.

  (* whatever ran the entries as [seq_fields] says, Finish then agrees with the specification *)
  Lemma fields_finish key fs m r :
    NoDup (map (fun f => key (fst f)) fs) -> Forall (fun f => wf (snd f) = true) fs ->
    sim r (seq_fields key fs (st0 fs) m) ->
    sim (bbind r (b_finish fs)) (conf_fields rc key fs m).
  Proof.
    intros Hnd Hwf H1.
    rewrite seq_spec in H1 by (auto using st0_length).
    unfold conf_fields. unfold fields_spec in H1.
    assert (Hg : forallb (slot_free key fs (st0 fs)) m =
                 forallb (fun kv => existsb (fun f => bytes_eqb (key (fst f)) (fst kv)) fs) m).
    { apply sch_forallb_ext. intros kv _. now apply slot_free_st0. }
    rewrite Hg in H1.
    destruct (nodupb (map fst m) && forallb _ m).
    2:{ destruct r; cbn in *; auto; contradiction. }
    (* compare the two mapM, field by field *)
    assert (Hm : forall vs,
      mapM (fun x : (finfo * ty) * maybe tv =>
              match assoc (key (fst (fst x))) m with
              | None => Some (snd x)
              | Some d => conf_maybe rc (f_nul (fst (fst x))) (snd (fst x)) d
              end) (zip fs (st0 fs)) = Some vs ->
      (forallb (fun x => f_opt (fst (fst x)) || negb (is_absent (snd x))) (zip fs vs) = true ->
       mapM (fun f => match assoc (key (fst f)) m with
                      | None => if f_opt (fst f) then Some MAbsent else None
                      | Some d => conf_maybe rc (f_nul (fst f)) (snd f) d
                      end) fs = Some vs) /\
      (forallb (fun x => f_opt (fst (fst x)) || negb (is_absent (snd x))) (zip fs vs) = false ->
       mapM (fun f => match assoc (key (fst f)) m with
                      | None => if f_opt (fst f) then Some MAbsent else None
                      | Some d => conf_maybe rc (f_nul (fst f)) (snd f) d
                      end) fs = None)).
    { unfold st0. clear H1 Hg Hnd Hwf. induction fs as [|f l IH]; intros vs; cbn [map zip mapM].
      - intros H; inversion H; subst. cbn. split; auto. discriminate.
      - cbn [fst snd].
        destruct (assoc (key (fst f)) m) as [d|] eqn:Ea.
        + destruct (conf_maybe rc (f_nul (fst f)) (snd f) d) as [v|] eqn:Ev; [|discriminate].
          destruct (mapM _ (zip l _)) as [vs'|] eqn:Em; [|discriminate].
          intros H; inversion H; subst. destruct (IH vs' eq_refl) as [I1 I2].
          cbn [zip forallb fst snd]. rewrite (maybe_not_absent _ _ _ _ Ev). cbn [negb]. rewrite orb_true_r. cbn [andb].
          split; intros Hc; [rewrite (I1 Hc)|rewrite (I2 Hc)]; reflexivity.
        + destruct (mapM _ (zip l _)) as [vs'|] eqn:Em; [|discriminate].
          intros H; inversion H; subst. destruct (IH vs' eq_refl) as [I1 I2].
          cbn [zip forallb fst snd is_absent negb]. rewrite orb_false_r.
          destruct (f_opt (fst f)); cbn [andb].
          * split; intros Hc; [rewrite (I1 Hc)|rewrite (I2 Hc)]; reflexivity.
          * split; [discriminate|reflexivity]. }
    destruct r as [vs| |]; cbn in H1.
    - destruct (mapM _ (zip fs (st0 fs))) as [vs'|] eqn:Em; [|contradiction]. subst vs'.
      destruct (Hm vs eq_refl) as [M1 M2]. cbn [bbind]. unfold b_finish.
      destruct (forallb _ (zip fs vs)) eqn:Ec.
      + rewrite (M1 eq_refl). cbn. reflexivity.
      + rewrite (M2 eq_refl). cbn. exact I.
    - destruct (mapM _ (zip fs (st0 fs))) as [vs'|] eqn:Em; [contradiction|]. cbn.
      (* the specification fails as well: some present field does not conform *)
      assert (Hn : mapM (fun f => match assoc (key (fst f)) m with
                      | None => if f_opt (fst f) then Some MAbsent else None
                      | Some d => conf_maybe rc (f_nul (fst f)) (snd f) d
                      end) fs = None).
      { unfold st0 in Em. clear -Em. induction fs as [|f l IH]; cbn [map zip mapM] in *; [discriminate|].
        cbn [fst snd] in Em.
        destruct (assoc (key (fst f)) m) as [d|].
        - destruct (conf_maybe rc (f_nul (fst f)) (snd f) d); auto.
          destruct (mapM _ (zip l _)) eqn:E2; [discriminate|]. rewrite IH; auto.
        - destruct (mapM _ (zip l _)) eqn:E2; [discriminate|]. rewrite IH; auto.
          destruct (f_opt (fst f)); auto. }
      rewrite Hn. exact I.
    - contradiction.
  Qed.

  (* ---------------------------------------------------------------- lists *)
  Lemma list_sim nul c l :
    wf c = true -> sim (b_mapM (b_maybe e q lvl rb nul c) l) (mapM (conf_maybe rc nul c) l).
  Proof.
    intros Hc. induction l as [|d l IH]; cbn; auto.
    pose proof (maybe_sim nul c d Hc) as Hm.
    destruct (b_maybe e q lvl rb nul c d); destruct (conf_maybe rc nul c d); cbn in *; try contradiction; auto.
    subst. destruct (b_mapM _ l); destruct (mapM _ l); cbn in *; try contradiction; subst; auto.
  Qed.

  (* ---------------------------------------------------------------- typed maps *)
  Definition map_entry_spec nul c (kv : bytes * dm) : option (bytes * maybe tv) :=
    match conf_maybe rc nul c (snd kv) with Some v => Some (fst kv, v) | None => None end.

  Lemma map_fold_sim nul c m : wf c = true -> forall st,
    sim (b_fold (b_map_entry e q lvl rb nul c) st m)
        (if nodupb (map fst m) &&
            forallb (fun kv => negb (existsb (fun x => bytes_eqb (fst x) (fst kv)) st)) m
         then match mapM (map_entry_spec nul c) m with Some vs => Some (st ++ vs) | None => None end
         else None).
  Proof.
    intros Hc. destruct Hs as (_&Hd&_&_&_&_&_&_&_&_&_&_&_&_&_&Hgd).
    induction m as [|[k d] m IH]; intros st.
    - cbn. now rewrite app_nil_r.
    - cbn [b_fold map fst nodupb forallb]. unfold b_map_entry at 1. cbn [fst snd].
      destruct (existsb (fun x => bytes_eqb (fst x) k) st) eqn:Ex.
      + rewrite Hd, Hgd. cbn. rewrite andb_false_r. exact I.
      + cbn [negb andb].
        pose proof (maybe_sim nul c d Hc) as Hm.
        destruct (b_maybe e q lvl rb nul c d) as [v| |]; destruct (conf_maybe rc nul c d) as [v'|] eqn:Ev;
          cbn in Hm; try contradiction.
        * subst v'. cbn [bbind]. specialize (IH (st ++ [(k, v)])).
          assert (F : forallb (fun kv => negb (existsb (fun x => bytes_eqb (fst x) (fst kv)) (st ++ [(k, v)]))) m =
                      negb (existsb (bytes_eqb k) (map fst m)) &&
                      forallb (fun kv => negb (existsb (fun x => bytes_eqb (fst x) (fst kv)) st)) m).
          { clear. induction m as [|kv m IH]; cbn; auto. rewrite IH, existsb_app. cbn. rewrite orb_false_r.
            rewrite negb_orb. rewrite (sch_bytes_eqb_sym k (fst kv)).
            destruct (existsb _ st), (bytes_eqb (fst kv) k), (existsb (bytes_eqb k) (map fst m)); cbn; auto;
              try now rewrite ?andb_false_r. }
          rewrite F in IH. cbn [mapM]. unfold map_entry_spec at 1. cbn [fst snd]. rewrite Ev.
          destruct (existsb (bytes_eqb k) (map fst m)), (nodupb (map fst m)),
            (forallb (fun kv => negb (existsb (fun x => bytes_eqb (fst x) (fst kv)) st)) m);
            cbn [negb andb] in *; try exact IH.
          destruct (mapM (map_entry_spec nul c) m); [rewrite <- app_assoc in IH|]; exact IH.
        * cbn [bbind mapM]. unfold map_entry_spec at 1. cbn [fst snd]. rewrite Ev.
          destruct (negb _ && nodupb _ && forallb _ m); exact I.
  Qed.

  Lemma map_sim nul c m : wf c = true ->
    sim (bmap VMap (b_fold (b_map_entry e q lvl rb nul c) [] m))
        (if nodupb (map fst m) then
           match mapM (fun kv => match conf_maybe rc nul c (snd kv) with
                                 | Some v => Some (fst kv, v) | None => None end) m with
           | Some vs => Some (VMap vs) | None => None end
         else None).
  Proof.
    intros Hc. pose proof (map_fold_sim nul c m Hc []) as H.
    assert (F : forallb (fun kv : bytes * dm => negb (existsb (fun x : bytes * maybe tv => bytes_eqb (fst x) (fst kv)) [])) m = true).
    { clear. induction m; cbn; auto. }
    rewrite F, andb_true_r in H. cbn [app] in H. fold (map_entry_spec nul c).
    destruct (nodupb (map fst m)).
    - destruct (b_fold _ [] m); destruct (mapM (map_entry_spec nul c) m); cbn in *; try contradiction; subst; auto.
    - destruct (b_fold _ [] m); cbn in *; try contradiction; auto.
  Qed.

  (* ---------------------------------------------------------------- tuples *)
  Lemma finish_st0 fs :
    sim (b_finish fs (st0 fs))
        (match conf_tuple rc fs [] with Some vs => Some (VStruct vs) | None => None end).
  Proof.
    unfold b_finish, st0.
    assert (H : forall fs, (forallb (fun x : (finfo * ty) * maybe tv => f_opt (fst (fst x)) || negb (is_absent (snd x)))
                                    (zip fs (map (fun _ => MAbsent) fs)) = true ->
                            conf_tuple rc fs [] = Some (map (fun _ => MAbsent) fs)) /\
                           (forallb (fun x : (finfo * ty) * maybe tv => f_opt (fst (fst x)) || negb (is_absent (snd x)))
                                    (zip fs (map (fun _ => MAbsent) fs)) = false ->
                            conf_tuple rc fs [] = None)).
    { clear. intros fs0. induction fs0 as [|f l [I1 I2]]; cbn; [split; [auto|discriminate]|].
      rewrite orb_false_r. destruct (f_opt (fst f)); cbn.
      - split; intros H; [rewrite (I1 H)|rewrite (I2 H)]; reflexivity.
      - split; [discriminate|reflexivity]. }
    destruct (H fs) as [H1 H2]. destruct (forallb _ _) eqn:E.
    - rewrite (H1 eq_refl). cbn. reflexivity.
    - rewrite (H2 eq_refl). cbn. exact I.
  Qed.

  Lemma b_tuple_nil fs : b_tuple e q lvl rb fs [] = BOk (st0 fs).
  Proof. destruct fs; reflexivity. Qed.
  Lemma b_tuple_cons f fr d l :
    b_tuple e q lvl rb (f :: fr) (d :: l) =
    bbind (b_maybe e q lvl rb (f_nul (fst f)) (snd f) d) (fun v =>
    bbind (b_tuple e q lvl rb fr l) (fun vs => BOk (v :: vs))).
  Proof. reflexivity. Qed.

  Lemma tuple_sim l : forall fs, Forall (fun f => wf (snd f) = true) fs ->
    sim (bbind (b_tuple e q lvl rb fs l) (b_finish fs))
        (match conf_tuple rc fs l with Some vs => Some (VStruct vs) | None => None end).
  Proof.
    induction l as [|d l IH]; intros fs Hwf.
    - rewrite b_tuple_nil. cbn [bbind]. apply finish_st0.
    - destruct fs as [|f fr]; [cbn; exact I|].
      inversion Hwf as [|? ? Hf Hfr]; subst.
      rewrite b_tuple_cons. cbn [conf_tuple].
      pose proof (maybe_sim (f_nul (fst f)) (snd f) d Hf) as Hm.
      destruct (b_maybe e q lvl rb (f_nul (fst f)) (snd f) d) as [v| |];
        destruct (conf_maybe rc (f_nul (fst f)) (snd f) d) as [v'|] eqn:Ev; cbn in Hm; try contradiction;
        cbn [bbind]; auto.
      subst v'. specialize (IH fr Hfr).
      destruct (b_tuple e q lvl rb fr l) as [vs| |]; cbn [bbind] in *.
      + unfold b_finish in *. cbn [zip forallb fst snd].
        rewrite (maybe_not_absent _ _ _ _ Ev). cbn [negb]. rewrite orb_true_r. cbn [andb].
        destruct (forallb _ (zip fr vs)); destruct (conf_tuple rc fr l); cbn in *; try contradiction; auto.
        inversion IH; subst. reflexivity.
      + destruct (conf_tuple rc fr l); cbn in *; try contradiction; auto.
      + contradiction.
  Qed.

  (* ---------------------------------------------------------------- listpairs *)
  Lemma bbind_ret {A} (r : bres A) : bbind r (fun a => BOk a) = r.
  Proof. destruct r; reflexivity. Qed.

  Lemma pair_some fs st x k d :
    pair_of x = Some (k, d) ->
    b_pair e q lvl rb fs st x = b_field e q lvl rb false st (find_field f_name fs k) d.
  Proof.
    destruct Hs as (_&_&_&_&_&Hld&Hls&Hlu&_).
    unfold pair_of. destruct x; try discriminate. destruct l as [|a l]; try discriminate.
    destruct a; try discriminate. destruct l as [|b l]; try discriminate. destruct l; try discriminate.
    intros H; inversion H; subst. unfold b_pair. rewrite Hld, Hlu.
    destruct (find_field f_name fs k) as [[i f]|]; [|reflexivity].
    apply bbind_ret.
  Qed.

  Lemma field_not_panic (st : list (maybe tv)) i f d :
    wf (snd f) = true -> b_field e q lvl rb false st (Some (i, f)) d <> BPanic.
  Proof.
    intros Hf. unfold b_field. destruct (negb _ && negb false); [discriminate|].
    pose proof (maybe_sim (f_nul (fst f)) (snd f) d Hf) as Hm.
    destruct (b_maybe e q lvl rb (f_nul (fst f)) (snd f) d); cbn in *; try discriminate.
    contradiction.
  Qed.

  Lemma pair_none fs st x :
    NoDup (map (fun f => f_name (fst f)) fs) -> Forall (fun f => wf (snd f) = true) fs ->
    length st = length fs -> pair_of x = None -> exists c, b_pair e q lvl rb fs st x = BErr c.
  Proof.
    intros Hnd Hwf Hl. destruct Hs as (_&_&_&_&_&Hld&Hls&Hlu&_).
    unfold pair_of, b_pair. rewrite Hld, Hls, Hlu.
    destruct x; try (intros _; eexists; reflexivity).
    destruct l as [|a l]; [intros _; eexists; reflexivity|].
    destruct a; try (intros _; eexists; reflexivity).
    destruct l as [|b l]; [intros _; eexists; reflexivity|].
    destruct l as [|c l]; [discriminate|]. intros _.
    destruct (find_field f_name fs s) as [[i f]|] eqn:E; [|eexists; reflexivity].
    pose proof (field_not_panic st i f b (wf_field f_name fs Hnd Hwf i f st s Hl E)) as Hp.
    destruct (b_field e q lvl rb false st (Some (i, f)) b); cbn; try (eexists; reflexivity). contradiction.
  Qed.

  Lemma pairs_fold fs l :
    NoDup (map (fun f => f_name (fst f)) fs) -> Forall (fun f => wf (snd f) = true) fs ->
    forall st, length st = length fs ->
    sim (b_fold (b_pair e q lvl rb fs) st l)
        (match mapM pair_of l with Some m => seq_fields f_name fs st m | None => None end).
  Proof.
    intros Hnd Hwf. induction l as [|x l IH]; intros st Hl; [cbn; reflexivity|].
    cbn [b_fold mapM].
    destruct (pair_of x) as [[k d]|] eqn:Ep.
    - rewrite (pair_some fs st x k d Ep).
      assert (Hstep : sim (bbind (b_field e q lvl rb false st (find_field f_name fs k) d)
                                 (fun st' => b_fold (b_pair e q lvl rb fs) st' l))
                          (match mapM pair_of l with
                           | Some m => seq_fields f_name fs st ((k, d) :: m) | None => None end)).
      { destruct (find_field f_name fs k) as [[i f]|] eqn:E.
        - pose proof (wf_field f_name fs Hnd Hwf i f st k Hl E) as Hf.
          unfold b_field. cbn [seq_fields fst snd]. rewrite E.
          destruct (negb (is_absent (nth i st MAbsent))) eqn:Ea; cbn [andb negb bbind].
          + destruct (mapM pair_of l); exact I.
          + pose proof (maybe_sim (f_nul (fst f)) (snd f) d Hf) as Hm.
            destruct (b_maybe e q lvl rb (f_nul (fst f)) (snd f) d) as [v| |];
              destruct (conf_maybe rc (f_nul (fst f)) (snd f) d) as [v'|]; cbn in Hm; try contradiction; cbn [bbind].
            * subst v'. apply IH. now rewrite set_nth_length.
            * destruct (mapM pair_of l); exact I.
        - cbn [b_field bbind seq_fields fst]. rewrite E. destruct (mapM pair_of l); exact I. }
      destruct (mapM pair_of l); exact Hstep.
    - destruct (pair_none fs st x Hnd Hwf Hl Ep) as [c Hc]. rewrite Hc. cbn. exact I.
  Qed.

  (* ---------------------------------------------------------------- stringjoin *)
  Lemma join_sim fs : forall parts, Forall (fun f => wf (snd f) = true) fs ->
    sim (b_join rb fs parts) (conf_join rc fs parts).
  Proof.
    induction fs as [|f fr IH]; intros parts Hwf; destruct parts as [|p pr]; cbn; auto.
    inversion Hwf as [|? ? Hf Hfr]; subst.
    pose proof (Hrec (snd f) false (DString p) Hf) as Hm.
    destruct (rb (snd f) false (DString p)); destruct (rc (snd f) (DString p)); cbn in *; try contradiction; auto.
    subst. specialize (IH pr Hfr).
    destruct (b_join rb fr pr); destruct (conf_join rc fr pr); cbn in *; try contradiction; subst; auto.
  Qed.

  Lemma conf_join_length fs : forall parts vs, conf_join rc fs parts = Some vs -> length parts = length fs.
  Proof.
    induction fs as [|f fr IH]; intros parts vs; destruct parts as [|p pr]; cbn; try discriminate; auto.
    destruct (rc (snd f) (DString p)); try discriminate.
    destruct (conf_join rc fr pr) eqn:E; try discriminate. intros _. f_equal. eapply IH; eauto.
  Qed.

  (* ---------------------------------------------------------------- unions *)
  Lemma member_wf {A} (ms : list (A * ty)) p i m :
    Forall (fun x => wf (snd x) = true) ms -> find_idx p ms = Some (i, m) -> wf (snd m) = true.
  Proof.
    intros Hwf H. apply find_idx_some in H as [Hn _]. apply nth_error_In in Hn.
    rewrite Forall_forall in Hwf. auto.
  Qed.

  Lemma union_sim ms (p : bytes -> minfo -> bool) m :
    Forall (fun x => wf (snd x) = true) ms ->
    sim (bbind (b_fold (b_union_entry e q rb ms p) None m) b_union_finish)
        (match m with [(k, x)] => conf_member rc ms (fun mi => p k mi) x | _ => None end).
  Proof.
    intros Hwf. destruct Hs as (_&_&Hu&_).
    destruct m as [|[k x] m]; [cbn; exact I|].
    cbn [b_fold]. unfold b_union_entry at 1. cbn [fst snd]. unfold conf_member.
    destruct (find_idx (fun m0 => p k (fst m0)) ms) as [[i mi]|] eqn:E.
    2:{ cbn. destruct m; exact I. }
    pose proof (Hrec (snd mi) false x (member_wf ms _ i mi Hwf E)) as Hm.
    destruct (rb (snd mi) false x) as [v| |]; destruct (rc (snd mi) x) as [v'|]; cbn in Hm; try contradiction; cbn [bbind].
    - subst v'. destruct m as [|[k2 x2] m].
      + cbn. reflexivity.
      + cbn [b_fold]. unfold b_union_entry at 1. cbn [fst snd].
        destruct (find_idx (fun m0 => p k2 (fst m0)) ms) as [[i2 m2]|]; cbn; [rewrite Hu; cbn|]; exact I.
    - destruct m; exact I.
  Qed.

  Lemma find_idx_ext {A} (p p' : A -> bool) l :
    (forall x, In x l -> p x = p' x) -> find_idx p l = find_idx p' l.
  Proof.
    induction l as [|a l IH]; cbn; auto. intros H.
    rewrite (H a (or_introl eq_refl)), IH; auto.
  Qed.

  Lemma p_disc_find ms k :
    find_idx (fun m => p_disc e q ms k (fst m)) ms = find_idx (fun m => bytes_eqb (m_disc (fst m)) k) ms.
  Proof.
    destruct Hs as (_&_&_&_&Ha&_).
    apply find_idx_ext. intros x Hx. unfold p_disc. rewrite Ha. cbn [andb].
    destruct (existsb (fun m' => bytes_eqb (m_disc (fst m')) k) ms) eqn:E; auto.
    symmetry. destruct (bytes_eqb (m_disc (fst x)) k) eqn:E2; auto.
    assert (existsb (fun m' => bytes_eqb (m_disc (fst m')) k) ms = true) by (apply existsb_exists; eauto).
    congruence.
  Qed.

  (* ---------------------------------------------------------------- scalars *)
  Lemma in_int8_64 z : in_int8 z = true -> in_int64 z = true.
  Proof.
    unfold in_int8, in_int64, two63z. rewrite !andb_true_iff, !Z.leb_le, !Z.ltb_lt. lia.
  Qed.

  Lemma scalar_sim t d :
    kind_eqb (kind_of d) KNull = false ->
    sim (b_scalar e q t d) (conf_scalar t d).
  Proof.
    intros Hk. destruct Hs as (_&_&_&_&_&_&_&_&_&_&_&Hn&_).
    destruct t; destruct d; cbn [b_scalar conf_scalar kind_of kind_eqb negb andb] in *; auto; try discriminate;
      try (destruct (dm_wf _); cbn; auto; fail);
      try (destruct w; cbn; exact I); try (cbn; auto; fail).
    unfold b_int. rewrite Hn.
    destruct w; cbn.
    - destruct (in_int64 z); cbn; auto.
    - destruct (in_int8 z) eqn:E8.
      + rewrite (in_int8_64 z E8). cbn. auto.
      + destruct (in_int64 z); cbn; auto.
  Qed.

  (* ---------------------------------------------------------------- well-formedness, one level *)
  Lemma wf_children_struct r fs : wf (TStruct r fs) = true ->
    wf_struct_local r fs = true /\ Forall (fun f => wf (snd f) = true) fs.
  Proof.
    cbn [wf]. rewrite andb_true_iff. intros [H1 H2]. split; auto.
    clear H1. induction fs as [|f l IH]; [constructor|].
    apply andb_true_iff in H2 as [Ha Hb]. constructor; auto.
  Qed.

  Lemma wf_children_union r ms : wf (TUnion r ms) = true ->
    wf_union_local r ms = true /\ Forall (fun m => wf (snd m) = true) ms.
  Proof.
    cbn [wf]. rewrite andb_true_iff. intros [H1 H2]. split; auto.
    clear H1. induction ms as [|f l IH]; [constructor|].
    apply andb_true_iff in H2 as [Ha Hb]. constructor; auto.
  Qed.


  Lemma fields_sim key fs m :
    NoDup (map (fun f => key (fst f)) fs) -> Forall (fun f => wf (snd f) = true) fs ->
    sim (bbind (b_fold (fun st kv => b_field e q lvl rb false st (find_field key fs (fst kv)) (snd kv))
                       (st0 fs) m) (b_finish fs))
        (conf_fields rc key fs m).
  Proof.
    intros Hnd Hwf. apply fields_finish; auto. apply fold_seq; auto using st0_length.
  Qed.
  (* ---------------------------------------------------------------- the step *)
  Lemma step_sim t ptr d :
    wf t = true -> sim (b_step e q lvl rb t ptr d) (conf_step lvl rc t d).
  Proof.
    intros Hwf. unfold b_step, conf_step.
    destruct (kind_eqb (kind_of d) KNull) eqn:Hk.
    { destruct d; try discriminate. cbn. exact I. }
    assert (Hd : match d with DNull => False | _ => True end) by (destruct d; auto; discriminate).
    destruct t.
    1-7: (destruct d; try contradiction; apply scalar_sim; exact Hk).
    - (* list *)
      destruct d; try contradiction; try exact I.
      apply (sim_bmap _ _ VList). apply list_sim. exact Hwf.
    - (* map *)
      destruct d; try contradiction; try exact I.
      apply map_sim. exact Hwf.
    - (* struct *)
      destruct (wf_children_struct r fs Hwf) as [Hloc Hch].
      unfold wf_struct_local in Hloc. apply andb_true_iff in Hloc as [Hnames Hloc].
      apply nodupb_NoDup in Hnames.
      destruct lvl eqn:El.
      + destruct d; try contradiction; try (destruct r; exact I).
        destruct Hs as (Hdf&_). rewrite Hdf. rewrite <- El. destruct r; apply fields_sim; auto.
      + destruct r.
        * destruct d; try contradiction; try exact I.
          destruct Hs as (Hdf&_&_&Hra&_). rewrite Hdf.
          apply nodupb_NoDup in Hloc.
          assert (Hfs : forall k, find_serial e q fs k = find_field f_key fs k).
          { intros k. unfold find_serial. rewrite Hra. destruct (find_field f_key fs k); reflexivity. }
          rewrite <- El.
          assert (Hfold : forall st,
            b_fold (fun st kv => b_field e q lvl rb false st (find_serial e q fs (fst kv)) (snd kv)) st m =
            b_fold (fun st kv => b_field e q lvl rb false st (find_field f_key fs (fst kv)) (snd kv)) st m).
          { induction m as [|kv m IHm]; intros st; cbn; auto. rewrite Hfs.
            destruct (b_field _ _ _ _ _ _ _ _); cbn; auto. }
          rewrite Hfold. apply fields_sim; auto.
        * destruct d; try contradiction; try exact I.
          destruct Hs as (_&_&_&_&_&_&_&_&_&_&_&_&Hgt&_). rewrite Hgt. rewrite <- El.
          apply tuple_sim; auto.
        * destruct d; try contradiction; try exact I.
          pose proof (join_sim fs (split delim s) Hch) as Hj.
          destruct (Nat.eqb (length (split delim s)) (length fs)) eqn:Elen.
          -- destruct (b_join rb fs (split delim s)); destruct (conf_join rc fs (split delim s));
               cbn in *; try contradiction; subst; auto.
          -- destruct (conf_join rc fs (split delim s)) eqn:Ec; cbn; auto.
             apply conf_join_length in Ec. apply Nat.eqb_neq in Elen. contradiction.
        * destruct d; try contradiction; try exact I.
          pose proof (pairs_fold fs l Hnames Hch (st0 fs) (st0_length fs)) as Hp. rewrite <- El.
          destruct (mapM pair_of l) as [m|].
          -- apply fields_finish; auto.
          -- destruct (b_fold _ (st0 fs) l); cbn in *; try contradiction; auto.
    - (* union *)
      destruct (wf_children_union r ms Hwf) as [Hloc Hch].
      destruct lvl eqn:El.
      + destruct d; try contradiction; try (destruct r; exact I).
        pose proof (union_sim ms (p_name) m Hch) as Hu.
        destruct r; exact Hu.
      + destruct r.
        * destruct d; try contradiction; try exact I.
          pose proof (union_sim ms (p_disc e q ms) m Hch) as Hu.
          destruct m as [|[k x] [|? ?]]; try exact Hu.
          unfold conf_member in *. rewrite p_disc_find in Hu. exact Hu.
        * unfold conf_member.
          destruct (find_idx (fun m => kind_eqb (m_kind (fst m)) (kind_of d)) ms) as [[i mi]|] eqn:E.
          2:{ destruct d; try contradiction; exact I. }
          destruct Hs as (_&_&_&_&_&_&_&_&_&_&Hnp&_). rewrite Hnp, andb_false_r.
          pose proof (Hrec (snd mi) false d (member_wf ms _ i mi Hch E)) as Hm.
          assert (G : sim (bmap (VUnion i) (rb (snd mi) false d))
                          (match rc (snd mi) d with Some v => Some (VUnion i v) | None => None end)).
          { destruct (rb (snd mi) false d); destruct (rc (snd mi) d); cbn in *; try contradiction; subst; auto. }
          destruct d; try contradiction; exact G.
        * destruct d; try contradiction; try exact I.
          destruct Hs as (_&_&_&_&_&_&_&_&_&_&Hnp&_&_&_&Hsp&_). rewrite Hsp. cbn [andb].
          destruct (sp_parse delim ms s) as [[[i mi] rest]|] eqn:E; [|exact I].
          rewrite Hnp, andb_false_r.
          assert (Hmw : wf (snd mi) = true).
          { unfold sp_parse in E. destruct delim.
            - destruct (find_idx _ ms) as [[i' m']|] eqn:E2; [|discriminate]. inversion E; subst.
              eapply member_wf; eauto.
            - destruct (split_first _ _ _) as [[p0 r0]|]; [|discriminate].
              destruct (find_idx _ ms) as [[i' m']|] eqn:E2; [|discriminate]. inversion E; subst.
              eapply member_wf; eauto. }
          pose proof (Hrec (snd mi) false (DString rest) Hmw) as Hm.
          destruct (rb (snd mi) false _); destruct (rc (snd mi) _); cbn in *; try contradiction; subst; auto.
    - (* enum *)
      destruct Hs as (_&_&_&_&_&_&_&_&Hea&Het&_).
      destruct lvl eqn:El; destruct d; try contradiction; try exact I.
      + rewrite Het. cbn [orb]. destruct (existsb _ es); cbn; auto.
      + destruct int_repr; [|exact I].
        destruct (find (fun x => Z.eqb (e_int x) z) es); cbn; auto.
      + destruct int_repr; [exact I|].
        rewrite Hea. cbn [andb]. destruct (find (fun x => bytes_eqb (e_str x) s) es); cbn; auto.
  Qed.
End Step.

(* ================================================================== closing the recursion *)
Theorem build_conf e q lvl : strict e q ->
  forall n t ptr d, wf t = true -> sim (build_f e q lvl n t ptr d) (conf_f lvl n t d).
Proof.
  intros Hs. induction n as [|n IH]; intros t ptr d Hwf.
  - cbn. exact I.
  - unfold build_f, conf_f. cbn [fuel_rec]. apply step_sim; auto.
Qed.

Lemma sim_iff {A} (r : bres A) (o : option A) v : sim r o -> (r = BOk v <-> o = Some v).
Proof.
  destruct r, o; cbn; intros H; try contradiction; subst; split; intros E; try discriminate; inversion E; auto.
Qed.

Lemma sim_no_panic {A} (r : bres A) (o : option A) : sim r o -> r <> BPanic.
Proof. destruct r; cbn; try discriminate. intros []. Qed.

Theorem accept_iff e q lvl t d v : strict e q -> wf t = true ->
  (build e q lvl t d = BOk v <-> conf_f lvl (fuel_of t) t d = Some v).
Proof. intros Hs Hwf. apply sim_iff. apply build_conf; auto. Qed.

Theorem no_panic e q lvl t d : strict e q -> wf t = true -> build e q lvl t d <> BPanic.
Proof. intros Hs Hwf. eapply sim_no_panic. apply build_conf; auto. Qed.

(* a rejection is reported as an error *)
Theorem reject_is_error e q lvl t d : strict e q -> wf t = true ->
  conf_f lvl (fuel_of t) t d = None -> exists c, build e q lvl t d = BErr c.
Proof.
  intros Hs Hwf Hn. pose proof (build_conf e q lvl Hs (fuel_of t) t false d Hwf) as H.
  unfold build. rewrite Hn in H. destruct (build_f e q lvl (fuel_of t) t false d); cbn in H; try contradiction.
  eexists; reflexivity.
Qed.
