(* Proofs/BytesFacts.v — facts about Base/Bytes.v: big-endian helpers, take, key orders, sorting. *)
Require Import IP.Base.Bytes.
From Coq Require Import ZifyN ZifyNat ZifyBool Permutation Sorted.
Ltac Zify.zify_post_hook ::= Z.div_mod_to_equations.
Open Scope N_scope.

(* ---------------------------------------------------------------- be / unbe *)

Lemma unbe_app a b acc : unbe (a ++ b) acc = unbe b (unbe a acc).
Proof. revert acc; induction a as [|x a IH]; intros; cbn; auto. Qed.

Lemma be_length k v : length (be k v) = k.
Proof. revert v; induction k as [|k IH]; intros; cbn [be]; auto. rewrite app_length, IH. cbn. lia. Qed.

Lemma unbe_be k v acc : v < 256 ^ N.of_nat k -> unbe (be k v) acc = acc * 256 ^ N.of_nat k + v.
Proof.
  revert v acc; induction k as [|k IH]; intros v acc Hv.
  - cbn in *. lia.
  - cbn [be]. rewrite unbe_app. rewrite IH.
    + cbn [unbe]. rewrite Nat2N.inj_succ, N.pow_succ_r'.
      pose proof (N.div_mod v 256 ltac:(lia)). lia.
    + rewrite Nat2N.inj_succ, N.pow_succ_r' in Hv.
      apply N.div_lt_upper_bound; lia.
Qed.

Lemma be_ok k v : Forall (fun b => b < 256) (be k v).
Proof.
  revert v; induction k as [|k IH]; intros; cbn [be]; [constructor|].
  apply Forall_app; split; [apply IH|]. constructor; [|constructor].
  apply N.mod_lt. lia.
Qed.

(* unbe of k well-formed bytes is below 256^k (for acc = 0) *)
Lemma unbe_bound bs acc : Forall (fun b => b < 256) bs ->
  unbe bs acc < (acc + 1) * 256 ^ N.of_nat (length bs).
Proof.
  revert acc; induction bs as [|b bs IH]; intros acc H; cbn [unbe length].
  - cbn. lia.
  - inversion H as [|? ? Hb Hr]; subst. specialize (IH (acc * 256 + b) Hr).
    rewrite Nat2N.inj_succ, N.pow_succ_r'. nia.
Qed.

(* be inverts unbe on well-formed bytes *)
Lemma be_unbe bs : Forall (fun b => b < 256) bs -> be (length bs) (unbe bs 0) = bs.
Proof.
  (* generalise: be k (unbe bs acc) over the last k bytes *)
  assert (G : forall l acc, Forall (fun b => b < 256) l ->
            unbe l acc / 256 ^ N.of_nat (length l) = acc /\
            be (length l) (unbe l acc) = l).
  { intros l; induction l as [|b r IH] using rev_ind; intros acc H.
    - cbn. split; [apply N.div_1_r|reflexivity].
    - apply Forall_app in H as [Hr Hb]. inversion Hb as [|? ? Hb' _]; subst.
      rewrite unbe_app. cbn [unbe]. rewrite app_length. cbn [length].
      replace (length r + 1)%nat with (S (length r)) by lia.
      destruct (IH acc Hr) as [IH1 IH2].
      split.
      + rewrite Nat2N.inj_succ, N.pow_succ_r'.
        rewrite <- N.div_div by lia.
        replace ((unbe r acc * 256 + b) / 256) with (unbe r acc) by lia. exact IH1.
      + cbn [be]. replace ((unbe r acc * 256 + b) / 256) with (unbe r acc) by lia.
        replace ((unbe r acc * 256 + b) mod 256) with b by lia.
        now rewrite IH2. }
  intros H. apply (G bs 0 H).
Qed.

(* ---------------------------------------------------------------- take *)

Lemma lenN_cons {A} (x : A) l : lenN (x :: l) = lenN l + 1.
Proof. unfold lenN. cbn [length]. lia. Qed.

Lemma lenN_app {A} (a b : list A) : lenN (a ++ b) = lenN a + lenN b.
Proof. unfold lenN. rewrite app_length. lia. Qed.

Lemma take_spec {A} (n : N) (l : list A) :
  take n l = if lenN l <? n then None else Some (firstn (N.to_nat n) l, skipn (N.to_nat n) l).
Proof.
  revert n; induction l as [|x r IH]; intros n; cbn [take].
  - destruct (N.eqb_spec n 0) as [->|Hn].
    + reflexivity.
    + unfold lenN. cbn [length]. destruct (N.ltb_spec (N.of_nat 0) n); [reflexivity|lia].
  - destruct (N.eqb_spec n 0) as [->|Hn].
    + reflexivity.
    + rewrite IH, lenN_cons.
      destruct (N.ltb_spec (lenN r) (N.pred n)); destruct (N.ltb_spec (lenN r + 1) n); try lia; try reflexivity.
      replace (N.to_nat n) with (S (N.to_nat (N.pred n))) by lia. reflexivity.
Qed.

Lemma take_app {A} (s r : list A) : take (lenN s) (s ++ r) = Some (s, r).
Proof.
  rewrite take_spec, lenN_app.
  destruct (N.ltb_spec (lenN s + lenN r) (lenN s)); [lia|].
  unfold lenN. rewrite Nat2N.id, firstn_app, skipn_app, Nat.sub_diag, firstn_all, skipn_all. cbn.
  now rewrite app_nil_r.
Qed.

Lemma take_be k v r : take (N.of_nat k) (be k v ++ r) = Some (be k v, r).
Proof. rewrite <- (be_length k v) at 1. apply take_app. Qed.

Lemma take_some {A} n (l p s : list A) : take n l = Some (p, s) -> l = p ++ s /\ lenN p = n.
Proof.
  rewrite take_spec. destruct (N.ltb_spec (lenN l) n); [discriminate|]. intros E; inversion E; subst.
  split; [now rewrite firstn_skipn|]. unfold lenN in *. rewrite firstn_length. lia.
Qed.

Lemma take_shorter {A} n (l p s : list A) : take n l = Some (p, s) -> (length s <= length l)%nat.
Proof. intros H. apply take_some in H as [-> _]. rewrite app_length. lia. Qed.

Lemma take_pos_shorter {A} n (l p s : list A) : 0 < n -> take n l = Some (p, s) -> (length s < length l)%nat.
Proof. intros Hn H. apply take_some in H as [-> Hp]. rewrite app_length. unfold lenN in Hp. lia. Qed.

(* ---------------------------------------------------------------- orders on keys *)

Lemma bytes_eqb_eq a b : bytes_eqb a b = true <-> a = b.
Proof.
  revert b; induction a as [|x a IH]; destruct b as [|y b]; cbn; try (split; congruence).
  rewrite andb_true_iff, IH, N.eqb_eq. split; [intros [-> ->]; reflexivity|intros E; inversion E; auto].
Qed.

Lemma bytes_eqb_refl a : bytes_eqb a a = true.
Proof. now apply bytes_eqb_eq. Qed.

Lemma bytes_ltb_irrefl a : bytes_ltb a a = false.
Proof. induction a as [|x a IH]; cbn; auto. now rewrite N.ltb_irrefl. Qed.

Lemma bytes_ltb_trans a b c : bytes_ltb a b = true -> bytes_ltb b c = true -> bytes_ltb a c = true.
Proof.
  revert b c; induction a as [|x a IH]; intros [|y b] [|z c]; cbn; try congruence.
  destruct (N.ltb_spec x y), (N.ltb_spec y x), (N.ltb_spec y z), (N.ltb_spec z y),
    (N.ltb_spec x z), (N.ltb_spec z x); try lia; try congruence; intros; eauto.
Qed.

Lemma bytes_ltb_total a b : bytes_ltb a b = false -> bytes_ltb b a = false -> a = b.
Proof.
  revert b; induction a as [|x a IH]; intros [|y b]; cbn; try congruence.
  destruct (N.ltb_spec x y), (N.ltb_spec y x); try congruence; try lia.
  intros H1 H2. assert (x = y) by lia. subst. f_equal. auto.
Qed.

Lemma len_cmp_refl a : len_cmp a a = Eq.
Proof. induction a; cbn; auto. Qed.

Lemma len_cmp_spec a b :
  match len_cmp a b with
  | Eq => length a = length b | Lt => (length a < length b)%nat | Gt => (length b < length a)%nat
  end.
Proof.
  revert b; induction a as [|x a IH]; intros [|y b]; cbn; try lia.
  specialize (IH b). destruct (len_cmp a b); lia.
Qed.

Lemma rfc_ltb_irrefl a : rfc_ltb a a = false.
Proof. unfold rfc_ltb. now rewrite len_cmp_refl, bytes_ltb_irrefl. Qed.

Lemma rfc_ltb_trans a b c : rfc_ltb a b = true -> rfc_ltb b c = true -> rfc_ltb a c = true.
Proof.
  unfold rfc_ltb. pose proof (len_cmp_spec a b). pose proof (len_cmp_spec b c). pose proof (len_cmp_spec a c).
  destruct (len_cmp a b), (len_cmp b c), (len_cmp a c); try congruence; try lia.
  apply bytes_ltb_trans.
Qed.

Lemma rfc_ltb_total a b : rfc_ltb a b = false -> rfc_ltb b a = false -> a = b.
Proof.
  unfold rfc_ltb. pose proof (len_cmp_spec a b). pose proof (len_cmp_spec b a).
  destruct (len_cmp a b), (len_cmp b a); try congruence; try lia.
  apply bytes_ltb_total.
Qed.

(* ---------------------------------------------------------------- sorting *)

Section SortFacts.
  Context {V : Type}.
  Variable ltb : bytes -> bytes -> bool.
  Hypothesis ltb_irrefl : forall a, ltb a a = false.
  Hypothesis ltb_trans : forall a b c, ltb a b = true -> ltb b c = true -> ltb a c = true.
  Hypothesis ltb_total : forall a b, ltb a b = false -> ltb b a = false -> a = b.

  Definition klt (x y : bytes * V) : Prop := ltb (fst x) (fst y) = true.

  Lemma insert_perm kv (l : list (bytes * V)) : Permutation (kv :: l) (insert_kv ltb kv l).
  Proof.
    induction l as [|x r IH]; cbn; [reflexivity|].
    destruct (ltb (fst x) (fst kv)); [|reflexivity].
    rewrite perm_swap. now constructor.
  Qed.

  Lemma sort_perm (l : list (bytes * V)) : Permutation l (sort_kv ltb l).
  Proof.
    induction l as [|x r IH]; cbn; [constructor|].
    rewrite <- insert_perm. now constructor.
  Qed.

  (* keys pairwise distinct *)
  Definition keys (l : list (bytes * V)) : list bytes := map fst l.

  Lemma insert_sorted kv (l : list (bytes * V)) :
    ~ In (fst kv) (keys l) -> StronglySorted klt l -> StronglySorted klt (insert_kv ltb kv l).
  Proof.
    induction l as [|x r IH]; intros Hnin Hs; cbn.
    - constructor; constructor.
    - inversion Hs as [|? ? Hr Hall]; subst.
      destruct (ltb (fst x) (fst kv)) eqn:E.
      + constructor.
        * apply IH; [cbn in Hnin; tauto|assumption].
        * assert (Hp := insert_perm kv r).
          rewrite Forall_forall in *. intros y Hy.
          apply (Permutation_in _ (Permutation_sym Hp)) in Hy. destruct Hy as [<-|Hy]; [exact E|auto].
      + assert (Hlt : ltb (fst kv) (fst x) = true).
        { destruct (ltb (fst kv) (fst x)) eqn:E2; [reflexivity|].
          exfalso. apply Hnin. left. symmetry. now apply ltb_total. }
        constructor; [assumption|]. constructor; [exact Hlt|].
        rewrite Forall_forall in *. intros y Hy. unfold klt in *. eapply ltb_trans; [exact Hlt|]. now apply Hall.
  Qed.

  Lemma sort_sorted (l : list (bytes * V)) : NoDup (keys l) -> StronglySorted klt (sort_kv ltb l).
  Proof.
    induction l as [|x r IH]; intros Hnd; cbn; [constructor|].
    inversion Hnd as [|? ? Hnin Hr]; subst.
    apply insert_sorted; [|auto].
    intros Hin. apply Hnin. unfold keys in *.
    eapply Permutation_in; [|exact Hin]. apply Permutation_map. apply Permutation_sym, sort_perm.
  Qed.

  (* a strongly sorted list is determined by its set of elements *)
  Lemma sorted_perm_unique (l1 l2 : list (bytes * V)) :
    StronglySorted klt l1 -> StronglySorted klt l2 -> Permutation l1 l2 -> l1 = l2.
  Proof.
    revert l2; induction l1 as [|x r IH]; intros l2 H1 H2 Hp.
    - apply Permutation_nil in Hp. now subst.
    - destruct l2 as [|y s]; [apply Permutation_sym, Permutation_nil in Hp; discriminate|].
      inversion H1 as [|? ? Hr1 Ha1]; inversion H2 as [|? ? Hr2 Ha2]; subst.
      assert (x = y).
      { assert (Hx : In x (y :: s)) by (eapply Permutation_in; [exact Hp|now left]).
        assert (Hy : In y (x :: r)) by (eapply Permutation_in; [apply Permutation_sym; exact Hp|now left]).
        destruct Hx as [->|Hx]; [reflexivity|]. destruct Hy as [->|Hy]; [reflexivity|].
        rewrite Forall_forall in Ha1, Ha2. specialize (Ha1 _ Hy). specialize (Ha2 _ Hx). unfold klt in *.
        pose proof (ltb_trans _ _ _ Ha1 Ha2) as C. rewrite ltb_irrefl in C. discriminate. }
      subst. f_equal. apply IH; auto. now apply Permutation_cons_inv in Hp.
  Qed.

  Lemma sort_perm_invariant (l1 l2 : list (bytes * V)) :
    NoDup (keys l1) -> Permutation l1 l2 -> sort_kv ltb l1 = sort_kv ltb l2.
  Proof.
    intros Hnd Hp. apply sorted_perm_unique.
    - now apply sort_sorted.
    - apply sort_sorted. unfold keys. eapply Permutation_NoDup; [apply Permutation_map; exact Hp|exact Hnd].
    - rewrite <- (sort_perm l1), <- (sort_perm l2). exact Hp.
  Qed.

  Lemma sort_sorted_id (l : list (bytes * V)) : StronglySorted klt l -> sort_kv ltb l = l.
  Proof.
    induction l as [|x r IH]; intros Hs; cbn; [reflexivity|].
    inversion Hs as [|? ? Hr Hall]; subst. rewrite IH by assumption.
    destruct r as [|y r']; cbn; [reflexivity|].
    inversion Hall as [|? ? Hxy _]; subst. unfold klt in Hxy.
    destruct (ltb (fst y) (fst x)) eqn:E; [|reflexivity].
    pose proof (ltb_trans _ _ _ Hxy E) as C. rewrite ltb_irrefl in C. discriminate.
  Qed.
End SortFacts.
