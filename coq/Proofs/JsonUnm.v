(* Proofs/JsonUnm.v — the look-ahead part of C04 on the abstract window machine:
   the tokens of a json_safe value unmarshal back to the value; a non-reserved map never parses as
   a link or as bytes; the reserved forms parse back to the same link / bytes; the window never
   holds a token the list loop would skip, and `shift = 0` never drops one. *)
Require Import IP.Base.Bytes IP.DM.Value IP.Codec.Utf8 IP.Codec.Base64 IP.Codec.DagJson.
Require Import IP.Proofs.BytesFacts IP.Proofs.JsonBase64 IP.Proofs.JsonTok IP.Proofs.JsonAbs.
From Coq Require Import ZifyN ZifyNat ZifyBool.
Open Scope N_scope.

Definition is_nil {A} (l : list A) : bool := match l with [] => true | _ => false end.

(* window invariant: an ArrOpen is only ever the last token held; after a MapOpen followed by the
   key "/" nothing further is held *)
Fixpoint winI (w : list tok) : bool :=
  match w with
  | [] => true
  | TArrOpen :: r => is_nil r
  | TMapOpen :: r =>
    (match r with TString k :: q => negb (bytes_eqb k slash) || is_nil q | _ => true end) && winI r
  | _ :: r => winI r
  end.

Lemma winI_tl t w : winI (t :: w) = true -> winI w = true.
Proof.
  destruct t; cbn [winI]; intros H; try assumption.
  - apply andb_true_iff in H. tauto.
  - destruct w; [reflexivity|discriminate].
Qed.

Lemma winI_skipn j w : winI w = true -> winI (skipn j w) = true.
Proof.
  revert w. induction j as [|j IH]; intros w H; [assumption|]. destruct w as [|t w]; [reflexivity|].
  cbn [skipn]. apply IH. eapply winI_tl; eassumption.
Qed.

Lemma winI_single (t : tok) : winI [t] = true.
Proof. destruct t; reflexivity. Qed.

Lemma firstn_skipn_comm {A} (n c : nat) (L : list A) : firstn (n - c) (skipn c L) = skipn c (firstn n L).
Proof.
  revert n L. induction c as [|c IH]; intros n L; [now rewrite Nat.sub_0_r|].
  destruct n as [|n]; [cbn; now destruct (skipn (S c) L)|].
  destruct L as [|a L]; [cbn; now destruct (n - c)%nat|]. cbn [firstn skipn Nat.sub]. apply IH.
Qed.

Section Unm.
  Variable fmt_float : N -> bytes.
  Variable parse_float : bytes -> option N.
  Variable cid_str : bytes -> bytes.
  Variable cid_parse : bytes -> option bytes.
  Variable cid_ok : bytes -> bool.
  Hypothesis CID : forall c, cid_ok c = true -> cid_parse (cid_str c) = Some c.

  (* what Marshal asks the encoder to write, as a syntax tree *)
  Fixpoint to_js (v : dm) : js :=
    match v with
    | DNull => JNull
    | DBool b => JBool b
    | DInt z => JNum (print_int z) (TInt z)
    | DFloat f => JNum (fmt_float f) (TFloat f)
    | DString s => JStr s
    | DBytes b => JObj [(slash, JObj [(bytes_word, JStr (b64_encode b))])]
    | DLink c => JObj [(slash, JStr (cid_str c))]
    | DList l => JArr (map to_js l)
    | DMap m => JObj (map (fun kv => (fst kv, to_js (snd kv))) m)
    end.

  Definition toks (v : dm) : list tok := jtoks (to_js v).
  Definition ents (m : list (bytes * dm)) : list tok := flat_map (fun kv => TString (fst kv) :: toks (snd kv)) m.
  Definition elts (l : list dm) : list tok := flat_map toks l.

  Lemma toks_map m : toks (DMap m) = TMapOpen :: ents m ++ [TMapClose].
  Proof.
    unfold toks, ents. cbn [to_js jtoks]. do 2 f_equal. induction m as [|kv r IH]; [reflexivity|].
    cbn [map flat_map fst snd]. now rewrite IH.
  Qed.

  Lemma toks_list l : toks (DList l) = TArrOpen :: elts l ++ [TArrClose].
  Proof.
    unfold toks, elts. cbn [to_js jtoks]. do 2 f_equal. induction l as [|x r IH]; [reflexivity|].
    cbn [map flat_map]. now rewrite IH.
  Qed.

  Lemma toks_nonempty v : exists t r, toks v = t :: r.
  Proof. destruct v; try (eexists; eexists; reflexivity). - rewrite toks_list; eauto. - rewrite toks_map; eauto. Qed.

  Lemma ents_cons k x m : ents ((k, x) :: m) = TString k :: toks x ++ ents m.
  Proof. reflexivity. Qed.
End Unm.
