(* Proofs/JsonUnm.v — the look-ahead part of C04 on the abstract window machine:
   the tokens of a json_safe value unmarshal back to the value; a non-reserved map never parses as
   a link or as bytes; the reserved forms parse back to the same link / bytes; the window never
   holds a token the list loop would skip, and `shift = 0` never drops one. *)
Require Import IP.Base.Bytes IP.DM.Value IP.Codec.Utf8 IP.Codec.Base64 IP.Codec.DagJson.
Require Import IP.Proofs.BytesFacts IP.Proofs.JsonBase64 IP.Proofs.JsonTok IP.Proofs.JsonAbs.
From Coq Require Import ZifyN ZifyNat ZifyBool.
Open Scope N_scope.

Definition is_nil {A} (l : list A) : bool := match l with [] => true | _ => false end.

(* window invariant: an ArrOpen is only ever the last token held; after a MapOpen followed by the
   key "/" nothing further is held *)
Fixpoint winI (w : list tok) : bool :=
  match w with
  | [] => true
  | TArrOpen :: r => is_nil r
  | TMapOpen :: r =>
    (match r with TString k :: q => negb (bytes_eqb k slash) || is_nil q | _ => true end) && winI r
  | _ :: r => winI r
  end.

Lemma winI_tl t w : winI (t :: w) = true -> winI w = true.
Proof.
  destruct t; cbn [winI]; intros H; try assumption.
  - apply andb_true_iff in H. tauto.
  - destruct w; [reflexivity|discriminate].
Qed.

Lemma winI_skipn j w : winI w = true -> winI (skipn j w) = true.
Proof.
  revert w. induction j as [|j IH]; intros w H; [assumption|]. destruct w as [|t w]; [reflexivity|].
  cbn [skipn]. apply IH. eapply winI_tl; eassumption.
Qed.

Lemma winI_single (t : tok) : winI [t] = true.
Proof. destruct t; reflexivity. Qed.

Lemma firstn_skipn_comm {A} (n c : nat) (L : list A) : firstn (n - c) (skipn c L) = skipn c (firstn n L).
Proof.
  revert n L. induction c as [|c IH]; intros n L; [now rewrite Nat.sub_0_r|].
  destruct n as [|n]; [cbn; now destruct (skipn (S c) L)|].
  destruct L as [|a L]; [cbn; now destruct (n - c)%nat|]. cbn [firstn skipn Nat.sub]. apply IH.
Qed.

Section Unm.
  Variable fmt_float : N -> bytes.
  Variable parse_float : bytes -> option N.
  Variable cid_str : bytes -> bytes.
  Variable cid_parse : bytes -> option bytes.
  Variable cid_ok : bytes -> bool.
  Hypothesis CID : forall c, cid_ok c = true -> cid_parse (cid_str c) = Some c.

  (* what Marshal asks the encoder to write, as a syntax tree *)
  Fixpoint to_js (v : dm) : js :=
    match v with
    | DNull => JNull
    | DBool b => JBool b
    | DInt z => JNum (print_int z) (TInt z)
    | DFloat f => JNum (fmt_float f) (TFloat f)
    | DString s => JStr s
    | DBytes b => JObj [(slash, JObj [(bytes_word, JStr (b64_encode b))])]
    | DLink c => JObj [(slash, JStr (cid_str c))]
    | DList l => JArr (map to_js l)
    | DMap m => JObj (map (fun kv => (fst kv, to_js (snd kv))) m)
    end.

  Definition toks (v : dm) : list tok := jtoks (to_js v).
  Definition ents (m : list (bytes * dm)) : list tok := flat_map (fun kv => TString (fst kv) :: toks (snd kv)) m.
  Definition elts (l : list dm) : list tok := flat_map toks l.

  Lemma toks_map m : toks (DMap m) = TMapOpen :: ents m ++ [TMapClose].
  Proof.
    unfold toks, ents. cbn [to_js jtoks]. do 2 f_equal. induction m as [|kv r IH]; [reflexivity|].
    cbn [map flat_map fst snd]. now rewrite IH.
  Qed.

  Lemma toks_list l : toks (DList l) = TArrOpen :: elts l ++ [TArrClose].
  Proof.
    unfold toks, elts. cbn [to_js jtoks]. do 2 f_equal. induction l as [|x r IH]; [reflexivity|].
    cbn [map flat_map]. now rewrite IH.
  Qed.

  Lemma toks_nonempty v : exists t r, toks v = t :: r.
  Proof. destruct v; eexists; eexists; reflexivity. Qed.

  Lemma ents_cons k x m : ents ((k, x) :: m) = TString k :: toks x ++ ents m.
  Proof. reflexivity. Qed.

  (* ---------------------------------------------------------------- the look-ahead on a map that
     is none of the reserved shapes: both look-aheads say "no", the window stays well-formed and
     holds at most the map's own tokens *)

  Definition val_safe := json_safe cid_ok.

  Lemma slash_eq k : bytes_eqb k slash = true -> k = slash.
  Proof. apply bytes_eqb_eq. Qed.

  Ltac la_leaf :=
    eexists; eexists; split; [reflexivity|split; [reflexivity|split; [reflexivity|cbn [length app]; lia]]].

  Lemma lookahead_none m R n :
    reserved_shape m = false ->
    winI (TMapOpen :: firstn n (ents m ++ TMapClose :: R)) = true ->
    exists n1 n2,
      alink cid_parse (n, ents m ++ TMapClose :: R) = Ok (None, (n1, ents m ++ TMapClose :: R)) /\
      abytes (n1, ents m ++ TMapClose :: R) = Ok (None, (n2, ents m ++ TMapClose :: R)) /\
      winI (firstn n2 (ents m ++ TMapClose :: R)) = true /\
      (n <= n2 /\ (n2 = n \/ n2 <= length (ents m) + 1))%nat.
  Proof.
    intros NR W.
    destruct m as [|[k x] m'].
    { (* empty map *)
      cbn [ents flat_map app] in *. destruct n as [|n].
      - la_leaf.
      - exists (S n), (S n). cbn [firstn winI] in W. repeat split; try reflexivity; try lia.
        cbn [firstn]. exact W. }
    rewrite ents_cons in *. cbn [app] in *.
    destruct (bytes_eqb k slash) eqn:Hk.
    2:{ (* first key is not "/" *)
      destruct n as [|n].
      - exists 1%nat, 1%nat. unfold alink, abytes, apeek. cbn [fst snd nth_error pred Nat.ltb Nat.leb Nat.eqb bind].
        rewrite Hk. cbn [negb bind]. repeat split; try reflexivity; try lia.
      - exists (S n), (S n). unfold alink, abytes, apeek. cbn [fst snd nth_error pred Nat.ltb Nat.leb Nat.eqb bind].
        rewrite Hk. cbn [negb bind]. repeat split; try reflexivity; try lia.
        eapply winI_tl. exact W. }
    apply slash_eq in Hk. subst k.
    assert (Hn : (n <= 1)%nat).
    { destruct n as [|[|n]]; try lia. exfalso. destruct (toks_nonempty x) as (t & r & Et).
      rewrite Et in W. cbn [app firstn winI] in W. cbn in W. discriminate. }
    Ltac fin := eexists; eexists; split; [reflexivity|split; [reflexivity|split; [reflexivity|
                  split; [lia|right; rewrite ?app_length; cbn [length]; rewrite ?app_length; cbn [length]; lia]]]].
    destruct x as [|b|z|f|s|bs|c|l|mm];
      [unfold toks in W |- *; cbn [to_js jtoks flat_map fst snd app] in * ..
      |rewrite toks_list in *; cbn [app] in *|rewrite toks_map in *; cbn [app] in *].
    1-4: destruct n as [|[|n]]; [fin|fin|lia].
    - (* "/" : string *)
      destruct m' as [|[k2 y] m''].
      { cbn in NR. discriminate. }
      rewrite ents_cons. cbn [app]. destruct n as [|[|n]]; [fin|fin|lia].
    - (* "/" : bytes *) destruct n as [|[|n]]; [fin|fin|lia].
    - (* "/" : link *) destruct n as [|[|n]]; [fin|fin|lia].
    - (* "/" : list *) destruct n as [|[|n]]; [fin|fin|lia].
    - (* "/" : map *)
      rewrite <- app_assoc in *. cbn [app] in *.
      destruct mm as [|[k2 y] mm'].
      { cbn [ents flat_map app] in *. destruct n as [|[|n]]; [fin|fin|lia]. }
      rewrite ents_cons in *. cbn [app] in *. rewrite <- app_assoc in *.
      destruct (bytes_eqb k2 bytes_word) eqn:Hk2.
      2:{ destruct n as [|[|n]]; [| |lia];
          (exists 2%nat, 3%nat; split; [reflexivity|split;
             [unfold abytes, apeek; cbn [fst snd nth_error pred Nat.ltb Nat.leb Nat.eqb bind];
              change (bytes_eqb slash slash) with true; cbn [negb bind fst snd nth_error pred Nat.ltb Nat.leb Nat.eqb];
              rewrite Hk2; reflexivity
             |split; [cbn; rewrite ?orb_true_r; reflexivity|
               split; [lia|right; rewrite ?app_length; cbn [length]; rewrite ?app_length; cbn [length]; lia]]]]). }
      apply bytes_eqb_eq in Hk2. subst k2.
      destruct y as [|b|z|f|s|bs|c|l|mm2];
        [unfold toks in W |- *; cbn [to_js jtoks flat_map fst snd app] in * ..
        |rewrite toks_list in *; cbn [app] in *|rewrite toks_map in *; cbn [app] in *].
      1-4,6-9: destruct n as [|[|n]]; [fin|fin|lia].
      (* "/" : { "bytes" : string ... *)
      destruct mm' as [|[k3 z] mm''].
      2:{ rewrite ents_cons. cbn [app]. destruct n as [|[|n]]; [fin|fin|lia]. }
      cbn [ents flat_map app] in *.
      destruct m' as [|[k3 z] m''].
      { cbn in NR. discriminate. }
      rewrite ents_cons. cbn [app]. destruct n as [|[|n]]; [fin|fin|lia].
  Qed.

  (* ---------------------------------------------------------------- fuel, depth, keys *)

  Definition lsum (l : list dm) (need : dm -> nat) : nat := fold_right (fun x a => S (need x + a)) 0%nat l.
  Definition msum (m : list (bytes * dm)) (need : dm -> nat) : nat := fold_right (fun kv a => S (need (snd kv) + a)) 0%nat m.
  Fixpoint need (v : dm) : nat :=
    match v with
    | DList l => 2 + fold_right (fun x a => S (need x + a)) 0%nat l
    | DMap m => 2 + fold_right (fun kv a => S (need (snd kv) + a)) 0%nat m
    | _ => 1
    end.

  Variable o : jdopts.
  Hypothesis Olinks : jd_links o = true.
  Hypothesis Obytes : jd_bytes o = true.

  Definition depth_ok (d : Z) (v : dm) : Prop := (d + Z.of_N (jdepth v) <= jmax_depth o)%Z.

  Lemma toks_head_open v t r : toks v = t :: r -> t <> TArrClose /\ t <> TMapClose.
  Proof. destruct v; unfold toks; cbn [to_js jtoks]; intros E; inversion E; subst; split; discriminate. Qed.

  Lemma aunm_list_step f d t L : t <> TArrClose ->
    aunm_list cid_parse (S f) o d (0%nat, t :: L) =
    (do r <- aunm cid_parse f o (d + 1) t (0%nat, L); let '(v, s2) := r in
     do r' <- aunm_list cid_parse f o d s2; let '(l, s3) := r' in Ok (v :: l, s3)).
  Proof. intros NC. rewrite aunm_list_S. unfold anext_direct. cbn [fst snd bind]. destruct t; congruence || reflexivity. Qed.

  Lemma existsb_notin k seen : ~ In k seen -> existsb (bytes_eqb k) seen = false.
  Proof.
    induction seen as [|a r IH]; intros H; [reflexivity|]. cbn [existsb].
    destruct (bytes_eqb k a) eqn:E; [apply bytes_eqb_eq in E; subst; exfalso; apply H; now left|].
    apply IH. intros Hin. apply H. now right.
  Qed.

  Lemma existsb_false_notin k l : existsb (bytes_eqb k) l = false -> ~ In k l.
  Proof.
    induction l as [|a r IH]; intros H Hin; [contradiction|]. cbn [existsb] in H. apply orb_false_iff in H. destruct H as [H1 H2].
    destruct Hin as [->|Hin]; [rewrite bytes_eqb_refl in H1; discriminate|now apply IH].
  Qed.

  Definition P (gf : N -> bool) (v : dm) : Prop :=
    val_safe gf v = true -> forall f n R d, (need v <= f)%nat -> depth_ok d v ->
      winI (firstn (S n) (toks v ++ R)) = true ->
      aunm cid_parse f o d (hd TNull (toks v)) (n, tl (toks v) ++ R) = Ok (v, ((n - (length (toks v) - 1))%nat, R)).

  Lemma depth_check d v : depth_ok d v -> (1 <= jdepth v) -> (jmax_depth o <=? d)%Z = false.
  Proof. unfold depth_ok. intros. apply Z.leb_gt. lia. Qed.

  Lemma U_list gf l : Forall (P gf) l -> forallb (val_safe gf) l = true ->
    forall f R d, (S (lsum l need) <= f)%nat -> Forall (depth_ok (d + 1)) l ->
      aunm_list cid_parse f o d (0%nat, elts l ++ TArrClose :: R) = Ok (l, (0%nat, R)).
  Proof.
    induction 1 as [|x r Hx Hr IH]; intros Sf f R d Hf Hd.
    - destruct f as [|f]; [lia|]. reflexivity.
    - cbn [forallb] in Sf. apply andb_true_iff in Sf. destruct Sf as [Sx Sr].
      inversion Hd as [|? ? Dx Dr]; subst. cbn [lsum fold_right] in Hf. fold (lsum r need) in Hf.
      destruct f as [|f]; [lia|].
      destruct (toks_nonempty x) as (t & tr & Et). destruct (toks_head_open _ _ _ Et) as [NC _].
      unfold elts. cbn [flat_map]. fold (elts r). rewrite Et. rewrite <- app_assoc. cbn [app].
      rewrite aunm_list_step by assumption.
      pose proof (Hx Sx f 0%nat (elts r ++ TArrClose :: R) (d + 1)%Z ltac:(lia) Dx) as Hc.
      rewrite Et in Hc. cbn [hd tl app firstn] in Hc. rewrite (Hc (winI_single t)). cbn [bind Nat.sub].
      rewrite IH; [reflexivity|assumption|lia|assumption].
  Qed.

  Lemma U_map gf m : Forall (fun kv => P gf (snd kv)) m ->
    forallb (fun kv => val_safe gf (snd kv)) m = true -> NoDup (map fst m) ->
    forall f seen n R d, (forall k, In k (map fst m) -> ~ In k seen) ->
      (S (msum m need) <= f)%nat -> Forall (fun kv => depth_ok (d + 1) (snd kv)) m ->
      winI (firstn n (ents m ++ TMapClose :: R)) = true ->
      aunm_map cid_parse f o d seen (n, ents m ++ TMapClose :: R) = Ok (m, ((n - (length (ents m) + 1))%nat, R)).
  Proof.
    induction 1 as [|[k x] r Hx Hr IH]; intros Sf ND f seen n R d Hseen Hf Hd W.
    - destruct f as [|f]; [lia|]. rewrite aunm_map_S. unfold anext. cbn [ents flat_map app fst snd bind length].
      do 3 f_equal. lia.
    - cbn [forallb snd] in Sf. apply andb_true_iff in Sf. destruct Sf as [Sx Sr].
      inversion Hd as [|? ? Dx Dr]; subst. cbn [snd] in *.
      cbn [map fst] in ND. inversion ND as [|? ? Nin ND']; subst.
      cbn [msum fold_right snd] in Hf. fold (msum r need) in Hf.
      destruct f as [|f]; [lia|].
      destruct (toks_nonempty x) as (t & tr & Et).
      rewrite ents_cons in *. cbn [app] in *. rewrite <- app_assoc in *. rewrite Et in *. cbn [app] in *.
      rewrite aunm_map_S. unfold anext. cbn [fst snd bind].
      rewrite (existsb_notin k seen) by (apply Hseen; now left).
      cbn [bind].
      set (R' := ents r ++ TMapClose :: R) in *.
      set (pp := pred (pred n)).
      assert (W' : winI (firstn (S pp) (t :: tr ++ R')) = true).
      { destruct n as [|[|n']]; [apply winI_single|apply winI_single|]. exact W. }
      pose proof (Hx Sx f pp R' (d + 1)%Z ltac:(lia) Dx) as Hc.
      rewrite Et in Hc. cbn [hd tl] in Hc. rewrite (Hc W'). cbn [bind].
      assert (Ltx : length (toks x) = S (length tr)) by (rewrite Et; reflexivity).
      subst R'. rewrite IH; try assumption.
      + cbn [length]. rewrite app_length. cbn [bind]. do 3 f_equal. unfold pp. lia.
      + intros k' Hin [->|Hs]; [contradiction|]. eapply Hseen; [right; exact Hin|exact Hs].
      + lia.
      + replace (pp - (length (t :: tr) - 1))%nat with (S pp - length (toks x))%nat by (rewrite Ltx; cbn [length]; lia).
        set (R' := ents r ++ TMapClose :: R) in *.
        assert (E : R' = skipn (length (toks x)) ((t :: tr) ++ R')).
        { rewrite <- Et. now rewrite skipn_app, skipn_all, Nat.sub_diag. }
        rewrite E at 1. rewrite firstn_skipn_comm. apply winI_skipn. exact W'.
  Qed.

  Lemma nodup_keys_NoDup {V} (m : list (bytes * V)) : nodup_keys m = true -> NoDup (map fst m).
  Proof.
    induction m as [|[k x] r IH]; intros H; [constructor|]. cbn [nodup_keys] in H.
    apply andb_true_iff in H. destruct H as [H1 H2]. cbn [map fst]. constructor; [|auto].
    apply existsb_false_notin. now apply negb_true_iff.
  Qed.

  Lemma fold_max_le (A : Type) (g : A -> N) (l : list A) x : In x l -> g x <= fold_right (fun y a => N.max (g y) a) 0 l.
  Proof. induction l as [|y r IH]; intros H; [contradiction|]. destruct H as [->|H]; cbn [fold_right]; [lia|specialize (IH H); lia]. Qed.

  (* the look-ahead part of C04, together with the structural recursion *)
  Theorem U gf v : P gf v.
  Proof.
    induction v as [|b|z|x|s|bs|c|l IH|m IH] using dm_ind2; intros Sf f n R d Hf Hd W;
      try (destruct f as [|f]; [cbn in Hf; lia|]; cbn [toks to_js jtoks hd tl app length];
           rewrite aunm_S; unfold toks; cbn [to_js jtoks hd tl app length]; do 3 f_equal; lia).
    - (* bytes *)
      destruct f as [|f]; [cbn in Hf; lia|]. unfold toks in *. cbn [to_js jtoks flat_map fst snd app hd tl length] in *.
      assert (Hn : (n <= 1)%nat) by (destruct n as [|[|n]]; try lia; cbn in W; discriminate).
      rewrite aunm_S, (depth_check d (DBytes bs) Hd) by (cbn; lia). rewrite Olinks, Obytes.
      cbn [val_safe json_safe] in Sf. unfold bytes_ok, byte_ok in Sf.
      assert (B : b64_decode_go (b64_encode bs) = Some bs).
      { apply base64_roundtrip. apply Forall_forall. intros y Hy. rewrite forallb_forall in Sf.
        specialize (Sf y Hy). now apply N.ltb_lt. }
      destruct n as [|[|n]]; [| |lia];
        (unfold alink, abytes, apeek; cbn [fst snd nth_error pred Nat.ltb Nat.leb Nat.eqb bind];
         change (bytes_eqb slash slash) with true; change (bytes_eqb bytes_word bytes_word) with true;
         cbn [negb bind fst snd nth_error pred Nat.ltb Nat.leb Nat.eqb]; rewrite B; reflexivity).
    - (* link *)
      destruct f as [|f]; [cbn in Hf; lia|]. unfold toks in *. cbn [to_js jtoks flat_map fst snd app hd tl length] in *.
      assert (Hn : (n <= 1)%nat) by (destruct n as [|[|n]]; try lia; cbn in W; discriminate).
      rewrite aunm_S, (depth_check d (DLink c) Hd) by (cbn; lia). rewrite Olinks.
      cbn [val_safe json_safe] in Sf.
      destruct n as [|[|n]]; [| |lia];
        (unfold alink, apeek; cbn [fst snd nth_error pred Nat.ltb Nat.leb Nat.eqb bind];
         change (bytes_eqb slash slash) with true;
         cbn [negb bind fst snd nth_error pred Nat.ltb Nat.leb Nat.eqb]; rewrite (CID c Sf); reflexivity).
    - (* list *)
      destruct f as [|f]; [cbn in Hf; lia|]. rewrite toks_list in *. cbn [hd tl app] in *.
      rewrite <- app_assoc in *. cbn [app] in *.
      assert (n = 0)%nat as ->.
      { destruct n as [|n]; [reflexivity|]. cbn [firstn winI] in W.
        destruct (elts l ++ TArrClose :: R) eqn:E; [destruct (elts l); discriminate|]. discriminate. }
      rewrite aunm_S, (depth_check d (DList l) Hd) by (cbn [jdepth]; lia).
      cbn [val_safe json_safe] in Sf. cbn [need] in Hf.
      rewrite (U_list gf l IH Sf f R d).
      + cbn [bind Nat.sub]. reflexivity.
      + unfold lsum. lia.
      + apply Forall_forall. intros y Hy. unfold depth_ok in *. cbn [jdepth] in Hd.
        pose proof (fold_max_le dm jdepth l y Hy). lia.
    - (* map *)
      destruct f as [|f]; [cbn in Hf; lia|]. rewrite toks_map in *. cbn [hd tl app] in *.
      rewrite <- app_assoc in *. cbn [app] in *.
      cbn [val_safe json_safe] in Sf. apply andb_true_iff in Sf. destruct Sf as [Sf S3].
      apply andb_true_iff in Sf. destruct Sf as [S1 S2]. apply negb_true_iff in S2.
      destruct (lookahead_none m R n S2 W) as (n1 & n2 & A1 & A2 & W2 & Hle & Hn2).
      rewrite aunm_S, (depth_check d (DMap m) Hd) by (cbn [jdepth]; lia). rewrite Olinks, Obytes.
      rewrite A1. cbn [bind]. rewrite A2. cbn [bind]. cbn [need] in Hf.
      rewrite (U_map gf m IH) with (d := d); try assumption.
      + cbn [bind]. cbn [length]. rewrite app_length. cbn [length]. do 3 f_equal. lia.
      + rewrite forallb_forall in *. intros kv Hkv. specialize (S3 kv Hkv). apply andb_true_iff in S3. tauto.
      + now apply nodup_keys_NoDup.
      + intros k _ [].
      + unfold msum. lia.
      + apply Forall_forall. intros kv Hkv. unfold depth_ok in *. cbn [jdepth] in Hd.
        pose proof (fold_max_le _ (fun kv => jdepth (snd kv)) m kv Hkv) as Hm. cbn beta in Hm. lia.
  Qed.
End Unm.
