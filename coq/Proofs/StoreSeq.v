(* Proofs/StoreSeq.v — sequential functional correctness of the writer machine (Put / PutVec /
   PutStream+commit) on a well-formed store: it terminates with success, the key path then holds
   exactly the content, everything else that existed is unchanged.  Used by the refinement theorem
   of the file-system store (C17) and by "the store stays usable" (C18). *)
Require Import IP.Base.Bytes IP.Base.GoSem IP.Gen.FromGo IP.Store.Storage IP.Store.FsStore IP.Store.FsCrash.
Require Import IP.Proofs.StoreBase IP.Proofs.StoreMem IP.Proofs.StoreFs IP.Proofs.StoreCrash.
From Coq Require Import Lia List Bool Arith.
Import ListNotations.

(* ------------------------------------------------------------------ path resolution, evaluated *)

Definition all_dirs (f : fs) (q : list (list N)) : Prop :=
  forall n, (0 < n <= length q)%nat -> fs_lookup f (firstn n q) = Some Dir.

Definition comp_ok (c : list N) : Prop := (lenN c <=? name_max)%N = true /\ existsb (N.eqb 0) c = false.
Definition path_ok (p : list (list N)) : Prop := Forall comp_ok p.

Lemma path_ok_nul : forall p, path_ok p -> has_nul p = false.
Proof.
  induction p; intros H; simpl; auto. inversion H; subst. destruct H2 as [_ H2]. rewrite H2. simpl. auto.
Qed.

Lemma path_ok_short : forall p, path_ok p -> Forall (fun c => (lenN c <=? name_max)%N = true) p.
Proof. intros p H. eapply Forall_impl; [|exact H]. intros c [A _]. exact A. Qed.

Lemma path_ok_app : forall a b, path_ok (a ++ b) <-> path_ok a /\ path_ok b.
Proof. intros. unfold path_ok. apply Forall_app. Qed.

Lemma all_dirs_nil : forall f, all_dirs f [].
Proof. intros f n H. simpl in H. lia. Qed.

Lemma all_dirs_prefix : forall f a b, all_dirs f (a ++ b) -> all_dirs f a.
Proof.
  intros f a b H n Hn. specialize (H n). rewrite firstn_app in H.
  replace (n - length a)%nat with 0%nat in H by lia. simpl in H. rewrite app_nil_r in H.
  apply H. rewrite app_length. lia.
Qed.

Lemma all_dirs_snoc : forall f a c, all_dirs f a -> fs_lookup f (a ++ [c]) = Some Dir -> all_dirs f (a ++ [c]).
Proof.
  intros f a c H L n Hn. rewrite app_length in Hn. simpl in Hn.
  destruct (Nat.eq_dec n (length a + 1)).
  - subst n. rewrite firstn_all2 by (rewrite app_length; simpl; lia). auto.
  - rewrite firstn_app. replace (n - length a)%nat with 0%nat by lia. simpl. rewrite app_nil_r.
    apply H. lia.
Qed.

Lemma all_dirs_self : forall f q, q <> [] -> all_dirs f q -> fs_lookup f q = Some Dir.
Proof.
  intros f q N H. specialize (H (length q)). rewrite firstn_all in H. apply H.
  destruct q; try congruence. simpl. lia.
Qed.

Lemma resolve_unfold : forall f p, p <> [] ->
  resolve f p = if has_nul p then Err EINVAL else
                match walk_from f [] (dirname p) with
                | Err e => Err e
                | Ok _ => if (name_max <? lenN (last_comp p))%N then Err ENAMETOOLONG else Ok (fs_lookup f p)
                end.
Proof. intros f p H. unfold resolve. destruct p; [congruence|reflexivity]. Qed.

Lemma resolve_ok : forall f p, p <> [] -> path_ok p -> all_dirs f (dirname p) ->
  resolve f p = Ok (fs_lookup f p).
Proof.
  intros f p N P D. unfold resolve. rewrite (path_ok_nul p P).
  destruct p as [|c p']; try congruence.
  destruct (exists_last N) as [q [lc E]]. rewrite E in *.
  unfold dirname in *. rewrite removelast_last in *.
  apply path_ok_app in P. destruct P as [P1 P2].
  rewrite walk_from_dirs.
  - unfold last_comp. rewrite last_last. inversion P2; subst. destruct H1 as [S _].
    apply N.leb_le in S. destruct (name_max <? lenN lc)%N eqn:X; auto. apply N.ltb_lt in X. lia.
  - intros n Hn. simpl. apply D. auto.
  - apply path_ok_short. auto.
Qed.

Lemma walk_from_app : forall f b a pre,
  walk_from f pre (a ++ b) = match walk_from f pre a with Ok _ => walk_from f (pre ++ a) b | Err e => Err e end.
Proof.
  induction a; intros pre; simpl.
  - rewrite app_nil_r. auto.
  - destruct (name_max <? lenN a)%N; auto.
    destruct (fs_lookup f (pre ++ [a])) as [[c|]|]; auto.
    rewrite IHa. rewrite <- app_assoc. auto.
Qed.

(* an ancestor is missing below a chain of directories: ENOENT *)
Lemma resolve_missing : forall f a c more, more <> [] -> path_ok (a ++ c :: more) -> all_dirs f a ->
  fs_lookup f (a ++ [c]) = None -> resolve f (a ++ c :: more) = Err ENOENT.
Proof.
  intros f a c more N P D L. rewrite resolve_unfold by (destruct a; discriminate).
  rewrite (path_ok_nul _ P).
  destruct (exists_last N) as [m' [lc E]]. subst more.
  unfold dirname. replace (a ++ c :: m' ++ [lc]) with ((a ++ c :: m') ++ [lc]) by (rewrite <- app_assoc; auto).
  rewrite removelast_last.
  replace (a ++ c :: m') with (a ++ [c] ++ m') by auto.
  rewrite walk_from_app. simpl app at 1.
  assert (PA : path_ok a /\ comp_ok c).
  { apply path_ok_app in P. destruct P as [P1 P2]. inversion P2; subst. auto. }
  destruct PA as [PA [PC _]].
  rewrite walk_from_dirs; [|intros n Hn; apply D; auto|apply path_ok_short; auto].
  rewrite walk_from_app. simpl.
  apply N.leb_le in PC. destruct (name_max <? lenN c)%N eqn:X. { apply N.ltb_lt in X. lia. }
  rewrite L. auto.
Qed.

(* ---- the system calls, evaluated ---- *)

Lemma exec_creat_ok : forall f p, p <> [] -> path_ok p -> all_dirs f (dirname p) -> fs_lookup f p = None ->
  sys_exec f (SCreat p) = (fs_set f p (File []), Ok RVUnit).
Proof. intros. simpl. rewrite resolve_ok by auto. rewrite H2. auto. Qed.

Lemma exec_write_ok : forall f p c old, fs_lookup f p = Some (File old) ->
  sys_exec f (SWrite p c) = (fs_set f p (File (old ++ c)), Ok RVUnit).
Proof. intros. simpl. rewrite H. auto. Qed.

Lemma exec_lstat_ok : forall f p, p <> [] -> path_ok p -> all_dirs f (dirname p) ->
  sys_exec f (SLstat p) = (f, match fs_lookup f p with Some n => Ok (RVNode n) | None => Err ENOENT end).
Proof. intros. simpl. rewrite resolve_ok by auto. destruct (fs_lookup f p); auto. Qed.

Lemma exec_lstat_missing : forall f a c more, more <> [] -> path_ok (a ++ c :: more) -> all_dirs f a ->
  fs_lookup f (a ++ [c]) = None -> sys_exec f (SLstat (a ++ c :: more)) = (f, Err ENOENT).
Proof. intros. simpl. rewrite resolve_missing by auto. auto. Qed.

Lemma exec_mkdir_ok : forall f p, p <> [] -> path_ok p -> all_dirs f (dirname p) -> fs_lookup f p = None ->
  sys_exec f (SMkdir p) = (fs_set f p Dir, Ok RVUnit).
Proof. intros. simpl. rewrite resolve_ok by auto. rewrite H2. auto. Qed.

Lemma exec_mkdir_missing : forall f a c more, more <> [] -> path_ok (a ++ c :: more) -> all_dirs f a ->
  fs_lookup f (a ++ [c]) = None -> sys_exec f (SMkdir (a ++ c :: more)) = (f, Err ENOENT).
Proof. intros. simpl. rewrite resolve_missing by auto. auto. Qed.

Lemma exec_rename_ok : forall f p q c, p <> [] -> path_ok p -> all_dirs f (dirname p) ->
  fs_lookup f p = Some (File c) -> q <> [] -> path_ok q -> all_dirs f (dirname q) ->
  fs_lookup f q <> Some Dir ->
  sys_exec f (SRename p q) = (fs_set (fs_remove f p) q (File c), Ok RVUnit).
Proof.
  intros. simpl. rewrite resolve_ok by auto. rewrite H2. rewrite resolve_ok by auto.
  destruct (fs_lookup f q) as [[c'|]|]; auto. congruence.
Qed.

Lemma exec_rename_missing : forall f p c a x more, p <> [] -> path_ok p -> all_dirs f (dirname p) ->
  fs_lookup f p = Some (File c) -> more <> [] -> path_ok (a ++ x :: more) -> all_dirs f a ->
  fs_lookup f (a ++ [x]) = None ->
  sys_exec f (SRename p (a ++ x :: more)) = (f, Err ENOENT).
Proof. intros. simpl. rewrite resolve_ok by auto. rewrite H2. rewrite resolve_missing by auto. auto. Qed.

(* ------------------------------------------------------------------ deterministic stepping *)

Section Seq.
  Variable env : wenv.

  Definition step1 (x : fs * wpc) : fs * wpc :=
    match w_next env (snd x) with
    | None => x
    | Some s => let '(f1, r) := sys_exec (fst x) s in (f1, w_step env (snd x) r)
    end.

  Fixpoint iter (n : nat) (x : fs * wpc) : fs * wpc :=
    match n with O => x | S k => iter k (step1 x) end.

  Lemma iter_add : forall a b x, iter (a + b) x = iter b (iter a x).
  Proof. induction a; intros; simpl; auto. Qed.

  Lemma iter_done : forall n f r, iter n (f, WDone r) = (f, WDone r).
  Proof. induction n; intros; simpl; auto. unfold step1. simpl. apply IHn. Qed.

  (* reaching WDone within the fuel determines the result of w_run *)
  Lemma w_run_iter : forall fuel n f pc log f' r, (n < fuel)%nat ->
    iter n (f, pc) = (f', WDone r) ->
    exists log', w_run fuel env f pc log = (f', r, log').
  Proof.
    induction fuel; intros n f pc log f' r Hn H. lia.
    cbn [w_run]. destruct (w_next env pc) as [s|] eqn:NX.
    - destruct n.
      + simpl in H. inversion H; subst. simpl in NX. discriminate.
      + cbn [iter] in H. unfold step1 in H. cbn [fst snd] in H. rewrite NX in H.
        destruct (sys_exec f s) as [f1 r1]. eapply IHfuel; eauto. lia.
    - destruct pc; simpl in NX; try discriminate. { destruct chunks; discriminate. }
      rewrite iter_done in H. inversion H; subst. eauto.
  Qed.

  (* x reaches y in at most k steps *)
  Definition reach (k : nat) (x y : fs * wpc) : Prop := exists n, (n <= k)%nat /\ iter n x = y.

  Lemma reach_refl : forall x, reach 0 x x.
  Proof. intros. exists 0%nat. split; auto. Qed.

  Lemma reach_trans : forall a b x y z, reach a x y -> reach b y z -> reach (a + b) x z.
  Proof.
    intros a b x y z [n [Hn H1]] [m [Hm H2]]. exists (n + m)%nat. split. lia.
    rewrite iter_add, H1. auto.
  Qed.

  Lemma reach_step : forall f pc s f1 r, w_next env pc = Some s -> sys_exec f s = (f1, r) ->
    reach 1 (f, pc) (f1, w_step env pc r).
  Proof.
    intros. exists 1%nat. split; auto. simpl. unfold step1. simpl. rewrite H, H0. auto.
  Qed.

  Lemma reach_weaken : forall a b x y, (a <= b)%nat -> reach a x y -> reach b x y.
  Proof. intros a b x y H [n [Hn E]]. exists n. split; auto. lia. Qed.
End Seq.

(* ------------------------------------------------------------------ well-formed stores *)

Definition fs_wf (f : fs) : Prop :=
  forall p n, p <> [] -> fs_lookup f p = Some n -> fs_lookup f (dirname p) = Some Dir.

Lemma dirname_snoc : forall (q : list (list N)) c, dirname (q ++ [c]) = q.
Proof. intros. unfold dirname. apply removelast_last. Qed.

Lemma wf_all_dirs : forall f q, fs_wf f -> fs_lookup f q = Some Dir -> all_dirs f q.
Proof.
  intros f q W. induction q as [|c q' IH] using rev_ind; intros L.
  - apply all_dirs_nil.
  - apply all_dirs_snoc; auto. apply IH.
    pose proof (W (q' ++ [c]) Dir) as X. rewrite dirname_snoc in X. apply X; auto.
    destruct q'; discriminate.
Qed.

Lemma wf_absent_ext : forall f a b, fs_wf f -> a <> [] -> fs_lookup f a = None -> fs_lookup f (a ++ b) = None.
Proof.
  intros f a b W N L. induction b as [|x b' IH] using rev_ind.
  - rewrite app_nil_r. auto.
  - destruct (fs_lookup f (a ++ b' ++ [x])) as [n|] eqn:E; auto.
    pose proof (W (a ++ b' ++ [x]) n) as X. rewrite app_assoc in X. rewrite dirname_snoc in X.
    rewrite <- app_assoc in X. rewrite X in IH. discriminate.
    destruct a; discriminate. auto.
Qed.

Definition same_except (f g : fs) (st : list (list N)) : Prop :=
  forall p, p <> st -> fs_lookup g p = fs_lookup f p.

Lemma all_dirs_transfer : forall f g q, (forall n, (0 < n <= length q)%nat -> fs_lookup g (firstn n q) = fs_lookup f (firstn n q)) ->
  all_dirs f q -> all_dirs g q.
Proof. intros f g q H D n Hn. rewrite H by auto. apply D. auto. Qed.

Lemma all_dirs_same_except : forall f g st q, same_except f g st -> fs_lookup f st <> Some Dir ->
  all_dirs f q -> all_dirs g q.
Proof.
  intros f g st q S N D. eapply all_dirs_transfer; [|exact D]. intros n Hn. apply S.
  intros E. apply N. rewrite <- E. apply D. auto.
Qed.

Lemma plain_no_nul : forall c, plain c -> existsb (N.eqb 0) c = false.
Proof.
  intros c [_ H]. induction H; simpl; auto. destruct H as [_ [_ Z]].
  destruct (N.eqb 0 x) eqn:E.
  - apply N.eqb_eq in E. congruence.
  - simpl. auto.
Qed.

Lemma temp_comp_ok : comp_ok temp_name.
Proof. split; reflexivity. Qed.

(* the path of a storable key, with the facts the kernel cares about *)
Lemma keypath_full : forall cfg k d, keypath cfg k d -> (lenN (enc_key cfg k) <=? name_max)%N = true ->
  exists cs, d = f_base cfg ++ cs ++ [enc_key cfg k] /\ length cs = shard_depth (f_shard cfg) /\
             Forall plain cs /\ path_ok (cs ++ [enc_key cfg k]).
Proof.
  intros cfg k d [P [L E]] S. unfold path_for_key in E.
  destruct (shard_apply_spec (f_shard cfg) (enc_key cfg k) L) as [cs [E2 [L2 F]]].
  rewrite E2 in E.
  assert (FP : Forall plain cs).
  { eapply Forall_impl; [|exact F]. intros c Hc. eapply shard_comp_plain; eauto. }
  rewrite join_clean_plain in E by (apply Forall_app; split; auto).
  inversion E. exists cs. repeat split; auto.
  apply path_ok_app. split.
  - rewrite Forall_forall in *. intros c Hin. split.
    + destruct (F c Hin) as [_ [LL _]]. apply N.leb_le. unfold lenN, name_max. lia.
    + apply plain_no_nul. auto.
  - repeat constructor; auto. apply plain_no_nul. auto.
Qed.
