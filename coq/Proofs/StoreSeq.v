(* Proofs/StoreSeq.v — sequential functional correctness of the writer machine (Put / PutVec /
   PutStream+commit) on a well-formed store: it terminates with success, the key path then holds
   exactly the content, everything else that existed is unchanged.  Used by the refinement theorem
   of the file-system store (C17) and by "the store stays usable" (C18). *)
Require Import IP.Base.Bytes IP.Base.GoSem IP.Gen.FromGo IP.Store.Storage IP.Store.FsStore IP.Store.FsCrash.
Require Import IP.Proofs.StoreBase IP.Proofs.StoreMem IP.Proofs.StoreFs IP.Proofs.StoreCrash.
From Coq Require Import Lia List Bool Arith.
Import ListNotations.

(* ------------------------------------------------------------------ path resolution, evaluated *)

Definition all_dirs (f : fs) (q : list (list N)) : Prop :=
  forall n, (0 < n <= length q)%nat -> fs_lookup f (firstn n q) = Some Dir.

Definition comp_ok (c : list N) : Prop := (lenN c <=? name_max)%N = true /\ existsb (N.eqb 0) c = false.
Definition path_ok (p : list (list N)) : Prop := Forall comp_ok p.

Lemma path_ok_nul : forall p, path_ok p -> has_nul p = false.
Proof.
  induction p; intros H; simpl; auto. inversion H; subst. destruct H2 as [_ H2]. rewrite H2. simpl. auto.
Qed.

Lemma path_ok_short : forall p, path_ok p -> Forall (fun c => (lenN c <=? name_max)%N = true) p.
Proof. intros p H. eapply Forall_impl; [|exact H]. intros c [A _]. exact A. Qed.

Lemma path_ok_app : forall a b, path_ok (a ++ b) <-> path_ok a /\ path_ok b.
Proof. intros. unfold path_ok. apply Forall_app. Qed.

Lemma all_dirs_nil : forall f, all_dirs f [].
Proof. intros f n H. simpl in H. lia. Qed.

Lemma all_dirs_prefix : forall f a b, all_dirs f (a ++ b) -> all_dirs f a.
Proof.
  intros f a b H n Hn. specialize (H n). rewrite firstn_app in H.
  replace (n - length a)%nat with 0%nat in H by lia. simpl in H. rewrite app_nil_r in H.
  apply H. rewrite app_length. lia.
Qed.

Lemma all_dirs_snoc : forall f a c, all_dirs f a -> fs_lookup f (a ++ [c]) = Some Dir -> all_dirs f (a ++ [c]).
Proof.
  intros f a c H L n Hn. rewrite app_length in Hn. simpl in Hn.
  destruct (Nat.eq_dec n (length a + 1)).
  - subst n. rewrite firstn_all2 by (rewrite app_length; simpl; lia). auto.
  - rewrite firstn_app. replace (n - length a)%nat with 0%nat by lia. simpl. rewrite app_nil_r.
    apply H. lia.
Qed.

Lemma all_dirs_self : forall f q, q <> [] -> all_dirs f q -> fs_lookup f q = Some Dir.
Proof.
  intros f q N H. specialize (H (length q)). rewrite firstn_all in H. apply H.
  destruct q; try congruence. simpl. lia.
Qed.

Lemma resolve_unfold : forall f p, p <> [] ->
  resolve f p = if has_nul p then Err EINVAL else
                match walk_from f [] (dirname p) with
                | Err e => Err e
                | Ok _ => if (name_max <? lenN (last_comp p))%N then Err ENAMETOOLONG else Ok (fs_lookup f p)
                end.
Proof. intros f p H. unfold resolve. destruct p; [congruence|reflexivity]. Qed.

Lemma resolve_ok : forall f p, p <> [] -> path_ok p -> all_dirs f (dirname p) ->
  resolve f p = Ok (fs_lookup f p).
Proof.
  intros f p N P D. unfold resolve. rewrite (path_ok_nul p P).
  destruct p as [|c p']; try congruence.
  destruct (exists_last N) as [q [lc E]]. rewrite E in *.
  unfold dirname in *. rewrite removelast_last in *.
  apply path_ok_app in P. destruct P as [P1 P2].
  rewrite walk_from_dirs.
  - unfold last_comp. rewrite last_last. inversion P2; subst. destruct H1 as [S _].
    apply N.leb_le in S. destruct (name_max <? lenN lc)%N eqn:X; auto. apply N.ltb_lt in X. lia.
  - intros n Hn. simpl. apply D. auto.
  - apply path_ok_short. auto.
Qed.

Lemma walk_from_app : forall f b a pre,
  walk_from f pre (a ++ b) = match walk_from f pre a with Ok _ => walk_from f (pre ++ a) b | Err e => Err e end.
Proof.
  induction a; intros pre; simpl.
  - rewrite app_nil_r. auto.
  - destruct (name_max <? lenN a)%N; auto.
    destruct (fs_lookup f (pre ++ [a])) as [[c|]|]; auto.
    rewrite IHa. rewrite <- app_assoc. auto.
Qed.

(* an ancestor is missing below a chain of directories: ENOENT *)
Lemma resolve_missing : forall f a c more, more <> [] -> path_ok (a ++ c :: more) -> all_dirs f a ->
  fs_lookup f (a ++ [c]) = None -> resolve f (a ++ c :: more) = Err ENOENT.
Proof.
  intros f a c more N P D L. rewrite resolve_unfold by (destruct a; discriminate).
  rewrite (path_ok_nul _ P).
  destruct (exists_last N) as [m' [lc E]]. subst more.
  unfold dirname. replace (a ++ c :: m' ++ [lc]) with ((a ++ c :: m') ++ [lc]) by (rewrite <- app_assoc; auto).
  rewrite removelast_last.
  replace (a ++ c :: m') with (a ++ [c] ++ m') by auto.
  rewrite walk_from_app. simpl app at 1.
  assert (PA : path_ok a /\ comp_ok c).
  { apply path_ok_app in P. destruct P as [P1 P2]. inversion P2; subst. auto. }
  destruct PA as [PA [PC _]].
  rewrite walk_from_dirs; [|intros n Hn; apply D; auto|apply path_ok_short; auto].
  rewrite walk_from_app. simpl.
  apply N.leb_le in PC. destruct (name_max <? lenN c)%N eqn:X. { apply N.ltb_lt in X. lia. }
  rewrite L. auto.
Qed.

(* ---- the system calls, evaluated ---- *)

Lemma exec_creat_ok : forall f p, p <> [] -> path_ok p -> all_dirs f (dirname p) -> fs_lookup f p = None ->
  sys_exec f (SCreat p) = (fs_set f p (File []), Ok RVUnit).
Proof. intros. simpl. rewrite resolve_ok by auto. rewrite H2. auto. Qed.

Lemma exec_write_ok : forall f p c old, fs_lookup f p = Some (File old) ->
  sys_exec f (SWrite p c) = (fs_set f p (File (old ++ c)), Ok RVUnit).
Proof. intros. simpl. rewrite H. auto. Qed.

Lemma exec_lstat_ok : forall f p, p <> [] -> path_ok p -> all_dirs f (dirname p) ->
  sys_exec f (SLstat p) = (f, match fs_lookup f p with Some n => Ok (RVNode n) | None => Err ENOENT end).
Proof. intros. simpl. rewrite resolve_ok by auto. destruct (fs_lookup f p); auto. Qed.

Lemma exec_lstat_missing : forall f a c more, more <> [] -> path_ok (a ++ c :: more) -> all_dirs f a ->
  fs_lookup f (a ++ [c]) = None -> sys_exec f (SLstat (a ++ c :: more)) = (f, Err ENOENT).
Proof. intros. simpl. rewrite resolve_missing by auto. auto. Qed.

Lemma exec_mkdir_ok : forall f p, p <> [] -> path_ok p -> all_dirs f (dirname p) -> fs_lookup f p = None ->
  sys_exec f (SMkdir p) = (fs_set f p Dir, Ok RVUnit).
Proof. intros. simpl. rewrite resolve_ok by auto. rewrite H2. auto. Qed.

Lemma exec_mkdir_missing : forall f a c more, more <> [] -> path_ok (a ++ c :: more) -> all_dirs f a ->
  fs_lookup f (a ++ [c]) = None -> sys_exec f (SMkdir (a ++ c :: more)) = (f, Err ENOENT).
Proof. intros. simpl. rewrite resolve_missing by auto. auto. Qed.

Lemma exec_rename_ok : forall f p q c, p <> [] -> path_ok p -> all_dirs f (dirname p) ->
  fs_lookup f p = Some (File c) -> q <> [] -> path_ok q -> all_dirs f (dirname q) ->
  fs_lookup f q <> Some Dir ->
  sys_exec f (SRename p q) = (fs_set (fs_remove f p) q (File c), Ok RVUnit).
Proof.
  intros. simpl. rewrite resolve_ok by auto. rewrite H2. rewrite resolve_ok by auto.
  destruct (fs_lookup f q) as [[c'|]|]; auto. congruence.
Qed.

Lemma exec_rename_missing : forall f p c a x more, p <> [] -> path_ok p -> all_dirs f (dirname p) ->
  fs_lookup f p = Some (File c) -> more <> [] -> path_ok (a ++ x :: more) -> all_dirs f a ->
  fs_lookup f (a ++ [x]) = None ->
  sys_exec f (SRename p (a ++ x :: more)) = (f, Err ENOENT).
Proof. intros. simpl. rewrite resolve_ok by auto. rewrite H2. rewrite resolve_missing by auto. auto. Qed.

(* ------------------------------------------------------------------ deterministic stepping *)

Section Seq.
  Variable env : wenv.

  Definition step1 (x : fs * wpc) : fs * wpc :=
    match w_next env (snd x) with
    | None => x
    | Some s => let '(f1, r) := sys_exec (fst x) s in (f1, w_step env (snd x) r)
    end.

  Fixpoint iter (n : nat) (x : fs * wpc) : fs * wpc :=
    match n with O => x | S k => iter k (step1 x) end.

  Lemma iter_add : forall a b x, iter (a + b) x = iter b (iter a x).
  Proof. induction a; intros; simpl; auto. Qed.

  Lemma iter_done : forall n f r, iter n (f, WDone r) = (f, WDone r).
  Proof. induction n; intros; simpl; auto. unfold step1. simpl. apply IHn. Qed.

  (* reaching WDone within the fuel determines the result of w_run *)
  Lemma w_run_iter : forall fuel n f pc log f' r, (n < fuel)%nat ->
    iter n (f, pc) = (f', WDone r) ->
    exists log', w_run fuel env f pc log = (f', r, log').
  Proof.
    induction fuel; intros n f pc log f' r Hn H. lia.
    cbn [w_run]. destruct (w_next env pc) as [s|] eqn:NX.
    - destruct n.
      + simpl in H. inversion H; subst. simpl in NX. discriminate.
      + cbn [iter] in H. unfold step1 in H. cbn [fst snd] in H. rewrite NX in H.
        destruct (sys_exec f s) as [f1 r1]. eapply IHfuel; eauto. lia.
    - destruct pc; simpl in NX; try discriminate. { destruct chunks; discriminate. }
      rewrite iter_done in H. inversion H; subst. eauto.
  Qed.

  (* x reaches y in at most k steps *)
  Definition reach (k : nat) (x y : fs * wpc) : Prop := exists n, (n <= k)%nat /\ iter n x = y.

  Lemma reach_refl : forall x, reach 0 x x.
  Proof. intros. exists 0%nat. split; auto. Qed.

  Lemma reach_trans : forall a b x y z, reach a x y -> reach b y z -> reach (a + b) x z.
  Proof.
    intros a b x y z [n [Hn H1]] [m [Hm H2]]. exists (n + m)%nat. split. lia.
    rewrite iter_add, H1. auto.
  Qed.

  Lemma reach_step : forall f pc s f1 r, w_next env pc = Some s -> sys_exec f s = (f1, r) ->
    reach 1 (f, pc) (f1, w_step env pc r).
  Proof.
    intros. exists 1%nat. split; auto. simpl. unfold step1. simpl. rewrite H, H0. auto.
  Qed.

  Lemma reach_weaken : forall a b x y, (a <= b)%nat -> reach a x y -> reach b x y.
  Proof. intros a b x y H [n [Hn E]]. exists n. split; auto. lia. Qed.
End Seq.

(* ------------------------------------------------------------------ well-formed stores *)

Definition fs_wf (f : fs) : Prop :=
  forall p n, p <> [] -> fs_lookup f p = Some n -> fs_lookup f (dirname p) = Some Dir.

Lemma dirname_snoc : forall (q : list (list N)) c, dirname (q ++ [c]) = q.
Proof. intros. unfold dirname. apply removelast_last. Qed.

Lemma wf_all_dirs : forall f q, fs_wf f -> fs_lookup f q = Some Dir -> all_dirs f q.
Proof.
  intros f q W. induction q as [|c q' IH] using rev_ind; intros L.
  - apply all_dirs_nil.
  - apply all_dirs_snoc; auto. apply IH.
    pose proof (W (q' ++ [c]) Dir) as X. rewrite dirname_snoc in X. apply X; auto.
    destruct q'; discriminate.
Qed.

Lemma wf_absent_ext : forall f a b, fs_wf f -> a <> [] -> fs_lookup f a = None -> fs_lookup f (a ++ b) = None.
Proof.
  intros f a b W N L. induction b as [|x b' IH] using rev_ind.
  - rewrite app_nil_r. auto.
  - destruct (fs_lookup f (a ++ b' ++ [x])) as [n|] eqn:E; auto.
    pose proof (W (a ++ b' ++ [x]) n) as X. rewrite app_assoc in X. rewrite dirname_snoc in X.
    rewrite <- app_assoc in X. rewrite X in IH. discriminate.
    destruct a; discriminate. auto.
Qed.

Definition same_except (f g : fs) (st : list (list N)) : Prop :=
  forall p, p <> st -> fs_lookup g p = fs_lookup f p.

Lemma all_dirs_transfer : forall f g q, (forall n, (0 < n <= length q)%nat -> fs_lookup g (firstn n q) = fs_lookup f (firstn n q)) ->
  all_dirs f q -> all_dirs g q.
Proof. intros f g q H D n Hn. rewrite H by auto. apply D. auto. Qed.

Lemma all_dirs_same_except : forall f g st q, same_except f g st -> fs_lookup f st <> Some Dir ->
  all_dirs f q -> all_dirs g q.
Proof.
  intros f g st q S N D. eapply all_dirs_transfer; [|exact D]. intros n Hn. apply S.
  intros E. apply N. rewrite <- E. apply D. auto.
Qed.

Lemma plain_no_nul : forall c, plain c -> existsb (N.eqb 0) c = false.
Proof.
  intros c [_ H]. induction H; [reflexivity|]. destruct H as [_ [_ Z]].
  cbn [existsb]. rewrite IHForall. destruct x; [congruence|reflexivity].
Qed.

Lemma temp_comp_ok : comp_ok temp_name.
Proof. split; reflexivity. Qed.

(* the path of a storable key, with the facts the kernel cares about *)
Lemma keypath_full : forall cfg k d, keypath cfg k d -> (lenN (enc_key cfg k) <=? name_max)%N = true ->
  exists cs, d = f_base cfg ++ cs ++ [enc_key cfg k] /\ length cs = shard_depth (f_shard cfg) /\
             Forall plain cs /\ path_ok (cs ++ [enc_key cfg k]).
Proof.
  intros cfg k d [_ [P [L E]]] S. unfold path_for_key in E.
  destruct (shard_apply_spec (f_shard cfg) (enc_key cfg k) L) as [cs [E2 [L2 F]]].
  rewrite E2 in E.
  assert (FP : Forall plain cs).
  { eapply Forall_impl; [|exact F]. intros c Hc. eapply shard_comp_plain; eauto. }
  rewrite join_clean_plain in E by (apply Forall_app; split; auto).
  inversion E. exists cs. repeat split; auto.
  apply path_ok_app. split.
  - unfold path_ok. apply Forall_forall. intros c Hin. rewrite Forall_forall in F, FP. split.
    + destruct (F c Hin) as [_ [LL _]]. apply N.leb_le. unfold lenN, name_max. lia.
    + apply plain_no_nul. auto.
  - constructor; [|constructor]. split; auto. apply plain_no_nul. auto.
Qed.

(* ------------------------------------------------------------------ one Put, alone *)

Section Put.
  Variable cfg : fscfg.
  Variable env : wenv.
  Variable d : list (list N).
  Variable cs : list (list N).
  Variable e : list N.
  Hypothesis base_ok : path_ok (f_base cfg).
  Hypothesis env_base : we_base env = f_base cfg.
  Hypothesis env_dest : we_dest env = Some d.
  Hypothesis d_shape : d = f_base cfg ++ cs ++ [e].
  Hypothesis cs_ne : cs <> [].
  Hypothesis d_ok : path_ok (cs ++ [e]).
  Hypothesis name_ok : comp_ok (we_names env 0).

  Definition stp : list (list N) := stage_path (f_base cfg) (we_names env 0).

  Lemma stp_ok : path_ok stp.
  Proof.
    unfold stp, stage_path. apply path_ok_app. split; auto.
    constructor. apply temp_comp_ok. constructor; auto.
  Qed.

  Lemma stp_nonnil : stp <> [].
  Proof. unfold stp, stage_path. destruct (f_base cfg); discriminate. Qed.

  Lemma stp_dirname : dirname stp = staging_dir (f_base cfg).
  Proof.
    unfold stp, stage_path, staging_dir.
    replace (f_base cfg ++ [temp_name; we_names env 0]) with ((f_base cfg ++ [temp_name]) ++ [we_names env 0])
      by (rewrite <- app_assoc; auto).
    apply dirname_snoc.
  Qed.

  Lemma d_path_ok : path_ok d.
  Proof. rewrite d_shape. apply path_ok_app. auto. Qed.

  Lemma d_nonnil : d <> [].
  Proof.
    rewrite d_shape. intros X. apply app_eq_nil in X. destruct X as [_ X].
    apply app_eq_nil in X. destruct X; discriminate.
  Qed.

  Lemma w_dest_d : w_dest env = d.
  Proof. unfold w_dest. rewrite env_dest. auto. Qed.

  (* the write loop *)
  Lemma writes : forall rest done g, rest <> [] -> fs_lookup g stp = Some (File done) ->
    exists g', reach env (length rest) (g, WWrite stp rest) (g', WClose stp None) /\
               fs_lookup g' stp = Some (File (done ++ concat rest)) /\ same_except g g' stp.
  Proof.
    induction rest as [|c rest IH]; intros done g N L. congruence.
    pose proof (exec_write_ok g stp c done L) as X.
    destruct rest as [|c2 rest'].
    - exists (fs_set g stp (File (done ++ c))). split; [|split].
      + exact (reach_step env g (WWrite stp [c]) _ _ _ eq_refl X).
      + rewrite lookup_set_same by apply stp_nonnil. simpl. rewrite app_nil_r. auto.
      + intros p Hp. apply lookup_set_other. auto.
    - destruct (IH (done ++ c) (fs_set g stp (File (done ++ c)))) as [g' [R [L' S]]].
      + discriminate.
      + apply lookup_set_same. apply stp_nonnil.
      + exists g'. split; [|split].
        * pose proof (reach_step env g (WWrite stp (c :: c2 :: rest')) _ _ _ eq_refl X) as R0.
          replace (length (c :: c2 :: rest')) with (1 + length (c2 :: rest'))%nat by auto.
          eapply reach_trans; [exact R0|]. simpl. exact R.
        * rewrite L'. simpl. rewrite <- app_assoc. auto.
        * intros p Hp. rewrite S by auto. apply lookup_set_other. auto.
  Qed.

  (* create, write everything, close *)
  Lemma phase_write : forall f chunks, all_dirs f (staging_dir (f_base cfg)) -> fs_lookup f stp = None ->
    exists g, reach env (length chunks + 2) (f, WCreate 0 chunks) (g, WLstatNew stp false) /\
              fs_lookup g stp = Some (File (concat chunks)) /\ same_except f g stp.
  Proof.
    intros f chunks D L.
    assert (X : sys_exec f (SCreat stp) = (fs_set f stp (File []), Ok RVUnit)).
    { apply exec_creat_ok; auto. apply stp_nonnil. apply stp_ok. rewrite stp_dirname. auto. }
    assert (R1 : reach env 1 (f, WCreate 0 chunks) (fs_set f stp (File []), after_create stp chunks)).
    { assert (NX : w_next env (WCreate 0 chunks) = Some (SCreat stp)).
      { simpl. rewrite env_base. reflexivity. }
      pose proof (reach_step env f (WCreate 0 chunks) _ _ _ NX X) as R0.
      simpl in R0. rewrite env_base in R0. exact R0. }
    assert (CL : forall g, reach env 1 (g, WClose stp None) (g, WLstatNew stp false)).
    { intros g. assert (Y : sys_exec g (SClose stp) = (g, Ok RVUnit)) by reflexivity.
      pose proof (reach_step env g (WClose stp None) _ _ _ eq_refl Y) as R0.
      simpl in R0. rewrite env_dest in R0. exact R0. }
    destruct chunks as [|c rest].
    - exists (fs_set f stp (File [])). split; [|split].
      + replace (length (@nil (list N)) + 2)%nat with (1 + 1)%nat by auto.
        eapply reach_trans; [exact R1|]. simpl. apply CL.
      + apply lookup_set_same. apply stp_nonnil.
      + intros p Hp. apply lookup_set_other. auto.
    - destruct (writes (c :: rest) [] (fs_set f stp (File []))) as [g [R [L' S]]].
      + discriminate.
      + apply lookup_set_same. apply stp_nonnil.
      + exists g. split; [|split].
        * replace (length (c :: rest) + 2)%nat with (1 + (length (c :: rest) + 1))%nat by lia.
          eapply reach_trans; [exact R1|]. eapply reach_trans; [exact R|]. apply CL.
        * exact L'.
        * intros p Hp. rewrite S by auto. apply lookup_set_other. auto.
  Qed.

  (* the missing directories: haveDir going down *)
  Definition ups (E : list (list N)) (ms : list (list N)) : list (list (list N)) :=
    map (fun i => E ++ firstn i ms) (seq 2 (length ms - 1)).

  Lemma ups_snoc : forall E ms m, ms <> [] -> ups E (ms ++ [m]) = ups E ms ++ [E ++ ms ++ [m]].
  Proof.
    intros E ms m N. unfold ups. rewrite app_length. cbn [length].
    assert (H : (length ms + 1 - 1 = S (length ms - 1))%nat) by (destruct ms; [congruence|simpl; lia]).
    rewrite H. rewrite seq_S, map_app. cbn [map]. f_equal.
    - apply map_ext_in. intros i Hi. apply in_seq in Hi. f_equal.
      rewrite firstn_app. replace (i - length ms)%nat with 0%nat by lia. cbn [firstn]. apply app_nil_r.
    - f_equal. f_equal. apply firstn_all2. rewrite app_length. cbn [length].
      destruct ms; [congruence|simpl; lia].
  Qed.

  Lemma down : forall ms E stack g,
    ms <> [] -> path_ok (E ++ ms) -> all_dirs g E ->
    (forall i, (0 < i <= length ms)%nat -> fs_lookup g (E ++ firstn i ms) = None) ->
    reach env (length ms) (g, WDirDown stp (E ++ ms) stack)
          (fs_set g (E ++ firstn 1 ms) Dir, have_ret stp (Ok tt) (ups E ms ++ stack)).
  Proof.
    induction ms as [|m ms0 IH] using rev_ind; intros E stack g N P D A. congruence.
    destruct ms0 as [|m0 ms1].
    - (* one missing component: its parent exists, mkdir succeeds *)
      simpl app. simpl firstn.
      assert (X : sys_exec g (SMkdir (E ++ [m])) = (fs_set g (E ++ [m]) Dir, Ok RVUnit)).
      { apply exec_mkdir_ok; auto. destruct E; discriminate. rewrite dirname_snoc. auto.
        specialize (A 1%nat). simpl in A. apply A. lia. }
      exact (reach_step env g (WDirDown stp (E ++ [m]) stack) _ _ _ eq_refl X).
    - (* the parent is missing too: ENOENT, recurse on the parent, remember this one *)
      assert (X : sys_exec g (SMkdir (E ++ (m0 :: ms1) ++ [m])) = (g, Err ENOENT)).
      { replace (E ++ (m0 :: ms1) ++ [m]) with (E ++ m0 :: (ms1 ++ [m])) by auto.
        apply exec_mkdir_missing; auto. destruct ms1; discriminate.
        specialize (A 1%nat). simpl in A. apply A. rewrite app_length. simpl. lia. }
      assert (DN : dirname (E ++ m0 :: ms1 ++ [m]) = E ++ m0 :: ms1).
      { change (E ++ m0 :: ms1 ++ [m]) with (E ++ (m0 :: ms1) ++ [m]). rewrite app_assoc. apply dirname_snoc. }
      assert (X' : reach env 1 (g, WDirDown stp (E ++ (m0 :: ms1) ++ [m]) stack)
                     (g, WDirDown stp (E ++ m0 :: ms1) ((E ++ (m0 :: ms1) ++ [m]) :: stack))).
      { pose proof (reach_step env g (WDirDown stp (E ++ (m0 :: ms1) ++ [m]) stack) _ _ _ eq_refl X) as X0.
        simpl w_step in X0. rewrite DN in X0. exact X0. }
      assert (R := IH E ((E ++ (m0 :: ms1) ++ [m]) :: stack) g).
      rewrite app_length. cbn [length]. replace (S (length ms1) + 1)%nat with (1 + S (length ms1))%nat by lia.
      eapply reach_trans; [exact X'|].
      rewrite ups_snoc by discriminate. rewrite <- app_assoc.
      change (firstn 1 ((m0 :: ms1) ++ [m])) with (firstn 1 (m0 :: ms1)).
      apply R.
      + discriminate.
      + rewrite app_assoc in P. apply path_ok_app in P. tauto.
      + auto.
      + intros i Hi. specialize (A i). rewrite firstn_app in A.
        replace (i - length (m0 :: ms1))%nat with 0%nat in A by lia. simpl firstn at 2 in A.
        rewrite app_nil_r in A. apply A. rewrite app_length. simpl in *. lia.
  Qed.

  Lemma firstn_succ_snoc : forall {A} (l : list A) j, (j < length l)%nat ->
    exists x, firstn (S j) l = firstn j l ++ [x].
  Proof.
    induction l; intros j H; simpl in H. lia.
    destruct j. exists a. reflexivity.
    destruct (IHl j) as [x E]. lia. exists x.
    change (firstn (S (S j)) (a :: l)) with (a :: firstn (S j) l). rewrite E. reflexivity.
  Qed.

  Lemma app_firstn_neq : forall (E : list (list N)) ms i j, (i <= length ms)%nat -> (j <= length ms)%nat -> i <> j ->
    E ++ firstn i ms <> E ++ firstn j ms.
  Proof.
    intros E ms i j Hi Hj N X. apply app_inv_head in X.
    assert (L : length (firstn i ms) = length (firstn j ms)) by congruence.
    rewrite !firstn_length in L. lia.
  Qed.

  (* haveDir coming back up: the remembered directories are made one after the other *)
  Lemma up : forall E ms k j g stack,
    (1 <= j)%nat -> (j + k <= length ms)%nat -> path_ok (E ++ ms) ->
    all_dirs g (E ++ firstn j ms) ->
    (forall i, (j < i <= j + k)%nat -> fs_lookup g (E ++ firstn i ms) = None) ->
    exists g', reach env k (g, have_ret stp (Ok tt) (map (fun i => E ++ firstn i ms) (seq (S j) k) ++ stack))
                     (g', have_ret stp (Ok tt) stack) /\
               all_dirs g' (E ++ firstn (j + k) ms) /\
               (forall p, (forall i, (j < i <= j + k)%nat -> p <> E ++ firstn i ms) -> fs_lookup g' p = fs_lookup g p).
  Proof.
    intros E ms k. induction k as [|k IH]; intros j g stack J K P D A.
    - exists g. simpl. rewrite Nat.add_0_r. split; [apply reach_refl|]. split; auto.
    - cbn [seq map app].
      destruct (firstn_succ_snoc ms j) as [x FX]. lia.
      set (q := E ++ firstn (S j) ms).
      assert (QN : q <> []). { unfold q. rewrite FX. destruct E; destruct (firstn j ms); discriminate. }
      assert (QD : dirname q = E ++ firstn j ms).
      { unfold q. rewrite FX. rewrite app_assoc. apply dirname_snoc. }
      assert (QP : path_ok q).
      { unfold q. apply path_ok_app in P. destruct P as [P1 P2]. apply path_ok_app. split; auto.
        unfold path_ok. apply Forall_firstn. auto. }
      assert (X : sys_exec g (SMkdir q) = (fs_set g q Dir, Ok RVUnit)).
      { apply exec_mkdir_ok; auto. rewrite QD. auto. apply A. lia. }
      pose proof (reach_step env g (WDirUp stp q (map (fun i => E ++ firstn i ms) (seq (S (S j)) k) ++ stack))
                    _ _ _ eq_refl X) as R0.
      cbn [w_step strip] in R0.
      destruct (IH (S j) (fs_set g q Dir) stack) as [g' [R [D' F']]].
      + lia.
      + lia.
      + auto.
      + unfold q in *. rewrite FX. rewrite app_assoc. apply all_dirs_snoc.
        * eapply all_dirs_transfer; [|exact D]. intros n Hn. apply lookup_set_other.
          rewrite <- app_assoc. rewrite <- FX. intros X0.
          assert (L : length (E ++ firstn (S j) ms) = length (firstn n (E ++ firstn j ms))) by congruence.
          rewrite firstn_length, !app_length, !firstn_length in L. lia.
        * rewrite <- app_assoc, <- FX. apply lookup_set_same. auto.
      + intros i Hi. rewrite lookup_set_other. apply A. lia.
        unfold q. apply app_firstn_neq; lia.
      + exists g'. split; [|split].
        * replace (S k) with (1 + k)%nat by lia. eapply reach_trans; [exact R0|exact R].
        * replace (j + S k)%nat with (S j + k)%nat by lia. exact D'.
        * intros p Hp. rewrite F'. apply lookup_set_other. intros X0. apply (Hp (S j)). lia. auto.
          intros i Hi. apply Hp. lia.
  Qed.
  Lemma firstn_skipn_add : forall {A} (l : list A) j i, firstn j l ++ firstn i (skipn j l) = firstn (j + i) l.
  Proof.
    induction l; intros j i; simpl.
    - destruct j; destruct i; reflexivity.
    - destruct j; simpl; auto. f_equal. apply IHl.
  Qed.

  (* where the chain of existing directories towards the destination stops *)
  Lemma split_point : forall f, fs_wf f -> all_dirs f (f_base cfg) ->
    (forall j c, (0 < j <= length cs)%nat -> fs_lookup f (f_base cfg ++ firstn j cs) <> Some (File c)) ->
    all_dirs f (f_base cfg ++ cs) \/
    exists j, (j < length cs)%nat /\ all_dirs f (f_base cfg ++ firstn j cs) /\
              forall i, (j < i <= length cs)%nat -> fs_lookup f (f_base cfg ++ firstn i cs) = None.
  Proof.
    intros f W B. clear cs_ne d_ok d_shape. induction cs as [|c cs' IH] using rev_ind; intros NF.
    - left. rewrite app_nil_r. auto.
    - destruct (fs_lookup f (f_base cfg ++ cs' ++ [c])) as [[c0|]|] eqn:L.
      + exfalso. apply (NF (length (cs' ++ [c])) c0). rewrite app_length. simpl. lia.
        rewrite firstn_all. auto.
      + left. apply wf_all_dirs; auto.
      + right. destruct IH as [A|[j [J [A Z]]]].
        * intros j c0 Hj. specialize (NF j c0). rewrite firstn_app in NF.
          replace (j - length cs')%nat with 0%nat in NF by lia. simpl in NF. rewrite app_nil_r in NF.
          apply NF. rewrite app_length. simpl. lia.
        * exists (length cs'). rewrite app_length. simpl. split. lia. split.
          -- rewrite firstn_app, firstn_all, Nat.sub_diag. simpl. rewrite app_nil_r. auto.
          -- intros i Hi. assert (i = length cs' + 1)%nat by lia. subst i.
             rewrite firstn_all2 by (rewrite app_length; simpl; lia). auto.
        * exists j. rewrite app_length. simpl. split. lia. split.
          -- rewrite firstn_app. replace (j - length cs')%nat with 0%nat by lia. simpl. rewrite app_nil_r. auto.
          -- intros i Hi. destruct (Nat.eq_dec i (length cs' + 1)).
             ++ subst i. rewrite firstn_all2 by (rewrite app_length; simpl; lia). auto.
             ++ rewrite firstn_app. replace (i - length cs')%nat with 0%nat by lia. simpl. rewrite app_nil_r.
                apply Z. lia.
  Qed.

  (* what one successful put does to the file system *)
  Record put_post (f f' : fs) (content : list N) : Prop := {
    pp_dest : fs_lookup f' d = Some (File content);
    pp_stage : fs_lookup f' stp = None;
    pp_dirs : all_dirs f' (f_base cfg ++ cs);
    pp_frame : forall p, p <> d -> p <> stp -> (forall j, (0 < j <= length cs)%nat -> p <> f_base cfg ++ firstn j cs) ->
                 fs_lookup f' p = fs_lookup f p;
    pp_old_dirs : forall j, (0 < j <= length cs)%nat -> fs_lookup f (f_base cfg ++ firstn j cs) <> None ->
                 fs_lookup f' (f_base cfg ++ firstn j cs) = fs_lookup f (f_base cfg ++ firstn j cs)
  }.

  Lemma d_dirname : dirname d = f_base cfg ++ cs.
  Proof. rewrite d_shape. rewrite app_assoc. apply dirname_snoc. Qed.

  Lemma dirs_neq_d : forall j, f_base cfg ++ firstn j cs <> d.
  Proof.
    intros j X. rewrite d_shape in X. apply app_inv_head in X.
    assert (L : length (firstn j cs) = length (cs ++ [e])) by congruence.
    rewrite firstn_length, app_length in L. simpl in L. lia.
  Qed.

  (* from the Lstat of the destination onwards: [g] is the state with the complete staging file,
     [f] the same state without it *)
  Theorem finish_runs : forall f g content,
    fs_wf f -> all_dirs f (f_base cfg) -> fs_lookup f (staging_dir (f_base cfg)) = Some Dir ->
    fs_lookup f stp = None -> fs_lookup f d <> Some Dir ->
    (forall j c, (0 < j <= length cs)%nat -> fs_lookup f (f_base cfg ++ firstn j cs) <> Some (File c)) ->
    (forall j, (j <= length cs)%nat -> stp <> f_base cfg ++ firstn j cs) -> stp <> d ->
    fs_lookup g stp = Some (File content) -> same_except f g stp ->
    exists f', reach env (2 * length cs + 4) (g, WLstatNew stp false) (f', WDone (Ok tt)) /\
               put_post f f' content.
  Proof.
    intros f g content W B T FR ND NF SD SDd LG SG.
    assert (TD : all_dirs f (staging_dir (f_base cfg))).
    { unfold staging_dir. apply all_dirs_snoc; auto. }
    assert (FRD : fs_lookup f stp <> Some Dir) by (rewrite FR; discriminate).
    assert (TR : forall q, all_dirs f q -> all_dirs g q).
    { intros q. eapply all_dirs_same_except; eauto. }
    assert (STD : all_dirs g (dirname stp)). { rewrite stp_dirname. auto. }
    assert (GD : fs_lookup g d = fs_lookup f d) by (apply SG; auto).
    pose proof d_nonnil as DN. pose proof d_path_ok as DP. pose proof stp_nonnil as SN. pose proof stp_ok as SP.
    (* the final rename, from any state in which the parent chain exists *)
    assert (FIN : forall h second, fs_lookup h stp = Some (File content) -> all_dirs h (dirname stp) ->
              all_dirs h (f_base cfg ++ cs) -> fs_lookup h d <> Some Dir ->
              reach env 2 (h, WLstatNew stp second)
                    (fs_set (fs_remove h stp) d (File content), WDone (Ok tt))).
    { intros h second LH SH DH NH.
      assert (X1 : sys_exec h (SLstat d) = (h, match fs_lookup h d with Some n => Ok (RVNode n) | None => Err ENOENT end)).
      { apply exec_lstat_ok; auto. rewrite d_dirname. auto. }
      assert (NX1 : w_next env (WLstatNew stp second) = Some (SLstat d)) by (simpl; rewrite w_dest_d; auto).
      pose proof (reach_step env h _ _ _ _ NX1 X1) as R.
      assert (ST : w_step env (WLstatNew stp second)
                     (match fs_lookup h d with Some n => Ok (RVNode n) | None => Err ENOENT end) = WRename stp second).
      { simpl. destruct (fs_lookup h d) as [[c|]|]; auto. congruence. }
      rewrite ST in R.
      assert (X2 : sys_exec h (SRename stp d) = (fs_set (fs_remove h stp) d (File content), Ok RVUnit)).
      { apply exec_rename_ok; auto. rewrite d_dirname. auto. }
      assert (NX2 : w_next env (WRename stp second) = Some (SRename stp d)) by (simpl; rewrite w_dest_d; auto).
      pose proof (reach_step env h _ _ _ _ NX2 X2) as R2.
      simpl in R2. replace 2%nat with (1 + 1)%nat by auto. eapply reach_trans; eauto. }
    destruct (split_point f W B NF) as [AD|[j [J [AD Z]]]].
    - (* every shard directory exists: Lstat, rename *)
      assert (NG : fs_lookup g d <> Some Dir) by (rewrite GD; auto).
      pose proof (FIN g false LG STD (TR _ AD) NG) as R2.
      exists (fs_set (fs_remove g stp) d (File (content))). split.
      + eapply reach_weaken; [|exact R2]. lia.
      + constructor.
        * apply lookup_set_same; auto.
        * rewrite lookup_set_other by auto. apply lookup_remove_same; auto.
        * eapply all_dirs_transfer; [|exact (TR _ AD)]. intros n Hn.
          rewrite lookup_set_other. apply lookup_remove_other.
          -- intros X. apply FRD. rewrite X. apply AD. auto.
          -- intros X. assert (L : length d = length (firstn n (f_base cfg ++ cs))) by congruence.
             rewrite d_shape, firstn_length, !app_length in L. simpl in L. rewrite !app_length in Hn. lia.
        * intros p P1 P2 P3. rewrite lookup_set_other by auto. rewrite lookup_remove_other by auto. apply SG. auto.
        * intros j Hj _. rewrite lookup_set_other by (apply not_eq_sym; apply dirs_neq_d).
          rewrite lookup_remove_other by (apply SD; lia). apply SG. apply not_eq_sym. apply SD. lia.
    - (* directories j+1 .. are missing *)
      set (E := f_base cfg ++ firstn j cs). set (ms := skipn j cs).
      assert (MS : ms <> []). { unfold ms. intros X. assert (L := skipn_length j cs). rewrite X in L. simpl in L. lia. }
      assert (EMS : E ++ ms = f_base cfg ++ cs). { unfold E, ms. rewrite <- app_assoc. rewrite firstn_skipn. auto. }
      assert (EI : forall i, E ++ firstn i ms = f_base cfg ++ firstn (j + i) cs).
      { intros i. unfold E, ms. rewrite <- app_assoc. rewrite firstn_skipn_add. auto. }
      assert (LMS : length ms = (length cs - j)%nat) by (unfold ms; apply skipn_length).
      assert (PEM : path_ok (E ++ ms)).
      { rewrite EMS. apply path_ok_app. split; auto. apply path_ok_app in d_ok. tauto. }
      assert (ZG : forall i, (0 < i <= length ms)%nat -> fs_lookup g (E ++ firstn i ms) = None).
      { intros i Hi. rewrite EI. rewrite SG. apply Z. lia. apply not_eq_sym. apply SD. lia. }
      destruct ms as [|m ms'] eqn:MSE; try congruence.
      (* Lstat(new): ENOENT; rename: ENOENT *)
      assert (DSH : d = E ++ m :: (ms' ++ [e])).
      { rewrite d_shape. rewrite app_assoc. rewrite <- EMS. rewrite <- app_assoc. reflexivity. }
      assert (PD : path_ok (E ++ m :: ms' ++ [e])) by (rewrite <- DSH; auto).
      assert (M1 : fs_lookup g (E ++ [m]) = None). { apply (ZG 1%nat). simpl. lia. }
      assert (X1 : sys_exec g (SLstat d) = (g, Err ENOENT)).
      { rewrite DSH. apply exec_lstat_missing; auto. destruct ms'; discriminate. }
      assert (NX1 : w_next env (WLstatNew stp false) = Some (SLstat d)) by (simpl; rewrite w_dest_d; auto).
      pose proof (reach_step env g _ _ _ _ NX1 X1) as R2. cbn [w_step] in R2.
      assert (X2 : sys_exec g (SRename stp d) = (g, Err ENOENT)).
      { rewrite DSH. eapply exec_rename_missing; eauto. destruct ms'; discriminate. }
      assert (NX2 : w_next env (WRename stp false) = Some (SRename stp d)) by (simpl; rewrite w_dest_d; auto).
      pose proof (reach_step env g _ _ _ _ NX2 X2) as R3.
      cbn [w_step strip after_rename negb andb is_enoent] in R3. rewrite w_dest_d, d_dirname in R3.
      rewrite <- EMS in R3.
      (* haveDir *)
      pose proof (down (m :: ms') E [] g MS PEM (TR _ AD) ZG) as R4. rewrite app_nil_r in R4.
      cbn [firstn] in R4.
      set (g1 := fs_set g (E ++ [m]) Dir) in *.
      assert (UPS : ups E (m :: ms') = map (fun i => E ++ firstn i (m :: ms')) (seq 2 (length ms'))).
      { unfold ups. simpl. rewrite Nat.sub_0_r. auto. }
      rewrite UPS in R4.
      destruct (up E (m :: ms') (length ms') 1 g1 []) as [g2 [R5 [D5 F5]]].
      + lia.
      + simpl. lia.
      + auto.
      + apply all_dirs_snoc.
        * eapply all_dirs_transfer; [|exact (TR _ AD)]. intros n Hn. apply lookup_set_other.
          intros X. assert (L : length (E ++ [m]) = length (firstn n E)) by congruence.
          rewrite firstn_length, app_length in L. simpl in L. lia.
        * apply lookup_set_same. destruct E; discriminate.
      + intros i Hi. unfold g1. rewrite lookup_set_other. apply ZG. simpl. lia.
        change (E ++ [m]) with (E ++ firstn 1 (m :: ms')). apply app_firstn_neq; simpl; lia.
      + rewrite app_nil_r in R5. cbn [have_ret] in R5.
        replace (1 + length ms')%nat with (length (m :: ms')) in D5 by auto.
        rewrite firstn_all in D5. rewrite EMS in D5.
        (* nothing but the new directories changed between g and g2 *)
        assert (F2 : forall p, (forall i, (0 < i <= length (m :: ms'))%nat -> p <> E ++ firstn i (m :: ms')) ->
                       fs_lookup g2 p = fs_lookup g p).
        { intros p Hp. rewrite F5. unfold g1. apply lookup_set_other. apply not_eq_sym.
          apply (Hp 1%nat). simpl. lia.
          intros i Hi. apply Hp. simpl in *. lia. }
        assert (NE : forall p, fs_lookup g p <> None -> (forall i, (0 < i <= length (m :: ms'))%nat -> p <> E ++ firstn i (m :: ms'))).
        { intros p Hp i Hi X. subst p. rewrite ZG in Hp by auto. congruence. }
        assert (L2 : fs_lookup g2 stp = Some (File (content))).
        { rewrite F2. auto. apply NE. rewrite LG. discriminate. }
        assert (DG : fs_lookup g d = None).
        { rewrite DSH. change (E ++ m :: ms' ++ [e]) with (E ++ [m] ++ (ms' ++ [e])). rewrite app_assoc.
          rewrite SG.
          - apply wf_absent_ext; auto. destruct E; discriminate.
            rewrite <- SG. auto. change (E ++ [m]) with (E ++ firstn 1 (m :: ms')). rewrite EI.
            apply not_eq_sym. apply SD. lia.
          - rewrite <- app_assoc. change (E ++ [m] ++ ms' ++ [e]) with (E ++ m :: ms' ++ [e]). rewrite <- DSH. auto. }
        assert (D2 : fs_lookup g2 d = None).
        { rewrite F2. auto. intros i Hi. rewrite EI. apply not_eq_sym. apply dirs_neq_d. }
        assert (STD2 : all_dirs g2 (dirname stp)).
        { eapply all_dirs_transfer; [|exact STD]. intros n Hn. apply F2. apply NE.
          rewrite STD by auto. discriminate. }
        assert (N2 : fs_lookup g2 d <> Some Dir) by (rewrite D2; discriminate).
        pose proof (FIN g2 true L2 STD2 D5 N2) as R6.
        exists (fs_set (fs_remove g2 stp) d (File (content))). split.
        * eapply reach_weaken; [|eapply reach_trans; [exact R2|
             eapply reach_trans; [exact R3|eapply reach_trans; [exact R4|eapply reach_trans; [exact R5|exact R6]]]]].
          simpl length. simpl in LMS. lia.
        * constructor.
          -- apply lookup_set_same; auto.
          -- rewrite lookup_set_other by auto. apply lookup_remove_same; auto.
          -- eapply all_dirs_transfer; [|exact D5]. intros n Hn.
             rewrite lookup_set_other. apply lookup_remove_other.
             ++ intros X. rewrite X in L2. rewrite D5 in L2 by auto. discriminate.
             ++ intros X. assert (L : length d = length (firstn n (f_base cfg ++ cs))) by congruence.
                rewrite d_shape, firstn_length, !app_length in L. simpl in L. rewrite !app_length in Hn. lia.
          -- intros p P1 P2 P3. rewrite lookup_set_other by auto. rewrite lookup_remove_other by auto.
             rewrite F2. apply SG. auto.
             intros i Hi. rewrite EI. apply P3. simpl in Hi, LMS. lia.
          -- intros i Hi HN. rewrite lookup_set_other by (apply not_eq_sym; apply dirs_neq_d).
             rewrite lookup_remove_other by (apply SD; lia).
             rewrite F2. apply SG. apply not_eq_sym. apply SD. lia.
             apply NE. rewrite SG. auto. apply not_eq_sym. apply SD. lia.
  Qed.

  Theorem put_runs : forall f chunks,
    fs_wf f -> all_dirs f (f_base cfg) -> fs_lookup f (staging_dir (f_base cfg)) = Some Dir ->
    fs_lookup f stp = None -> fs_lookup f d <> Some Dir ->
    (forall j c, (0 < j <= length cs)%nat -> fs_lookup f (f_base cfg ++ firstn j cs) <> Some (File c)) ->
    (forall j, (j <= length cs)%nat -> stp <> f_base cfg ++ firstn j cs) -> stp <> d ->
    exists f', reach env (length chunks + 2 * length cs + 6) (f, WCreate 0 chunks) (f', WDone (Ok tt)) /\
               put_post f f' (concat chunks).
  Proof.
    intros f chunks W B T FR ND NF SD SDd.
    assert (TD : all_dirs f (staging_dir (f_base cfg))).
    { unfold staging_dir. apply all_dirs_snoc; auto. }
    destruct (phase_write f chunks TD FR) as [g [R1 [LG SG]]].
    destruct (finish_runs f g (concat chunks) W B T FR ND NF SD SDd LG SG) as [f' [R2 PP]].
    exists f'. split; auto.
    eapply reach_weaken; [|eapply reach_trans; [exact R1|exact R2]]. lia.
  Qed.

  (* the commit of a stream that was opened and written earlier: close, then the same *)
  Theorem commit_runs : forall f g content,
    fs_wf f -> all_dirs f (f_base cfg) -> fs_lookup f (staging_dir (f_base cfg)) = Some Dir ->
    fs_lookup f stp = None -> fs_lookup f d <> Some Dir ->
    (forall j c, (0 < j <= length cs)%nat -> fs_lookup f (f_base cfg ++ firstn j cs) <> Some (File c)) ->
    (forall j, (j <= length cs)%nat -> stp <> f_base cfg ++ firstn j cs) -> stp <> d ->
    fs_lookup g stp = Some (File content) -> same_except f g stp ->
    exists f', reach env (2 * length cs + 5) (g, WClose stp None) (f', WDone (Ok tt)) /\
               put_post f f' content.
  Proof.
    intros f g content W B T FR ND NF SD SDd LG SG.
    destruct (finish_runs f g content W B T FR ND NF SD SDd LG SG) as [f' [R2 PP]].
    exists f'. split; auto.
    assert (Y : sys_exec g (SClose stp) = (g, Ok RVUnit)) by reflexivity.
    pose proof (reach_step env g (WClose stp None) _ _ _ eq_refl Y) as R0.
    simpl in R0. rewrite env_dest in R0.
    eapply reach_weaken; [|eapply reach_trans; [exact R0|exact R2]]. lia.
  Qed.
End Put.

(* ------------------------------------------------------------------ every system call keeps the tree well-formed *)

Lemma walk_ok_dirs : forall f rest pre, walk_from f pre rest = Ok tt ->
  forall n, (0 < n <= length rest)%nat -> fs_lookup f (pre ++ firstn n rest) = Some Dir.
Proof.
  induction rest; intros pre H n Hn; simpl in *. lia.
  destruct (name_max <? lenN a)%N; try discriminate.
  destruct (fs_lookup f (pre ++ [a])) as [[c|]|] eqn:L; try discriminate.
  destruct n; try lia. destruct n. simpl. auto.
  simpl. specialize (IHrest (pre ++ [a]) H (S n)). rewrite <- app_assoc in IHrest. apply IHrest. lia.
Qed.

Lemma resolve_parent : forall f p x, p <> [] -> resolve f p = Ok x -> fs_lookup f (dirname p) = Some Dir.
Proof.
  intros f p x N R. rewrite resolve_unfold in R by auto.
  destruct (has_nul p); try discriminate.
  destruct (walk_from f [] (dirname p)) as [[]|e] eqn:W; try discriminate.
  destruct (dirname p) as [|c q] eqn:D. reflexivity.
  rewrite <- (firstn_all (c :: q)). apply (walk_ok_dirs f (c :: q) [] W). simpl. lia.
Qed.

Lemma wf_set_leaf : forall f p n, fs_wf f -> p <> [] -> fs_lookup f (dirname p) = Some Dir ->
  (forall c, n = File c -> fs_lookup f p <> Some Dir) ->
  (n = Dir -> fs_lookup f p = None) ->
  fs_wf (fs_set f p n).
Proof.
  intros f p n W PN PAR HF HD q m QN L.
  assert (DP : dirname p <> p).
  { intros X. apply (f_equal (@length _)) in X. destruct (exists_last PN) as [a [l E]]. rewrite E in X.
    rewrite dirname_snoc in X. rewrite app_length in X. simpl in X. lia. }
  destruct (path_eqb p q) eqn:E.
  - apply path_eqb_eq in E. subst q. rewrite lookup_set_other; auto.
  - apply path_eqb_neq in E. rewrite lookup_set_other in L by auto.
    pose proof (W q m QN L) as PQ.
    destruct (path_eqb p (dirname q)) eqn:E2.
    + apply path_eqb_eq in E2. rewrite <- E2. rewrite <- E2 in PQ.
      destruct n as [c|].
      * exfalso. eapply HF; eauto.
      * rewrite HD in PQ; auto. discriminate.
    + apply path_eqb_neq in E2. rewrite lookup_set_other; auto.
Qed.

Lemma wf_remove_file : forall f p c, fs_wf f -> fs_lookup f p = Some (File c) -> fs_wf (fs_remove f p).
Proof.
  intros f p c W LP q m QN L.
  destruct (path_eqb p q) eqn:E.
  - apply path_eqb_eq in E. subst q. rewrite lookup_remove_same in L. discriminate.
    eapply lookup_file_nonnil; eauto.
  - apply path_eqb_neq in E. rewrite lookup_remove_other in L by auto.
    pose proof (W q m QN L) as PQ. rewrite lookup_remove_other; auto.
    intros X. rewrite <- X in PQ. congruence.
Qed.

Lemma sys_exec_wf : forall f s, fs_wf f -> fs_wf (fst (sys_exec f s)).
Proof.
  intros f s W. destruct s; simpl.
  - destruct (resolve f p) as [[n|]|e]; simpl; auto.
  - destruct (resolve f p) as [[n|]|e]; simpl; auto.
  - destruct (resolve f p) as [[n|]|e]; simpl; auto.
  - destruct (resolve f p) as [[n|]|e] eqn:R; simpl; auto.
    destruct (resolve_none f p R) as [PN L].
    apply wf_set_leaf; [exact W|exact PN|eapply resolve_parent; eauto| |].
    + intros c0 _. rewrite L. discriminate.
    + intros X. discriminate.
  - destruct (fs_lookup f p) as [[old|]|] eqn:L; simpl; auto.
    assert (PN : p <> []) by (eapply lookup_file_nonnil; eauto).
    apply wf_set_leaf; [exact W|exact PN|eapply (W p); eauto| |].
    + intros c0 _. rewrite L. discriminate.
    + intros X. discriminate.
  - auto.
  - destruct (resolve f p) as [[[c|]|]|e] eqn:R; simpl; auto.
    apply resolve_some in R.
    assert (PN : p <> []) by (eapply lookup_file_nonnil; eauto).
    assert (WR : fs_wf (fs_remove f p)) by (eapply wf_remove_file; eauto).
    destruct (resolve f q) as [[[c'|]|]|e] eqn:R2; simpl; auto.
    + pose proof (resolve_some f q _ R2) as LQ.
      assert (QN : q <> []) by (eapply lookup_file_nonnil; eauto).
      assert (PAR : fs_lookup f (dirname q) = Some Dir) by (eapply resolve_parent; eauto).
      assert (DQ : p <> dirname q) by (intros X; rewrite <- X in PAR; congruence).
      apply wf_set_leaf; [exact WR|exact QN| | |].
      * rewrite lookup_remove_other; auto.
      * intros c0 _. destruct (path_eqb p q) eqn:PQ.
        -- apply path_eqb_eq in PQ. subst q. rewrite lookup_remove_same by auto. discriminate.
        -- apply path_eqb_neq in PQ. rewrite lookup_remove_other by auto. rewrite LQ. discriminate.
      * intros X. discriminate.
    + destruct (resolve_none f q R2) as [QN LQ].
      assert (PQ : p <> q) by (intros X; subst; congruence).
      assert (PAR : fs_lookup f (dirname q) = Some Dir) by (eapply resolve_parent; eauto).
      assert (DQ : p <> dirname q) by (intros X; rewrite <- X in PAR; congruence).
      apply wf_set_leaf; [exact WR|exact QN| | |].
      * rewrite lookup_remove_other; auto.
      * intros c0 _. rewrite lookup_remove_other by auto. rewrite LQ. discriminate.
      * intros X. discriminate.
  - destruct (resolve f p) as [[n|]|e] eqn:R; simpl; auto.
    destruct (resolve_none f p R) as [PN L].
    apply wf_set_leaf; [exact W|exact PN|eapply resolve_parent; eauto| |].
    + intros c0 X. discriminate.
    + intros _. exact L.
  - destruct (resolve f p) as [[[c|]|]|e] eqn:R; simpl; auto.
    apply resolve_some in R. eapply wf_remove_file; eauto.
Qed.

Lemma fail_effect_wf : forall f s part, fs_wf f -> fs_wf (fail_effect f s part).
Proof.
  intros f s part W. destruct s; simpl; auto.
  apply (sys_exec_wf f (SWrite p (firstn part c)) W).
Qed.

