(* Proofs/TravSkip.v — C15, SkipMe: when the unrestricted walk completes, the walk whose loader answers
   SkipMe for the links in K yields exactly the unrestricted trace minus the events beneath a skipped
   link (the load attempt of the skipped link itself stays). *)
Require Import IP.Base.Bytes IP.DM.Value IP.Trav.Selector IP.Trav.Walk IP.Trav.Controls IP.Trav.ControlsSpec
  IP.Proofs.TravFacts.
From Coq Require Import Lia.
Open Scope Z_scope.

Definition skip_ctl (k : list bytes) : ctl := {| c_start := []; c_once := false; c_skip := k |}.
Definition nst (seen : list bytes) : wst := {| w_budget := None; w_seen := seen |}.

Lemma skip_spec_app k a b : skip_spec k (a ++ b) = skip_spec k a ++ skip_spec k b.
Proof. apply filter_app. Qed.

Lemma under_skipped_suffix k c ls e :
  mem_bytes c k = true -> (exists pre, ev_stack e = pre ++ c :: ls) -> under_skipped k e = true.
Proof.
  intros Hc [pre Hp]. unfold under_skipped. rewrite Hp. apply existsb_exists. exists c. split; [|exact Hc].
  apply in_or_app. right. left. reflexivity.
Qed.

Lemma skip_spec_all_under k c ls t :
  mem_bytes c k = true -> Forall (fun e => exists pre, ev_stack e = pre ++ c :: ls) t -> skip_spec k t = [].
Proof.
  intros Hc H. induction H as [|e t He Ht IH]; [reflexivity|].
  unfold skip_spec in *. cbn. rewrite (under_skipped_suffix k c ls e Hc He). exact IH.
Qed.

Lemma not_under k ls : (forall c, In c ls -> mem_bytes c k = false) -> existsb (fun c => mem_bytes c k) ls = false.
Proof.
  intros H. induction ls as [|c ls IH]; [reflexivity|]. cbn. rewrite (H c) by (left; reflexivity).
  apply IH. intros; apply H; right; assumption.
Qed.

Section Skip.
  Variable q : quirks.
  Variable g : list (bytes * dm).
  Variable K : list bytes.

  Definition skip_form (f : nat) : Prop :=
    forall seen past ls P n s t,
      (forall c, In c ls -> mem_bytes c K = false) ->
      walk q g f ls P n s = (t, OOk) ->
      cwalk q (skip_ctl K) g f (nst seen) past ls P n s = (skip_spec K t, OOk, nst seen).

  Lemma step_skip f (IH : skip_form f) seen past ls P n s k t :
    (forall c, In c ls -> mem_bytes c K = false) ->
    explore_step q g (walk q g f) ls P n s k = (t, OOk) ->
    cexplore_step q (skip_ctl K) g (cwalk q (skip_ctl K) g f) ls P n s (nst seen) past k
    = (skip_spec K t, OOk, nst seen).
  Proof.
    intros Hls. unfold explore_step, cexplore_step.
    destruct (explore q s n (fst k)) as [[s'|]| |]; try discriminate.
    2:{ intros H; inversion H; reflexivity. }
    destruct (snd k) eqn:Ek; try (intros H; apply IH; assumption).
    (* link *)
    cbn [c_once skip_ctl andb c_skip]. unfold check_link; cbn [w_budget nst].
    destruct (assoc c g) as [b|]; [|discriminate].
    pose proof (walk_stack_suffix q g f (c :: ls) (P ++ [fst k]) b s') as Hsuf.
    destruct (walk q g f (c :: ls) (P ++ [fst k]) b s') as [e o] eqn:Ew. cbn [fst] in Hsuf.
    intros H; inversion H; subst. clear H.
    change (skip_spec K (ELoad (P ++ [fst k]) c ls :: e))
      with (if negb (under_skipped K (ELoad (P ++ [fst k]) c ls)) then ELoad (P ++ [fst k]) c ls :: skip_spec K e
            else skip_spec K e).
    unfold under_skipped at 1; cbn [ev_stack]. rewrite (not_under K ls Hls). cbn [negb].
    destruct (mem_bytes c K) eqn:Em.
    - rewrite (skip_spec_all_under K c ls e Em Hsuf). reflexivity.
    - fold (nst seen). rewrite (IH seen past (c :: ls) (P ++ [fst k]) b s' e).
      + reflexivity.
      + intros c' [<-|Hin]; [exact Em|apply Hls; exact Hin].
      + exact Ew.
  Qed.

  Lemma loop_skip f (IH : skip_form f) ls P n s :
    (forall c, In c ls -> mem_bytes c K = false) ->
    forall ks seen past reached t,
      seqk (explore_step q g (walk q g f) ls P n s) ks = (t, OOk) ->
      cloop (skip_ctl K) (cexplore_step q (skip_ctl K) g (cwalk q (skip_ctl K) g f) ls P n s) P ks (nst seen) past reached
      = (skip_spec K t, OOk, nst seen).
  Proof.
    intros Hls. induction ks as [|k r IHr]; intros seen past reached t H.
    - inversion H; reflexivity.
    - apply seqk_ok_inv in H. destruct H as (e & e' & Hk & Hr & ->).
      cbn [cloop]. unfold start_decide; cbn [c_start skip_ctl].
      rewrite (step_skip f IH seen past ls P n s k e Hls Hk).
      rewrite (IHr seen past reached e' Hr). rewrite skip_spec_app. reflexivity.
  Qed.

  Theorem skip_closed_form : forall f, skip_form f.
  Proof.
    induction f as [|f IH]; intros seen past ls P n s t Hls H.
    - discriminate.
    - rewrite walk_S in H. rewrite cwalk_S. unfold check_node; cbn [w_budget nst c_start skip_ctl length].
      replace (negb past && Nat.ltb (length P) 0)%bool with false
        by (destruct past; cbn; [reflexivity | destruct (length P); reflexivity]).
      assert (Hv : skip_spec K [visit_event P n s ls] = [visit_event P n s ls]).
      { unfold skip_spec, under_skipped. cbn. rewrite visit_event_stack, (not_under K ls Hls). reflexivity. }
      destruct (is_container n).
      + destruct (seqk (explore_step q g (walk q g f) ls P n s) (children q n s)) as [e o] eqn:Es.
        inversion H; subst. clear H.
        fold (nst seen). rewrite (loop_skip f IH ls P n s Hls _ seen past false e Es).
        change (visit_event P n s ls :: e) with ([visit_event P n s ls] ++ e).
        rewrite skip_spec_app, Hv. reflexivity.
      + inversion H; subst. rewrite Hv. reflexivity.
  Qed.
End Skip.

Theorem skip_run q g K f root s t :
  walk_adv q g f root s = (t, OOk) ->
  cwalk_adv q (skip_ctl K) g f None root s = (skip_spec K t, OOk).
Proof.
  intros H. unfold cwalk_adv. change {| w_budget := None; w_seen := [] |} with (nst []).
  rewrite (skip_closed_form q g K f [] false [] [] root s t); [reflexivity| |exact H].
  intros c [].
Qed.
