(* Proofs/SchemaBase.v — list and byte-string facts used by the schema cluster proofs. *)
Require Import IP.Base.Bytes IP.DM.Value IP.Schema.Types IP.Schema.View.
From Coq Require Import Lia.
Open Scope N_scope.

(* ------------------------------------------------------------------ equality tests *)

Lemma sch_bytes_eqb_eq a b : bytes_eqb a b = true <-> a = b.
Proof.
  revert b; induction a as [|x a IH]; destruct b as [|y b]; cbn; try (split; congruence).
  rewrite andb_true_iff, IH, N.eqb_eq. split; [intros [-> ->]; reflexivity|intros E; inversion E; auto].
Qed.

Lemma sch_bytes_eqb_refl a : bytes_eqb a a = true.
Proof. now apply sch_bytes_eqb_eq. Qed.

Lemma sch_bytes_eqb_neq a b : bytes_eqb a b = false <-> a <> b.
Proof.
  split.
  - intros H E. apply sch_bytes_eqb_eq in E. congruence.
  - intros H. destruct (bytes_eqb a b) eqn:E; auto. apply sch_bytes_eqb_eq in E. contradiction.
Qed.

Lemma sch_bytes_eqb_sym a b : bytes_eqb a b = bytes_eqb b a.
Proof.
  destruct (bytes_eqb a b) eqn:E.
  - apply sch_bytes_eqb_eq in E; subst. now rewrite sch_bytes_eqb_refl.
  - symmetry. apply sch_bytes_eqb_neq. apply sch_bytes_eqb_neq in E. congruence.
Qed.

Lemma kind_eqb_eq a b : kind_eqb a b = true <-> a = b.
Proof. destruct a, b; cbn; split; congruence. Qed.

Lemma kind_eqb_refl a : kind_eqb a a = true.
Proof. now apply kind_eqb_eq. Qed.

(* ------------------------------------------------------------------ nodupb *)

Lemma existsb_eqb_In x l : existsb (bytes_eqb x) l = true <-> In x l.
Proof.
  rewrite existsb_exists. split.
  - intros [y [Hy E]]. apply sch_bytes_eqb_eq in E. now subst.
  - intros H. exists x. split; auto. apply sch_bytes_eqb_refl.
Qed.

Lemma nodupb_NoDup l : nodupb l = true <-> NoDup l.
Proof.
  induction l as [|x l IH]; cbn.
  - split; auto. constructor.
  - rewrite andb_true_iff, negb_true_iff, IH. split.
    + intros [H1 H2]. constructor; auto. intros Hin. apply existsb_eqb_In in Hin. congruence.
    + intros H. inversion H; subst. split; auto.
      destruct (existsb (bytes_eqb x) l) eqn:E; auto. apply existsb_eqb_In in E. contradiction.
Qed.

(* ------------------------------------------------------------------ assoc *)

Lemma assoc_In {V} k (m : list (bytes * V)) v : assoc k m = Some v -> In (k, v) m.
Proof.
  induction m as [|[k' v'] m IH]; cbn; [discriminate|].
  destruct (bytes_eqb k k') eqn:E.
  - intros H; inversion H; subst. apply sch_bytes_eqb_eq in E; subst. now left.
  - intros H. right. auto.
Qed.

Lemma assoc_None {V} k (m : list (bytes * V)) : assoc k m = None <-> ~ In k (map fst m).
Proof.
  induction m as [|[k' v'] m IH]; cbn.
  - split; auto.
  - destruct (bytes_eqb k k') eqn:E.
    + apply sch_bytes_eqb_eq in E; subst. split; [discriminate|]. intros H. exfalso. apply H. now left.
    + apply sch_bytes_eqb_neq in E. rewrite IH. split.
      * intros H [H1|H1]; [congruence|contradiction].
      * intros H H1. apply H. now right.
Qed.

Lemma assoc_nodup_In {V} k (m : list (bytes * V)) v :
  NoDup (map fst m) -> In (k, v) m -> assoc k m = Some v.
Proof.
  induction m as [|[k' v'] m IH]; cbn; [contradiction|].
  intros Hnd [H|H].
  - inversion H; subst. now rewrite sch_bytes_eqb_refl.
  - inversion Hnd; subst. destruct (bytes_eqb k k') eqn:E.
    + apply sch_bytes_eqb_eq in E; subst. exfalso. apply H2. apply in_map_iff. exists (k', v). auto.
    + auto.
Qed.

(* ------------------------------------------------------------------ find_idx *)

Lemma find_idx_some {A} (p : A -> bool) l i x :
  find_idx p l = Some (i, x) -> nth_error l i = Some x /\ p x = true /\
  forall j y, (j < i)%nat -> nth_error l j = Some y -> p y = false.
Proof.
  revert i; induction l as [|a l IH]; cbn; intros i; [discriminate|].
  destruct (p a) eqn:Ea.
  - intros H; inversion H; subst. cbn. repeat split; auto. intros j y Hj. lia.
  - destruct (find_idx p l) as [[i' y']|] eqn:E; [|discriminate].
    intros H; inversion H; subst. destruct (IH i' eq_refl) as [H1 [H2 H3]].
    cbn. repeat split; auto. intros j y Hj Hn. destruct j as [|j]; cbn in Hn.
    + inversion Hn; subst. auto.
    + apply (H3 j); auto. lia.
Qed.

Lemma find_idx_none {A} (p : A -> bool) l :
  find_idx p l = None <-> forall x, In x l -> p x = false.
Proof.
  induction l as [|a l IH]; cbn.
  - split; auto. intros _ x [].
  - destruct (p a) eqn:Ea.
    + split; [discriminate|]. intros H. specialize (H a (or_introl eq_refl)). congruence.
    + destruct (find_idx p l) as [[i y]|] eqn:E.
      * split; [discriminate|]. intros H. assert (Hn : forall x, In x l -> p x = false) by (intros; apply H; now right).
        apply IH in Hn. discriminate.
      * split; auto. intros _ x [Hx|Hx]; [subst; auto|]. apply (proj1 IH eq_refl); auto.
Qed.

(* unique hit: with a key function injective on the list, the element at i is the one found *)
Lemma find_idx_unique {A} (key : A -> bytes) l i x :
  NoDup (map key l) -> nth_error l i = Some x ->
  find_idx (fun y => bytes_eqb (key y) (key x)) l = Some (i, x).
Proof.
  revert i; induction l as [|a l IH]; intros i Hnd Hn; [destruct i; discriminate|].
  cbn. destruct i as [|i]; cbn in Hn.
  - inversion Hn; subst. now rewrite sch_bytes_eqb_refl.
  - inversion Hnd; subst. destruct (bytes_eqb (key a) (key x)) eqn:E.
    + apply sch_bytes_eqb_eq in E. exfalso. apply H1. rewrite E. apply in_map. eapply nth_error_In; eauto.
    + rewrite (IH i H2 Hn). reflexivity.
Qed.

(* ------------------------------------------------------------------ mapM *)

Lemma mapM_length {A B} (f : A -> option B) l r : mapM f l = Some r -> length r = length l.
Proof.
  revert r; induction l as [|x l IH]; cbn; intros r.
  - intros H; inversion H; reflexivity.
  - destruct (f x); [|discriminate]. destruct (mapM f l); [|discriminate].
    intros H; inversion H; subst. cbn. f_equal. auto.
Qed.

Lemma mapM_ext {A B} (f g : A -> option B) l :
  (forall x, In x l -> f x = g x) -> mapM f l = mapM g l.
Proof.
  induction l as [|x l IH]; cbn; auto. intros H.
  rewrite (H x (or_introl eq_refl)), IH; auto.
Qed.

(* ------------------------------------------------------------------ zip / present / nth *)

Lemma zip_length {A B} (a : list A) (b : list B) : length a = length b -> length (zip a b) = length a.
Proof.
  revert b; induction a as [|x a IH]; destruct b; cbn; intros H; try discriminate; auto.
Qed.

Lemma zip_map_fst {A B} (a : list A) (b : list B) : length a = length b -> map fst (zip a b) = a.
Proof.
  revert b; induction a as [|x a IH]; destruct b; cbn; intros H; try discriminate; auto.
  f_equal. auto.
Qed.

Lemma zip_map_snd {A B} (a : list A) (b : list B) : length a = length b -> map snd (zip a b) = b.
Proof.
  revert b; induction a as [|x a IH]; destruct b; cbn; intros H; try discriminate; auto.
  f_equal. auto.
Qed.

Lemma sch_forallb_ext {A} (f g : A -> bool) l :
  (forall x, In x l -> f x = g x) -> forallb f l = forallb g l.
Proof.
  induction l as [|x l IH]; cbn; auto. intros H.
  rewrite (H x (or_introl eq_refl)), IH; auto.
Qed.
