(* Proofs/HeapOps.v — every basicnode operation of Heap/BasicHeap.v preserves the ownership
   invariant and respects frozen cells (a Hoare triple per operation).  The few preconditions are
   exactly what [legal] demands: Begin* only on an unfinished assembler, Assign only on a scalar
   builder that is not done, node and slice arguments that the library handed out. *)
Require Import IP.Base.Bytes IP.DM.Value IP.Gen.FromGo IP.Heap.GoMem IP.Heap.BasicHeap.
Require Import IP.Proofs.HeapMem IP.Proofs.HeapLogic IP.Proofs.HeapSteps.
From Coq Require Import List Arith Bool Lia ZArith.
Import ListNotations.
Local Open Scope nat_scope.

(* ------------------------------------------------------------------ small facts *)

Lemma Forall_upd : forall A (P : A -> Prop) n l x, Forall P l -> P x -> Forall P (upd n l x).
Proof.
  induction n; destruct l; cbn; intros x HF Hx; auto; inversion HF; subst; constructor; auto.
Qed.

Lemma Forall_repeat : forall A (P : A -> Prop) x n, P x -> Forall P (repeat x n).
Proof. induction n; cbn; intros; constructor; auto. Qed.

Lemma Forall_firstn : forall A (P : A -> Prop) n l, Forall P l -> Forall P (firstn n l).
Proof. induction n; destruct l; cbn; intros HF; auto. inversion HF; subst. constructor; auto. Qed.

Lemma Forall_skipn : forall A (P : A -> Prop) n l, Forall P l -> Forall P (skipn n l).
Proof. induction n; destruct l; cbn; intros HF; auto. inversion HF; subst. auto. Qed.

Lemma Forall_map_set : forall (P : val -> Prop) es k v,
  Forall (fun kv => P (snd kv)) es -> P v -> Forall (fun kv : bytes * val => P (snd kv)) (map_set es k v).
Proof.
  induction es as [|[k' v'] es IH]; cbn; intros k v HF Hv.
  - constructor; auto.
  - inversion HF; subst. destruct (bytes_eqb k k'); constructor; auto.
Qed.

Lemma Forall_nth_error : forall A (P : A -> Prop) l n x, Forall P l -> nth_error l n = Some x -> P x.
Proof. intros * HF Hn. eapply Forall_forall; eauto using nth_error_In. Qed.

Lemma Forall_map_get : forall (P : val -> Prop) es k v,
  Forall (fun kv : bytes * val => P (snd kv)) es -> map_get es k = Some v -> P v.
Proof.
  induction es as [|[k' v'] es IH]; cbn; intros k v HF Hg; [discriminate|].
  inversion HF; subst. destruct (bytes_eqb k k'); [inversion Hg; subst; assumption | eauto].
Qed.

Lemma mst_eqb_eq : forall a b, mst_eqb a b = true <-> a = b.
Proof. destruct a, b; cbn; split; intros; congruence. Qed.
Lemma lst_eqb_eq : forall a b, lst_eqb a b = true <-> a = b.
Proof. destruct a, b; cbn; split; intros; congruence. Qed.

(* an embedded assembler and the cell embedding it *)
Lemma val_masm_asm : forall v m, val_masm v = Some m -> is_asm_val v.
Proof. destruct v; cbn; intros; try discriminate; exact I. Qed.
Lemma val_lasm_asm : forall v l, val_lasm v = Some l -> is_asm_val v.
Proof. destruct v; cbn; intros; try discriminate; exact I. Qed.

Lemma asm_masm_ok : forall tg h a v m, asm_ok tg h a v -> val_masm v = Some m -> masm_ok tg h a m.
Proof. destruct v; cbn; intros m0 H E; inversion E; subst; tauto. Qed.
Lemma asm_lasm_ok : forall tg h a v l, asm_ok tg h a v -> val_lasm v = Some l -> lasm_ok tg h a l.
Proof. destruct v; cbn; intros l0 H E; inversion E; subst; tauto. Qed.

(* replacing the embedded assembler: in the same state, when the struct pointer stays as it is *)
Lemma asm_with_masm : forall tg h a v m m', asm_ok tg h a v -> val_masm v = Some m -> masm_ok tg h a m' ->
  m_w m' = m_w m -> asm_ok tg h a (val_with_masm v m').
Proof. destruct v; cbn; intros m0 m' H E Hm Hw; inversion E; subst; try tauto. rewrite Hw. tauto. Qed.
Lemma asm_with_lasm : forall tg h a v l l', asm_ok tg h a v -> val_lasm v = Some l -> lasm_ok tg h a l' ->
  l_w l' = l_w l -> asm_ok tg h a (val_with_lasm v l').
Proof. destruct v; cbn; intros l0 l' H E Hm Hw; inversion E; subst; try tauto. rewrite Hw. tauto. Qed.

(* … and in a later state, when the old assembler had a struct (so an anyBuilder's other half has none) *)
Lemma lasm_ok_now : forall tg h a l tg' h', lasm_ok tg h a l -> l_w l = None -> lasm_ok tg' h' a l.
Proof. unfold lasm_ok; intros * [H1 _] E. rewrite E. auto. Qed.
Lemma masm_ok_now : forall tg h a m tg' h', masm_ok tg h a m -> m_w m = None -> masm_ok tg' h' a m.
Proof. unfold masm_ok; intros * (H0 & H1 & _) E. rewrite E. auto. Qed.

Lemma asm_with_masm_later : forall tg h a v m m' tg' h', asm_ok tg h a v -> val_masm v = Some m ->
  m_w m <> None -> Ext tg h tg' h' -> masm_ok tg' h' a m' -> asm_ok tg' h' a (val_with_masm v m').
Proof.
  destruct v; cbn; intros m0 m' tg' h' H E Hw HE Hm; inversion E; subst; auto.
  destruct H as (_ & Hl & Hs & [Hd|Hd] & Hk); [contradiction|].
  split; [assumption|]. split; [eapply lasm_ok_now; eauto|]. split; [eapply fref_ext; eauto |].
  split; [auto|]. intros Ek. destruct (Hk Ek). contradiction.
Qed.
Lemma asm_with_lasm_later : forall tg h a v l l' tg' h', asm_ok tg h a v -> val_lasm v = Some l ->
  l_w l <> None -> Ext tg h tg' h' -> lasm_ok tg' h' a l' -> asm_ok tg' h' a (val_with_lasm v l').
Proof.
  destruct v; cbn; intros l0 l' tg' h' H E Hw HE Hm; inversion E; subst; auto.
  destruct H as (Hmm & _ & Hs & [Hd|Hd] & Hk); [|contradiction].
  split; [eapply masm_ok_now; eauto|]. split; [assumption|]. split; [eapply fref_ext; eauto |].
  split; [auto|]. intros Ek. destruct (Hk Ek). contradiction.
Qed.

(* "quiet" moves: tags of allocated cells stay, non-array cells stay, arrays stay arrays *)
Definition quiet (tg : tags) (h : mheap) (tg' : tags) (h' : mheap) : Prop :=
  (forall x, tg x <> TFree -> tg' x = tg x) /\
  (forall x c, hget h x = Some c -> (forall l, c <> CArr l) -> hget h' x = Some c) /\
  (forall x l, hget h x = Some (CArr l) -> exists l', hget h' x = Some (CArr l')).

Lemma quiet_slice : forall tg h tg' h' own s, quiet tg h tg' h' -> own <> TFree ->
  slice_ok tg h own s -> slice_ok tg' h' own s.
Proof.
  unfold slice_ok; intros * (Q1 & Q2 & Q3) Ho. destruct (s_arr s) as [a|]; [|auto].
  intros [Ta [l Hl]]. split; [rewrite Q1; congruence | eauto].
Qed.
Lemma quiet_gomap : forall tg h tg' h' own g, quiet tg h tg' h' -> own <> TFree ->
  gomap_ok tg h own g -> gomap_ok tg' h' own g.
Proof.
  unfold gomap_ok; intros * (Q1 & Q2 & Q3) Ho. destruct g as [a|]; [|auto].
  intros [Ta [l Hl]]. split; [rewrite Q1; congruence |]. exists l. apply Q2; [assumption | discriminate].
Qed.

(* overwriting a pointer cell by a pointer cell does not disturb arrays and maps *)
Lemma slice_ok_hset_ptr : forall tg h x v0 v own s, hget h x = Some (CPtr v0) ->
  slice_ok tg h own s -> slice_ok tg (hset h x (CPtr v)) own s.
Proof.
  unfold slice_ok; intros * Hx. destruct (s_arr s) as [a|]; [|auto]. intros [Ta [l Hl]]. split; [assumption|].
  exists l. rewrite hget_hset. destruct (addr_eqb x a) eqn:E; [|assumption].
  apply addr_eqb_eq in E; subst. congruence.
Qed.
Lemma gomap_ok_hset_ptr : forall tg h x v0 v own g, hget h x = Some (CPtr v0) ->
  gomap_ok tg h own g -> gomap_ok tg (hset h x (CPtr v)) own g.
Proof.
  unfold gomap_ok; intros * Hx. destruct g as [a|]; [|auto]. intros [Ta [l Hl]]. split; [assumption|].
  exists l. rewrite hget_hset. destruct (addr_eqb x a) eqn:E; [|assumption].
  apply addr_eqb_eq in E; subst. congruence.
Qed.

Definition tt_post {A} : A -> assertion := fun _ _ _ => True.

Ltac crash0 :=
  match goal with
  | He : _ = (_, _), HI : Inv ?tg ?h |- exists _, Step ?tg ?h _ _ /\ _ =>
      cbv beta iota in He; rewrite ?exec_crash in He; inversion He; subst;
      exists tg; split; [apply step_refl; assumption | exact I]
  end.

(* crash after some steps: S : Step tg h tg1 h1 is the state reached *)
Ltac crashS S :=
  match goal with
  | He : _ = (_, _) |- _ =>
      cbv beta iota in He; rewrite ?exec_crash in He; inversion He; subst;
      eexists; split; [exact S | exact I]
  end.

Ltac doneS S :=
  match goal with
  | He : _ = (_, _) |- _ =>
      cbv beta iota in He; rewrite ?exec_ret in He; inversion He; subst;
      eexists; split; [exact S | try exact I]
  end.

(* ------------------------------------------------------------------ append *)

(* appending to the slice of a header owned by b: the array written or allocated is owned by b *)
Lemma append1_step : forall tg h ar gr zero s v b o h',
  Inv tg h -> slice_ok tg h (TOwned b) s -> slot_ok tg h zero -> slot_ok tg h v ->
  exec ar (append1 gr zero s v) h = (o, h') ->
  exists tg', Step tg h tg' h' /\ quiet tg h tg' h' /\
    match o with Done s' => slice_ok tg' h' (TOwned b) s' | Crashed => True end.
Proof.
  intros * HI Hs Hz Hv He. unfold append1 in He. unfold slice_ok in Hs.
  destruct (s_arr s) as [ta|] eqn:At.
  - destruct Hs as [Tta [l Gl]].
    destruct (inv_owned _ _ _ _ HI Tta) as [c [Gc Dc]]. rewrite Gl in Gc; inversion Gc; subst c. cbn in Dc.
    destruct (s_len s <? s_cap s).
    + rewrite exec_rd, Gl, exec_wr, Gl, exec_ret in He. inversion He; subst.
      exists tg. split; [|split; [split; [auto|split]|]].
      * eapply step_write_data; eauto. cbn. apply Forall_upd; assumption.
      * intros x c Hx Hn. rewrite hget_hset. destruct (addr_eqb ta x) eqn:E; [|assumption].
        apply addr_eqb_eq in E; subst x. rewrite Gl in Hx. inversion Hx; subst. exfalso; eapply Hn; reflexivity.
      * intros x l0 Hx. rewrite hget_hset. destruct (addr_eqb ta x) eqn:E; [|eauto].
        apply addr_eqb_eq in E; subst x. rewrite Gl. eauto.
      * unfold slice_ok; cbn. split; [assumption|]. eexists. rewrite hget_hset, addr_eqb_refl, Gl. reflexivity.
    + rewrite exec_rd, Gl, exec_new in He.
      match type of He with context [halloc ar h ?c] => destruct (halloc ar h c) as [h1 x] eqn:Ha end.
      rewrite exec_ret in He. inversion He; subst.
      destruct (hget_halloc_new _ _ _ _ _ _ Ha) as [Hnew Hold].
      exists (set_tag tg x (TOwned b)). split; [|split; [split; [|split]|]].
      * eapply step_new_owned; eauto. cbn. apply Forall_app. split.
        -- apply Forall_firstn, Forall_skipn. assumption.
        -- constructor; [assumption | apply Forall_repeat; assumption].
      * intros y Hy. apply set_tag_other. intros ->. apply Hy. eapply inv_free; eauto.
      * intros y c Hy _. eapply hget_halloc_mono; eauto.
      * intros y l0 Hy. exists l0. eapply hget_halloc_mono; eauto.
      * unfold slice_ok; cbn. rewrite set_tag_same. eauto.
  - rewrite exec_new in He.
    match type of He with context [halloc ar h ?c] => destruct (halloc ar h c) as [h1 x] eqn:Ha end.
    rewrite exec_ret in He. inversion He; subst.
    destruct (hget_halloc_new _ _ _ _ _ _ Ha) as [Hnew Hold].
    exists (set_tag tg x (TOwned b)). split; [|split; [split; [|split]|]].
    + eapply step_new_owned; eauto. cbn. constructor; [assumption | apply Forall_repeat; assumption].
    + intros y Hy. apply set_tag_other. intros ->. apply Hy. eapply inv_free; eauto.
    + intros y c Hy _. eapply hget_halloc_mono; eauto.
    + intros y l0 Hy. exists l0. eapply hget_halloc_mono; eauto.
    + unfold slice_ok; cbn. rewrite set_tag_same. eauto.
Qed.

(* ------------------------------------------------------------------ map assembler *)

Lemma exec_gomap_has : forall tg h own g k ar, gomap_ok tg h own g ->
  exists b, exec ar (gomap_has g k) h = (Done b, h).
Proof.
  intros * Hg. unfold gomap_has. destruct g as [ga|]; [|rewrite exec_ret; eauto].
  destruct Hg as [_ [es He]]. rewrite exec_rd, He, exec_ret. eauto.
Qed.

(* open the assembler in cell a: what the invariant says about it *)
Lemma open_masm : forall tg h a v m, Inv tg h -> hget h a = Some (CPtr v) -> val_masm v = Some m ->
  tg a = TAsm /\ asm_ok tg h a v /\ masm_ok tg h a m.
Proof.
  intros * HI Ga Vm. destruct (inv_asm _ _ _ _ HI Ga (val_masm_asm _ _ Vm)) as [Ta Hok].
  eauto using asm_masm_ok.
Qed.
Lemma open_lasm : forall tg h a v l, Inv tg h -> hget h a = Some (CPtr v) -> val_lasm v = Some l ->
  tg a = TAsm /\ asm_ok tg h a v /\ lasm_ok tg h a l.
Proof.
  intros * HI Ga Vm. destruct (inv_asm _ _ _ _ HI Ga (val_lasm_asm _ _ Vm)) as [Ta Hok].
  eauto using asm_lasm_ok.
Qed.

(* the struct of an unfinished map assembler *)
Lemma masm_unfinished : forall tg h a m s, masm_ok tg h a m -> m_w m = Some s -> m_st m <> MFinished ->
  tg s = TOwned a /\ exists t g, hget h s = Some (CPtr (VMapHdr t g)) /\ slice_ok tg h (TOwned a) t /\ gomap_ok tg h (TOwned a) g.
Proof.
  unfold masm_ok; intros * (_ & _ & Hw) Ws Hn. rewrite Ws in Hw. destruct (m_st m); try assumption. congruence.
Qed.
Lemma lasm_unfinished : forall tg h a l s, lasm_ok tg h a l -> l_w l = Some s -> l_st l <> LFinished ->
  tg s = TOwned a /\ exists x, hget h s = Some (CPtr (VListHdr x)) /\ slice_ok tg h (TOwned a) x.
Proof.
  unfold lasm_ok; intros * (_ & Hw) Ws Hn. rewrite Ws in Hw. destruct (l_st l); try assumption. congruence.
Qed.

Lemma t_map_assemble_entry : forall cf a k, triple (fun _ _ => True) (map_assemble_entry cf a k) tt_post.
Proof.
  intros cf a k tg h ar o h' HI _ He. unfold map_assemble_entry, rd_masm, rdv, wrv in He.
  pose proof (step_refl _ _ HI) as S0.
  rewrite exec_rd in He. destruct (hget h a) as [[| |v| |]|] eqn:Ga; try crash0.
  destruct (val_masm v) as [m|] eqn:Vm; [|crash0].
  destruct (mst_eqb (m_st m) MInitial) eqn:St; cbn [negb] in He; [|crash0].
  apply mst_eqb_eq in St.
  destruct (m_w m) as [s|] eqn:Ws; [|crash0].
  rewrite exec_rd in He. destruct (hget h s) as [[| |hv| |]|] eqn:Gs; try crash0.
  destruct hv; try crash0.
  destruct (open_masm _ _ _ _ _ HI Ga Vm) as (Ta & Hok & Hm).
  destruct (masm_unfinished _ _ _ _ _ Hm Ws ltac:(congruence)) as [Ts (t' & g' & Gs' & Hsl & Hgm)].
  rewrite Gs in Gs'. inversion Gs'; subst t' g'.
  rewrite exec_bind in He. destruct (exec_gomap_has _ _ _ _ k ar Hgm) as [ex Hex]. rewrite Hex in He.
  destruct ex; [doneS S0|].
  rewrite exec_bind in He.
  destruct (exec ar (append1 (cf_grow cf) zero_entry t (VEntry k RNil)) h) as [o1 h1] eqn:Ea.
  destruct (append1_step tg h ar _ zero_entry t (VEntry k RNil) a o1 h1 HI Hsl I I Ea) as (tg1 & S1 & Q1 & Hs1).
  destruct o1 as [t1|]; [|crashS S1].
  pose proof Q1 as (Qt & Qc & Qa).
  assert (Gs1 : hget h1 s = Some (CPtr (VMapHdr t m0))) by (apply Qc; [assumption | discriminate]).
  assert (Ga1 : hget h1 a = Some (CPtr v)) by (apply Qc; [assumption | discriminate]).
  assert (Ts1 : tg1 s = TOwned a) by (rewrite Qt; congruence).
  assert (Ta1 : tg1 a = TAsm) by (rewrite Qt; congruence).
  rewrite exec_wr, Gs1 in He.
  assert (S2 : Step tg1 h1 tg1 (hset h1 s (CPtr (VMapHdr t1 m0)))).
  { eapply step_write_hdr; eauto. destruct S1; assumption. cbn. split; [assumption|].
    eapply quiet_gomap; eauto. discriminate. }
  set (h2 := hset h1 s (CPtr (VMapHdr t1 m0))) in *.
  assert (Ga2 : hget h2 a = Some (CPtr v)).
  { unfold h2. rewrite hget_hset. replace (addr_eqb s a) with false; [assumption|]. symmetry; apply addr_eqb_neq; neq. }
  rewrite exec_wr, Ga2, exec_ret in He. inversion He; subst.
  pose proof (step_trans _ _ _ _ _ _ S1 S2) as S12.
  eexists; split; [|exact I]. eapply step_trans; [exact S12|].
  destruct S12 as [I2 E2].
  eapply step_write_asm; eauto.
  eapply (asm_with_masm_later tg h a v m _ tg1 h2 Hok Vm); [congruence | exact E2 |].
  destruct Hm as (Hka & Hva & _).
  unfold masm_ok; cbn. split; [intros E; apply Hka in E; congruence|]. split; [reflexivity|].
  split; [assumption|]. exists t1, m0. split.
  - unfold h2. rewrite hget_hset, addr_eqb_refl, Gs1. reflexivity.
  - split.
    + unfold h2. eapply slice_ok_hset_ptr; eauto.
    + unfold h2. eapply gomap_ok_hset_ptr; eauto. eapply quiet_gomap; eauto. discriminate.
Qed.

Lemma t_map_assemble_key : forall a, triple (fun _ _ => True) (map_assemble_key a) tt_post.
Proof.
  intros a tg h ar o h' HI _ He. unfold map_assemble_key, rd_masm, rdv, wrv in He.
  pose proof (step_refl _ _ HI) as S0.
  rewrite exec_rd in He. destruct (hget h a) as [[| |v| |]|] eqn:Ga; try crash0.
  destruct (val_masm v) as [m|] eqn:Vm; [|crash0].
  destruct (mst_eqb (m_st m) MInitial) eqn:St; cbn [negb] in He; [|crash0].
  apply mst_eqb_eq in St.
  destruct (open_masm _ _ _ _ _ HI Ga Vm) as (Ta & Hok & Hm).
  rewrite exec_wr, Ga, exec_ret in He. inversion He; subst.
  eexists; split; [|exact I]. eapply step_write_asm; eauto.
  eapply asm_with_masm; eauto.
  destruct Hm as (Hka & Hva & Hw). unfold masm_ok; cbn.
  split; [reflexivity|]. split; [intros E; apply Hva in E; congruence|].
  destruct (m_w m); [|exact I]. rewrite St in Hw. exact Hw.
Qed.

Lemma t_map_assemble_value : forall a, triple (fun _ _ => True) (map_assemble_value a) tt_post.
Proof.
  intros a tg h ar o h' HI _ He. unfold map_assemble_value, rd_masm, rdv, wrv in He.
  pose proof (step_refl _ _ HI) as S0.
  rewrite exec_rd in He. destruct (hget h a) as [[| |v| |]|] eqn:Ga; try crash0.
  destruct (val_masm v) as [m|] eqn:Vm; [|crash0].
  destruct (mst_eqb (m_st m) MExpectValue) eqn:St; cbn [negb] in He; [|crash0].
  apply mst_eqb_eq in St.
  destruct (open_masm _ _ _ _ _ HI Ga Vm) as (Ta & Hok & Hm).
  rewrite exec_wr, Ga, exec_ret in He. inversion He; subst.
  eexists; split; [|exact I]. eapply step_write_asm; eauto.
  eapply asm_with_masm; eauto.
  destruct Hm as (Hka & Hva & Hw). unfold masm_ok; cbn.
  split; [intros E; apply Hka in E; congruence|]. split; [reflexivity|].
  destruct (m_w m); [|exact I]. rewrite St in Hw. exact Hw.
Qed.

Lemma t_map_finish_top : forall a, triple (fun _ _ => True) (map_finish_top a) tt_post.
Proof.
  intros a tg h ar o h' HI _ He. unfold map_finish_top, rd_masm, rdv, wrv in He.
  pose proof (step_refl _ _ HI) as S0.
  rewrite exec_rd in He. destruct (hget h a) as [[| |v| |]|] eqn:Ga; try crash0.
  destruct (val_masm v) as [m|] eqn:Vm; [|crash0].
  destruct (mst_eqb (m_st m) MInitial) eqn:St; cbn [negb] in He; [|crash0].
  apply mst_eqb_eq in St.
  destruct (open_masm _ _ _ _ _ HI Ga Vm) as (Ta & Hok & Hm).
  rewrite exec_wr, Ga, exec_ret in He. inversion He; subst.
  destruct Hm as (Hka & Hva & Hw).
  destruct (m_w m) as [s|] eqn:Ws.
  - (* the struct, its array and its map become frozen *)
    rewrite St in Hw. destruct Hw as [Ts (t & g & Gs & Hsl & Hgm)].
    set (xs := s :: (match s_arr t with Some x => [x] | None => [] end) ++ (match g with Some x => [x] | None => [] end)).
    exists (set_tags tg xs TFrozen). split; [|exact I].
    eapply step_freeze; eauto.
    + intros x [<-|Hx]; [assumption|]. apply in_app_or in Hx. destruct Hx as [Hx|Hx].
      * unfold slice_ok in Hsl. destruct (s_arr t); [|contradiction]. destruct Hx as [<-|[]]. tauto.
      * unfold gomap_ok in Hgm. destruct g; [|contradiction]. destruct Hx as [<-|[]]. tauto.
    + intros tg' h' -> -> HE Hout Hin Hh.
      assert (Hsl' : slice_ok (set_tags tg xs TFrozen) (hset h a (CPtr (val_with_masm v (set_mst m MFinished)))) TFrozen t).
      { unfold slice_ok in *. destruct (s_arr t) as [ta|] eqn:At; [|exact I]. destruct Hsl as [Tta [l Gl]].
        split; [apply Hin; right; apply in_or_app; left; left; reflexivity|].
        exists l. rewrite Hh; [assumption | neq]. }
      assert (Hgm' : gomap_ok (set_tags tg xs TFrozen) (hset h a (CPtr (val_with_masm v (set_mst m MFinished)))) TFrozen g).
      { unfold gomap_ok in *. destruct g as [ga|]; [|exact I]. destruct Hgm as [Tga [l Gl]].
        split; [apply Hin; right; apply in_or_app; right; left; reflexivity|].
        exists l. rewrite Hh; [assumption | neq]. }
      split.
      * intros x [<-|Hx].
        -- exists (CPtr (VMapHdr t g)). split; [assumption|]. cbn. auto.
        -- apply in_app_or in Hx. destruct Hx as [Hx|Hx].
           ++ unfold slice_ok in Hsl. destruct (s_arr t) as [ta|]; [|contradiction]. destruct Hx as [<-|[]].
              destruct Hsl as [Tta [l Gl]]. exists (CArr l). split; [assumption|].
              destruct (inv_owned _ _ _ _ HI Tta) as [c [Gc Dc]]. rewrite Gl in Gc; inversion Gc; subst c.
              cbn in *. revert Dc. apply Forall_impl. intros; eapply slot_ok_ext; eauto.
           ++ unfold gomap_ok in Hgm. destruct g as [ga|]; [|contradiction]. destruct Hx as [<-|[]].
              destruct Hgm as [Tga [l Gl]]. exists (CMap l). split; [assumption|].
              destruct (inv_owned _ _ _ _ HI Tga) as [c [Gc Dc]]. rewrite Gl in Gc; inversion Gc; subst c.
              cbn in *. revert Dc. apply Forall_impl. intros; eapply slot_ok_ext; eauto.
      * eapply asm_with_masm_later; eauto; [congruence|].
        unfold masm_ok; cbn. split; [intros E; apply Hka in E; congruence|].
        split; [intros E; apply Hva in E; congruence|].
        rewrite Ws. split; [apply Hin; left; reflexivity|]. exists t, g. rewrite Hh; [assumption | neq].
  - eexists; split; [|exact I]. eapply step_write_asm; eauto.
    apply (asm_with_masm _ _ _ _ m _ Hok Vm); [|reflexivity].
    unfold masm_ok; cbn. split; [intros E; apply Hka in E; congruence|].
    split; [intros E; apply Hva in E; congruence|]. rewrite Ws. exact I.
Qed.

(* the assembler embedded in cell a is not finished (what [legal] demands of BeginMap, BeginList) *)
Definition m_unfinished (a : addr) : assertion :=
  fun _ h => forall v m, hget h a = Some (CPtr v) -> val_masm v = Some m -> m_st m <> MFinished.
Definition l_unfinished (a : addr) : assertion :=
  fun _ h => forall v l, hget h a = Some (CPtr v) -> val_lasm v = Some l -> l_st l <> LFinished.

Lemma t_map_begin : forall a hint, triple (m_unfinished a) (map_begin a hint) tt_post.
Proof.
  intros a hint tg h ar o h' HI HP He. unfold map_begin, rd_masm, rdv, wrv, make_slice in He.
  pose proof (step_refl _ _ HI) as S0.
  rewrite exec_rd in He. destruct (hget h a) as [[| |v| |]|] eqn:Ga; try crash0.
  destruct (val_masm v) as [m|] eqn:Vm; [|crash0].
  destruct (m_w m) as [s|] eqn:Ws; [|crash0].
  pose proof (HP v m Ga Vm) as Hn.
  destruct (open_masm _ _ _ _ _ HI Ga Vm) as (Ta & Hok & Hm).
  destruct (masm_unfinished _ _ _ _ _ Hm Ws Hn) as [Ts (t0 & g0 & Gs & _)].
  rewrite exec_bind, exec_new in He.
  destruct (halloc ar h (CArr (repeat zero_entry hint))) as [h1 x] eqn:A1.
  rewrite exec_ret, exec_new in He.
  destruct (halloc ar h1 (CMap [])) as [h2 y] eqn:A2.
  assert (S1 : Step tg h (set_tag tg x (TOwned a)) h1).
  { eapply step_new_owned; eauto. cbn. apply Forall_repeat. exact I. }
  destruct (hget_halloc_new _ _ _ _ _ _ A1) as [N1 O1]. destruct (hget_halloc_new _ _ _ _ _ _ A2) as [N2 O2].
  assert (S2 : Step (set_tag tg x (TOwned a)) h1 (set_tag (set_tag tg x (TOwned a)) y (TOwned a)) h2).
  { eapply step_new_owned; eauto. destruct S1; assumption. cbn. constructor. }
  set (tg2 := set_tag (set_tag tg x (TOwned a)) y (TOwned a)) in *.
  assert (Hxy : x <> y) by neq.
  assert (Hsx : s <> x) by neq. assert (Hsy : s <> y).
  { intros <-. rewrite (hget_halloc_mono _ _ _ _ _ _ _ _ A1 Gs) in O2. discriminate. }
  assert (Gs2 : hget h2 s = Some (CPtr (VMapHdr t0 g0))) by (eauto using hget_halloc_mono).
  assert (Ts2 : tg2 s = TOwned a) by (unfold tg2; rewrite !set_tag_other by assumption; assumption).
  rewrite exec_wr, Gs2, exec_ret in He. inversion He; subst.
  eexists; split; [|exact I]. eapply step_trans; [exact S1|]. eapply step_trans; [exact S2|].
  eapply step_write_hdr; eauto. destruct S2; assumption.
  cbn. split.
  - unfold slice_ok; cbn. split; [unfold tg2; rewrite set_tag_other by assumption; apply set_tag_same|].
    eexists. eapply hget_halloc_mono; eauto.
  - unfold gomap_ok. split; [unfold tg2; apply set_tag_same | eauto].
Qed.

Lemma t_key_assign_string : forall cf a k, triple (fun _ _ => True) (key_assign_string cf a k) tt_post.
Proof.
  intros cf a k tg h ar o h' HI _ He. unfold key_assign_string, rd_masm, rdv, wrv in He.
  pose proof (step_refl _ _ HI) as S0.
  rewrite exec_rd in He. destruct (hget h a) as [[| |v| |]|] eqn:Ga; try crash0.
  destruct (val_masm v) as [m|] eqn:Vm; [|crash0].
  destruct (m_ka m) eqn:Ka; cbn [negb] in He; [|crash0].
  destruct (m_w m) as [s|] eqn:Ws; [|crash0].
  rewrite exec_rd in He. destruct (hget h s) as [[| |hv| |]|] eqn:Gs; try crash0.
  destruct hv; try crash0.
  destruct (open_masm _ _ _ _ _ HI Ga Vm) as (Ta & Hok & Hm).
  pose proof Hm as (Hka & Hva & _). pose proof (Hka Ka) as St.
  destruct (masm_unfinished _ _ _ _ _ Hm Ws ltac:(congruence)) as [Ts (t' & g' & Gs' & Hsl & Hgm)].
  rewrite Gs in Gs'. inversion Gs'; subst t' g'.
  rewrite exec_bind in He. destruct (exec_gomap_has _ _ _ _ k ar Hgm) as [ex Hex]. rewrite Hex in He.
  destruct ex.
  - (* repeated key: back to 'initial' *)
    rewrite exec_wr, Ga, exec_ret in He. inversion He; subst.
    eexists; split; [|exact I]. eapply step_write_asm; eauto.
    apply (asm_with_masm _ _ _ _ m _ Hok Vm); [|cbn; congruence].
    unfold masm_ok; cbn. split; [discriminate|]. split; [intros E; apply Hva in E; congruence|].
    split; [assumption|]. eauto.
  - rewrite exec_bind in He.
    destruct (exec ar (append1 (cf_grow cf) zero_entry t (VEntry k RNil)) h) as [o1 h1] eqn:Ea.
    destruct (append1_step tg h ar _ zero_entry t (VEntry k RNil) a o1 h1 HI Hsl I I Ea) as (tg1 & S1 & Q1 & Hs1).
    destruct o1 as [t1|]; [|crashS S1].
    pose proof Q1 as (Qt & Qc & Qa).
    assert (Gs1 : hget h1 s = Some (CPtr (VMapHdr t m0))) by (apply Qc; [assumption | discriminate]).
    assert (Ga1 : hget h1 a = Some (CPtr v)) by (apply Qc; [assumption | discriminate]).
    assert (Ts1 : tg1 s = TOwned a) by (rewrite Qt; congruence).
    assert (Ta1 : tg1 a = TAsm) by (rewrite Qt; congruence).
    rewrite exec_wr, Gs1 in He.
    assert (S2 : Step tg1 h1 tg1 (hset h1 s (CPtr (VMapHdr t1 m0)))).
    { eapply step_write_hdr; eauto. destruct S1; assumption. cbn. split; [assumption|].
      eapply quiet_gomap; eauto. discriminate. }
    set (h2 := hset h1 s (CPtr (VMapHdr t1 m0))) in *.
    assert (Ga2 : hget h2 a = Some (CPtr v)).
    { unfold h2. rewrite hget_hset. replace (addr_eqb s a) with false; [assumption|]. symmetry; apply addr_eqb_neq; neq. }
    rewrite exec_wr, Ga2, exec_ret in He. inversion He; subst.
    pose proof (step_trans _ _ _ _ _ _ S1 S2) as S12.
    eexists; split; [|exact I]. eapply step_trans; [exact S12|].
    destruct S12 as [I2 E2].
    eapply step_write_asm; eauto.
    eapply (asm_with_masm_later tg h a v m _ tg1 h2 Hok Vm); [congruence | exact E2 |].
    unfold masm_ok; cbn. split; [discriminate|]. split; [intros E; apply Hva in E; congruence|].
    split; [assumption|]. exists t1, m0. split.
    + unfold h2. rewrite hget_hset, addr_eqb_refl, Gs1. reflexivity.
    + split.
      * unfold h2. eapply slice_ok_hset_ptr; eauto.
      * unfold h2. eapply gomap_ok_hset_ptr; eauto. eapply quiet_gomap; eauto. discriminate.
Qed.

Definition a_fref (r : nref) : assertion := fun tg h => fref tg h r.
Lemma a_fref_stable : forall r, stable (a_fref r).
Proof. intros r tg h tg' h' H HE. eapply fref_ext; eauto. Qed.

Lemma t_va_assign_m : forall a r, triple (a_fref r) (va_assign_m a r) tt_post.
Proof.
  intros a r tg h ar o h' HI HP He. unfold va_assign_m, rd_masm, rdv, wrv in He. unfold a_fref in HP.
  pose proof (step_refl _ _ HI) as S0.
  rewrite exec_rd in He. destruct (hget h a) as [[| |v| |]|] eqn:Ga; try crash0.
  destruct (val_masm v) as [m|] eqn:Vm; [|crash0].
  destruct (m_va m) eqn:Va; cbn [negb] in He; [|crash0].
  destruct (m_w m) as [s|] eqn:Ws; [|crash0].
  rewrite exec_rd in He. destruct (hget h s) as [[| |hv| |]|] eqn:Gs; try crash0.
  destruct hv; try crash0.
  destruct (s_arr t) as [ta|] eqn:At; [|crash0].
  destruct (s_len t) as [|n] eqn:Lt; [crash0|].
  rewrite exec_rd in He. destruct (hget h ta) as [[sl| | | |]|] eqn:Gt; try crash0.
  destruct (nth_error sl (s_off t + n)) as [[]|] eqn:Nt; try crash0.
  destruct (open_masm _ _ _ _ _ HI Ga Vm) as (Ta & Hok & Hm).
  pose proof Hm as (Hka & Hva & _). pose proof (Hva Va) as St.
  destruct (masm_unfinished _ _ _ _ _ Hm Ws ltac:(congruence)) as [Ts (t' & g' & Gs' & Hsl & Hgm)].
  rewrite Gs in Gs'. inversion Gs'; subst t' g'.
  pose proof Hsl as Hsl0. unfold slice_ok in Hsl0. rewrite At in Hsl0. destruct Hsl0 as [Tta _].
  destruct (inv_owned _ _ _ _ HI Tta) as [c [Gc Dc]]. rewrite Gt in Gc; inversion Gc; subst c. cbn in Dc.
  rewrite exec_wr, Gt in He.
  set (h1 := hset h ta (CArr (upd (s_off t + n) sl (VEntry k r)))) in *.
  assert (S1 : Step tg h tg h1).
  { eapply step_write_data; eauto. cbn. apply Forall_upd; assumption. }
  destruct m0 as [ga|]; [|crashS S1].
  pose proof Hgm as [Tga [es Ge]].
  assert (Ge1 : hget h1 ga = Some (CMap es)).
  { unfold h1. rewrite hget_hset. replace (addr_eqb ta ga) with false; [assumption|]. symmetry; apply addr_eqb_neq; neq. }
  rewrite exec_rd, Ge1, exec_wr, Ge1 in He.
  set (h2 := hset h1 ga (CMap (map_set es k (VNode r)))) in *.
  destruct (inv_owned _ _ _ _ HI Tga) as [c [Gc' Dc']]. rewrite Ge in Gc'; inversion Gc'; subst c. cbn in Dc'.
  assert (S2 : Step tg h1 tg h2).
  { destruct S1 as [I1 E1]. eapply step_write_data; eauto. cbn.
    apply Forall_map_set.
    - revert Dc'. apply Forall_impl. intros; eapply slot_ok_ext; eauto.
    - cbn. eapply fref_ext; eauto. }
  assert (Ga2 : hget h2 a = Some (CPtr v)).
  { unfold h2, h1. rewrite !hget_hset.
    replace (addr_eqb ga a) with false by (symmetry; apply addr_eqb_neq; neq).
    replace (addr_eqb ta a) with false by (symmetry; apply addr_eqb_neq; neq). assumption. }
  rewrite exec_wr, Ga2, exec_ret in He. inversion He; subst.
  pose proof (step_trans _ _ _ _ _ _ S1 S2) as S12.
  eexists; split; [|exact I]. eapply step_trans; [exact S12|].
  destruct S12 as [I2 E2].
  eapply step_write_asm; eauto.
  eapply (asm_with_masm_later tg h a v m _ tg h2 Hok Vm); [congruence | exact E2 |].
  unfold masm_ok; cbn. split; [intros E; apply Hka in E; congruence|]. split; [discriminate|].
  split; [assumption|]. exists t, (Some ga). split.
  - unfold h2, h1. rewrite !hget_hset.
    replace (addr_eqb ga s) with false by (symmetry; apply addr_eqb_neq; neq).
    replace (addr_eqb ta s) with false by (symmetry; apply addr_eqb_neq; neq). assumption.
  - split.
    + unfold slice_ok. rewrite At. split; [assumption|]. eexists. unfold h2, h1. rewrite !hget_hset.
      replace (addr_eqb ga ta) with false by (symmetry; apply addr_eqb_neq; neq).
      rewrite addr_eqb_refl, Gt. reflexivity.
    + unfold gomap_ok. split; [assumption|]. eexists. unfold h2. rewrite hget_hset, addr_eqb_refl, Ge1. reflexivity.
Qed.

(* ------------------------------------------------------------------ list assembler *)

Lemma t_list_begin : forall a hint, triple (l_unfinished a) (list_begin a hint) tt_post.
Proof.
  intros a hint tg h ar o h' HI HP He. unfold list_begin, rd_lasm, rdv, wrv, make_slice in He.
  pose proof (step_refl _ _ HI) as S0.
  rewrite exec_rd in He. destruct (hget h a) as [[| |v| |]|] eqn:Ga; try crash0.
  destruct (val_lasm v) as [l|] eqn:Vm; [|crash0].
  destruct (l_w l) as [s|] eqn:Ws; [|crash0].
  pose proof (HP v l Ga Vm) as Hn.
  destruct (open_lasm _ _ _ _ _ HI Ga Vm) as (Ta & Hok & Hm).
  destruct (lasm_unfinished _ _ _ _ _ Hm Ws Hn) as [Ts (x0 & Gs & _)].
  rewrite exec_bind, exec_new in He.
  destruct (halloc ar h (CArr (repeat zero_node hint))) as [h1 x] eqn:A1.
  rewrite exec_ret in He.
  assert (S1 : Step tg h (set_tag tg x (TOwned a)) h1).
  { eapply step_new_owned; eauto. cbn. apply Forall_repeat. exact I. }
  destruct (hget_halloc_new _ _ _ _ _ _ A1) as [N1 O1].
  assert (Hsx : s <> x) by neq.
  assert (Gs1 : hget h1 s = Some (CPtr (VListHdr x0))) by (eauto using hget_halloc_mono).
  rewrite exec_wr, Gs1, exec_ret in He. inversion He; subst.
  eexists; split; [|exact I]. eapply step_trans; [exact S1|].
  apply (step_write_hdr _ _ s a (CPtr (VListHdr x0)) _ (proj1 S1)).
  - rewrite set_tag_other by assumption. assumption.
  - assumption.
  - cbn. unfold slice_ok; cbn. split; [apply set_tag_same | eauto].
Qed.

Lemma t_list_assemble_value : forall a, triple (fun _ _ => True) (list_assemble_value a) tt_post.
Proof.
  intros a tg h ar o h' HI _ He. unfold list_assemble_value, rd_lasm, rdv, wrv in He.
  pose proof (step_refl _ _ HI) as S0.
  rewrite exec_rd in He. destruct (hget h a) as [[| |v| |]|] eqn:Ga; try crash0.
  destruct (val_lasm v) as [l|] eqn:Vm; [|crash0].
  destruct (lst_eqb (l_st l) LInitial) eqn:St; cbn [negb] in He; [|crash0].
  apply lst_eqb_eq in St.
  destruct (open_lasm _ _ _ _ _ HI Ga Vm) as (Ta & Hok & Hm).
  rewrite exec_wr, Ga, exec_ret in He. inversion He; subst.
  eexists; split; [|exact I]. eapply step_write_asm; eauto.
  apply (asm_with_lasm _ _ _ _ l _ Hok Vm); [|reflexivity].
  destruct Hm as (Hva & Hw). unfold lasm_ok; cbn.
  split; [reflexivity|]. destruct (l_w l); [|exact I]. rewrite St in Hw. exact Hw.
Qed.

Lemma t_va_assign_l : forall cf a r, triple (a_fref r) (va_assign_l cf a r) tt_post.
Proof.
  intros cf a r tg h ar o h' HI HP He. unfold va_assign_l, rd_lasm, rdv, wrv in He. unfold a_fref in HP.
  pose proof (step_refl _ _ HI) as S0.
  rewrite exec_rd in He. destruct (hget h a) as [[| |v| |]|] eqn:Ga; try crash0.
  destruct (val_lasm v) as [l|] eqn:Vm; [|crash0].
  destruct (l_va l) eqn:Va; cbn [negb] in He; [|crash0].
  destruct (l_w l) as [s|] eqn:Ws; [|crash0].
  rewrite exec_rd in He. destruct (hget h s) as [[| |hv| |]|] eqn:Gs; try crash0.
  destruct hv; try crash0.
  destruct (open_lasm _ _ _ _ _ HI Ga Vm) as (Ta & Hok & Hm).
  pose proof Hm as (Hva & _). pose proof (Hva Va) as St.
  destruct (lasm_unfinished _ _ _ _ _ Hm Ws ltac:(congruence)) as [Ts (x' & Gs' & Hsl)].
  rewrite Gs in Gs'. inversion Gs'; subst x'.
  rewrite exec_bind in He.
  destruct (exec ar (append1 (cf_grow cf) zero_node x (VNode r)) h) as [o1 h1] eqn:Ea.
  destruct (append1_step tg h ar _ zero_node x (VNode r) a o1 h1 HI Hsl I HP Ea) as (tg1 & S1 & Q1 & Hs1).
  destruct o1 as [x1|]; [|crashS S1].
  pose proof Q1 as (Qt & Qc & Qa).
  assert (Gs1 : hget h1 s = Some (CPtr (VListHdr x))) by (apply Qc; [assumption | discriminate]).
  assert (Ga1 : hget h1 a = Some (CPtr v)) by (apply Qc; [assumption | discriminate]).
  assert (Ts1 : tg1 s = TOwned a) by (rewrite Qt; congruence).
  assert (Ta1 : tg1 a = TAsm) by (rewrite Qt; congruence).
  rewrite exec_wr, Gs1 in He.
  assert (S2 : Step tg1 h1 tg1 (hset h1 s (CPtr (VListHdr x1)))).
  { eapply step_write_hdr; eauto. destruct S1; assumption. }
  set (h2 := hset h1 s (CPtr (VListHdr x1))) in *.
  assert (Ga2 : hget h2 a = Some (CPtr v)).
  { unfold h2. rewrite hget_hset. replace (addr_eqb s a) with false; [assumption|]. symmetry; apply addr_eqb_neq; neq. }
  rewrite exec_wr, Ga2, exec_ret in He. inversion He; subst.
  pose proof (step_trans _ _ _ _ _ _ S1 S2) as S12.
  eexists; split; [|exact I]. eapply step_trans; [exact S12|].
  destruct S12 as [I2 E2].
  eapply step_write_asm; eauto.
  eapply (asm_with_lasm_later tg h a v l _ tg1 h2 Hok Vm); [congruence | exact E2 |].
  unfold lasm_ok; cbn. split; [discriminate|].
  split; [assumption|]. exists x1. split.
  - unfold h2. rewrite hget_hset, addr_eqb_refl, Gs1. reflexivity.
  - unfold h2. eapply slice_ok_hset_ptr; eauto.
Qed.

Lemma t_list_finish_top : forall a, triple (fun _ _ => True) (list_finish_top a) tt_post.
Proof.
  intros a tg h ar o h' HI _ He. unfold list_finish_top, rd_lasm, rdv, wrv in He.
  pose proof (step_refl _ _ HI) as S0.
  rewrite exec_rd in He. destruct (hget h a) as [[| |v| |]|] eqn:Ga; try crash0.
  destruct (val_lasm v) as [l|] eqn:Vm; [|crash0].
  destruct (lst_eqb (l_st l) LInitial) eqn:St; cbn [negb] in He; [|crash0].
  apply lst_eqb_eq in St.
  destruct (open_lasm _ _ _ _ _ HI Ga Vm) as (Ta & Hok & Hm).
  rewrite exec_wr, Ga, exec_ret in He. inversion He; subst.
  destruct Hm as (Hva & Hw).
  destruct (l_w l) as [s|] eqn:Ws.
  - rewrite St in Hw. destruct Hw as [Ts (x & Gs & Hsl)].
    set (xs := s :: (match s_arr x with Some y => [y] | None => [] end)).
    exists (set_tags tg xs TFrozen). split; [|exact I].
    eapply step_freeze; eauto.
    + intros y [<-|Hy]; [assumption|].
      unfold slice_ok in Hsl. destruct (s_arr x); [|contradiction]. destruct Hy as [<-|[]]. tauto.
    + intros tg' h' -> -> HE Hout Hin Hh.
      assert (Hsl' : slice_ok (set_tags tg xs TFrozen)
                       (hset h a (CPtr (val_with_lasm v {| l_w := Some s; l_va := l_va l; l_st := LFinished |}))) TFrozen x).
      { unfold slice_ok in *. destruct (s_arr x) as [ta|] eqn:At; [|exact I]. destruct Hsl as [Tta [sl Gl]].
        split; [apply Hin; right; left; reflexivity|].
        exists sl. rewrite Hh; [assumption | neq]. }
      split.
      * intros y [<-|Hy].
        -- exists (CPtr (VListHdr x)). split; [assumption|]. cbn. auto.
        -- unfold slice_ok in Hsl. destruct (s_arr x) as [ta|]; [|contradiction]. destruct Hy as [<-|[]].
           destruct Hsl as [Tta [sl Gl]]. exists (CArr sl). split; [assumption|].
           destruct (inv_owned _ _ _ _ HI Tta) as [c [Gc Dc]]. rewrite Gl in Gc; inversion Gc; subst c.
           cbn in *. revert Dc. apply Forall_impl. intros; eapply slot_ok_ext; eauto.
      * eapply asm_with_lasm_later; eauto; [congruence|].
        unfold lasm_ok; cbn. split; [intros E; apply Hva in E; congruence|].
        split; [apply Hin; left; reflexivity|]. exists x. rewrite Hh; [assumption | neq].
  - eexists; split; [|exact I]. eapply step_write_asm; eauto.
    apply (asm_with_lasm _ _ _ _ l _ Hok Vm); [|cbn; congruence].
    unfold lasm_ok; cbn. split; [intros E; apply Hva in E; congruence|]. exact I.
Qed.

(* ------------------------------------------------------------------ freezing a struct (child Finish, shortcuts) *)

Lemma freeze_map_step : forall tg h a c0 v' s t g,
  Inv tg h -> tg a = TAsm -> hget h a = Some c0 ->
  tg s = TOwned a -> hget h s = Some (CPtr (VMapHdr t g)) ->
  slice_ok tg h (TOwned a) t -> gomap_ok tg h (TOwned a) g ->
  (forall tg' h', Ext tg h tg' h' -> fref tg' h' (RMap s) -> asm_ok tg' h' a v') ->
  exists tg', Step tg h tg' (hset h a (CPtr v')) /\ fref tg' (hset h a (CPtr v')) (RMap s).
Proof.
  intros * HI Ta Ga Ts Gs Hsl Hgm Hasm.
  set (xs := s :: (match s_arr t with Some x => [x] | None => [] end) ++ (match g with Some x => [x] | None => [] end)).
  assert (Hxs : forall x, In x xs -> tg x = TOwned a).
  { intros x [<-|Hx]; [assumption|]. apply in_app_or in Hx. destruct Hx as [Hx|Hx].
    - unfold slice_ok in Hsl. destruct (s_arr t); [|contradiction]. destruct Hx as [<-|[]]. tauto.
    - unfold gomap_ok in Hgm. destruct g; [|contradiction]. destruct Hx as [<-|[]]. tauto. }
  assert (Hsa : s <> a) by neq.
  exists (set_tags tg xs TFrozen).
  assert (Hf : fref (set_tags tg xs TFrozen) (hset h a (CPtr v')) (RMap s)).
  { cbn. split; [apply set_tags_in; left; reflexivity|]. exists t, g. rewrite hget_hset_other; auto. }
  split; [|assumption].
  eapply step_freeze; eauto.
  intros tg' h' -> -> HE Hout Hin Hh.
  assert (Hsl' : slice_ok (set_tags tg xs TFrozen) (hset h a (CPtr v')) TFrozen t).
  { unfold slice_ok in *. destruct (s_arr t) as [ta|] eqn:At; [|exact I]. destruct Hsl as [Tta [l Gl]].
    split; [apply Hin; right; apply in_or_app; left; left; reflexivity|].
    exists l. rewrite Hh; [assumption | neq]. }
  assert (Hgm' : gomap_ok (set_tags tg xs TFrozen) (hset h a (CPtr v')) TFrozen g).
  { unfold gomap_ok in *. destruct g as [ga|]; [|exact I]. destruct Hgm as [Tga [l Gl]].
    split; [apply Hin; right; apply in_or_app; right; left; reflexivity|].
    exists l. rewrite Hh; [assumption | neq]. }
  split; [|apply Hasm; assumption].
  intros x [<-|Hx].
  - exists (CPtr (VMapHdr t g)). split; [assumption|]. cbn. auto.
  - apply in_app_or in Hx. destruct Hx as [Hx|Hx].
    + unfold slice_ok in Hsl. destruct (s_arr t) as [ta|]; [|contradiction]. destruct Hx as [<-|[]].
      destruct Hsl as [Tta [l Gl]]. exists (CArr l). split; [assumption|].
      destruct (inv_owned _ _ _ _ HI Tta) as [c [Gc Dc]]. rewrite Gl in Gc; inversion Gc; subst c.
      cbn in *. revert Dc. apply Forall_impl. intros; eapply slot_ok_ext; eauto.
    + unfold gomap_ok in Hgm. destruct g as [ga|]; [|contradiction]. destruct Hx as [<-|[]].
      destruct Hgm as [Tga [l Gl]]. exists (CMap l). split; [assumption|].
      destruct (inv_owned _ _ _ _ HI Tga) as [c [Gc Dc]]. rewrite Gl in Gc; inversion Gc; subst c.
      cbn in *. revert Dc. apply Forall_impl. intros; eapply slot_ok_ext; eauto.
Qed.

Lemma freeze_list_step : forall tg h a c0 v' s x,
  Inv tg h -> tg a = TAsm -> hget h a = Some c0 ->
  tg s = TOwned a -> hget h s = Some (CPtr (VListHdr x)) ->
  slice_ok tg h (TOwned a) x ->
  (forall tg' h', Ext tg h tg' h' -> fref tg' h' (RList s) -> asm_ok tg' h' a v') ->
  exists tg', Step tg h tg' (hset h a (CPtr v')) /\ fref tg' (hset h a (CPtr v')) (RList s).
Proof.
  intros * HI Ta Ga Ts Gs Hsl Hasm.
  set (xs := s :: (match s_arr x with Some y => [y] | None => [] end)).
  assert (Hxs : forall y, In y xs -> tg y = TOwned a).
  { intros y [<-|Hy]; [assumption|].
    unfold slice_ok in Hsl. destruct (s_arr x); [|contradiction]. destruct Hy as [<-|[]]. tauto. }
  assert (Hsa : s <> a) by neq.
  exists (set_tags tg xs TFrozen).
  assert (Hf : fref (set_tags tg xs TFrozen) (hset h a (CPtr v')) (RList s)).
  { cbn. split; [apply set_tags_in; left; reflexivity|]. exists x. rewrite hget_hset_other; auto. }
  split; [|assumption].
  eapply step_freeze; eauto.
  intros tg' h' -> -> HE Hout Hin Hh.
  assert (Hsl' : slice_ok (set_tags tg xs TFrozen) (hset h a (CPtr v')) TFrozen x).
  { unfold slice_ok in *. destruct (s_arr x) as [ta|] eqn:At; [|exact I]. destruct Hsl as [Tta [l Gl]].
    split; [apply Hin; right; left; reflexivity|].
    exists l. rewrite Hh; [assumption | neq]. }
  split; [|apply Hasm; assumption].
  intros y [<-|Hy].
  - exists (CPtr (VListHdr x)). split; [assumption|]. cbn. auto.
  - unfold slice_ok in Hsl. destruct (s_arr x) as [ta|]; [|contradiction]. destruct Hy as [<-|[]].
    destruct Hsl as [Tta [l Gl]]. exists (CArr l). split; [assumption|].
    destruct (inv_owned _ _ _ _ HI Tta) as [c [Gc Dc]]. rewrite Gl in Gc; inversion Gc; subst c.
    cbn in *. revert Dc. apply Forall_impl. intros; eapply slot_ok_ext; eauto.
Qed.

Lemma t_va_assign : forall cf pf a r, triple (a_fref r) (va_assign cf pf a r) tt_post.
Proof. intros cf [] a r; cbn; [apply t_va_assign_m | apply t_va_assign_l]. Qed.

(* child Finish: the child's struct freezes, then it is inserted into the parent *)
Lemma t_map_finish : forall cf a, triple (fun _ _ => True) (map_finish cf a) tt_post.
Proof.
  intros cf a tg h ar o h' HI _ He. unfold map_finish, rdv in He.
  rewrite exec_rd in He. destruct (hget h a) as [[| |v| |]|] eqn:Ga; try crash0.
  pose proof (step_refl _ _ HI) as S0.
  destruct v; try (eapply t_map_finish_top; eauto; exact I); try crash0.
  destruct (mst_eqb (m_st m) MInitial) eqn:St; cbn [negb] in He; [|crash0].
  apply mst_eqb_eq in St.
  destruct (m_w m) as [s|] eqn:Ws; [|crash0].
  destruct (open_masm _ _ _ (VChildM m p pf) m HI Ga eq_refl) as (Ta & Hok & Hm).
  destruct (masm_unfinished _ _ _ _ _ Hm Ws ltac:(congruence)) as [Ts (t & g & Gs & Hsl & Hgm)].
  pose proof Hm as (Hka & Hva & _).
  unfold wrv in He. rewrite exec_wr, Ga in He.
  destruct (freeze_map_step tg h a _ (VChildM {| m_w := None; m_ka := m_ka m; m_va := m_va m; m_st := MFinished |} p pf)
              s t g HI Ta Ga Ts Gs Hsl Hgm) as (tg1 & S1 & F1).
  { intros tg' h2 HE Hf. cbn. unfold masm_ok; cbn.
    split; [intros E; apply Hka in E; congruence|]. split; [intros E; apply Hva in E; congruence|]. exact I. }
  destruct p as [pa|]; [|crashS S1].
  destruct (t_va_assign cf pf pa (RMap s) tg1 _ ar o h' (proj1 S1) F1 He) as (tg2 & S2 & _).
  exists tg2. split; [eapply step_trans; eauto | destruct o; exact I].
Qed.

Lemma t_list_finish : forall cf a, triple (fun _ _ => True) (list_finish cf a) tt_post.
Proof.
  intros cf a tg h ar o h' HI _ He. unfold list_finish, rdv in He.
  rewrite exec_rd in He. destruct (hget h a) as [[| |v| |]|] eqn:Ga; try crash0.
  pose proof (step_refl _ _ HI) as S0.
  destruct v; try (eapply t_list_finish_top; eauto; exact I); try crash0.
  destruct (lst_eqb (l_st l) LInitial) eqn:St; cbn [negb] in He; [|crash0].
  apply lst_eqb_eq in St.
  destruct (l_w l) as [s|] eqn:Ws; [|crash0].
  destruct (open_lasm _ _ _ (VChildL l p pf) l HI Ga eq_refl) as (Ta & Hok & Hm).
  destruct (lasm_unfinished _ _ _ _ _ Hm Ws ltac:(congruence)) as [Ts (x & Gs & Hsl)].
  pose proof Hm as (Hva & _).
  unfold wrv in He. rewrite exec_wr, Ga in He.
  destruct (freeze_list_step tg h a _ (VChildL {| l_w := None; l_va := l_va l; l_st := LFinished |} p pf)
              s x HI Ta Ga Ts Gs Hsl) as (tg1 & S1 & F1).
  { intros tg' h2 HE Hf. cbn. unfold lasm_ok; cbn.
    split; [intros E; apply Hva in E; congruence|]. exact I. }
  destruct p as [pa|]; [|crashS S1].
  destruct (t_va_assign cf pf pa (RList s) tg1 _ ar o h' (proj1 S1) F1 He) as (tg2 & S2 & _).
  exists tg2. split; [eapply step_trans; eauto | destruct o; exact I].
Qed.

(* ------------------------------------------------------------------ read-only programs *)

Lemma exec_wfree : forall A (p : mprog A), wfree p -> forall ar h o h', exec ar p h = (o, h') -> h' = h.
Proof.
  intros A p W ar h o h' He. unfold exec in He. destruct (run ar p h) as [[o1 h1] l1] eqn:R. inversion He; subst.
  eapply wfree_run; eauto.
Qed.

Lemma triple_wfree : forall A (P : assertion) (p : mprog A) (Q : A -> assertion),
  wfree p -> (forall tg h ar a, Inv tg h -> P tg h -> exec ar p h = (Done a, h) -> Q a tg h) -> triple P p Q.
Proof.
  intros * W HQ tg h ar o h' HI HP He. pose proof (exec_wfree _ _ W _ _ _ _ He). subst h'.
  exists tg. split; [apply step_refl; assumption|]. destruct o; [eapply HQ; eauto | exact I].
Qed.

Lemma wfree_read_bytes : forall s, wfree (@read_bytes val s).
Proof. intros s. unfold read_bytes. destruct (s_arr s); repeat (constructor; intros). destruct c; constructor. Qed.
Lemma wfree_read_slice : forall s, wfree (@read_slice val s).
Proof. intros s. unfold read_slice. destruct (s_arr s); repeat (constructor; intros). destruct c; constructor. Qed.

Lemma wfree_rd_content : forall fuel a, wfree (@rd_content val fuel a).
Proof.
  induction fuel; cbn; intros a; [constructor|]. constructor. intros c.
  destruct c; try constructor. destruct r; [apply wfree_read_bytes | | constructor].
  apply wfree_bind; [apply IHfuel | intros; constructor].
Qed.

Lemma wfree_va_parent : forall pf pa, wfree (va_parent pf pa).
Proof.
  intros [] pa; unfold va_parent, rd_masm, rd_lasm, rdv; constructor; intros c; destruct c; try constructor.
  - destruct (val_masm v); constructor.
  - destruct (val_lasm v); constructor.
Qed.

Lemma wfree_gomap_has : forall g k, wfree (gomap_has g k).
Proof. intros [ga|] k; cbn; constructor. intros c; destruct c; constructor. Qed.

(* ------------------------------------------------------------------ readers *)

Definition rdr_at (a : addr) : assertion := fun tg h => tg a = TFrozen /\ exists rd, hget h a = Some (CRdr rd).
Lemma rdr_at_stable : forall a, stable (rdr_at a).
Proof.
  intros a tg h tg' h' [Ta [rd Hr]] HE. split; [apply HE; assumption|].
  destruct (ext_rdr _ _ _ _ _ _ HE Ta Hr) as [r' [Hr' _]]. eauto.
Qed.

Lemma rdr_eqv_sym : forall a b, rdr_eqv a b -> rdr_eqv b a.
Proof. destruct a, b; cbn; intuition congruence. Qed.

Lemma t_rd_seek : forall a o0, triple (rdr_at a) (rd_seek a o0) tt_post.
Proof.
  intros a o0 tg h ar o h' HI [Ta [rd Hr]] He. unfold rd_seek in He.
  rewrite exec_rd, Hr in He. destruct rd.
  - rewrite exec_wr, Hr, exec_ret in He. inversion He; subst.
    eexists; split; [|exact I]. eapply step_write_rdr; eauto. reflexivity.
  - rewrite exec_wr, Hr, exec_ret in He. inversion He; subst.
    eexists; split; [|exact I]. eapply step_write_rdr; eauto. cbn; auto.
  - rewrite exec_crash in He. inversion He; subst. exists tg; split; [apply step_refl; assumption | exact I].
Qed.

Lemma t_rd_seek_end : forall a, triple (rdr_at a) (rd_seek_end a) tt_post.
Proof.
  intros a tg h ar o h' HI [Ta [rd Hr]] He. unfold rd_seek_end in He.
  rewrite exec_rd, Hr in He. destruct rd.
  - rewrite exec_wr, Hr, exec_ret in He. inversion He; subst.
    eexists; split; [|exact I]. eapply step_write_rdr; eauto. reflexivity.
  - rewrite exec_wr, Hr, exec_ret in He. inversion He; subst.
    eexists; split; [|exact I]. eapply step_write_rdr; eauto. cbn; auto.
  - rewrite exec_crash in He. inversion He; subst. exists tg; split; [apply step_refl; assumption | exact I].
Qed.

Lemma t_rd_read : forall fuel a k, triple (rdr_at a) (rd_read fuel a k) tt_post.
Proof.
  induction fuel; intros a k tg h ar o h' HI HP He; cbn [rd_read] in He; [crash0|].
  pose proof HP as [Ta [rd Hr]]. pose proof (step_refl _ _ HI) as S0.
  rewrite exec_rd, Hr in He. destruct rd as [s pos | p ra base off lim | src off].
  3:{ (* a cursor: reads the source's content, moves only itself *)
      rewrite exec_bind in He.
      destruct (exec ar (rd_content fuel src) h) as [[data|] h1] eqn:Eb;
        pose proof (exec_wfree _ _ (wfree_rd_content fuel src) _ _ _ _ Eb); subst h1; [|crashS S0].
      rewrite exec_wr, Hr, exec_ret in He. inversion He; subst.
      eexists; split; [|exact I]. eapply step_write_rdr; eauto. reflexivity. }
  - rewrite exec_bind in He.
    destruct (exec ar (read_bytes s) h) as [[data|] h1] eqn:Eb;
      pose proof (exec_wfree _ _ (wfree_read_bytes s) _ _ _ _ Eb); subst h1; [|crashS S0].
    rewrite exec_wr, Hr, exec_ret in He. inversion He; subst.
    eexists; split; [|exact I]. eapply step_write_rdr; eauto. reflexivity.
  - destruct (lim <=? off); [doneS S0|].
    destruct (inv_frozen _ _ _ HI Ta) as [c [Gc Fc]]. rewrite Hr in Gc; inversion Gc; subst c. cbn in Fc.
    assert (Hp : rdr_at p tg h) by exact Fc.
    rewrite exec_bind in He.
    match type of He with context [exec ar (if ?b then Ret tt else rd_seek p off) h] =>
      destruct (exec ar (if b then Ret tt else rd_seek p off) h) as [o1 h1] eqn:E1 end.
    assert (T1 : exists tg1, Step tg h tg1 h1).
    { destruct (off =? ra).
      - rewrite exec_ret in E1. inversion E1; subst. eauto.
      - destruct (t_rd_seek p off tg h ar o1 h1 HI Hp E1) as [tg1 [S1 _]]. eauto. }
    destruct T1 as [tg1 S1]. destruct o1 as [[]|]; [|crashS S1].
    rewrite exec_bind in He.
    match type of He with context [exec ar (rd_read fuel p ?kk) h1] =>
      destruct (exec ar (rd_read fuel p kk) h1) as [o2 h2] eqn:E2 end.
    pose proof (rdr_at_stable p _ _ _ _ Hp (proj2 S1)) as Hp1.
    destruct (IHfuel p _ tg1 h1 ar o2 h2 (proj1 S1) Hp1 E2) as [tg2 [S2 _]].
    pose proof (step_trans _ _ _ _ _ _ S1 S2) as S12.
    destruct o2 as [out|]; [|crashS S12].
    destruct (ext_rdr _ _ _ _ _ _ (proj2 S12) Ta Hr) as [r2 [Hr2 Eq2]].
    rewrite exec_wr, Hr2, exec_ret in He. inversion He; subst.
    eexists; split; [|exact I]. eapply step_trans; [exact S12|].
    eapply step_write_rdr; eauto.
    + destruct S12; assumption.
    + apply (proj2 S12). assumption.
    + eapply rdr_eqv_trans; [apply rdr_eqv_sym; exact Eq2|]. cbn; auto.
Qed.

Lemma t_rd_seekw : forall fuel a off wh, triple (rdr_at a) (rd_seekw fuel a off wh) tt_post.
Proof.
  intros fuel a off wh tg h ar o h' HI [Ta [rd Hr]] He. unfold rd_seekw in He.
  pose proof (step_refl _ _ HI) as S0.
  rewrite exec_rd, Hr in He. destruct rd as [s pos | p ra base o0 lim | src o0].
  - match type of He with context [if ?b then _ else _] => destruct b end; [doneS S0|].
    rewrite exec_wr, Hr, exec_ret in He. inversion He; subst.
    eexists; split; [|exact I]. eapply step_write_rdr; eauto. reflexivity.
  - match type of He with context [if ?b then _ else _] => destruct b end; [doneS S0|].
    rewrite exec_wr, Hr, exec_ret in He. inversion He; subst.
    eexists; split; [|exact I]. eapply step_write_rdr; eauto. cbn; auto.
  - destruct wh.
    + match type of He with context [if ?b then _ else _] => destruct b end; [doneS S0|].
      rewrite exec_wr, Hr, exec_ret in He. inversion He; subst.
      eexists; split; [|exact I]. eapply step_write_rdr; eauto. reflexivity.
    + match type of He with context [if ?b then _ else _] => destruct b end; [doneS S0|].
      rewrite exec_wr, Hr, exec_ret in He. inversion He; subst.
      eexists; split; [|exact I]. eapply step_write_rdr; eauto. reflexivity.
    + rewrite exec_bind in He.
      destruct (exec ar (rd_content fuel src) h) as [[data|] h1] eqn:Eb;
        pose proof (exec_wfree _ _ (wfree_rd_content fuel src) _ _ _ _ Eb); subst h1; [|crashS S0].
      match type of He with context [if ?b then _ else _] => destruct b end; [doneS S0|].
      rewrite exec_wr, Hr, exec_ret in He. inversion He; subst.
      eexists; split; [|exact I]. eapply step_write_rdr; eauto. reflexivity.
Qed.

Lemma t_stream_read : forall cf x, triple (rdr_at x) (stream_read cf x) tt_post.
Proof.
  intros cf x. unfold stream_read. destruct (cf_stream_shared cf).
  - apply t_rd_read.
  - apply triple_wfree; [apply wfree_rd_content | intros; exact I].
Qed.

(* ------------------------------------------------------------------ accessors *)

Definition ares_ok (x : ares) : assertion := fun tg h =>
  match x with
  | XNode r => fref tg h r
  | XEntries l => Forall (fun kr => fref tg h (snd kr)) l
  | XItems l => Forall (fref tg h) l
  | XBytes _ (Some sl) => bslice_ok tg h sl
  | _ => True
  end.

Lemma slot_node_of : forall tg h v, slot_ok tg h v -> fref tg h (node_of v).
Proof. destruct v; cbn; tauto. Qed.

Lemma frozen_map_parts : forall tg h s, Inv tg h -> fref tg h (RMap s) ->
  exists t g, hget h s = Some (CPtr (VMapHdr t g)) /\
    match s_arr t with
    | None => True
    | Some ta => exists l, hget h ta = Some (CArr l) /\ Forall (slot_ok tg h) l
    end /\
    match g with
    | None => True
    | Some ga => exists es, hget h ga = Some (CMap es) /\ Forall (fun kv => slot_ok tg h (snd kv)) es
    end.
Proof.
  intros * HI [Ts (t & g & Gs)]. exists t, g. split; [assumption|].
  destruct (inv_frozen _ _ _ HI Ts) as [c [Gc Fc]]. rewrite Gs in Gc; inversion Gc; subst c.
  destruct Fc as [Hsl Hgm]. split.
  - unfold slice_ok in Hsl. destruct (s_arr t) as [ta|]; [|exact I]. destruct Hsl as [Tta [l Gl]].
    exists l. split; [assumption|]. destruct (inv_frozen _ _ _ HI Tta) as [c [Gc' Fc]]. rewrite Gl in Gc'; inversion Gc'; subst c. exact Fc.
  - unfold gomap_ok in Hgm. destruct g as [ga|]; [|exact I]. destruct Hgm as [Tga [es Ge]].
    exists es. split; [assumption|]. destruct (inv_frozen _ _ _ HI Tga) as [c [Gc' Fc]]. rewrite Ge in Gc'; inversion Gc'; subst c. exact Fc.
Qed.

Lemma frozen_list_parts : forall tg h s, Inv tg h -> fref tg h (RList s) ->
  exists x, hget h s = Some (CPtr (VListHdr x)) /\
    match s_arr x with
    | None => True
    | Some ta => exists l, hget h ta = Some (CArr l) /\ Forall (slot_ok tg h) l
    end.
Proof.
  intros * HI [Ts (x & Gs)]. exists x. split; [assumption|].
  destruct (inv_frozen _ _ _ HI Ts) as [c [Gc Fc]]. rewrite Gs in Gc; inversion Gc; subst c.
  cbn in Fc. unfold slice_ok in Fc. destruct (s_arr x) as [ta|]; [|exact I]. destruct Fc as [Tta [l Gl]].
  exists l. split; [assumption|]. destruct (inv_frozen _ _ _ HI Tta) as [c [Gc' Fc]]. rewrite Gl in Gc'; inversion Gc'; subst c. exact Fc.
Qed.

Lemma exec_read_slice_ok : forall tg h ar s l h',
  match s_arr s with
  | None => True
  | Some ta => exists sl, hget h ta = Some (CArr sl) /\ Forall (slot_ok tg h) sl
  end ->
  exec ar (read_slice s) h = (Done l, h') -> Forall (slot_ok tg h) l.
Proof.
  intros * Hs He. unfold read_slice in He. destruct (s_arr s) as [ta|].
  - destruct Hs as [sl [Gl Fl]]. rewrite exec_rd, Gl, exec_ret in He. inversion He; subst.
    unfold slice_elems. apply Forall_firstn, Forall_skipn. assumption.
  - rewrite exec_ret in He. inversion He; subst. constructor.
Qed.

Definition stream_acc (r : nref) (a : acc) : bool :=
  match r, a with RStream _, ABytes | RStream _, ALarge => true | _, _ => false end.

Ltac acc_simpl He :=
  repeat match type of He with
  | exec _ (match ?x with _ => _ end) _ = _ => destruct x
  | exec _ (if ?x then _ else _) _ = _ => destruct x
  | exec _ (Rd _ _) _ = _ => rewrite exec_rd in He
  | match hget ?h ?a with _ => _ end = _ => destruct (hget h a)
  | exec _ (Ret _) _ = _ => rewrite exec_ret in He
  | exec _ Crash _ = _ => rewrite exec_crash in He
  end.

Lemma acc_wfree : forall cf r a, stream_acc r a = false -> wfree (acc_prog cf r a).
Proof.
  intros cf r a Hs. unfold acc_prog, rdv.
  destruct r; destruct a; cbn in Hs; try discriminate;
    repeat (first [ constructor | apply wfree_bind | apply wfree_read_bytes | apply wfree_read_slice | intros ]
            || match goal with |- wfree (match ?x with _ => _ end) => destruct x
                             | |- wfree (if ?x then _ else _) => destruct x end).
Qed.

Lemma acc_result_ok : forall cf tg h ar r a x h', Inv tg h -> fref tg h r -> stream_acc r a = false ->
  exec ar (acc_prog cf r a) h = (Done x, h') -> ares_ok x tg h.
Proof.
  intros * HI Hr Hs He.
  destruct r.
  - destruct a; cbn in Hs; try discriminate; unfold acc_prog, rdv in He; acc_simpl He; inversion He; subst; cbn; auto.
  - destruct a; cbn in Hs; try discriminate; unfold acc_prog, rdv in He; acc_simpl He; inversion He; subst; cbn; auto.
  - destruct a; cbn in Hs; try discriminate; unfold acc_prog, rdv in He; acc_simpl He; inversion He; subst; cbn; auto.
  - (* RBytesP *)
    destruct a; cbn in Hs; try discriminate; unfold acc_prog in He; cbn in He;
      try (rewrite ?exec_ret in He; inversion He; subst; exact I).
    + rewrite exec_bind in He. destruct (exec ar (read_bytes s) h) as [[bs|] h1]; [|discriminate].
      rewrite exec_ret in He. inversion He; subst. exact Hr.
    + rewrite exec_bind in He. destruct (exec ar (read_bytes s) h) as [[bs|] h1]; [|discriminate].
      rewrite exec_ret in He. inversion He; subst. exact I.
  - (* RStream: the non-reading accessors *)
    destruct a; cbn in Hs; try discriminate; unfold acc_prog in He; cbn in He;
      rewrite ?exec_ret in He; inversion He; subst; exact I.
  - (* RMap *)
    destruct (frozen_map_parts _ _ _ HI Hr) as (t & g & Gs & Ht & Hg).
    destruct a; unfold acc_prog, rdv in He; cbn in He;
      try (rewrite ?exec_ret in He; inversion He; subst; exact I);
      rewrite exec_rd, Gs in He; cbv beta iota in He.
    + rewrite exec_ret in He. inversion He; subst. exact I.
    + destruct g as [ga|]; [|rewrite exec_ret in He; inversion He; subst; exact I].
      destruct Hg as [es [Ge Fe]]. rewrite exec_rd, Ge, exec_ret in He. inversion He; subst.
      destruct (map_get es k) eqn:Mg; [|exact I]. cbn. apply slot_node_of. eapply Forall_map_get; eauto.
    + rewrite exec_bind in He. destruct (exec ar (read_slice t) h) as [[l|] h1] eqn:Er; [|discriminate].
      rewrite exec_ret in He. inversion He; subst. cbn.
      pose proof (exec_read_slice_ok _ _ _ _ _ _ Ht Er) as Fl.
      apply Forall_map. revert Fl. apply Forall_impl. intros v Hv. destruct v; cbn in *; tauto.
  - (* RList *)
    destruct (frozen_list_parts _ _ _ HI Hr) as (x0 & Gs & Ht).
    destruct a; unfold acc_prog, rdv in He; cbn in He;
      try (rewrite ?exec_ret in He; inversion He; subst; exact I);
      rewrite exec_rd, Gs in He; cbv beta iota in He.
    + rewrite exec_ret in He. inversion He; subst. exact I.
    + destruct ((i <? 0)%Z || (Z.of_nat (s_len x0) <=? i)%Z); [rewrite exec_ret in He; inversion He; subst; exact I|].
      rewrite exec_bind in He. destruct (exec ar (read_slice x0) h) as [[l|] h1] eqn:Er; [|discriminate].
      rewrite exec_ret in He. inversion He; subst.
      pose proof (exec_read_slice_ok _ _ _ _ _ _ Ht Er) as Fl.
      destruct (nth_error l (Z.to_nat i)) eqn:Nn; [|exact I]. cbn. apply slot_node_of. eapply Forall_nth_error; eauto.
    + rewrite exec_bind in He. destruct (exec ar (read_slice x0) h) as [[l|] h1] eqn:Er; [|discriminate].
      rewrite exec_ret in He. inversion He; subst. cbn.
      pose proof (exec_read_slice_ok _ _ _ _ _ _ Ht Er) as Fl.
      apply Forall_map. revert Fl. apply Forall_impl. intros v Hv. apply slot_node_of. assumption.
  - (* RForeign *)
    destruct a; unfold acc_prog in He; cbn in He; acc_simpl He; inversion He; subst; cbn; auto;
      repeat match goal with
             | |- ares_ok (if ?b then _ else _) _ _ => destruct b
             | |- ares_ok (match ?x with _ => _ end) _ _ => destruct x
             | |- match (if ?b then _ else _) with _ => _ end => destruct b
             | |- match (match ?x with _ => _ end) with _ => _ end => destruct x
             end; cbn; auto;
      try (apply Forall_map; apply Forall_forall; intros; exact I).
Qed.

Lemma ares_ok_stable : forall x, stable (ares_ok x).
Proof.
  intros x tg h tg' h' H HE. destruct x; cbn in *; auto.
  - eapply fref_ext; eauto.
  - revert H. apply Forall_impl. intros; eapply fref_ext; eauto.
  - revert H. apply Forall_impl. intros; eapply fref_ext; eauto.
  - destruct alias; [eapply bslice_ok_ext; eauto | exact I].
Qed.

Lemma t_acc_prog : forall cf r a, triple (a_fref r) (acc_prog cf r a) ares_ok.
Proof.
  intros cf r a. destruct (stream_acc r a) eqn:Hs.
  - destruct r; try discriminate. destruct a; try discriminate; cbn.
    + eapply triple_bind with (Q1 := fun _ => fun _ _ => True).
      * eapply triple_conseq; [apply t_stream_read | |intros; exact I]. intros tg h _ H. exact H.
      * intros bs. apply triple_ret. intros; exact I.
    + eapply triple_bind with (Q1 := fun _ => fun _ _ => True).
      * eapply triple_conseq; [apply t_stream_read | |intros; exact I]. intros tg h _ H. exact H.
      * intros bs. apply triple_ret. intros; exact I.
  - apply triple_wfree; [apply acc_wfree; assumption|].
    intros tg h ar x HI HP He. eapply acc_result_ok; eauto.
Qed.

(* ------------------------------------------------------------------ fresh scalars *)

Lemma t_new_scalar_node : forall sv, triple (fun _ _ => True) (new_scalar_node sv) (fun r => a_fref r).
Proof.
  intros sv tg h ar o h' HI _ He. unfold new_scalar_node, newv in He.
  rewrite exec_new in He. destruct (halloc ar h (CPtr (VScalar sv))) as [h1 x] eqn:A1.
  rewrite exec_ret in He. inversion He; subst.
  exists (set_tag tg x TFrozen). split; [eapply step_new_frozen; eauto; exact I|].
  unfold a_fref; cbn. split; [apply set_tag_same|]. exists sv. eapply hget_halloc_new; eauto.
Qed.

Lemma t_sval_node : forall v, triple (fun _ _ => True) (sval_node v) (fun r => a_fref r).
Proof.
  intros [|sv]; cbn; [apply triple_ret; intros; exact I | apply t_new_scalar_node].
Qed.

(* ------------------------------------------------------------------ child assemblers *)

Lemma halloc_addr : forall ar (h h1 : mheap) c x, halloc ar h c = (h1, x) -> x = (ar, length (nth ar h [])).
Proof. unfold halloc; intros * H; inversion H; reflexivity. Qed.

Lemma t_val_begin_map : forall pf pa hint, triple (fun _ _ => True) (val_begin_map pf pa hint) tt_post.
Proof.
  intros pf pa hint tg h ar o h' HI _ He. unfold val_begin_map, newv in He.
  pose proof (step_refl _ _ HI) as S0.
  rewrite exec_bind in He. destruct (exec ar (va_parent pf pa) h) as [[p|] h0] eqn:Ep;
    pose proof (exec_wfree _ _ (wfree_va_parent pf pa) _ _ _ _ Ep); subst h0; [|crashS S0].
  rewrite exec_new in He. destruct (halloc ar h (CPtr (VMapHdr nil_slice None))) as [h1 s] eqn:A1.
  rewrite exec_new in He.
  match type of He with context [halloc ar h1 ?c] => destruct (halloc ar h1 c) as [h2 c2] eqn:A2 end.
  destruct (hget_halloc_new _ _ _ _ _ _ A1) as [N1 O1]. destruct (hget_halloc_new _ _ _ _ _ _ A2) as [N2 O2].
  assert (S1 : Step tg h (set_tag tg s (TOwned c2)) h1) by (eapply step_new_owned; eauto; exact I).
  assert (Hsc : s <> c2) by neq.
  assert (S2 : Step (set_tag tg s (TOwned c2)) h1 (set_tag (set_tag tg s (TOwned c2)) c2 TAsm) h2).
  { eapply step_new; eauto. destruct S1; assumption. intros tg1 -> HE Hx.
    unfold cell_ok_at. rewrite set_tag_same. eexists. split; [eassumption|]. cbn. unfold masm_ok; cbn.
    split; [discriminate|]. split; [discriminate|].
    rewrite set_tag_other by assumption. rewrite set_tag_same. split; [reflexivity|].
    exists nil_slice, None. split; [eapply hget_halloc_mono; eauto|]. split; exact I. }
  pose proof (step_trans _ _ _ _ _ _ S1 S2) as S12.
  destruct (t_map_begin c2 hint _ h2 ar o h' (proj1 S12)) as (tg3 & S3 & _); [|exact He|].
  { intros v m Gv Vm. rewrite N2 in Gv. inversion Gv; subst v. cbn in Vm. inversion Vm; subst m. cbn. discriminate. }
  exists tg3. split; [eapply step_trans; eauto | destruct o; exact I].
Qed.

Lemma t_val_begin_list : forall pf pa hint, triple (fun _ _ => True) (val_begin_list pf pa hint) tt_post.
Proof.
  intros pf pa hint tg h ar o h' HI _ He. unfold val_begin_list, newv in He.
  pose proof (step_refl _ _ HI) as S0.
  rewrite exec_bind in He. destruct (exec ar (va_parent pf pa) h) as [[p|] h0] eqn:Ep;
    pose proof (exec_wfree _ _ (wfree_va_parent pf pa) _ _ _ _ Ep); subst h0; [|crashS S0].
  rewrite exec_new in He. destruct (halloc ar h (CPtr (VListHdr nil_slice))) as [h1 s] eqn:A1.
  rewrite exec_new in He.
  match type of He with context [halloc ar h1 ?c] => destruct (halloc ar h1 c) as [h2 c2] eqn:A2 end.
  destruct (hget_halloc_new _ _ _ _ _ _ A1) as [N1 O1]. destruct (hget_halloc_new _ _ _ _ _ _ A2) as [N2 O2].
  assert (S1 : Step tg h (set_tag tg s (TOwned c2)) h1) by (eapply step_new_owned; eauto; exact I).
  assert (Hsc : s <> c2) by neq.
  assert (S2 : Step (set_tag tg s (TOwned c2)) h1 (set_tag (set_tag tg s (TOwned c2)) c2 TAsm) h2).
  { eapply step_new; eauto. destruct S1; assumption. intros tg1 -> HE Hx.
    unfold cell_ok_at. rewrite set_tag_same. eexists. split; [eassumption|]. cbn. unfold lasm_ok; cbn.
    split; [discriminate|].
    rewrite set_tag_other by assumption. rewrite set_tag_same. split; [reflexivity|].
    exists nil_slice. split; [eapply hget_halloc_mono; eauto|]. exact I. }
  pose proof (step_trans _ _ _ _ _ _ S1 S2) as S12.
  destruct (t_list_begin c2 hint _ h2 ar o h' (proj1 S12)) as (tg3 & S3 & _); [|exact He|].
  { intros v l Gv Vm. rewrite N2 in Gv. inversion Gv; subst v. cbn in Vm. inversion Vm; subst l. cbn. discriminate. }
  exists tg3. split; [eapply step_trans; eauto | destruct o; exact I].
Qed.

(* ------------------------------------------------------------------ the AssignNode shortcut *)

(* `*na.w = *v2; na.state = finished`: the struct owned by a receives a FROZEN header and becomes
   frozen in the same step; its previous array and map (owned by a) are simply abandoned. *)
Lemma shortcut_step : forall tg h a c0 s cs chdr v',
  Inv tg h -> tg a = TAsm -> hget h a = Some c0 -> tg s = TOwned a -> hget h s = Some cs ->
  frozen_ok tg h chdr -> (exists t g, chdr = CPtr (VMapHdr t g)) \/ (exists x, chdr = CPtr (VListHdr x)) ->
  (forall tg' h', Ext tg h tg' h' -> tg' s = TFrozen -> hget h' s = Some chdr -> asm_ok tg' h' a v') ->
  Step tg h (set_tags tg [s] TFrozen) (hset (hset h s chdr) a (CPtr v')).
Proof.
  intros * HI Ta Ga Ts Gs Fh Hshape Hasm.
  set (tg' := set_tags tg [s] TFrozen). set (h' := hset (hset h s chdr) a (CPtr v')).
  assert (Hsa : s <> a) by neq.
  assert (Hh : forall x, x <> s -> x <> a -> hget h' x = hget h x).
  { intros x H1 H2. unfold h'. rewrite !hget_hset_other; auto. }
  assert (Hs' : hget h' s = Some chdr).
  { unfold h'. rewrite hget_hset_other by auto. rewrite hget_hset, addr_eqb_refl, Gs. reflexivity. }
  assert (Ha' : hget h' a = Some (CPtr v')).
  { unfold h'. rewrite hget_hset, addr_eqb_refl. rewrite hget_hset_other by assumption. rewrite Ga. reflexivity. }
  assert (Tn : forall x, x <> s -> tg' x = tg x).
  { intros x Hx. unfold tg'. apply set_tags_out. intros [E|[]]; congruence. }
  assert (HE : Ext tg h tg' h').
  { intros y Fy. assert (y <> s) by neq. assert (y <> a) by neq.
    rewrite Tn by assumption. split; [assumption|]. unfold h'. rewrite !hgetv_hset_other by auto. apply veqv_refl. }
  split; [|assumption].
  eapply inv_frame with (W := [s; a]); eauto.
  - intros y Hn. assert (y <> s) by (intros ->; apply Hn; left; reflexivity).
    assert (y <> a) by (intros ->; apply Hn; right; left; reflexivity). split; [apply Tn; assumption | apply Hh; assumption].
  - intros y [<-|[<-|[]]].
    + unfold cell_ok_at. unfold tg' at 1. rewrite set_tags_in by (left; reflexivity).
      exists chdr. split; [assumption|]. eapply frozen_ok_ext; eauto using cell_eqv_refl.
    + unfold cell_ok_at. rewrite Tn by auto. rewrite Ta. exists v'. split; [assumption|].
      apply Hasm; auto. unfold tg'. apply set_tags_in. left; reflexivity.
  - intros b Hb Tb. apply keeps_owned_untouched. intros y Hy.
    assert (b <> a) by (intros ->; apply Hb; right; left; reflexivity).
    assert (y <> s) by neq. assert (y <> a) by neq. split; [apply Tn; assumption | apply Hh; assumption].
Qed.

Definition a_true : assertion := fun _ _ => True.

Lemma triple_pre_true : forall A (P : assertion) (p : mprog A) (Q : A -> assertion), triple a_true p Q -> triple P p Q.
Proof. intros * T. eapply triple_conseq; [exact T | intros; exact I | auto]. Qed.

Lemma triple_post_tt : forall A (P : assertion) (p : mprog A) (Q : A -> assertion), triple P p Q -> triple P p tt_post.
Proof. intros * T. eapply triple_conseq; [exact T | auto | intros; exact I]. Qed.

Lemma triple_seq_tt : forall A B (p : mprog A) (f : A -> mprog B) (Q : B -> assertion),
  triple a_true p tt_post -> (forall a, triple a_true (f a) Q) -> triple a_true (pbind p f) Q.
Proof.
  intros * T1 T2. eapply triple_bind; [exact T1|]. intros a. apply triple_pre_true. apply T2.
Qed.

Lemma t_map_copy_loop : forall cf a es, triple a_true (map_copy_loop cf a es) tt_post.
Proof.
  intros cf a. induction es as [|[k d] es IH]; cbn [map_copy_loop].
  - apply t_map_finish_top.
  - apply triple_seq_tt; [apply t_map_assemble_key|]. intros ?.
    apply triple_seq_tt; [apply t_key_assign_string|]. intros o.
    assert (Hgo : triple a_true
              (let* _ := map_assemble_value a in let* _ := va_assign_m a (RForeign d) in map_copy_loop cf a es) tt_post).
    { apply triple_seq_tt; [apply t_map_assemble_value|]. intros ?.
      apply triple_seq_tt; [|intros ?; exact IH].
      eapply triple_conseq; [apply (t_va_assign_m a (RForeign d)) | intros; exact I | auto]. }
    destruct o; try exact Hgo. apply triple_ret. intros; exact I.
Qed.

Lemma t_list_copy_loop : forall cf a ds, triple a_true (list_copy_loop cf a ds) tt_post.
Proof.
  intros cf a. induction ds as [|d ds IH]; cbn [list_copy_loop].
  - apply t_list_finish_top.
  - apply triple_seq_tt; [apply t_list_assemble_value|]. intros ?.
    apply triple_seq_tt; [|intros ?; exact IH].
    eapply triple_conseq; [apply (t_va_assign_l cf a (RForeign d)) | intros; exact I | auto].
Qed.

Lemma t_map_assign_node : forall cf a r, triple (a_fref r) (map_assign_node cf a r) tt_post.
Proof.
  intros cf a r tg h ar o h' HI HP He. unfold map_assign_node, rd_masm, rdv, wrv in He. unfold a_fref in HP.
  pose proof (step_refl _ _ HI) as S0.
  rewrite exec_rd in He. destruct (hget h a) as [[| |v| |]|] eqn:Ga; try crash0.
  destruct (val_masm v) as [m|] eqn:Vm; [|crash0].
  destruct (mst_eqb (m_st m) MInitial) eqn:St; cbn [negb] in He; [|crash0].
  apply mst_eqb_eq in St.
  destruct (open_masm _ _ _ _ _ HI Ga Vm) as (Ta & Hok & Hm).
  destruct r as [| | | | |s2| |d]; try crash0; try doneS S0.
  - (* shortcut *)
    destruct (m_w m) as [s|] eqn:Ws; [|crash0].
    destruct (frozen_map_parts _ _ _ HI HP) as (t & g & Gs2 & _).
    rewrite exec_rd, Gs2 in He. cbv beta iota in He.
    destruct (masm_unfinished _ _ _ _ _ Hm Ws ltac:(congruence)) as [Ts (t0 & g0 & Gs & _)].
    rewrite exec_wr, Gs in He.
    assert (Ga1 : hget (hset h s (CPtr (VMapHdr t g))) a = Some (CPtr v)).
    { rewrite hget_hset_other; [assumption | neq]. }
    rewrite exec_wr, Ga1, exec_ret in He. inversion He; subst.
    eexists; split; [|exact I].
    destruct HP as [Ts2 _]. destruct (inv_frozen _ _ _ HI Ts2) as [c [Gc Fc]]. rewrite Gs2 in Gc; inversion Gc; subst c.
    eapply shortcut_step; eauto.
    intros tg' h2 HE Tf Gh. eapply asm_with_masm_later; eauto; [congruence|].
    pose proof Hm as (Hka & Hva & _).
    unfold masm_ok; cbn. split; [intros E; apply Hka in E; congruence|].
    split; [intros E; apply Hva in E; congruence|]. rewrite Ws. split; [assumption|]. eauto.
  - (* generic copy *)
    destruct d; try doneS S0.
    destruct (cf_mapcopy_begin cf); [|eapply (t_map_copy_loop cf a m0); eauto; exact I].
    rewrite exec_bind in He. destruct (exec ar (map_begin a (length m0)) h) as [o1 h1] eqn:Eb.
    destruct (t_map_begin a (length m0) tg h ar o1 h1 HI) as (tg1 & S1 & _); [|exact Eb|].
    { intros v0 m1 Gv Vm1. rewrite Ga in Gv. inversion Gv; subst v0. rewrite Vm in Vm1. inversion Vm1; subst m1. congruence. }
    destruct o1 as [?|]; [|crashS S1].
    destruct (t_map_copy_loop cf a m0 tg1 h1 ar o h' (proj1 S1) I He) as (tg2 & S2 & _).
    exists tg2. split; [eapply step_trans; eauto | destruct o; exact I].
Qed.

Lemma t_list_assign_node : forall cf a r, triple (a_fref r) (list_assign_node cf a r) tt_post.
Proof.
  intros cf a r tg h ar o h' HI HP He. unfold list_assign_node, rd_lasm, rdv, wrv in He. unfold a_fref in HP.
  pose proof (step_refl _ _ HI) as S0.
  rewrite exec_rd in He. destruct (hget h a) as [[| |v| |]|] eqn:Ga; try crash0.
  destruct (val_lasm v) as [l|] eqn:Vm; [|crash0].
  destruct (lst_eqb (l_st l) LInitial) eqn:St; cbn [negb] in He; [|crash0].
  apply lst_eqb_eq in St.
  destruct (open_lasm _ _ _ _ _ HI Ga Vm) as (Ta & Hok & Hm).
  destruct r as [| | | | | |s2|d]; try crash0; try doneS S0.
  - destruct (l_w l) as [s|] eqn:Ws; [|crash0].
    destruct (frozen_list_parts _ _ _ HI HP) as (x & Gs2 & _).
    rewrite exec_rd, Gs2 in He. cbv beta iota in He.
    destruct (lasm_unfinished _ _ _ _ _ Hm Ws ltac:(congruence)) as [Ts (x0 & Gs & _)].
    rewrite exec_wr, Gs in He.
    assert (Ga1 : hget (hset h s (CPtr (VListHdr x))) a = Some (CPtr v)).
    { rewrite hget_hset_other; [assumption | neq]. }
    rewrite exec_wr, Ga1, exec_ret in He. inversion He; subst.
    eexists; split; [|exact I].
    destruct HP as [Ts2 _]. destruct (inv_frozen _ _ _ HI Ts2) as [c [Gc Fc]]. rewrite Gs2 in Gc; inversion Gc; subst c.
    eapply shortcut_step; eauto.
    intros tg' h2 HE Tf Gh. eapply asm_with_lasm_later; eauto; [congruence|].
    pose proof Hm as (Hva & _).
    unfold lasm_ok; cbn. split; [intros E; apply Hva in E; congruence|].
    split; [assumption|]. eauto.
  - destruct d; try doneS S0.
    eapply (t_list_copy_loop cf a l0); eauto; exact I.
Qed.
