(* Proofs/StoreGood.v — the well-formed store ([good]), its preservation by a successful put, the
   results of reads, and the refinement of the finite-map specification by the file-system store
   (C17_refines for fsstore), for keys the store can hold ([storable]). *)
Require Import IP.Base.Bytes IP.Base.GoSem IP.Gen.FromGo IP.Store.Storage IP.Store.FsStore IP.Store.FsCrash.
Require Import IP.Proofs.StoreBase IP.Proofs.StoreMem IP.Proofs.StoreFs IP.Proofs.StoreCrash IP.Proofs.StoreSeq.
From Coq Require Import Lia List Bool Arith.
Import ListNotations.

Record good (cfg : fscfg) (f : fs) : Prop := {
  g_wf : fs_wf f;
  g_base : all_dirs f (f_base cfg);
  g_temp : fs_lookup f (staging_dir (f_base cfg)) = Some Dir;
  g_files : forall p c, fs_lookup f p = Some (File c) -> in_staging cfg p \/ exists k, keypath cfg k p;
  g_dirs : forall p, fs_lookup f p = Some Dir -> short cfg p
}.

(* a key the store can hold: not empty, its escaped form has no '/', '.', NUL and fits a file name *)
Definition storable (cfg : fscfg) (k : list N) (d : list (list N)) : Prop :=
  k <> [] /\ keypath cfg k d /\ (lenN (enc_key cfg k) <=? name_max)%N = true.

Lemma firstn_app_base : forall (b c : list (list N)) i, firstn (length b + i) (b ++ c) = b ++ firstn i c.
Proof.
  intros. rewrite firstn_app. rewrite firstn_all2 by lia.
  replace (length b + i - length b)%nat with i by lia. auto.
Qed.

Section Good.
  Variable cfg : fscfg.
  Hypothesis base_ok : path_ok (f_base cfg).

  (* facts about the paths of one storable key *)
  Lemma storable_shape : forall k d, storable cfg k d ->
    exists cs, d = f_base cfg ++ cs ++ [enc_key cfg k] /\ cs <> [] /\ length cs = shard_depth (f_shard cfg) /\
               Forall plain cs /\ path_ok (cs ++ [enc_key cfg k]).
  Proof.
    intros k d [_ [K S]]. destruct (keypath_full cfg k d K S) as [cs [E [L [F P]]]].
    exists cs. repeat split; auto. intros X. subst cs. destruct (f_shard cfg); discriminate.
  Qed.

  Lemma dir_not_staging : forall cs j name, Forall plain cs ->
    f_base cfg ++ firstn j cs <> stage_path (f_base cfg) name.
  Proof.
    intros cs j name F X. unfold stage_path in X. apply app_inv_head in X.
    destruct cs as [|c1 cs']; destruct j; simpl in X; try discriminate.
    inversion X. subst c1. inversion F. eapply temp_not_plain; eauto.
  Qed.

  Lemma dir_short : forall cs j e, length cs = shard_depth (f_shard cfg) ->
    short cfg (f_base cfg ++ firstn j cs) /\ length (f_base cfg ++ cs ++ [e]) = keylen cfg.
  Proof.
    intros cs j e L. unfold short, keylen. rewrite !app_length, firstn_length. simpl. lia.
  Qed.

  Lemma good_no_file_dirs : forall f k d cs, good cfg f -> storable cfg k d ->
    d = f_base cfg ++ cs ++ [enc_key cfg k] -> length cs = shard_depth (f_shard cfg) -> Forall plain cs ->
    forall j c, fs_lookup f (f_base cfg ++ firstn j cs) <> Some (File c).
  Proof.
    intros f k d cs G S E L F j c X. destruct (g_files _ _ G _ _ X) as [[name Y]|[k' K']].
    - exact (dir_not_staging cs j name F Y).
    - apply (keypath_length cfg) in K'. destruct (dir_short cs j (enc_key cfg k) L) as [A _].
      unfold short in A. lia.
  Qed.

  (* what the post-condition of a successful put / commit gives back *)
  Lemma post_good : forall f f' k d env cs content,
    good cfg f -> storable cfg k d ->
    d = f_base cfg ++ cs ++ [enc_key cfg k] -> length cs = shard_depth (f_shard cfg) -> Forall plain cs ->
    fs_lookup f (stp cfg env) = None ->
    put_post cfg env d cs f f' content ->
    good cfg f' /\
    fs_lookup f' d = Some (File content) /\
    (forall name, fs_lookup f' (stage_path (f_base cfg) name) = fs_lookup f (stage_path (f_base cfg) name)) /\
    (forall k' d', storable cfg k' d' -> d' <> d -> fs_lookup f' d' = fs_lookup f d').
  Proof.
    intros f f' k d env cs content G S E L F FR PP.
    pose proof S as [KN [K SH]].
    set (sp := stp cfg env) in *.
    assert (ND : fs_lookup f d <> Some Dir).
    { intros X. apply (g_dirs _ _ G) in X. unfold short in X. rewrite (keypath_length cfg k d K) in X. lia. }
    pose proof (pp_dest _ _ _ _ _ _ _ PP) as P1.
    pose proof (pp_stage _ _ _ _ _ _ _ PP) as P2.
    pose proof (pp_dirs _ _ _ _ _ _ _ PP) as P3.
    pose proof (pp_frame _ _ _ _ _ _ _ PP) as P4.
    pose proof (pp_old_dirs _ _ _ _ _ _ _ PP) as P5.
    fold sp in P2, P4.
    assert (DIRS0 : forall j, (j <= length cs)%nat -> fs_lookup f' (f_base cfg ++ firstn j cs) = Some Dir).
    { intros j Hj. destruct (f_base cfg ++ firstn j cs) eqn:X; auto. rewrite <- X.
      rewrite <- firstn_app_base. apply P3. rewrite app_length.
      assert (length (f_base cfg ++ firstn j cs) <> 0)%nat by (rewrite X; simpl; lia).
      rewrite app_length, firstn_length in H. lia. }
    assert (DIRS : forall j, fs_lookup f' (f_base cfg ++ firstn j cs) = Some Dir).
    { intros j. destruct (le_lt_dec j (length cs)). apply DIRS0; auto.
      assert (H : firstn j cs = firstn (length cs) cs) by (rewrite firstn_all, firstn_all2; auto; lia).
      rewrite H. apply DIRS0. lia. }
    assert (KEYP : forall k' d', keypath cfg k' d' -> d' <> d -> fs_lookup f' d' = fs_lookup f d').
    { intros k' d' K' N. apply P4; auto.
      - intros X. eapply keypath_not_staging; eauto. exists (we_names env 0). auto.
      - intros j Hj X. apply (keypath_length cfg) in K'. destruct (dir_short cs j (enc_key cfg k) L) as [A _].
        unfold short in A. rewrite <- X in A. lia. }
    assert (STG : forall name, fs_lookup f' (stage_path (f_base cfg) name) = fs_lookup f (stage_path (f_base cfg) name)).
    { intros name. destruct (path_eqb (stage_path (f_base cfg) name) sp) eqn:X.
      - apply path_eqb_eq in X. rewrite X. fold sp. rewrite P2. auto.
      - apply path_eqb_neq in X. apply P4; auto.
        + intros Y. eapply keypath_not_staging; eauto. exists name. auto.
        + intros j Hj Y. symmetry in Y. revert Y. apply dir_not_staging. auto. }
    split; [|split; [auto|split; [auto|]]].
    - (* good f' *)
      constructor.
      + (* well-formed *)
        intros p nd PN LP.
        destruct (path_eqb p d) eqn:X1.
        { apply path_eqb_eq in X1. subst p. rewrite E. rewrite app_assoc, dirname_snoc.
          rewrite <- (firstn_all cs) at 1. apply DIRS. }
        apply path_eqb_neq in X1.
        destruct (path_eqb p sp) eqn:X2.
        { apply path_eqb_eq in X2. subst p. rewrite P2 in LP. discriminate. }
        apply path_eqb_neq in X2.
        assert (DC : (exists j, (0 < j <= length cs)%nat /\ p = f_base cfg ++ firstn j cs) \/
                     (forall j, (0 < j <= length cs)%nat -> p <> f_base cfg ++ firstn j cs)).
        { clear - cs. induction (length cs) as [|m IH].
          - right. intros j Hj. lia.
          - destruct IH as [[j [Hj X]]|IH].
            + left. exists j. split; auto. lia.
            + destruct (path_eqb p (f_base cfg ++ firstn (S m) cs)) eqn:X.
              * left. exists (S m). apply path_eqb_eq in X. split; auto. lia.
              * right. intros j Hj. destruct (Nat.eq_dec j (S m)). subst. apply path_eqb_neq. auto.
                apply IH. lia. }
        destruct DC as [[j [Hj X]]|DC].
        * subst p. destruct j; try lia. destruct (firstn_succ_snoc cs j) as [x FX]. lia.
          rewrite FX. rewrite app_assoc, dirname_snoc. apply DIRS.
        * rewrite P4 in LP by auto.
          pose proof (g_wf _ _ G p nd PN LP) as PAR.
          assert (Q1 : dirname p <> d) by (intros Y; rewrite Y in PAR; congruence).
          assert (Q2 : dirname p <> sp) by (intros Y; rewrite Y in PAR; rewrite FR in PAR; discriminate).
          destruct (path_eqb (dirname p) (f_base cfg ++ firstn 1 cs)) eqn:Y1.
          { apply path_eqb_eq in Y1. rewrite Y1. apply DIRS. }
          destruct (path_eqb (dirname p) (f_base cfg ++ firstn 2 cs)) eqn:Y2.
          { apply path_eqb_eq in Y2. rewrite Y2. apply DIRS. }
          apply path_eqb_neq in Y1. apply path_eqb_neq in Y2.
          rewrite P4; auto. intros j Hj Y.
          assert (j = 1 \/ j = 2)%nat by (destruct (f_shard cfg); simpl in L; lia).
          destruct H; subst j; congruence.
      + (* base *)
        eapply all_dirs_prefix. exact P3.
      + (* .temp *)
        rewrite P4. apply (g_temp _ _ G).
        * intros X. apply (f_equal (@length _)) in X. rewrite E in X. unfold staging_dir in X.
          rewrite !app_length in X. simpl in X. destruct cs; [destruct (f_shard cfg); simpl in L; discriminate|]. simpl in X. lia.
        * intros X. apply (f_equal (@length _)) in X. unfold sp, stp, staging_dir, stage_path in X.
          rewrite !app_length in X. simpl in X. lia.
        * intros j Hj X. unfold staging_dir in X. apply app_inv_head in X.
          destruct cs as [|c1 cs']; destruct j; simpl in X; try discriminate; try lia.
          inversion X. subst c1. inversion F. eapply temp_not_plain; eauto.
      + (* files *)
        intros p c LP.
        destruct (path_eqb p d) eqn:X1.
        { apply path_eqb_eq in X1. subst p. right. exists k. auto. }
        apply path_eqb_neq in X1.
        destruct (path_eqb p sp) eqn:X2.
        { apply path_eqb_eq in X2. subst p. rewrite P2 in LP. discriminate. }
        apply path_eqb_neq in X2.
        destruct (path_eqb p (f_base cfg ++ firstn 1 cs)) eqn:Y1.
        { apply path_eqb_eq in Y1. rewrite Y1 in LP. rewrite DIRS in LP. discriminate. }
        destruct (path_eqb p (f_base cfg ++ firstn 2 cs)) eqn:Y2.
        { apply path_eqb_eq in Y2. rewrite Y2 in LP. rewrite DIRS in LP. discriminate. }
        apply path_eqb_neq in Y1. apply path_eqb_neq in Y2.
        rewrite P4 in LP; auto. apply (g_files _ _ G _ _ LP).
        intros j Hj Y. assert (j = 1 \/ j = 2)%nat by (destruct (f_shard cfg); simpl in L; lia).
        destruct H; subst j; congruence.
      + (* dirs *)
        intros p LP.
        destruct (path_eqb p d) eqn:X1.
        { apply path_eqb_eq in X1. subst p. rewrite P1 in LP. discriminate. }
        apply path_eqb_neq in X1.
        destruct (path_eqb p sp) eqn:X2.
        { apply path_eqb_eq in X2. subst p. rewrite P2 in LP. discriminate. }
        apply path_eqb_neq in X2.
        destruct (path_eqb p (f_base cfg ++ firstn 1 cs)) eqn:Y1.
        { apply path_eqb_eq in Y1. rewrite Y1. apply (dir_short cs 1 (enc_key cfg k) L). }
        destruct (path_eqb p (f_base cfg ++ firstn 2 cs)) eqn:Y2.
        { apply path_eqb_eq in Y2. rewrite Y2. apply (dir_short cs 2 (enc_key cfg k) L). }
        apply path_eqb_neq in Y1. apply path_eqb_neq in Y2.
        rewrite P4 in LP; auto. apply (g_dirs _ _ G _ LP).
        intros j Hj Y. assert (j = 1 \/ j = 2)%nat by (destruct (f_shard cfg); simpl in L; lia).
        destruct H; subst j; congruence.
    - intros k' d' [_ [K' _]] N. apply (KEYP k' d' K' N).
  Qed.

  (* one put, alone, on a good store *)
  Theorem put_good : forall f k d env chunks,
    good cfg f -> storable cfg k d ->
    we_base env = f_base cfg -> we_dest env = Some d ->
    comp_ok (we_names env 0) ->
    fs_lookup f (stage_path (f_base cfg) (we_names env 0)) = None ->
    exists f' log, w_run (w_fuel env chunks) env f (WCreate 0 chunks) [] = (f', Ok tt, log) /\
      good cfg f' /\
      fs_lookup f' d = Some (File (concat chunks)) /\
      (forall name, fs_lookup f' (stage_path (f_base cfg) name) = fs_lookup f (stage_path (f_base cfg) name)) /\
      (forall k' d', storable cfg k' d' -> d' <> d -> fs_lookup f' d' = fs_lookup f d').
  Proof.
    intros f k d env chunks G S EB ED NO FR.
    destruct (storable_shape k d S) as [cs [E [CN [L [F P]]]]].
    pose proof S as [KN [K SH]].
    change (stage_path (f_base cfg) (we_names env 0)) with (stp cfg env) in *.
    assert (SD : forall j, (j <= length cs)%nat -> stp cfg env <> f_base cfg ++ firstn j cs).
    { intros j _ X. symmetry in X. revert X. apply dir_not_staging. auto. }
    assert (SDd : stp cfg env <> d). { intros X. eapply keypath_not_staging; eauto. exists (we_names env 0). auto. }
    assert (ND : fs_lookup f d <> Some Dir).
    { intros X. apply (g_dirs _ _ G) in X. unfold short in X. rewrite (keypath_length cfg k d K) in X. lia. }
    destruct (put_runs cfg env d cs (enc_key cfg k) base_ok EB ED E P NO f chunks
                (g_wf _ _ G) (g_base _ _ G) (g_temp _ _ G) FR ND) as [f' [R PP]]; auto.
    { intros j c _. eapply good_no_file_dirs; eauto. }
    destruct R as [n [Hn IT]].
    destruct (w_run_iter env (w_fuel env chunks) n f (WCreate 0 chunks) [] f' (Ok tt)) as [log RUN]; auto.
    { unfold w_fuel, w_dest. rewrite ED. rewrite E. rewrite !app_length. simpl. lia. }
    exists f', log. split; auto.
    eapply post_good; eauto.
  Qed.

  (* removing a staging file keeps the store good *)
  Lemma good_remove_stage : forall g sp c, good cfg g -> fs_lookup g sp = Some (File c) -> good cfg (fs_remove g sp).
  Proof.
    intros g sp c G L.
    assert (SN : sp <> []) by (eapply lookup_file_nonnil; eauto).
    constructor.
    - eapply wf_remove_file; eauto. apply (g_wf _ _ G).
    - eapply all_dirs_transfer; [|apply (g_base _ _ G)]. intros n Hn. apply lookup_remove_other.
      intros X. subst sp. rewrite (g_base _ _ G) in L by auto. discriminate.
    - rewrite lookup_remove_other. apply (g_temp _ _ G). intros X. subst sp. rewrite (g_temp _ _ G) in L. discriminate.
    - intros p c' LP. destruct (path_eqb sp p) eqn:X.
      + apply path_eqb_eq in X. subst p. rewrite lookup_remove_same in LP by auto. discriminate.
      + apply path_eqb_neq in X. rewrite lookup_remove_other in LP by auto. apply (g_files _ _ G _ _ LP).
    - intros p LP. destruct (path_eqb sp p) eqn:X.
      + apply path_eqb_eq in X. subst p. rewrite lookup_remove_same in LP by auto. discriminate.
      + apply path_eqb_neq in X. rewrite lookup_remove_other in LP by auto. apply (g_dirs _ _ G _ LP).
  Qed.

  (* creating or overwriting a staging file keeps the store good *)
  Lemma good_set_stage : forall g name c, good cfg g ->
    fs_lookup g (stage_path (f_base cfg) name) <> Some Dir ->
    good cfg (fs_set g (stage_path (f_base cfg) name) (File c)).
  Proof.
    intros g name c G ND. set (sp := stage_path (f_base cfg) name) in *.
    assert (SN : sp <> []). { unfold sp, stage_path. destruct (f_base cfg); discriminate. }
    assert (DS : dirname sp = staging_dir (f_base cfg)).
    { unfold sp, stage_path, staging_dir.
      replace (f_base cfg ++ [temp_name; name]) with ((f_base cfg ++ [temp_name]) ++ [name]) by (rewrite <- app_assoc; auto).
      apply dirname_snoc. }
    assert (LEN : length sp = (length (f_base cfg) + 2)%nat). { unfold sp, stage_path. rewrite app_length. reflexivity. }
    constructor.
    - apply wf_set_leaf; [apply (g_wf _ _ G)|exact SN|rewrite DS; apply (g_temp _ _ G)| |].
      + intros c0 _. exact ND.
      + intros X. discriminate.
    - eapply all_dirs_transfer; [|apply (g_base _ _ G)]. intros n Hn. apply lookup_set_other.
      intros X. apply (f_equal (@length _)) in X. rewrite LEN, firstn_length in X. lia.
    - rewrite lookup_set_other. apply (g_temp _ _ G).
      intros X. apply (f_equal (@length _)) in X. rewrite LEN in X. unfold staging_dir in X. rewrite app_length in X. simpl in X. lia.
    - intros p c' LP. destruct (path_eqb sp p) eqn:X.
      + apply path_eqb_eq in X. subst p. left. exists name. reflexivity.
      + apply path_eqb_neq in X. rewrite lookup_set_other in LP by auto. apply (g_files _ _ G _ _ LP).
    - intros p LP. destruct (path_eqb sp p) eqn:X.
      + apply path_eqb_eq in X. subst p. rewrite lookup_set_same in LP by auto. discriminate.
      + apply path_eqb_neq in X. rewrite lookup_set_other in LP by auto. apply (g_dirs _ _ G _ LP).
  Qed.

  (* the commit of a stream whose staging file holds [content], on a good store *)
  Theorem commit_good : forall g k d env content,
    good cfg g -> storable cfg k d ->
    we_base env = f_base cfg -> we_dest env = Some d ->
    comp_ok (we_names env 0) ->
    fs_lookup g (stp cfg env) = Some (File content) ->
    exists f' log, w_run (w_fuel env []) env g (WClose (stp cfg env) None) [] = (f', Ok tt, log) /\
      good cfg f' /\
      fs_lookup f' d = Some (File content) /\
      fs_lookup f' (stp cfg env) = None /\
      (forall name, stage_path (f_base cfg) name <> stp cfg env ->
                    fs_lookup f' (stage_path (f_base cfg) name) = fs_lookup g (stage_path (f_base cfg) name)) /\
      (forall k' d', storable cfg k' d' -> d' <> d -> fs_lookup f' d' = fs_lookup g d').
  Proof.
    intros g k d env content G S EB ED NO LG.
    destruct (storable_shape k d S) as [cs [E [CN [L [F P]]]]].
    pose proof S as [KN [K SH]].
    set (sp := stp cfg env) in *.
    assert (SPN : sp <> []) by (eapply lookup_file_nonnil; eauto).
    assert (SD : forall j, (j <= length cs)%nat -> sp <> f_base cfg ++ firstn j cs).
    { intros j _ X. symmetry in X. revert X. apply dir_not_staging. auto. }
    assert (SDd : sp <> d). { intros X. eapply keypath_not_staging; eauto. exists (we_names env 0). auto. }
    set (f := fs_remove g sp).
    assert (GF : good cfg f) by (eapply good_remove_stage; eauto).
    assert (FR : fs_lookup f sp = None) by (apply lookup_remove_same; auto).
    assert (SG : same_except f g sp).
    { intros p Hp. unfold f. symmetry. apply lookup_remove_other. auto. }
    assert (ND : fs_lookup f d <> Some Dir).
    { intros X. apply (g_dirs _ _ GF) in X. unfold short in X. rewrite (keypath_length cfg k d K) in X. lia. }
    destruct (commit_runs cfg env d cs (enc_key cfg k) base_ok EB ED E P NO f g content
                (g_wf _ _ GF) (g_base _ _ GF) (g_temp _ _ GF) FR ND) as [f' [R PP]]; auto.
    { intros j c _. eapply good_no_file_dirs; eauto. }
    destruct R as [n [Hn IT]].
    destruct (w_run_iter env (w_fuel env []) n g (WClose sp None) [] f' (Ok tt)) as [log RUN]; auto.
    { unfold w_fuel, w_dest. rewrite ED. rewrite E. rewrite !app_length. simpl. lia. }
    exists f', log. split; auto.
    destruct (post_good f f' k d env cs content GF S E L F FR PP) as [G' [LD [STG OTH]]].
    split; auto. split; auto. split.
    - specialize (STG (we_names env 0)). change (stage_path (f_base cfg) (we_names env 0)) with sp in STG.
      rewrite STG. exact FR.
    - split.
      + intros name NE. rewrite STG. unfold f. apply lookup_remove_other. auto.
      + intros k' d' S' N. rewrite (OTH k' d' S' N). unfold f. apply lookup_remove_other.
        intros X. destruct S' as [_ [K' _]]. eapply keypath_not_staging; eauto. exists (we_names env 0). auto.
  Qed.
End Good.
