(* Proofs/HeapLogic.v — the ownership invariant of the basicnode heap model and a small program
   logic over it.

   Every cell carries a (ghost, proof-only) tag:
     TFrozen   part of a finished node: never written again (reader cells: only their position)
     TOwned b  a struct / backing array / Go map under construction by the assembler in cell b
     TAsm      a builder or assembler object
     TFree     not allocated
   [Inv] says what each kind of cell may contain: everything a node-data cell refers to is frozen
   (children are finished nodes); a frozen header's arrays and map are frozen; an unfinished
   assembler's [w] struct, backing array and map are tagged as owned by that assembler — so two live
   assemblers never share them, and no finished node reaches them; a finished assembler holds no
   live key/value assembler.  [Ext] is what a finished node can rely on between two states. *)
Require Import IP.Base.Bytes IP.DM.Value IP.Heap.GoMem IP.Heap.BasicHeap IP.Proofs.HeapMem.
From Coq Require Import List Arith Bool Lia.
Import ListNotations.
Local Open Scope nat_scope.

Inductive tag := TFree | TFrozen | TOwned (b : addr) | TAsm.
Definition tags := addr -> tag.

Definition set_tag (tg : tags) (x : addr) (t : tag) : tags := fun a => if addr_eqb a x then t else tg a.
Definition set_tags (tg : tags) (xs : list addr) (t : tag) : tags :=
  fun a => if existsb (addr_eqb a) xs then t else tg a.

Lemma set_tag_same : forall tg x t, set_tag tg x t x = t.
Proof. intros; unfold set_tag; rewrite addr_eqb_refl; reflexivity. Qed.
Lemma set_tag_other : forall tg x t a, a <> x -> set_tag tg x t a = tg a.
Proof. intros; unfold set_tag. apply addr_eqb_neq in H. rewrite H. reflexivity. Qed.

Lemma existsb_addr_in : forall a xs, existsb (addr_eqb a) xs = true <-> In a xs.
Proof.
  intros; rewrite existsb_exists; split.
  - intros (x & Hx & E). apply addr_eqb_eq in E. subst; assumption.
  - intros H; exists a; split; [assumption | apply addr_eqb_refl].
Qed.
Lemma set_tags_in : forall tg xs t a, In a xs -> set_tags tg xs t a = t.
Proof. intros; unfold set_tags. apply existsb_addr_in in H. rewrite H. reflexivity. Qed.
Lemma set_tags_out : forall tg xs t a, ~ In a xs -> set_tags tg xs t a = tg a.
Proof.
  intros; unfold set_tags. destruct (existsb (addr_eqb a) xs) eqn:E; [|reflexivity].
  apply existsb_addr_in in E. contradiction.
Qed.

(* ------------------------------------------------------------------ what cells may contain *)

Definition bslice_ok (tg : tags) (h : mheap) (s : slice) : Prop :=
  match s_arr s with
  | None => True
  | Some a => tg a = TFrozen /\ exists bs, hget h a = Some (CBytes bs)
  end.

(* r denotes a finished node *)
Definition fref (tg : tags) (h : mheap) (r : nref) : Prop :=
  match r with
  | RNil | RNull | RForeign _ => True
  | RScalar _ a => tg a = TFrozen /\ exists sv, hget h a = Some (CPtr (VScalar sv))
  | RBytesP s => bslice_ok tg h s
  | RStream a => tg a = TFrozen /\ exists rd, hget h a = Some (CRdr rd)
  | RMap a => tg a = TFrozen /\ exists t g, hget h a = Some (CPtr (VMapHdr t g))
  | RList a => tg a = TFrozen /\ exists x, hget h a = Some (CPtr (VListHdr x))
  end.

Definition slot_ok (tg : tags) (h : mheap) (v : val) : Prop :=
  match v with VNode r | VEntry _ r => fref tg h r | _ => False end.

Definition slice_ok (tg : tags) (h : mheap) (own : tag) (s : slice) : Prop :=
  match s_arr s with
  | None => True
  | Some a => tg a = own /\ exists l, hget h a = Some (CArr l)
  end.

Definition gomap_ok (tg : tags) (h : mheap) (own : tag) (g : option addr) : Prop :=
  match g with
  | None => True
  | Some a => tg a = own /\ exists es, hget h a = Some (CMap es)
  end.

(* node data under construction *)
Definition data_ok (tg : tags) (h : mheap) (c : mcell) : Prop :=
  match c with
  | CArr l => Forall (slot_ok tg h) l
  | CMap es => Forall (fun kv => slot_ok tg h (snd kv)) es
  | CPtr (VScalar _) | CPtr (VMapHdr _ _) | CPtr (VListHdr _) => True
  | _ => False
  end.

Definition frozen_ok (tg : tags) (h : mheap) (c : mcell) : Prop :=
  match c with
  | CArr l => Forall (slot_ok tg h) l
  | CMap es => Forall (fun kv => slot_ok tg h (snd kv)) es
  | CPtr (VScalar _) => True
  | CPtr (VMapHdr t g) => slice_ok tg h TFrozen t /\ gomap_ok tg h TFrozen g
  | CPtr (VListHdr x) => slice_ok tg h TFrozen x
  | CBytes _ => True
  | CRdr (RdBytes s _) => bslice_ok tg h s
  | CRdr (RdSect p _ _ _ _) => tg p = TFrozen /\ exists rd, hget h p = Some (CRdr rd)
  | CRdr (RdCursor p _) => tg p = TFrozen /\ exists rd, hget h p = Some (CRdr rd)
  | CPtr _ => False
  end.

Definition masm_ok (tg : tags) (h : mheap) (a : addr) (m : masm) : Prop :=
  (m_ka m = true -> m_st m = MMidKey) /\ (m_va m = true -> m_st m = MMidValue) /\
  match m_w m with
  | None => True
  | Some s =>
      match m_st m with
      | MFinished => tg s = TFrozen /\ exists t g, hget h s = Some (CPtr (VMapHdr t g))
      | _ => tg s = TOwned a /\ exists t g, hget h s = Some (CPtr (VMapHdr t g)) /\
               slice_ok tg h (TOwned a) t /\ gomap_ok tg h (TOwned a) g
      end
  end.

Definition lasm_ok (tg : tags) (h : mheap) (a : addr) (l : lasm) : Prop :=
  (l_va l = true -> l_st l = LMidValue) /\
  match l_w l with
  | None => True
  | Some s =>
      match l_st l with
      | LFinished => tg s = TFrozen /\ exists x, hget h s = Some (CPtr (VListHdr x))
      | _ => tg s = TOwned a /\ exists x, hget h s = Some (CPtr (VListHdr x)) /\ slice_ok tg h (TOwned a) x
      end
  end.

Definition asm_ok (tg : tags) (h : mheap) (a : addr) (v : val) : Prop :=
  match v with
  | VMapB m => masm_ok tg h a m
  | VListB l => lasm_ok tg h a l
  | VAnyB k m l sc => masm_ok tg h a m /\ lasm_ok tg h a l /\ fref tg h sc /\ (m_w m = None \/ l_w l = None) /\
                      (k = AKInvalid -> m_w m = None /\ l_w l = None)
  | VChildM m _ _ => masm_ok tg h a m
  | VChildL l _ _ => lasm_ok tg h a l
  | VScalB _ w done => (if done then tg w = TFrozen else tg w = TOwned a) /\ exists sv, hget h w = Some (CPtr (VScalar sv))
  | VBytesB w => fref tg h w
  | _ => False
  end.

Definition cell_ok_at (tg : tags) (h : mheap) (a : addr) : Prop :=
  match tg a with
  | TFree => hget h a = None
  | TFrozen => exists c, hget h a = Some c /\ frozen_ok tg h c
  | TOwned _ => exists c, hget h a = Some c /\ data_ok tg h c
  | TAsm => exists v, hget h a = Some (CPtr v) /\ asm_ok tg h a v
  end.

Definition Inv (tg : tags) (h : mheap) : Prop := forall a, cell_ok_at tg h a.

(* ------------------------------------------------------------------ what finished nodes rely on *)

Definition rdr_eqv (a b : rdr) : Prop :=
  match a, b with
  | RdBytes s _, RdBytes s' _ => s = s'
  | RdSect p _ base _ lim, RdSect p' _ base' _ lim' => p = p' /\ base = base' /\ lim = lim'
  | RdCursor src _, RdCursor src' _ => src = src'
  | _, _ => False
  end.

Definition cell_eqv (c c' : mcell) : Prop :=
  match c, c' with
  | CRdr a, CRdr b => rdr_eqv a b
  | CRdr _, _ | _, CRdr _ => False
  | _, _ => c = c'
  end.

(* a cell together with its write counter: a reader cell may have been written (its position), any
   other cell must not have been stored to at all *)
Definition veqv (o o' : option (mcell * nat)) : Prop :=
  match o, o' with
  | Some (c, v), Some (c', v') => cell_eqv c c' /\ (v' = v \/ exists r, c = CRdr r)
  | None, None => True
  | _, _ => False
  end.

(* frozen cells stay frozen, keep their content (readers: up to their positions) and, readers apart,
   are not even written *)
Definition Ext (tg : tags) (h : mheap) (tg' : tags) (h' : mheap) : Prop :=
  forall a, tg a = TFrozen -> tg' a = TFrozen /\ veqv (hgetv h a) (hgetv h' a).

Lemma rdr_eqv_refl : forall r, rdr_eqv r r.
Proof. destruct r; cbn; auto. Qed.
Lemma rdr_eqv_trans : forall a b c, rdr_eqv a b -> rdr_eqv b c -> rdr_eqv a c.
Proof. destruct a, b, c; cbn; intuition congruence. Qed.
Lemma cell_eqv_refl : forall c, cell_eqv c c.
Proof. destruct c; cbn; auto using rdr_eqv_refl. Qed.
Lemma cell_eqv_trans : forall a b c, cell_eqv a b -> cell_eqv b c -> cell_eqv a c.
Proof.
  intros a b c H1 H2.
  destruct a, b; cbn in H1; try contradiction; try discriminate; try (inversion H1; subst; exact H2).
  destruct c; cbn in *; try contradiction. eapply rdr_eqv_trans; eauto.
Qed.
Lemma veqv_refl : forall o, veqv o o.
Proof. destruct o as [[c v]|]; cbn; auto using cell_eqv_refl. Qed.
Lemma cell_eqv_rdr_l : forall c c' r, cell_eqv c c' -> c = CRdr r -> exists r', c' = CRdr r'.
Proof. intros c c' r E ->. destruct c'; cbn in E; try contradiction. eauto. Qed.
Lemma cell_eqv_rdr_r : forall c c' r, cell_eqv c c' -> c' = CRdr r -> exists r', c = CRdr r'.
Proof. intros c c' r E ->. destruct c; cbn in E; try contradiction; try discriminate. eauto. Qed.
Lemma veqv_trans : forall a b c, veqv a b -> veqv b c -> veqv a c.
Proof.
  intros [[x vx]|] [[y vy]|] [[z vz]|]; cbn; try tauto. intros [E1 V1] [E2 V2].
  split; [eapply cell_eqv_trans; eauto|].
  destruct V1 as [->|R1]; [|right; assumption].
  destruct V2 as [->|[r R2]]; [left; reflexivity|]. right. eapply cell_eqv_rdr_r; eauto.
Qed.

Lemma Ext_refl : forall tg h, Ext tg h tg h.
Proof. intros tg h a H; split; [assumption | apply veqv_refl]. Qed.
Lemma Ext_trans : forall tg1 h1 tg2 h2 tg3 h3, Ext tg1 h1 tg2 h2 -> Ext tg2 h2 tg3 h3 -> Ext tg1 h1 tg3 h3.
Proof.
  intros * H1 H2 a Ha. destruct (H1 a Ha) as [Hb E1]. destruct (H2 a Hb) as [Hc E2].
  split; [assumption | eapply veqv_trans; eauto].
Qed.

Lemma cell_eqv_nonrdr : forall c c', (forall r, c <> CRdr r) -> cell_eqv c c' -> c' = c.
Proof.
  intros c c' Hn E. destruct c, c'; cbn in E; try contradiction; try congruence; exfalso; eapply Hn; reflexivity.
Qed.

(* a non-reader cell seen through Ext is the same cell *)
Lemma ext_same : forall tg h tg' h' a c, Ext tg h tg' h' -> tg a = TFrozen -> hget h a = Some c ->
  (forall r, c <> CRdr r) -> hget h' a = Some c.
Proof.
  intros * HE Ha Hc Hn. destruct (HE a Ha) as [_ E]. apply hget_some in Hc. destruct Hc as [v Hc].
  rewrite Hc in E. cbn in E. destruct (hgetv h' a) as [[c' v']|] eqn:G; [|contradiction].
  destruct E as [E _]. apply cell_eqv_nonrdr in E; [|assumption]. subst. apply hget_some. eauto.
Qed.

Lemma ext_rdr : forall tg h tg' h' a r, Ext tg h tg' h' -> tg a = TFrozen -> hget h a = Some (CRdr r) ->
  exists r', hget h' a = Some (CRdr r') /\ rdr_eqv r r'.
Proof.
  intros * HE Ha Hc. destruct (HE a Ha) as [_ E]. apply hget_some in Hc. destruct Hc as [v Hc].
  rewrite Hc in E. cbn in E. destruct (hgetv h' a) as [[c' v']|] eqn:G; [|contradiction].
  destruct E as [E _]. destruct c'; cbn in E; try contradiction. exists r0. split; [apply hget_some; eauto | assumption].
Qed.

(* … and was not stored to *)
Lemma ext_unwritten : forall tg h tg' h' a c v, Ext tg h tg' h' -> tg a = TFrozen -> hgetv h a = Some (c, v) ->
  (forall r, c <> CRdr r) -> hgetv h' a = Some (c, v).
Proof.
  intros * HE Ha Hc Hn. destruct (HE a Ha) as [_ E]. rewrite Hc in E. cbn in E.
  destruct (hgetv h' a) as [[c' v']|] eqn:G; [|contradiction].
  destruct E as [E [->|[r Hr]]]; [|exfalso; eapply Hn; eauto].
  apply cell_eqv_nonrdr in E; [|assumption]. subst. reflexivity.
Qed.

(* ------------------------------------------------------------------ stability under Ext *)

Section Stab.
  Variables (tg : tags) (h : mheap) (tg' : tags) (h' : mheap).
  Hypothesis HE : Ext tg h tg' h'.

  Lemma bslice_ok_ext : forall s, bslice_ok tg h s -> bslice_ok tg' h' s.
  Proof.
    unfold bslice_ok; intros s. destruct (s_arr s) as [a|]; [|auto].
    intros [Ha [bs Hb]]. split; [apply HE; assumption|]. exists bs.
    eapply ext_same; eauto. discriminate.
  Qed.

  Lemma fref_ext : forall r, fref tg h r -> fref tg' h' r.
  Proof.
    destruct r; cbn; auto using bslice_ok_ext.
    - intros [Ha [sv Hs]]. split; [apply HE; assumption|]. exists sv. eapply ext_same; eauto. discriminate.
    - intros [Ha [rd Hs]]. split; [apply HE; assumption|].
      destruct (ext_rdr _ _ _ _ _ _ HE Ha Hs) as [r' [Hr _]]. eauto.
    - intros [Ha [t [g Hs]]]. split; [apply HE; assumption|]. exists t, g. eapply ext_same; eauto. discriminate.
    - intros [Ha [x Hs]]. split; [apply HE; assumption|]. exists x. eapply ext_same; eauto. discriminate.
  Qed.

  Lemma slot_ok_ext : forall v, slot_ok tg h v -> slot_ok tg' h' v.
  Proof. destruct v; cbn; auto using fref_ext. Qed.

  Lemma slice_frozen_ext : forall s, slice_ok tg h TFrozen s -> slice_ok tg' h' TFrozen s.
  Proof.
    unfold slice_ok; intros s. destruct (s_arr s) as [a|]; [|auto].
    intros [Ha [l Hl]]. split; [apply HE; assumption|]. exists l. eapply ext_same; eauto. discriminate.
  Qed.

  Lemma gomap_frozen_ext : forall g, gomap_ok tg h TFrozen g -> gomap_ok tg' h' TFrozen g.
  Proof.
    unfold gomap_ok; intros [a|]; [|auto].
    intros [Ha [l Hl]]. split; [apply HE; assumption|]. exists l. eapply ext_same; eauto. discriminate.
  Qed.

  Lemma data_ok_ext : forall c, data_ok tg h c -> data_ok tg' h' c.
  Proof.
    destruct c; cbn; auto.
    - apply Forall_impl. exact slot_ok_ext.
    - apply Forall_impl. intros; apply slot_ok_ext; assumption.
  Qed.

  Lemma frozen_ok_ext : forall c c', frozen_ok tg h c -> cell_eqv c c' -> frozen_ok tg' h' c'.
  Proof.
    intros c c' Hc E.
    destruct c as [l|es|v|bs|r].
    - apply cell_eqv_nonrdr in E; [subst c'|discriminate]. cbn in *. revert Hc. apply Forall_impl. exact slot_ok_ext.
    - apply cell_eqv_nonrdr in E; [subst c'|discriminate]. cbn in *. revert Hc. apply Forall_impl. intros; apply slot_ok_ext; assumption.
    - apply cell_eqv_nonrdr in E; [subst c'|discriminate]. destruct v; cbn in *; auto.
      + destruct Hc; split; auto using slice_frozen_ext, gomap_frozen_ext.
      + auto using slice_frozen_ext.
    - apply cell_eqv_nonrdr in E; [subst c'|discriminate]. exact I.
    - destruct c' as [| | | |r']; cbn in E; try contradiction.
      destruct r, r'; cbn in E; try contradiction.
      + subst. cbn in *. auto using bslice_ok_ext.
      + destruct E as (-> & -> & ->). cbn in *. destruct Hc as [Hp [rd Hr]].
        split; [apply HE; assumption|]. destruct (ext_rdr _ _ _ _ _ _ HE Hp Hr) as [r'' [Hr'' _]]. eauto.
      + subst. cbn in *. destruct Hc as [Hp [rd Hr]].
        split; [apply HE; assumption|]. destruct (ext_rdr _ _ _ _ _ _ HE Hp Hr) as [r'' [Hr'' _]]. eauto.
  Qed.
End Stab.

(* ------------------------------------------------------------------ the frame lemma *)

(* An assembler's well-formedness looks only at cells it owns and at frozen cells. *)
Definition keeps_owned (tg : tags) (h : mheap) (tg' : tags) (h' : mheap) (b : addr) : Prop :=
  forall x, tg x = TOwned b -> tg' x = TOwned b /\
    match hget h x with
    | Some (CArr _) => exists l, hget h' x = Some (CArr l)
    | Some (CMap _) => exists es, hget h' x = Some (CMap es)
    | Some (CPtr (VScalar _)) => exists sv, hget h' x = Some (CPtr (VScalar sv))
    | Some (CPtr (VMapHdr t g)) => exists t' g', hget h' x = Some (CPtr (VMapHdr t' g')) /\
        ((t' = t /\ g' = g) \/ (slice_ok tg' h' (TOwned b) t' /\ gomap_ok tg' h' (TOwned b) g'))
    | Some (CPtr (VListHdr t)) => exists t', hget h' x = Some (CPtr (VListHdr t')) /\
        (t' = t \/ slice_ok tg' h' (TOwned b) t')
    | o => hget h' x = o
    end.

Lemma slice_owned_keep : forall tg h tg' h' b s, keeps_owned tg h tg' h' b ->
  slice_ok tg h (TOwned b) s -> slice_ok tg' h' (TOwned b) s.
Proof.
  unfold slice_ok; intros * K. destruct (s_arr s) as [a|]; [|auto].
  intros [Ha [l Hl]]. destruct (K a Ha) as [Ht Hc]. rewrite Hl in Hc. auto.
Qed.
Lemma gomap_owned_keep : forall tg h tg' h' b g, keeps_owned tg h tg' h' b ->
  gomap_ok tg h (TOwned b) g -> gomap_ok tg' h' (TOwned b) g.
Proof.
  unfold gomap_ok; intros * K. destruct g as [a|]; [|auto].
  intros [Ha [l Hl]]. destruct (K a Ha) as [Ht Hc]. rewrite Hl in Hc. auto.
Qed.

Lemma masm_ok_keep : forall tg h tg' h' b m, Ext tg h tg' h' -> keeps_owned tg h tg' h' b ->
  masm_ok tg h b m -> masm_ok tg' h' b m.
Proof.
  unfold masm_ok; intros * HE K (H0 & H1 & H2). split; [assumption|]. split; [assumption|].
  destruct (m_w m) as [s|]; [|exact I].
  destruct (m_st m);
    try (destruct H2 as [Hs (t & g & Hh & Ht & Hg)]; destruct (K s Hs) as [Ht' Hc]; rewrite Hh in Hc;
         split; [assumption|]; destruct Hc as (t' & g' & Hh' & Hd);
         exists t', g'; split; [assumption|]; destruct Hd as [[-> ->]|[Hx Hy]];
         eauto using slice_owned_keep, gomap_owned_keep).
  destruct H2 as [Hs (t & g & Hh)]. split; [apply HE; assumption|]. exists t, g.
  eapply ext_same; eauto. discriminate.
Qed.

Lemma lasm_ok_keep : forall tg h tg' h' b l, Ext tg h tg' h' -> keeps_owned tg h tg' h' b ->
  lasm_ok tg h b l -> lasm_ok tg' h' b l.
Proof.
  unfold lasm_ok; intros * HE K [H1 H2]. split; [assumption|].
  destruct (l_w l) as [s|]; [|exact I].
  destruct (l_st l);
    try (destruct H2 as [Hs (x & Hh & Hx)]; destruct (K s Hs) as [Ht' Hc]; rewrite Hh in Hc;
         split; [assumption|]; destruct Hc as (x' & Hh' & Hd);
         exists x'; split; [assumption|]; destruct Hd as [->|Hy]; eauto using slice_owned_keep).
  destruct H2 as [Hs (x & Hh)]. split; [apply HE; assumption|]. exists x.
  eapply ext_same; eauto. discriminate.
Qed.

Lemma asm_ok_keep : forall tg h tg' h' b v, Ext tg h tg' h' -> keeps_owned tg h tg' h' b ->
  asm_ok tg h b v -> asm_ok tg' h' b v.
Proof.
  intros * HE K. destruct v; cbn; try tauto; eauto using masm_ok_keep, lasm_ok_keep, fref_ext.
  - intros (Hm & Hl & Hs & Hd & Hk). split; [|split; [|split; [|split]]]; eauto using masm_ok_keep, lasm_ok_keep, fref_ext.
  - intros [Hw [sv Hs]]. destruct done.
    + split; [apply HE; assumption|]. exists sv. eapply ext_same; eauto. discriminate.
    + destruct (K w Hw) as [Ht Hc]. rewrite Hs in Hc. auto.
Qed.

(* The frame lemma: to re-establish Inv after a step it suffices to look at the cells the step
   wrote, retagged or allocated (W), given that frozen cells were respected (Ext) and that every
   other assembler keeps what it owns. *)
Lemma inv_frame : forall tg h tg' h' (W : list addr),
  Inv tg h ->
  Ext tg h tg' h' ->
  (forall a, ~ In a W -> tg' a = tg a /\ hget h' a = hget h a) ->
  (forall a, In a W -> cell_ok_at tg' h' a) ->
  (forall b, ~ In b W -> tg b = TAsm -> keeps_owned tg h tg' h' b) ->
  Inv tg' h'.
Proof.
  intros * HI HE HF HW HK a.
  destruct (in_dec addr_dec a W) as [Hin|Hout]; [auto|].
  destruct (HF a Hout) as [Ht Hh]. specialize (HI a). unfold cell_ok_at in *. rewrite Ht, Hh.
  destruct (tg a) eqn:Ta.
  - assumption.
  - destruct HI as [c [Hc Hok]]. exists c; split; [assumption|].
    eapply frozen_ok_ext; eauto using cell_eqv_refl.
  - destruct HI as [c [Hc Hok]]. exists c; split; [assumption|]. eapply data_ok_ext; eauto.
  - destruct HI as [v [Hc Hok]]. exists v; split; [assumption|]. eapply asm_ok_keep; eauto.
Qed.

(* keeps_owned from "nothing b owns is in W" *)
Lemma keeps_owned_untouched : forall tg h tg' h' b,
  (forall x, tg x = TOwned b -> tg' x = tg x /\ hget h' x = hget h x) -> keeps_owned tg h tg' h' b.
Proof.
  intros * H x Hx. destruct (H x Hx) as [Ht Hh]. split; [congruence|]. rewrite Hh.
  destruct (hget h x) as [[l|es|v|bs|r]|]; eauto. destruct v; eauto 7.
Qed.

(* ------------------------------------------------------------------ reading the invariant *)

Definition is_asm_val (v : val) : Prop :=
  match v with
  | VMapB _ | VListB _ | VAnyB _ _ _ _ | VChildM _ _ _ | VChildL _ _ _ | VScalB _ _ _ | VBytesB _ => True
  | _ => False
  end.

Lemma inv_asm : forall tg h a v, Inv tg h -> hget h a = Some (CPtr v) -> is_asm_val v ->
  tg a = TAsm /\ asm_ok tg h a v.
Proof.
  intros * HI Hc Hv. specialize (HI a). unfold cell_ok_at in HI. destruct (tg a) eqn:Ta.
  - congruence.
  - destruct HI as [c [Hc' Hok]]. assert (c = CPtr v) by congruence. subst.
    destruct v; cbn in *; contradiction.
  - destruct HI as [c [Hc' Hok]]. assert (c = CPtr v) by congruence. subst.
    destruct v; cbn in *; contradiction.
  - destruct HI as [v' [Hc' Hok]]. assert (v' = v) by congruence. subst. auto.
Qed.

Lemma inv_frozen : forall tg h a, Inv tg h -> tg a = TFrozen -> exists c, hget h a = Some c /\ frozen_ok tg h c.
Proof. intros * HI Ha. specialize (HI a). unfold cell_ok_at in HI. rewrite Ha in HI. assumption. Qed.

Lemma inv_owned : forall tg h a b, Inv tg h -> tg a = TOwned b -> exists c, hget h a = Some c /\ data_ok tg h c.
Proof. intros * HI Ha. specialize (HI a). unfold cell_ok_at in HI. rewrite Ha in HI. assumption. Qed.

Lemma inv_free : forall tg h a, Inv tg h -> hget h a = None -> tg a = TFree.
Proof.
  intros * HI Ha. specialize (HI a). unfold cell_ok_at in HI. destruct (tg a); auto;
    destruct HI as [c [Hc _]]; congruence.
Qed.

Lemma inv_init : Inv (fun _ => TFree) (hp pinit).
Proof. intros [r i]. unfold cell_ok_at, hget, hgetv. cbn. destruct r as [|[|r]]; destruct i; reflexivity. Qed.
