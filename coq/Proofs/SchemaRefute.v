(* Proofs/SchemaRefute.v — witnesses: (a) the hypotheses of the C08/C09/C13 theorems are satisfiable,
   (b) under the PINNED quirks (the unchanged tree) each statement fails, one closed witness per
   confirmed defect.  Everything here is a closed computation ([vm_compute]). *)
Require Import IP.Base.Bytes IP.DM.Value IP.Schema.Types IP.Schema.View IP.Schema.Conform IP.Schema.Sem.
Open Scope N_scope.

(* names *)
Definition sa : bytes := [97].   Definition sb : bytes := [98].   Definition sc : bytes := [99].
Definition sx : bytes := [120].  Definition sq : bytes := [113].  Definition sz : bytes := [122].
Definition nInt : bytes := [73; 110; 116].            (* "Int" *)
Definition nStr : bytes := [83; 116; 114].            (* "Str" *)
Definition nAny : bytes := [65; 110; 121].            (* "Any" *)
Definition nEn : bytes := [69; 110].                  (* "En" *)
Definition nS : bytes := [83].                        (* "S" *)
Definition nAa : bytes := [65; 97].                   (* "Aa" *)
Definition nBb : bytes := [66; 98].                   (* "Bb" *)

Definition fld (n k : bytes) (o nu : bool) (t : ty) : finfo * ty :=
  ({| f_name := n; f_key := k; f_opt := o; f_nul := nu |}, t).
Definition mem (n d : bytes) (k : kind) (t : ty) : minfo * ty :=
  ({| m_name := n; m_disc := d; m_kind := k |}, t).
Definition en (n s : bytes) (i : Z) : einfo := {| e_name := n; e_str := s; e_int := i |}.

(* type S struct { a Int (rename "x"), b optional nullable String, c nullable Int, d optional String } *)
Definition tSM : ty :=
  TStruct SMap [fld sa sx false false (TInt W64); fld sb sb true true TString;
                fld sc sc false true (TInt W64); fld [100] [100] true false TString].
Definition tTU : ty :=
  TStruct STuple [fld sa sa false false (TInt W64); fld sb sb true false TString; fld sc sc true true (TInt W64)].
Definition tLP : ty :=
  TStruct SListpairs [fld sa sa true false (TInt W64); fld sb sb true false TString; fld sc sc false false (TInt W64)].
Definition tEn : ty := TEnum false [en nAa sx 1; en nBb nBb 2].
Definition tEi : ty := TEnum true [en nAa nAa 1; en nBb nBb 2].
Definition tSJ : ty := TStruct (SStringjoin [58]) [fld sa sa false false TString; fld sb sb false false tEn].
Definition tUK : ty := TUnion UKeyed [mem nInt [105] KMap (TInt W64); mem nStr [115] KMap TString].
Definition tKD : ty :=
  TUnion UKinded [mem nInt [] KInt (TInt W64); mem nStr [] KString TString; mem nS [] KMap tSM;
                  mem [76] [] KList (TList false (TInt W64))].
Definition tKE : ty := TUnion UKinded [mem nEn [] KInt tEi; mem nStr [] KString TString].
Definition tSP : ty := TUnion (UStringprefix []) [mem nStr [115; 45] KString TString; mem nEn [101; 46] KString tEn].
Definition tMS : ty := TMap false (TInt W64).
Definition tNL : ty := TList true tKD.
Definition tI8 : ty := TStruct SMap [fld [118] [118] false false (TInt W8)].
Definition tUA : ty := TUnion UKeyed [mem nAny sa KMap TAny; mem [76] [108] KMap TLink].
(* a stringprefix union with the delimiter "::" and discriminants that are prefixes of one another
   (expressible through the schema API, not the DSL) *)
Definition tSPd : ty :=
  TUnion (UStringprefix [58; 58]) [mem nStr [115] KString TString; mem nS [115; 116] KString TString].
Definition tBig : ty :=
  TStruct SMap [fld sa sx false false tTU; fld sb sb true false (TList true tSP); fld sc sc false false tKD;
                fld sq sq false true (TMap false tSJ); fld sz sz false false tLP].

(* ------------------------------------------------------------------ the hypotheses are satisfiable *)
Definition vSM : tv := VStruct [MVal (VInt 1); MAbsent; MNull; MVal (VString sz)].
Definition vBig : tv :=
  VStruct [MVal (VStruct [MVal (VInt 7); MVal (VString sq); MAbsent]);
           MVal (VList [MNull; MVal (VUnion 1 (VEnum nAa))]);
           MVal (VUnion 2 vSM);
           MVal (VMap [(sb, MVal (VStruct [MVal (VString sq); MVal (VEnum nBb)]))]);
           MVal (VStruct [MAbsent; MVal (VString sq); MVal (VInt 3)])].

Example wf_examples :
  forallb wf [tSM; tTU; tLP; tEn; tEi; tSJ; tUK; tKD; tKE; tSP; tSPd; tMS; tNL; tI8; tUA; tBig] = true.
Proof. vm_compute. reflexivity. Qed.

Example has_type_examples : has_type tSM vSM = true /\ has_type tBig vBig = true.
Proof. vm_compute. auto. Qed.

Example gen_supported_examples : forallb gen_supported [tSM; tTU; tUK; tKD; tMS; tNL] = true.
Proof. vm_compute. reflexivity. Qed.

(* the theorems' conclusions, computed on the deep example (a sanity run of the whole pipeline) *)
Example big_two_routes :
  tbuild Bind qoff tBig (tdm_spec tBig vBig) = BOk vBig /\ rbuild Bind qoff tBig (repr_spec tBig vBig) = BOk vBig /\
  repr_view Bind qoff tBig vBig = ov_of_dm (repr_spec tBig vBig).
Proof. vm_compute. auto. Qed.

(* the delimited stringprefix union: "st::a:b" is member 1 with "a:b"; a discriminant without the
   delimiter, a longer unknown discriminant and a bare delimiter are refused *)
Example delimited_prefix :
  rbuild Bind qoff tSPd (DString [115; 116; 58; 58; 97; 58; 98]) = BOk (VUnion 1 (VString [97; 58; 98])) /\
  repr_spec tSPd (VUnion 1 (VString [97; 58; 98])) = DString [115; 116; 58; 58; 97; 58; 98] /\
  conforms_r tSPd (DString [115; 116; 97]) = None /\
  conforms_r tSPd (DString [115; 116; 120; 58; 58; 97]) = None /\
  conforms_r tSPd (DString [58; 58; 97]) = None /\
  conforms_r tSPd (DString [115; 58; 58]) = Some (VUnion 0 (VString [])).
Proof. vm_compute. repeat split; reflexivity. Qed.

(* ------------------------------------------------------------------ C09: acceptance refuted, per leniency *)
Definition accepts_nonconforming (lvl : level) (t : ty) (d : dm) : Prop :=
  wf t = true /\ (exists v, build Bind pinned lvl t d = BOk v) /\
  (match lvl with LType => conforms_t t d | LRepr => conforms_r t d end) = None.

Ltac witness := unfold accepts_nonconforming; vm_compute; repeat split; eauto.

Lemma refuted_dup_field :
  accepts_nonconforming LRepr tSM (DMap [(sx, DInt 1); (sx, DInt 2); (sc, DInt 1)]).
Proof. witness. Qed.

Lemma refuted_dup_mapkey : accepts_nonconforming LRepr tMS (DMap [(sa, DInt 1); (sa, DInt 2)]).
Proof. witness. Qed.

Lemma refuted_union_two : accepts_nonconforming LRepr tUK (DMap [([105], DInt 1); ([115], DString sx)]).
Proof. witness. Qed.

Lemma refuted_rename_alias : accepts_nonconforming LRepr tSM (DMap [(sa, DInt 1); (sc, DInt 1)]).
Proof. witness. Qed.

Lemma refuted_member_alias : accepts_nonconforming LRepr tUK (DMap [(nInt, DInt 1)]).
Proof. witness. Qed.

Lemma refuted_listpairs_dup :
  accepts_nonconforming LRepr tLP (DList [DList [DString sc; DInt 1]; DList [DString sc; DInt 2]]).
Proof. witness. Qed.

Lemma refuted_listpairs_short :
  accepts_nonconforming LRepr tLP (DList [DList [DString sc; DInt 1]; DList [DString sa]]).
Proof. witness. Qed.

Lemma refuted_enum_name_alias : accepts_nonconforming LRepr tEn (DString nAa).
Proof. witness. Qed.

Lemma refuted_enum_type_unchecked : accepts_nonconforming LType tEn (DString [103]).
Proof. witness. Qed.

Lemma refuted_int_narrow : accepts_nonconforming LRepr tI8 (DMap [([118], DInt 300)]).
Proof. witness. Qed.

(* the silently narrowed value: 300 is stored as 44 *)
Lemma refuted_int_narrow_value :
  rbuild Bind pinned tI8 (DMap [([118], DInt 300)]) = BOk (VStruct [MVal (VInt 44)]).
Proof. vm_compute. reflexivity. Qed.

(* ------------------------------------------------------------------ C09: "never by a panic" refuted *)
Lemma refuted_listpairs_unknown_panic :
  wf tLP = true /\
  rbuild Bind pinned tLP (DList [DList [DString sc; DInt 1]; DList [DString sq; DInt 1]]) = BPanic.
Proof. vm_compute. auto. Qed.

Lemma refuted_nullable_sum_panic :
  wf tNL = true /\ conforms_r tNL (DList [DInt 1; DNull]) <> None /\
  rbuild Bind pinned tNL (DList [DInt 1; DNull]) = BPanic.
Proof. vm_compute. repeat split; auto. discriminate. Qed.

(* ------------------------------------------------------------------ C08: views refuted *)
Definition view_deviates (t : ty) (v : tv) : Prop :=
  wf t = true /\ has_type t v = true /\ repr_view Bind pinned t v <> ov_of_dm (repr_spec t v).

Ltac vwitness := unfold view_deviates; vm_compute; repeat split; auto; discriminate.

Lemma refuted_listpairs_iter_index :
  view_deviates tLP (VStruct [MAbsent; MVal (VString sq); MVal (VInt 1)]).
Proof. vwitness. Qed.

Lemma refuted_kinded_enum_kind : view_deviates tKE (VUnion 0 (VEnum nAa)).
Proof. vwitness. Qed.

Lemma refuted_kinded_len : view_deviates tKD (VUnion 2 vSM).
Proof. vwitness. Qed.

Lemma refuted_union_any : view_deviates tUA (VUnion 0 (VAny (DString sx))).
Proof. vwitness. Qed.

(* the two routes: under the pinned quirks the representation of a nullable list of kinded unions
   cannot be fed back (it panics) *)
Lemma refuted_two_routes :
  wf tNL = true /\ has_type tNL (VList [MVal (VUnion 0 (VInt 1)); MNull]) = true /\
  rbuild Bind pinned tNL (repr_spec tNL (VList [MVal (VUnion 0 (VInt 1)); MNull])) = BPanic.
Proof. vm_compute. auto. Qed.

(* ------------------------------------------------------------------ C13: engines differ under the pinned quirks *)
Definition engines_differ (lvl : level) (t : ty) (d : dm) : Prop :=
  wf t = true /\ gen_supported t = true /\
  ~ bres_sim (observe Bind pinned lvl t d) (observe Gen pinned lvl t d).

Ltac ewitness := unfold engines_differ; vm_compute; repeat split; auto; try (intros H; exact H); try (intros H; discriminate H).

(* bindnode accepts, the generated code rejects *)
Lemma engines_differ_dup_field : engines_differ LRepr tSM (DMap [(sx, DInt 1); (sx, DInt 2); (sc, DInt 1)]).
Proof. ewitness. Qed.
Lemma engines_differ_dup_mapkey : engines_differ LRepr tMS (DMap [(sa, DInt 1); (sa, DInt 2)]).
Proof. ewitness. Qed.
Lemma engines_differ_union_two : engines_differ LRepr tUK (DMap [([105], DInt 1); ([115], DString sx)]).
Proof. ewitness. Qed.
Lemma engines_differ_rename_alias : engines_differ LRepr tSM (DMap [(sa, DInt 1); (sc, DInt 1)]).
Proof. ewitness. Qed.
Lemma engines_differ_member_alias : engines_differ LRepr tUK (DMap [(nInt, DInt 1)]).
Proof. ewitness. Qed.
(* bindnode panics, the generated code refuses null *)
Lemma engines_differ_nullable_kinded : engines_differ LRepr tNL (DList [DInt 1; DNull]).
Proof. ewitness. Qed.
(* the generated code accepts a tuple without its required field *)
Lemma engines_differ_gen_tuple_missing : engines_differ LRepr tTU (DList []).
Proof. ewitness. Qed.
(* the generated code refuses null in a nullable slot holding a kinded union *)
Lemma engines_differ_gen_nullable_kinded_null : engines_differ LRepr tNL (DList [DNull]).
Proof. ewitness. Qed.
(* the generated stringprefix union (empty delimiter, as compiled from the DSL) refuses its own prefix *)
Definition tSP2 : ty := TUnion (UStringprefix []) [mem nStr [115; 45] KString TString; mem nS [116; 45] KString TString].
Lemma engines_differ_gen_stringprefix_split : engines_differ LRepr tSP2 (DString [115; 45; 97]).
Proof. ewitness. Qed.
(* kinded union holding a struct: Length() differs *)
Lemma engines_differ_kinded_len :
  engines_differ LType tKD (DMap [(nS, DMap [(sa, DInt 1); (sc, DInt 2)])]).
Proof. ewitness. Qed.
