(* Proofs/StoreFs.v — C17 for the file-system store: pathForKey is injective and every system call
   of every operation stays strictly inside the base directory, PROVIDED the escaping function is
   applied (quirk off) and has the shape of base32.  *)
Require Import IP.Base.Bytes IP.Base.GoSem IP.Gen.FromGo IP.Store.Storage IP.Store.FsStore.
Require Import IP.Proofs.StoreBase.
From Coq Require Import Lia ZArith NArith List Bool.
Import ListNotations.
Open Scope N_scope.

(* the shape of an acceptable escaping function; base32 has it (b32enc_alpha, b32enc_nonempty;
   injectivity: Proofs/StoreB32.v) *)
Record esc_ok (esc : bytes -> bytes) : Prop := {
  esc_inj : forall a b, wfb a -> wfb b -> esc a = esc b -> a = b;   (* on byte strings *)
  esc_alpha : forall k, Forall b32_alpha (esc k);
  esc_nonempty : forall k, k <> [] -> esc k <> []
}.

Definition escaping (cfg : fscfg) : Prop := q_no_escape cfg = false /\ esc_ok (f_esc cfg).

Lemma esc_plain : forall cfg k, escaping cfg -> k <> [] -> plain (enc_key cfg k).
Proof.
  intros cfg k [Q E] H. unfold enc_key. rewrite Q. split.
  - apply (esc_nonempty _ E); auto.
  - eapply Forall_impl; [|apply (esc_alpha _ E)]. apply b32_alpha_plain.
Qed.

(* ------------------------------------------------------------------ injectivity *)

Theorem fs_injective : forall cfg, escaping cfg ->
  forall k1 k2 p, wfb k1 -> wfb k2 -> k1 <> [] -> k2 <> [] ->
  key_len_ok (enc_key cfg k1) -> key_len_ok (enc_key cfg k2) ->
  path_for_key cfg k1 = Some p -> path_for_key cfg k2 = Some p -> k1 = k2.
Proof.
  intros cfg HE k1 k2 p W1 W2 N1 N2 L1 L2 P1 P2.
  destruct (path_for_key_plain cfg k1 L1 (esc_plain cfg k1 HE N1)) as [c1 [E1 _]].
  destruct (path_for_key_plain cfg k2 L2 (esc_plain cfg k2 HE N2)) as [c2 [E2 _]].
  rewrite E1 in P1. rewrite E2 in P2. inversion P1. inversion P2. subst p.
  apply app_inv_head in H1. apply app_inj_tail in H1. destruct H1 as [_ H1].
  destruct HE as [Q E]. unfold enc_key in H1. rewrite Q in H1.
  apply (esc_inj _ E); auto.
Qed.

(* ------------------------------------------------------------------ containment *)

(* a component that cannot leave its directory *)
Definition safe_comp (c : comp) : Prop :=
  c <> [] /\ is_dot c = false /\ is_dotdot c = false /\ ~ In 47 c.

Lemma plain_safe : forall c, plain c -> safe_comp c.
Proof.
  intros c H. destruct (plain_not_special c H) as [_ [A B]]. destruct H as [H1 H2].
  repeat split; auto. intros Hin. rewrite Forall_forall in H2. destruct (H2 _ Hin). congruence.
Qed.

Lemma temp_name_safe : safe_comp temp_name.
Proof. repeat split; try discriminate; auto. simpl. intuition discriminate. Qed.

(* base is a PROPER prefix and what follows has no "..", no ".", no "/" *)
Definition inside (base p : path) : Prop :=
  exists rest, rest <> [] /\ p = base ++ rest /\ Forall safe_comp rest.

Definition sys_paths (s : sysc) : list path :=
  match s with
  | SStat p | SLstat p | SOpenRd p | SCreat p | SWrite p _ | SClose p | SMkdir p | SUnlink p => [p]
  | SRename p q => [p; q]
  end.

Definition ev_inside (base : path) (e : ev) : Prop := Forall (inside base) (sys_paths (fst e)).

Definition prefixes_dirs (f : fs) (base : path) : Prop :=
  forall n, (0 < n <= length base)%nat -> fs_lookup f (firstn n base) = Some Dir.

Definition base_wf (base : path) : Prop :=
  Forall (fun c => (lenN c <=? name_max) = true) base /\ has_nul base = false.

Lemma inside_neq_prefix : forall base p n, inside base p -> p <> firstn n base.
Proof.
  intros base p n [rest [Hne [E _]]] H. subst p.
  assert (L : length (base ++ rest) = length (firstn n base)) by congruence.
  rewrite app_length, firstn_length in L. destruct rest; try congruence. simpl in L. lia.
Qed.

Lemma firstn_nonnil : forall {A} n (l : list A), (0 < n <= length l)%nat -> firstn n l <> [].
Proof. intros A n l H E. assert (L := firstn_length n l). rewrite E in L. simpl in L. lia. Qed.

Lemma prefixes_set : forall f base p nd, prefixes_dirs f base -> inside base p ->
  prefixes_dirs (fs_set f p nd) base.
Proof.
  intros f base p nd H I n Hn. rewrite lookup_set_other. auto. apply inside_neq_prefix; auto.
Qed.

Lemma prefixes_remove : forall f base p, prefixes_dirs f base -> inside base p ->
  prefixes_dirs (fs_remove f p) base.
Proof.
  intros f base p H I n Hn. rewrite lookup_remove_other. auto. apply inside_neq_prefix; auto.
Qed.

Lemma sys_exec_prefixes : forall f base s, prefixes_dirs f base -> Forall (inside base) (sys_paths s) ->
  prefixes_dirs (fst (sys_exec f s)) base.
Proof.
  intros f base s H I. destruct s; simpl in *; inversion I; subst;
    repeat match goal with
           | |- context [match resolve ?f ?p with _ => _ end] => destruct (resolve f p) as [[[?|]|]|?]; simpl; auto
           | |- context [match fs_lookup ?f ?p with _ => _ end] => destruct (fs_lookup f p) as [[?|]|]; simpl; auto
           end;
    try (apply prefixes_set; auto); try (apply prefixes_remove; auto).
  all: inversion H3; subst; auto.
  all: try (apply prefixes_set; auto); try (apply prefixes_remove; auto).
Qed.

Lemma walk_from_dirs : forall f rest pre,
  (forall n, (0 < n <= length rest)%nat -> fs_lookup f (pre ++ firstn n rest) = Some Dir) ->
  Forall (fun c => (lenN c <=? name_max) = true) rest ->
  walk_from f pre rest = Ok tt.
Proof.
  induction rest; intros pre H HS; simpl; auto.
  inversion HS; subst. apply N.leb_le in H2.
  destruct (name_max <? lenN a) eqn:E. { apply N.ltb_lt in E. lia. }
  specialize (H 1%nat) as H1'. simpl in H1'. rewrite H1' by lia.
  apply IHrest; auto. intros n Hn. rewrite <- app_assoc. simpl.
  specialize (H (S n)). simpl in H. apply H. lia.
Qed.

Lemma has_nul_app : forall a b, has_nul (a ++ b) = has_nul a || has_nul b.
Proof. intros. unfold has_nul. apply existsb_app. Qed.

(* a direct child of the base directory: resolution never answers ENOENT *)
Lemma resolve_child_of_base : forall f base c, prefixes_dirs f base -> base_wf base ->
  resolve f (base ++ [c]) <> Err ENOENT.
Proof.
  intros f base c H [W1 W2]. unfold resolve.
  destruct (has_nul (base ++ [c])); try discriminate.
  destruct (base ++ [c]) eqn:E. { destruct base; discriminate. }
  rewrite <- E. unfold dirname. rewrite removelast_last.
  rewrite walk_from_dirs by (auto; intros n Hn; simpl; auto).
  unfold last_comp. rewrite last_last. destruct (name_max <? lenN c); discriminate.
Qed.

Lemma mkdir_child_of_base : forall f base c, prefixes_dirs f base -> base_wf base ->
  snd (sys_exec f (SMkdir (base ++ [c]))) <> Err ENOENT.
Proof.
  intros f base c H W. simpl.
  pose proof (resolve_child_of_base f base c H W) as R.
  destruct (resolve f (base ++ [c])) as [[[?|]|]|e]; simpl; try discriminate.
  intros E. inversion E. subst. congruence.
Qed.

(* --- the writer machine stays inside --- *)

Definition dest_ok (base : path) (d : option path) : Prop :=
  match d with
  | None => True
  | Some p => exists rest, p = base ++ rest /\ (2 <= length rest)%nat /\ Forall safe_comp rest
  end.

Definition env_inside (env : wenv) : Prop :=
  dest_ok (we_base env) (we_dest env) /\ (forall i, safe_comp (we_names env i)).

Definition pc_inside (env : wenv) (pc : wpc) : Prop :=
  let base := we_base env in
  match pc with
  | WCreate _ _ | WDone _ => True
  | WWrite st _ | WClose st _ | WAbort st _ | WExist st => inside base st
  | WLstatNew st _ | WLstatOld st _ | WRename st _ => inside base st /\ we_dest env <> None
  | WDirDown st p stack | WDirUp st p stack =>
      inside base st /\ we_dest env <> None /\ inside base p /\ Forall (inside base) stack
  end.

Lemma stage_inside : forall base name, safe_comp name -> inside base (stage_path base name).
Proof.
  intros. exists [temp_name; name]. split; [discriminate|]. split; [reflexivity|].
  constructor. apply temp_name_safe. constructor; auto.
Qed.

Lemma dest_inside : forall env, env_inside env -> we_dest env <> None -> inside (we_base env) (w_dest env).
Proof.
  intros env [D _] H. unfold w_dest. destruct (we_dest env) as [d|]; try congruence.
  destruct D as [rest [E [L F]]]. exists rest. repeat split; auto. destruct rest; simpl in L; try lia. discriminate.
Qed.

Lemma dirname_dest_inside : forall env, env_inside env -> we_dest env <> None ->
  inside (we_base env) (dirname (w_dest env)).
Proof.
  intros env [D _] H. unfold w_dest. destruct (we_dest env) as [d|]; try congruence.
  destruct D as [rest [E [L F]]]. subst d.
  destruct (exists_last (l := rest)) as [r' [c E]]. { destruct rest; simpl in L; try lia. discriminate. }
  subst rest. unfold dirname. rewrite app_assoc, removelast_last.
  exists r'. rewrite app_length in L. simpl in L. repeat split; auto.
  - destruct r'; simpl in L; try lia. discriminate.
  - apply Forall_app in F. tauto.
Qed.

Lemma next_inside : forall env pc s, env_inside env -> pc_inside env pc ->
  w_next env pc = Some s -> Forall (inside (we_base env)) (sys_paths s).
Proof.
  intros env pc s HE HP HN. destruct pc; simpl in *; inversion HN; subst; simpl;
    repeat constructor; try tauto.
  - apply stage_inside. apply HE.
  - destruct chunks; inversion H0; subst; simpl; repeat constructor; tauto.
  - apply dest_inside; tauto.
  - apply dest_inside; tauto.
Qed.

Lemma after_rename_inside : forall env st second r, env_inside env -> inside (we_base env) st ->
  we_dest env <> None -> pc_inside env (after_rename env st second r).
Proof.
  intros. unfold after_rename. destruct r as [|e]; simpl; auto.
  destruct (negb second && is_enoent e); simpl.
  - repeat split; auto. apply dirname_dest_inside; auto.
  - destruct (is_exist e); simpl; auto.
Qed.

Lemma have_ret_inside : forall env st r stack, inside (we_base env) st -> we_dest env <> None ->
  Forall (inside (we_base env)) stack -> pc_inside env (have_ret st r stack).
Proof.
  intros. unfold have_ret. destruct r; simpl; auto.
  destruct stack; simpl; auto. inversion H1; subst. tauto.
Qed.

Lemma dirname_app_last : forall (a b : path) c, dirname (a ++ b ++ [c]) = a ++ b.
Proof. intros. unfold dirname. rewrite app_assoc. apply removelast_last. Qed.

(* one sequential step *)
Lemma step_inside : forall env f pc s, env_inside env -> base_wf (we_base env) ->
  prefixes_dirs f (we_base env) -> pc_inside env pc -> w_next env pc = Some s ->
  pc_inside env (w_step env pc (snd (sys_exec f s))).
Proof.
  intros env f pc s HE HW HF HP HN.
  destruct pc; simpl in HN; inversion HN; subst; clear HN;
    match goal with |- context [snd (sys_exec ?f ?s)] => remember (snd (sys_exec f s)) as r eqn:R end.
  - (* create *) simpl. destruct r as [|e]; simpl.
    + unfold after_create. destruct chunks; simpl; apply stage_inside; apply HE.
    + destruct e; simpl; auto.
  - (* write *) simpl in HP. clear R.
    simpl. destruct r.
    + destruct (tl chunks); simpl; auto.
    + destruct (we_kind env); simpl; auto.
  - (* close *) simpl in *. destruct r; destruct after; simpl; auto.
    destruct (we_dest env) eqn:D; simpl; auto. split; auto. congruence.
  - (* abort *) simpl in *. destruct after; simpl; auto. destruct r; simpl; auto.
    destruct (we_empty_ok env); simpl; auto.
  - (* lstat new *) simpl in HP. simpl.
    destruct r as [[|[c|]]|]; simpl; tauto.
  - (* lstat old *) simpl in HP. cbn [w_step].
    destruct r; apply after_rename_inside; tauto.
  - (* rename *) simpl in HP. cbn [w_step]. apply after_rename_inside; tauto.
  - (* haveDir, going down *)
    simpl in HP. destruct HP as [I1 [I2 [I3 I4]]]. cbn [w_step].
    destruct r as [|e].
    + apply have_ret_inside; auto.
    + destruct e; try (apply have_ret_inside; auto).
      (* ENOENT: p is not a direct child of base, so its parent is still inside *)
      simpl. split; auto. split; auto.
      destruct I3 as [rest [Hne [E F]]]. subst p.
      destruct (exists_last Hne) as [r' [c E]]. subst rest.
      destruct r' as [|c0 r'].
      * exfalso. simpl app in R. symmetry in R. revert R. apply mkdir_child_of_base; auto.
      * split.
        -- exists (c0 :: r'). split; [discriminate|]. split.
           ++ apply (dirname_app_last (we_base env) (c0 :: r') c).
           ++ apply Forall_app in F. tauto.
        -- constructor; auto. exists ((c0 :: r') ++ [c]). auto.
  - (* haveDir, coming back up *)
    simpl in HP. destruct HP as [I1 [I2 [I3 I4]]]. cbn [w_step]. apply have_ret_inside; auto.
  - (* exist *) simpl. auto.
Qed.

Lemma w_run_inside : forall fuel env f pc log f' r log',
  env_inside env -> base_wf (we_base env) ->
  prefixes_dirs f (we_base env) -> pc_inside env pc -> Forall (ev_inside (we_base env)) log ->
  w_run fuel env f pc log = (f', r, log') ->
  prefixes_dirs f' (we_base env) /\ Forall (ev_inside (we_base env)) log'.
Proof.
  induction fuel; intros env f pc log f' r log' HE HW HF HP HL HR; simpl in HR.
  - inversion HR; subst. auto.
  - destruct (w_next env pc) as [s|] eqn:N.
    + destruct (sys_exec f s) as [f1 r1] eqn:X.
      pose proof (next_inside env pc s HE HP N) as I.
      assert (F1 : prefixes_dirs f1 (we_base env)).
      { replace f1 with (fst (sys_exec f s)) by (rewrite X; auto). apply sys_exec_prefixes; auto. }
      assert (P1 : pc_inside env (w_step env pc r1)).
      { replace r1 with (snd (sys_exec f s)) by (rewrite X; auto). apply step_inside; auto. }
      eapply IHfuel; [exact HE|exact HW|exact F1|exact P1| |exact HR]. constructor; auto.
    + inversion HR; subst. auto.
Qed.

(* --- the store operations --- *)

Definition cfg_wf (cfg : fscfg) : Prop := base_wf (f_base cfg).

(* keys are Go strings: shorter than 2^63 after escaping *)
Definition key_of (o : op) : option key :=
  match o with
  | OPut k _ | OPutStream k _ | OPutVec k _ | OGet k | OGetStream k | OPeek k | OHas k | OCommit _ k => Some k
  | _ => None
  end.
Definition op_len_ok (cfg : fscfg) (o : op) : Prop :=
  match key_of o with Some k => key_len_ok (enc_key cfg k) | None => True end.

Lemma shard_apply_empty : forall sh, exists pads,
  shard_apply sh [] = Some (pads ++ [[]]) /\ pads <> [] /\ Forall plain pads.
Proof.
  assert (P2 : plain [48; 48]). { split. discriminate. repeat constructor; discriminate. }
  assert (P3 : plain [48; 48; 48]). { split. discriminate. repeat constructor; discriminate. }
  destruct sh.
  - exists [[48;48;48];[48;48;48]]. repeat split; try discriminate; auto.
  - exists [[48;48];[48;48]]. repeat split; try discriminate; auto.
  - exists [[48;48]]. repeat split; try discriminate; auto.
Qed.

Lemma join_clean_empty_last : forall base pads, Forall plain pads ->
  join_clean base (pads ++ [[]]) = base ++ pads.
Proof.
  intros. unfold join_clean. rewrite flat_map_app. simpl.
  rewrite flat_map_split_plain by auto.
  assert (G : forall cs stack, Forall plain cs -> clean_go stack (cs ++ [[]]) = rev stack ++ cs).
  { induction cs; intros stack F; simpl. rewrite app_nil_r; auto.
    inversion F; subst. destruct (plain_not_special a H2) as [E1 [E2 E3]].
    rewrite E1, E2, E3. simpl. rewrite IHcs by auto. simpl. rewrite <- app_assoc. auto. }
  rewrite G by auto. rewrite rev_involutive. auto.
Qed.

(* with escaping, the path of ANY key is strictly inside the base *)
Lemma path_for_key_inside : forall cfg k, escaping cfg -> key_len_ok (enc_key cfg k) ->
  exists rest, path_for_key cfg k = Some (f_base cfg ++ rest) /\ rest <> [] /\ Forall safe_comp rest
               /\ (k <> [] -> (2 <= length rest)%nat).
Proof.
  intros cfg k HE HL. destruct k as [|b k'].
  - (* the empty key: base/00 *)
    assert (enc_key cfg [] = [] \/ plain (enc_key cfg [])) as [E|P].
    { destruct HE as [Q E]. unfold enc_key. rewrite Q.
      destruct (f_esc cfg []) eqn:X; auto. right. split. discriminate.
      rewrite <- X. eapply Forall_impl; [|apply (esc_alpha _ E)]. apply b32_alpha_plain. }
    + unfold path_for_key. rewrite E.
      destruct (shard_apply_empty (f_shard cfg)) as [pads [S [N F]]]. rewrite S.
      rewrite join_clean_empty_last by auto. exists pads. repeat split; auto.
      * eapply Forall_impl; [|exact F]. apply plain_safe.
      * congruence.
    + destruct (path_for_key_plain cfg [] HL P) as [cs [E [L F]]].
      exists (cs ++ [enc_key cfg []]). repeat split; auto.
      * destruct cs; discriminate.
      * apply Forall_app. split. eapply Forall_impl; [|exact F]. apply plain_safe.
        constructor; [|constructor]. apply plain_safe; auto.
      * congruence.
  - assert (N : b :: k' <> []) by discriminate.
    destruct (path_for_key_plain cfg (b :: k') HL (esc_plain cfg _ HE N)) as [cs [E [L F]]].
    exists (cs ++ [enc_key cfg (b :: k')]). repeat split; auto.
    + destruct cs; discriminate.
    + apply Forall_app. split. eapply Forall_impl; [|exact F]. apply plain_safe.
      constructor; [|constructor]. apply plain_safe. apply esc_plain; auto.
    + intros _. rewrite app_length. simpl. destruct (f_shard cfg); simpl in L; lia.
Qed.

Lemma stage_name_safe : forall n, safe_comp (stage_name n).
Proof.
  intros n. unfold stage_name.
  assert (A : forall p, Forall (fun b => b = 48 \/ b = 49) (pos_name p)).
  { induction p; simpl; (constructor; [auto|]); auto. }
  assert (B : Forall (fun b => b = 48 \/ b = 49) (match n with 0 => [48] | Npos p => pos_name p end)).
  { destruct n; auto. }
  split; [discriminate|]. split; [reflexivity|]. split; [reflexivity|].
  intros [H|H]; try discriminate. rewrite Forall_forall in B. destruct (B _ H); discriminate.
Qed.

Definition res_inside (base : path) (r : obs * fs * list ev) : Prop := Forall (ev_inside base) (snd r).

Lemma fs_put_inside : forall cfg st kind k chunks st' ob log,
  escaping cfg -> cfg_wf cfg -> key_len_ok (enc_key cfg k) ->
  prefixes_dirs (fs_fs st) (f_base cfg) ->
  fs_put cfg st kind k chunks = (st', ob, log) ->
  prefixes_dirs (fs_fs st') (f_base cfg) /\ Forall (ev_inside (f_base cfg)) log.
Proof.
  intros cfg st kind k chunks st' ob log HE HW HL HF HP. unfold fs_put in HP.
  assert (D : exists d, (match k with
              | [] => Some None
              | _ => match path_for_key cfg k with Some d => Some (Some d) | None => None end
              end) = Some d /\ dest_ok (f_base cfg) d).
  { destruct k as [|b k'].
    - exists None. simpl. auto.
    - destruct (path_for_key_inside cfg (b :: k') HE HL) as [rest [E [N [F L]]]].
      rewrite E. eexists. split. reflexivity. simpl. exists rest. repeat split; auto. apply L. discriminate. }
  destruct D as [d [ED DO]]. rewrite ED in HP.
  match type of HP with context [w_run ?fu ?env ?f ?pc ?l] => destruct (w_run fu env f pc l) as [[f1 r] lg] eqn:R end.
  inversion HP; subst. simpl.
  match type of R with w_run _ ?env _ _ _ = _ =>
    assert (EI : env_inside env) by (split; simpl; auto; intros; apply stage_name_safe);
    assert (HW' : base_wf (we_base env)) by exact HW;
    assert (HF' : prefixes_dirs (fs_fs st) (we_base env)) by exact HF;
    assert (HP' : pc_inside env (WCreate 0 chunks)) by exact I;
    assert (HL' : Forall (ev_inside (we_base env)) []) by constructor;
    pose proof (w_run_inside _ _ _ _ _ _ _ _ EI HW' HF' HP' HL' R) as [R1 R2]
  end.
  split; auto. apply Forall_rev. auto.
Qed.

Lemma inside_last_safe : forall base sp, inside base sp -> safe_comp (last_comp sp).
Proof.
  intros base sp [rest [N [E F]]]. subst sp. unfold last_comp.
  destruct (exists_last N) as [r' [c E]]. subst rest. rewrite app_assoc, last_last.
  apply Forall_app in F. destruct F as [_ F]. inversion F. auto.
Qed.

(* the staging files of the streams that are open *)
Definition streams_inside (cfg : fscfg) (st : fstate) : Prop :=
  forall sid sp, nth_error (fs_str st) sid = Some (Some sp) -> inside (f_base cfg) sp.

Lemma nth_error_upd : forall {A} (l : list A) i j x y, nth_error (upd l i x) j = Some y ->
  y = x \/ nth_error l j = Some y.
Proof.
  induction l; intros [|i] [|j] x y H; simpl in *; auto; try discriminate.
  - inversion H. auto.
  - eapply IHl; eauto.
Qed.

Lemma fs_step_streams : forall cfg st o st' ob log,
  streams_inside cfg st -> fs_step cfg st o = (st', ob, log) -> streams_inside cfg st'.
Proof.
  intros cfg st o st' ob log SI HS.
  assert (PUT : forall kind k chunks, fs_put cfg st kind k chunks = (st', ob, log) -> fs_str st' = fs_str st).
  { intros kind k chunks HP. unfold fs_put in HP.
    destruct (match k with [] => Some None | _ :: _ => match path_for_key cfg k with Some d => Some (Some d) | None => None end end);
      [|inversion HP; auto].
    match type of HP with context [w_run ?fu ?env ?f ?pc ?l] => destruct (w_run fu env f pc l) as [[f1 r] lg] end.
    inversion HP; subst. reflexivity. }
  assert (SAME : fs_str st' = fs_str st -> streams_inside cfg st').
  { intros E sid sp H. rewrite E in H. eapply SI; eauto. }
  destruct o; simpl in HS.
  - inversion HS; subst. apply SAME. reflexivity.
  - destruct (fs_handle st h); inversion HS; subst; apply SAME; reflexivity.
  - destruct (fs_handle st h); [|inversion HS; subst; apply SAME; reflexivity]. apply SAME. eapply PUT; eauto.
  - destruct (gather (fs_handle st) hs); [|inversion HS; subst; apply SAME; reflexivity]. apply SAME. eapply PUT; eauto.
  - destruct (gather (fs_handle st) hs); [|inversion HS; subst; apply SAME; reflexivity]. apply SAME. eapply PUT; eauto.
  - destruct (fs_open cfg (fs_fs st) k) as [[[[c|]|e] lg]|]; inversion HS; subst; apply SAME; reflexivity.
  - destruct (fs_open cfg (fs_fs st) k) as [[[[c|]|e] lg]|]; inversion HS; subst; apply SAME; reflexivity.
  - destruct (fs_open cfg (fs_fs st) k) as [[[[c|]|e] lg]|]; inversion HS; subst; apply SAME; reflexivity.
  - destruct (fs_has cfg (fs_fs st) k). inversion HS; subst. apply SAME. reflexivity.
  - unfold do_sys in HS.
    destruct (sys_exec (fs_fs st) (SCreat (stage_path (f_base cfg) (stage_name (fs_ctr st))))) as [f1 r].
    inversion HS; subst. intros sid sp H. simpl in H.
    destruct (lt_dec sid (length (fs_str st))) as [L|L].
    + rewrite nth_error_app1 in H by auto. eapply SI; eauto.
    + rewrite nth_error_app2 in H by lia. destruct (sid - length (fs_str st))%nat; simpl in H.
      * destruct r; inversion H. apply stage_inside. apply stage_name_safe.
      * destruct n; discriminate.
  - destruct (nth_error (fs_str st) sid) as [[sp|]|]; destruct (fs_handle st h);
      try (inversion HS; subst; apply SAME; reflexivity).
    unfold do_sys in HS. destruct (sys_exec (fs_fs st) (SWrite sp l)) as [f1 r].
    inversion HS; subst. apply SAME. reflexivity.
  - destruct (nth_error (fs_str st) sid) as [[sp|]|]; try (inversion HS; subst; apply SAME; reflexivity).
    destruct (match k with [] => Some None | _ :: _ => match path_for_key cfg k with Some d => Some (Some d) | None => None end end);
      [|inversion HS; subst; apply SAME; reflexivity].
    match type of HS with context [w_run ?fu ?env ?f ?pc ?l] => destruct (w_run fu env f pc l) as [[f1 r] lg] end.
    inversion HS; subst. intros sid' sp' H. simpl in H. apply nth_error_upd in H. destruct H as [H|H]; try discriminate.
    eapply SI; eauto.
Qed.

Lemma fs_step_inside : forall cfg st o st' ob log,
  escaping cfg -> cfg_wf cfg -> op_len_ok cfg o ->
  prefixes_dirs (fs_fs st) (f_base cfg) -> streams_inside cfg st ->
  fs_step cfg st o = (st', ob, log) ->
  prefixes_dirs (fs_fs st') (f_base cfg) /\ Forall (ev_inside (f_base cfg)) log.
Proof.
  intros cfg st o st' ob log HE HW HL HF SI HS.
  assert (OPEN : forall k r lg, key_len_ok (enc_key cfg k) ->
            fs_open cfg (fs_fs st) k = Some (r, lg) -> Forall (ev_inside (f_base cfg)) lg).
  { intros k r lg L HO. unfold fs_open in HO.
    destruct (empty_key_guard cfg k). { inversion HO; subst. constructor. }
    destruct (path_for_key_inside cfg k HE L) as [rest [E [N [F _]]]]. rewrite E in HO.
    assert (I : inside (f_base cfg) (f_base cfg ++ rest)) by (exists rest; auto).
    unfold do_sys in HO. simpl in HO.
    destruct (resolve (fs_fs st) (f_base cfg ++ rest)) as [[nd|]|e]; simpl in HO;
      inversion HO; subst; simpl; repeat constructor; auto. }
  destruct o; simpl in HS; unfold op_len_ok in HL; simpl in HL.
  - inversion HS; subst. simpl. split; auto.
  - destruct (fs_handle st h); inversion HS; subst; simpl; split; auto.
  - destruct (fs_handle st h); [|inversion HS; subst; split; auto].
    eapply fs_put_inside; eauto.
  - destruct (gather (fs_handle st) hs); [|inversion HS; subst; split; auto].
    eapply fs_put_inside; eauto.
  - destruct (gather (fs_handle st) hs); [|inversion HS; subst; split; auto].
    eapply fs_put_inside; eauto.
  - destruct (fs_open cfg (fs_fs st) k) as [[r lg]|] eqn:O; [|inversion HS; subst; split; auto].
    specialize (OPEN k r lg HL O).
    destruct r as [[c|]|e]; inversion HS; subst; simpl; split; auto.
  - destruct (fs_open cfg (fs_fs st) k) as [[r lg]|] eqn:O; [|inversion HS; subst; split; auto].
    specialize (OPEN k r lg HL O).
    destruct r as [[c|]|e]; inversion HS; subst; simpl; split; auto.
  - destruct (fs_open cfg (fs_fs st) k) as [[r lg]|] eqn:O; [|inversion HS; subst; split; auto].
    specialize (OPEN k r lg HL O).
    destruct r as [[c|]|e]; inversion HS; subst; simpl; split; auto.
  - destruct (fs_has cfg (fs_fs st) k) as [ob' lg] eqn:H.
    assert (G : Forall (ev_inside (f_base cfg)) lg).
    { unfold fs_has in H. destruct (empty_key_guard cfg k). { inversion H; subst. constructor. }
      destruct (path_for_key_inside cfg k HE HL) as [rest [E [N [F _]]]]. rewrite E in H.
      assert (I : inside (f_base cfg) (f_base cfg ++ rest)) by (exists rest; auto).
      unfold do_sys in H. simpl in H.
      destruct (resolve (fs_fs st) (f_base cfg ++ rest)) as [[nd|]|e]; simpl in H;
        inversion H; subst; simpl; repeat constructor; auto. }
    inversion HS; subst. split; auto.
  - (* open a stream: create the staging file *)
    unfold do_sys in HS.
    assert (I : inside (f_base cfg) (stage_path (f_base cfg) (stage_name (fs_ctr st)))).
    { apply stage_inside. apply stage_name_safe. }
    pose proof (sys_exec_prefixes (fs_fs st) (f_base cfg) (SCreat (stage_path (f_base cfg) (stage_name (fs_ctr st)))) HF) as P.
    destruct (sys_exec (fs_fs st) (SCreat (stage_path (f_base cfg) (stage_name (fs_ctr st))))) as [f1 r].
    inversion HS; subst. simpl. split.
    + apply P. simpl. constructor; auto.
    + constructor; auto. unfold ev_inside. simpl. constructor; auto.
  - (* write to a stream *)
    destruct (nth_error (fs_str st) sid) as [[sp|]|] eqn:NS; destruct (fs_handle st h) as [c|];
      try (inversion HS; subst; split; auto; fail).
    assert (I : inside (f_base cfg) sp) by (eapply SI; eauto).
    unfold do_sys in HS.
    pose proof (sys_exec_prefixes (fs_fs st) (f_base cfg) (SWrite sp c) HF) as P.
    destruct (sys_exec (fs_fs st) (SWrite sp c)) as [f1 r].
    inversion HS; subst. simpl. split.
    + apply P. simpl. constructor; auto.
    + constructor; auto. unfold ev_inside. simpl. constructor; auto.
  - (* commit a stream: close, move *)
    destruct (nth_error (fs_str st) sid) as [[sp|]|] eqn:NS; try (inversion HS; subst; split; auto; fail).
    assert (I : inside (f_base cfg) sp) by (eapply SI; eauto).
    assert (D : exists d, (match k with
                | [] => Some None
                | _ => match path_for_key cfg k with Some d => Some (Some d) | None => None end
                end) = Some d /\ dest_ok (f_base cfg) d).
    { destruct k as [|b k'].
      - exists None. simpl. auto.
      - destruct (path_for_key_inside cfg (b :: k') HE HL) as [rest [E [N [F L]]]].
        rewrite E. eexists. split. reflexivity. simpl. exists rest. repeat split; auto. apply L. discriminate. }
    destruct D as [d [ED DO]]. rewrite ED in HS.
    match type of HS with context [w_run ?fu ?env ?f ?pc ?l] => destruct (w_run fu env f pc l) as [[f1 r] lg] eqn:R end.
    inversion HS; subst. simpl.
    match type of R with w_run _ ?env _ _ _ = _ =>
      assert (EI : env_inside env) by (split; simpl; auto; intros; apply (inside_last_safe _ _ I));
      assert (HW' : base_wf (we_base env)) by exact HW;
      assert (HF' : prefixes_dirs (fs_fs st) (we_base env)) by exact HF;
      assert (HP' : pc_inside env (WClose sp None)) by exact I;
      assert (HL' : Forall (ev_inside (we_base env)) []) by constructor;
      pose proof (w_run_inside _ _ _ _ _ _ _ _ EI HW' HF' HP' HL' R) as [R1 R2]
    end.
    split; auto. apply Forall_rev. auto.
Qed.

Theorem fs_run_inside : forall cfg ops st,
  escaping cfg -> cfg_wf cfg -> Forall (op_len_ok cfg) ops ->
  prefixes_dirs (fs_fs st) (f_base cfg) -> streams_inside cfg st ->
  Forall (res_inside (f_base cfg)) (fs_run cfg st ops).
Proof.
  induction ops; intros st HE HW HL HF SI; simpl. constructor.
  inversion HL; subst.
  destruct (fs_step cfg st a) as [[st1 ob] log] eqn:S.
  destruct (fs_step_inside cfg st a st1 ob log HE HW H1 HF SI S) as [F1 F2].
  pose proof (fs_step_streams cfg st a st1 ob log SI S) as SI1.
  constructor; auto.
Qed.

(* the freshly initialised store satisfies the invariant *)
Lemma firstn_app_exact : forall {A} (a b : list A) n, (n <= length a)%nat -> firstn n (a ++ b) = firstn n a.
Proof. intros. rewrite firstn_app. replace (n - length a)%nat with 0%nat by lia. simpl. apply app_nil_r. Qed.

Lemma assoc_dirs_of : forall p pre n, (0 < n <= length p)%nat ->
  assoc_path (dirs_of pre p) (pre ++ firstn n p) = Some Dir.
Proof.
  induction p; intros pre n Hn; simpl in *. lia.
  destruct n; try lia. simpl.
  destruct n.
  - simpl. rewrite path_eqb_refl. auto.
  - destruct (path_eqb (pre ++ [a]) (pre ++ a :: firstn (S n) p)) eqn:E. auto.
    replace (pre ++ a :: firstn (S n) p) with ((pre ++ [a]) ++ firstn (S n) p) by (rewrite <- app_assoc; auto).
    apply IHp. lia.
Qed.

Lemma dirs_of_prefixes : forall base, prefixes_dirs (dirs_of [] base) base.
Proof.
  intros base n Hn. unfold fs_lookup.
  destruct (firstn n base) eqn:E. { exfalso. eapply firstn_nonnil; eauto. }
  rewrite <- E. apply (assoc_dirs_of base [] n Hn).
Qed.

Lemma staging_dir_inside : forall base, inside base (staging_dir base).
Proof.
  intros. exists [temp_name]. split; [discriminate|]. split; [reflexivity|].
  constructor; [apply temp_name_safe|constructor].
Qed.

Lemma fs_init_prefixes : forall cfg f, prefixes_dirs f (f_base cfg) ->
  prefixes_dirs (fst (fs_init cfg f)) (f_base cfg).
Proof.
  intros cfg f P. unfold fs_init.
  destruct (sys_exec f (SStat (f_base cfg))) as [f0 r0].
  destruct r0 as [[|[c|]]|e]; cbn [fst]; auto.
  destruct (sys_exec f (SMkdir (staging_dir (f_base cfg)))) as [f1 r1] eqn:S1.
  assert (P1 : prefixes_dirs f1 (f_base cfg)).
  { replace f1 with (fst (sys_exec f (SMkdir (staging_dir (f_base cfg))))) by (rewrite S1; auto).
    apply sys_exec_prefixes; auto. simpl. constructor; [apply staging_dir_inside|constructor]. }
  destruct r1 as [|e]; cbn [fst]; auto.
  destruct e; cbn [fst]; auto.
  destruct (sys_exec f (SStat (staging_dir (f_base cfg)))) as [f2 r2].
  destruct r2 as [[|[c|]]|e]; cbn [fst]; auto.
Qed.

Lemma fs_fresh_prefixes : forall cfg, prefixes_dirs (fs_fresh cfg) (f_base cfg).
Proof. intros. unfold fs_fresh. apply fs_init_prefixes. apply dirs_of_prefixes. Qed.

Theorem fs_contained : forall cfg ops,
  escaping cfg -> cfg_wf cfg -> Forall (op_len_ok cfg) ops ->
  Forall (res_inside (f_base cfg)) (fs_run cfg (fstate0 cfg) ops).
Proof.
  intros. apply fs_run_inside; auto. simpl. apply fs_fresh_prefixes.
  intros sid sp HX. simpl in HX. destruct sid; discriminate.
Qed.
