(* Proofs/SchemaTop.v — the property-level statements of C08 / C09 / C13 assembled from the step
   developments (SchemaBuild, SchemaRepr, SchemaRound, SchemaEngines) at the fuel the model runs with. *)
Require Import IP.Base.Bytes IP.DM.Value IP.Schema.Types IP.Schema.View IP.Schema.Conform IP.Schema.Sem
  IP.Proofs.SchemaBase IP.Proofs.SchemaBuild IP.Proofs.SchemaRepr IP.Proofs.SchemaRound IP.Proofs.SchemaEngines
  IP.Proofs.SchemaRefute.
From Coq Require Import Lia.
Open Scope N_scope.

Lemma ov_to_dm_of_dm d : ov_to_dm (ov_of_dm d) = Some d.
Proof.
  induction d using dm_ind2; try reflexivity.
  - cbn [ov_of_dm ov_to_dm].
    match goal with |- context [?f (indexed 0%Z _)] => set (go := f) end.
    assert (G : forall i, (0 <= i)%Z -> go (indexed i (map ov_of_dm l)) = Some l).
    { induction H as [|x l Hx Hl IH]; intros i Hi; [reflexivity|].
      cbn [map indexed]. unfold go. cbn [fst snd]. fold go.
      replace (i =? lookup_only)%Z with false by (unfold lookup_only; symmetry; apply Z.eqb_neq; lia).
      rewrite Hx, IH by lia. reflexivity. }
    now rewrite G by lia.
  - cbn [ov_of_dm ov_to_dm].
    match goal with |- context [?f (map _ m)] => set (go := f) end.
    assert (G : go (map (fun kv => (fst kv, ov_of_dm (snd kv))) m) = Some m).
    { induction H as [|[k x] l Hx Hl IH]; [reflexivity|].
      cbn [map]. unfold go. cbn [fst snd]. fold go. cbn [snd] in Hx. rewrite Hx, IH. reflexivity. }
    now rewrite G.
Qed.

(* ================================================================== C08 *)
Theorem views_top e q t v : views_off e q -> on e q q_union_any = false ->
  wf t = true -> has_type t v = true ->
  repr_view e q t v = ov_of_dm (repr_spec t v) /\
  repr e q t v = Some (repr_spec t v) /\
  type_view e q t v = tview_spec t v.
Proof.
  intros Hv Hu Hwf Hh.
  assert (E : repr_view e q t v = ov_of_dm (repr_spec t v)) by (apply views_ok; auto).
  repeat split; auto.
  - unfold repr. rewrite E. apply ov_to_dm_of_dm.
  - apply tview_ok; auto.
Qed.

Theorem two_routes_top e t v : (e = Bind \/ e = Gen) -> wf t = true -> has_type t v = true ->
  tbuild e qoff t (tdm_spec t v) = BOk v /\ rbuild e qoff t (repr_spec t v) = BOk v /\
  conforms_t t (tdm_spec t v) = Some v /\ conforms_r t (repr_spec t v) = Some v.
Proof.
  intros He Hwf Hh.
  assert (Hs : strict e qoff) by (destruct He; subst; [apply strict_bind_qoff|apply strict_gen_qoff]).
  pose proof (repr_round (fuel_of t) t v Hh Hwf) as Hr.
  destruct (tdm_round (fuel_of t) t v Hh Hwf) as [_ Ht].
  repeat split; auto.
  - apply (accept_iff e qoff LType t _ v Hs Hwf). exact Ht.
  - apply (accept_iff e qoff LRepr t _ v Hs Hwf). exact Hr.
Qed.

(* bytes: over any codec, for a value whose representation the codec reproduces exactly (its maps are
   in the codec's canonical order): encode, decode, feed the representation builder, read the
   representation back, encode again — same typed value, same tree, same bytes *)
Section Bytes.
  Variable encode : dm -> option bytes.
  Variable decode : bytes -> option dm.

  Definition reproduced (d : dm) : Prop := forall bs, encode d = Some bs -> decode bs = Some d.

  Theorem bytes_top e t v bs : (e = Bind \/ e = Gen) -> wf t = true -> has_type t v = true ->
    reproduced (repr_spec t v) ->
    match repr e qoff t v with Some d => encode d | None => None end = Some bs ->
    exists d', decode bs = Some d' /\ rbuild e qoff t d' = BOk v /\
               match repr e qoff t v with Some d => encode d | None => None end = Some bs.
  Proof.
    intros He Hwf Hh Hrep Henc.
    assert (Hv : views_off e qoff) by (destruct He; subst; [apply views_off_bind|apply views_off_gen]).
    assert (Hu : on e qoff q_union_any = false) by (destruct He; subst; reflexivity).
    destruct (views_top e qoff t v Hv Hu Hwf Hh) as [_ [Hr _]].
    rewrite Hr in *. exists (repr_spec t v). repeat split; auto.
    apply two_routes_top; auto.
  Qed.
End Bytes.

(* ================================================================== C09 *)
Theorem accept_iff_top e t d v : (e = Bind \/ e = Gen) -> wf t = true ->
  (rbuild e qoff t d = BOk v <-> conforms_r t d = Some v) /\
  (tbuild e qoff t d = BOk v <-> conforms_t t d = Some v).
Proof.
  intros He Hwf.
  assert (Hs : strict e qoff) by (destruct He; subst; [apply strict_bind_qoff|apply strict_gen_qoff]).
  split; [apply (accept_iff e qoff LRepr)|apply (accept_iff e qoff LType)]; auto.
Qed.

Theorem no_panic_top e t d : (e = Bind \/ e = Gen) -> wf t = true ->
  rbuild e qoff t d <> BPanic /\ tbuild e qoff t d <> BPanic.
Proof.
  intros He Hwf.
  assert (Hs : strict e qoff) by (destruct He; subst; [apply strict_bind_qoff|apply strict_gen_qoff]).
  split; [apply (no_panic e qoff LRepr)|apply (no_panic e qoff LType)]; auto.
Qed.

Theorem reject_top e t d : (e = Bind \/ e = Gen) -> wf t = true ->
  (conforms_r t d = None -> exists c, rbuild e qoff t d = BErr c) /\
  (conforms_t t d = None -> exists c, tbuild e qoff t d = BErr c).
Proof.
  intros He Hwf.
  assert (Hs : strict e qoff) by (destruct He; subst; [apply strict_bind_qoff|apply strict_gen_qoff]).
  split; [apply (reject_is_error e qoff LRepr)|apply (reject_is_error e qoff LType)]; auto.
Qed.

(* the full statements about the unchanged tree are false *)
Definition accept_iff_pinned : Prop :=
  forall t d v, wf t = true -> (rbuild Bind pinned t d = BOk v <-> conforms_r t d = Some v).

Lemma accept_iff_pinned_false : ~ accept_iff_pinned.
Proof.
  intros H. destruct refuted_dup_field as [Hwf [[v Hv] Hn]].
  apply (H _ _ v Hwf) in Hv.
  assert (E : Some v = None) by (rewrite <- Hv; exact Hn). discriminate E.
Qed.

Definition no_panic_pinned : Prop := forall t d, wf t = true -> rbuild Bind pinned t d <> BPanic.

Lemma no_panic_pinned_false : ~ no_panic_pinned.
Proof. intros H. destruct refuted_listpairs_unknown_panic as [Hwf Hp]. exact (H _ _ Hwf Hp). Qed.

(* ================================================================== C13 *)
Theorem equiv_top lvl t d : wf t = true -> gen_supported t = true ->
  observe Bind qoff lvl t d = observe Gen qoff lvl t d.
Proof. intros _ _. apply observe_engines. Qed.

Definition equiv_pinned : Prop :=
  forall lvl t d, wf t = true -> gen_supported t = true ->
    bres_sim (observe Bind pinned lvl t d) (observe Gen pinned lvl t d).

Lemma equiv_pinned_false : ~ equiv_pinned.
Proof. intros H. destruct engines_differ_dup_field as [Hwf [Hg Hn]]. exact (Hn (H _ _ _ Hwf Hg)). Qed.
