(* Proofs/LinkCbor.v — the codec laws of Link/LinkSpec.v for the dag-cbor codec, discharged against
   the concrete model coq/Codec/Cbor.v by citing C02's theorems (Proofs/CborEnc.v: closed form of the
   encoder, independence of map entry order; Proofs/CborDec.v: decode (encode v) = sorted v). *)
Require Import IP.Base.Bytes IP.DM.Value IP.Codec.Cid IP.Codec.Cbor IP.Gen.FromGo.
Require Import IP.Link.LinkSys IP.Link.LinkSpec.
Require Import IP.Proofs.BytesFacts IP.Proofs.CborEnc IP.Proofs.CborDec IP.Proofs.LinkBase IP.Proofs.LinkC05.
From Coq Require Import ZifyN ZifyNat ZifyBool.
Open Scope N_scope.

Lemma dagcbor_enc rt v : c_enc (dagcbor_codec rt) v = Some [encb SortRFC7049 v].
Proof.
  unfold dagcbor_codec, cbor_family_codec. cbn [c_enc].
  now rewrite enc_ok by reflexivity.
Qed.

(* values equal up to map entry order get the same dag-cbor bytes, hence the same link *)
Lemma dagcbor_order_insensitive rt : order_insensitive perm_eq (dagcbor_codec rt) keys_nodup.
Proof.
  intros v1 v2 D1 _ P. rewrite !dagcbor_enc. do 2 f_equal.
  apply encb_perm_invariant; [discriminate|assumption|assumption].
Qed.

(* the values for which the dag-cbor round trip is claimed: within the decoder's default limits *)
Definition dagcbor_dom (v : dm) : Prop :=
  rt_ok v /\ (Z.of_nat (dm_depth v) <= go_defaultMaxDepth)%Z /\ (cost v <= go_defaultAllocationBudget)%Z.

Lemma dagcbor_roundtrips rt : roundtrips (dagcbor_codec rt) dagcbor_dom (sort_maps rfc_ltb).
Proof.
  intros v chunks (Hok & Hd & Hc). rewrite dagcbor_enc. intros E; inversion E; subst chunks. clear E.
  cbn [concat]. rewrite app_nil_r.
  unfold dagcbor_codec, cbor_family_codec. cbn [c_dec].
  rewrite (decode_encode SortRFC7049 (cbor_dopts true rt) v); auto.
  rewrite sortv_rfc.
  replace (lenN (encb SortRFC7049 v) - lenN (@nil N)) with (lenN (encb SortRFC7049 v))
    by (unfold lenN; cbn [length]; lia).
  reflexivity.
Qed.

Section DagCborLinks.
  Variable hasher_ok : N -> bool.
  Variable hash : N -> bytes -> bytes.
  Variable encoders : N -> option codec.
  Variable decoders : N -> option codec.
  Variable rt : bool.

  (* the registry resolves the dag-cbor code to the dag-cbor codec in both directions (as
     default_registry does) *)
  Hypothesis Hreg : encoders 113 = Some (dagcbor_codec rt).
  Hypothesis Hregd : decoders 113 = Some (dagcbor_codec rt).

  Theorem dagcbor_link_fn_perm lp v1 v2 :
    lp_codec lp = 113 -> keys_nodup v1 -> keys_nodup v2 -> perm_eq v1 v2 ->
    compute hasher_ok hash encoders lp v1 = compute hasher_ok hash encoders lp v2.
  Proof.
    intros C D1 D2 P. eapply (link_fn_perm hasher_ok hash encoders perm_eq); eauto.
    - rewrite C. exact Hreg.
    - apply dagcbor_order_insensitive.
  Qed.

  Theorem dagcbor_store_load sk tr h1 h2 lp v l b f :
    lp_version lp = 1 -> lp_codec lp = 113 -> dagcbor_dom v ->
    store_plan hasher_ok hash encoders lp v = Some (l, b) ->
    no_collision hasher_ok hash encoders sk (skey sk l) b (h1 ++ OStore lp v :: h2) ->
    let st := snd (run hasher_ok hash encoders decoders true sk tr [] (h1 ++ OStore lp v :: h2)) in
    load_any hasher_ok hash decoders f tr (honest_read sk st l) l = loaded f (sort_maps rfc_ltb v) b /\
    verify hash l b = VOk.
  Proof.
    intros V C D P NC.
    eapply (store_load_roundtrip hasher_ok hash encoders decoders); eauto.
    - rewrite C. exact Hreg.
    - rewrite C. exact Hregd.
    - apply dagcbor_roundtrips.
  Qed.
End DagCborLinks.

Lemma default_registry_dagcbor rt dj j : default_registry rt dj j 113 = Some (dagcbor_codec rt).
Proof. reflexivity. Qed.

(* the premises are satisfiable: a two-entry map in both insertion orders *)
Example dagcbor_perm_hyp_sat :
  let v1 := DMap [([98], DInt 1); ([97], DInt 2)] in
  let v2 := DMap [([97], DInt 2); ([98], DInt 1)] in
  keys_nodup v1 /\ keys_nodup v2 /\ perm_eq v1 v2 /\ dagcbor_dom v1.
Proof.
  cbv zeta. split; [|split; [|split]].
  - cbn. split; [|auto]. repeat constructor; cbn; intuition discriminate.
  - cbn. split; [|auto]. repeat constructor; cbn; intuition discriminate.
  - eapply pe_map with (m2 := [([98], DInt 1); ([97], DInt 2)]).
    + repeat constructor.
    + apply Permutation.perm_swap.
  - unfold dagcbor_dom. split; [|split].
    + cbn. unfold two63, two63z, two64z, str_cap, lenN; cbn. repeat split; try lia.
      repeat constructor; cbn; intuition discriminate.
    + cbn. unfold go_defaultMaxDepth. lia.
    + vm_compute. discriminate.
Qed.
