(* Proofs/JsonUtf8.v — facts about the UTF-8 model (Codec/Utf8.v): a successful utf8_decode is
   inverted by utf8_encode, consumes 1..4 bytes, and never yields a surrogate. *)
Require Import IP.Base.Bytes IP.Codec.Utf8.
From Coq Require Import ZifyN ZifyNat ZifyBool.
Ltac Zify.zify_post_hook ::= Z.div_mod_to_equations.
Open Scope N_scope.

Ltac ncase :=
  match goal with
  | |- context[N.eqb ?a ?b] => destruct (N.eqb_spec a b)
  | |- context[N.ltb ?a ?b] => destruct (N.ltb_spec a b)
  | |- context[N.leb ?a ?b] => destruct (N.leb_spec a b)
  | H : context[N.eqb ?a ?b] |- _ => destruct (N.eqb_spec a b)
  | H : context[N.ltb ?a ?b] |- _ => destruct (N.ltb_spec a b)
  | H : context[N.leb ?a ?b] |- _ => destruct (N.leb_spec a b)
  end; cbn [andb orb negb] in *; try lia; try discriminate.

Definition dec_err (p : N * nat) : bool := (fst p =? rune_error) && Nat.eqb (snd p) 1.

Lemma utf8_decode_inv s c sz :
  utf8_decode s = (c, sz) -> dec_err (c, sz) = false -> s <> [] ->
  utf8_encode c = firstn sz s /\ (1 <= sz <= 4)%nat /\ (sz <= length s)%nat /\
  (sz = 1%nat <-> c < 128) /\ (c < 128 -> s = c :: tl s) /\ is_surrogate c = false /\ c <= 1114111.
Proof.
  intros D E NE. destruct s as [|b0 r]; [congruence|clear NE].
  unfold utf8_decode in D. unfold dec_err, rune_error in E. cbn [fst snd] in E.
  destruct (N.ltb_spec b0 128).
  { inversion D; subst. unfold utf8_encode, is_surrogate. repeat ncase.
    cbn. repeat split; try lia; auto. }
  destruct ((b0 <? 194) || (244 <? b0)) eqn:R.
  { inversion D; subst. cbn in E. discriminate. }
  destruct (N.ltb_spec b0 224).
  { destruct r as [|b1 r]; [inversion D; subst; cbn in E; discriminate|].
    unfold is_cont in D. destruct ((128 <=? b1) && (b1 <=? 191)) eqn:C;
      [|inversion D; subst; cbn in E; discriminate].
    inversion D; subst. clear D E.
    assert (194 <= b0) by (repeat ncase). assert (128 <= b1 <= 191) by (repeat ncase).
    unfold utf8_encode, is_surrogate. repeat ncase.
    cbn [firstn length]. repeat split; try lia.
    f_equal; [lia|f_equal; lia]. }
  destruct (N.ltb_spec b0 240).
  { destruct r as [|b1 [|b2 r]]; try (inversion D; subst; cbn in E; discriminate).
    unfold is_cont in D.
    match type of D with (if ?c then _ else _) = _ => destruct c eqn:C end;
      [|inversion D; subst; cbn in E; discriminate].
    inversion D; subst. clear D E.
    assert (B1 : (if b0 =? 224 then 160 else 128) <= b1 <= (if b0 =? 237 then 159 else 191)) by (repeat ncase).
    assert (128 <= b2 <= 191) by (repeat ncase). clear C R.
    unfold utf8_encode, is_surrogate.
    destruct (N.eqb_spec b0 224); destruct (N.eqb_spec b0 237); try lia;
    repeat ncase; cbn [firstn length]; (repeat split; try lia);
    (f_equal; [lia|f_equal; [lia|f_equal; lia]]). }
  destruct r as [|b1 [|b2 [|b3 r]]]; try (inversion D; subst; cbn in E; discriminate).
  unfold is_cont in D.
  match type of D with (if ?c then _ else _) = _ => destruct c eqn:C end;
    [|inversion D; subst; cbn in E; discriminate].
  inversion D; subst. clear D E.
  assert (B0 : 240 <= b0 <= 244) by (repeat ncase).
  assert (B1 : (if b0 =? 240 then 144 else 128) <= b1 <= (if b0 =? 244 then 143 else 191)) by (repeat ncase).
  assert (128 <= b2 <= 191) by (repeat ncase).
  assert (128 <= b3 <= 191) by (repeat ncase). clear C R.
  unfold utf8_encode, is_surrogate.
  destruct (N.eqb_spec b0 240); destruct (N.eqb_spec b0 244); try lia;
  repeat ncase; cbn [firstn length]; (repeat split; try lia);
  (f_equal; [lia|f_equal; [lia|f_equal; [lia|f_equal; lia]]]).
Qed.

(* the decoder looks only at the bytes it consumes; a multi-byte sequence has no ASCII byte *)
Lemma utf8_decode_prefix s c sz :
  utf8_decode s = (c, sz) -> dec_err (c, sz) = false -> s <> [] ->
  (forall x, utf8_decode (firstn sz s ++ x) = (c, sz)) /\
  (128 <= c -> Forall (fun b => 128 <= b) (firstn sz s)).
Proof.
  intros D E NE. destruct s as [|b0 r]; [congruence|clear NE].
  unfold utf8_decode in D. unfold dec_err, rune_error in E. cbn [fst snd] in E.
  destruct (N.ltb_spec b0 128) as [L|L].
  { inversion D; subst. split; [|lia]. intros x. cbn [firstn app]. unfold utf8_decode.
    destruct (N.ltb_spec c 128); [reflexivity|lia]. }
  destruct ((b0 <? 194) || (244 <? b0)) eqn:R.
  { inversion D; subst. cbn in E. discriminate. }
  destruct (N.ltb_spec b0 224) as [L2|L2].
  { destruct r as [|b1 r]; [inversion D; subst; cbn in E; discriminate|].
    destruct (is_cont b1) eqn:C; [|inversion D; subst; cbn in E; discriminate].
    inversion D; subst. split.
    - intros x. cbn [firstn app]. unfold utf8_decode. rewrite R, C.
      destruct (N.ltb_spec b0 128); [lia|]. destruct (N.ltb_spec b0 224); [reflexivity|lia].
    - intros _. cbn [firstn]. unfold is_cont in C. repeat constructor; repeat ncase. }
  destruct (N.ltb_spec b0 240) as [L3|L3].
  { destruct r as [|b1 [|b2 r]]; try (inversion D; subst; cbn in E; discriminate).
    match type of D with (if ?c then _ else _) = _ => destruct c eqn:C end;
      [|inversion D; subst; cbn in E; discriminate].
    inversion D; subst. split.
    - intros x. cbn [firstn app]. unfold utf8_decode. rewrite R, C.
      destruct (N.ltb_spec b0 128); [lia|]. destruct (N.ltb_spec b0 224); [lia|].
      destruct (N.ltb_spec b0 240); [reflexivity|lia].
    - intros _. cbn [firstn]. unfold is_cont in C.
      destruct (N.eqb_spec b0 224); destruct (N.eqb_spec b0 237); repeat constructor; repeat ncase. }
  destruct r as [|b1 [|b2 [|b3 r]]]; try (inversion D; subst; cbn in E; discriminate).
  match type of D with (if ?c then _ else _) = _ => destruct c eqn:C end;
    [|inversion D; subst; cbn in E; discriminate].
  inversion D; subst. split.
  - intros x. cbn [firstn app]. unfold utf8_decode. rewrite R, C.
    destruct (N.ltb_spec b0 128); [lia|]. destruct (N.ltb_spec b0 224); [lia|].
    destruct (N.ltb_spec b0 240); [lia|reflexivity].
  - intros _. cbn [firstn]. unfold is_cont in C.
    destruct (N.eqb_spec b0 240); destruct (N.eqb_spec b0 244); repeat constructor; repeat ncase.
Qed.

(* U+2028 / U+2029 have exactly one encoding *)
Lemma utf8_decode_2028 s c sz :
  utf8_decode s = (c, sz) -> dec_err (c, sz) = false -> c = 8232 \/ c = 8233 ->
  firstn sz s = [226; 128; 168 + (c - 8232)] /\ sz = 3%nat.
Proof.
  intros D E Hc. destruct s as [|b0 r]; [cbn in D; unfold rune_error in D; inversion D; subst; lia|].
  assert (NE : b0 :: r <> []) by congruence.
  destruct (utf8_decode_inv _ _ _ D E NE) as (En & _ & Hl & _ & _ & _ & _).
  assert (L : length (utf8_encode c) = 3%nat) by (destruct Hc; subst c; reflexivity).
  rewrite En, firstn_length in L.
  split; [|lia]. rewrite <- En. destruct Hc; subst c; reflexivity.
Qed.
