(* Proofs/JsonBase64.v — base64: Go's decoder (Raw, then Std as fallback) inverts RawStdEncoding. *)
Require Import IP.Base.Bytes IP.Codec.Base64 IP.Proofs.JsonUtf8.
From Coq Require Import ZifyN ZifyNat ZifyBool.
Ltac Zify.zify_post_hook ::= Z.div_mod_to_equations.
Open Scope N_scope.

Lemma b64_val_char v : v < 64 -> b64_val (b64_char v) = Some v.
Proof.
  intros H. unfold b64_char, b64_val.
  destruct (N.ltb_spec v 26); [repeat ncase; f_equal; lia|].
  destruct (N.ltb_spec v 52); [repeat ncase; f_equal; lia|].
  destruct (N.ltb_spec v 62); [repeat ncase; f_equal; lia|].
  destruct (N.eqb_spec v 62); [subst; reflexivity|].
  assert (v = 63) by lia. subst. reflexivity.
Qed.

Lemma b64_dec_quad pad c1 c2 c3 c4 v1 v2 v3 v4 R :
  b64_val c1 = Some v1 -> b64_val c2 = Some v2 -> b64_val c3 = Some v3 -> b64_val c4 = Some v4 ->
  b64_dec pad (c1 :: c2 :: c3 :: c4 :: R) [] = ocons (b64_out [v1; v2; v3; v4]) (b64_dec pad R []).
Proof. intros H1 H2 H3 H4. cbn [b64_dec]. rewrite H1, H2, H3, H4. reflexivity. Qed.

Lemma b64_raw_roundtrip n : forall bs, (length bs <= n)%nat -> Forall (fun b => b < 256) bs ->
  b64_dec false (b64_encode bs) [] = Some bs.
Proof.
  induction n as [|n IH]; intros bs L F.
  { destruct bs; [reflexivity|cbn in L; lia]. }
  destruct bs as [|a [|b [|c r]]].
  - reflexivity.
  - inversion F; subst. cbn [b64_encode b64_dec].
    rewrite !b64_val_char by lia. cbn [app b64_out]. do 2 f_equal. lia.
  - inversion F as [|? ? Ha F1]; inversion F1 as [|? ? Hb _]; subst. cbn [b64_encode b64_dec].
    rewrite !b64_val_char by lia. cbn [app b64_out]. f_equal. f_equal; [lia|f_equal; lia].
  - inversion F as [|? ? Ha F1]; inversion F1 as [|? ? Hb F2]; inversion F2 as [|? ? Hc F3]; subst.
    cbn [b64_encode].
    rewrite (b64_dec_quad false _ _ _ _ (a / 4) ((a mod 4) * 16 + b / 16) ((b mod 16) * 4 + c / 64) (c mod 64))
      by (apply b64_val_char; lia).
    rewrite IH; [|cbn [length] in L; lia|assumption].
    cbn [ocons b64_out app]. f_equal. f_equal; [lia|f_equal; [lia|f_equal; lia]].
Qed.

(* the bytes part of C04 *)
Theorem base64_roundtrip bs : Forall (fun b => b < 256) bs -> b64_decode_go (b64_encode bs) = Some bs.
Proof. intros F. unfold b64_decode_go. now rewrite (b64_raw_roundtrip (length bs) bs (le_n _) F). Qed.
