(* Proofs/XformSeg.v — an int-stored path segment (datamodel.PathSegmentOfInt i, i >= 0) and the
   string-stored segment with its decimal rendering are the same thing to the model: the list index
   the model parses out of the rendering is i again (PathSegment.Index() returns i for the former). *)
Require Import IP.Base.Bytes IP.DM.Value IP.Xform.Transform.
From Coq Require Import Lia ZifyN ZifyNat ZifyBool.
Ltac Zify.zify_post_hook ::= Z.div_mod_to_equations.
Open Scope Z_scope.

Lemma digit_ok m : (m < 10)%N -> digit (48 + m)%N = Some (Z.of_N m).
Proof.
  intro H. unfold digit.
  assert (E1 : N.leb 48 (48 + m) = true) by (apply N.leb_le; lia).
  assert (E2 : N.leb (48 + m) 57 = true) by (apply N.leb_le; lia).
  rewrite E1, E2. cbn [andb]. f_equal. lia.
Qed.

Lemma dec_digits_spec : forall fu n rest, (n < 10 ^ N.of_nat (S fu))%N ->
  exists k d tl, dec_digits (S fu) n rest = d :: tl /\ (48 <= d <= 57)%N /\
                 forall a, digits (d :: tl) a = digits rest (a * 10 ^ k + Z.of_N n) /\ 0 <= k.
Proof.
  induction fu as [|fu IH]; intros n rest H.
  - assert (Hn : (n < 10)%N) by (simpl in H; lia).
    simpl. apply N.ltb_lt in Hn as Hb. rewrite Hb.
    exists 1, (48 + n mod 10)%N, rest. rewrite N.mod_small by exact Hn.
    split; [reflexivity|]. split; [lia|]. intro a. split; [|lia].
    cbn [digits]. rewrite (digit_ok n Hn). f_equal; lia.
  - cbn [dec_digits]. destruct (n <? 10)%N eqn:Hb.
    + apply N.ltb_lt in Hb.
      exists 1, (48 + n mod 10)%N, rest. rewrite N.mod_small by exact Hb.
      split; [reflexivity|]. split; [lia|]. intro a. split; [|lia].
      cbn [digits]. rewrite (digit_ok n Hb). f_equal; lia.
    + apply N.ltb_ge in Hb.
      assert (Hq : (n / 10 < 10 ^ N.of_nat (S fu))%N).
      { replace (N.of_nat (S (S fu))) with (N.succ (N.of_nat (S fu))) in H by lia.
        rewrite N.pow_succ_r' in H. apply N.div_lt_upper_bound; lia. }
      destruct (IH (n / 10)%N ((48 + n mod 10)%N :: rest) Hq) as (k & d & tl & E & Hd & Hs).
      exists (k + 1), d, tl. split; [exact E|]. split; [exact Hd|]. intro a.
      destruct (Hs a) as [Hs1 Hk]. split; [|lia]. rewrite Hs1. cbn [digits].
      assert (Hm : (n mod 10 < 10)%N) by (apply N.mod_lt; lia).
      rewrite (digit_ok _ Hm). f_equal.
      assert (Hn : Z.of_N n = 10 * Z.of_N (n / 10) + Z.of_N (n mod 10)) by lia.
      rewrite Hn, Z.pow_add_r, Z.pow_1_r by lia. ring.
Qed.

Lemma parse_int_nosign d tl : (48 <= d)%N -> parse_int (d :: tl) = parse_body 1 (d :: tl).
Proof.
  intro H. unfold parse_int.
  destruct d as [|p]; [reflexivity|].
  do 6 (destruct p as [p|p|]; try reflexivity); lia.
Qed.

(* PathSegmentOfInt(i).Index() = i = ParseInt(PathSegmentOfInt(i).String()) *)
Theorem parse_int_dec i : 0 <= i < two63z -> parse_int (dec_of_Z i) = Some i.
Proof.
  intros [H0 H1]. unfold dec_of_Z.
  assert (Hb : (Z.to_N i < 10 ^ N.of_nat 20)%N) by (unfold two63z in H1; simpl; lia).
  destruct (dec_digits_spec 19 (Z.to_N i) [] Hb) as (k & d & tl & E & Hd & Hs).
  rewrite E, parse_int_nosign by lia. unfold parse_body.
  destruct (Hs 0) as [Hs0 _]. rewrite Hs0. cbn [digits].
  replace (0 * 10 ^ k + Z.of_N (Z.to_N i)) with i by lia.
  rewrite Z.mul_1_l. unfold in_int64.
  assert (E1 : (- two63z <=? i) = true) by (apply Z.leb_le; unfold two63z; lia).
  assert (E2 : (i <? two63z) = true) by (apply Z.ltb_lt; lia).
  now rewrite E1, E2.
Qed.

(* consequently an int-stored index and its string-stored rendering select the same list position *)
Corollary xseg_int_is_index i : 0 <= i < two63z -> list_seg (xseg_string (SegI i)) = LIdx i.
Proof.
  intro H. unfold xseg_string, list_seg.
  assert (E : (i <? 0) = false) by (apply Z.ltb_ge; lia). rewrite E.
  now rewrite parse_int_dec.
Qed.
