(* Proofs/GoLeaf.v — facts about leaf functions translated from the Go source by gotrans
   (coq/Gen/FromGo.v).  These are re-checked against the current source on every run. *)
Require Import IP.Base.GoSem IP.Gen.FromGo.
From Coq Require Import Lia ZifyBool.
Ltac Zify.zify_post_hook ::= Z.div_mod_to_equations.
Open Scope Z_scope.

Lemma wrap64_id z : in64 z -> wrap64 z = z.
Proof. unfold in64, wrap64, two63. intros. lia. Qed.

(* traversal/selector/matcher.go sliceBounds: whenever it reports a match, 0 <= from <= to <= length
   and from < length — for every int64 from/to and every non-negative int64 length; no overflow
   can produce an out-of-range slice. *)
Theorem slice_bounds_safe from to length :
  in64 from -> in64 to -> 0 <= length < two63 ->
  forall f t, go_sliceBounds from to length = (true, f, t) -> 0 <= f <= t /\ t <= length /\ f < length.
Proof.
  intros Hf Ht Hl f t. unfold go_sliceBounds, add64.
  assert (Hw1 : wrap64 (length + to) = length + to \/ 0 <= to) by
    (destruct (Z_lt_le_dec to 0); [left; apply wrap64_id; unfold in64, two63 in *; lia | right; lia]).
  assert (Hw2 : wrap64 (length + from) = length + from \/ 0 <= from) by
    (destruct (Z_lt_le_dec from 0); [left; apply wrap64_id; unfold in64, two63 in *; lia | right; lia]).
  unfold in64, two63 in *.
  repeat match goal with
  | |- context [if ?c then _ else _] => destruct c eqn:?
  end; intros E; inversion E; subst; clear E; try lia;
  destruct Hw1 as [Hw1|Hw1]; destruct Hw2 as [Hw2|Hw2]; try rewrite Hw1 in *; try rewrite Hw2 in *; lia.
Qed.

Lemma triple_eq (x : bool) (a a' b b' : Z) : a = a' -> b = b' -> (x, a, b) = (x, a', b').
Proof. intros -> ->. reflexivity. Qed.

(* and it is exactly the intended normalisation: negative bounds count from the end, the upper
   bound is clipped to the length, a negative lower bound is clipped to 0 *)
Theorem slice_bounds_spec from to length :
  in64 from -> in64 to -> 0 <= length < two63 ->
  let to' := if to <? 0 then length + to else Z.min to length in
  let from' := if from <? 0 then Z.max 0 (length + from) else from in
  go_sliceBounds from to length =
    if (from' >? to') || (from' >=? length) then (false, 0, 0) else (true, from', to').
Proof.
  intros Hf Ht Hl. cbv zeta. unfold go_sliceBounds, add64.
  assert (Hw1 : to < 0 -> wrap64 (length + to) = length + to) by
    (intros; apply wrap64_id; unfold in64, two63 in *; lia).
  assert (Hw2 : from < 0 -> wrap64 (length + from) = length + from) by
    (intros; apply wrap64_id; unfold in64, two63 in *; lia).
  unfold in64, two63 in *.
  destruct (Z.ltb_spec to 0); [rewrite Hw1 by lia|]; (destruct (Z.ltb_spec from 0); [rewrite Hw2 by lia|]);
  repeat match goal with
  | |- context [if ?c then _ else _] => destruct c eqn:?
  end; try reflexivity; try (apply triple_eq; lia); lia.
Qed.

(* codec/dagcbor/marshal.go uintLength: the length of the shortest CBOR head for an argument *)
Theorem uint_length_spec ii : 0 <= ii ->
  go_uintLength ii = if ii <? 24 then 1 else if ii <? 256 then 2 else if ii <? 65536 then 3
                     else if ii <? 4294967296 then 5 else 9.
Proof.
  intros H. unfold go_uintLength.
  repeat match goal with |- context [if ?c then _ else _] => destruct c eqn:? end; try reflexivity; lia.
Qed.

(* storage/sharding: the shard functions never hit a slice-bounds panic, the last component is
   the key itself, and every other component is a substring of the key or "0" padding of the
   stated width *)
Lemma substr_ok {A} (s : list A) lo hi : 0 <= lo <= hi -> hi <= len64 s ->
  substr s lo hi = Some (firstn (Z.to_nat (hi - lo)) (skipn (Z.to_nat lo) s)).
Proof.
  intros H1 H2. unfold substr.
  destruct (Z.leb_spec 0 lo); [|lia]. destruct (Z.leb_spec lo hi); [|lia]. destruct (Z.leb_spec hi (len64 s)); [|lia].
  reflexivity.
Qed.

Lemma len64_bound {A} (s : list A) : 0 <= len64 s.
Proof. unfold len64. lia. Qed.

Theorem shard_r12_total key : len64 key < two63 -> exists a, go_Shard_r12 key = Some [a; key] /\ length a = 2%nat.
Proof.
  intros Hb. unfold go_Shard_r12, sub64. pose proof (len64_bound key).
  destruct (Z.gtb_spec (len64 key) 2).
  - rewrite !wrap64_id by (unfold in64, two63 in *; lia).
    rewrite substr_ok by lia. eexists. split; [reflexivity|].
    rewrite firstn_length, skipn_length. unfold len64 in *. lia.
  - eexists. split; [reflexivity|reflexivity].
Qed.

Theorem shard_r122_total key : len64 key < two63 ->
  exists a b, go_Shard_r122 key = Some [a; b; key] /\ length a = 2%nat /\ length b = 2%nat.
Proof.
  intros Hb. unfold go_Shard_r122, sub64. pose proof (len64_bound key).
  destruct (Z.gtb_spec (len64 key) 4).
  - rewrite !wrap64_id by (unfold in64, two63 in *; lia).
    rewrite !substr_ok by lia. do 2 eexists. split; [reflexivity|].
    rewrite !firstn_length, !skipn_length. unfold len64 in *. lia.
  - destruct (Z.gtb_spec (len64 key) 2).
    + rewrite !wrap64_id by (unfold in64, two63 in *; lia).
      rewrite !substr_ok by lia. do 2 eexists. split; [reflexivity|].
      rewrite !firstn_length, !skipn_length. unfold len64 in *. cbn [length]. lia.
    + do 2 eexists. split; [reflexivity|split; reflexivity].
Qed.

Theorem shard_r133_total key : len64 key < two63 ->
  exists a b, go_Shard_r133 key = Some [a; b; key] /\ length a = 3%nat /\ length b = 3%nat.
Proof.
  intros Hb. unfold go_Shard_r133, sub64. pose proof (len64_bound key).
  destruct (Z.gtb_spec (len64 key) 6).
  - rewrite !wrap64_id by (unfold in64, two63 in *; lia).
    rewrite !substr_ok by lia. do 2 eexists. split; [reflexivity|].
    rewrite !firstn_length, !skipn_length. unfold len64 in *. lia.
  - destruct (Z.gtb_spec (len64 key) 3).
    + rewrite !wrap64_id by (unfold in64, two63 in *; lia).
      rewrite !substr_ok by lia. do 2 eexists. split; [reflexivity|].
      rewrite !firstn_length, !skipn_length. unfold len64 in *. cbn [length]. lia.
    + do 2 eexists. split; [reflexivity|split; reflexivity].
Qed.
